#!/bin/bash
# Runs the repository's own test suite with the verification guard OFF, on a scratch copy
# (cmake configure writes export.hpp/version.hpp into the source tree, so never in /repo itself).
set -e
SCRATCH=$(mktemp -d /var/tmp/tpp-baseline.XXXXXX)
trap 'rm -rf "$SCRATCH"' EXIT
rsync -a --exclude _build --exclude .git /repo/ "$SCRATCH/src/"
cd "$SCRATCH/src"
CMAKE_ARGS="-DCMAKE_BUILD_TYPE=RelWithDebInfo -DTERMINALPP_WITH_TESTS=ON -DCMAKE_PREFIX_PATH=/root/miniconda -DCMAKE_CXX_FLAGS=-Wno-error"
cmake -G Ninja -B "$SCRATCH/build" $CMAKE_ARGS . > "$SCRATCH/configure.log" 2>&1 || { cat "$SCRATCH/configure.log"; exit 1; }
cmake --build "$SCRATCH/build" -j 16 > "$SCRATCH/build.log" 2>&1 || { tail -50 "$SCRATCH/build.log"; exit 1; }
ctest --test-dir "$SCRATCH/build" -j8 --timeout 900 2>&1 | tail -15
"$SCRATCH/build/terminalpp_tester" --gtest_brief=1 2>&1 | tail -4
