// C12: several objects alive at once, their scripts executed interleaved on one thread (round-robin or a
// seeded random schedule) or concurrently, one thread per object (build with -fsanitize=thread).
// stdin:  first line `<mode> <seed>` (mode 0 round-robin, 1 random, 2 threads), then one script line per object
//         (kinds T and S step operation by operation; every other kind is a single step).
// stdout: one answer line per object, in the format of harness/exec.cpp.
#define EXEC_NO_MAIN
#include "exec.cpp"

#include <atomic>
#include <memory>
#include <random>
#include <thread>

struct stepper
{
    virtual ~stepper() = default;
    virtual bool done() const = 0;
    virtual void step() = 0;
    virtual std::string result() = 0;
};

struct terminal_stepper : stepper
{
    std::vector<std::string> parts;
    std::size_t i = 1;
    std::unique_ptr<terminal_script> ts;
    explicit terminal_stepper(std::string const &rest) : parts(split(rest, ';'))
    {
        reader head(parts[0]);
        ts = std::make_unique<terminal_script>(head.num());
    }
    bool done() const override { return i >= parts.size(); }
    void step() override { ts->op(parts[i++]); }
    std::string result() override { return ts->result(); }
};

struct screen_stepper : stepper
{
    std::vector<std::string> parts;
    std::size_t i = 1;
    test_channel ch;
    std::unique_ptr<terminal> t;
    std::unique_ptr<screen> scr;
    canvas cvs{{0, 0}};
    std::string res;
    explicit screen_stepper(std::string const &rest) : parts(split(rest, ';'))
    {
        reader head(parts[0]);
        t = std::make_unique<terminal>(ch, read_behaviour(head.num()));
        scr = std::make_unique<screen>(*t);
        g_kept_ref = nullptr;
        g_kept_owner = nullptr;
    }
    bool done() const override { return i >= parts.size(); }
    void step() override { screen_script_op(parts[i++], *t, *scr, cvs, ch, res); }
    std::string result() override { return res.empty() ? "-" : res; }
};

// an `I` line: each run is a fresh terminal; one step = one delivery.  ALL runs of the line are alive at once
// (their deliveries are taken in turn), so even a single `I` object interleaves several decoders.
struct input_stepper : stepper
{
    struct run_state
    {
        std::unique_ptr<test_channel> ch;
        std::unique_ptr<terminal> t;
        std::unique_ptr<input_client> client;
        std::vector<std::string> chunks;
        std::size_t i = 0;
        std::string res;
        bool empty = false;
    };
    std::vector<run_state> runs;
    std::size_t next = 0;
    explicit input_stepper(std::string const &rest)
    {
        for (auto const &run : split(rest, '/')) {
            run_state rs;
            reader r(run);
            std::string w = r.word();
            if (w.empty()) { rs.empty = true; runs.push_back(std::move(rs)); continue; }
            rs.ch = std::make_unique<test_channel>();
            rs.t = std::make_unique<terminal>(*rs.ch);
            rs.client = std::make_unique<input_client>();
            rs.client->start(*rs.t);
            rs.chunks = split(w, ',');
            runs.push_back(std::move(rs));
        }
    }
    bool done() const override
    {
        for (auto const &rs : runs) if (!rs.empty && rs.i < rs.chunks.size()) return false;
        return true;
    }
    void step() override
    {
        for (std::size_t k = 0; k < runs.size(); ++k) {
            auto &rs = runs[(next + k) % runs.size()];
            if (rs.empty || rs.i >= rs.chunks.size()) continue;
            byte_storage data = unhex(rs.chunks[rs.i]);
            rs.client->calls = 0;
            rs.client->toks.clear();
            rs.ch->deliver(bytes{data.data(), data.size()});
            if (rs.i > 0) rs.res += " ; ";
            rs.res += std::to_string(rs.client->calls) + ":" + rs.client->toks;
            ++rs.i;
            next = (next + k + 1) % runs.size();
            return;
        }
    }
    std::string result() override
    {
        std::string ans;
        bool first = true;
        for (auto const &rs : runs) {
            if (!first) ans += " / ";
            first = false;
            ans += rs.empty ? std::string(".") : rs.res;
        }
        return ans;
    }
};

struct single_stepper : stepper
{
    std::string line, ans;
    bool finished = false;
    explicit single_stepper(std::string l) : line(std::move(l)) {}
    bool done() const override { return finished; }
    void step() override
    {
        char kind = line[0];
        std::string rest = line.size() > 1 ? line.substr(1) : std::string();
        reader r(rest);
        switch (kind) {
            case 'M': ans = run_multi(rest); break;
            case 'D': ans = run_lookup(r); break;
            case 'N': ans = run_encode_cs(r); break;
            case 'H': ans = run_high(r); break;
            case 'X': ans = run_components(r); break;
            case 'Y': ans = run_grey(r); break;
            default: ans = run_more(kind, rest); break;
        }
        finished = true;
    }
    std::string result() override { return ans; }
};

int main()
{
    std::string line;
    std::getline(std::cin, line);
    reader head(line);
    long mode = head.num();
    long seed = head.num();
    std::vector<std::unique_ptr<stepper>> objs;
    while (std::getline(std::cin, line)) {
        if (line.empty()) continue;
        if (line[0] == 'T') objs.push_back(std::make_unique<terminal_stepper>(line.substr(1)));
        else if (line[0] == 'S') objs.push_back(std::make_unique<screen_stepper>(line.substr(1)));
        else if (line[0] == 'I') objs.push_back(std::make_unique<input_stepper>(line.substr(1)));
        else objs.push_back(std::make_unique<single_stepper>(line));
    }
    if (mode == 2) {
        std::atomic<int> ready{0};
        std::vector<std::thread> threads;
        int const n = static_cast<int>(objs.size());
        for (auto &o : objs) {
            threads.emplace_back([&ready, n, p = o.get()]() {
                ++ready;
                while (ready.load() < n) std::this_thread::yield();
                while (!p->done()) p->step();
            });
        }
        for (auto &th : threads) th.join();
    }
    else {
        std::mt19937 rng(static_cast<unsigned>(seed));
        for (;;) {
            std::vector<stepper *> live;
            for (auto &o : objs) if (!o->done()) live.push_back(o.get());
            if (live.empty()) break;
            if (mode == 0) { for (auto *p : live) if (!p->done()) p->step(); }
            else { live[rng() % live.size()]->step(); }
        }
    }
    for (auto &o : objs) std::cout << o->result() << "\n";
    return 0;
}
