// Pure executor: one case per input line, one answer line per case, computed by the REAL library
// built from /repo's working tree.  The Lean driver answers the same lines from the model; the
// orchestrator diffs the two streams.  See DESIGN.md Appendix C for the protocol.
#include <terminalpp/terminalpp.hpp>
#include <terminalpp/canvas.hpp>
#include <terminalpp/screen.hpp>
#include <terminalpp/encoder.hpp>
#include <terminalpp/string.hpp>
#include <terminalpp/terminal.hpp>
#include <terminalpp/ansi/graphics.hpp>
#include <terminalpp/algorithm/for_each_in_region.hpp>

#include <cstdio>
#include <functional>
#include <iostream>
#include <array>
#include <deque>
#include <locale>
#include <memory>
#include <stdexcept>
#include <sstream>
#include <string>
#include <unordered_set>
#include <vector>

using namespace terminalpp;

namespace {

struct test_channel
{
    byte_storage out;
    int reads_armed = 0;

    // reads are queued in the order they were posted (a client may post several); a delivery completes the oldest one
    std::deque<std::function<void(bytes)>> pending;
    void async_read(std::function<void(bytes)> const &cb)
    {
        pending.push_back(cb);
        ++reads_armed;
    }
    long fault_in = -1;   // >= 0: the write() call after that many more calls throws, once
    void write(bytes d)
    {
        if (fault_in == 0) { fault_in = -1; throw std::runtime_error("write failed"); }
        if (fault_in > 0) --fault_in;
        out.append(d.begin(), d.end());
    }
    // liveness as a real channel has it: close() ends it, `rv` (a re-attached session) brings it back.  The library
    // promises nothing different for a channel that is not alive: it writes regardless.
    bool alive = true;
    bool is_alive() const { return alive; }
    void close() { alive = false; }

    void deliver(bytes d)
    {
        if (pending.empty()) return;
        auto cb = std::move(pending.front());
        pending.pop_front();
        if (cb) cb(d);
    }
};

std::string hex(bytes d)
{
    static char const *digits = "0123456789abcdef";
    std::string r;
    r.reserve(d.size() * 2);
    for (auto b : d) {
        r += digits[b >> 4];
        r += digits[b & 15];
    }
    return r.empty() ? std::string("-") : r;
}

std::string hex(byte_storage const &d) { return hex(bytes{d.data(), d.size()}); }

byte_storage unhex(std::string const &s)
{
    byte_storage r;
    if (s == "-") return r;
    auto val = [](char c) -> int {
        if (c >= '0' && c <= '9') return c - '0';
        if (c >= 'a' && c <= 'f') return c - 'a' + 10;
        return c - 'A' + 10;
    };
    for (std::size_t i = 0; i + 1 < s.size(); i += 2) r.push_back(static_cast<byte>(val(s[i]) * 16 + val(s[i + 1])));
    return r;
}

struct reader
{
    std::istringstream in;
    explicit reader(std::string const &s) : in(s) {}
    long num()
    {
        long v = 0;
        in >> v;
        return v;
    }
    std::string word()
    {
        std::string w;
        in >> w;
        return w;
    }
    bool more()
    {
        in >> std::ws;
        return !in.eof();
    }
};

colour read_colour(reader &r)
{
    long k = r.num(), a = r.num(), b = r.num(), c = r.num();
    switch (k) {
        case 0: return low_colour(static_cast<graphics::colour>(a));
        case 1: { high_colour h; h.value_ = static_cast<byte>(a); return h; }
        case 2: { greyscale_colour g; g.shade_ = static_cast<byte>(a); return g; }
        default: return true_colour(static_cast<byte>(a), static_cast<byte>(b), static_cast<byte>(c));
    }
}

glyph read_glyph(reader &r)
{
    long cs = r.num(), b0 = r.num(), b1 = r.num(), b2 = r.num();
    glyph g;
    g.ucharacter_[0] = static_cast<byte>(b0);
    g.ucharacter_[1] = static_cast<byte>(b1);
    g.ucharacter_[2] = static_cast<byte>(b2);
    g.charset_ = character_set(static_cast<charset>(cs));
    return g;
}

attribute read_attr(reader &r)
{
    attribute a;
    a.foreground_colour_ = read_colour(r);
    a.background_colour_ = read_colour(r);
    a.intensity_ = static_cast<graphics::intensity>(r.num());
    a.underlining_ = static_cast<graphics::underlining>(r.num());
    a.polarity_ = static_cast<graphics::polarity>(r.num());
    a.blinking_ = static_cast<graphics::blinking>(r.num());
    return a;
}

element read_element(reader &r)
{
    element e;
    e.glyph_ = read_glyph(r);
    e.attribute_ = read_attr(r);
    return e;
}

std::string show_colour(colour const &c)
{
    char buf[64];
    std::visit(
        [&buf](auto const &v) {
            using T = std::decay_t<decltype(v)>;
            if constexpr (std::is_same_v<T, low_colour>) std::snprintf(buf, sizeof buf, "0 %u 0 0", (unsigned)(byte)v.value_);
            else if constexpr (std::is_same_v<T, high_colour>) std::snprintf(buf, sizeof buf, "1 %u 0 0", (unsigned)v.value_);
            else if constexpr (std::is_same_v<T, greyscale_colour>) std::snprintf(buf, sizeof buf, "2 %u 0 0", (unsigned)v.shade_);
            else std::snprintf(buf, sizeof buf, "3 %u %u %u", (unsigned)v.red_, (unsigned)v.green_, (unsigned)v.blue_);
        },
        c.value_);
    return buf;
}

// only the meaningful storage bytes of a glyph are printed
std::string show_glyph(glyph const &g)
{
    char buf[64];
    if (g.charset_ == charset::utf8)
        std::snprintf(buf, sizeof buf, "%u %u %u %u", (unsigned)(byte)g.charset_.value_, (unsigned)g.ucharacter_[0], (unsigned)g.ucharacter_[1], (unsigned)g.ucharacter_[2]);
    else
        std::snprintf(buf, sizeof buf, "%u %u 0 0", (unsigned)(byte)g.charset_.value_, (unsigned)g.character_);
    return buf;
}

std::string show_attr(attribute const &a)
{
    char buf[64];
    std::snprintf(buf, sizeof buf, " %u %u %u %u", (unsigned)(byte)a.intensity_.value_, (unsigned)(byte)a.underlining_.value_, (unsigned)(byte)a.polarity_.value_, (unsigned)(byte)a.blinking_.value_);
    return show_colour(a.foreground_colour_) + " " + show_colour(a.background_colour_) + buf;
}

std::string show_element(element const &e) { return show_glyph(e.glyph_) + " " + show_attr(e.attribute_); }

behaviour read_behaviour(long bits)
{
    behaviour b;
    b.supports_basic_mouse_tracking = (bits & 1) != 0;
    b.supports_all_mouse_motion_tracking = (bits & 2) != 0;
    b.supports_window_title_bel = (bits & 4) != 0;
    b.supports_window_title_st = (bits & 8) != 0;
    b.unicode_in_all_charsets = (bits & 16) != 0;
    // the seven capability flags the current library declares but never consults: bit set = the non-default value.
    // The model ignores them, so a change that starts honouring one is seen by the correspondence at once.
    b.supports_cha = b.supports_cha != ((bits & 32) != 0);
    b.supports_cha_default = b.supports_cha_default != ((bits & 64) != 0);
    b.supports_vpa = b.supports_vpa != ((bits & 128) != 0);
    b.supports_vpa_default = b.supports_vpa_default != ((bits & 256) != 0);
    b.supports_cup_default_row = b.supports_cup_default_row != ((bits & 512) != 0);
    b.supports_cup_default_column = b.supports_cup_default_column != ((bits & 1024) != 0);
    b.supports_cup_default_all = b.supports_cup_default_all != ((bits & 2048) != 0);
    return b;
}

std::string show_opt_point(std::optional<point> const &p)
{
    if (!p) return "-";
    return std::to_string(p->x_) + "," + std::to_string(p->y_);
}

// the state record as a user-supplied manipulator sees it
struct peek_state
{
    std::string *out;
    void operator()(behaviour const &, terminal_state &st, terminal::write_function const &) const
    {
        std::string s = std::to_string(st.terminal_size_.width_) + "," + std::to_string(st.terminal_size_.height_);
        s += " L=";
        s += st.last_element_ ? show_element(*st.last_element_) : std::string("-");
        s += " C=" + show_opt_point(st.cursor_position_);
        s += " S=" + show_opt_point(st.saved_cursor_position_);
        s += " V=";
        s += st.cursor_visible_ ? (*st.cursor_visible_ ? "1" : "0") : "-";
        *out = s;
    }
};

// ---------------------------------------------------------------- T: terminal scripts
// Where an operation goes: to one terminal (kinds T, S: the object is a temporary, as in `term << move_cursor(...)`), or
// to several terminals that are handed THE SAME object one after the other, the last of them a copy made after the
// object was first used (kind M: a manipulator kept in a variable, a constant, a member).
struct to_one
{
    terminal &t;
    template <class M> void operator()(M &&m) const { t << std::forward<M>(m); }
    template <class F> void each(F const &f) const { f(t); }
};

// … or to one terminal as a NAMED object streamed as an lvalue (`auto m = set_window_title(t); term << m;`)
struct to_one_named
{
    terminal &t;
    template <class M> void operator()(M &&m) const
    {
        std::remove_cvref_t<M> named = std::forward<M>(m);
        t << named;
    }
    template <class F> void each(F const &f) const { f(t); }
};

struct to_many
{
    std::vector<terminal *> ts;
    template <class M> void operator()(M &&m) const
    {
        std::remove_cvref_t<M> const &shared = m;
        for (std::size_t k = 0; k < ts.size(); ++k) {
            if (k >= 2) { auto copy = shared; *ts[k] << copy; }
            else *ts[k] << shared;
        }
    }
    template <class F> void each(F const &f) const { for (auto *t : ts) f(*t); }
};

// returns false when the op word is unknown
template <class Sink>
bool apply_terminal_op_to(std::string const &op, reader &r, Sink const &out)
{
    if (op == "we") out(read_element(r));
    else if (op == "ws") {
        long n = r.num();
        terminalpp::string s;
        for (long i = 0; i < n; ++i) s += read_element(r);
        out(s);
    }
    else if (op == "wl") {
        // plain text streamed as a C string, the way a literal is: term << "text"
        long n = r.num();
        std::string text;
        for (long i = 0; i < n; ++i) text.push_back(static_cast<char>(r.num()));
        char const *p = text.c_str();
        out.each([&](terminal &t) { t << p; });
    }
    else if (op == "re") out(write_element(read_element(r)));
    else if (op == "da") out(write_optional_default_attribute());
    else if (op == "mv") { long x = r.num(), y = r.num(); out(move_cursor({(coordinate_type)x, (coordinate_type)y})); }
    else if (op == "hc") out(hide_cursor());
    else if (op == "sc") out(show_cursor());
    else if (op == "sv") out(save_cursor_position());
    else if (op == "rs") out(restore_cursor_position());
    else if (op == "er") {
        switch (r.num()) {
            case 0: out(erase_display()); break;
            case 1: out(erase_display_above()); break;
            case 2: out(erase_display_below()); break;
            case 3: out(erase_line()); break;
            case 4: out(erase_line_left()); break;
            default: out(erase_line_right()); break;
        }
    }
    else if (op == "me") out(enable_mouse());
    else if (op == "md") out(disable_mouse());
    else if (op == "ti") {
        long n = r.num();
        std::string title;
        for (long i = 0; i < n; ++i) title.push_back(static_cast<char>(r.num()));
        out(set_window_title(title));
    }
    else if (op == "nb") out(use_normal_screen_buffer());
    else if (op == "ab") out(use_alternate_screen_buffer());
    else if (op == "wr") {
        long n = r.num();
        byte_storage data;
        for (long k = 0; k < n; ++k) data.push_back(static_cast<byte>(r.num()));
        out.each([&](terminal &t) { t.write(bytes{data.data(), data.size()}); });
    }
    else if (op == "sz") { long w = r.num(), h = r.num(); out.each([&](terminal &t) { t.set_size({(coordinate_type)w, (coordinate_type)h}); }); }
    // the rest of the terminal's public interface: none of these writes anything, and writing must go on working after them
    else if (op == "cl") out.each([](terminal &t) { t.close(); });
    else if (op == "al") out.each([](terminal &t) { volatile bool alive = t.is_alive(); (void)alive; });
    else if (op == "ar") out.each([](terminal &t) { t.async_read([](tokens) {}); });
    else return false;
    return true;
}

bool apply_terminal_op(std::string const &op, reader &r, terminal &t) { return apply_terminal_op_to(op, r, to_one{t}); }

std::vector<std::string> split(std::string const &s, char sep)
{
    std::vector<std::string> parts;
    std::string cur;
    for (char c : s) {
        if (c == sep) { parts.push_back(cur); cur.clear(); }
        else cur += c;
    }
    parts.push_back(cur);
    return parts;
}

// one terminal script, stepped operation by operation (the executor runs it to the end; harness/interleave.cpp takes one
// step at a time, between the steps of other objects)
struct terminal_script
{
    test_channel ch;
    std::unique_ptr<terminal> t;
    std::string res;
    bool reading = false;
    std::function<void(tokens)> reader_cb;

    explicit terminal_script(long bits)
    {
        t = std::make_unique<terminal>(ch, read_behaviour(bits));
        reader_cb = [this](tokens) { t->async_read(reader_cb); };
    }
    terminal_script(terminal_script const &) = delete;

    void op(std::string const &part)
    {
        reader r(part);
        std::string op = r.word();
        if (op.empty()) return;
        ch.out.clear();
        // `fw n`: the channel's write() fails (throws) once, on the n-th call from now - a connection reset in the middle
        // of an operation.  What the failing terminal itself does then is not specified here; every OTHER object must be
        // unaffected (C12).  No answer segment.
        if (op == "fw") { ch.fault_in = r.num(); return; }
        bool threw = false;
        try {
            if (op == "in") {
                // bytes arrive on the INPUT side of the same terminal between two output operations (a client is reading
                // and re-arms from its callback); whatever they decode to, the output side must be unaffected
                long n = r.num();
                byte_storage data;
                for (long k = 0; k < n; ++k) data.push_back(static_cast<byte>(r.num()));
                if (!reading) { reading = true; t->async_read(reader_cb); }
                ch.deliver(bytes{data.data(), data.size()});
            }
            else if (op == "rv") ch.alive = true;
            else if (op == "lv") {
                std::string inner = r.word();
                if (!apply_terminal_op_to(inner, r, to_one_named{*t})) { res += "?op "; return; }
            }
            else if (op == "ux") {
                // the operation is performed from a destructor running while an UNRELATED exception unwinds the stack
                // (std::uncaught_exceptions() == 1 while the library runs), as a clean-up handler would
                std::string inner = r.word();
                bool ok = true;
                struct during_unwind { std::function<void()> f; ~during_unwind() { f(); } };
                try {
                    during_unwind guard{[&] { ok = apply_terminal_op(inner, r, *t); }};
                    throw std::runtime_error("unrelated failure");
                }
                catch (std::runtime_error const &) {}
                if (!ok) { res += "?op "; return; }
            }
            else if (!apply_terminal_op(op, r, *t)) { res += "?op "; return; }
        }
        catch (std::exception const &) { threw = true; }
        std::string st;
        *t << peek_state{&st};
        if (!res.empty()) res += " ; ";
        res += hex(ch.out) + (threw ? " !throw" : "") + " / " + st;
    }
    std::string result() const { return res.empty() ? "-" : res; }
};

std::string run_terminal(std::string const &rest)
{
    auto parts = split(rest, ';');
    reader head(parts[0]);
    terminal_script ts(head.num());
    for (std::size_t i = 1; i < parts.size(); ++i) ts.op(parts[i]);
    return ts.result();
}

// ---------------------------------------------------------------- M: one manipulator object, several terminals
// `M <bits> <bits> [<bits>] ; op ; op …`: every operation constructs ONE object and streams that same object to each
// terminal in turn (the third terminal gets a copy made after the first two uses).  The answer is each terminal's
// T-style answer joined by " || ", then " ## ", then the answers of the same terminals each run ALONE with fresh objects.
std::string run_multi(std::string const &rest)
{
    auto parts = split(rest, ';');
    std::vector<long> bits;
    {
        reader head(parts[0]);
        for (;;) { std::string w = head.word(); if (w.empty()) break; bits.push_back(std::stol(w)); }
    }
    if (bits.empty()) return "?head";
    std::size_t const n = bits.size();
    std::vector<std::unique_ptr<test_channel>> chs;
    std::vector<std::unique_ptr<terminal>> ts;
    std::vector<std::string> res(n);
    to_many sink;
    for (std::size_t k = 0; k < n; ++k) {
        chs.push_back(std::make_unique<test_channel>());
        ts.push_back(std::make_unique<terminal>(*chs[k], read_behaviour(bits[k])));
        sink.ts.push_back(ts[k].get());
    }
    for (std::size_t i = 1; i < parts.size(); ++i) {
        reader r(parts[i]);
        std::string op = r.word();
        if (op.empty()) continue;
        for (auto &c : chs) c->out.clear();
        if (!apply_terminal_op_to(op, r, sink)) { for (auto &x : res) x += "?op "; continue; }
        for (std::size_t k = 0; k < n; ++k) {
            std::string st;
            *ts[k] << peek_state{&st};
            if (!res[k].empty()) res[k] += " ; ";
            res[k] += hex(chs[k]->out) + " / " + st;
        }
    }
    std::string shared, alone;
    for (std::size_t k = 0; k < n; ++k) {
        if (k) { shared += " || "; alone += " || "; }
        shared += res[k].empty() ? std::string("-") : res[k];
        std::string line = std::to_string(bits[k]);
        for (std::size_t i = 1; i < parts.size(); ++i) line += ";" + parts[i];
        alone += run_terminal(line);
    }
    return shared + " ## " + alone;
}

// ---------------------------------------------------------------- d: the designator lookup in CONSTANT EVALUATION
// `lookup_character_set` is constexpr (the `_ete` literal uses it at compile time): the answers for every one-byte
// candidate and every `%`-extended candidate are computed by the compiler here and must be the ones the run-time call gives.
namespace ct_tables {
constexpr int ct_lookup(byte a, bool extended)
{
    byte const code2[2] = {ansi::charset_extender, a};
    byte const code1[1] = {a};
    auto cs = extended ? lookup_character_set(bytes{code2, 2}) : lookup_character_set(bytes{code1, 1});
    return cs ? static_cast<int>(static_cast<byte>(cs->value_)) : -1;
}
template <bool Ext> constexpr std::array<int, 256> make()
{
    std::array<int, 256> t{};
    for (int i = 0; i < 256; ++i) t[static_cast<std::size_t>(i)] = ct_lookup(static_cast<byte>(i), Ext);
    return t;
}
constexpr std::array<int, 256> one = make<false>();
constexpr std::array<int, 256> ext = make<true>();
}  // namespace ct_tables

std::string run_lookup_ct(reader &r)
{
    long n = r.num();
    byte_storage code;
    for (long i = 0; i < n; ++i) code.push_back(static_cast<byte>(r.num()));
    int v;
    if (n == 1 && code[0] != ansi::charset_extender) v = ct_tables::one[code[0]];
    else if (n == 2 && code[0] == ansi::charset_extender) v = ct_tables::ext[code[1]];
    else {
        auto cs = lookup_character_set(bytes{code.data(), code.size()});
        v = cs ? static_cast<int>(static_cast<byte>(cs->value_)) : -1;
    }
    return v < 0 ? std::string("-") : std::to_string(v);
}

// ---------------------------------------------------------------- D N H X Y: tables and palette
std::string run_lookup(reader &r)
{
    long n = r.num();
    byte_storage code;
    for (long i = 0; i < n; ++i) code.push_back(static_cast<byte>(r.num()));
    auto cs = lookup_character_set(bytes{code.data(), code.size()});
    return cs ? std::to_string((unsigned)(byte)cs->value_) : std::string("-");
}

std::string run_encode_cs(reader &r)
{
    long cs = r.num();
    auto v = encode_character_set(character_set(static_cast<charset>(cs)));
    return hex(bytes{v.data(), v.size()});
}

std::string run_high(reader &r)
{
    long rr = r.num(), g = r.num(), b = r.num();
    high_colour h((byte)rr, (byte)g, (byte)b);
    char buf[64];
    std::snprintf(buf, sizeof buf, "%u %u %u %u", (unsigned)h.value_, (unsigned)ansi::graphics::high_red_component(h.value_), (unsigned)ansi::graphics::high_green_component(h.value_), (unsigned)ansi::graphics::high_blue_component(h.value_));
    return buf;
}

std::string run_components(reader &r)
{
    byte v = (byte)r.num();
    char buf[64];
    std::snprintf(buf, sizeof buf, "%u %u %u %u", (unsigned)ansi::graphics::high_red_component(v), (unsigned)ansi::graphics::high_green_component(v), (unsigned)ansi::graphics::high_blue_component(v), (unsigned)ansi::graphics::greyscale_component(v));
    return buf;
}

std::string run_grey(reader &r)
{
    long s = r.num();
    greyscale_colour g((byte)s);
    char buf[64];
    std::snprintf(buf, sizeof buf, "%u %u", (unsigned)g.shade_, (unsigned)ansi::graphics::greyscale_component(g.shade_));
    return buf;
}

}  // namespace

#include "exec_more.inc"

#ifndef EXEC_NO_MAIN
// a line starting with `~` is executed in a program whose GLOBAL C++ locale groups digits (1.000) and uses a decimal comma,
// as after std::locale::global(std::locale("de_DE")): every stream the library might create picks that locale up.  What
// the library transmits and decodes is bytes and numbers of a protocol, not text for people - nothing may change.
struct grouping_numpunct : std::numpunct<char>
{
    char do_thousands_sep() const override { return '.'; }
    char do_decimal_point() const override { return ','; }
    std::string do_grouping() const override { return "\3"; }
};

int main()
{
    std::ios::sync_with_stdio(false);
    std::string line;
    std::locale const classic = std::locale::classic();
    std::locale const grouped(classic, new grouping_numpunct);
    while (std::getline(std::cin, line)) {
        if (line.empty()) { std::cout << "\n"; continue; }
        bool const localised = line[0] == '~';
        if (localised) { line.erase(0, 1); std::locale::global(grouped); }
        struct restore { std::locale const &c; bool on; ~restore() { if (on) std::locale::global(c); } } restore_locale{classic, localised};
        if (line.empty()) { std::cout << "\n"; continue; }
        char kind = line[0];
        std::string rest = line.size() > 1 ? line.substr(1) : std::string();
        std::string ans;
        reader r(rest);
        switch (kind) {
            case 'T': ans = run_terminal(rest); break;
            case 'd': { reader rr(rest); ans = run_lookup_ct(rr); break; }
            case 'M': ans = run_multi(rest); break;
            case 'D': ans = run_lookup(r); break;
            case 'N': ans = run_encode_cs(r); break;
            case 'H': ans = run_high(r); break;
            case 'X': ans = run_components(r); break;
            case 'Y': ans = run_grey(r); break;
            default: ans = run_more(kind, rest); break;
        }
        std::cout << ans << "\n";
    }
    return 0;
}
#endif
