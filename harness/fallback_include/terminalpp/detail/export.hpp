
#ifndef TERMINALPP_EXPORT_H
#define TERMINALPP_EXPORT_H

#ifdef TERMINALPP_STATIC_DEFINE
#  define TERMINALPP_EXPORT
#  define TERMINALPP_NO_EXPORT
#else
#  ifndef TERMINALPP_EXPORT
#    ifdef terminalpp_EXPORTS
        /* We are building this library */
#      define TERMINALPP_EXPORT 
#    else
        /* We are using this library */
#      define TERMINALPP_EXPORT 
#    endif
#  endif

#  ifndef TERMINALPP_NO_EXPORT
#    define TERMINALPP_NO_EXPORT 
#  endif
#endif

#ifndef TERMINALPP_DEPRECATED
#  define TERMINALPP_DEPRECATED __attribute__ ((__deprecated__))
#endif

#ifndef TERMINALPP_DEPRECATED_EXPORT
#  define TERMINALPP_DEPRECATED_EXPORT TERMINALPP_EXPORT TERMINALPP_DEPRECATED
#endif

#ifndef TERMINALPP_DEPRECATED_NO_EXPORT
#  define TERMINALPP_DEPRECATED_NO_EXPORT TERMINALPP_NO_EXPORT TERMINALPP_DEPRECATED
#endif

/* NOLINTNEXTLINE(readability-avoid-unconditional-preprocessor-if) */
#if 0 /* DEFINE_NO_DEPRECATED */
#  ifndef TERMINALPP_NO_DEPRECATED
#    define TERMINALPP_NO_DEPRECATED
#  endif
#endif

#endif /* TERMINALPP_EXPORT_H */
