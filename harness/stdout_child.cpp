// C14: a child process whose terminal is bound to the REAL terminalpp::stdout_channel.
// stdin: one `T`-style script line (`<bits> ; op ; op …`, plus the child-only op `wr <n> <bytes…>` =
// terminal.write(bytes)).  Everything the library writes goes to this process's standard output; the
// parent reads the pipe to EOF.
#define EXEC_NO_MAIN
#include "exec.cpp"
#include <terminalpp/stdout_channel.hpp>
#include <cerrno>
#include <csignal>
#include <unistd.h>
#include <cstdlib>

// VERIF_SIGNALS=1: a handled signal (no-op handler, SA_RESTART) may arrive at any time.  A blocking write(2) that has
// already transferred part of its data when the signal arrives returns the short count - delivering the rest is the
// writer's job.  The parent fills the pipe, sends SIGUSR1 repeatedly and reads slowly.
static void on_usr1(int) {}

int main()
{
    // VERIF_NOSYNC=1: the program has called std::ios::sync_with_stdio(false) (as programs that do a lot of output do):
    // std::cout then has a buffer of its own, independent of the C library's stdout buffer
    if (std::getenv("VERIF_NOSYNC")) std::ios::sync_with_stdio(false);
    if (std::getenv("VERIF_SIGNALS")) {
        struct sigaction sa {};
        sa.sa_handler = on_usr1;
        sa.sa_flags = SA_RESTART;
        sigaction(SIGUSR1, &sa, nullptr);
        // tell the parent the handler is installed (before that a SIGUSR1 would terminate the process)
        if (::write(2, "READY\n", 6) != 6) return 4;
    }
    bool const fmt_state = std::getenv("VERIF_COUT_STATE") != nullptr;
    bool const errno_state = std::getenv("VERIF_ERRNO") != nullptr;
    std::string line;
    std::getline(std::cin, line);
    auto parts = split(line, ';');
    reader head(parts[0]);
    long bits = head.num();
    terminalpp::stdout_channel ch;
    terminal t{ch, read_behaviour(bits)};
    for (std::size_t i = 1; i < parts.size(); ++i) {
        reader r(parts[i]);
        std::string op = r.word();
        if (op.empty()) continue;
        if (fmt_state) {
            // the program may leave ANY formatting state on std::cout between two terminal operations
            std::cout.width(9);
            std::cout.fill('*');
            std::cout.setf(std::ios::left | std::ios::hex | std::ios::showbase | std::ios::uppercase | std::ios::boolalpha);
            std::cout.precision(3);
        }
        if (errno_state) errno = (i % 2) ? EAGAIN : EINTR;      // left over from something unrelated the program did
        if (!apply_terminal_op(op, r, t)) {
            return 3;
        }
    }
    return 0;
}
