// C14: a child process whose terminal is bound to the REAL terminalpp::stdout_channel.
// stdin: one `T`-style script line (`<bits> ; op ; op …`, plus the child-only op `wr <n> <bytes…>` =
// terminal.write(bytes)).  Everything the library writes goes to this process's standard output; the
// parent reads the pipe to EOF.
#define EXEC_NO_MAIN
#include "exec.cpp"
#include <terminalpp/stdout_channel.hpp>
#include <cerrno>
#include <csignal>
#include <unistd.h>
#include <cstdlib>
#include <atomic>
#include <thread>
#include <vector>

// VERIF_SIGNALS=1: a handled signal (no-op handler, SA_RESTART) may arrive at any time.  A blocking write(2) that has
// already transferred part of its data when the signal arrives returns the short count - delivering the rest is the
// writer's job.  The parent fills the pipe, sends SIGUSR1 repeatedly and reads slowly.
static void on_usr1(int) {}

// VERIF_ATEXIT=1: the LAST operation of the script is performed from an atexit handler that was registered before the
// terminal wrote anything (a program that restores the cursor / leaves the alternate screen on its way out)
static terminal *g_term = nullptr;
static std::string g_last_op;
static void last_op_at_exit()
{
    if (!g_term || g_last_op.empty()) return;
    reader r(g_last_op);
    std::string op = r.word();
    if (op == "lv") { std::string inner = r.word(); apply_terminal_op_to(inner, r, to_one_named{*g_term}); }
    else if (op == "ux") { std::string inner = r.word(); apply_terminal_op(inner, r, *g_term); }
    else if (!op.empty()) apply_terminal_op(op, r, *g_term);
}

int main()
{
    // VERIF_NOSYNC=1: the program has called std::ios::sync_with_stdio(false) (as programs that do a lot of output do):
    // std::cout then has a buffer of its own, independent of the C library's stdout buffer
    if (std::getenv("VERIF_NOSYNC")) std::ios::sync_with_stdio(false);
    if (std::getenv("VERIF_SIGNALS")) {
        struct sigaction sa {};
        sa.sa_handler = on_usr1;
        sa.sa_flags = SA_RESTART;
        sigaction(SIGUSR1, &sa, nullptr);
        // tell the parent the handler is installed (before that a SIGUSR1 would terminate the process)
        if (::write(2, "READY\n", 6) != 6) return 4;
    }
    bool const fmt_state = std::getenv("VERIF_COUT_STATE") != nullptr;
    bool const errno_state = std::getenv("VERIF_ERRNO") != nullptr;
    bool const at_exit = std::getenv("VERIF_ATEXIT") != nullptr;
    if (at_exit) std::atexit(last_op_at_exit);
    // VERIF_REDIRECT=<fd>: half-way through the script the program redirects its standard output to that descriptor
    // (dup2(fd, 1), as a program that re-opens its output does); what is written afterwards belongs to the new destination
    int const redirect_fd = std::getenv("VERIF_REDIRECT") ? std::atoi(std::getenv("VERIF_REDIRECT")) : -1;
    std::string line;
    std::getline(std::cin, line);
    auto parts = split(line, ';');
    reader head(parts[0]);
    long bits = head.num();
    // VERIF_THREADS=K: K threads, each with a stdout_channel and a terminal of its own, run the script at the same time.
    // How their writes interleave on standard output is up to the scheduler; that no byte is lost or duplicated is not.
    if (char const *tk = std::getenv("VERIF_THREADS")) {
        int const k = std::atoi(tk);
        std::vector<std::thread> pool;
        std::atomic<int> ready{0};
        for (int n = 0; n < k; ++n) {
            pool.emplace_back([&]() {
                terminalpp::stdout_channel tch;
                terminal tt{tch, read_behaviour(bits)};
                ++ready;
                while (ready.load() < k) std::this_thread::yield();
                for (std::size_t i = 1; i < parts.size(); ++i) {
                    reader r(parts[i]);
                    std::string op = r.word();
                    if (op.empty()) continue;
                    if (op == "lv" || op == "ux") op = r.word();
                    apply_terminal_op(op, r, tt);
                }
            });
        }
        for (auto &th : pool) th.join();
        return 0;
    }
    // never destroyed: the atexit handler still uses them
    auto &ch = *new terminalpp::stdout_channel;
    auto &t = *new terminal{ch, read_behaviour(bits)};
    g_term = &t;
    std::size_t n_ops = parts.size();
    if (at_exit && parts.size() > 2) { g_last_op = parts.back(); n_ops = parts.size() - 1; }
    for (std::size_t i = 1; i < n_ops; ++i) {
        if (redirect_fd >= 0 && i == (n_ops + 1) / 2) {
            std::cout.flush();
            std::fflush(stdout);
            if (::dup2(redirect_fd, 1) < 0) return 5;
        }
        reader r(parts[i]);
        std::string op = r.word();
        if (op.empty()) continue;
        if (fmt_state) {
            // the program may leave ANY formatting state on std::cout between two terminal operations
            std::cout.width(9);
            std::cout.fill('*');
            std::cout.setf(std::ios::left | std::ios::hex | std::ios::showbase | std::ios::uppercase | std::ios::boolalpha);
            std::cout.precision(3);
        }
        if (errno_state) errno = (i % 2) ? EAGAIN : EINTR;      // left over from something unrelated the program did
        if (op == "lv") {
            std::string inner = r.word();
            if (!apply_terminal_op_to(inner, r, to_one_named{t})) return 3;
        }
        else if (op == "ux") {
            std::string inner = r.word();
            if (!apply_terminal_op(inner, r, t)) return 3;     // (plain here: this harness is about the channel)
        }
        else if (!apply_terminal_op(op, r, t)) {
            return 3;
        }
    }
    return 0;
}
