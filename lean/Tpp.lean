import Tpp.Props.C18
import Tpp.Props.C19
import Tpp.Model.Terminal
