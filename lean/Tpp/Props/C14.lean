import Tpp.Model.Channel
/-!
C14 – the stdout channel delivers every byte to standard output, unchanged, in order.

The model-level statements are small; the content of this property is the tie (a child process whose
terminal is bound to the real `terminalpp::stdout_channel`, its standard output read to EOF and compared
with the capturing channel and with the model).  Process-exit flushing and the iostream layer are
runtime behaviour the model cannot exhibit: level *partial*.
-/
namespace Tpp.Props.C14
open Tpp

/-- every byte of every write reaches standard output, unchanged and in order – for arbitrary content
    (NUL, bytes above 0x7F) and arbitrary sizes, including empty writes -/
theorem C14_stdout (writes : List (List Byte)) :
    writes.foldl stdoutSink.write stdoutSink.init = writes.flatten := by
  have h : ∀ (acc : List Byte) (ws : List (List Byte)), ws.foldl stdoutSink.write acc = acc ++ ws.flatten := by
    intro acc ws
    induction ws generalizing acc with
    | nil => simp
    | cons w ws ih => simp only [List.foldl_cons, List.flatten_cons]; rw [ih]; simp [stdoutSink]
  simpa [stdoutSink] using h [] writes

/-- the bytes a terminal produces do not depend on the channel it is bound to: the stdout channel's
    output equals the output captured by the buffering channel, for the same operations -/
theorem C14_channel_parametric (beh : Behaviour) (s : TermState) (ops : List Op) :
    runOn stdoutSink beh s ops = runOn bufferSink beh s ops := rfl

/-- … and both equal the concatenation of the operations' outputs -/
theorem C14_equals_run (beh : Behaviour) (ops : List Op) :
    ∀ s : TermState, runOn stdoutSink beh s ops = (run beh s ops).2 := by
  have h : ∀ (ops : List Op) (s : TermState), (writesOf beh s ops).flatten = (run beh s ops).2 := by
    intro ops
    induction ops with
    | nil => intro s; rfl
    | cons op ops ih => intro s; simp only [writesOf, List.flatten_cons, run, ih]
  intro s
  unfold runOn
  rw [C14_stdout, h]

example : [[0x00, 0xFF], [], [0x1B]].foldl stdoutSink.write stdoutSink.init = ([0x00, 0xFF, 0x1B] : List Byte) := by decide

end Tpp.Props.C14
