import Tpp.Lemmas.Step
import Tpp.Lemmas.StatusQuery
/-!
C13 – state diffing never re-sends what is already in effect.

"Already in effect on the terminal (as left by the previous write or erase)": the library's record names an
element `l` (`s.last = some l`) and, by the agreement invariant (C08), the terminal really has `l`'s
rendition and character set in effect.  Then an element with the same attribute and character set costs
only its glyph bytes; a move to the known position and a repeated visibility request cost nothing.
-/
namespace Tpp.Props.C13
open Tpp

theorem C13_element (beh : Behaviour) (s : TermState) (vt : VT) (hA : Agree s vt) (l e : Element)
    (hl : s.last = some l) (ha : l.attr = e.attr) (hc : l.glyph.cs = e.glyph.cs) :
    (step beh s (.writeElement e)).2 = e.glyph.payload ∧
    -- … and "in effect" is a fact about the terminal, not only about the record:
    vt.rend = rendOf e.attr ∧ CharsetAgree e.glyph.cs vt := by
  refine ⟨?_, ?_, ?_⟩
  · simp [step, defaultAttr, hl, rawElement, elementCtl, changeCharset, changeAttribute, ha, hc]
  · rw [← ha]; exact hA.1.rend l hl
  · have := hA.1.charset; simp only [hl] at this; rw [← hc]; exact this

/-- the same inside a string: every element after the first that repeats its predecessor's attribute and
    character set is transmitted as its glyph bytes only -/
theorem C13_string_run (beh : Behaviour) (s : TermState) (l e : Element) (hl : s.last = some l)
    (ha : l.attr = e.attr) (hc : l.glyph.cs = e.glyph.cs) :
    (rawElement beh s e).2 = e.glyph.payload := by
  simp [rawElement, elementCtl, hl, changeCharset, changeAttribute, ha, hc]

theorem C13_move (beh : Behaviour) (s : TermState) (vt : VT) (hA : Agree s vt) (p : Point) (h : s.cursor = some p) :
    (step beh s (.moveCursor p)).2 = [] ∧ (vt.cx = p.x.toNat ∧ vt.cy = p.y.toNat ∧ vt.pending = false) := by
  obtain ⟨_, _, c, d, e, _, _⟩ := hA.2.cursor p h
  exact ⟨by simp [step, moveCursorBytes, h], c.symm, d.symm, e⟩

theorem C13_visibility (beh : Behaviour) (s : TermState) (vt : VT) (hA : Agree s vt) (b : Bool) (h : s.visible = some b) :
    (step beh s (if b then .showCursor else .hideCursor)).2 = [] ∧ vt.cursorVisible = b := by
  refine ⟨?_, hA.1.visible b h⟩
  cases b <;> simp [step, h]

/-- an erase counts as well: it leaves the default rendition in effect, so default-attribute text afterwards is bare -/
theorem C13_after_erase (beh : Behaviour) (s : TermState) (k : EraseKind) (e : Element) (ha : e.attr = {})
    (hc : ∀ l, s.last = some l → l.glyph.cs = e.glyph.cs) (hn : s.last = none → e.glyph.cs = .usAscii) :
    (step beh (step beh s (.erase k)).1 (.writeElement e)).2 = e.glyph.payload := by
  cases hl : s.last with
  | none =>
    have := hn hl
    have hd : ({} : Element).glyph.cs = Charset.usAscii := rfl
    simp [step, changeToDefault, hl, defaultAttr, rawElement, elementCtl, changeCharset, changeAttribute, ha, this, hd]
  | some l =>
    have := hc l hl
    simp [step, changeToDefault, hl, defaultAttr, rawElement, elementCtl, changeCharset, changeAttribute, ha, this]

/-- **a status query sent through `terminal::write` costs nothing afterwards**: the bytes go out unchanged, the library's
    record is untouched, and it is still true of the terminal (`Agree`) – so the next element in the rendition in effect is
    still just its glyph, the next move to the occupied cell still nothing (the clauses above apply unchanged).  The oracle
    lets exactly these four byte strings through as in-domain raw writes. -/
theorem C13_status_query (beh : Behaviour) (s : TermState) (vt : VT) (hA : Agree s vt) (q : List Byte) (hq : q ∈ statusQueries) :
    (step beh s (.rawWrite q)).1 = s ∧ (step beh s (.rawWrite q)).2 = q ∧ Agree s (vt.feedAll q) :=
  ⟨rfl, rfl, agree_statusQuery s vt hA q hq⟩

-- non-vacuity: a concrete state with everything known
example : (step {} { last := some { attr := { intensity := .bold } }, cursor := some ⟨3, 4⟩, visible := some false }
    (.writeElement { glyph := { b0 := 0x41 }, attr := { intensity := .bold } })).2 = [0x41] := by decide

end Tpp.Props.C13
