import Tpp.Lemmas.Input
/-!
C07 – no input can crash, hang or permanently confuse the library.  INPUT-DECODER HALF
(theorems prefixed `C07_input_`; the attribute-markup half lives beside it with its own prefix).

What a theorem about the model can carry:
* termination – every function of `Tpp.Model.Parser` / `Tpp.Model.Keys` is a total Lean function, one byte is
  consumed per step (`PState.feed`), the delivery loop is structural recursion over the chunk;
* resynchronisation – four letters bring ANY state (control state and scratch) back to idle;
* an idle decoder is as good as a new one – the scratch members are dead in the idle state (bisimulation);
* the guard of `seq.arguments[0]` – every control sequence the decoder emits has at least one argument, and
  the arguments of a sequence that was begun in the idle state hold digits only (what `atoi` is applied to).
Freedom from undefined behaviour of the compiled C++ is supported (not proved) by running every stream of the
correspondence under ASan+UBSan; see `vlib/props/C07.py`.
-/
namespace Tpp.Props.C07
open Tpp Tpp.Ref

/-- after any input whatsoever (any control state, any scratch), a run of four letters leaves the decoder idle -/
theorem C07_input_resync (st : PState) (ls : List Byte) (h4 : ls.length = 4) (hl : ∀ b ∈ ls, isLetter b = true) :
    (feedAll ls st).ctl = .idle := by
  match ls, h4 with
  | [a, b, c, d], _ =>
    exact resync4 st a b c d (hl a (by simp)) (hl b (by simp)) (hl c (by simp)) (hl d (by simp))

/-- four is needed: three letters do not always suffice (an unfinished mouse report) -/
theorem C07_input_resync_three_insufficient :
    ∃ st : PState, isLetter 0x4D = true ∧ isLetter 0x41 = true ∧
      (feedAll [0x4D, 0x41, 0x41] (feedAll [0x1B, 0x5B] st)).ctl ≠ .idle :=
  ⟨PState.init, by decide⟩

/-- two idle decoders with different scratch members decode every stream identically: an idle decoder
    behaves as the initial one -/
theorem C07_input_idle_is_initial (s1 s2 : PState) (h1 : s1.ctl = .idle) (h2 : s2.ctl = .idle) (bs : List Byte) :
    tokens s1 bs = tokens s2 bs := by
  simp [tokens, sim_tokens bs s1 s2 (sim_of_idle s1 s2 h1 h2)]

/-- … and the same holds chunk by chunk for what the callbacks receive -/
theorem C07_input_idle_is_initial_deliveries (chunks : List (List Byte)) :
    ∀ s1 s2 : PState, Sim s1 s2 → (deliverAll chunks s1).tokenLists = (deliverAll chunks s2).tokenLists := by
  induction chunks with
  | nil => intros; rfl
  | cons c cs ih =>
    intro s1 s2 h
    have hsim : ∀ (bs : List Byte) (a b : PState), Sim a b → Sim (feedAll bs a) (feedAll bs b) := by
      intro bs
      induction bs with
      | nil => intro a b h; exact h
      | cons x xs ihx => intro a b h; exact ihx _ _ (sim_feed a b x h).2
    simp [deliverAll, deliver, tokens, sim_tokens c s1 s2 h, ih _ _ (hsim c s1 s2 h)]

/-- the statement of the property: after ANY input, four letters, and then any further input is decoded as by a
    fresh terminal -/
theorem C07_input_recovers (st : PState) (garbage ls suffix : List Byte) (h4 : ls.length = 4)
    (hl : ∀ b ∈ ls, isLetter b = true) :
    tokens (feedAll (garbage ++ ls) st) suffix = tokens PState.init suffix := by
  rw [feedAll_append]
  exact C07_input_idle_is_initial _ _ (C07_input_resync _ ls h4 hl) rfl suffix

/-- every control sequence the decoder emits – as a token of its own or as the `sequence` of a key – has at
    least one argument, from any state on any input: `seq.arguments[0]` in `convert_keypad_sequence` is in
    bounds and the `arguments.empty()` guard in `convert_control_sequence` never fires -/
theorem C07_input_arguments_nonempty (st : PState) (bs : List Byte) (t : Token) (ht : t ∈ tokens st bs) :
    match t with
    | .ctrl c => c.args ≠ []
    | .key k => (match k.seq with | .ctrl c => c.args ≠ [] | .byte _ => True)
    | .mouse _ _ _ => True := by
  simp only [tokens, List.mem_map] at ht
  obtain ⟨raw, hmem, hwk⟩ := ht
  obtain ⟨s', x, hfeed⟩ := rawTokens_mem bs st raw hmem
  cases raw with
  | key k =>
    obtain ⟨b, hb⟩ := feed_key_byte s' x k hfeed
    simp [wellKnown] at hwk; subst hwk; simp [hb]
  | mouse ev x y => simp [wellKnown] at hwk; subst hwk; trivial
  | ctrl c =>
    have hne := feed_args_nonempty s' x c hfeed
    simp only [wellKnown] at hwk
    rcases convertCommon_seq c with h | ⟨k, h, hk⟩
    · rw [h] at hwk; subst hwk; exact hne
    · rw [h] at hwk; subst hwk; simp [hk, hne]

-- non-vacuity: letters exist, non-idle states with scratch exist, and a decoded control sequence has an argument
example : ∃ ls : List Byte, ls.length = 4 ∧ (∀ b ∈ ls, isLetter b = true) ∧
    (feedAll [0x1B, 0x5B, 0x31, 0x3B, 0x4D, 0x20] PState.init).ctl = .mouse1 ∧
    (feedAll ls (feedAll [0x1B, 0x5B, 0x31, 0x3B, 0x4D, 0x20] PState.init)).ctl = .idle :=
  ⟨[0x4D, 0x5A, 0x61, 0x7A], by decide +kernel⟩
example : ∃ s1 s2 : PState, s1.ctl = .idle ∧ s2.ctl = .idle ∧ s1.metaFlag ≠ s2.metaFlag ∧ s1.args ≠ s2.args :=
  ⟨{ metaFlag := true, args := [[0x31]] }, {}, by simp⟩
example : Token.ctrl { initiator := 0x5B, command := 0x6D, args := [[]] } ∈ tokens PState.init [0x1B, 0x5B, 0x6D] := by
  decide

end Tpp.Props.C07
