import Tpp.Lemmas.Input
import Tpp.Lemmas.Faithful
/-!
C20 – an abstract key is reported only for input that encodes that key.

Every key token carries its origin (`sequence`: the raw byte, or the parsed control sequence whose
faithfulness to the bytes is C05), so the statement needs no byte spans.

The full statement `C20_full` is FALSE of the current code (`C20_counterexample`): `parse_idle` casts the input
byte to `vk`, and the enumeration continues above 0x7F with the abstract keys, so the 22 bytes 0x80–0x96
other than 0x8F (SS3) are reported as `cursor_up … f12`.  What is proved instead is `C20_partial`, whose single
exclusion is exact: a raw byte from precisely that set (recorded as known findings, one per byte).

A second exclusion the first version of this proof needed – numeric parameters ≥ 2^31, where `atoi` wrapped and
`CSI 4294967307 ~` was reported as F1 – is gone: the defect was repaired in /repo (`argument_to_integer` clamps),
the model follows the code, and `C20_large_parameter_names_no_key` states the repaired behaviour.
-/
namespace Tpp.Props.C20
open Tpp Tpp.Ref

/-- the key value an ordinary byte must be reported as -/
def plainKey (b : Byte) : Token := .key { key := b.toNat, mods := 0, rep := 1, seq := .byte b }

/-- FULL STATEMENT.  (1) For every stream fed to an idle decoder, a token naming an abstract key has a
    `sequence` that designates that key (`Ref.designates`) or is a line ending (Enter with sequence `'\n'`).
    (2) A single ordinary byte in the idle state is reported as the key whose value is that byte, and that key
    is not an abstract one. -/
def C20_full : Prop :=
  (∀ (st : PState), st.ctl = .idle → ∀ (bs : List Byte) (k : VKey), Token.key k ∈ tokens st bs →
      isAbstractKey k.key = true →
      (∃ c, k.seq = .ctrl c ∧ designates c k.key = true) ∨ (k.key = Consts.vk_enter ∧ k.seq = .byte 0x0A))
  ∧ (∀ (st : PState), st.ctl = .idle → ∀ b : Byte, isOrdinary b = true →
      tokens st [b] = [plainKey b] ∧ isAbstractKey b.toNat = false)

/-- the raw bytes that collide with the abstract keys of the `vk` enumeration -/
def collides (b : Byte) : Bool := 0x80 ≤ b && b ≤ 0x96 && b != 0x8F

/-- PROVED PART.  Every abstract-key token has a designating sequence, or is a line ending, or carries a raw
    byte from exactly the colliding set (and then names the key whose enumerator value is that byte) – for
    parameters of ANY size.  A single ordinary byte is always reported as the key of that value; that key is
    abstract exactly for the colliding bytes. -/
theorem C20_partial :
    (∀ (st : PState), st.ctl = .idle → ∀ (bs : List Byte) (k : VKey), Token.key k ∈ tokens st bs →
      isAbstractKey k.key = true →
      (∃ c, k.seq = .ctrl c ∧ designates c k.key = true)
      ∨ (k.key = Consts.vk_enter ∧ k.seq = .byte 0x0A)
      ∨ (∃ b : Byte, k.seq = .byte b ∧ collides b = true ∧ k.key = b.toNat))
    ∧ (∀ (st : PState), st.ctl = .idle → ∀ b : Byte, isOrdinary b = true →
      tokens st [b] = [plainKey b] ∧ (isAbstractKey b.toNat = true ↔ collides b = true)) := by
  constructor
  · intro st hidle bs k hmem habs
    simp only [tokens, List.mem_map] at hmem
    obtain ⟨raw, hraw, hwk⟩ := hmem
    have hok := rawTokens_ok bs st (argInv_of_idle st hidle) raw hraw
    cases raw with
    | key k' =>
      simp [wellKnown] at hwk
      subst hwk
      rcases hok with hk | ⟨b, hk, hb⟩
      · subst hk; exact Or.inr (Or.inl ⟨rfl, rfl⟩)
      · subst hk
        have hr := abstract_byte b habs
        refine Or.inr (Or.inr ⟨b, rfl, ?_, rfl⟩)
        have : ∀ b : Byte, isOrdinary b = true → 0x80 ≤ b ∧ b ≤ 0x96 → collides b = true := by decide +kernel
        exact this b hb hr
    | mouse ev x y => simp [wellKnown] at hwk
    | ctrl c =>
      simp only [wellKnown] at hwk
      obtain ⟨hseq, hd⟩ := convertCommon_key c k hok.2 hwk
      exact Or.inl ⟨c, hseq, hd⟩
  · intro st hidle b hb
    have hfacts : ∀ b : Byte, isOrdinary b = true →
        (b ≠ 0x1B ∧ b ≠ 0x0D ∧ b ≠ 0x0A ∧ b ≠ 0x9B ∧ b ≠ 0x8F)
        ∧ (isAbstractKey b.toNat = true ↔ collides b = true) := by decide +kernel
    obtain ⟨⟨h1, h2, h3, h4, h5⟩, hiff⟩ := hfacts b hb
    refine ⟨?_, hiff⟩
    simp [tokens, rawTokens, feed_eq, hidle, parseIdle_eq, h1, h2, h3, h4, h5, optList, wellKnown, plainKey, rawKey,
      Consts.vkmod_none]

/-- **FAITHFULNESS TO THE INPUT** (for every stream whatsoever, from an idle decoder with arbitrary scratch): the control
    sequence an abstract-key token carries – when it has no private marker – was actually SENT: its spelling (meta ESC if
    flagged, 7-bit introducer or the 8-bit one for CSI / SS3, the parameters separated by `;`, the final byte) occurs
    contiguously in the bytes that were fed.  Together with `C20_partial` (the sequence designates the key): a cursor or
    function key is reported only where the stream really contains a control sequence that encodes that key – never one
    stitched together from pieces, truncated, or inherited from earlier input. -/
theorem C20_faithful (st : PState) (hidle : st.ctl = .idle) (bs : List Byte) (k : VKey) (c : CtrlSeq)
    (hmem : Token.key k ∈ tokens st bs) (hs : k.seq = .ctrl c) (he : c.extender = 0) :
    ∃ r ∈ renderings c, r <:+: bs := by
  simp only [tokens, List.mem_map] at hmem
  obtain ⟨raw, hraw, hwk⟩ := hmem
  have hF : Faithful [] st := faithful_idle [] st (Or.inl hidle)
  cases raw with
  | key k' =>
    simp [wellKnown] at hwk
    subst hwk
    obtain ⟨s', x, hfeed⟩ := rawTokens_mem bs st _ hraw
    obtain ⟨b, hb⟩ := feed_key_byte s' x k' hfeed
    rw [hb] at hs; cases hs
  | mouse ev x y => simp [wellKnown] at hwk
  | ctrl c' =>
    simp only [wellKnown] at hwk
    rcases convertCommon_seq c' with h | ⟨k', h, hk'⟩
    · rw [h] at hwk; cases hwk
    · rw [h] at hwk
      cases hwk
      rw [hk'] at hs
      cases hs
      simpa using faithful_rawTokens bs [] st hF _ hraw he

/-- the same for the control sequences reported as such -/
theorem C20_faithful_ctrl (st : PState) (hidle : st.ctl = .idle) (bs : List Byte) (c : CtrlSeq)
    (hmem : Token.ctrl c ∈ tokens st bs) (he : c.extender = 0) :
    ∃ r ∈ renderings c, r <:+: bs := by
  simp only [tokens, List.mem_map] at hmem
  obtain ⟨raw, hraw, hwk⟩ := hmem
  have hF : Faithful [] st := faithful_idle [] st (Or.inl hidle)
  cases raw with
  | key k' => simp [wellKnown] at hwk
  | mouse ev x y => simp [wellKnown] at hwk
  | ctrl c' =>
    simp only [wellKnown] at hwk
    rcases convertCommon_seq c' with h | ⟨k', h, _⟩
    · rw [h] at hwk; cases hwk
      simpa using faithful_rawTokens bs [] st hF _ hraw he
    · rw [h] at hwk; cases hwk

/-- a meta shift-F5 as the decoder reports it -/
def metaShiftF5 : CtrlSeq :=
  { initiator := 0x5B, command := 0x7E, metaFlag := true, args := [[0x31, 0x35], [0x32]], extender := 0 }

-- non-vacuity: that key in the middle of text – and its spelling is where it was sent
example : Token.key { key := Consts.vk_f5, mods := Consts.vkmod_shift ||| Consts.vkmod_meta, rep := 1, seq := .ctrl metaShiftF5 }
      ∈ tokens PState.init [0x61, 0x1B, 0x1B, 0x5B, 0x31, 0x35, 0x3B, 0x32, 0x7E, 0x62]
    ∧ [0x1B, 0x1B, 0x5B, 0x31, 0x35, 0x3B, 0x32, 0x7E] ∈ renderings metaShiftF5 := by
  decide +kernel

/-- the full statement fails on the current code: the single byte 0x80 (a UTF-8 continuation byte, e.g. the
    second byte of `Ā` = C4 80) is reported as `cursor_up` -/
theorem C20_counterexample : ¬ C20_full := by
  intro h
  have h2 := (h.2 PState.init rfl 0x80 (by decide)).2
  exact absurd h2 (by decide)

/-- … and so does part (1) on its own: the token's sequence is the byte 0x80, which designates nothing -/
theorem C20_counterexample_stream :
    Token.key { key := Consts.vk_cursor_up, mods := 0, rep := 1, seq := .byte 0x80 } ∈ tokens PState.init [0xC4, 0x80]
    ∧ isAbstractKey Consts.vk_cursor_up = true := by decide +kernel

/-- a parameter that does not fit an `int` names no key: `ESC [ 4294967307 ~` (which the unrepaired code
    reported as F1, because 4294967307 ≡ 11 mod 2^32) is handed to the client as a plain control sequence -/
theorem C20_large_parameter_names_no_key :
    tokens PState.init [0x1B, 0x5B, 0x34, 0x32, 0x39, 0x34, 0x39, 0x36, 0x37, 0x33, 0x30, 0x37, 0x7E]
      = [.ctrl { initiator := 0x5B, command := 0x7E, metaFlag := false,
                 args := [[0x34, 0x32, 0x39, 0x34, 0x39, 0x36, 0x37, 0x33, 0x30, 0x37]], extender := 0 }]
    ∧ designates { initiator := 0x5B, command := 0x7E, metaFlag := false,
                   args := [[0x34, 0x32, 0x39, 0x34, 0x39, 0x36, 0x37, 0x33, 0x30, 0x37]], extender := 0 } Consts.vk_f1 = false := by
  decide +kernel

/-- the colliding set is exactly the 22 bytes 0x80–0x96 without 0x8F -/
theorem C20_colliding_set : ((List.range 256).filter fun n => collides (UInt8.ofNat n)).length = 22 := by decide +kernel

-- non-vacuity: a designated key, a line ending, an ordinary byte
example : designates { initiator := 0x5B, command := 0x7E, args := [[0x32, 0x34], [0x35]] } Consts.vk_f12 = true
    ∧ designates { initiator := 0x4F, command := 0x50, args := [[]] } Consts.vk_f1 = true
    ∧ designates { initiator := 0x5B, command := 0x41, extender := 0x3F, args := [[0x35], [0x32], [0x37]] } Consts.vk_cursor_up = true
    ∧ designates { initiator := 0x5B, command := 0x7E, args := [[0x31, 0x36]] } Consts.vk_f5 = false
    ∧ isOrdinary 0x61 = true ∧ isOrdinary 0xE9 = true ∧ isOrdinary 0x9B = false
    ∧ isAbstractKey Consts.vk_enter = true ∧ isAbstractKey 0x61 = false := by decide +kernel
example :
    Token.key { key := Consts.vk_home, mods := 0, rep := 1, seq := .ctrl { initiator := 0x5B, command := 0x48, args := [[]] } }
      ∈ tokens PState.init [0x9B, 0x48] := by
  decide +kernel

end Tpp.Props.C20
