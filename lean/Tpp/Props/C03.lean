import Tpp.Model.Screen
namespace Tpp.Props.C03
end Tpp.Props.C03
