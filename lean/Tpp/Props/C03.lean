import Tpp.Lemmas.DrawFrame
/-!
C03 – after `screen.draw(canvas)` the terminal displays exactly that canvas.

Frame protocol (what `terminal::set_size` documents and the screen fixture follows): the terminal has the
canvas's size; when the canvas size changes the terminal is resized and the application declares the new
size (`Ev.resize`: the terminal's new contents, cursor, saved position and pending flag are its own choice
and universally quantified).  `Shows vt c`: every cell of the visible grid equals `cellOf` of the canvas
element (glyph text, character set and all attributes).

Proved for terminals that defer the wrap or do not wrap, and for immediate-wrap terminals as long as the
bottom-right cell is not transmitted; for an immediate-wrap terminal and a changed bottom-right cell the
statement is FALSE of the code (the terminal scrolls) – `C03_immediate_counterexample`, known finding.
-/
namespace Tpp.Props.C03
open Tpp

/-- a frame: the canvas, and – used only when its size differs from the previous frame's – what the
    terminal chooses to contain after being resized -/
structure Frame where
  canvas : Canvas
  cells : Bool → Grid := fun _ _ _ => Cell.blank
  cx : Nat := 0
  cy : Nat := 0
  saved : Option (Nat × Nat) := none
  pending : Bool := false

structure World where
  s : TermState
  vt : VT
  scr : ScreenState

/-- resize (terminal and declaration) when the canvas size changed, then `screen.draw` -/
def runFrame (beh : Behaviour) (wd : World) (f : Frame) : World :=
  let st := if f.canvas.size ≠ wd.scr.last.size
    then Sys.step beh (wd.s, wd.vt) (.resize f.canvas.size.width.toNat f.canvas.size.height.toNat f.cells f.cx f.cy f.saved f.pending)
    else (wd.s, wd.vt)
  let r := drawRun beh wd.scr f.canvas st.1
  { s := r.1, vt := st.2.feedAll r.2, scr := (Screen.draw wd.scr f.canvas).1 }

/-- belief and terminal agree, the screen's remembered frame has the declared size, and the terminal shows it -/
structure Inv (wd : World) : Prop where
  agree : Agree wd.s wd.vt
  size : wd.scr.last.size = wd.s.size
  shows : Shows wd.vt wd.scr.last

/-- the condition under which a frame can be drawn without the terminal scrolling -/
def NoScroll (wd : World) (f : Frame) : Prop :=
  wd.vt.wrap ≠ .immediate ∨
    changedCell (Screen.base wd.scr f.canvas) f.canvas (f.canvas.size.width - 1, f.canvas.size.height - 1) = false

def FrameWF (f : Frame) : Prop := f.canvas.cellsWF ∧ 0 ≤ f.canvas.size.width ∧ 0 ≤ f.canvas.size.height

/-- **one draw**: from a state satisfying the invariant – or, for a frame that changes the size, from ANY
    state in which merely the rendition half of the agreement holds (a fresh `terminal` and an unknown
    terminal) – after the draw the terminal displays exactly the canvas, and the invariant holds again -/
theorem C03_draw_converges (beh : Behaviour) (wd : World) (f : Frame) (hf : FrameWF f) (hns : NoScroll wd f)
    (h : Inv wd ∨ (AgreeRend wd.s wd.vt ∧ f.canvas.size ≠ wd.scr.last.size)) :
    Inv (runFrame beh wd f) ∧ Shows (runFrame beh wd f).vt f.canvas := by
  obtain ⟨hwf, hw0, hh0⟩ := hf
  by_cases hsz : f.canvas.size ≠ wd.scr.last.size
  · -- size change: resize event first
    have hAr : AgreeRend wd.s wd.vt := by
      rcases h with h | h
      · exact h.agree.1
      · exact h.1
    have hA1 := agree_resize_fresh beh wd.s wd.vt hAr f.canvas.size.width.toNat f.canvas.size.height.toNat
      f.cells f.cx f.cy f.saved f.pending
    generalize hst : Sys.step beh (wd.s, wd.vt) (.resize f.canvas.size.width.toNat f.canvas.size.height.toNat f.cells f.cx f.cy f.saved f.pending) = st at *
    have hsize : f.canvas.size = st.1.size := by
      rw [← hst]
      show f.canvas.size = ⟨(f.canvas.size.width.toNat : Int), (f.canvas.size.height.toNat : Int)⟩
      cases hc : f.canvas.size with
      | mk w h => rw [hc] at hw0 hh0; simp at hw0 hh0 ⊢; omega
    have hwrap : st.2.wrap = wd.vt.wrap := by rw [← hst]; rfl
    obtain ⟨d1, d2, _, d4⟩ := draw_frame beh wd.scr f.canvas st.1 st.2 hA1 hsize hwf (fun hc => absurd hc hsz)
    have hshows := d4 (by
      rcases hns with hn | hn
      · exact Or.inl (by rw [hwrap]; exact hn)
      · exact Or.inr hn)
    have hrf : runFrame beh wd f = ⟨(drawRun beh wd.scr f.canvas st.1).1,
        st.2.feedAll (drawRun beh wd.scr f.canvas st.1).2, ⟨f.canvas⟩⟩ := by
      simp only [runFrame, if_pos hsz, hst, Screen.draw]
    rw [hrf]
    exact ⟨⟨d1, by simp [d2, hsize], hshows⟩, hshows⟩
  · -- same size
    have hsz' : f.canvas.size = wd.scr.last.size := by
      cases hd : decide (f.canvas.size = wd.scr.last.size) with
      | true => exact of_decide_eq_true hd
      | false => exact absurd (of_decide_eq_false hd) hsz
    have hI : Inv wd := by
      rcases h with h | h
      · exact h
      · exact absurd hsz' h.2
    have hsize : f.canvas.size = wd.s.size := by rw [hsz', hI.size]
    obtain ⟨d1, d2, _, d4⟩ := draw_frame beh wd.scr f.canvas wd.s wd.vt hI.agree hsize hwf (fun _ => hI.shows)
    have hshows := d4 hns
    have hrf : runFrame beh wd f = ⟨(drawRun beh wd.scr f.canvas wd.s).1,
        wd.vt.feedAll (drawRun beh wd.scr f.canvas wd.s).2, ⟨f.canvas⟩⟩ := by
      simp only [runFrame, if_neg hsz, Screen.draw]
    rw [hrf]
    exact ⟨⟨d1, by simp [d2, hsize], hshows⟩, hshows⟩

/-- every frame of a sequence is drawable in the state it meets -/
def FramesOK (beh : Behaviour) : World → List Frame → Prop
  | _, [] => True
  | wd, f :: fs => FrameWF f ∧ NoScroll wd f ∧ FramesOK beh (runFrame beh wd f) fs

def runFrames (beh : Behaviour) (wd : World) (fs : List Frame) : World := fs.foldl (runFrame beh) wd

/-- **sequences of canvases** (arbitrary contents, arbitrary edits between frames, size changes with
    arbitrary terminal-side effects): after every draw the terminal displays the canvas just drawn.
    `_partial`: the hypothesis `NoScroll` (inside `FramesOK`) excludes immediate-wrap terminals receiving
    the bottom-right cell – where the full statement is false (`C03_immediate_counterexample`). -/
theorem C03_frames_partial (beh : Behaviour) (fs : List Frame) :
    ∀ (wd : World), Inv wd → FramesOK beh wd fs →
      ∀ k f, fs[k]? = some f → Shows (runFrames beh wd (fs.take (k + 1))).vt f.canvas := by
  induction fs with
  | nil => intro wd _ _ k f hk; simp at hk
  | cons f0 fs ih =>
    intro wd hI hok k f hk
    obtain ⟨h1, h2, h3⟩ := hok
    obtain ⟨hI1, hs1⟩ := C03_draw_converges beh wd f0 h1 h2 (Or.inl hI)
    cases k with
    | zero =>
      simp at hk; subst hk
      simpa [runFrames] using hs1
    | succ k =>
      have := ih (runFrame beh wd f0) hI1 h3 k f (by simpa using hk)
      simpa [runFrames] using this

/-- the very first draw: a fresh `terminal`/`screen` pair and a terminal in ANY unknown state (rendition,
    contents, cursor, modes), first canvas non-empty -/
theorem C03_first_draw (beh : Behaviour) (vt0 : VT) (hu : vt0.Unknown) (f : Frame) (hf : FrameWF f)
    (hne : f.canvas.size ≠ (Canvas.new ⟨0, 0⟩).size) (hns : NoScroll ⟨{}, vt0, {}⟩ f) :
    Shows (runFrame beh ⟨{}, vt0, {}⟩ f).vt f.canvas ∧ Inv (runFrame beh ⟨{}, vt0, {}⟩ f) := by
  have := C03_draw_converges beh ⟨{}, vt0, {}⟩ f hf hns (Or.inr ⟨agreeRend_init vt0 hu, hne⟩)
  exact ⟨this.2, this.1⟩

/-- the full statement, without the no-scroll hypothesis -/
def C03_full : Prop :=
  ∀ (beh : Behaviour) (vt0 : VT), vt0.Unknown → ∀ (f : Frame), FrameWF f → f.canvas.size ≠ (Canvas.new ⟨0, 0⟩).size →
    Shows (runFrame beh ⟨{}, vt0, {}⟩ f).vt f.canvas

/-- on a terminal that wraps immediately, a glyph printed into the bottom-right cell scrolls the display:
    the cell shows a blank instead of the glyph -/
theorem C03_immediate_scrolls (vt : VT) (bs : List Byte) (hw : vt.wrap = .immediate) (hp : vt.pending = false)
    (hx : vt.cx + 1 = vt.w) (hy : vt.cy + 1 = vt.h) :
    ((vt.print bs).cell vt.cx vt.cy).bytes = [0x20] := by
  have hx' : ¬ (vt.cx + 1 < vt.w) := by omega
  have hy' : ¬ (vt.cy + 1 < vt.h) := by omega
  simp only [VT.print, VT.resolvePending, hp, Bool.false_eq_true, if_false, VT.place, VT.advance, hx', hw,
    VT.newline, hy', VT.scrollUp, VT.cell]
  simp only [if_true]
  cases vt.eraseMode <;> simp [VT.erasedCell, Cell.blank]

/-- 1x1 immediate-wrap terminal, canvas with one non-blank cell -/
def witnessVT : VT :=
  { w := 1, h := 1, wrap := .immediate, eraseMode := .plain, cx := 0, cy := 0, pending := false, rend := {},
    g0 := .usAscii, utf8 := false, cursorVisible := true, mouse1000 := false, mouse1003 := false, alt := false,
    title := [], saved := none, ps := .ground, malformed := false, log := [], cells := fun _ _ _ => Cell.blank }
def witnessFrame : Frame := { canvas := (Canvas.new ⟨1, 1⟩).set 0 0 { glyph := { b0 := 0x41 } } }

/-- the full statement is false of the code: the witness draw leaves a blank where the canvas has `A` -/
theorem C03_immediate_counterexample : ¬ C03_full := by
  intro h
  have hs := h {} witnessVT ⟨rfl, rfl, rfl, rfl⟩ witnessFrame
    ⟨by intro x y hx0 hx hy0 hy
        have : x = 0 := by simp [witnessFrame, Canvas.set, Canvas.new] at hx; omega
        have : y = 0 := by simp [witnessFrame, Canvas.set, Canvas.new] at hy; omega
        subst_vars; decide, by decide, by decide⟩ (by decide)
  have := hs 0 0 (by decide) (by decide)
  revert this
  decide

end Tpp.Props.C03
