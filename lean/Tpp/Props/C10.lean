import Tpp.Lemmas.MarkupProps
/-!
C10 – attribute markup decodes to exactly the elements it describes.

`Tpp.Markup` is the model of `parse_element` / `encode` / `_ete` (tied to the real code by the exhaustive
state × byte sweep, all `\C`, `\U`, colour values, and random streams); `Tpp.Ref` is the markup language as
documented (spellings, their printed form, what they denote, UTF-8, canonical markup of an element string).

Equality of decoded elements is the library's own (`operator==`: the storage bytes a non-UTF-8 glyph does
not use are not compared).  It appears below in two equivalent forms: `xs.map norm = ys.map norm` and
`stringEq xs ys = true` (`stringEq` is the model of `operator==(string, string)`; `stringEq_iff`).
Structural equality of the model's storage is NOT what holds – the decoder carries the continuation bytes
of a UTF-8 glyph along as unused storage of the following elements (`C10_storage_is_carried`); no
observer in the library (==, <, hash, to_string, the terminal writer) reads those bytes.
-/
namespace Tpp.Props.C10
open Tpp Tpp.Markup Tpp.Ref

/-! ### termination of `encode` (finding: needs the consumption lemma) -/

/-- every `parse_element` call made by `encode` (text non-empty) shortens the text, so the loop runs at
    most `text.length` times; `encode` is the fuel-free loop (`C10_encode_unfold`) -/
theorem C10_encode_terminates (b : Byte) (bs : List Byte) (prev : Element) :
    (parseElement (b :: bs) prev).2.length < (b :: bs).length :=
  Nat.lt_succ_of_le (parseElement_consumes b bs prev)

theorem C10_encode_unfold (b : Byte) (bs : List Byte) (prev : Element) :
    encodeFrom (b :: bs) prev =
      (parseElement (b :: bs) prev).1 :: encodeFrom (parseElement (b :: bs) prev).2 (parseElement (b :: bs) prev).1 :=
  encodeFrom_cons b bs prev

/-- more fuel than `text.length` never changes the result -/
theorem C10_encode_fuel_irrelevant (n : Nat) (bs : List Byte) (h : bs.length ≤ n) : encodeFuel n bs {} = encode bs :=
  encodeFuel_enough n bs {} h

example : (parseElement ([0x5C, 0x69] : List Byte) {}).2 = [] := by decide

/-! ### every spelling decodes to what it denotes -/

/-- for every list of spellings – any directives in any order with any redundancy, any designator alias,
    hex digits in either case, glyphs written literally, as `\\`, as `\Cnnn` or as `\Uxxxx` – decoding the
    printed markup yields exactly the denoted element string -/
theorem C10_decode_spelling (sps : List Spelling) :
    (encode (sps.flatMap Spelling.print)).map norm = denoteAll sps :=
  encodeFrom_spellings sps {}

/-- the same, by the library's `operator==` on strings -/
theorem C10_decode_spelling_eq (sps : List Spelling) :
    stringEq (encode (sps.flatMap Spelling.print)) (denoteAll sps) = true := by
  rw [stringEq_iff, C10_decode_spelling, denoteAll, denoteFrom_normal]

/-- `_ete` decodes the first spelling and ignores the rest of the text -/
theorem C10_ete_spelling (sp : Spelling) (rest : List Byte) : norm (ete (sp.print ++ rest)) = denote sp {} :=
  (decode_spelling sp rest {}).2

-- non-vacuity: redundant, overriding directives; alias designator `E` = Danish; lower-case hex; `\C`, `\U`
example :
    let sps : List Spelling :=
      [⟨[.intensity .bold, .intensity .faint, .charset 16, .rgb .fg ⟨10, false⟩ ⟨9, true⟩ ⟨1, true⟩ ⟨7, true⟩ ⟨11, true⟩ ⟨14, false⟩],
        .code 200⟩, ⟨[], .uni ⟨2, true⟩ ⟨6, true⟩ ⟨3, true⟩ ⟨10, true⟩⟩, ⟨[.reset, .grey .bg 23], .lit 0x5C⟩]
    sps.flatMap Spelling.print = (/- \i>\i<\cE\(a917Be\C200\U263A\x\}23\\ -/ ([0x5C, 0x69, 0x3E, 0x5C, 0x69, 0x3C, 0x5C, 0x63, 0x45, 0x5C, 0x28, 0x61, 0x39, 0x31, 0x37, 0x42, 0x65, 0x5C, 0x43, 0x32, 0x30, 0x30, 0x5C, 0x55, 0x32, 0x36, 0x33, 0x41, 0x5C, 0x78, 0x5C, 0x7D, 0x32, 0x33, 0x5C, 0x5C] : List Byte)) ∧
    denoteAll sps =
      [{ glyph := { b0 := 200, cs := .danish }, attr := { fg := .rgb 0xA9 0x17 0xBE, intensity := .faint } },
       { glyph := { b0 := 0xE2, b1 := 0x98, b2 := 0xBA, cs := .utf8 }, attr := { fg := .rgb 0xA9 0x17 0xBE, intensity := .faint } },
       { glyph := { b0 := 0x5C, cs := .usAscii }, attr := { bg := .grey 255 } }] := by
  decide

/-- structural equality of the storage does not hold: the element after a UTF-8 element keeps the
    continuation bytes as unused storage (invisible to `==`, hash, `to_string` and the terminal) -/
theorem C10_storage_is_carried :
    encode (/- \U263Aa -/ ([0x5C, 0x55, 0x32, 0x36, 0x33, 0x41, 0x61] : List Byte)) ≠ denoteAll [⟨[], .uni ⟨2, true⟩ ⟨6, true⟩ ⟨3, true⟩ ⟨10, true⟩⟩, ⟨[], .lit 0x61⟩] := by
  decide

/-! ### canonical markup round-trips -/

/-- decoding the canonical markup of an expressible element string yields that string -/
theorem C10_canonical (es : List Element) (hex : Expressible es) :
    (encode (canonical es)).map norm = es.map norm := by
  unfold canonical
  rw [C10_decode_spelling, denoteAll, spellAll]
  exact denoteFrom_spellFrom es {} rfl hex

/-- … by the library's `operator==` on strings -/
theorem C10_canonical_eq (es : List Element) (hex : Expressible es) :
    stringEq (encode (canonical es)) es = true := by
  rw [stringEq_iff]; exact C10_canonical es hex

-- non-vacuity: an expressible string with a UTF-8 element in the middle (charset re-issued after it),
-- a non-printable byte, a return to default attributes; unused storage of the targets is NOT zero
example :
    let es : List Element :=
      [{ glyph := { b0 := 0x41, b1 := 7, b2 := 9, cs := .uk }, attr := { fg := .high 231, underlining := .underlined } },
       { glyph := { b0 := 0xE2, b1 := 0x98, b2 := 0xBA, cs := .utf8 }, attr := { fg := .high 231, underlining := .underlined } },
       { glyph := { b0 := 0x07, cs := .uk }, attr := {} }]
    Expressible es ∧ canonical es = (/- \cA\u+\<555A\U263A\cA\x\C007 -/ ([0x5C, 0x63, 0x41, 0x5C, 0x75, 0x2B, 0x5C, 0x3C, 0x35, 0x35, 0x35, 0x41, 0x5C, 0x55, 0x32, 0x36, 0x33, 0x41, 0x5C, 0x63, 0x41, 0x5C, 0x78, 0x5C, 0x43, 0x30, 0x30, 0x37] : List Byte)) := by
  refine ⟨?_, by decide⟩
  intro e he
  simp only [List.mem_cons, List.not_mem_nil, or_false] at he
  rcases he with rfl | rfl | rfl <;> decide

/-! ### plain text -/

/-- text without a backslash decodes to itself with default attributes (structurally: storage included) -/
theorem C10_plain (bs : List Byte) (h : (0x5C : Byte) ∉ bs) : encode bs = bs.map plainElement :=
  encodeFrom_plain bs h {} rfl rfl rfl rfl

example : (0x5C : Byte) ∉ ([0x41, 0xFF, 0x00] : List Byte) := by decide

/-! ### `\U` is UTF-8 -/

def hexDigit (n : Nat) (upper : Bool) : Hex := ⟨⟨n % 16, Nat.mod_lt _ (by decide)⟩, upper⟩

/-- for all 65 536 values and all 16 letter-case choices: the glyph produced for `\Uxxxx` is the UTF-8
    encoding (RFC 3629) of the value, zero padded to the three storage bytes, in the UTF-8 character set;
    exactly the six characters are consumed -/
theorem C10_utf8 (v : Nat) (h : v < 65536) (u3 u2 u1 u0 : Bool) (rest : List Byte) (prev : Element) :
    let text : List Byte := [0x5C, 0x55, (hexDigit (v / 4096) u3).print, (hexDigit (v / 256) u2).print,
      (hexDigit (v / 16) u1).print, (hexDigit v u0).print]
    (parseElement (text ++ rest) prev).1.glyph =
        { b0 := (utf8 v).getD 0 0, b1 := (utf8 v).getD 1 0, b2 := (utf8 v).getD 2 0, cs := .utf8 } ∧
      (parseElement (text ++ rest) prev).2 = rest := by
  intro text
  have hp : text = (GlyphSp.uni (hexDigit (v / 4096) u3) (hexDigit (v / 256) u2) (hexDigit (v / 16) u1) (hexDigit v u0)).print := rfl
  have hv : codePointOf (hexDigit (v / 4096) u3) (hexDigit (v / 256) u2) (hexDigit (v / 16) u1) (hexDigit v u0) = v := by
    simp only [codePointOf, hexDigit]; omega
  unfold parseElement
  rw [hp, decode_glyph]
  simp only [storeGlyph, hv]
  exact ⟨rfl, trivial⟩

example : (ete (/- \U20aC -/ ([0x5C, 0x55, 0x32, 0x30, 0x61, 0x43] : List Byte))).glyph = { b0 := 0xE2, b1 := 0x82, b2 := 0xAC, cs := .utf8 } := by decide

/-! ### reset, persistence -/

/-- the reset directive restores all attributes: whatever was decoded before and whatever directives
    precede it in the same element, an element whose last directive is `\x` has the default attribute -/
theorem C10_reset (sps : List Spelling) (ds : List Directive) (g : GlyphSp) :
    ((encode ((sps ++ [(⟨ds ++ [.reset], g⟩ : Spelling)]).flatMap Spelling.print)).getLast?).map (·.attr) = some ({} : Attr) := by
  have h := congrArg (fun l => l.getLast?.map (·.attr)) (decoded_snoc sps ⟨ds ++ [.reset], g⟩)
  simp only [List.getLast?_map, Option.map_map, List.getLast?_append, List.getLast?_singleton] at h
  simp only [Option.map_some, Option.some_or] at h
  have e1 : ((fun x : Element => x.attr) ∘ norm) = fun x => x.attr := rfl
  rw [e1] at h
  rw [h, denote, glyph_apply_attr, foldl_reset]

example : ((encode (/- \i>\[1a\u+\xb -/ ([0x5C, 0x69, 0x3E, 0x5C, 0x5B, 0x31, 0x61, 0x5C, 0x75, 0x2B, 0x5C, 0x78, 0x62] : List Byte))).map (·.attr)) = [{ fg := .low 1, intensity := .bold }, {}] := by decide

/-- directives persist until changed: an element written without any directive has the attributes of the
    element before it (the default attribute at the start of the text) -/
theorem C10_persist (sps : List Spelling) (g : GlyphSp) :
    (encode ((sps ++ [(⟨[], g⟩ : Spelling)]).flatMap Spelling.print)).map (·.attr) =
      (encode (sps.flatMap Spelling.print)).map (·.attr) ++ [((encode (sps.flatMap Spelling.print)).getLast?.getD {}).attr] := by
  have h := congrArg (List.map (·.attr)) (decoded_snoc sps ⟨[], g⟩)
  simp only [List.map_map, List.map_append, List.map_cons, List.map_nil] at h
  have e1 : ((fun x : Element => x.attr) ∘ norm) = fun x => x.attr := rfl
  rw [e1] at h
  rw [h, denote, glyph_apply_attr]
  rfl

/-- … and its character set, except that after a UTF-8 element the character set is US-ASCII again -/
theorem C10_persist_charset (sps : List Spelling) (b : Byte) :
    ((encode ((sps ++ [(⟨[], .lit b⟩ : Spelling)]).flatMap Spelling.print)).getLast?).map (·.glyph.cs) =
      some (startFrom ((encode (sps.flatMap Spelling.print)).getLast?.getD {})).glyph.cs := by
  have h := congrArg (fun l => l.getLast?.map (·.glyph.cs)) (decoded_snoc sps ⟨[], .lit b⟩)
  simp only [List.getLast?_map, Option.map_map, List.getLast?_append, List.getLast?_singleton] at h
  simp only [Option.map_some, Option.some_or] at h
  have e1 : ((fun x : Element => x.glyph.cs) ∘ norm) = fun x => x.glyph.cs := by
    funext x; simp only [Function.comp, norm, normGlyph]; split <;> rfl
  rw [e1] at h
  rw [h, denote, startFrom_norm]
  rfl

example : (encode (/- \cA\p-x\U00e9yz -/ ([0x5C, 0x63, 0x41, 0x5C, 0x70, 0x2D, 0x78, 0x5C, 0x55, 0x30, 0x30, 0x65, 0x39, 0x79, 0x7A] : List Byte))).map (fun e => (e.glyph.cs, e.attr.polarity)) =
    [(.uk, .negative), (.utf8, .negative), (.usAscii, .negative), (.usAscii, .negative)] := by decide

end Tpp.Props.C10
