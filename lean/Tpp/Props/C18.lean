import Tpp.Model.Charset
import Tpp.Ref.Designators
/-!
C18 – character-set designators follow the VT standard and round-trip.
All statements are over the tables regenerated from `/repo/include/terminalpp/character_set.hpp`
and `ansi/charset.hpp` on every run, and are decided by kernel evaluation over the complete
(finite) quantifier domain: 18 sets, 256 one-byte candidates, 256 `%`-extended candidates.
-/
namespace Tpp.Props.C18
open Tpp

/-- the designator produced for each designatable set is the standard primary designator -/
theorem C18_encode_standard : ∀ cs : Charset, cs ≠ .utf8 → encodeCharset cs = Ref.primaryDesignator cs := by
  intro cs; cases cs <;> decide

/-- … and looks up to the same set again -/
theorem C18_roundtrip : ∀ cs : Charset, cs ≠ .utf8 → lookupCharset (encodeCharset cs) = some cs := by
  intro cs; cases cs <;> decide

/-- one-byte candidates: the library recognises exactly the standard designators (aliases included)
    and maps each to the set the standard says; every other byte looks up to nothing -/
theorem C18_only_standard_1byte : ∀ b : Byte, lookupCharset [b] = Ref.scsLookup [b] := by
  decide +kernel

/-- `%`-extended two-byte candidates, likewise -/
theorem C18_only_standard_ext : ∀ b : Byte, lookupCharset [0x25, b] = Ref.scsLookup [0x25, b] := by
  decide +kernel

/-- every standard alias looks up to the set it denotes (corollary of the two exhaustive theorems,
    stated for the alias list itself so it is visible) -/
theorem C18_aliases :
    lookupCharset [0x35] = some .finnish ∧ lookupCharset [0x66] = some .french ∧
    lookupCharset [0x39] = some .frenchCanadian ∧ lookupCharset [0x45] = some .danish ∧
    lookupCharset [0x36] = some .danish ∧ lookupCharset [0x37] = some .swedish := by decide

/-- no two sets share a designator -/
theorem C18_no_shared_designator : ∀ a b : Charset, a ≠ .utf8 → b ≠ .utf8 →
    encodeCharset a = encodeCharset b → a = b := by
  intro a b ha hb h
  have h1 := C18_roundtrip a ha
  have h2 := C18_roundtrip b hb
  rw [h] at h1; rw [h1] at h2; exact Option.some.inj h2

/-- the empty code and a lone extender look up to nothing -/
theorem C18_degenerate : lookupCharset [] = none ∧ lookupCharset [0x25] = none := by decide

/-- UTF-8 has no SCS designator: the library falls back to the US-ASCII one (never sent: see C01) -/
theorem C18_utf8_fallback : encodeCharset .utf8 = encodeCharset .usAscii := by decide

-- non-vacuity: the quantifier domains are inhabited by sets with primary and alias designators
example : encodeCharset .danish = [0x60] ∧ lookupCharset [0x45] = some .danish ∧ lookupCharset [0x58] = none := by decide

end Tpp.Props.C18
