import Tpp.Lemmas.MarkupLoop
/-!
C07 (markup half) – arbitrary text given to the attribute-markup decoder (`encode`, `_ets`, `_ete`):
the decoder never yields more elements than input characters, never indexes its handler table out of
bounds, and every function terminates (all definitions of `Tpp.Model.Markup` are accepted by Lean as total:
`parseLoop` by structural recursion on the text, `encode` by a call counter that `C07_markup_progress`
shows is never exhausted).  "Without undefined behaviour" on the compiled code is covered by running every
stream of C10 and the hostile streams of `vlib/props/c07_markup_cases.py` under ASan+UBSan.
-/
namespace Tpp.Props.C07Markup
open Tpp Tpp.Markup

/-- the markup decoder never yields more elements than input characters -/
theorem C07_markup_bound (cs : List Byte) : (encode cs).length ≤ cs.length :=
  encodeFuel_length cs.length cs {}

-- the bound is attained (plain text), and an unfinished trailing directive still yields an element
example : (encode ([0x41, 0x42, 0x43] : List Byte)).length = 3 := by decide
example : (encode (/- a\ -/ [0x61, 0x5C] : List Byte)).length = 2 := by decide
example : (encode (/- \i>\[2 -/ [0x5C, 0x69, 0x3E, 0x5C, 0x5B, 0x32] : List Byte)).length = 1 := by decide

/-- every `parse_element` call made by `encode` consumes at least one character: the loop of `encode`
    terminates after at most `text.length` calls -/
theorem C07_markup_progress (b : Byte) (bs : List Byte) (prev : Element) :
    (parseElement (b :: bs) prev).2.length ≤ bs.length :=
  parseElement_consumes b bs prev

/-- the call counter of the model's `encode` is never exhausted: any larger counter gives the same result -/
theorem C07_markup_fuel (n : Nat) (cs : List Byte) (h : cs.length ≤ n) : encodeFuel n cs {} = encode cs :=
  encodeFuel_enough n cs {} h

/-- the handler table has exactly the 38 entries of the source, and `done` is the one state beyond it -/
theorem C07_handler_table : handlerTable.length = 38 ∧ PState.done.index = 38 ∧ handlerTable[PState.done.index]? = none :=
  ⟨rfl, rfl, rfl⟩

/-- every state a handler is looked up for has an index inside the table … -/
theorem C07_handler_state_index (st : PState) (h : st ≠ .done) : st.index < 38 := by
  cases st <;> first | decide | exact absurd rfl h

/-- … and the loop never looks a handler up for `done` or beyond: the loop that indexes the 38-entry table
    with `static_cast<int>(state)` – an out-of-bounds read is `none` – always succeeds and agrees with the
    model, from every state, for every text -/
theorem C07_handler_index (text : List Byte) (st : PState) (sc : Scratch) (e : Element) :
    parseLoopChecked text st sc e = some (parseLoop text st sc e) :=
  parseLoopChecked_eq text st sc e

theorem C07_handler_index_parse_element (text : List Byte) (base : Element) :
    parseLoopChecked text .idle {} (elementWithBase base) = some (parseElement text base) :=
  parseLoopChecked_eq text .idle {} (elementWithBase base)

-- non-vacuity: the checked loop does fail when a lookup is out of bounds – with the same dispatch over a
-- table that is one entry short, the last handler state (`utf8_3`, index 37) is such a lookup
example : (handlerTable.take 37)[PState.utf3.index]? = none := by decide
example : parseLoopChecked (/- \U263A! -/ [0x5C, 0x55, 0x32, 0x36, 0x33, 0x41, 0x21] : List Byte) .idle {} {} =
    some ({ glyph := { b0 := 0xE2, b1 := 0x98, b2 := 0xBA, cs := .utf8 } }, [0x21]) := by decide

end Tpp.Props.C07Markup
