import Tpp.Lemmas.Step
/-!
C02 – a cursor move puts the next glyph where it was asked, on every kind of terminal.

After ANY in-domain history (writes incl. into the last column, moves, save/restore, erases, resizes) the
belief agrees with the terminal (`agree_run`, C08); from such a state a move to a position inside the
declared size followed by a string that fits on the row lands glyph `i` at `(p.x + i, p.y)` – on terminals
that defer the wrap, wrap immediately, or do not wrap (`vt.wrap` is unconstrained), for every cursor
position the terminal may have had (`Agree` says nothing about the terminal where the belief is unknown).
-/
namespace Tpp.Props.C02
open Tpp

/-- the placement step, from any state in which belief and terminal agree -/
theorem C02_placement_step (beh : Behaviour) (s : TermState) (vt : VT) (hA : Agree s vt) (p : Point)
    (hp : 0 ≤ p.x ∧ p.x < s.size.width ∧ 0 ≤ p.y ∧ p.y < s.size.height)
    (es : List Element) (hes : ∀ e ∈ es, e.wf = true) (hfit : p.x + es.length ≤ s.size.width) :
    let st' := Sys.run beh (s, vt) [.op (.moveCursor p), .op (.writeString es)]
    ∃ entries, st'.2.log = vt.log ++ entries ∧
      entries.map (fun t => (t.1, t.2.1)) = (List.range es.length).map (fun i => (p.x.toNat + i, p.y.toNat)) ∧
      entries.map (·.2.2) = es.map cellOf := by
  intro st'
  have hA1 := agree_moveCursor beh s vt hA p hp
  have hlog1 : (vt.feedAll (step beh s (.moveCursor p)).2).log = vt.log := by
    simp only [step]; rw [feed_moveCursor s vt hA p hp.1 hp.2.1 hp.2.2.1 hp.2.2.2]
  -- after the move: write_optional_default_attribute, then the elements
  obtain ⟨hA2, hk2, hl2, hc2, hs2⟩ := agree_defaultAttr _ _ hA1
  have hcur : (defaultAttr (step beh s (.moveCursor p)).1).1.cursor = some p := by rw [hc2]; rfl
  have hsz : (defaultAttr (step beh s (.moveCursor p)).1).1.size = s.size := by rw [hs2]; rfl
  obtain ⟨entries, hent, hpos⟩ := rawElements_positions beh es _ _ p hA2 hcur hes hk2 (by rw [hsz]; exact hfit)
  obtain ⟨_, ⟨entries', hent', hcells⟩, _⟩ := agree_rawElements beh es _ _ hA2 hes hk2
  have : entries' = entries := by
    have := hent.symm.trans hent'
    exact (List.append_cancel_left this).symm
  subst this
  refine ⟨entries', ?_, hpos, hcells⟩
  show ((vt.feedAll (step beh s (.moveCursor p)).2).feedAll
      (step beh (step beh s (.moveCursor p)).1 (.writeString es)).2).log = _
  have e2 : (step beh (step beh s (.moveCursor p)).1 (.writeString es)).2
      = (defaultAttr (step beh s (.moveCursor p)).1).2
        ++ (rawElements beh (defaultAttr (step beh s (.moveCursor p)).1).1 es).2 := rfl
  rw [e2, VT.feedAll_append, hent, hl2, hlog1]

/-- the property: after any history, on any terminal configuration -/
theorem C02_placement (beh : Behaviour) (st : TermState × VT) (hA : Agree st.1 st.2) (evs : List Ev)
    (hwf : RunWF beh st evs) (p : Point)
    (hp : 0 ≤ p.x ∧ p.x < (Sys.run beh st evs).1.size.width ∧ 0 ≤ p.y ∧ p.y < (Sys.run beh st evs).1.size.height)
    (es : List Element) (hes : ∀ e ∈ es, e.wf = true) (hfit : p.x + es.length ≤ (Sys.run beh st evs).1.size.width) :
    let mid := Sys.run beh st evs
    let fin := Sys.run beh mid [.op (.moveCursor p), .op (.writeString es)]
    ∃ entries, fin.2.log = mid.2.log ++ entries ∧
      entries.map (fun t => (t.1, t.2.1)) = (List.range es.length).map (fun i => (p.x.toNat + i, p.y.toNat)) ∧
      entries.map (·.2.2) = es.map cellOf := by
  have h := agree_run beh evs st hA hwf
  exact C02_placement_step beh _ _ h p hp es hes hfit

/-- writing the last column makes the library forget the position, in all three wrap modes, so the next
    move is an absolute CUP (which also cancels a deferred wrap) -/
theorem C02_after_last_column (beh : Behaviour) (s : TermState) (p q : Point) (e : Element)
    (hc : s.cursor = some p) (hx : p.x + 1 = s.size.width) :
    (step beh (step beh s (.writeElement e)).1 (.moveCursor q)).2 = writeCUP q := by
  have h1 : (defaultAttr s).1.cursor = some p ∧ (defaultAttr s).1.size = s.size := by
    unfold defaultAttr; cases s.last <;> simp [hc]
  have : (rawElement beh (defaultAttr s).1 e).1.cursor = none := by
    simp only [rawElement, advanceCursor, h1.1, h1.2, hx, if_true]
  simp [step, moveCursorBytes, this]

-- non-vacuity: a 4x3 terminal, belief known, string ending exactly in the last column
example : (0:Int) ≤ 2 ∧ (2:Int) < 4 ∧ (0:Int) ≤ 1 ∧ (1:Int) < 3 ∧ (2:Int) + ([({} : Element), {}] : List Element).length ≤ 4 := by decide

end Tpp.Props.C02
