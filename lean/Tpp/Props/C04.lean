import Tpp.Model.Screen
namespace Tpp.Props.C04
end Tpp.Props.C04
