import Tpp.Lemmas.DrawFrame
import Tpp.Lemmas.RendOnly
/-!
C04 – `screen.draw` sends only the cells that changed; an unchanged canvas sends nothing.

`changedCell base c p` is the library's own element inequality (`!=`, which ignores unused glyph storage)
between the frame the draw is diffed against (`Screen.base`: the previously drawn canvas, or blanks of the
new size after a size change) and the canvas being drawn.
-/
namespace Tpp.Props.C04
open Tpp

/-- drawing a canvas equal to the one last drawn writes no bytes at all – from any terminal state -/
theorem C04_same_canvas_silent (beh : Behaviour) (scr : ScreenState) (c : Canvas) (s : TermState) :
    (run beh s (Screen.draw (Screen.draw scr c).1 c).2).2 = [] := by
  have h : (Screen.draw (Screen.draw scr c).1 c).2 = [] := by
    simp only [Screen.draw, Screen.drawOps, Screen.base, ne_eq, not_true_eq_false, if_false, List.nil_append]
    rw [List.flatMap_eq_nil_iff]
    intro p _
    simp [Screen.cellOps, Element.eq_refl]
  rw [h]; rfl

/-- the operations of a draw: an erase exactly when the size changed, then – in `for_each_in_region`
    (row-major) order – one move + one element for each cell whose element differs, and nothing for any other cell -/
theorem C04_ops_exact (scr : ScreenState) (c : Canvas) :
    (Screen.draw scr c).2 =
      (if c.size ≠ scr.last.size then [Op.erase .display] else []) ++
      ((fullRegion c).filter (changedCell (Screen.base scr c) c)).flatMap
        (fun p => [Op.moveCursor ⟨p.1, p.2⟩, Op.writeElement (c.get p.1 p.2)]) := by
  simp only [Screen.draw, Screen.drawOps, fullRegion]
  congr 1
  induction regionCoords ⟨⟨0, 0⟩, c.size⟩ with
  | nil => rfl
  | cons p ps ih =>
    simp only [List.flatMap_cons, List.filter_cons, ih, cellOps_eq]
    cases changedCell (Screen.base scr c) c p <;> simp

/-- row-major, each cell at most once (the region enumeration has no duplicates) -/
theorem C04_each_once (c : Canvas) : (fullRegion c).Nodup ∧ List.Pairwise Tpp.Lemmas.Canvas.RowMajorLt (fullRegion c) :=
  ⟨Tpp.Lemmas.Canvas.nodup_regionCoords _, Tpp.Lemmas.Canvas.pairwise_regionCoords _⟩

/-- **on the wire**: the glyphs the reference terminal receives during one draw are exactly the changed
    cells – each once, in row-major order, at its own position, shown as the canvas's element – and no other;
    on every kind of terminal (no condition on the wrap mode is needed for what is *transmitted*) -/
theorem C04_wire_exact (beh : Behaviour) (scr : ScreenState) (c : Canvas) (s : TermState) (vt : VT)
    (hA : Agree s vt) (hsize : c.size = s.size) (hwf : c.cellsWF) :
    (vt.feedAll (drawRun beh scr c s).2).log
      = vt.log ++ ((fullRegion c).filter (changedCell (Screen.base scr c) c)).map (drawnEntry c) := by
  -- the grid hypothesis of `draw_frame` is only used for its last conjunct; supply it vacuously via cases
  by_cases hsz : c.size = scr.last.size
  · -- same size: run the loop directly
    have hr : drawRun beh scr c s = run beh s ((fullRegion c).flatMap (Screen.cellOps (Screen.base scr c) c)) := by
      simp [drawRun, Screen.draw, Screen.drawOps, hsz, fullRegion]
    rw [hr]
    have hin : ∀ p ∈ fullRegion c, 0 ≤ p.1 ∧ p.1 < s.size.width ∧ 0 ≤ p.2 ∧ p.2 < s.size.height := by
      intro p hp; rw [mem_fullRegion] at hp; rw [← hsize]; exact ⟨hp.1.1, hp.1.2, hp.2.1, hp.2.2⟩
    have hwfp : ∀ p ∈ fullRegion c, (c.get p.1 p.2).wf = true := by
      intro p hp; rw [mem_fullRegion] at hp; exact hwf p.1 p.2 hp.1.1 hp.1.2 hp.2.1 hp.2.2
    exact (draw_loop beh (Screen.base scr c) c (fullRegion c) s vt hA hin hwfp).2.2.2.2.1
  · exact (draw_frame beh scr c s vt hA hsize hwf (fun h => absurd h hsz)).2.2.1

/-- the elements a draw asks the terminal to show are the changed cells' elements, in row-major order -/
theorem drawOps_elements (scr : ScreenState) (c : Canvas) :
    ((Screen.draw scr c).2.map REv.op).flatMap REv.elements
      = ((fullRegion c).filter (changedCell (Screen.base scr c) c)).map (fun p => c.get p.1 p.2) := by
  rw [C04_ops_exact]
  simp only [List.map_append, List.flatMap_append]
  have h1 : ((if c.size ≠ scr.last.size then [Op.erase .display] else []).map REv.op).flatMap REv.elements = [] := by
    split <;> rfl
  rw [h1, List.nil_append]
  induction (fullRegion c).filter (changedCell (Screen.base scr c) c) with
  | nil => rfl
  | cons p ps ih =>
    simp only [List.flatMap_cons, List.map_append, List.flatMap_append, List.map_cons, ih]
    rfl

/-- **no size needed**: whatever the library believes about sizes and positions (no `set_size`, a canvas larger
    or smaller than the terminal), the glyphs a draw transmits are exactly the changed cells' elements – each once,
    in row-major order, with exactly the requested look – and nothing else is printed.  (WHERE they land is C03's
    business and needs the declared-size protocol.) -/
theorem C04_wire_cells_any_size (beh : Behaviour) (scr : ScreenState) (c : Canvas) (s : TermState) (vt : VT)
    (hA : AgreeRend s vt) (hwf : c.cellsWF) :
    ∃ entries, (vt.feedAll (drawRun beh scr c s).2).log = vt.log ++ entries ∧
      entries.map (·.2.2) = ((fullRegion c).filter (changedCell (Screen.base scr c) c)).map (fun p => cellOf (c.get p.1 p.2)) := by
  have hall : ∀ op ∈ (Screen.draw scr c).2, op.WFR0 := by
    intro op hop
    rw [C04_ops_exact] at hop
    rcases List.mem_append.mp hop with h | h
    · split at h
      · simp at h; subst h; trivial
      · simp at h
    · rw [List.mem_flatMap] at h
      obtain ⟨p, hp, hmem⟩ := h
      have hin := (mem_fullRegion c p).mp (List.mem_filter.mp hp).1
      simp at hmem
      rcases hmem with rfl | rfl
      · exact ⟨hin.1.1, hin.2.1⟩
      · exact hwf p.1 p.2 hin.1.1 hin.1.2 hin.2.1 hin.2.2
  obtain ⟨_, entries, hlog, hcells⟩ := agreeRend_run beh ((Screen.draw scr c).2.map REv.op) (s, vt) hA
    (rrunwf_of_all beh _ hall _)
  rw [RSys.run_ops] at hlog
  refine ⟨entries, hlog, ?_⟩
  rw [hcells, drawOps_elements, List.map_map]
  rfl

-- non-vacuity: a 2x1 canvas whose second cell differs from the blank frame
example : (fullRegion (((Canvas.new ⟨2, 1⟩).set 1 0 { glyph := { b0 := 0x41 } }))).filter
    (changedCell (Canvas.new ⟨2, 1⟩) ((Canvas.new ⟨2, 1⟩).set 1 0 { glyph := { b0 := 0x41 } })) = [(1, 0)] := by decide

end Tpp.Props.C04
