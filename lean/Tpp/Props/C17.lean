import Tpp.Model.Strings
import Tpp.Lemmas.Step
/-!
C17 – the plain text of a string is preserved from construction to the wire.
-/
namespace Tpp.Props.C17
open Tpp

/-- converting any byte string (all 256 values, embedded NUL) to an attributed string and back -/
theorem C17_roundtrip (bs : List Byte) : TString.toString (TString.ofBytes bs) = bs := by
  induction bs with
  | nil => rfl
  | cons b bs ih =>
    simp only [TString.ofBytes, List.map_cons, TString.toString, List.flatMap_cons] at ih ⊢
    rw [ih]; rfl

/-- `to_string` distributes over concatenation (`+`, `+=`) -/
theorem C17_append (a b : List Element) : TString.toString (a ++ b) = TString.toString a ++ TString.toString b := by
  simp [TString.toString]

/-- glyphs the property quantifies over: any byte in a single-byte set (unused storage arbitrary); for UTF-8
    the zero-padded well-formed encoding of a code point U+0000–U+FFFF (1–3 bytes) -/
def Glyph.Valid (g : Glyph) : Bool :=
  if g.cs = .utf8 then
    (g.b0 < 0x80 && g.b1 = 0 && g.b2 = 0) ||
    ((0xC2 ≤ g.b0 && g.b0 ≤ 0xDF) && isCont g.b1 && g.b2 = 0) ||
    ((0xE0 ≤ g.b0 && g.b0 ≤ 0xEF) && isCont g.b1 && isCont g.b2)
  else true

theorem ascii7_facts : ∀ b : UInt8, b < 0x80 → (b = 0 ∨ b &&& 0x80 = 0) := by decide +kernel

/-- for every valid glyph the bytes the terminal writer transmits are exactly the bytes `to_string` yields -/
theorem payload_eq_toString (g : Glyph) (hv : Glyph.Valid g = true) : g.payload = g.toStringBytes := by
  unfold Glyph.Valid at hv
  by_cases hu : g.cs = .utf8
  · simp only [hu, if_true, Bool.or_eq_true, Bool.and_eq_true, decide_eq_true_eq] at hv
    rcases hv with (⟨⟨h1, h3⟩, h4⟩ | ⟨⟨⟨h1, h2⟩, h3⟩, h4⟩) | ⟨⟨⟨h1, h2⟩, h3⟩, h4⟩
    · rcases ascii7_facts g.b0 h1 with a | a <;>
        simp [Glyph.payload, Glyph.toStringBytes, Glyph.utf8Index, hu, a, h3, h4]
    · obtain ⟨a1, a2, _, _, _⟩ := lead2_facts g.b0 h1 h2
      obtain ⟨c1, c2, _, _⟩ := cont_facts g.b1 h3
      simp [Glyph.payload, Glyph.toStringBytes, Glyph.utf8Index, hu, a1, a2, c1, c2, h4]
    · obtain ⟨a1, a2, _, _, _⟩ := lead3_facts g.b0 h1 h2
      obtain ⟨c1, c2, _, _⟩ := cont_facts g.b1 h3
      obtain ⟨d1, d2, _, _⟩ := cont_facts g.b2 h4
      simp [Glyph.payload, Glyph.toStringBytes, Glyph.utf8Index, hu, a1, a2, c1, c2, d1, d2]
  · simp [Glyph.payload, Glyph.toStringBytes, hu]

/-- the segments are exactly what `terminal << string` writes -/
theorem segs_flatten (beh : Behaviour) (es : List Element) : ∀ s : TermState,
    (rawElementsSegs beh s es).flatMap Seg.bytes = (rawElements beh s es).2 := by
  induction es with
  | nil => intro s; rfl
  | cons e es ih =>
    intro s
    simp only [rawElementsSegs, rawElementSegs, List.flatMap_append, List.flatMap_cons, List.flatMap_nil, Seg.bytes,
      List.append_nil, rawElements, ih, rawElement]

theorem writeString_segs (beh : Behaviour) (s : TermState) (es : List Element) :
    (writeStringSegs beh s es).flatMap Seg.bytes = (step beh s (.writeString es)).2 := by
  simp only [writeStringSegs, List.flatMap_cons, Seg.bytes, segs_flatten, step]

/-- **the wire**: the glyph bytes a terminal transmits for an attributed string – every control segment
    (SGR, charset selection) removed – are exactly `to_string` of that string, for ANY byte values
    (NUL, ESC and bytes above 0x7F included), any attributes, any charsets, any prior state -/
theorem C17_wire (beh : Behaviour) (es : List Element) (hv : ∀ e ∈ es, Glyph.Valid e.glyph = true) :
    ∀ s : TermState, (writeStringSegs beh s es).flatMap Seg.payloadBytes = TString.toString es := by
  have h : ∀ (es : List Element), (∀ e ∈ es, Glyph.Valid e.glyph = true) → ∀ s : TermState,
      (rawElementsSegs beh s es).flatMap Seg.payloadBytes = TString.toString es := by
    intro es
    induction es with
    | nil => intro _ s; rfl
    | cons e es ih =>
      intro hv s
      simp only [rawElementsSegs, rawElementSegs, List.flatMap_append, List.flatMap_cons, List.flatMap_nil,
        Seg.payloadBytes, List.append_nil, List.nil_append, TString.toString]
      rw [payload_eq_toString e.glyph (hv e (by simp))]
      have := ih (fun e' he' => hv e' (by simp [he'])) (rawElement beh s e).1
      simp only [TString.toString] at this
      rw [this]
  intro s
  simp only [writeStringSegs, List.flatMap_cons, Seg.payloadBytes, List.nil_append]
  exact h es hv _

/-- for graphic glyphs the reference terminal's own view agrees: the bytes it prints (its log) are `to_string` -/
theorem C17_wire_vt (beh : Behaviour) (s : TermState) (vt : VT) (hA : Agree s vt) (es : List Element)
    (hw : ∀ e ∈ es, e.wf = true) :
    ∃ entries, (vt.feedAll (step beh s (.writeString es)).2).log = vt.log ++ entries ∧
      entries.flatMap (·.2.2.bytes) = TString.toString es := by
  obtain ⟨entries, h1, h2⟩ := step_log beh s vt hA (.op (.writeString es)) hw
  refine ⟨entries, h1, ?_⟩
  have h3 : entries.map (fun t => t.2.2.bytes) = es.map (fun e => e.glyph.text) := by
    have := congrArg (List.map Cell.bytes) h2
    simp only [List.map_map, Ev.elements, Op.elements] at this
    exact this
  rw [List.flatMap_def, h3, TString.toString, List.flatMap_def]
  rfl

-- the quantifier domain includes embedded NUL, the UTF-8 glyph U+0000 and bytes above 0x7F
example : Glyph.Valid { b0 := 0, b1 := 0, b2 := 0, cs := .utf8 } = true ∧ Glyph.Valid { b0 := 0, cs := .dec } = true ∧
    Glyph.Valid { b0 := 0xE2, b1 := 0x82, b2 := 0xAC, cs := .utf8 } = true := by decide
example : TString.toString (TString.ofBytes [0x41, 0x00, 0xFF]) = [0x41, 0x00, 0xFF] := by decide

end Tpp.Props.C17
