import Tpp.Model.Strings
import Tpp.Lemmas.Step
import Tpp.Lemmas.StringOps
import Tpp.Model.Ctors
/-!
C17 – the plain text of a string is preserved from construction to the wire.
-/
namespace Tpp.Props.C17
open Tpp

/-- converting any byte string (all 256 values, embedded NUL) to an attributed string and back -/
theorem C17_roundtrip (bs : List Byte) : TString.toString (TString.ofBytes bs) = bs := by
  induction bs with
  | nil => rfl
  | cons b bs ih =>
    simp only [TString.ofBytes, List.map_cons, TString.toString, List.flatMap_cons] at ih ⊢
    rw [ih]; rfl

/-- `to_string` distributes over concatenation (`+`, `+=`) -/
theorem C17_append (a b : List Element) : TString.toString (a ++ b) = TString.toString a ++ TString.toString b := by
  simp [TString.toString]

/-- glyphs the property quantifies over: any byte in a single-byte set (unused storage arbitrary); for UTF-8
    the zero-padded well-formed encoding of a code point U+0000–U+FFFF (1–3 bytes) -/
def Glyph.Valid (g : Glyph) : Bool :=
  if g.cs = .utf8 then
    (g.b0 < 0x80 && g.b1 = 0 && g.b2 = 0) ||
    ((0xC2 ≤ g.b0 && g.b0 ≤ 0xDF) && isCont g.b1 && g.b2 = 0) ||
    ((0xE0 ≤ g.b0 && g.b0 ≤ 0xEF) && isCont g.b1 && isCont g.b2)
  else true

theorem ascii7_facts : ∀ b : UInt8, b < 0x80 → (b = 0 ∨ b &&& 0x80 = 0) := by decide +kernel

/-- for every valid glyph the bytes the terminal writer transmits are exactly the bytes `to_string` yields -/
theorem payload_eq_toString (g : Glyph) (hv : Glyph.Valid g = true) : g.payload = g.toStringBytes := by
  unfold Glyph.Valid at hv
  by_cases hu : g.cs = .utf8
  · simp only [hu, if_true, Bool.or_eq_true, Bool.and_eq_true, decide_eq_true_eq] at hv
    rcases hv with (⟨⟨h1, h3⟩, h4⟩ | ⟨⟨⟨h1, h2⟩, h3⟩, h4⟩) | ⟨⟨⟨h1, h2⟩, h3⟩, h4⟩
    · rcases ascii7_facts g.b0 h1 with a | a <;>
        simp [Glyph.payload, Glyph.toStringBytes, Glyph.utf8Index, hu, a, h3, h4]
    · obtain ⟨a1, a2, _, _, _⟩ := lead2_facts g.b0 h1 h2
      obtain ⟨c1, c2, _, _⟩ := cont_facts g.b1 h3
      simp [Glyph.payload, Glyph.toStringBytes, Glyph.utf8Index, hu, a1, a2, c1, c2, h4]
    · obtain ⟨a1, a2, _, _, _⟩ := lead3_facts g.b0 h1 h2
      obtain ⟨c1, c2, _, _⟩ := cont_facts g.b1 h3
      obtain ⟨d1, d2, _, _⟩ := cont_facts g.b2 h4
      simp [Glyph.payload, Glyph.toStringBytes, Glyph.utf8Index, hu, a1, a2, c1, c2, d1, d2]
  · simp [Glyph.payload, Glyph.toStringBytes, hu]

/-- the segments are exactly what `terminal << string` writes -/
theorem segs_flatten (beh : Behaviour) (es : List Element) : ∀ s : TermState,
    (rawElementsSegs beh s es).flatMap Seg.bytes = (rawElements beh s es).2 := by
  induction es with
  | nil => intro s; rfl
  | cons e es ih =>
    intro s
    simp only [rawElementsSegs, rawElementSegs, List.flatMap_append, List.flatMap_cons, List.flatMap_nil, Seg.bytes,
      List.append_nil, rawElements, ih, rawElement]

theorem writeString_segs (beh : Behaviour) (s : TermState) (es : List Element) :
    (writeStringSegs beh s es).flatMap Seg.bytes = (step beh s (.writeString es)).2 := by
  simp only [writeStringSegs, List.flatMap_cons, Seg.bytes, segs_flatten, step]

/-- **the wire**: the glyph bytes a terminal transmits for an attributed string – every control segment
    (SGR, charset selection) removed – are exactly `to_string` of that string, for ANY byte values
    (NUL, ESC and bytes above 0x7F included), any attributes, any charsets, any prior state -/
theorem C17_wire (beh : Behaviour) (es : List Element) (hv : ∀ e ∈ es, Glyph.Valid e.glyph = true) :
    ∀ s : TermState, (writeStringSegs beh s es).flatMap Seg.payloadBytes = TString.toString es := by
  have h : ∀ (es : List Element), (∀ e ∈ es, Glyph.Valid e.glyph = true) → ∀ s : TermState,
      (rawElementsSegs beh s es).flatMap Seg.payloadBytes = TString.toString es := by
    intro es
    induction es with
    | nil => intro _ s; rfl
    | cons e es ih =>
      intro hv s
      simp only [rawElementsSegs, rawElementSegs, List.flatMap_append, List.flatMap_cons, List.flatMap_nil,
        Seg.payloadBytes, List.append_nil, List.nil_append, TString.toString]
      rw [payload_eq_toString e.glyph (hv e (by simp))]
      have := ih (fun e' he' => hv e' (by simp [he'])) (rawElement beh s e).1
      simp only [TString.toString] at this
      rw [this]
  intro s
  simp only [writeStringSegs, List.flatMap_cons, Seg.payloadBytes, List.nil_append]
  exact h es hv _

/-- for graphic glyphs the reference terminal's own view agrees: the bytes it prints (its log) are `to_string` -/
theorem C17_wire_vt (beh : Behaviour) (s : TermState) (vt : VT) (hA : Agree s vt) (es : List Element)
    (hw : ∀ e ∈ es, e.wf = true) :
    ∃ entries, (vt.feedAll (step beh s (.writeString es)).2).log = vt.log ++ entries ∧
      entries.flatMap (·.2.2.bytes) = TString.toString es := by
  obtain ⟨entries, h1, h2⟩ := step_log beh s vt hA (.op (.writeString es)) hw
  refine ⟨entries, h1, ?_⟩
  have h3 : entries.map (fun t => t.2.2.bytes) = es.map (fun e => e.glyph.text) := by
    have := congrArg (List.map Cell.bytes) h2
    simp only [List.map_map, Ev.elements, Op.elements] at this
    exact this
  rw [List.flatMap_def, h3, TString.toString, List.flatMap_def]
  rfl

-- ---------------------------------------------------------------------------------------------------------
-- every way of constructing and editing a string (the whole of `class string`)

/-- `string(char const*)`: the text up to the terminating NUL, whatever follows it in memory -/
theorem C17_ctor_cstr (bs junk : List Byte) (h : ∀ b ∈ bs, b ≠ 0) :
    TString.toString (TString.ofCStr (bs ++ 0 :: junk)) = bs := by
  have : ∀ bs : List Byte, (∀ b ∈ bs, b ≠ 0) → (bs ++ 0 :: junk).takeWhile (· ≠ 0) = bs := by
    intro bs
    induction bs with
    | nil => intro _; simp
    | cons b bs ih =>
      intro h
      have hb : b ≠ 0 := h b (by simp)
      simpa [hb] using ih (fun x hx => h x (by simp [hx]))
  rw [TString.ofCStr, this bs h, C17_roundtrip]

/-- `string(std::string, attribute)`: attributes never drop, add or reorder text – for ANY bytes (embedded NUL
    included) – and every element carries the attribute -/
theorem C17_ctor_attr (bs : List Byte) (a : Attr) :
    TString.toString (TString.withAttr a (TString.ofBytes bs)) = bs
    ∧ (TString.withAttr a (TString.ofBytes bs)).length = bs.length
    ∧ ∀ e ∈ TString.withAttr a (TString.ofBytes bs), e.attr = a := by
  refine ⟨?_, by simp [TString.withAttr, TString.ofBytes], ?_⟩
  · have : TString.toString (TString.withAttr a (TString.ofBytes bs)) = TString.toString (TString.ofBytes bs) := by
      simp [TString.toString, TString.withAttr, List.flatMap_def, List.map_map, Function.comp_def]
    rw [this, C17_roundtrip]
  · intro e he
    simp only [TString.withAttr, List.mem_map] at he
    obtain ⟨e', _, rfl⟩ := he
    rfl

/-- `string(size, element)` -/
theorem C17_ctor_fill (n : Nat) (e : Element) :
    TString.toString (List.replicate n e) = (List.replicate n e.glyph.toStringBytes).flatten := by
  simp [TString.toString_eq_flatten]

/-- **text preservation under every program over the class**: run any sequence of constructors, `+=`, `+`,
    `insert`, `erase`, `swap` and `operator[]` assignments on any registers; the plain text of every resulting
    string is what the SAME program yields when run on the sequences of glyph texts.  No operation drops,
    duplicates, reorders or alters text except as the sequence operation itself says; attributes never matter. -/
theorem C17_program_text (ops : List (SeqOp Element)) (g : Regs Element) (r : Nat) :
    TString.toString (SeqOp.run g ops r)
      = (SeqOp.run (g.map fun e => e.glyph.toStringBytes) (ops.map (SeqOp.map fun e => e.glyph.toStringBytes)) r).flatten := by
  rw [TString.toString_eq_flatten, ← SeqOp.run_map]
  rfl

/-- the two `insert`s and the three `erase`s spelled out on the text -/
theorem C17_insert_text (s : List Element) (pos : Nat) (e : Element) :
    TString.toString (s.take pos ++ [e] ++ s.drop pos)
      = TString.toString (s.take pos) ++ e.glyph.toStringBytes ++ TString.toString (s.drop pos) := by
  simp [TString.toString]
theorem C17_erase_text (s : List Element) (a b : Nat) :
    TString.toString (s.take a ++ s.drop b) = TString.toString (s.take a) ++ TString.toString (s.drop b) := by
  simp [TString.toString]

-- non-vacuity: a program using every operation, on concrete registers
example :
    TString.toString (SeqOp.run (fun _ => []) [
        .set 0 (TString.ofCStr [0x61, 0x62, 0x00, 0x63]), .set 1 (TString.withAttr { intensity := .bold } (TString.ofBytes [0x00, 0xFF])),
        .addS 0 1, .addE 0 { glyph := { b0 := 0xC3, b1 := 0xA9, cs := .utf8 } }, .plusS 2 0 1, .plusE 3 2 {},
        .insE 2 1 { glyph := { b0 := 0x2A } }, .insR 3 0 2 1 3, .eraseRange 0 1 2, .eraseFrom 1 1, .swap 0 1,
        .setAt 3 0 { glyph := { b0 := 0x21 } }, .eraseAll 2] 3)
      = [0x21, 0x62, 0x61, 0x62, 0x00, 0xFF, 0xC3, 0xA9, 0x00, 0xFF, 0x20] := by decide

-- ---------------------------------------------------------------------------------------------------------
-- how text gets into a glyph: the constructors

/-- a well-formed UTF-8 encoding of one code point U+0001–U+FFFF (what a `u8"…"` literal of one character holds) -/
def WellFormed1 : List Byte → Bool
  | [a] => a < 0x80 && a != 0
  | [a, b] => (0xC2 ≤ a && a ≤ 0xDF) && isCont b
  | [a, b, c] => (0xE0 ≤ a && a ≤ 0xEF) && isCont b && isCont c
  | _ => false

theorem low_facts : ∀ b : UInt8, b < 0x80 → b &&& 0x80 = 0 := by decide +kernel
theorem high_facts : ∀ b : UInt8, 0x80 ≤ b → b &&& 0x80 ≠ 0 := by decide +kernel

/-- `glyph(char const*)` on a NUL-terminated string holding exactly one well-formed character (the documented
    use, `glyph(u8"\U00002501")`): a valid zero-padded glyph whose text is that character – whatever follows
    the terminator in memory -/
theorem C17_glyph_from_cstr (enc junk : List Byte) (hw : WellFormed1 enc = true) :
    Glyph.Valid (Glyph.ofCharPtr (enc ++ 0 :: junk)) = true ∧ (Glyph.ofCharPtr (enc ++ 0 :: junk)).toStringBytes = enc := by
  match enc, hw with
  | [a], hw =>
    simp only [WellFormed1, Bool.and_eq_true, decide_eq_true_eq, bne_iff_ne, ne_eq] at hw
    have h0 := low_facts a hw.1
    simp [Glyph.ofCharPtr, h0, Glyph.Valid, Glyph.toStringBytes, hw.1]
  | [a, b], hw =>
    simp only [WellFormed1, Bool.and_eq_true, decide_eq_true_eq] at hw
    obtain ⟨⟨h1, h2⟩, h3⟩ := hw
    obtain ⟨a1, a2, _, _, _⟩ := lead2_facts a h1 h2
    obtain ⟨c1, c2, _, _⟩ := cont_facts b h3
    simp [Glyph.ofCharPtr, a2, c2, c1, Glyph.Valid, Glyph.toStringBytes, h1, h2, h3]
  | [a, b, c], hw =>
    simp only [WellFormed1, Bool.and_eq_true, decide_eq_true_eq] at hw
    obtain ⟨⟨⟨h1, h2⟩, h3⟩, h4⟩ := hw
    obtain ⟨a1, a2, _, _, _⟩ := lead3_facts a h1 h2
    obtain ⟨c1, c2, _, _⟩ := cont_facts b h3
    obtain ⟨d1, d2, _, _⟩ := cont_facts c h4
    simp [Glyph.ofCharPtr, a2, c2, c1, d1, Glyph.Valid, Glyph.toStringBytes, h1, h2, h3, h4]

/-- the array constructors: the characters of the literal, zero padded -/
theorem C17_glyph_from_array (a b c : Byte) :
    (WellFormed1 [a] = true → Glyph.Valid (Glyph.ofArr1 a) = true ∧ (Glyph.ofArr1 a).toStringBytes = [a]) ∧
    (WellFormed1 [a, b] = true → Glyph.Valid (Glyph.ofArr2 a b) = true ∧ (Glyph.ofArr2 a b).toStringBytes = [a, b]) ∧
    (WellFormed1 [a, b, c] = true → Glyph.Valid (Glyph.ofArr3 a b c) = true ∧ (Glyph.ofArr3 a b c).toStringBytes = [a, b, c]) := by
  refine ⟨?_, ?_, ?_⟩
  · intro hw
    simp only [WellFormed1, Bool.and_eq_true, decide_eq_true_eq, bne_iff_ne, ne_eq] at hw
    simp [Glyph.ofArr1, Glyph.Valid, Glyph.toStringBytes, hw.1]
  · intro hw
    simp only [WellFormed1, Bool.and_eq_true, decide_eq_true_eq] at hw
    obtain ⟨⟨h1, h2⟩, h3⟩ := hw
    obtain ⟨c1, _, _, _⟩ := cont_facts b h3
    simp [Glyph.ofArr2, Glyph.Valid, Glyph.toStringBytes, h1, h2, h3, c1]
  · intro hw
    simp only [WellFormed1, Bool.and_eq_true, decide_eq_true_eq] at hw
    obtain ⟨⟨⟨h1, h2⟩, h3⟩, h4⟩ := hw
    obtain ⟨c1, _, _, _⟩ := cont_facts b h3
    obtain ⟨d1, _, _, _⟩ := cont_facts c h4
    simp [Glyph.ofArr3, Glyph.Valid, Glyph.toStringBytes, h1, h2, h3, h4, c1, d1]

/-- outside the documented use the pointer constructor is NOT a one-character reader: handed a pointer into
    longer text it takes the byte after a two-byte character along (`Ď` = C4 8E followed by `S`).  Recorded as a
    precondition of that constructor (one NUL-terminated character), not as a finding: no string operation of
    the library calls it on longer text. -/
theorem C17_glyph_from_cstr_needs_terminator :
    Glyph.Valid (Glyph.ofCharPtr [0xC4, 0x8E, 0x53, 0x00]) = false
    ∧ (Glyph.ofCharPtr [0xC4, 0x8E, 0x53, 0x00]).toStringBytes = [0xC4, 0x8E, 0x53] := by decide

-- the quantifier domain includes embedded NUL, the UTF-8 glyph U+0000 and bytes above 0x7F
example : Glyph.Valid { b0 := 0, b1 := 0, b2 := 0, cs := .utf8 } = true ∧ Glyph.Valid { b0 := 0, cs := .dec } = true ∧
    Glyph.Valid { b0 := 0xE2, b1 := 0x82, b2 := 0xAC, cs := .utf8 } = true := by decide
example : TString.toString (TString.ofBytes [0x41, 0x00, 0xFF]) = [0x41, 0x00, 0xFF] := by decide

end Tpp.Props.C17
