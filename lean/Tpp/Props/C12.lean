import Tpp.Model.Interleave
import Tpp.Model.Terminal
import Tpp.Generated.Statics
/-!
C12 – separate terminals, screens and strings do not interfere, even across threads.

Model level: for ANY family of objects whose steps touch only their own state, any interleaving of their
operation scripts produces for each object exactly the outputs (and the final state) of its solo run.
The library model has that shape by construction (`step : TermState → Op → TermState × List Byte`, and
likewise parser, screen, canvas, string: no global state).  That the CODE has that shape is
(i) a regenerated fact: the inventory of all static-storage objects in writable sections of the built
library, each matched to a `const`/`constexpr` source declaration (`no_mutable_statics`, re-checked on every
run), and (ii) the interleaved / concurrent executions under ASan and TSan.  Data-race freedom is a property
of compiled code under the C++ memory model: partial (TSan explores schedules, it does not prove).
-/
namespace Tpp.Props.C12
open Tpp

variable {σ ι ο : Type}

/-- every object's output and final state under any schedule equal those of its solo run -/
theorem C12_interleave (m : Machine σ ι ο) (sched : List (Nat × ι)) :
    ∀ (init : Nat → σ) (k : Nat),
      (m.runSched init sched).2 k = (m.runSolo (init k) ((sched.filter (fun e => e.1 = k)).map (·.2))).2 ∧
      (m.runSched init sched).1 k = (m.runSolo (init k) ((sched.filter (fun e => e.1 = k)).map (·.2))).1 := by
  induction sched with
  | nil => intro init k; exact ⟨rfl, rfl⟩
  | cons e rest ih =>
    intro init k
    obtain ⟨j, i⟩ := e
    simp only [Machine.runSched, List.filter_cons]
    by_cases h : j = k
    · subst h
      simp only [decide_true, if_true, List.map_cons, Machine.runSolo]
      have := ih (fun x => if x = j then (m.step (init j) i).1 else init x) j
      simp only [if_true] at this
      exact ⟨by rw [this.1], this.2⟩
    · have hk : ¬ k = j := fun hc => h hc.symm
      simp only [h, decide_false, Bool.false_eq_true, if_false, hk]
      have := ih (fun x => if x = j then (m.step (init j) i).1 else init x) k
      simp only [hk, if_false] at this
      exact this

/-- the terminal encoder as a machine: what one object writes depends on its own history only -/
def terminalMachine (beh : Behaviour) : Machine TermState Op (List Byte) := ⟨step beh⟩

theorem C12_terminals (beh : Behaviour) (sched : List (Nat × Op)) (init : Nat → TermState) (k : Nat) :
    ((terminalMachine beh).runSched init sched).2 k =
      ((terminalMachine beh).runSolo (init k) ((sched.filter (fun e => e.1 = k)).map (·.2))).2 :=
  (C12_interleave (terminalMachine beh) sched init k).1

/-- regenerated from the object files on every run: every static-storage object in a writable section is
    declared `const`/`constexpr` in the source (dynamic initialisation puts a `const std::basic_string` into
    `.bss`; it is written once, under a guard, before first use) -/
theorem no_mutable_statics : Statics.statics.all (·.isConst) = true := by decide

-- non-vacuity: a schedule that interleaves two objects
example : ((terminalMachine {}).runSched (fun _ => {}) [(0, .hideCursor), (1, .showCursor), (0, .hideCursor)]).2 0
    = [hideCursorBytes, []] := by decide

end Tpp.Props.C12
