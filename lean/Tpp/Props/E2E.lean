import Tpp.Props.C10
import Tpp.Props.C01
/-!
Cross-slice corollaries (not among the 20 listed properties; they show the slices compose):
markup text → decoded string → terminal bytes → what the reference terminal displays.
-/
namespace Tpp.Props.E2E
open Tpp Tpp.Markup Tpp.Ref

theorem cellOf_norm (e : Element) : cellOf (norm e) = cellOf e := by
  simp only [cellOf, norm, normGlyph]
  by_cases h : e.glyph.cs = .utf8 <;> simp [h, Glyph.text]

theorem wf_norm (e : Element) : (norm e).wf = e.wf := by
  simp only [Element.wf, norm, normGlyph, Glyph.graphic]
  by_cases h : e.glyph.cs = .utf8 <;> simp [h]

/-- **markup to display**: writing the decoded form of ANY spelling of a markup text (directives in any
    order, any designator alias, either hex case …) makes the reference terminal show exactly the elements the
    documented language says the text denotes – from any state in which belief and terminal agree. -/
theorem markup_to_display (beh : Behaviour) (s : TermState) (vt : VT) (hA : Agree s vt) (sps : List Spelling)
    (hw : ∀ e ∈ denoteAll sps, e.wf = true) :
    ∃ entries, (vt.feedAll (step beh s (.writeString (encode (sps.flatMap Spelling.print)))).2).log = vt.log ++ entries ∧
      entries.map (·.2.2) = (denoteAll sps).map cellOf := by
  have hdec := Tpp.Props.C10.C10_decode_spelling sps
  have hwf : ∀ e ∈ encode (sps.flatMap Spelling.print), e.wf = true := by
    intro e he
    have : norm e ∈ (encode (sps.flatMap Spelling.print)).map norm := List.mem_map_of_mem he
    rw [hdec] at this
    rw [← wf_norm]; exact hw _ this
  obtain ⟨entries, h1, h2⟩ := step_log beh s vt hA (.op (.writeString (encode (sps.flatMap Spelling.print)))) hwf
  refine ⟨entries, h1, ?_⟩
  simp only [Ev.elements, Op.elements] at h2
  rw [h2, ← hdec, List.map_map]
  apply List.map_congr_left
  intro e _; simp [Function.comp, cellOf_norm]

/-- plain text (no backslash) written through `_ets` is displayed byte for byte with default attributes -/
theorem plain_text_to_display (beh : Behaviour) (s : TermState) (vt : VT) (hA : Agree s vt) (bs : List Byte)
    (hb : (0x5C : Byte) ∉ bs) (hg : ∀ b ∈ bs, isGraphic1 b = true) :
    ∃ entries, (vt.feedAll (step beh s (.writeString (encode bs))).2).log = vt.log ++ entries ∧
      entries.map (·.2.2) = bs.map (fun b => ({ bytes := [b], cs := .usAscii, rend := {} } : Cell)) := by
  rw [Tpp.Props.C10.C10_plain bs hb]
  have hwf : ∀ e ∈ bs.map plainElement, e.wf = true := by
    intro e he
    obtain ⟨b, hbm, rfl⟩ := List.mem_map.mp he
    simp [Element.wf, plainElement, Glyph.graphic, hg b hbm]; decide
  obtain ⟨entries, h1, h2⟩ := step_log beh s vt hA (.op (.writeString (bs.map plainElement))) hwf
  refine ⟨entries, h1, ?_⟩
  simp only [Ev.elements, Op.elements] at h2
  rw [h2, List.map_map]
  apply List.map_congr_left
  intro b _
  simp [Function.comp, cellOf, plainElement, Glyph.text, rendOf_default]

end Tpp.Props.E2E
