import Tpp.Lemmas.Canvas
/-!
C16 – canvas cells are addressed consistently and survive resizing.

`Tpp.Model.Canvas` transcribes `src/canvas.cpp` and `algorithm/for_each_in_region.hpp` loop by loop
(the grid is the `begin()..end()` range; `get`/`set` go through `row * width + column`; `resize`
is the fold of `new_grid[row * new_width + column] = elem` over the region iteration).  The theorems
below relate that transcription to the *statement* of the property: a `w × h` grid of independent
cells addressed by coordinates, a row-major enumeration of a rectangle, and "keep the common part,
default elsewhere" for resizes.  Coordinates and sizes are `Int` (`coordinate_type`), all sizes `≥ 0`
including zero width or height; `w * h < 2³¹` is the standing no-overflow assumption.
-/
namespace Tpp.Props.C16
open Tpp Tpp.Lemmas.Canvas

instance (c : Canvas) : Decidable c.WF := by unfold Canvas.WF; infer_instance

/-! ## cells -/

/-- A new `w × h` canvas has exactly `w*h` cells, all default; the size invariant is established by
    construction and preserved by cell assignment and by `resize`. -/
theorem C16_cells (w h : Int) (hw : 0 ≤ w) (hh : 0 ≤ h) :
    ((Canvas.new ⟨w, h⟩).grid.length : Int) = w * h ∧
    (Canvas.new ⟨w, h⟩).size = ⟨w, h⟩ ∧
    (∀ x y : Int, (Canvas.new ⟨w, h⟩).get x y = {}) ∧
    (∀ e ∈ (Canvas.new ⟨w, h⟩).grid, e = {}) ∧
    (Canvas.new ⟨w, h⟩).WF ∧
    (∀ (c : Canvas) (x y : Int) (e : Element), c.WF → (c.set x y e).WF ∧ (c.set x y e).size = c.size) ∧
    (∀ (c : Canvas) (s : Extent), 0 ≤ s.width → 0 ≤ s.height → (c.resize s).WF) := by
  have hwf : (Canvas.new ⟨w, h⟩).WF := ⟨hw, hh, by simp [Canvas.new]⟩
  refine ⟨wf_length hwf, rfl, ?_, ?_, hwf, ?_, ?_⟩
  · intro x y
    exact getD_replicate_self _ _ _
  · intro e he
    exact List.eq_of_mem_replicate he
  · intro c x y e hc
    refine ⟨⟨hc.1, hc.2.1, ?_⟩, rfl⟩
    show (c.grid.set _ e).length = _
    rw [List.length_set]
    exact hc.2.2
  · intro c s h1 h2
    exact resize_wf c h1 h2

/-- a 3×2 canvas with two distinct non-default cells, used for the non-vacuity examples -/
def eA : Element := { glyph := { b0 := 0x41 }, attr := { intensity := .bold } }
def eB : Element := { glyph := { b0 := 0x42 }, attr := { fg := .high 100 } }
def demo : Canvas := ((Canvas.new ⟨3, 2⟩).set 2 1 eA).set 0 1 eB

example : demo.WF ∧ demo.grid.length = 6 ∧ demo.grid = [{}, {}, {}, eB, {}, eA] := by decide
-- zero width / zero height are inside the quantifier domain
example : (Canvas.new ⟨0, 5⟩).WF ∧ (Canvas.new ⟨5, 0⟩).WF ∧ (Canvas.new ⟨0, 5⟩).grid = [] := by decide

/-! ## addressing -/

/-- cell `(x, y)` is the `(y*w + x)`-th element of the `begin()..end()` range -/
theorem C16_index (c : Canvas) (hc : c.WF) (x y : Int)
    (hx0 : 0 ≤ x) (hx : x < c.size.width) (hy0 : 0 ≤ y) (hy : y < c.size.height) :
    ∃ hk : y.toNat * c.size.width.toNat + x.toNat < c.grid.length,
      c.get x y = c.grid[y.toNat * c.size.width.toNat + x.toNat] := by
  have hlt := index_lt hc hx0 hx hy0 hy
  have hnat := index_nat (c := c) hc.1 hx0 hy0
  refine ⟨hnat ▸ hlt, ?_⟩
  unfold Canvas.get
  rw [List.getD_eq_getElem?_getD, List.getElem?_eq_getElem hlt, Option.getD_some]
  simp only [hnat]

/-- … and every element of the range is a cell: position `k` is cell `(k mod w, k div w)`,
    whose coordinates are in range.  Together with `C16_index_independent` (injectivity) the
    in-range coordinates and the `w*h` grid positions are in bijection. -/
theorem C16_index_onto (c : Canvas) (hc : c.WF) (k : Nat) (hk : k < c.grid.length) :
    let W := c.size.width.toNat
    ((k % W : Nat) : Int) < c.size.width ∧ ((k / W : Nat) : Int) < c.size.height ∧
      c.get ((k % W : Nat) : Int) ((k / W : Nat) : Int) = c.grid[k] := by
  intro W
  obtain ⟨hw, hh, hl⟩ := hc
  have hk' : k < W * c.size.height.toNat := hl ▸ hk
  have hWpos : 0 < W := by
    rcases Nat.eq_zero_or_pos W with h0 | h0
    · rw [h0, Nat.zero_mul] at hk'; omega
    · exact h0
  have h1 : k % W < W := Nat.mod_lt _ hWpos
  have h2 : k / W < c.size.height.toNat := Nat.div_lt_of_lt_mul hk'
  have hidx : c.index ((k % W : Nat) : Int) ((k / W : Nat) : Int) = k := by
    rw [index_nat hw (Int.natCast_nonneg _) (Int.natCast_nonneg _), Int.toNat_natCast, Int.toNat_natCast]
    show k / W * W + k % W = k
    rw [Nat.mul_comm]
    exact Nat.div_add_mod k W
  have hW : (W : Int) = c.size.width := Int.toNat_of_nonneg hw
  refine ⟨by omega, by omega, ?_⟩
  unfold Canvas.get
  rw [hidx, List.getD_eq_getElem?_getD, List.getElem?_eq_getElem hk, Option.getD_some]

/-- the cells are independently assignable: writing `(x, y)` changes that cell and no other -/
theorem C16_index_independent (c : Canvas) (hc : c.WF) (x y x' y' : Int) (e : Element)
    (hx0 : 0 ≤ x) (hx : x < c.size.width) (hy0 : 0 ≤ y) (hy : y < c.size.height)
    (hx0' : 0 ≤ x') (hx' : x' < c.size.width) (hy0' : 0 ≤ y') (_hy' : y' < c.size.height) :
    (c.set x y e).get x' y' = if x' = x ∧ y' = y then e else c.get x' y' := by
  unfold Canvas.get Canvas.set
  show (c.grid.set (c.index x y) e).getD (c.index x' y') {} = _
  by_cases h : x' = x ∧ y' = y
  · obtain ⟨rfl, rfl⟩ := h
    rw [if_pos ⟨rfl, rfl⟩, getD_set_eq _ _ _ _ (index_lt hc hx0 hx hy0 hy)]
  · rw [if_neg h, getD_set_ne]
    intro heq
    have := index_inj hx0 hx hy0 hx0' hx' hy0' heq
    exact h ⟨this.1.symm, this.2.symm⟩

example : demo.WF ∧ (0 : Int) ≤ 2 ∧ (2 : Int) < demo.size.width ∧ (1 : Int) < demo.size.height ∧
    demo.get 2 1 = eA ∧ demo.get 0 1 = eB ∧ demo.get 1 1 = {} ∧ demo.grid[1 * 3 + 2]? = some eA ∧
    eA ≠ eB ∧ eA ≠ {} := by decide

/-! ## region iteration -/

/-- `for_each_in_region` visits exactly the cells of the region, each once, in row-major order
    (rows ascending, columns ascending within a row), for any rectangle; a rectangle with a
    non-positive width or height is visited not at all. -/
theorem C16_region (r : Rectangle) :
    (∀ p : Int × Int, p ∈ regionCoords r ↔
      (r.origin.x ≤ p.1 ∧ p.1 < r.origin.x + r.size.width) ∧
      (r.origin.y ≤ p.2 ∧ p.2 < r.origin.y + r.size.height)) ∧
    (regionCoords r).Nodup ∧
    List.Pairwise (fun p q : Int × Int => p.2 < q.2 ∨ (p.2 = q.2 ∧ p.1 < q.1)) (regionCoords r) :=
  ⟨fun _ => mem_regionCoords, nodup_regionCoords r, pairwise_regionCoords r⟩

/-- equivalently: the visit sequence *is* the explicit row-major enumeration – the `k`-th call
    (`k < w*h`) receives column `ox + k mod w` and row `oy + k div w` -/
theorem C16_region_enum (r : Rectangle) (hw : 0 ≤ r.size.width) (hh : 0 ≤ r.size.height) :
    regionCoords r = (List.range (r.size.width.toNat * r.size.height.toNat)).map fun k =>
      (r.origin.x + ((k % r.size.width.toNat : Nat) : Int), r.origin.y + ((k / r.size.width.toNat : Nat) : Int)) := by
  obtain ⟨⟨ox, oy⟩, ⟨w, h⟩⟩ := r
  obtain ⟨W, rfl⟩ := Int.eq_ofNat_of_zero_le hw
  obtain ⟨H, rfl⟩ := Int.eq_ofNat_of_zero_le hh
  exact regionCoords_eq_range ox oy W H

/-- what the callable receives: `(container[column][row], column, row)` – the coordinates are the
    region enumeration and the element is the one stored at those coordinates; for a region inside
    the canvas that is element `row*w + column` of `begin()..end()`. -/
theorem C16_region_elements (c : Canvas) (r : Rectangle) :
    (c.visits r).map (fun v => (v.2.1, v.2.2)) = regionCoords r ∧
    (∀ v ∈ c.visits r, v.1 = c.get v.2.1 v.2.2) ∧
    (c.WF → 0 ≤ r.origin.x → 0 ≤ r.origin.y → r.origin.x + r.size.width ≤ c.size.width →
      r.origin.y + r.size.height ≤ c.size.height →
      ∀ v ∈ c.visits r, ∃ hk : v.2.2.toNat * c.size.width.toNat + v.2.1.toNat < c.grid.length,
        v.1 = c.grid[v.2.2.toNat * c.size.width.toNat + v.2.1.toNat]) := by
  refine ⟨?_, ?_, ?_⟩
  · unfold Canvas.visits
    rw [List.map_map]
    exact (List.map_congr_left (fun _ _ => rfl)).trans (List.map_id _)
  · intro v hv
    unfold Canvas.visits at hv
    obtain ⟨p, _, rfl⟩ := List.mem_map.mp hv
    rfl
  · intro hc h1 h2 h3 h4 v hv
    unfold Canvas.visits at hv
    obtain ⟨p, hp, rfl⟩ := List.mem_map.mp hv
    have hm := mem_regionCoords.mp hp
    exact C16_index c hc p.1 p.2 (by omega) (by omega) (by omega) (by omega)

example : regionCoords ⟨⟨1, 0⟩, ⟨2, 2⟩⟩ = [(1, 0), (2, 0), (1, 1), (2, 1)] ∧
    demo.visits ⟨⟨1, 0⟩, ⟨2, 2⟩⟩ = [({}, 1, 0), ({}, 2, 0), ({}, 1, 1), (eA, 2, 1)] ∧
    regionCoords ⟨⟨1, 0⟩, ⟨0, 2⟩⟩ = [] := by decide

/-! ## resize -/

/-- **writing through region iteration**: `for_each_in_region` hands its callable a reference to each cell of the
    region; assigning through it (a region fill) changes exactly the cells of the region – each becomes the new
    element, every other cell keeps its own – and neither the size nor the cell count. -/
theorem C16_region_fill (c : Canvas) (hc : c.WF) (r : Rectangle) (e : Element)
    (hox : 0 ≤ r.origin.x) (hoy : 0 ≤ r.origin.y) (hrw : r.origin.x + r.size.width ≤ c.size.width)
    (hrh : r.origin.y + r.size.height ≤ c.size.height) :
    (c.fill r e).size = c.size ∧ (c.fill r e).WF ∧
    ∀ x y : Int, 0 ≤ x → x < c.size.width → 0 ≤ y → y < c.size.height →
      (c.fill r e).get x y = if (x, y) ∈ regionCoords r then e else c.get x y := by
  unfold Canvas.fill
  -- generalise over the list of coordinates still to be written; all of them lie inside the canvas
  have hin : ∀ p ∈ regionCoords r, 0 ≤ p.1 ∧ p.1 < c.size.width ∧ 0 ≤ p.2 ∧ p.2 < c.size.height := by
    intro p hp
    have := mem_regionCoords.mp hp
    omega
  generalize regionCoords r = ps at hin
  induction ps generalizing c with
  | nil => exact ⟨rfl, hc, fun x y _ _ _ _ => by simp⟩
  | cons p ps ih =>
    obtain ⟨p1, p2, p3, p4⟩ := hin p (by simp)
    have hc1 : (c.set p.1 p.2 e).WF ∧ (c.set p.1 p.2 e).size = c.size := (C16_cells 0 0 (by omega) (by omega)).2.2.2.2.2.1 c p.1 p.2 e hc
    have := ih (c.set p.1 p.2 e) hc1.1 (by rw [hc1.2]; exact hrw) (by rw [hc1.2]; exact hrh)
      (fun q hq => by rw [hc1.2]; exact hin q (by simp [hq]))
    obtain ⟨i1, i2, i3⟩ := this
    simp only [List.foldl_cons]
    refine ⟨i1.trans hc1.2, i2, ?_⟩
    intro x y hx0 hx hy0 hy
    rw [i3 x y hx0 (by rw [hc1.2]; exact hx) hy0 (by rw [hc1.2]; exact hy)]
    rw [C16_index_independent c hc p.1 p.2 x y e p1 p2 p3 p4 hx0 hx hy0 hy]
    by_cases hm : (x, y) ∈ ps
    · simp [hm]
    · by_cases hp : x = p.1 ∧ y = p.2
      · have : (x, y) = p := by obtain ⟨a, b⟩ := hp; subst a; subst b; rfl
        simp [hm, hp, this]
      · have : ¬ (x, y) = p := by
          intro h; apply hp; cases h; exact ⟨rfl, rfl⟩
        simp [hm, hp, this]

/-- after `resize(s)`: the reported size is `s`, the grid has `s.w*s.h` cells, every cell inside
    both the old and the new extent keeps its element, every other cell is a default element -/
theorem C16_resize (c : Canvas) (_hc : c.WF) (s : Extent) (hw : 0 ≤ s.width) (hh : 0 ≤ s.height) :
    (c.resize s).size = s ∧ (c.resize s).WF ∧
    ∀ x y : Int, 0 ≤ x → x < s.width → 0 ≤ y → y < s.height →
      (c.resize s).get x y = if x < c.size.width ∧ y < c.size.height then c.get x y else {} :=
  ⟨rfl, resize_wf c hw hh, fun _ _ hx0 hx hy0 hy => resize_get c hx0 hx hy0 hy⟩

example : demo.WF ∧ (demo.resize ⟨2, 3⟩).grid = [{}, {}, eB, {}, {}, {}] ∧
    (demo.resize ⟨4, 2⟩).grid = [{}, {}, {}, {}, eB, {}, eA, {}] ∧ (demo.resize ⟨0, 7⟩).grid = [] := by decide

/-- all resizes of a history, in order -/
def resizeAll (c : Canvas) (sizes : List Extent) : Canvas := sizes.foldl Canvas.resize c

/-- after any sequence of resizes the size is the last one requested, and a cell of the final
    canvas holds its original element exactly when its coordinates lie inside the original size and
    inside every size of the sequence; otherwise it is a default element (content cut off by an
    intermediate shrink does not come back). -/
theorem C16_resize_chain (c : Canvas) (hc : c.WF) (sizes : List Extent)
    (hs : ∀ s ∈ sizes, 0 ≤ s.width ∧ 0 ≤ s.height) :
    (resizeAll c sizes).size = sizes.getLast?.getD c.size ∧ (resizeAll c sizes).WF ∧
    ∀ x y : Int, 0 ≤ x → x < (resizeAll c sizes).size.width → 0 ≤ y → y < (resizeAll c sizes).size.height →
      (resizeAll c sizes).get x y =
        if (x < c.size.width ∧ y < c.size.height) ∧ ∀ s ∈ sizes, x < s.width ∧ y < s.height
        then c.get x y else {} := by
  induction sizes generalizing c with
  | nil =>
    refine ⟨rfl, hc, ?_⟩
    intro x y _ hx _ hy
    have hx : x < c.size.width := hx
    have hy : y < c.size.height := hy
    simp [resizeAll, hx, hy]
  | cons s rest ih =>
    have hs0 := hs s List.mem_cons_self
    have ih' := ih (c.resize s) (resize_wf c hs0.1 hs0.2) (fun t ht => hs t (List.mem_cons_of_mem _ ht))
    have hfold : resizeAll c (s :: rest) = resizeAll (c.resize s) rest := rfl
    rw [hfold]
    obtain ⟨h1, h2, h3⟩ := ih'
    refine ⟨?_, h2, ?_⟩
    · rw [h1, List.getLast?_cons, Option.getD_some]
      rfl
    · intro x y hx0 hx hy0 hy
      rw [h3 x y hx0 hx hy0 hy]
      show (if (x < s.width ∧ y < s.height) ∧ _ then _ else _) = _
      by_cases hin : x < s.width ∧ y < s.height
      · rw [resize_get c hx0 hin.1 hy0 hin.2]
        by_cases hold : x < c.size.width ∧ y < c.size.height
        · simp [hin, hold]
        · simp [hold]
      · simp [hin]

example : demo.WF ∧ (∀ s ∈ [(⟨4, 1⟩ : Extent), ⟨0, 3⟩, ⟨3, 2⟩], 0 ≤ s.width ∧ 0 ≤ s.height) ∧
    (resizeAll demo [⟨4, 3⟩, ⟨1, 2⟩, ⟨3, 2⟩]).grid = [{}, {}, {}, eB, {}, {}] ∧
    (resizeAll demo [⟨4, 3⟩, ⟨3, 2⟩]) = demo ∧
    (resizeAll demo [⟨4, 1⟩, ⟨0, 3⟩, ⟨3, 2⟩]) = Canvas.new ⟨3, 2⟩ := by decide

end Tpp.Props.C16
