import Tpp.Lemmas.OrderInst
import Tpp.Lemmas.GlyphValid
/-!
C15 – equality, ordering and hashing of the value types agree with each other.

For every value type `T` of the library the three operators `T.eq` (`==`), `T.lt` (`<`), `T.cmp` (`<=>`) of
`Tpp.Model.Order` – transcribed from the headers, defaulted comparisons member by member in declaration order,
`glyph`'s three hand-written operators literally over its 3-byte storage – satisfy

* `EqEquivalence T.eq`           – `==` is reflexive, symmetric, transitive;
* `LtStrictTotal T.eq T.lt`      – `<` is irreflexive, transitive, and exactly one of `a < b`, `a == b`, `b < a` holds;
* `NotLtNotGtIffEq T.eq T.lt`    – "neither is less" coincides with `==`;
* `CmpConsistent T.eq T.lt T.cmp`– `<=>` yields `less`/`equal`/`greater` exactly when `a < b` / `a == b` / `b < a`;
* `HashRespectsEq T.eq T.hashTree` (hashable types) – equal values feed identical sequences to `boost::hash_combine`,
  hence have equal hashes.  (The executor ties `hashTree` to the real `hash_value`.)

All statements are unconditional: they hold for EVERY storage content, including UTF-8 glyphs that are not
well-formed and non-UTF-8 glyphs with arbitrary unused bytes.  Validity is needed only for
`C15_glyph_storage` ("glyphs that print the same bytes in the same character set are equal").
-/
namespace Tpp.Props.C15
open Tpp

/-! ### vocabulary -/

/-- `==` is an equivalence relation -/
def EqEquivalence {α : Type} (eq : α → α → Bool) : Prop :=
  (∀ a, eq a a = true) ∧ (∀ a b, eq a b = true → eq b a = true) ∧
  (∀ a b c, eq a b = true → eq b c = true → eq a c = true)

/-- `<` is a strict total order relative to `==`: irreflexive, transitive, and exactly one of
    `a < b`, `a == b`, `b < a` holds -/
def LtStrictTotal {α : Type} (eq lt : α → α → Bool) : Prop :=
  (∀ a, lt a a = false) ∧ (∀ a b c, lt a b = true → lt b c = true → lt a c = true) ∧
  (∀ a b, (lt a b = true ∧ eq a b = false ∧ lt b a = false) ∨
          (lt a b = false ∧ eq a b = true ∧ lt b a = false) ∨
          (lt a b = false ∧ eq a b = false ∧ lt b a = true))

/-- "neither less" coincides with equality -/
def NotLtNotGtIffEq {α : Type} (eq lt : α → α → Bool) : Prop :=
  ∀ a b, (lt a b = false ∧ lt b a = false) ↔ eq a b = true

/-- `<=>` agrees with `<` and `==` -/
def CmpConsistent {α : Type} (eq lt : α → α → Bool) (cmp : α → α → Ordering) : Prop :=
  ∀ a b, (cmp a b = .lt ↔ lt a b = true) ∧ (cmp a b = .eq ↔ eq a b = true) ∧ (cmp a b = .gt ↔ lt b a = true)

/-- equal values hash the same sequence of values -/
def HashRespectsEq {α : Type} (eq : α → α → Bool) (hashTree : α → HashTree) : Prop :=
  ∀ a b, eq a b = true → hashTree a = hashTree b

/-! ### `character_set` -/

theorem C15_charset_eq_equivalence : EqEquivalence Charset.eq :=
  ⟨Charset.ops_lawful.laws.eq_refl, Charset.ops_lawful.laws.eq_symm, Charset.ops_lawful.laws.eq_trans⟩
theorem C15_charset_lt_strict_total : LtStrictTotal Charset.eq Charset.lt :=
  ⟨Charset.ops_lawful.laws.lt_irrefl, Charset.ops_lawful.laws.lt_trans, Charset.ops_lawful.laws.trichotomy⟩
theorem C15_charset_not_lt_not_gt_iff_eq : NotLtNotGtIffEq Charset.eq Charset.lt :=
  Charset.ops_lawful.laws.not_lt_not_gt_iff_eq
theorem C15_charset_cmp_consistent : CmpConsistent Charset.eq Charset.lt Charset.cmp :=
  Charset.ops_lawful.laws.cmp_consistent
theorem C15_charset_hash : HashRespectsEq Charset.eq Charset.hashTree :=
  Charset.hash_of_eq
-- non-vacuity: the relations are not trivial – a strictly ordered pair, and an `==` pair
example : Charset.lt Charset.dec Charset.utf8 = true ∧ Charset.cmp Charset.utf8 Charset.dec = .gt ∧ Charset.eq Charset.dec Charset.utf8 = false ∧
    Charset.eq Charset.uk Charset.uk = true := by decide

/-! ### `glyph` -/

theorem C15_glyph_eq_equivalence : EqEquivalence Glyph.eq :=
  ⟨Glyph.ops_lawful.laws.eq_refl, Glyph.ops_lawful.laws.eq_symm, Glyph.ops_lawful.laws.eq_trans⟩
theorem C15_glyph_lt_strict_total : LtStrictTotal Glyph.eq Glyph.lt :=
  ⟨Glyph.ops_lawful.laws.lt_irrefl, Glyph.ops_lawful.laws.lt_trans, Glyph.ops_lawful.laws.trichotomy⟩
theorem C15_glyph_not_lt_not_gt_iff_eq : NotLtNotGtIffEq Glyph.eq Glyph.lt :=
  Glyph.ops_lawful.laws.not_lt_not_gt_iff_eq
theorem C15_glyph_cmp_consistent : CmpConsistent Glyph.eq Glyph.lt Glyph.cmp :=
  Glyph.ops_lawful.laws.cmp_consistent
theorem C15_glyph_hash : HashRespectsEq Glyph.eq Glyph.hashTree :=
  Glyph.hash_of_eq
-- non-vacuity: the relations are not trivial – a strictly ordered pair, and an `==` pair
example : Glyph.lt (⟨0x41, 0, 0, .usAscii⟩ : Glyph) ⟨0x41, 0, 0, .utf8⟩ = true ∧ Glyph.cmp ⟨0x41, 0, 0, .utf8⟩ (⟨0x41, 0, 0, .usAscii⟩ : Glyph) = .gt ∧ Glyph.eq (⟨0x41, 0, 0, .usAscii⟩ : Glyph) ⟨0x41, 0, 0, .utf8⟩ = false ∧
    Glyph.eq ⟨0x41, 0x55, 0xFF, .usAscii⟩ ⟨0x41, 0, 0, .usAscii⟩ = true := by decide

/-! ### `low_colour` -/

theorem C15_low_colour_eq_equivalence : EqEquivalence LowColour.eq :=
  ⟨LowColour.ops_lawful.laws.eq_refl, LowColour.ops_lawful.laws.eq_symm, LowColour.ops_lawful.laws.eq_trans⟩
theorem C15_low_colour_lt_strict_total : LtStrictTotal LowColour.eq LowColour.lt :=
  ⟨LowColour.ops_lawful.laws.lt_irrefl, LowColour.ops_lawful.laws.lt_trans, LowColour.ops_lawful.laws.trichotomy⟩
theorem C15_low_colour_not_lt_not_gt_iff_eq : NotLtNotGtIffEq LowColour.eq LowColour.lt :=
  LowColour.ops_lawful.laws.not_lt_not_gt_iff_eq
theorem C15_low_colour_cmp_consistent : CmpConsistent LowColour.eq LowColour.lt LowColour.cmp :=
  LowColour.ops_lawful.laws.cmp_consistent
theorem C15_low_colour_hash : HashRespectsEq LowColour.eq LowColour.hashTree :=
  LowColour.hash_of_eq
-- non-vacuity: the relations are not trivial – a strictly ordered pair, and an `==` pair
example : LowColour.lt (⟨1⟩ : LowColour) ⟨9⟩ = true ∧ LowColour.cmp ⟨9⟩ (⟨1⟩ : LowColour) = .gt ∧ LowColour.eq (⟨1⟩ : LowColour) ⟨9⟩ = false ∧
    LowColour.eq ⟨7⟩ ⟨7⟩ = true := by decide

/-! ### `high_colour` -/

theorem C15_high_colour_eq_equivalence : EqEquivalence HighColour.eq :=
  ⟨HighColour.ops_lawful.laws.eq_refl, HighColour.ops_lawful.laws.eq_symm, HighColour.ops_lawful.laws.eq_trans⟩
theorem C15_high_colour_lt_strict_total : LtStrictTotal HighColour.eq HighColour.lt :=
  ⟨HighColour.ops_lawful.laws.lt_irrefl, HighColour.ops_lawful.laws.lt_trans, HighColour.ops_lawful.laws.trichotomy⟩
theorem C15_high_colour_not_lt_not_gt_iff_eq : NotLtNotGtIffEq HighColour.eq HighColour.lt :=
  HighColour.ops_lawful.laws.not_lt_not_gt_iff_eq
theorem C15_high_colour_cmp_consistent : CmpConsistent HighColour.eq HighColour.lt HighColour.cmp :=
  HighColour.ops_lawful.laws.cmp_consistent
theorem C15_high_colour_hash : HashRespectsEq HighColour.eq HighColour.hashTree :=
  HighColour.hash_of_eq
-- non-vacuity: the relations are not trivial – a strictly ordered pair, and an `==` pair
example : HighColour.lt (⟨16⟩ : HighColour) ⟨231⟩ = true ∧ HighColour.cmp ⟨231⟩ (⟨16⟩ : HighColour) = .gt ∧ HighColour.eq (⟨16⟩ : HighColour) ⟨231⟩ = false ∧
    HighColour.eq ⟨100⟩ ⟨100⟩ = true := by decide

/-! ### `greyscale_colour` -/

theorem C15_greyscale_colour_eq_equivalence : EqEquivalence GreyscaleColour.eq :=
  ⟨GreyscaleColour.ops_lawful.laws.eq_refl, GreyscaleColour.ops_lawful.laws.eq_symm, GreyscaleColour.ops_lawful.laws.eq_trans⟩
theorem C15_greyscale_colour_lt_strict_total : LtStrictTotal GreyscaleColour.eq GreyscaleColour.lt :=
  ⟨GreyscaleColour.ops_lawful.laws.lt_irrefl, GreyscaleColour.ops_lawful.laws.lt_trans, GreyscaleColour.ops_lawful.laws.trichotomy⟩
theorem C15_greyscale_colour_not_lt_not_gt_iff_eq : NotLtNotGtIffEq GreyscaleColour.eq GreyscaleColour.lt :=
  GreyscaleColour.ops_lawful.laws.not_lt_not_gt_iff_eq
theorem C15_greyscale_colour_cmp_consistent : CmpConsistent GreyscaleColour.eq GreyscaleColour.lt GreyscaleColour.cmp :=
  GreyscaleColour.ops_lawful.laws.cmp_consistent
theorem C15_greyscale_colour_hash : HashRespectsEq GreyscaleColour.eq GreyscaleColour.hashTree :=
  GreyscaleColour.hash_of_eq
-- non-vacuity: the relations are not trivial – a strictly ordered pair, and an `==` pair
example : GreyscaleColour.lt (⟨232⟩ : GreyscaleColour) ⟨255⟩ = true ∧ GreyscaleColour.cmp ⟨255⟩ (⟨232⟩ : GreyscaleColour) = .gt ∧ GreyscaleColour.eq (⟨232⟩ : GreyscaleColour) ⟨255⟩ = false ∧
    GreyscaleColour.eq ⟨240⟩ ⟨240⟩ = true := by decide

/-! ### `true_colour` -/

theorem C15_true_colour_eq_equivalence : EqEquivalence TrueColour.eq :=
  ⟨TrueColour.ops_lawful.laws.eq_refl, TrueColour.ops_lawful.laws.eq_symm, TrueColour.ops_lawful.laws.eq_trans⟩
theorem C15_true_colour_lt_strict_total : LtStrictTotal TrueColour.eq TrueColour.lt :=
  ⟨TrueColour.ops_lawful.laws.lt_irrefl, TrueColour.ops_lawful.laws.lt_trans, TrueColour.ops_lawful.laws.trichotomy⟩
theorem C15_true_colour_not_lt_not_gt_iff_eq : NotLtNotGtIffEq TrueColour.eq TrueColour.lt :=
  TrueColour.ops_lawful.laws.not_lt_not_gt_iff_eq
theorem C15_true_colour_cmp_consistent : CmpConsistent TrueColour.eq TrueColour.lt TrueColour.cmp :=
  TrueColour.ops_lawful.laws.cmp_consistent
theorem C15_true_colour_hash : HashRespectsEq TrueColour.eq TrueColour.hashTree :=
  TrueColour.hash_of_eq
-- non-vacuity: the relations are not trivial – a strictly ordered pair, and an `==` pair
example : TrueColour.lt (⟨1, 255, 255⟩ : TrueColour) ⟨2, 0, 0⟩ = true ∧ TrueColour.cmp ⟨2, 0, 0⟩ (⟨1, 255, 255⟩ : TrueColour) = .gt ∧ TrueColour.eq (⟨1, 255, 255⟩ : TrueColour) ⟨2, 0, 0⟩ = false ∧
    TrueColour.eq ⟨1, 2, 3⟩ ⟨1, 2, 3⟩ = true := by decide

/-! ### `colour (the variant)` -/

theorem C15_colour_eq_equivalence : EqEquivalence Colour.eq :=
  ⟨Colour.ops_lawful.laws.eq_refl, Colour.ops_lawful.laws.eq_symm, Colour.ops_lawful.laws.eq_trans⟩
theorem C15_colour_lt_strict_total : LtStrictTotal Colour.eq Colour.lt :=
  ⟨Colour.ops_lawful.laws.lt_irrefl, Colour.ops_lawful.laws.lt_trans, Colour.ops_lawful.laws.trichotomy⟩
theorem C15_colour_not_lt_not_gt_iff_eq : NotLtNotGtIffEq Colour.eq Colour.lt :=
  Colour.ops_lawful.laws.not_lt_not_gt_iff_eq
theorem C15_colour_cmp_consistent : CmpConsistent Colour.eq Colour.lt Colour.cmp :=
  Colour.ops_lawful.laws.cmp_consistent
theorem C15_colour_hash : HashRespectsEq Colour.eq Colour.hashTree :=
  Colour.hash_of_eq
-- non-vacuity: the relations are not trivial – a strictly ordered pair, and an `==` pair
example : Colour.lt (Colour.low 9) (Colour.high 1) = true ∧ Colour.cmp (Colour.high 1) (Colour.low 9) = .gt ∧ Colour.eq (Colour.low 9) (Colour.high 1) = false ∧
    Colour.eq (Colour.rgb 1 2 3) (Colour.rgb 1 2 3) = true := by decide

/-! ### `effect<intensity>` -/

theorem C15_intensity_eq_equivalence : EqEquivalence Intensity.eq :=
  ⟨Intensity.ops_lawful.laws.eq_refl, Intensity.ops_lawful.laws.eq_symm, Intensity.ops_lawful.laws.eq_trans⟩
theorem C15_intensity_lt_strict_total : LtStrictTotal Intensity.eq Intensity.lt :=
  ⟨Intensity.ops_lawful.laws.lt_irrefl, Intensity.ops_lawful.laws.lt_trans, Intensity.ops_lawful.laws.trichotomy⟩
theorem C15_intensity_not_lt_not_gt_iff_eq : NotLtNotGtIffEq Intensity.eq Intensity.lt :=
  Intensity.ops_lawful.laws.not_lt_not_gt_iff_eq
theorem C15_intensity_cmp_consistent : CmpConsistent Intensity.eq Intensity.lt Intensity.cmp :=
  Intensity.ops_lawful.laws.cmp_consistent
theorem C15_intensity_hash : HashRespectsEq Intensity.eq Intensity.hashTree :=
  Intensity.hash_of_eq
-- non-vacuity: the relations are not trivial – a strictly ordered pair, and an `==` pair
example : Intensity.lt Intensity.bold Intensity.normal = true ∧ Intensity.cmp Intensity.normal Intensity.bold = .gt ∧ Intensity.eq Intensity.bold Intensity.normal = false ∧
    Intensity.eq Intensity.faint Intensity.faint = true := by decide

/-! ### `effect<underlining>` -/

theorem C15_underlining_eq_equivalence : EqEquivalence Underlining.eq :=
  ⟨Underlining.ops_lawful.laws.eq_refl, Underlining.ops_lawful.laws.eq_symm, Underlining.ops_lawful.laws.eq_trans⟩
theorem C15_underlining_lt_strict_total : LtStrictTotal Underlining.eq Underlining.lt :=
  ⟨Underlining.ops_lawful.laws.lt_irrefl, Underlining.ops_lawful.laws.lt_trans, Underlining.ops_lawful.laws.trichotomy⟩
theorem C15_underlining_not_lt_not_gt_iff_eq : NotLtNotGtIffEq Underlining.eq Underlining.lt :=
  Underlining.ops_lawful.laws.not_lt_not_gt_iff_eq
theorem C15_underlining_cmp_consistent : CmpConsistent Underlining.eq Underlining.lt Underlining.cmp :=
  Underlining.ops_lawful.laws.cmp_consistent
theorem C15_underlining_hash : HashRespectsEq Underlining.eq Underlining.hashTree :=
  Underlining.hash_of_eq
-- non-vacuity: the relations are not trivial – a strictly ordered pair, and an `==` pair
example : Underlining.lt Underlining.underlined Underlining.notUnderlined = true ∧ Underlining.cmp Underlining.notUnderlined Underlining.underlined = .gt ∧ Underlining.eq Underlining.underlined Underlining.notUnderlined = false ∧
    Underlining.eq Underlining.underlined Underlining.underlined = true := by decide

/-! ### `effect<polarity>` -/

theorem C15_polarity_eq_equivalence : EqEquivalence Polarity.eq :=
  ⟨Polarity.ops_lawful.laws.eq_refl, Polarity.ops_lawful.laws.eq_symm, Polarity.ops_lawful.laws.eq_trans⟩
theorem C15_polarity_lt_strict_total : LtStrictTotal Polarity.eq Polarity.lt :=
  ⟨Polarity.ops_lawful.laws.lt_irrefl, Polarity.ops_lawful.laws.lt_trans, Polarity.ops_lawful.laws.trichotomy⟩
theorem C15_polarity_not_lt_not_gt_iff_eq : NotLtNotGtIffEq Polarity.eq Polarity.lt :=
  Polarity.ops_lawful.laws.not_lt_not_gt_iff_eq
theorem C15_polarity_cmp_consistent : CmpConsistent Polarity.eq Polarity.lt Polarity.cmp :=
  Polarity.ops_lawful.laws.cmp_consistent
theorem C15_polarity_hash : HashRespectsEq Polarity.eq Polarity.hashTree :=
  Polarity.hash_of_eq
-- non-vacuity: the relations are not trivial – a strictly ordered pair, and an `==` pair
example : Polarity.lt Polarity.negative Polarity.positive = true ∧ Polarity.cmp Polarity.positive Polarity.negative = .gt ∧ Polarity.eq Polarity.negative Polarity.positive = false ∧
    Polarity.eq Polarity.negative Polarity.negative = true := by decide

/-! ### `effect<blinking>` -/

theorem C15_blinking_eq_equivalence : EqEquivalence Blinking.eq :=
  ⟨Blinking.ops_lawful.laws.eq_refl, Blinking.ops_lawful.laws.eq_symm, Blinking.ops_lawful.laws.eq_trans⟩
theorem C15_blinking_lt_strict_total : LtStrictTotal Blinking.eq Blinking.lt :=
  ⟨Blinking.ops_lawful.laws.lt_irrefl, Blinking.ops_lawful.laws.lt_trans, Blinking.ops_lawful.laws.trichotomy⟩
theorem C15_blinking_not_lt_not_gt_iff_eq : NotLtNotGtIffEq Blinking.eq Blinking.lt :=
  Blinking.ops_lawful.laws.not_lt_not_gt_iff_eq
theorem C15_blinking_cmp_consistent : CmpConsistent Blinking.eq Blinking.lt Blinking.cmp :=
  Blinking.ops_lawful.laws.cmp_consistent
theorem C15_blinking_hash : HashRespectsEq Blinking.eq Blinking.hashTree :=
  Blinking.hash_of_eq
-- non-vacuity: the relations are not trivial – a strictly ordered pair, and an `==` pair
example : Blinking.lt Blinking.blink Blinking.steady = true ∧ Blinking.cmp Blinking.steady Blinking.blink = .gt ∧ Blinking.eq Blinking.blink Blinking.steady = false ∧
    Blinking.eq Blinking.blink Blinking.blink = true := by decide

/-! ### `attribute` -/

theorem C15_attribute_eq_equivalence : EqEquivalence Attr.eq :=
  ⟨Attr.ops_lawful.laws.eq_refl, Attr.ops_lawful.laws.eq_symm, Attr.ops_lawful.laws.eq_trans⟩
theorem C15_attribute_lt_strict_total : LtStrictTotal Attr.eq Attr.lt :=
  ⟨Attr.ops_lawful.laws.lt_irrefl, Attr.ops_lawful.laws.lt_trans, Attr.ops_lawful.laws.trichotomy⟩
theorem C15_attribute_not_lt_not_gt_iff_eq : NotLtNotGtIffEq Attr.eq Attr.lt :=
  Attr.ops_lawful.laws.not_lt_not_gt_iff_eq
theorem C15_attribute_cmp_consistent : CmpConsistent Attr.eq Attr.lt Attr.cmp :=
  Attr.ops_lawful.laws.cmp_consistent
theorem C15_attribute_hash : HashRespectsEq Attr.eq Attr.hashTree :=
  Attr.hash_of_eq
-- non-vacuity: the relations are not trivial – a strictly ordered pair, and an `==` pair
example : Attr.lt ({ fg := .low 1, blinking := .steady } : Attr) { fg := .low 1, blinking := .blink, bg := .high 20 } = true ∧ Attr.cmp { fg := .low 1, blinking := .blink, bg := .high 20 } ({ fg := .low 1, blinking := .steady } : Attr) = .gt ∧ Attr.eq ({ fg := .low 1, blinking := .steady } : Attr) { fg := .low 1, blinking := .blink, bg := .high 20 } = false ∧
    Attr.eq { polarity := .negative } { polarity := .negative } = true := by decide

/-! ### `element` -/

theorem C15_element_eq_equivalence : EqEquivalence Element.eq :=
  ⟨Element.ops_lawful.laws.eq_refl, Element.ops_lawful.laws.eq_symm, Element.ops_lawful.laws.eq_trans⟩
theorem C15_element_lt_strict_total : LtStrictTotal Element.eq Element.lt :=
  ⟨Element.ops_lawful.laws.lt_irrefl, Element.ops_lawful.laws.lt_trans, Element.ops_lawful.laws.trichotomy⟩
theorem C15_element_not_lt_not_gt_iff_eq : NotLtNotGtIffEq Element.eq Element.lt :=
  Element.ops_lawful.laws.not_lt_not_gt_iff_eq
theorem C15_element_cmp_consistent : CmpConsistent Element.eq Element.lt Element.cmp :=
  Element.ops_lawful.laws.cmp_consistent
theorem C15_element_hash : HashRespectsEq Element.eq Element.hashTree :=
  Element.hash_of_eq
-- non-vacuity: the relations are not trivial – a strictly ordered pair, and an `==` pair
example : Element.lt ({ glyph := ⟨0x41, 0, 0, .usAscii⟩, attr := { fg := .low 2 } } : Element) { glyph := ⟨0x41, 0, 0, .utf8⟩ } = true ∧ Element.cmp { glyph := ⟨0x41, 0, 0, .utf8⟩ } ({ glyph := ⟨0x41, 0, 0, .usAscii⟩, attr := { fg := .low 2 } } : Element) = .gt ∧ Element.eq ({ glyph := ⟨0x41, 0, 0, .usAscii⟩, attr := { fg := .low 2 } } : Element) { glyph := ⟨0x41, 0, 0, .utf8⟩ } = false ∧
    Element.eq { glyph := ⟨0x41, 0x55, 0xFF, .usAscii⟩ } { glyph := ⟨0x41, 0, 0, .usAscii⟩ } = true := by decide

/-! ### `string` -/

theorem C15_string_eq_equivalence : EqEquivalence TString.eq :=
  ⟨TString.ops_lawful.laws.eq_refl, TString.ops_lawful.laws.eq_symm, TString.ops_lawful.laws.eq_trans⟩
theorem C15_string_lt_strict_total : LtStrictTotal TString.eq TString.lt :=
  ⟨TString.ops_lawful.laws.lt_irrefl, TString.ops_lawful.laws.lt_trans, TString.ops_lawful.laws.trichotomy⟩
theorem C15_string_not_lt_not_gt_iff_eq : NotLtNotGtIffEq TString.eq TString.lt :=
  TString.ops_lawful.laws.not_lt_not_gt_iff_eq
theorem C15_string_cmp_consistent : CmpConsistent TString.eq TString.lt TString.cmp :=
  TString.ops_lawful.laws.cmp_consistent
theorem C15_string_hash : HashRespectsEq TString.eq TString.hashTree :=
  TString.hash_of_eq
-- non-vacuity: the relations are not trivial – a strictly ordered pair, and an `==` pair
example : TString.lt ([{ glyph := ⟨0x41, 0, 0, .usAscii⟩ }] : TString) [{ glyph := ⟨0x41, 0, 0, .usAscii⟩ }, {}] = true ∧ TString.cmp [{ glyph := ⟨0x41, 0, 0, .usAscii⟩ }, {}] ([{ glyph := ⟨0x41, 0, 0, .usAscii⟩ }] : TString) = .gt ∧ TString.eq ([{ glyph := ⟨0x41, 0, 0, .usAscii⟩ }] : TString) [{ glyph := ⟨0x41, 0, 0, .usAscii⟩ }, {}] = false ∧
    TString.eq [{ glyph := ⟨0x41, 7, 9, .usAscii⟩ }] [{ glyph := ⟨0x41, 0, 0, .usAscii⟩ }] = true := by decide

/-! ### `point` -/

theorem C15_point_eq_equivalence : EqEquivalence Point.eq :=
  ⟨Point.ops_lawful.laws.eq_refl, Point.ops_lawful.laws.eq_symm, Point.ops_lawful.laws.eq_trans⟩
theorem C15_point_lt_strict_total : LtStrictTotal Point.eq Point.lt :=
  ⟨Point.ops_lawful.laws.lt_irrefl, Point.ops_lawful.laws.lt_trans, Point.ops_lawful.laws.trichotomy⟩
theorem C15_point_not_lt_not_gt_iff_eq : NotLtNotGtIffEq Point.eq Point.lt :=
  Point.ops_lawful.laws.not_lt_not_gt_iff_eq
theorem C15_point_cmp_consistent : CmpConsistent Point.eq Point.lt Point.cmp :=
  Point.ops_lawful.laws.cmp_consistent
-- non-vacuity: the relations are not trivial – a strictly ordered pair, and an `==` pair
example : Point.lt (⟨9, 1⟩ : Point) ⟨0, 2⟩ = true ∧ Point.cmp ⟨0, 2⟩ (⟨9, 1⟩ : Point) = .gt ∧ Point.eq (⟨9, 1⟩ : Point) ⟨0, 2⟩ = false ∧
    Point.eq ⟨3, 4⟩ ⟨3, 4⟩ = true := by decide

/-! ### `extent` -/

theorem C15_extent_eq_equivalence : EqEquivalence Extent.eq :=
  ⟨Extent.ops_lawful.laws.eq_refl, Extent.ops_lawful.laws.eq_symm, Extent.ops_lawful.laws.eq_trans⟩
theorem C15_extent_lt_strict_total : LtStrictTotal Extent.eq Extent.lt :=
  ⟨Extent.ops_lawful.laws.lt_irrefl, Extent.ops_lawful.laws.lt_trans, Extent.ops_lawful.laws.trichotomy⟩
theorem C15_extent_not_lt_not_gt_iff_eq : NotLtNotGtIffEq Extent.eq Extent.lt :=
  Extent.ops_lawful.laws.not_lt_not_gt_iff_eq
theorem C15_extent_cmp_consistent : CmpConsistent Extent.eq Extent.lt Extent.cmp :=
  Extent.ops_lawful.laws.cmp_consistent
-- non-vacuity: the relations are not trivial – a strictly ordered pair, and an `==` pair
example : Extent.lt (⟨1, 9⟩ : Extent) ⟨2, 0⟩ = true ∧ Extent.cmp ⟨2, 0⟩ (⟨1, 9⟩ : Extent) = .gt ∧ Extent.eq (⟨1, 9⟩ : Extent) ⟨2, 0⟩ = false ∧
    Extent.eq ⟨3, 4⟩ ⟨3, 4⟩ = true := by decide

/-! ### `rectangle` -/

theorem C15_rectangle_eq_equivalence : EqEquivalence Rectangle.eq :=
  ⟨Rectangle.ops_lawful.laws.eq_refl, Rectangle.ops_lawful.laws.eq_symm, Rectangle.ops_lawful.laws.eq_trans⟩
theorem C15_rectangle_lt_strict_total : LtStrictTotal Rectangle.eq Rectangle.lt :=
  ⟨Rectangle.ops_lawful.laws.lt_irrefl, Rectangle.ops_lawful.laws.lt_trans, Rectangle.ops_lawful.laws.trichotomy⟩
theorem C15_rectangle_not_lt_not_gt_iff_eq : NotLtNotGtIffEq Rectangle.eq Rectangle.lt :=
  Rectangle.ops_lawful.laws.not_lt_not_gt_iff_eq
theorem C15_rectangle_cmp_consistent : CmpConsistent Rectangle.eq Rectangle.lt Rectangle.cmp :=
  Rectangle.ops_lawful.laws.cmp_consistent
-- non-vacuity: the relations are not trivial – a strictly ordered pair, and an `==` pair
example : Rectangle.lt (⟨⟨9, 1⟩, ⟨5, 5⟩⟩ : Rectangle) ⟨⟨0, 2⟩, ⟨0, 0⟩⟩ = true ∧ Rectangle.cmp ⟨⟨0, 2⟩, ⟨0, 0⟩⟩ (⟨⟨9, 1⟩, ⟨5, 5⟩⟩ : Rectangle) = .gt ∧ Rectangle.eq (⟨⟨9, 1⟩, ⟨5, 5⟩⟩ : Rectangle) ⟨⟨0, 2⟩, ⟨0, 0⟩⟩ = false ∧
    Rectangle.eq ⟨⟨1, 2⟩, ⟨3, 4⟩⟩ ⟨⟨1, 2⟩, ⟨3, 4⟩⟩ = true := by decide

/-! ### `control_sequence` -/

theorem C15_control_sequence_eq_equivalence : EqEquivalence ControlSequence.eq :=
  ⟨ControlSequence.ops_lawful.laws.eq_refl, ControlSequence.ops_lawful.laws.eq_symm, ControlSequence.ops_lawful.laws.eq_trans⟩
theorem C15_control_sequence_lt_strict_total : LtStrictTotal ControlSequence.eq ControlSequence.lt :=
  ⟨ControlSequence.ops_lawful.laws.lt_irrefl, ControlSequence.ops_lawful.laws.lt_trans, ControlSequence.ops_lawful.laws.trichotomy⟩
theorem C15_control_sequence_not_lt_not_gt_iff_eq : NotLtNotGtIffEq ControlSequence.eq ControlSequence.lt :=
  ControlSequence.ops_lawful.laws.not_lt_not_gt_iff_eq
theorem C15_control_sequence_cmp_consistent : CmpConsistent ControlSequence.eq ControlSequence.lt ControlSequence.cmp :=
  ControlSequence.ops_lawful.laws.cmp_consistent
-- non-vacuity: the relations are not trivial – a strictly ordered pair, and an `==` pair
example : ControlSequence.lt ({ initiator := 0x5B, command := 0x41, arguments := [[0x31]] } : ControlSequence) { initiator := 0x5B, command := 0x41, arguments := [[0x31], []] } = true ∧ ControlSequence.cmp { initiator := 0x5B, command := 0x41, arguments := [[0x31], []] } ({ initiator := 0x5B, command := 0x41, arguments := [[0x31]] } : ControlSequence) = .gt ∧ ControlSequence.eq ({ initiator := 0x5B, command := 0x41, arguments := [[0x31]] } : ControlSequence) { initiator := 0x5B, command := 0x41, arguments := [[0x31], []] } = false ∧
    ControlSequence.eq { initiator := 0x5B, command := 0x7E, «meta» := true, arguments := [[0x31, 0x35]], extender := 0x3F } { initiator := 0x5B, command := 0x7E, «meta» := true, arguments := [[0x31, 0x35]], extender := 0x3F } = true := by decide

/-! ### `virtual_key::input_sequence (variant<byte, control_sequence>)` -/

theorem C15_key_sequence_eq_equivalence : EqEquivalence KeySequence.eq :=
  ⟨KeySequence.ops_lawful.laws.eq_refl, KeySequence.ops_lawful.laws.eq_symm, KeySequence.ops_lawful.laws.eq_trans⟩
theorem C15_key_sequence_lt_strict_total : LtStrictTotal KeySequence.eq KeySequence.lt :=
  ⟨KeySequence.ops_lawful.laws.lt_irrefl, KeySequence.ops_lawful.laws.lt_trans, KeySequence.ops_lawful.laws.trichotomy⟩
theorem C15_key_sequence_not_lt_not_gt_iff_eq : NotLtNotGtIffEq KeySequence.eq KeySequence.lt :=
  KeySequence.ops_lawful.laws.not_lt_not_gt_iff_eq
theorem C15_key_sequence_cmp_consistent : CmpConsistent KeySequence.eq KeySequence.lt KeySequence.cmp :=
  KeySequence.ops_lawful.laws.cmp_consistent
-- non-vacuity: the relations are not trivial – a strictly ordered pair, and an `==` pair
example : KeySequence.lt (KeySequence.raw 0xFF) (KeySequence.control {}) = true ∧ KeySequence.cmp (KeySequence.control {}) (KeySequence.raw 0xFF) = .gt ∧ KeySequence.eq (KeySequence.raw 0xFF) (KeySequence.control {}) = false ∧
    KeySequence.eq (KeySequence.control { command := 0x41 }) (KeySequence.control { command := 0x41 }) = true := by decide

/-! ### `virtual_key` -/

theorem C15_virtual_key_eq_equivalence : EqEquivalence VirtualKey.eq :=
  ⟨VirtualKey.ops_lawful.laws.eq_refl, VirtualKey.ops_lawful.laws.eq_symm, VirtualKey.ops_lawful.laws.eq_trans⟩
theorem C15_virtual_key_lt_strict_total : LtStrictTotal VirtualKey.eq VirtualKey.lt :=
  ⟨VirtualKey.ops_lawful.laws.lt_irrefl, VirtualKey.ops_lawful.laws.lt_trans, VirtualKey.ops_lawful.laws.trichotomy⟩
theorem C15_virtual_key_not_lt_not_gt_iff_eq : NotLtNotGtIffEq VirtualKey.eq VirtualKey.lt :=
  VirtualKey.ops_lawful.laws.not_lt_not_gt_iff_eq
theorem C15_virtual_key_cmp_consistent : CmpConsistent VirtualKey.eq VirtualKey.lt VirtualKey.cmp :=
  VirtualKey.ops_lawful.laws.cmp_consistent
-- non-vacuity: the relations are not trivial – a strictly ordered pair, and an `==` pair
example : VirtualKey.lt ({ key := 0x41, sequence := .raw 0x41 } : VirtualKey) { key := 0x41, sequence := .control {} } = true ∧ VirtualKey.cmp { key := 0x41, sequence := .control {} } ({ key := 0x41, sequence := .raw 0x41 } : VirtualKey) = .gt ∧ VirtualKey.eq ({ key := 0x41, sequence := .raw 0x41 } : VirtualKey) { key := 0x41, sequence := .control {} } = false ∧
    VirtualKey.eq { key := 0x80, modifiers := 1, repeatCount := -1, sequence := .control { initiator := 0x5B, command := 0x41 } } { key := 0x80, modifiers := 1, repeatCount := -1, sequence := .control { initiator := 0x5B, command := 0x41 } } = true := by decide

/-! ### `mouse::event` -/

theorem C15_mouse_event_eq_equivalence : EqEquivalence MouseEvent.eq :=
  ⟨MouseEvent.ops_lawful.laws.eq_refl, MouseEvent.ops_lawful.laws.eq_symm, MouseEvent.ops_lawful.laws.eq_trans⟩
theorem C15_mouse_event_lt_strict_total : LtStrictTotal MouseEvent.eq MouseEvent.lt :=
  ⟨MouseEvent.ops_lawful.laws.lt_irrefl, MouseEvent.ops_lawful.laws.lt_trans, MouseEvent.ops_lawful.laws.trichotomy⟩
theorem C15_mouse_event_not_lt_not_gt_iff_eq : NotLtNotGtIffEq MouseEvent.eq MouseEvent.lt :=
  MouseEvent.ops_lawful.laws.not_lt_not_gt_iff_eq
theorem C15_mouse_event_cmp_consistent : CmpConsistent MouseEvent.eq MouseEvent.lt MouseEvent.cmp :=
  MouseEvent.ops_lawful.laws.cmp_consistent
-- non-vacuity: the relations are not trivial – a strictly ordered pair, and an `==` pair
example : MouseEvent.lt ({ action := 0, position := ⟨9, 9⟩ } : MouseEvent) { action := 3, position := ⟨0, 0⟩ } = true ∧ MouseEvent.cmp { action := 3, position := ⟨0, 0⟩ } ({ action := 0, position := ⟨9, 9⟩ } : MouseEvent) = .gt ∧ MouseEvent.eq ({ action := 0, position := ⟨9, 9⟩ } : MouseEvent) { action := 3, position := ⟨0, 0⟩ } = false ∧
    MouseEvent.eq { action := 1, position := ⟨2, 3⟩ } { action := 1, position := ⟨2, 3⟩ } = true := by decide

/-! ### glyphs that print the same bytes in the same character set are equal -/

/-- for a valid glyph the model's wire payload (`write_single_element`) is what the glyph denotes -/
theorem C15_valid_payload (g : Glyph) (hv : g.Valid) : g.payload = g.printed := by
  by_cases hu : g.cs = .utf8
  · rcases hv hu with ⟨h0, h1, h2⟩ | ⟨h0, h0', ⟨h1, _⟩, h2⟩ | ⟨h0, h0', ⟨h1, _⟩, ⟨h2, _⟩⟩
    · have := byte_lt_0x80 g.b0 h0
      simp only [Glyph.payload, Glyph.printed, Glyph.utf8Index, hu, if_true, h0]
      rcases this with h | h <;> simp [h]
    · have a0 := byte_ge_0x80 g.b0 (by
        have : (0x80 : Byte) ≤ 0xC2 := by decide
        exact UInt8.le_trans this h0)
      have a1 := byte_ge_0x80 g.b1 h1
      have n0 : ¬ g.b0 < 0x80 := by
        have : ∀ b : Byte, 0xC2 ≤ b → ¬ b < 0x80 := by decide +kernel
        exact this _ h0
      simp [Glyph.payload, Glyph.printed, Glyph.utf8Index, hu, a0.1, a0.2, a1.1, a1.2, h2, n0, h0']
    · have a0 := byte_ge_0x80 g.b0 (by
        have : (0x80 : Byte) ≤ 0xE0 := by decide
        exact UInt8.le_trans this h0)
      have a1 := byte_ge_0x80 g.b1 h1
      have a2 := byte_ge_0x80 g.b2 h2
      have n0 : ¬ g.b0 < 0x80 ∧ ¬ g.b0 ≤ 0xDF := by
        have : ∀ b : Byte, 0xE0 ≤ b → ¬ b < 0x80 ∧ ¬ b ≤ 0xDF := by decide +kernel
        exact this _ h0
      simp [Glyph.payload, Glyph.printed, Glyph.utf8Index, hu, a0.1, a0.2, a1.1, a1.2, a2.1, a2.2, n0.1, n0.2]
  · simp [Glyph.payload, Glyph.printed, hu]

/-- Two valid glyphs that put the same bytes on the wire in the same character set compare equal, however
    their storage was filled (the unused bytes of a non-UTF-8 glyph are arbitrary). -/
theorem C15_glyph_storage (g1 g2 : Glyph) (h1 : g1.Valid) (h2 : g2.Valid)
    (hp : g1.payload = g2.payload) (hc : g1.cs = g2.cs) : Glyph.eq g1 g2 = true := by
  rw [C15_valid_payload g1 h1, C15_valid_payload g2 h2] at hp
  by_cases hu : g1.cs = .utf8
  · have hu2 : g2.cs = .utf8 := hc ▸ hu
    have s1 := valid_storage g1 h1 hu
    have s2 := valid_storage g2 h2 hu2
    have hs : [g1.b0, g1.b1, g1.b2] = [g2.b0, g2.b1, g2.b2] := by rw [s1, hp, ← s2]
    simp only [List.cons.injEq, and_true] at hs
    have : g1 = g2 := by
      cases g1; cases g2; simp_all
    rw [this]; exact C15_glyph_eq_equivalence.1 g2
  · have hu2 : ¬ g2.cs = .utf8 := hc ▸ hu
    simp only [Glyph.printed, hu, hu2, if_false] at hp
    have hb : g1.b0 = g2.b0 := by simpa using hp
    have e1 : Charset.eq g1.cs g2.cs = true := (Charset.eq_iff _ _).2 hc
    have e2 : ¬ Charset.eq g1.cs .utf8 = true := fun h => hu ((Charset.eq_iff _ _).1 h)
    simp [Glyph.eq, e1, e2, Glyph.character, hb]

-- non-vacuity: valid glyphs with different storage, same payload, same set (and the conclusion is not `rfl`)
example : let g1 : Glyph := ⟨0x41, 0x55, 0xFF, .dec⟩; let g2 : Glyph := ⟨0x41, 0, 0, .dec⟩
    g1.Valid ∧ g2.Valid ∧ g1.payload = g2.payload ∧ g1.cs = g2.cs ∧ g1 ≠ g2 ∧ Glyph.eq g1 g2 = true := by decide
example : let g : Glyph := ⟨0xE2, 0x94, 0x81, .utf8⟩; g.Valid ∧ g.payload = [0xE2, 0x94, 0x81] := by decide
example : let g : Glyph := ⟨0xC2, 0xA3, 0, .utf8⟩; g.Valid ∧ g.payload = [0xC2, 0xA3] := by decide

/-- The statement WITHOUT the validity hypothesis … -/
def C15_glyph_storage_unrestricted : Prop :=
  ∀ g1 g2 : Glyph, g1.payload = g2.payload → g1.cs = g2.cs → Glyph.eq g1 g2 = true

/-- … is false of the code as written: `glyph(u8"AU")` stores `41 55 00` under UTF-8, prints `41` only
    (the writer stops at the first byte without the high bit), and is `!=` `glyph(u8"A")`.
    Such storage is not the encoding of one code point, i.e. outside `Glyph.Valid` (replayed on the real
    operators by the correspondence sweep `glyph-lattice`). -/
theorem C15_glyph_storage_needs_valid : ¬ C15_glyph_storage_unrestricted := by
  intro h
  have := h ⟨0x41, 0x55, 0, .utf8⟩ ⟨0x41, 0, 0, .utf8⟩ (by decide) rfl
  revert this; decide

end Tpp.Props.C15
