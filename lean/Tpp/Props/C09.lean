import Tpp.Lemmas.Step
import Tpp.Lemmas.RendOnly
/-!
C09 – erases leave default-attribute blanks and keep attribute tracking right.

`eraseRegion` is the specification of what each manipulator's *name* says (relative to the cursor);
`Cell.blank` is a blank with default attributes.  The terminal's erase behaviour (`plain`, `bce` =
erase with the current background, `current` = erase with the whole current rendition) is unconstrained.
-/
namespace Tpp.Props.C09
open Tpp

/-- after the library's reset, every erase behaviour produces default-attribute blanks -/
theorem erased_is_blank (vt : VT) : ({ vt with rend := {} } : VT).erasedCell = Cell.blank := by
  cases h : vt.eraseMode <;> simp [VT.erasedCell, h, Cell.blank]

/-- Each erase manipulator, after ANY history (including none at all – the belief may be completely
    unknown): clears exactly its region to default-attribute blanks, touches no other cell (in either
    buffer), does not move the cursor or the pending-wrap flag, and leaves the rendition default. -/
theorem C09_erase (beh : Behaviour) (s : TermState) (vt : VT) (hA : Agree s vt) (k : EraseKind) :
    let vt' := vt.feedAll (step beh s (.erase k)).2
    (∀ x y, eraseRegion k vt.cx vt.cy x y = true → vt'.cell x y = Cell.blank) ∧
    (∀ x y, eraseRegion k vt.cx vt.cy x y = false → vt'.cell x y = vt.cell x y) ∧
    (∀ x y, vt'.cells (!vt.alt) x y = vt.cells (!vt.alt) x y) ∧
    vt'.cx = vt.cx ∧ vt'.cy = vt.cy ∧ vt'.pending = vt.pending ∧ vt'.rend = {} ∧ vt'.alt = vt.alt := by
  intro vt'
  have h : vt' = ({ vt with rend := {} } : VT).eraseWhere (eraseRegion k vt.cx vt.cy) := feed_eraseOp beh s vt hA k
  rw [h]
  refine ⟨?_, ?_, ?_, rfl, rfl, rfl, rfl, rfl⟩
  · intro x y hr
    simp only [VT.cell, VT.eraseWhere]
    simp [hr, erased_is_blank]
  · intro x y hr
    simp [VT.cell, VT.eraseWhere, hr]
  · intro x y
    simp only [VT.eraseWhere]
    cases vt.alt <;> simp

/-- … for every preceding history, including the very first operation on a terminal in an unknown state -/
theorem C09_erase_after (beh : Behaviour) (st : TermState × VT) (hA : Agree st.1 st.2) (evs : List Ev)
    (hwf : RunWF beh st evs) (k : EraseKind) :
    let mid := Sys.run beh st evs
    let vt' := mid.2.feedAll (step beh mid.1 (.erase k)).2
    (∀ x y, eraseRegion k mid.2.cx mid.2.cy x y = true → vt'.cell x y = Cell.blank) ∧
    (∀ x y, eraseRegion k mid.2.cx mid.2.cy x y = false → vt'.cell x y = mid.2.cell x y) ∧
    vt'.cx = mid.2.cx ∧ vt'.cy = mid.2.cy ∧ vt'.pending = mid.2.pending := by
  have hmid := agree_run beh evs st hA hwf
  obtain ⟨a, b, _, c, d, e, _, _⟩ := C09_erase beh _ _ hmid k
  exact ⟨a, b, c, d, e⟩

/-- **no size needed**: the region an erase clears is relative to where the terminal's cursor really is, and
    the reset before it depends only on the rendition – so the statement holds when merely the rendition half
    of the belief is true (no `set_size`, a wrong `set_size`, a false belief about the cursor) -/
theorem C09_erase_any_size (beh : Behaviour) (s : TermState) (vt : VT) (hA : AgreeRend s vt) (k : EraseKind) :
    let vt' := vt.feedAll (step beh s (.erase k)).2
    (∀ x y, eraseRegion k vt.cx vt.cy x y = true → vt'.cell x y = Cell.blank) ∧
    (∀ x y, eraseRegion k vt.cx vt.cy x y = false → vt'.cell x y = vt.cell x y) ∧
    (∀ x y, vt'.cells (!vt.alt) x y = vt.cells (!vt.alt) x y) ∧
    vt'.cx = vt.cx ∧ vt'.cy = vt.cy ∧ vt'.pending = vt.pending ∧ vt'.rend = {} ∧ vt'.alt = vt.alt := by
  have hb : (step beh s (.erase k)).2 = (step beh (s.forgetPos vt) (.erase k)).2 :=
    (step_indep beh s (s.forgetPos vt) (.erase k) rfl rfl rfl).1
  rw [hb]
  exact C09_erase beh _ vt (agree_forgetPos s vt hA) k

/-- … after every history of the rendition-only domain (README use included) -/
theorem C09_erase_after_any_size (beh : Behaviour) (st : TermState × VT) (hA : AgreeRend st.1 st.2) (evs : List REv)
    (hwf : RRunWF beh st evs) (k : EraseKind) :
    let mid := RSys.run beh st evs
    let vt' := mid.2.feedAll (step beh mid.1 (.erase k)).2
    (∀ x y, eraseRegion k mid.2.cx mid.2.cy x y = true → vt'.cell x y = Cell.blank) ∧
    (∀ x y, eraseRegion k mid.2.cx mid.2.cy x y = false → vt'.cell x y = mid.2.cell x y) ∧
    vt'.cx = mid.2.cx ∧ vt'.cy = mid.2.cy ∧ vt'.pending = mid.2.pending := by
  have hmid := (agreeRend_run beh evs st hA hwf).1
  obtain ⟨a, b, _, c, d, e, _, _⟩ := C09_erase_any_size beh _ _ hmid k
  exact ⟨a, b, c, d, e⟩

/-- attribute tracking stays right: the belief after an erase is true of the terminal, so text written after
    it appears with exactly its requested attributes (C01 applies from the resulting state) -/
theorem C09_tracking (beh : Behaviour) (s : TermState) (vt : VT) (hA : Agree s vt) (k : EraseKind) (e : Element)
    (hw : e.wf = true) :
    let s1 := (step beh s (.erase k)).1
    let vt1 := vt.feedAll (step beh s (.erase k)).2
    Agree s1 vt1 ∧ ∃ x y, (vt1.feedAll (step beh s1 (.writeElement e)).2).log = vt1.log ++ [(x, y, cellOf e)] := by
  intro s1 vt1
  have h1 : Agree s1 vt1 := agree_erase beh s vt hA k
  refine ⟨h1, ?_⟩
  obtain ⟨hA1, hk1, hl1, _, _⟩ := agree_defaultAttr s1 vt1 h1
  obtain ⟨_, ⟨x, y, hlog, _⟩, _⟩ := agree_rawElement beh _ _ e hA1 hw hk1
  refine ⟨x, y, ?_⟩
  simp only [step, VT.feedAll_append]; rw [hlog, hl1]

/-- the emitted bytes: a rendition reset (unless already default and known) followed by exactly one ED/EL -/
theorem C09_bytes (beh : Behaviour) (k : EraseKind) :
    (step beh {} (.erase k)).2 = sgr0 ++ csiBytes ++ eraseSuffix k ∧
    (step beh { last := some {} } (.erase k)).2 = csiBytes ++ eraseSuffix k := by
  constructor
  · simp [step, changeToDefault]
  · simp [step, changeToDefault, changeAttribute]

-- non-vacuity: regions are proper subsets in general
example : eraseRegion .above 1 1 1 1 = true ∧ eraseRegion .above 1 1 2 1 = false ∧ eraseRegion .lineRight 1 1 0 1 = false := by decide

end Tpp.Props.C09
