import Tpp.Model.Terminal
import Tpp.Ref.Render
namespace Tpp.Props.C08
end Tpp.Props.C08
