import Tpp.Lemmas.Step
/-!
C08 – what the terminal state reports as known is true of the real terminal.

`Agree s vt` *is* the property: every `some` in the record (`last` → rendition and character set,
`cursor`, `saved`, `visible`) equals the state of the reference terminal that has processed every byte
written so far.  The theorem is the simulation: it holds at every point of every in-domain history, for
every terminal size, all three end-of-line behaviours, all three erase behaviours (the configuration is
carried inside `vt` and unconstrained), and every initial terminal state.
-/
namespace Tpp.Props.C08
open Tpp

/-- the property spelled out field by field (what `Agree` says) -/
def RecordTrue (s : TermState) (vt : VT) : Prop :=
  (∀ e, s.last = some e → vt.rend = rendOf e.attr ∧ CharsetAgree e.glyph.cs vt) ∧
  (∀ p, s.cursor = some p → vt.cx = p.x.toNat ∧ vt.cy = p.y.toNat ∧ 0 ≤ p.x ∧ 0 ≤ p.y ∧ vt.pending = false ∧
      p.x.toNat < vt.w ∧ p.y.toNat < vt.h) ∧
  (∀ p, s.saved = some p → vt.saved = some (p.x.toNat, p.y.toNat)) ∧
  (∀ b, s.visible = some b → vt.cursorVisible = b) ∧
  (s.size.width = vt.w ∧ s.size.height = vt.h)

theorem recordTrue_of_agree (s : TermState) (vt : VT) (h : Agree s vt) : RecordTrue s vt := by
  obtain ⟨⟨_, _, hrend, hcs, hvis⟩, hC⟩ := h
  refine ⟨?_, ?_, ?_, hvis, hC.width, hC.height⟩
  · intro e he; exact ⟨hrend e he, by simpa [he] using hcs⟩
  · intro p hp
    obtain ⟨a, b, c, d, e, f, g⟩ := hC.cursor p hp
    exact ⟨c.symm, d.symm, a, b, e, by rw [c]; exact f, by rw [d]; exact g⟩
  · intro p hp; exact (hC.saved p hp).2.2.1

/-- at every point (every prefix) of every in-domain history the record is true of the terminal -/
theorem C08_agree_run (beh : Behaviour) (st : TermState × VT) (hA : Agree st.1 st.2) (evs : List Ev)
    (hwf : RunWF beh st evs) (k : Nat) :
    RecordTrue (Sys.run beh st (evs.take k)).1 (Sys.run beh st (evs.take k)).2 := by
  have hwf' : ∀ (evs : List Ev) (st : TermState × VT) (k : Nat), RunWF beh st evs → RunWF beh st (evs.take k) := by
    intro evs
    induction evs with
    | nil => intro st k h; simpa using h
    | cons ev evs ih =>
      intro st k h
      cases k with
      | zero => simp [RunWF]
      | succ k => exact ⟨h.1, ih _ k h.2⟩
  exact recordTrue_of_agree _ _ (agree_run beh (evs.take k) st hA (hwf' evs st k hwf))

/-- a fresh `terminal` object and a terminal in ANY unknown state agree once the size is declared -/
theorem C08_fresh (beh : Behaviour) (vt0 : VT) (hu : vt0.Unknown)
    (w h : Nat) (cells : Bool → Grid) (cx cy : Nat) (saved : Option (Nat × Nat)) (pending : Bool) :
    Agree (Sys.step beh ({}, vt0) (.resize w h cells cx cy saved pending)).1
          (Sys.step beh ({}, vt0) (.resize w h cells cx cy saved pending)).2 :=
  agree_resize_fresh beh {} vt0 (agreeRend_init vt0 hu) w h cells cx cy saved pending

/-- whenever an operation makes the real state terminal-dependent the record says *unknown*:
    (a) writing the last column, (b) a size change, (c) restoring a never-saved position -/
theorem C08_unknown_when_dependent (beh : Behaviour) (s : TermState) :
    (∀ e p, s.cursor = some p → p.x + 1 = s.size.width → (step beh s (.writeElement e)).1.cursor = none) ∧
    (∀ vt w h cells cx cy saved pending,
        (Sys.step beh (s, vt) (.resize w h cells cx cy saved pending)).1.cursor = none ∧
        (Sys.step beh (s, vt) (.resize w h cells cx cy saved pending)).1.saved = none) ∧
    (s.saved = none → (step beh s .restoreCursor).1.cursor = none) := by
  refine ⟨?_, ?_, ?_⟩
  · intro e p hc hx
    have h1 : (defaultAttr s).1.cursor = some p ∧ (defaultAttr s).1.size = s.size := by
      unfold defaultAttr; cases s.last <;> simp [hc]
    simp only [step, rawElement, advanceCursor, h1.1, h1.2, hx, if_true]
  · intro vt w h cells cx cy saved pending; exact ⟨rfl, rfl⟩
  · intro h; simp [step, h]

/-- … and the unknown really is terminal-dependent: after the last column the three end-of-line behaviours
    leave the cursor in three different places, so no single guess could be true of all of them -/
theorem C08_last_column_is_terminal_dependent (vt : VT) (bs : List Byte) (hp : vt.pending = false)
    (hx : vt.cx + 1 = vt.w) (hy : vt.cy + 1 < vt.h) :
    (vt.wrap = .deferred → (vt.print bs).cx = vt.cx ∧ (vt.print bs).pending = true) ∧
    (vt.wrap = .immediate → (vt.print bs).cx = 0 ∧ (vt.print bs).cy = vt.cy + 1) ∧
    (vt.wrap = .none → (vt.print bs).cx = vt.cx ∧ (vt.print bs).pending = false) := by
  have hlt : ¬ (vt.cx + 1 < vt.w) := by omega
  refine ⟨?_, ?_, ?_⟩ <;> intro hw <;>
    simp [VT.print, VT.resolvePending, hp, VT.place, VT.advance, hlt, hw, VT.newline, hy]

-- non-vacuity: the invariant is satisfiable by a state with every field known
example : Agree { size := ⟨3, 2⟩, last := some {}, cursor := some ⟨1, 1⟩, saved := some ⟨2, 0⟩, visible := some true }
    { w := 3, h := 2, wrap := .immediate, eraseMode := .current, cx := 1, cy := 1, pending := false, rend := {},
      g0 := .usAscii, utf8 := false, cursorVisible := true, mouse1000 := true, mouse1003 := false, alt := true,
      title := [], saved := some (2, 0), ps := .ground, malformed := false, log := [], cells := fun _ _ _ => Cell.blank } := by
  refine ⟨⟨rfl, rfl, ?_, ?_, ?_⟩, ⟨rfl, rfl, ?_, ?_⟩⟩
  · intro e he; cases he; decide
  · simp [CharsetAgree]
  · intro b hb; cases hb; rfl
  · intro p hp; cases hp; decide
  · intro p hp; cases hp; decide

end Tpp.Props.C08
