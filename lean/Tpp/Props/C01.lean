import Tpp.Model.Terminal
import Tpp.Ref.Render
namespace Tpp.Props.C01
-- theorems follow (under construction)
end Tpp.Props.C01
