import Tpp.Lemmas.Step
import Tpp.Lemmas.RendOnly
/-!
C01 – attributed text is rendered with exactly the requested attributes and charset.

`Sys.run` runs the library model and the reference terminal together (every byte the model emits is fed
to `Ref.VT`; a resize event changes both).  `cellOf e` is the *specification* of what a terminal should
show for `e` (text, character set, and the rendition `rendOf e.attr`: bold/faint, underline, blink,
inverse, foreground, background) – written without reference to the encoder.
-/
namespace Tpp.Props.C01
open Tpp

/-- For every in-domain history (element/string writes interleaved with erases, cursor moves,
    save/restore, modes, titles, resizes), from any state in which belief and terminal agree:
    the terminal's print log grows by exactly the requested elements' cells, in order; the reference
    parser never meets a byte it cannot place; and it ends between control functions. -/
theorem C01_rendering (beh : Behaviour) (st : TermState × VT) (hA : Agree st.1 st.2) (evs : List Ev)
    (hwf : RunWF beh st evs) :
    (∃ entries, (Sys.run beh st evs).2.log = st.2.log ++ entries ∧
        entries.map (·.2.2) = (evs.flatMap Ev.elements).map cellOf) ∧
    (Sys.run beh st evs).2.malformed = false ∧ (Sys.run beh st evs).2.ps = .ground := by
  have h := agree_run beh evs st hA hwf
  exact ⟨run_log beh evs st hA hwf, h.1.ok, h.1.ground⟩

/-- … in particular for a fresh `terminal` object talking to a terminal in an unknown state – ANY initial
    rendition, cursor, contents, modes – once the size has been declared; for both values of
    `unicode_in_all_charsets` (`beh` is arbitrary). -/
theorem C01_rendering_fresh (beh : Behaviour) (vt0 : VT) (hu : vt0.Unknown)
    (w h : Nat) (cells : Bool → Grid) (cx cy : Nat) (saved : Option (Nat × Nat)) (pending : Bool)
    (evs : List Ev) (hwf : RunWF beh (Sys.step beh ({}, vt0) (.resize w h cells cx cy saved pending)) evs) :
    let vt := (Sys.run beh ({}, vt0) (.resize w h cells cx cy saved pending :: evs)).2
    (∃ entries, vt.log = vt0.log ++ entries ∧ entries.map (·.2.2) = (evs.flatMap Ev.elements).map cellOf) ∧
    vt.malformed = false ∧ vt.ps = .ground := by
  have hA := agree_resize_fresh beh {} vt0 (agreeRend_init vt0 hu) w h cells cx cy saved pending
  obtain ⟨⟨entries, h1, h2⟩, h3, h4⟩ := C01_rendering beh _ hA evs hwf
  intro vt
  have hvt : vt = (Sys.run beh (Sys.step beh ({}, vt0) (.resize w h cells cx cy saved pending)) evs).2 := by
    show (Sys.run beh ({}, vt0) (.resize w h cells cx cy saved pending :: evs)).2 = _
    rw [Sys.run_cons]
  rw [hvt]
  have hlog : (Sys.step beh ({}, vt0) (.resize w h cells cx cy saved pending)).2.log = vt0.log := rfl
  exact ⟨⟨entries, h1.trans (congrArg (· ++ entries) hlog), h2⟩, h3, h4⟩

/-- one `terminal << element`: exactly one glyph, shown as `cellOf e`, whatever was written before -/
theorem C01_step_write (beh : Behaviour) (s : TermState) (vt : VT) (hA : Agree s vt) (e : Element) (hw : e.wf = true) :
    ∃ x y, (vt.feedAll (step beh s (.writeElement e)).2).log = vt.log ++ [(x, y, cellOf e)] := by
  obtain ⟨entries, h1, h2⟩ := step_log beh s vt hA (.op (.writeElement e)) hw
  simp only [Ev.elements, Op.elements, List.map_cons, List.map_nil] at h2
  cases entries with
  | nil => simp at h2
  | cons t ts =>
    cases ts with
    | nil =>
      obtain ⟨x, y, c⟩ := t
      simp at h2; subst h2
      exact ⟨x, y, h1⟩
    | cons _ _ => simp at h2

/-- the rendition-only half needs no size at all: writes from an unknown rendition -/
theorem C01_wellformed (beh : Behaviour) (st : TermState × VT) (hA : Agree st.1 st.2) (evs : List Ev)
    (hwf : RunWF beh st evs) (k : Nat) :
    (Sys.run beh st (evs.take k)).2.malformed = false ∧ (Sys.run beh st (evs.take k)).2.ps = .ground := by
  have hwf' : ∀ (evs : List Ev) (st : TermState × VT) (k : Nat), RunWF beh st evs → RunWF beh st (evs.take k) := by
    intro evs
    induction evs with
    | nil => intro st k h; simpa using h
    | cons ev evs ih =>
      intro st k h
      cases k with
      | zero => simp [RunWF]
      | succ k => exact ⟨h.1, ih _ k h.2⟩
  have h := agree_run beh (evs.take k) st hA (hwf' evs st k hwf)
  exact ⟨h.1.ok, h.1.ground⟩

-- non-vacuity: a concrete unknown terminal (bold red-on-blue, cursor parked somewhere) and a concrete history
def demoVT : VT :=
  { w := 3, h := 2, wrap := .deferred, eraseMode := .bce, cx := 2, cy := 1, pending := true,
    rend := { bold := true, fg := .idx 1, bg := .idx 4 }, g0 := .usAscii, utf8 := false, cursorVisible := true,
    mouse1000 := false, mouse1003 := false, alt := false, title := [], saved := none, ps := .ground,
    malformed := false, log := [], cells := fun _ _ _ => Cell.blank }
def demoEl : Element := { glyph := { b0 := 0xC3, b1 := 0xA9, b2 := 0, cs := .utf8 }, attr := { blinking := .blink, fg := .high 196 } }
example : demoVT.Unknown := ⟨rfl, rfl, rfl, rfl⟩
example : demoEl.wf = true := by decide
example : RunWF {} (Sys.step {} ({}, demoVT) (.resize 3 2 demoVT.cells 0 0 none false))
    [.op (.writeElement demoEl), .op (.moveCursor ⟨2, 1⟩), .op (.erase .lineLeft), .op (.writeString [demoEl, {}])] := by
  refine ⟨?_, ?_, trivial, ?_, trivial⟩
  · show demoEl.wf = true; decide
  · show (0:Int) ≤ 2 ∧ (2:Int) < _ ∧ (0:Int) ≤ 1 ∧ (1:Int) < _
    decide
  · intro e he; simp at he; rcases he with rfl | rfl <;> decide

/-- **no size needed**: the rendering clause holds whatever the library believes about sizes and positions –
    no `set_size` at all (the README's use), a `set_size` that does not match the terminal, the terminal
    resized without the library being told (`REv.termResize`), cursor moves to ANY non-negative position
    (`Op.WFR` puts no bound on them).  Moves may then land elsewhere than asked (that is C02's business and
    needs the size), but every requested glyph is printed, in order, with exactly the requested look, and the
    byte stream stays well formed. -/
theorem C01_rendering_any_size (beh : Behaviour) (st : TermState × VT) (hA : AgreeRend st.1 st.2) (evs : List REv)
    (hwf : RRunWF beh st evs) :
    (∃ entries, (RSys.run beh st evs).2.log = st.2.log ++ entries ∧
        entries.map (·.2.2) = (evs.flatMap REv.elements).map cellOf) ∧
    (RSys.run beh st evs).2.malformed = false ∧ (RSys.run beh st evs).2.ps = .ground := by
  obtain ⟨h1, h2⟩ := agreeRend_run beh evs st hA hwf
  exact ⟨h2, h1.ok, h1.ground⟩

/-- … in particular for a fresh `terminal` object that never declares a size, talking to a terminal in ANY
    unknown state (rendition, size, contents, cursor, modes) -/
theorem C01_rendering_readme (beh : Behaviour) (vt0 : VT) (hu : vt0.Unknown) (evs : List REv)
    (hwf : RRunWF beh ({}, vt0) evs) :
    (∃ entries, (RSys.run beh ({}, vt0) evs).2.log = vt0.log ++ entries ∧
        entries.map (·.2.2) = (evs.flatMap REv.elements).map cellOf) ∧
    (RSys.run beh ({}, vt0) evs).2.malformed = false ∧ (RSys.run beh ({}, vt0) evs).2.ps = .ground :=
  C01_rendering_any_size beh ({}, vt0) (agreeRend_init vt0 hu) evs hwf

-- non-vacuity: no size declared, a move far outside the 3x2 terminal, a lying set_size, a silent resize
example : RRunWF {} ({}, demoVT)
    [.op (.writeString [demoEl, {}]), .op (.moveCursor ⟨500, 70⟩), .op (.writeElement demoEl), .op (.setSize ⟨10, 10⟩),
     .termResize 7 7 demoVT.cells 6 6 none true, .op (.erase .above), .op (.moveCursor ⟨9, 9⟩), .op (.writeElement {})] := by
  refine ⟨?_, ?_, ?_, trivial, trivial, trivial, ?_, ?_, trivial⟩
  · intro e he; simp at he; rcases he with rfl | rfl <;> decide
  · show (0:Int) ≤ 500 ∧ (0:Int) ≤ 70; decide
  · show demoEl.wf = true; decide
  · show (0:Int) ≤ 9 ∧ (0:Int) ≤ 9; decide
  · show ({} : Element).wf = true; decide

end Tpp.Props.C01
