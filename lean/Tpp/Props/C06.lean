import Tpp.Lemmas.Input
/-!
C06 – the token stream is independent of how input bytes are split across reads, and every delivery
results in exactly one callback.

`deliverAll chunks st` is the model of a client that arms `terminal::async_read` and re-arms it from inside
the callback while the channel makes the deliveries `chunks` (empty ones included): it records the token
list handed to each callback invocation and counts the invocations.
-/
namespace Tpp.Props.C06
open Tpp

theorem deliverAll_flatten (chunks : List (List Byte)) : ∀ st : PState,
    (deliverAll chunks st).tokenLists.flatten = tokens st chunks.flatten
    ∧ (deliverAll chunks st).state = feedAll chunks.flatten st
    ∧ (deliverAll chunks st).callbacks = chunks.length
    ∧ (deliverAll chunks st).tokenLists.length = chunks.length := by
  induction chunks with
  | nil => intro st; simp [deliverAll, tokens, rawTokens, feedAll]
  | cons c cs ih =>
    intro st
    have := ih (feedAll c st)
    simp [deliverAll, deliver, tokens_append, feedAll_append, this]

/-- for arbitrary bytes and an arbitrary decoder state: the concatenation of the token lists handed to the
    callbacks does not depend on the partition, the decoder ends in the same state, and there is exactly one
    callback invocation (with its own, possibly empty, token list) per delivery -/
theorem C06_chunking (st : PState) (chunks : List (List Byte)) :
    (deliverAll chunks st).tokenLists.flatten = (deliverAll [chunks.flatten] st).tokenLists.flatten
    ∧ (deliverAll chunks st).callbacks = chunks.length
    ∧ (deliverAll chunks st).tokenLists.length = chunks.length
    ∧ (deliverAll chunks st).state = (deliverAll [chunks.flatten] st).state := by
  have h := deliverAll_flatten chunks st
  have h1 := deliverAll_flatten [chunks.flatten] st
  simp at h1
  exact ⟨by rw [h.1, h1.1], h.2.2.1, h.2.2.2, by rw [h.2.1, h1.2.1]⟩

/-- two partitions of the same stream are indistinguishable to the client, apart from the grouping -/
theorem C06_any_two_partitions (st : PState) (p q : List (List Byte)) (h : p.flatten = q.flatten) :
    (deliverAll p st).tokenLists.flatten = (deliverAll q st).tokenLists.flatten := by
  rw [(deliverAll_flatten p st).1, (deliverAll_flatten q st).1, h]

/-- a delivery that completes no token still invokes the callback (with an empty span) -/
theorem C06_empty_delivery (st : PState) : (deliverAll [[]] st).callbacks = 1 ∧ (deliverAll [[]] st).tokenLists = [[]] := by
  simp [deliverAll, deliver, tokens, rawTokens]

/-- a non-initial decoder state -/
def st0 : PState := { ctl := .lf, metaFlag := true, arg := [0x39] }
/-- `ESC [ 5 A a` cut into five deliveries, two of them empty -/
def chunks0 : List (List Byte) := [[0x1B], [], [0x5B, 0x35], [], [0x41, 0x61]]

-- non-vacuity: four token-less callbacks, then both tokens in the fifth
example :
    (deliverAll chunks0 st0).tokenLists =
      [[], [], [], [],
       [.key { key := Consts.vk_cursor_up, mods := 0, rep := 5,
               seq := .ctrl { initiator := 0x5B, command := 0x41, metaFlag := false, args := [[0x35]], extender := 0 } },
        .key { key := 0x61, mods := 0, rep := 1, seq := .byte 0x61 }]]
    ∧ (deliverAll chunks0 st0).callbacks = 5 := by decide

end Tpp.Props.C06
