import Tpp.Lemmas.Input
import Tpp.Lemmas.Reads
/-!
C06 – the token stream is independent of how input bytes are split across reads, and every delivery
results in exactly one callback.

`deliverAll chunks st` is the model of a client that arms `terminal::async_read` and re-arms it from inside
the callback while the channel makes the deliveries `chunks` (empty ones included): it records the token
list handed to each callback invocation and counts the invocations.
-/
namespace Tpp.Props.C06
open Tpp

theorem deliverAll_flatten (chunks : List (List Byte)) : ∀ st : PState,
    (deliverAll chunks st).tokenLists.flatten = tokens st chunks.flatten
    ∧ (deliverAll chunks st).state = feedAll chunks.flatten st
    ∧ (deliverAll chunks st).callbacks = chunks.length
    ∧ (deliverAll chunks st).tokenLists.length = chunks.length := by
  induction chunks with
  | nil => intro st; simp [deliverAll, tokens, rawTokens, feedAll]
  | cons c cs ih =>
    intro st
    have := ih (feedAll c st)
    simp [deliverAll, deliver, tokens_append, feedAll_append, this]

/-- for arbitrary bytes and an arbitrary decoder state: the concatenation of the token lists handed to the
    callbacks does not depend on the partition, the decoder ends in the same state, and there is exactly one
    callback invocation (with its own, possibly empty, token list) per delivery -/
theorem C06_chunking (st : PState) (chunks : List (List Byte)) :
    (deliverAll chunks st).tokenLists.flatten = (deliverAll [chunks.flatten] st).tokenLists.flatten
    ∧ (deliverAll chunks st).callbacks = chunks.length
    ∧ (deliverAll chunks st).tokenLists.length = chunks.length
    ∧ (deliverAll chunks st).state = (deliverAll [chunks.flatten] st).state := by
  have h := deliverAll_flatten chunks st
  have h1 := deliverAll_flatten [chunks.flatten] st
  simp at h1
  exact ⟨by rw [h.1, h1.1], h.2.2.1, h.2.2.2, by rw [h.2.1, h1.2.1]⟩

/-- two partitions of the same stream are indistinguishable to the client, apart from the grouping -/
theorem C06_any_two_partitions (st : PState) (p q : List (List Byte)) (h : p.flatten = q.flatten) :
    (deliverAll p st).tokenLists.flatten = (deliverAll q st).tokenLists.flatten := by
  rw [(deliverAll_flatten p st).1, (deliverAll_flatten q st).1, h]

/-- a delivery that completes no token still invokes the callback (with an empty span) -/
theorem C06_empty_delivery (st : PState) : (deliverAll [[]] st).callbacks = 1 ∧ (deliverAll [[]] st).tokenLists = [[]] := by
  simp [deliverAll, deliver, tokens, rawTokens]

/-- a non-initial decoder state -/
def st0 : PState := { ctl := .lf, metaFlag := true, arg := [0x39] }
/-- `ESC [ 5 A a` cut into five deliveries, two of them empty -/
def chunks0 : List (List Byte) := [[0x1B], [], [0x5B, 0x35], [], [0x41, 0x61]]

-- non-vacuity: four token-less callbacks, then both tokens in the fifth
example :
    (deliverAll chunks0 st0).tokenLists =
      [[], [], [], [],
       [.key { key := Consts.vk_cursor_up, mods := 0, rep := 5,
               seq := .ctrl { initiator := 0x5B, command := 0x41, metaFlag := false, args := [[0x35]], extender := 0 } },
        .key { key := 0x61, mods := 0, rep := 1, seq := .byte 0x61 }]]
    ∧ (deliverAll chunks0 st0).callbacks = 5 := by decide


/-! ### Several reads posted

The statements above are about a client with ONE read outstanding.  `Tpp.Model.Reads` makes the posted reads explicit: a
client keeps `k ≥ 1` reads posted and re-arms one from inside every handler invocation; a delivery completes the oldest
posted read. -/

/-- **never stalls, whatever the window**: no delivery finds the client without a posted read; the handlers run in the
    order the reads were posted (the n-th delivery is served by the n-th read), each exactly once, with exactly the tokens
    of its own delivery – the same token lists as for the single-read client – and the window stays full -/
theorem C06_window_never_stalls (k : Nat) (hk : 1 ≤ k) (st0 : PState) (chunks : List (List Byte)) :
    let s := (RState.postN k { parser := st0 }).deliverAll chunks
    s.lost = [] ∧ s.served.map (·.1) = List.range' 0 chunks.length ∧
      s.served.map (·.2) = (deliverAll chunks st0).tokenLists ∧ s.posted.length = k := by
  intro s
  have h := windowed_run k hk st0 chunks [] _ (windowed_init k st0)
  simp only [List.nil_append] at h
  exact ⟨h.lost, h.ids, h.toks, by rw [h.posted]; simp⟩

/-- the hypothesis `1 ≤ k` is needed: a client that posts no read gets no callback at all -/
theorem C06_no_read_posted (st0 : PState) (chunks : List (List Byte)) :
    ((RState.postN 0 { parser := st0 }).deliverAll chunks).served = [] ∧
    ((RState.postN 0 { parser := st0 }).deliverAll chunks).lost = chunks := by
  have : ∀ (cs : List (List Byte)) (s : RState), s.posted = [] →
      (s.deliverAll cs).served = s.served ∧ (s.deliverAll cs).lost = s.lost ++ cs := by
    intro cs
    induction cs with
    | nil => intro s _; simp [RState.deliverAll]
    | cons c cs ih =>
      intro s hs
      have h1 : s.deliver c = { s with lost := s.lost ++ [c] } := by simp [RState.deliver, hs]
      have := ih (s.deliver c) (by rw [h1]; exact hs)
      simp only [RState.deliverAll, List.foldl_cons] at this ⊢
      rw [this.1, this.2, h1]
      simp
  simpa [RState.postN] using this chunks { parser := st0 } rfl

-- non-vacuity: a window of three reads, `ESC [ 5 A a` cut into five deliveries
example : ((RState.postN 3 { parser := st0 }).deliverAll chunks0).served.map (·.1) = [0, 1, 2, 3, 4]
    ∧ ((RState.postN 3 { parser := st0 }).deliverAll chunks0).posted = [5, 6, 7] := by decide

end Tpp.Props.C06
