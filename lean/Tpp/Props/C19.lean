import Tpp.Model.Palette
import Tpp.Model.Encoder
import Tpp.Model.Printers
/-!
C19 – 256-colour indices are a bijection onto their palette ranges.
Over the offset and coefficients regenerated from `ansi/graphics.hpp`, in the C++ arithmetic
(int evaluation, truncation to byte).  The quantifier domain (216 triples, 24 shades) is finite and
enumerated completely by kernel evaluation.
-/
namespace Tpp.Props.C19
open Tpp

abbrev b6 (i : Fin 6) : Byte := UInt8.ofNat i.val
abbrev b24 (i : Fin 24) : Byte := UInt8.ofNat i.val

/-- every high colour built from components in 0..5 has palette index 16 + 36r + 6g + b -/
theorem C19_index : ∀ r g b : Fin 6, (encodeHigh (b6 r) (b6 g) (b6 b)).toNat = 16 + 36 * r.val + 6 * g.val + b.val := by
  decide +kernel

/-- … which lies in 16..231 -/
theorem C19_range : ∀ r g b : Fin 6, 16 ≤ (encodeHigh (b6 r) (b6 g) (b6 b)).toNat ∧ (encodeHigh (b6 r) (b6 g) (b6 b)).toNat ≤ 231 := by
  decide +kernel

/-- the components recovered from the index are the original ones -/
theorem C19_components_roundtrip : ∀ r g b : Fin 6,
    highRed (encodeHigh (b6 r) (b6 g) (b6 b)) = b6 r ∧
    highGreen (encodeHigh (b6 r) (b6 g) (b6 b)) = b6 g ∧
    highBlue (encodeHigh (b6 r) (b6 g) (b6 b)) = b6 b := by
  decide +kernel

/-- distinct triples give distinct indices -/
theorem C19_injective (r g b r' g' b' : Fin 6)
    (h : encodeHigh (b6 r) (b6 g) (b6 b) = encodeHigh (b6 r') (b6 g') (b6 b')) : r = r' ∧ g = g' ∧ b = b' := by
  have h1 := C19_components_roundtrip r g b
  have h2 := C19_components_roundtrip r' g' b'
  rw [h] at h1
  obtain ⟨a1, a2, a3⟩ := h1
  obtain ⟨c1, c2, c3⟩ := h2
  have inj : ∀ i j : Fin 6, b6 i = b6 j → i = j := by decide
  exact ⟨inj _ _ (a1.symm.trans c1), inj _ _ (a2.symm.trans c2), inj _ _ (a3.symm.trans c3)⟩

/-- every index in 16..231 is hit (so the map is onto its range) -/
theorem C19_surjective : ∀ v : Byte, 16 ≤ v.toNat → v.toNat ≤ 231 →
    ∃ r g b : Fin 6, encodeHigh (b6 r) (b6 g) (b6 b) = v := by
  have : ∀ v : Byte, 16 ≤ v.toNat → v.toNat ≤ 231 →
      encodeHigh (highRed v) (highGreen v) (highBlue v) = v ∧
      (highRed v).toNat < 6 ∧ (highGreen v).toNat < 6 ∧ (highBlue v).toNat < 6 := by decide +kernel
  intro v h1 h2
  obtain ⟨e, hr, hg, hb⟩ := this v h1 h2
  refine ⟨⟨_, hr⟩, ⟨_, hg⟩, ⟨_, hb⟩, ?_⟩
  simpa [b6] using e

/-- every greyscale shade 0..23 maps to 232 + shade and back -/
theorem C19_grey : ∀ s : Fin 24, (encodeGrey (b24 s)).toNat = 232 + s.val ∧ greyComponent (encodeGrey (b24 s)) = b24 s := by
  decide +kernel

/-- the SGR parameter text transmitted for such a colour is `38;5;index` / `48;5;index` -/
theorem C19_wire_high (r g b : Fin 6) :
    fgParams (Colour.ofHigh (b6 r) (b6 g) (b6 b)) = [38, 5, 16 + 36 * r.val + 6 * g.val + b.val] ∧
    bgParams (Colour.ofHigh (b6 r) (b6 g) (b6 b)) = [48, 5, 16 + 36 * r.val + 6 * g.val + b.val] := by
  simp [Colour.ofHigh, fgParams, bgParams, C19_index]

theorem C19_wire_grey (s : Fin 24) :
    fgParams (Colour.ofGrey (b24 s)) = [38, 5, 232 + s.val] ∧ bgParams (Colour.ofGrey (b24 s)) = [48, 5, 232 + s.val] := by
  simp [Colour.ofGrey, fgParams, bgParams, (C19_grey s).1]

/-- the streamed form (`out << colour`) of a palette colour shows its components / its shade in decimal – `#rgb` and
    `#NN` – whatever number base or adjustment the stream is in, so the triple and the shade are recovered from it -/
theorem C19_streamed :
    (∀ r g b : Fin 6, showHighColour (encodeHigh (b6 r) (b6 g) (b6 b))
        = [0x23, UInt8.ofNat (48 + r.val), UInt8.ofNat (48 + g.val), UInt8.ofNat (48 + b.val)]) ∧
    (∀ s : Fin 24, showGreyColour (encodeGrey (b24 s)) = [0x23, UInt8.ofNat (48 + s.val / 10), UInt8.ofNat (48 + s.val % 10)]) := by
  constructor <;> decide +kernel

-- non-vacuity / sanity: the last cube entry and the last shade
example : encodeHigh 5 5 5 = 231 ∧ encodeGrey 23 = 255 ∧ highGreen 231 = 5 := by decide

end Tpp.Props.C19
