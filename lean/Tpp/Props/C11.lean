import Tpp.Lemmas.Modes
import Tpp.Lemmas.RendOnly
/-!
C11 – mode switches leave the last requested mode in effect and respect capabilities.

`Requested` is the specification-level account of a history: the most recent request of each kind.
`Consistent` says what that means for the terminal's modes, given the declared capabilities and the
terminal's (unknown) initial modes `m0`.  The theorem holds for all interleavings with text, cursor and
erase operations and resizes, for all 16 combinations of the mouse / title capability flags.
-/
namespace Tpp.Props.C11
open Tpp

structure Requested where
  vis : Option Bool := none
  buf : Option Bool := none
  mouse : Option Bool := none
  title : Option (List Byte) := none

def Requested.after (r : Requested) : Ev → Requested
  | .op .hideCursor => { r with vis := some false }
  | .op .showCursor => { r with vis := some true }
  | .op .normalBuffer => { r with buf := some false }
  | .op .altBuffer => { r with buf := some true }
  | .op .enableMouse => { r with mouse := some true }
  | .op .disableMouse => { r with mouse := some false }
  | .op (.setTitle t) => { r with title := some t }
  | _ => r

def requested (evs : List Ev) : Requested := evs.foldl Requested.after {}

structure Consistent (beh : Behaviour) (m0 : VT.Modes) (r : Requested) (m : VT.Modes) : Prop where
  vis : (∀ b, r.vis = some b → m.vis = b) ∧ (r.vis = none → m.vis = m0.vis)
  buf : (∀ b, r.buf = some b → m.alt = b) ∧ (r.buf = none → m.alt = m0.alt)
  /-- basic tracking supported: mode 1000 follows the requests, mode 1003 is never touched -/
  mouseBasic : beh.basicMouse = true →
    (∀ b, r.mouse = some b → m.m1000 = b) ∧ (r.mouse = none → m.m1000 = m0.m1000) ∧ m.m1003 = m0.m1003
  /-- only all-motion tracking supported: mode 1003 follows the requests, mode 1000 is never touched -/
  mouseAll : beh.basicMouse = false → beh.allMouse = true →
    (∀ b, r.mouse = some b → m.m1003 = b) ∧ (r.mouse = none → m.m1003 = m0.m1003) ∧ m.m1000 = m0.m1000
  mouseNone : beh.basicMouse = false → beh.allMouse = false → m.m1000 = m0.m1000 ∧ m.m1003 = m0.m1003
  title : ((beh.titleBel || beh.titleSt) = true → (∀ t, r.title = some t → m.title = t) ∧ (r.title = none → m.title = m0.title))
  titleNone : (beh.titleBel || beh.titleSt) = false → m.title = m0.title

theorem consistent_init (beh : Behaviour) (m0 : VT.Modes) : Consistent beh m0 {} m0 :=
  ⟨⟨(by intro b h; cases h), fun _ => rfl⟩, ⟨(by intro b h; cases h), fun _ => rfl⟩,
   fun _ => ⟨(by intro b h; cases h), fun _ => rfl, rfl⟩, fun _ _ => ⟨(by intro b h; cases h), fun _ => rfl, rfl⟩,
   fun _ _ => ⟨rfl, rfl⟩, fun _ => ⟨(by intro t h; cases h), fun _ => rfl⟩, fun _ => rfl⟩

theorem consistent_mouse (beh : Behaviour) (m0 : VT.Modes) (r : Requested) (m : VT.Modes) (on : Bool)
    (h : Consistent beh m0 r m) :
    Consistent beh m0 { r with mouse := some on }
      (if beh.basicMouse then { m with m1000 := on } else if beh.allMouse then { m with m1003 := on } else m) := by
  obtain ⟨h1, h2, h3, h4, h5, h6, h7⟩ := h
  cases hb : beh.basicMouse with
  | true =>
    simp only [if_true]
    obtain ⟨_, _, c⟩ := h3 hb
    exact ⟨h1, h2, fun _ => ⟨(by intro b hb'; simp at hb'; exact hb'), (by intro hn; cases hn), c⟩,
      (by intro hf; simp [hb] at hf), (by intro hf; simp [hb] at hf), h6, h7⟩
  | false =>
    cases ha : beh.allMouse with
    | true =>
      simp only [Bool.false_eq_true, if_false, if_true]
      obtain ⟨_, _, c⟩ := h4 hb ha
      exact ⟨h1, h2, (by intro hf; simp [hb] at hf),
        fun _ _ => ⟨(by intro b hb'; simp at hb'; exact hb'), (by intro hn; cases hn), c⟩,
        (by intro _ hf; simp [ha] at hf), h6, h7⟩
    | false =>
      simp only [Bool.false_eq_true, if_false]
      exact ⟨h1, h2, (by intro hf; simp [hb] at hf), (by intro _ hf; simp [ha] at hf), fun _ _ => h5 hb ha, h6, h7⟩

theorem consistent_step (beh : Behaviour) (m0 : VT.Modes) (r : Requested) (m : VT.Modes) (ev : Ev)
    (h : Consistent beh m0 r m) : Consistent beh m0 (r.after ev) (modesAfter beh m ev) := by
  cases ev with
  | resize _ _ _ _ _ _ _ => exact h
  | op o =>
    cases o with
    | hideCursor =>
      obtain ⟨h1, h2, h3, h4, h5, h6, h7⟩ := h
      exact ⟨⟨(by intro b hb; simp [Requested.after] at hb; simp [modesAfter, ← hb]), (by intro hn; simp [Requested.after] at hn)⟩,
        h2, h3, h4, h5, h6, h7⟩
    | showCursor =>
      obtain ⟨h1, h2, h3, h4, h5, h6, h7⟩ := h
      exact ⟨⟨(by intro b hb; simp [Requested.after] at hb; simp [modesAfter, ← hb]), (by intro hn; simp [Requested.after] at hn)⟩,
        h2, h3, h4, h5, h6, h7⟩
    | normalBuffer =>
      obtain ⟨h1, h2, h3, h4, h5, h6, h7⟩ := h
      exact ⟨h1, ⟨(by intro b hb; simp [Requested.after] at hb; simp [modesAfter, ← hb]), (by intro hn; simp [Requested.after] at hn)⟩,
        h3, h4, h5, h6, h7⟩
    | altBuffer =>
      obtain ⟨h1, h2, h3, h4, h5, h6, h7⟩ := h
      exact ⟨h1, ⟨(by intro b hb; simp [Requested.after] at hb; simp [modesAfter, ← hb]), (by intro hn; simp [Requested.after] at hn)⟩,
        h3, h4, h5, h6, h7⟩
    | enableMouse => exact consistent_mouse beh m0 r m true h
    | disableMouse => exact consistent_mouse beh m0 r m false h
    | setTitle t =>
      obtain ⟨h1, h2, h3, h4, h5, h6, h7⟩ := h
      simp only [Requested.after, modesAfter]
      cases hc : (beh.titleBel || beh.titleSt) with
      | true =>
        simp only [if_true]
        exact ⟨h1, h2, h3, h4, h5, fun _ => ⟨(by intro t' ht'; simp at ht'; exact ht'), (by intro hn; cases hn)⟩,
          (by intro hf; simp [hc] at hf)⟩
      | false =>
        simp only [Bool.false_eq_true, if_false]
        exact ⟨h1, h2, h3, h4, h5, (by intro hf; simp [hc] at hf), fun _ => h7 hc⟩
    | writeElement _ => exact h
    | writeString _ => exact h
    | rawElement _ => exact h
    | defaultAttr => exact h
    | moveCursor _ => exact h
    | saveCursor => exact h
    | restoreCursor => exact h
    | erase _ => exact h
    | setSize _ => exact h
    | rawWrite _ => exact h
    | input _ => exact h

/-- **the property**: after any in-domain history the terminal's cursor visibility, active buffer, mouse
    reporting and title are the ones most recently requested (elision notwithstanding), modes the
    behaviour does not support are never touched, and requests of a kind never made leave the terminal's
    own initial value alone. -/
theorem C11_modes (beh : Behaviour) (evs : List Ev) :
    ∀ (st : TermState × VT) (r : Requested) (m0 : VT.Modes), Agree st.1 st.2 → RunWF beh st evs →
      Consistent beh m0 r st.2.modes →
      Consistent beh m0 (evs.foldl Requested.after r) (Sys.run beh st evs).2.modes := by
  induction evs with
  | nil => intro st r m0 _ _ h; exact h
  | cons ev evs ih =>
    intro st r m0 hA hw h
    obtain ⟨hw1, hw2⟩ := hw
    have hm := step_modes beh st.1 st.2 hA ev hw1
    have hc := consistent_step beh m0 r st.2.modes ev h
    rw [← hm] at hc
    exact ih (Sys.step beh st ev) (r.after ev) m0 (agree_step beh st.1 st.2 hA ev hw1) hw2 hc

/-- from the start of a session: unknown initial modes `vt.modes` -/
theorem C11_modes_from_start (beh : Behaviour) (st : TermState × VT) (hA : Agree st.1 st.2) (evs : List Ev)
    (hwf : RunWF beh st evs) :
    Consistent beh st.2.modes (requested evs) (Sys.run beh st evs).2.modes :=
  C11_modes beh evs st {} st.2.modes hA hwf (consistent_init beh st.2.modes)

/-- **no size needed**: the same statement for histories in which the library's idea of sizes and positions
    is arbitrary – no `set_size` at all, a `set_size` that does not match the terminal, the terminal resized
    without the library being told, cursor moves to any non-negative position.  Mode switches never depend on
    where the library believes the cursor is. -/
theorem C11_modes_any_size (beh : Behaviour) (evs : List REv) :
    ∀ (st : TermState × VT) (r : Requested) (m0 : VT.Modes), AgreeRend st.1 st.2 → RRunWF beh st evs →
      Consistent beh m0 r st.2.modes →
      Consistent beh m0 ((evs.map REv.toEv).foldl Requested.after r) (RSys.run beh st evs).2.modes := by
  induction evs with
  | nil => intro st r m0 _ _ h; exact h
  | cons ev evs ih =>
    intro st r m0 hA hw h
    obtain ⟨hw1, hw2⟩ := hw
    have hm := rstep_modes beh st.1 st.2 hA ev hw1
    have hc := consistent_step beh m0 r st.2.modes ev.toEv h
    rw [← hm] at hc
    exact ih (RSys.step beh st ev) (r.after ev.toEv) m0 (agreeRend_step beh st.1 st.2 hA ev hw1).1 hw2 hc

/-- a fresh `terminal` that never declares a size, on a terminal in any unknown state -/
theorem C11_modes_readme (beh : Behaviour) (vt0 : VT) (hu : vt0.Unknown) (evs : List REv)
    (hwf : RRunWF beh ({}, vt0) evs) :
    Consistent beh vt0.modes (requested (evs.map REv.toEv)) (RSys.run beh ({}, vt0) evs).2.modes :=
  C11_modes_any_size beh evs ({}, vt0) {} vt0.modes (agreeRend_init vt0 hu) hwf (consistent_init beh vt0.modes)

/-- nothing is sent for a capability the behaviour does not declare -/
theorem C11_no_bytes_without_capability (beh : Behaviour) (s : TermState) (t : List Byte) :
    (beh.basicMouse = false → beh.allMouse = false →
        (step beh s .enableMouse).2 = [] ∧ (step beh s .disableMouse).2 = []) ∧
    (beh.titleBel = false → beh.titleSt = false → (step beh s (.setTitle t)).2 = []) := by
  constructor
  · intro h1 h2; simp [step, mouseBytes, h1, h2]
  · intro h1 h2; simp [step, titleBytes, h1, h2]

/-- the title terminator is BEL when `supports_window_title_bel`, otherwise ST -/
theorem C11_title_terminator (beh : Behaviour) (s : TermState) (t : List Byte) :
    (beh.titleBel = true → (step beh s (.setTitle t)).2.getLast? = some 0x07) ∧
    (beh.titleBel = false → beh.titleSt = true →
        ∃ pre, (step beh s (.setTitle t)).2 = pre ++ [0x1B, 0x5C]) := by
  constructor
  · intro h
    have : (Consts.ascii_bel : Byte) = 0x07 := by decide
    have hl : ∀ (pre : List Byte), (pre ++ [(0x07 : Byte)]).getLast? = some 0x07 := by intro pre; simp
    have hb : (step beh s (.setTitle t)).2 = (oscBytes ++ [Consts.osc_set_window_title, Consts.ps] ++ t) ++ [0x07] := by
      simp [step, titleBytes, h, this]
    rw [hb]; exact hl _
  · intro h1 h2
    refine ⟨oscBytes ++ [Consts.osc_set_window_title, Consts.ps] ++ t, ?_⟩
    have : stBytes = [0x1B, 0x5C] := by decide
    simp [step, titleBytes, h1, h2, this]

/-- disabling undoes exactly what enabling did: the same mode number, with `l` for `h` -/
theorem C11_disable_mirrors_enable (beh : Behaviour) (s : TermState) :
    ∃ pre, (step beh s .enableMouse).2 = pre ++ (if pre = [] then [] else Consts.dec_pm_set) ∧
           (step beh s .disableMouse).2 = pre ++ (if pre = [] then [] else Consts.dec_pm_reset) := by
  by_cases h1 : beh.basicMouse = true
  · exact ⟨decPmBytes ++ Consts.dec_pm_basic_mouse_tracking, by simp [step, mouseBytes, h1], by simp [step, mouseBytes, h1]⟩
  · by_cases h2 : beh.allMouse = true
    · exact ⟨decPmBytes ++ Consts.dec_pm_all_motion_mouse_tracking, by simp [step, mouseBytes, h1, h2], by simp [step, mouseBytes, h1, h2]⟩
    · exact ⟨[], by simp [step, mouseBytes, h1, h2], by simp [step, mouseBytes, h1, h2]⟩

-- non-vacuity: a history with repeated (elided) requests, on a behaviour with all-motion mouse and ST titles
example : (requested [.op .hideCursor, .op .hideCursor, .op .enableMouse, .op (.setTitle [0x41]), .op .showCursor]).vis = some true := rfl

end Tpp.Props.C11
