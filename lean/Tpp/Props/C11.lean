import Tpp.Lemmas.Modes
import Tpp.Lemmas.RendOnly
import Tpp.Props.C04
/-!
C11 – mode switches leave the last requested mode in effect and respect capabilities.

`Requested` is the specification-level account of a history: the most recent request of each kind.
`Consistent` says what that means for the terminal's modes, given the declared capabilities and the
terminal's (unknown) initial modes `m0`.  The theorem holds for all interleavings with text, cursor and
erase operations and resizes, for all 16 combinations of the mouse / title capability flags.
-/
namespace Tpp.Props.C11
open Tpp

structure Requested where
  vis : Option Bool := none
  buf : Option Bool := none
  mouse : Option Bool := none
  title : Option (List Byte) := none

def Requested.after (r : Requested) : Ev → Requested
  | .op .hideCursor => { r with vis := some false }
  | .op .showCursor => { r with vis := some true }
  | .op .normalBuffer => { r with buf := some false }
  | .op .altBuffer => { r with buf := some true }
  | .op .enableMouse => { r with mouse := some true }
  | .op .disableMouse => { r with mouse := some false }
  | .op (.setTitle t) => { r with title := some t }
  | _ => r

def requested (evs : List Ev) : Requested := evs.foldl Requested.after {}

structure Consistent (beh : Behaviour) (m0 : VT.Modes) (r : Requested) (m : VT.Modes) : Prop where
  vis : (∀ b, r.vis = some b → m.vis = b) ∧ (r.vis = none → m.vis = m0.vis)
  buf : (∀ b, r.buf = some b → m.alt = b) ∧ (r.buf = none → m.alt = m0.alt)
  /-- basic tracking supported: mode 1000 follows the requests, mode 1003 is never touched -/
  mouseBasic : beh.basicMouse = true →
    (∀ b, r.mouse = some b → m.m1000 = b) ∧ (r.mouse = none → m.m1000 = m0.m1000) ∧ m.m1003 = m0.m1003
  /-- only all-motion tracking supported: mode 1003 follows the requests, mode 1000 is never touched -/
  mouseAll : beh.basicMouse = false → beh.allMouse = true →
    (∀ b, r.mouse = some b → m.m1003 = b) ∧ (r.mouse = none → m.m1003 = m0.m1003) ∧ m.m1000 = m0.m1000
  mouseNone : beh.basicMouse = false → beh.allMouse = false → m.m1000 = m0.m1000 ∧ m.m1003 = m0.m1003
  title : ((beh.titleBel || beh.titleSt) = true → (∀ t, r.title = some t → m.title = t) ∧ (r.title = none → m.title = m0.title))
  titleNone : (beh.titleBel || beh.titleSt) = false → m.title = m0.title

theorem consistent_init (beh : Behaviour) (m0 : VT.Modes) : Consistent beh m0 {} m0 :=
  ⟨⟨(by intro b h; cases h), fun _ => rfl⟩, ⟨(by intro b h; cases h), fun _ => rfl⟩,
   fun _ => ⟨(by intro b h; cases h), fun _ => rfl, rfl⟩, fun _ _ => ⟨(by intro b h; cases h), fun _ => rfl, rfl⟩,
   fun _ _ => ⟨rfl, rfl⟩, fun _ => ⟨(by intro t h; cases h), fun _ => rfl⟩, fun _ => rfl⟩

theorem consistent_mouse (beh : Behaviour) (m0 : VT.Modes) (r : Requested) (m : VT.Modes) (on : Bool)
    (h : Consistent beh m0 r m) :
    Consistent beh m0 { r with mouse := some on }
      (if beh.basicMouse then { m with m1000 := on } else if beh.allMouse then { m with m1003 := on } else m) := by
  obtain ⟨h1, h2, h3, h4, h5, h6, h7⟩ := h
  cases hb : beh.basicMouse with
  | true =>
    simp only [if_true]
    obtain ⟨_, _, c⟩ := h3 hb
    exact ⟨h1, h2, fun _ => ⟨(by intro b hb'; simp at hb'; exact hb'), (by intro hn; cases hn), c⟩,
      (by intro hf; simp [hb] at hf), (by intro hf; simp [hb] at hf), h6, h7⟩
  | false =>
    cases ha : beh.allMouse with
    | true =>
      simp only [Bool.false_eq_true, if_false, if_true]
      obtain ⟨_, _, c⟩ := h4 hb ha
      exact ⟨h1, h2, (by intro hf; simp [hb] at hf),
        fun _ _ => ⟨(by intro b hb'; simp at hb'; exact hb'), (by intro hn; cases hn), c⟩,
        (by intro _ hf; simp [ha] at hf), h6, h7⟩
    | false =>
      simp only [Bool.false_eq_true, if_false]
      exact ⟨h1, h2, (by intro hf; simp [hb] at hf), (by intro _ hf; simp [ha] at hf), fun _ _ => h5 hb ha, h6, h7⟩

theorem consistent_step (beh : Behaviour) (m0 : VT.Modes) (r : Requested) (m : VT.Modes) (ev : Ev)
    (h : Consistent beh m0 r m) : Consistent beh m0 (r.after ev) (modesAfter beh m ev) := by
  cases ev with
  | resize _ _ _ _ _ _ _ => exact h
  | op o =>
    cases o with
    | hideCursor =>
      obtain ⟨h1, h2, h3, h4, h5, h6, h7⟩ := h
      exact ⟨⟨(by intro b hb; simp [Requested.after] at hb; simp [modesAfter, ← hb]), (by intro hn; simp [Requested.after] at hn)⟩,
        h2, h3, h4, h5, h6, h7⟩
    | showCursor =>
      obtain ⟨h1, h2, h3, h4, h5, h6, h7⟩ := h
      exact ⟨⟨(by intro b hb; simp [Requested.after] at hb; simp [modesAfter, ← hb]), (by intro hn; simp [Requested.after] at hn)⟩,
        h2, h3, h4, h5, h6, h7⟩
    | normalBuffer =>
      obtain ⟨h1, h2, h3, h4, h5, h6, h7⟩ := h
      exact ⟨h1, ⟨(by intro b hb; simp [Requested.after] at hb; simp [modesAfter, ← hb]), (by intro hn; simp [Requested.after] at hn)⟩,
        h3, h4, h5, h6, h7⟩
    | altBuffer =>
      obtain ⟨h1, h2, h3, h4, h5, h6, h7⟩ := h
      exact ⟨h1, ⟨(by intro b hb; simp [Requested.after] at hb; simp [modesAfter, ← hb]), (by intro hn; simp [Requested.after] at hn)⟩,
        h3, h4, h5, h6, h7⟩
    | enableMouse => exact consistent_mouse beh m0 r m true h
    | disableMouse => exact consistent_mouse beh m0 r m false h
    | setTitle t =>
      obtain ⟨h1, h2, h3, h4, h5, h6, h7⟩ := h
      simp only [Requested.after, modesAfter]
      cases hc : (beh.titleBel || beh.titleSt) with
      | true =>
        simp only [if_true]
        exact ⟨h1, h2, h3, h4, h5, fun _ => ⟨(by intro t' ht'; simp at ht'; exact ht'), (by intro hn; cases hn)⟩,
          (by intro hf; simp [hc] at hf)⟩
      | false =>
        simp only [Bool.false_eq_true, if_false]
        exact ⟨h1, h2, h3, h4, h5, (by intro hf; simp [hc] at hf), fun _ => h7 hc⟩
    | writeElement _ => exact h
    | writeString _ => exact h
    | rawElement _ => exact h
    | defaultAttr => exact h
    | moveCursor _ => exact h
    | saveCursor => exact h
    | restoreCursor => exact h
    | erase _ => exact h
    | setSize _ => exact h
    | rawWrite _ => exact h
    | input _ => exact h

/-- **the property**: after any in-domain history the terminal's cursor visibility, active buffer, mouse
    reporting and title are the ones most recently requested (elision notwithstanding), modes the
    behaviour does not support are never touched, and requests of a kind never made leave the terminal's
    own initial value alone. -/
theorem C11_modes (beh : Behaviour) (evs : List Ev) :
    ∀ (st : TermState × VT) (r : Requested) (m0 : VT.Modes), Agree st.1 st.2 → RunWF beh st evs →
      Consistent beh m0 r st.2.modes →
      Consistent beh m0 (evs.foldl Requested.after r) (Sys.run beh st evs).2.modes := by
  induction evs with
  | nil => intro st r m0 _ _ h; exact h
  | cons ev evs ih =>
    intro st r m0 hA hw h
    obtain ⟨hw1, hw2⟩ := hw
    have hm := step_modes beh st.1 st.2 hA ev hw1
    have hc := consistent_step beh m0 r st.2.modes ev h
    rw [← hm] at hc
    exact ih (Sys.step beh st ev) (r.after ev) m0 (agree_step beh st.1 st.2 hA ev hw1) hw2 hc

/-- from the start of a session: unknown initial modes `vt.modes` -/
theorem C11_modes_from_start (beh : Behaviour) (st : TermState × VT) (hA : Agree st.1 st.2) (evs : List Ev)
    (hwf : RunWF beh st evs) :
    Consistent beh st.2.modes (requested evs) (Sys.run beh st evs).2.modes :=
  C11_modes beh evs st {} st.2.modes hA hwf (consistent_init beh st.2.modes)

/-- **no size needed**: the same statement for histories in which the library's idea of sizes and positions
    is arbitrary – no `set_size` at all, a `set_size` that does not match the terminal, the terminal resized
    without the library being told, cursor moves to any non-negative position.  Mode switches never depend on
    where the library believes the cursor is. -/
theorem C11_modes_any_size (beh : Behaviour) (evs : List REv) :
    ∀ (st : TermState × VT) (r : Requested) (m0 : VT.Modes), AgreeRend st.1 st.2 → RRunWF beh st evs →
      Consistent beh m0 r st.2.modes →
      Consistent beh m0 ((evs.map REv.toEv).foldl Requested.after r) (RSys.run beh st evs).2.modes := by
  induction evs with
  | nil => intro st r m0 _ _ h; exact h
  | cons ev evs ih =>
    intro st r m0 hA hw h
    obtain ⟨hw1, hw2⟩ := hw
    have hm := rstep_modes beh st.1 st.2 hA ev hw1
    have hc := consistent_step beh m0 r st.2.modes ev.toEv h
    rw [← hm] at hc
    exact ih (RSys.step beh st ev) (r.after ev.toEv) m0 (agreeRend_step beh st.1 st.2 hA ev hw1).1 hw2 hc

/-- a fresh `terminal` that never declares a size, on a terminal in any unknown state -/
theorem C11_modes_readme (beh : Behaviour) (vt0 : VT) (hu : vt0.Unknown) (evs : List REv)
    (hwf : RRunWF beh ({}, vt0) evs) :
    Consistent beh vt0.modes (requested (evs.map REv.toEv)) (RSys.run beh ({}, vt0) evs).2.modes :=
  C11_modes_any_size beh evs ({}, vt0) {} vt0.modes (agreeRend_init vt0 hu) hwf (consistent_init beh vt0.modes)

/-- nothing is sent for a capability the behaviour does not declare -/
theorem C11_no_bytes_without_capability (beh : Behaviour) (s : TermState) (t : List Byte) :
    (beh.basicMouse = false → beh.allMouse = false →
        (step beh s .enableMouse).2 = [] ∧ (step beh s .disableMouse).2 = []) ∧
    (beh.titleBel = false → beh.titleSt = false → (step beh s (.setTitle t)).2 = []) := by
  constructor
  · intro h1 h2; simp [step, mouseBytes, h1, h2]
  · intro h1 h2; simp [step, titleBytes, h1, h2]

/-- the title terminator is BEL when `supports_window_title_bel`, otherwise ST -/
theorem C11_title_terminator (beh : Behaviour) (s : TermState) (t : List Byte) :
    (beh.titleBel = true → (step beh s (.setTitle t)).2.getLast? = some 0x07) ∧
    (beh.titleBel = false → beh.titleSt = true →
        ∃ pre, (step beh s (.setTitle t)).2 = pre ++ [0x1B, 0x5C]) := by
  constructor
  · intro h
    have : (Consts.ascii_bel : Byte) = 0x07 := by decide
    have hl : ∀ (pre : List Byte), (pre ++ [(0x07 : Byte)]).getLast? = some 0x07 := by intro pre; simp
    have hb : (step beh s (.setTitle t)).2 = (oscBytes ++ [Consts.osc_set_window_title, Consts.ps] ++ t) ++ [0x07] := by
      simp [step, titleBytes, h, this]
    rw [hb]; exact hl _
  · intro h1 h2
    refine ⟨oscBytes ++ [Consts.osc_set_window_title, Consts.ps] ++ t, ?_⟩
    have : stBytes = [0x1B, 0x5C] := by decide
    simp [step, titleBytes, h1, h2, this]

/-- disabling undoes exactly what enabling did: the same mode number, with `l` for `h` -/
theorem C11_disable_mirrors_enable (beh : Behaviour) (s : TermState) :
    ∃ pre, (step beh s .enableMouse).2 = pre ++ (if pre = [] then [] else Consts.dec_pm_set) ∧
           (step beh s .disableMouse).2 = pre ++ (if pre = [] then [] else Consts.dec_pm_reset) := by
  by_cases h1 : beh.basicMouse = true
  · exact ⟨decPmBytes ++ Consts.dec_pm_basic_mouse_tracking, by simp [step, mouseBytes, h1], by simp [step, mouseBytes, h1]⟩
  · by_cases h2 : beh.allMouse = true
    · exact ⟨decPmBytes ++ Consts.dec_pm_all_motion_mouse_tracking, by simp [step, mouseBytes, h1, h2], by simp [step, mouseBytes, h1, h2]⟩
    · exact ⟨[], by simp [step, mouseBytes, h1, h2], by simp [step, mouseBytes, h1, h2]⟩

-- non-vacuity: a history with repeated (elided) requests, on a behaviour with all-motion mouse and ST titles
example : (requested [.op .hideCursor, .op .hideCursor, .op .enableMouse, .op (.setTitle [0x41]), .op .showCursor]).vis = some true := rfl

/-! ### Draws are not mode requests

`screen::draw` streams erases, cursor moves and elements to its terminal.  None of them is a mode request, so
whatever was last requested is still in effect after any draw of any canvas – on any terminal, whatever the library
believes about sizes and positions. -/

/-- operations that are not requests for a mode -/
def noMode : Op → Bool
  | .hideCursor | .showCursor | .normalBuffer | .altBuffer | .enableMouse | .disableMouse | .setTitle _ => false
  | _ => true

theorem modesAfter_noMode (beh : Behaviour) (m : VT.Modes) (o : Op) (h : noMode o = true) :
    modesAfter beh m (.op o) = m := by
  cases o <;> simp_all [modesAfter, noMode]

/-- any run of operations none of which is a mode request leaves the terminal's modes as they were -/
theorem run_noMode_modes (beh : Behaviour) (ops : List Op) :
    ∀ (st : TermState × VT), AgreeRend st.1 st.2 → (∀ op ∈ ops, op.WFR0 ∧ noMode op = true) →
      (RSys.run beh st (ops.map REv.op)).2.modes = st.2.modes := by
  induction ops with
  | nil => intro st _ _; rfl
  | cons op ops ih =>
    intro st hA hall
    have h1 := hall op (by simp)
    have hw : (REv.op op).WF st.1 := wfr_of_wfr0 st.1 op h1.1
    have hm := rstep_modes beh st.1 st.2 hA (.op op) hw
    have hA' := (agreeRend_step beh st.1 st.2 hA (.op op) hw).1
    have := ih (RSys.step beh st (.op op)) hA' (fun o ho => hall o (by simp [ho]))
    simp only [List.map_cons, RSys.run, List.foldl_cons] at this ⊢
    rw [this, hm]
    exact modesAfter_noMode beh st.2.modes op h1.2

/-- **a draw keeps the modes**: cursor visibility, active buffer, mouse reporting and title of the terminal are the
    same after `screen.draw(c)` as before it, for every screen state, every (well-formed) canvas and every terminal
    on which the library's idea of the rendition is right – no assumption about sizes or positions -/
theorem C11_draw_keeps_modes (beh : Behaviour) (scr : ScreenState) (c : Canvas) (s : TermState) (vt : VT)
    (hA : AgreeRend s vt) (hwf : c.cellsWF) :
    (vt.feedAll (drawRun beh scr c s).2).modes = vt.modes := by
  have hall : ∀ op ∈ (Screen.draw scr c).2, op.WFR0 ∧ noMode op = true := by
    intro op hop
    rw [Tpp.Props.C04.C04_ops_exact] at hop
    rcases List.mem_append.mp hop with h | h
    · split at h
      · simp at h; subst h; exact ⟨trivial, rfl⟩
      · simp at h
    · rw [List.mem_flatMap] at h
      obtain ⟨p, hp, hmem⟩ := h
      have hin := (mem_fullRegion c p).mp (List.mem_filter.mp hp).1
      simp at hmem
      rcases hmem with rfl | rfl
      · exact ⟨⟨hin.1.1, hin.2.1⟩, rfl⟩
      · exact ⟨hwf p.1 p.2 hin.1.1 hin.1.2 hin.2.1 hin.2.2, rfl⟩
  have := run_noMode_modes beh (Screen.draw scr c).2 (s, vt) hA hall
  rw [RSys.run_ops] at this
  exact this

/-- the requested modes survive any sequence of draws interleaved with mode requests: after `hide_cursor` and then any
    draw the cursor is still hidden (the clause the draw of a large canvas must not break) -/
theorem C11_hide_then_draw (beh : Behaviour) (scr : ScreenState) (c : Canvas) (s : TermState) (vt : VT)
    (hA : AgreeRend s vt) (hwf : c.cellsWF) :
    let st1 := RSys.step beh (s, vt) (.op .hideCursor)
    (st1.2.feedAll (drawRun beh scr c st1.1).2).cursorVisible = false := by
  intro st1
  have hw : (REv.op Op.hideCursor).WF s := trivial
  have hA1 := (agreeRend_step beh s vt hA (.op .hideCursor) hw).1
  have hm := rstep_modes beh s vt hA (.op .hideCursor) hw
  have hd := C11_draw_keeps_modes beh scr c st1.1 st1.2 hA1 hwf
  have : (st1.2.feedAll (drawRun beh scr c st1.1).2).modes.vis = false := by
    rw [hd, hm]; rfl
  exact this

/-- non-vacuity: a fresh terminal object on a terminal in any unknown state, first paint of a blank 10x8 canvas -/
example (beh : Behaviour) (vt0 : VT) (hu : vt0.Unknown) :
    (vt0.feedAll (drawRun beh {} (Canvas.new ⟨10, 8⟩) {}).2).modes = vt0.modes :=
  C11_draw_keeps_modes beh {} _ {} vt0 (agreeRend_init vt0 hu)
    (fun x y _ _ _ _ => by rw [new_get_default]; decide)

end Tpp.Props.C11
