import Tpp.Lemmas.Input
/-!
C05 – well-formed keyboard, mouse and control input decodes to exactly what was sent.

`Ref.Item` is the input protocol (ECMA-48 / xterm ctlseqs / NVT line endings, `Tpp/Ref/Input.lean`);
`tokens` is the model of `detail::parser` + `get_well_known_virtual_key` as driven by
`terminal::async_read` (`Tpp/Model/Parser.lean`, `Tpp/Model/Keys.lean`).  The decoder starts idle with
ARBITRARY scratch members (`initializer_`, `extender_`, `meta_`, `argument_`, `arguments_`, mouse scratch):
nothing a previous sequence left behind can leak into the decoding of the next one.
-/
namespace Tpp.Props.C05
open Tpp Tpp.Ref

/-- any concatenation of well-formed items is reported as exactly one token per item, in order, carrying
    the right key, modifiers, repeat count, mouse button, zero-based position and the original sequence -/
theorem C05_items (st : PState) (hidle : st.ctl = .idle) (items : List Item)
    (hwf : ∀ it ∈ items, it.wf = true) (hadj : Adjacent items) :
    tokens st (items.flatMap Item.bytes) = items.map Item.expected :=
  items_decode items hwf hadj st (Or.inl hidle)

/-- the same from the two look-ahead states a bare CR / LF leaves behind, as long as the stream does not
    continue with the partner byte (which would make it the two-byte form of the same Enter) -/
theorem C05_items_after_enter (st : PState) (items : List Item)
    (hst : (st.ctl = .cr ∧ (items.flatMap Item.bytes).head? ≠ some 0x0A ∧ (items.flatMap Item.bytes).head? ≠ some 0x00)
           ∨ (st.ctl = .lf ∧ (items.flatMap Item.bytes).head? ≠ some 0x0D))
    (hwf : ∀ it ∈ items, it.wf = true) (hadj : Adjacent items) :
    tokens st (items.flatMap Item.bytes) = items.map Item.expected :=
  items_decode items hwf hadj st (Or.inr hst)

/-- one item, any scratch: its token, and the decoder is ready for the next item -/
theorem C05_item (st : PState) (hidle : st.ctl = .idle) (it : Item) (hwf : it.wf = true) :
    tokens st it.bytes = [it.expected]
    ∧ ((feedAll it.bytes st).ctl = .idle ∨ (it = .enter .cr ∧ (feedAll it.bytes st).ctl = .cr)
       ∨ (it = .enter .lf ∧ (feedAll it.bytes st).ctl = .lf)) := by
  have h := item_from_idle it hwf st hidle
  refine ⟨h.1, ?_⟩
  rw [h.2]
  cases it with
  | enter f => cases f <;> simp [afterCtl]
  | _ => simp [afterCtl]

/-- the decoding of an item never depends on the items that preceded it -/
theorem C05_history_independent (st : PState) (hidle : st.ctl = .idle) (before : List Item) (it : Item)
    (hwf : ∀ x ∈ before ++ [it], x.wf = true) (hadj : Adjacent (before ++ [it])) :
    tokens st ((before ++ [it]).flatMap Item.bytes) = before.map Item.expected ++ [it.expected] := by
  rw [C05_items st hidle _ hwf hadj]; simp

/-- the library's modifier table is xterm's rule `parameter = 1 + (shift·1 + alt·2 + ctrl·4 + meta·8)` -/
theorem C05_modifier_rule (m : Mods) : convertModifier (decDigits m.code) = m.bits := convertModifier_code m

/-- the library's three key tables are the xterm tables -/
theorem C05_key_tables :
    (∀ f : Byte, lookupByte f cursorTable = (csiKeyOfFinal f).map CsiKey.vk)
    ∧ (∀ f : Byte, lookupByte f ss3Table = (ss3KeyOfFinal f).map Ss3Key.vk)
    ∧ (∀ n : Nat, lookupInt (n : Int) keypadTable = (padKeyOfCode n).map PadKey.vk) := by
  refine ⟨?_, lookup_ss3_eq, lookup_keypad_eq⟩
  decide +kernel

/-- the mouse button table and the coordinate offset -/
theorem C05_mouse_table (b : Button) (x : Nat) (hx : x ≤ 222) :
    mouseOf (UInt8.ofNat (32 + b.code)) = b.ev ∧ mouseCoord (UInt8.ofNat (32 + (x + 1))) = (x : Int) :=
  ⟨mouseOf_button b, mouseCoord_enc x hx⟩

/-- a scratch state full of leftovers: meta flag set, a private marker, an argument list, an SS3 initializer,
    a mouse button and position -/
def dirty : PState :=
  { ctl := .idle, initializer := 0x4F, extender := 0x3F, metaFlag := true, mouseEv := .wheelUp,
    mouseX := 7, mouseY := 9, arg := [0x32], args := [[0x31], []] }

/-- a stream with every kind of item -/
def sample : List Item :=
  [ .char 0x61, .enter .cr, .csiKey (.seven true) .up (some 5) (some { shift := true, ctrl := true }),
    .enter .lf, .ss3Key .eight .f1, .keypad (.seven false) .f12 (some { metaKey := true }),
    .csi .eight (some .question) [some 1, none, some 4294967297] 0x68, .enter .crlf,
    .mouse (.seven false) .wheelDown 0 222, .char 0x00, .enter .crnul, .enter .lfcr,
    .csi (.seven false) none [some 200] 0x7E ]

-- non-vacuity: the hypotheses of C05_items are satisfiable by a dirty state and a stream of all item kinds
example : dirty.ctl = .idle ∧ (∀ it ∈ sample, it.wf = true) ∧ Adjacent sample ∧ sample.length = 13 := by
  refine ⟨rfl, ?_, ?_, rfl⟩
  · decide
  · unfold Adjacent; decide
-- … and the after-Enter variant: a decoder that has just seen a bare CR, stream starting with a letter
example : ({ dirty with ctl := .cr } : PState).ctl = .cr ∧ ([Item.char 0x61].flatMap Item.bytes).head? ≠ some 0x0A := by
  decide
-- the conclusion on a concrete instance (kernel evaluation of model and specification)
example : tokens dirty ([Item.enter .cr, .ss3Key (.seven true) .up, .mouse .eight .left 3 4].flatMap Item.bytes)
    = [.key { key := Consts.vk_enter, mods := 0, rep := 1, seq := .byte 0x0A },
       .key { key := Consts.vk_cursor_up, mods := Consts.vkmod_meta, rep := 1,
              seq := .ctrl { initiator := 0x4F, command := 0x41, metaFlag := true, args := [[]], extender := 0 } },
       .mouse .leftDown 3 4] := by decide

end Tpp.Props.C05
