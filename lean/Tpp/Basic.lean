namespace Tpp

abbrev Byte := UInt8

instance {p : UInt8 → Prop} [DecidablePred p] : Decidable (∀ b, p b) :=
  decidable_of_iff (∀ i : Fin 256, p (UInt8.ofFin i))
    ⟨fun h b => by simpa using h b.toFin, fun h i => h _⟩

def isDigit (b : Byte) : Bool := 48 ≤ b && b ≤ 57
def digitByte (d : Nat) : Byte := UInt8.ofNat (48 + d)
def digitVal (b : Byte) : Nat := b.toNat - 48

def decDigits (n : Nat) : List Byte :=
  if n < 10 then [digitByte n] else decDigits (n / 10) ++ [digitByte (n % 10)]
decreasing_by omega

def parseDec : List Byte → Nat → Nat
  | [], acc => acc
  | b :: bs, acc => parseDec bs (acc * 10 + digitVal b)

theorem parseDec_append (acc : Nat) (xs ys : List Byte) :
    parseDec (xs ++ ys) acc = parseDec ys (parseDec xs acc) := by
  induction xs generalizing acc with
  | nil => rfl
  | cons x xs ih => simp [parseDec, ih]

theorem digitVal_digitByte (d : Nat) (h : d < 10) : digitVal (digitByte d) = d := by
  simp [digitByte, digitVal]; omega

theorem isDigit_digitByte (d : Nat) (h : d < 10) : isDigit (digitByte d) = true := by
  have : ∀ d : Fin 10, isDigit (digitByte d.val) = true := by decide +kernel
  exact this ⟨d, h⟩

theorem parseDec_decDigits (n : Nat) : ∀ acc, parseDec (decDigits n) acc = acc * 10 ^ (decDigits n).length + n := by
  induction n using Nat.strongRecOn with
  | _ n ih =>
    intro acc
    rw [decDigits]
    split
    · rename_i h
      simp [parseDec, digitVal_digitByte n h]
    · rename_i h
      have hlt : n / 10 < n := by omega
      rw [parseDec_append, ih _ hlt]
      simp [parseDec, digitVal_digitByte (n % 10) (by omega), Nat.pow_succ]
      have := Nat.div_add_mod n 10
      generalize 10 ^ (decDigits (n/10)).length = p at *
      rw [Nat.add_mul, Nat.mul_assoc]
      omega

theorem parseDec_zero_decDigits (n : Nat) : parseDec (decDigits n) 0 = n := by
  simpa using parseDec_decDigits n 0

theorem decDigits_ne_nil (n : Nat) : decDigits n ≠ [] := by
  rw [decDigits]; split <;> simp

theorem decDigits_all_digits (n : Nat) : ∀ b ∈ decDigits n, isDigit b = true := by
  induction n using Nat.strongRecOn with
  | _ n ih =>
    rw [decDigits]; split
    · rename_i h; intro b hb; simp at hb; subst hb; exact isDigit_digitByte n h
    · rename_i h; intro b hb
      simp at hb
      rcases hb with hb | hb
      · exact ih (n/10) (by omega) b hb
      · subst hb; exact isDigit_digitByte _ (by omega)

end Tpp
