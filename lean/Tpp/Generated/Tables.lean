/-! REGENERATED on every run by vlib/tables.py from the table declarations in /repo/src/**/*.cpp.
Each row is printed by a C++ program that contains the declaration text verbatim. Do not edit. -/
namespace Tpp.Tables

/-- `character_set_strings` in src/character_set.cpp (second column: text, as bytes) -/
def character_set_strings : List (Nat × List Nat) := [(0, [100, 101, 99]), (0, [100, 101, 99]), (1, [100, 101, 99, 43]), (2, [100, 101, 99, 43, 103, 114]), (3, [100, 101, 99, 116, 101, 99]), (4, [101, 110, 95, 117, 107]), (5, [101, 110, 95, 117, 115]), (6, [110, 108]), (7, [102, 105]), (8, [102, 114]), (9, [102, 114, 95, 99, 97]), (10, [100, 101]), (11, [105, 116]), (12, [100, 97]), (13, [112, 116]), (14, [101, 115]), (15, [115, 117]), (16, [100, 101, 95, 99, 104]), (17, [115, 99, 111]), (18, [117])]
/-- `colour_to_text` in src/colour.cpp (second column: text, as bytes) -/
def colour_to_text : List (Nat × List Nat) := [(0, [98, 108, 97, 99, 107]), (1, [114, 101, 100]), (2, [103, 114, 101, 101, 110]), (3, [121, 101, 108, 108, 111, 119]), (4, [98, 108, 117, 101]), (5, [109, 97, 103, 101, 110, 116, 97]), (6, [99, 121, 97, 110]), (7, [119, 104, 105, 116, 101]), (9, [100, 101, 102, 97, 117, 108, 116])]
/-- `cursor_movement_commands` in src/detail/well_known_virtual_key.cpp -/
def cursor_movement_commands : List (Nat × Nat) := [(65, 128), (66, 129), (67, 131), (68, 130), (72, 132), (70, 134), (73, 9), (90, 137)]
/-- `keypad_commands` in src/detail/well_known_virtual_key.cpp -/
def keypad_commands : List (Nat × Nat) := [(1, 132), (2, 133), (3, 127), (4, 134), (5, 135), (6, 136), (11, 139), (12, 140), (13, 141), (14, 142), (15, 143), (17, 144), (18, 145), (19, 146), (20, 147), (21, 148), (23, 149), (24, 150)]
/-- `modifier_mappings` in src/detail/well_known_virtual_key.cpp -/
def modifier_mappings : List (Nat × Nat) := [(2, 1), (5, 2), (3, 4), (9, 8), (4, 5), (6, 3), (7, 6), (8, 7), (10, 9), (13, 10), (11, 12), (12, 13), (14, 11), (15, 14), (16, 15)]
/-- `mouse_event_table` in src/detail/parser.cpp -/
def mouse_event_table : List (Nat × Nat) := [(0, 0), (1, 1), (2, 2), (3, 3), (32, 4), (64, 5), (65, 6)]
/-- `ss3_commands` in src/detail/well_known_virtual_key.cpp -/
def ss3_commands : List (Nat × Nat) := [(65, 128), (66, 129), (67, 131), (68, 130), (72, 132), (70, 134), (73, 9), (77, 138), (80, 139), (81, 140), (82, 141), (83, 142)]

end Tpp.Tables
