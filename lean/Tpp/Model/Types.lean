import Tpp.Basic
import Tpp.Generated.Consts
/-!
Value types of terminalpp as plain Lean data.

* `charset`/`character_set`  → `Charset` (19 constructors) with `Charset.code` = the enumerator's numeric
  value *as regenerated from the headers*.
* `glyph` (union of `byte`/`byte[3]` + charset) → three storage bytes + charset.
* `colour` (variant of four structs) → four constructors in variant-index order.
* effects → small enumerations whose `.code` is the stored enum value (regenerated).
-/
namespace Tpp

inductive Charset
  | dec | decSupplementary | decSupplementaryGraphics | decTechnical | uk | usAscii | dutch
  | finnish | french | frenchCanadian | german | italian | danish | portuguese | spanish
  | swedish | swiss | sco | utf8
deriving DecidableEq, Repr, Inhabited

def Charset.all : List Charset :=
  [.dec, .decSupplementary, .decSupplementaryGraphics, .decTechnical, .uk, .usAscii, .dutch,
   .finnish, .french, .frenchCanadian, .german, .italian, .danish, .portuguese, .spanish,
   .swedish, .swiss, .sco, .utf8]

/-- numeric value of the enumerator (regenerated from `character_set.hpp`) -/
def Charset.code : Charset → Nat
  | .dec => Consts.cs_dec | .decSupplementary => Consts.cs_dec_supplementary
  | .decSupplementaryGraphics => Consts.cs_dec_supplementary_graphics
  | .decTechnical => Consts.cs_dec_technical | .uk => Consts.cs_uk | .usAscii => Consts.cs_us_ascii
  | .dutch => Consts.cs_dutch | .finnish => Consts.cs_finnish | .french => Consts.cs_french
  | .frenchCanadian => Consts.cs_french_canadian | .german => Consts.cs_german
  | .italian => Consts.cs_italian | .danish => Consts.cs_danish | .portuguese => Consts.cs_portuguese
  | .spanish => Consts.cs_spanish | .swedish => Consts.cs_swedish | .swiss => Consts.cs_swiss
  | .sco => Consts.cs_sco | .utf8 => Consts.cs_utf8

def Charset.ofCode (n : Nat) : Option Charset := Charset.all.find? (fun c => c.code == n)

/-- `character_set{}` -/
def Charset.default : Charset := (Charset.ofCode Consts.cs_default).getD .usAscii

theorem Charset.mem_all (c : Charset) : c ∈ Charset.all := by cases c <;> decide
theorem Charset.ofCode_code (c : Charset) : Charset.ofCode c.code = some c := by cases c <;> decide
theorem Charset.code_injective (a b : Charset) (h : a.code = b.code) : a = b := by
  have := Charset.ofCode_code a
  rw [h, Charset.ofCode_code b] at this
  exact (Option.some.inj this).symm

structure Glyph where
  b0 : Byte := 0x20
  b1 : Byte := 0
  b2 : Byte := 0
  cs : Charset := .usAscii
deriving DecidableEq, Repr, Inhabited

/-- `colour` = `std::variant<low_colour, high_colour, greyscale_colour, true_colour>`; stored values -/
inductive Colour
  | low (v : Byte) | high (v : Byte) | grey (v : Byte) | rgb (r g b : Byte)
deriving DecidableEq, Repr, Inhabited

inductive Intensity | bold | faint | normal deriving DecidableEq, Repr, Inhabited
inductive Underlining | underlined | notUnderlined deriving DecidableEq, Repr, Inhabited
inductive Polarity | negative | positive deriving DecidableEq, Repr, Inhabited
inductive Blinking | blink | steady deriving DecidableEq, Repr, Inhabited

def Intensity.code : Intensity → Nat
  | .bold => Consts.intensity_bold | .faint => Consts.intensity_faint | .normal => Consts.intensity_normal
def Underlining.code : Underlining → Nat
  | .underlined => Consts.underlining_underlined | .notUnderlined => Consts.underlining_not_underlined
def Polarity.code : Polarity → Nat
  | .negative => Consts.polarity_negative | .positive => Consts.polarity_positive
def Blinking.code : Blinking → Nat
  | .blink => Consts.blinking_blink | .steady => Consts.blinking_steady

def Colour.default : Colour := .low (UInt8.ofNat Consts.low_colour_default)

/-- `attribute`: field order is the declaration order (it is the comparison and hashing order) -/
structure Attr where
  fg : Colour := Colour.default
  bg : Colour := Colour.default
  intensity : Intensity := .normal
  underlining : Underlining := .notUnderlined
  polarity : Polarity := .positive
  blinking : Blinking := .steady
deriving DecidableEq, Repr, Inhabited

structure Element where
  glyph : Glyph := {}
  attr : Attr := {}
deriving DecidableEq, Repr, Inhabited

structure Point where
  x : Int
  y : Int
deriving DecidableEq, Repr, Inhabited

structure Extent where
  width : Int
  height : Int
deriving DecidableEq, Repr, Inhabited

structure Rectangle where
  origin : Point
  size : Extent
deriving DecidableEq, Repr, Inhabited

/-- the `behaviour` flags the library reads -/
structure Behaviour where
  basicMouse : Bool := false
  allMouse : Bool := false
  titleBel : Bool := false
  titleSt : Bool := false
  unicodeAll : Bool := false
deriving DecidableEq, Repr, Inhabited

end Tpp
