import Tpp.Model.Terminal
/-! `terminalpp::string` as `List Element`: construction from bytes, `to_string`, concatenation. -/
namespace Tpp

/-- `string(char const*, len)`: one default-attribute US-ASCII element per byte -/
def TString.ofBytes (bs : List Byte) : List Element := bs.map fun b => { glyph := { b0 := b } }

/-- what `to_string` appends for one element: a UTF-8 glyph contributes its first byte and the following
    storage bytes up to the first NUL; any other glyph its single character -/
def Glyph.toStringBytes (g : Glyph) : List Byte :=
  if g.cs = .utf8 then
    g.b0 :: (if g.b1 = 0 then [] else g.b1 :: (if g.b2 = 0 then [] else [g.b2]))
  else [g.b0]

/-- `to_string(terminalpp::string)` -/
def TString.toString (es : List Element) : List Byte := es.flatMap fun e => e.glyph.toStringBytes

/-- output of `terminal << string` split into control segments and glyph payload segments -/
inductive Seg
  | ctl (bs : List Byte)
  | payload (bs : List Byte)
deriving DecidableEq, Repr

def Seg.bytes : Seg → List Byte
  | .ctl bs => bs
  | .payload bs => bs
def Seg.payloadBytes : Seg → List Byte
  | .ctl _ => []
  | .payload bs => bs

/-- `write_element` as segments -/
def rawElementSegs (beh : Behaviour) (s : TermState) (e : Element) : List Seg :=
  [.ctl (elementCtl beh s.last e), .payload e.glyph.payload]

def rawElementsSegs (beh : Behaviour) : TermState → List Element → List Seg
  | _, [] => []
  | s, e :: es => rawElementSegs beh s e ++ rawElementsSegs beh (rawElement beh s e).1 es

/-- `terminal << string` as segments -/
def writeStringSegs (beh : Behaviour) (s : TermState) (es : List Element) : List Seg :=
  .ctl (defaultAttr s).2 :: rawElementsSegs beh (defaultAttr s).1 es

end Tpp
