import Tpp.Model.Palette
import Tpp.Generated.Tables
/-!
The stream inserters of the colour types (`src/colour.cpp`): what `out << colour` appends to a stream.
`fmt::format` produces the text, so the stream's number base, `showbase`, `showpos`, `uppercase` and adjustment
flags play no part (a pending field WIDTH would pad the text as for any string and is not modelled).
The names of the low colours are the regenerated table `Tables.colour_to_text` of `operator<<(low_colour)`.
-/
namespace Tpp

def hexUpper (n : Nat) : Byte := if n < 10 then UInt8.ofNat (48 + n) else UInt8.ofNat (55 + n)
/-- `{:02X}` of a byte -/
def hex2Upper (b : Byte) : List Byte := [hexUpper (b.toNat / 16), hexUpper (b.toNat % 16)]
/-- `{:02}` of a small number -/
def dec2 (n : Nat) : List Byte := if n < 10 then 0x30 :: decDigits n else decDigits n

/-- `operator<<(ostream&, low_colour)`: the name from the table, `unknown` otherwise -/
def showLowColour (v : Byte) : List Byte :=
  match Tables.colour_to_text.find? (fun p => p.1 = v.toNat) with
  | some p => p.2.map UInt8.ofNat
  | none => [0x75, 0x6E, 0x6B, 0x6E, 0x6F, 0x77, 0x6E]

/-- `operator<<(ostream&, high_colour)`: `#` and the three components in decimal -/
def showHighColour (v : Byte) : List Byte :=
  0x23 :: (decDigits (highRed v).toNat ++ decDigits (highGreen v).toNat ++ decDigits (highBlue v).toNat)

/-- `operator<<(ostream&, greyscale_colour)`: `#` and the shade, two decimal digits -/
def showGreyColour (v : Byte) : List Byte := 0x23 :: dec2 (greyComponent v).toNat

/-- `operator<<(ostream&, true_colour)`: `#RRGGBB` -/
def showTrueColour (r g b : Byte) : List Byte := 0x23 :: (hex2Upper r ++ hex2Upper g ++ hex2Upper b)

def showColourText : Colour → List Byte
  | .low v => showLowColour v
  | .high v => showHighColour v
  | .grey v => showGreyColour v
  | .rgb r g b => showTrueColour r g b

end Tpp
