import Tpp.Model.Palette
import Tpp.Generated.Tables
import Tpp.Model.Tokens
/-!
The stream inserters of the colour types (`src/colour.cpp`): what `out << colour` appends to a stream.
`fmt::format` produces the text, so the stream's number base, `showbase`, `showpos`, `uppercase` and adjustment
flags play no part (a pending field WIDTH would pad the text as for any string and is not modelled).
The names of the low colours are the regenerated table `Tables.colour_to_text` of `operator<<(low_colour)`.
-/
namespace Tpp

def hexUpper (n : Nat) : Byte := if n < 10 then UInt8.ofNat (48 + n) else UInt8.ofNat (55 + n)
/-- `{:02X}` of a byte -/
def hex2Upper (b : Byte) : List Byte := [hexUpper (b.toNat / 16), hexUpper (b.toNat % 16)]
/-- `{:02}` of a small number -/
def dec2 (n : Nat) : List Byte := if n < 10 then 0x30 :: decDigits n else decDigits n

/-- `operator<<(ostream&, low_colour)`: the name from the table, `unknown` otherwise -/
def showLowColour (v : Byte) : List Byte :=
  match Tables.colour_to_text.find? (fun p => p.1 = v.toNat) with
  | some p => p.2.map UInt8.ofNat
  | none => [0x75, 0x6E, 0x6B, 0x6E, 0x6F, 0x77, 0x6E]

/-- `operator<<(ostream&, high_colour)`: `#` and the three components in decimal -/
def showHighColour (v : Byte) : List Byte :=
  0x23 :: (decDigits (highRed v).toNat ++ decDigits (highGreen v).toNat ++ decDigits (highBlue v).toNat)

/-- `operator<<(ostream&, greyscale_colour)`: `#` and the shade, two decimal digits -/
def showGreyColour (v : Byte) : List Byte := 0x23 :: dec2 (greyComponent v).toNat

/-- `operator<<(ostream&, true_colour)`: `#RRGGBB` -/
def showTrueColour (r g b : Byte) : List Byte := 0x23 :: (hex2Upper r ++ hex2Upper g ++ hex2Upper b)

def showColourText : Colour → List Byte
  | .low v => showLowColour v
  | .high v => showHighColour v
  | .grey v => showGreyColour v
  | .rgb r g b => showTrueColour r g b

/-! ### The other stream inserters (`src/{glyph,character_set,effect,attribute,element,string,point,extent,rectangle,
mouse,control_sequence,virtual_key}.cpp`).  Literal text is written as strings; `fmt::format` output is computed. -/

def lit (s : String) : List Byte := s.toUTF8.toList

/-- `{}` of an `int` -/
def showInt (i : Int) : List Byte := if i < 0 then 0x2D :: decDigits i.natAbs else decDigits i.toNat

/-- upper-case hex digits of a number (at least one) -/
def hexDigitsUpper (n : Nat) : List Byte :=
  (Nat.toDigits 16 n).map fun c => if c.isLower then UInt8.ofNat (c.toNat - 32) else UInt8.ofNat c.toNat
/-- `{:0wX}` -/
def hexPadUpper (w n : Nat) : List Byte :=
  let ds := hexDigitsUpper n
  List.replicate (w - ds.length) 0x30 ++ ds

/-- `operator<<(ostream&, character_set)`: the name from the regenerated table, nothing when there is none -/
def printCharset (cs : Charset) : List Byte :=
  match Tables.character_set_strings.find? (fun p => p.1 = cs.code) with
  | some p => p.2.map UInt8.ofNat
  | none => []

/-- `is_printable`: the four regenerated 256-entry tables of src/glyph.cpp; every other set uses the DEC one -/
def isPrintable (cs : Charset) (c : Byte) : Bool :=
  let tbl := match cs with
    | .uk => Tables.is_printable_uk
    | .usAscii => Tables.is_printable_us_ascii
    | .sco => Tables.is_printable_sco
    | _ => Tables.is_printable_dec
  tbl.getD c.toNat 0 != 0

/-- `output_charset_and_character` -/
def printCharsetAndCharacter (g : Glyph) : List Byte :=
  (if g.cs ≠ Charset.default then printCharset g.cs ++ [0x3A] else []) ++
  (if g.b0 = 0x0D then lit "\\r" else if g.b0 = 0x0A then lit "\\n" else if g.b0 = 0x09 then lit "\\t"
   else if isPrintable g.cs g.b0 then [g.b0] else lit "0x" ++ hexPadUpper 2 g.b0.toNat)

/-- `utf8_decode` of src/glyph.cpp (0 for a lead byte that is none) -/
def utf8Decode (g : Glyph) : Nat :=
  let a := g.b0.toNat; let b := g.b1.toNat; let c := g.b2.toNat
  if a / 128 = 0 then a
  else if a / 32 = 6 then (a % 32) * 64 + b % 64
  else if a / 16 = 14 then (a % 16) * 4096 + (b % 64) * 64 + c % 64
  else 0

/-- `operator<<(ostream&, glyph)` -/
def printGlyph (g : Glyph) : List Byte :=
  if g.cs = .utf8 ∧ ¬ g.b0.toNat ≤ 0x7F then lit "U+" ++ hexPadUpper 4 (utf8Decode g) else printCharsetAndCharacter g

def printIntensity : Intensity → List Byte
  | .normal => lit "normal" | .bold => lit "bold" | .faint => lit "faint"
def printUnderlining : Underlining → List Byte
  | .underlined => lit "underlined" | .notUnderlined => lit "not underlined"
def printPolarity : Polarity → List Byte
  | .positive => lit "positive" | .negative => lit "negative"
def printBlinking : Blinking → List Byte
  | .blink => lit "blinking" | .steady => lit "steady"

/-- `operator<<(ostream&, attribute)`: the non-default members, separated by commas -/
def printAttr (a : Attr) : List Byte :=
  let parts : List (List Byte) :=
    (if a.fg ≠ Colour.default then [lit "foreground[" ++ showColourText a.fg ++ lit "]"] else []) ++
    (if a.bg ≠ Colour.default then [lit "background[" ++ showColourText a.bg ++ lit "]"] else []) ++
    (if a.intensity ≠ .normal then [printIntensity a.intensity] else []) ++
    (if a.underlining ≠ .notUnderlined then [printUnderlining a.underlining] else []) ++
    (if a.polarity ≠ .positive then [printPolarity a.polarity] else []) ++
    (if a.blinking ≠ .steady then [printBlinking a.blinking] else [])
  (parts.intersperse (lit ",")).flatten

/-- `operator<<(ostream&, element)` -/
def printElement (e : Element) : List Byte :=
  lit "glyph[" ++ printGlyph e.glyph ++ lit "]" ++
  (if e.attr ≠ {} then lit ",attribute[" ++ printAttr e.attr ++ lit "]" else [])

/-- `operator<<(ostream&, string)` -/
def printString (es : List Element) : List Byte :=
  ((es.map fun e => lit "element[" ++ printElement e ++ lit "]").intersperse (lit ",")).flatten

def printPoint (p : Point) : List Byte := lit "point(" ++ showInt p.x ++ lit "," ++ showInt p.y ++ lit ")"
def printExtent (e : Extent) : List Byte := lit "extent(" ++ showInt e.width ++ lit "," ++ showInt e.height ++ lit ")"
def printRectangle (r : Rectangle) : List Byte :=
  lit "rectangle(" ++ printPoint r.origin ++ lit ", " ++ printExtent r.size ++ lit ")"

/-- `operator<<(ostream&, mouse::event)`; the action names are the arms of its `switch`, regenerated from src/mouse.cpp
    (`Tables.mouse_printed`); any other stored action value prints `unk` -/
def printMouse (ev : MouseEvent) : List Byte :=
  lit "mouse_event[" ++ printPoint ev.position ++ lit ", " ++
  (match Tables.mouse_printed.find? (fun p => p.1 = ev.action) with
   | some p => p.2.map UInt8.ofNat
   | none => lit "unk") ++ lit "]"

/-- `operator<<(ostream&, control_sequence)`: the non-default members, separated by `, ` -/
def printCtrlSeq (c : ControlSequence) : List Byte :=
  let parts : List (List Byte) :=
    (if c.initiator ≠ 0 then [lit "initiator:'" ++ [c.initiator] ++ lit "'"] else []) ++
    (if c.command ≠ 0 then [lit "command:'" ++ [c.command] ++ lit "'"] else []) ++
    (if c.«meta» then [lit "meta"] else []) ++
    (if c.arguments ≠ [] then [lit "args:\"" ++ (c.arguments.intersperse [0x3B]).flatten ++ lit "\""] else []) ++
    (if c.extender ≠ 0 then [lit "extender:'" ++ [c.extender] ++ lit "'"] else [])
  lit "control_sequence[" ++ (parts.intersperse (lit ", ")).flatten ++ lit "]"

/-- `operator<<(ostream&, vk)`: the arms of its `switch` are regenerated from src/virtual_key.cpp (`Tables.vk_printed`:
    the three escaped control characters and the names of the abstract keys); other control keys print as `'\\xNN'` -/
def printVk (k : Nat) : List Byte :=
  if k ≤ 0x1F ∨ (Consts.vk_del ≤ k ∧ k ≤ Consts.vk_f12) then
    match Tables.vk_printed.find? (fun p => p.1 = k) with
    | some p => p.2.map UInt8.ofNat
    | none => lit "'\\x" ++ hexPadUpper 2 (k % 256) ++ lit "'"
  else lit "'" ++ [UInt8.ofNat k] ++ lit "'"

def printVkMods (m : Nat) : List Byte :=
  let parts : List (List Byte) :=
    (if m.testBit 0 then [lit "shift"] else []) ++ (if m.testBit 1 then [lit "ctrl"] else []) ++
    (if m.testBit 2 then [lit "alt"] else []) ++ (if m.testBit 3 then [lit "meta"] else [])
  (parts.intersperse (lit "|")).flatten

/-- `operator<<(ostream&, virtual_key)` -/
def printVKey (v : VirtualKey) : List Byte :=
  let parts : List (List Byte) :=
    (if v.key ≠ 0 then [lit "vk:" ++ printVk v.key.toNat] else []) ++
    (if v.modifiers ≠ 0 then [printVkMods v.modifiers.toNat] else []) ++
    (if v.repeatCount ≠ 0 then [lit "repeat:" ++ showInt v.repeatCount] else []) ++
    (if v.sequence ≠ .raw 0 then [lit "seq:" ++ (match v.sequence with | .raw b => [b] | .control c => printCtrlSeq c)] else [])
  lit "virtual_key[" ++ (parts.intersperse (lit ", ")).flatten ++ lit "]"

end Tpp
