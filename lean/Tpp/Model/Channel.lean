import Tpp.Model.Terminal
/-!
Channels as byte sinks.  `terminal::write(bytes)` and every manipulator hand spans to
`channel.write`; the stdout channel forwards each span to `std::cout`.
-/
namespace Tpp

/-- a channel: some state and what `write(data)` does to it -/
structure Sink (α : Type) where
  init : α
  write : α → List Byte → α

/-- the capturing channel used by the harness and the test-suite: appends to a buffer -/
def bufferSink : Sink (List Byte) := ⟨[], fun buf d => buf ++ d⟩

/-- `stdout_channel`: `write(data)` = `std::cout.write(data.data(), data.size())`; the observable state is
    the byte stream that has reached standard output -/
def stdoutSink : Sink (List Byte) := ⟨[], fun out d => out ++ d⟩

/-- the spans a terminal hands to its channel for a history: one `write` per operation output
    (the exact chunking inside one operation is not observable through a byte stream) -/
def writesOf (beh : Behaviour) : TermState → List Op → List (List Byte)
  | _, [] => []
  | s, op :: ops => (step beh s op).2 :: writesOf beh (step beh s op).1 ops

/-- a terminal bound to a sink -/
def runOn {α : Type} (k : Sink α) (beh : Behaviour) (s : TermState) (ops : List Op) : α :=
  (writesOf beh s ops).foldl k.write k.init

end Tpp
