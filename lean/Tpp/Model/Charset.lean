import Tpp.Model.Types
/-! `lookup_character_set` / `encode_character_set` over the regenerated tables. -/
namespace Tpp

/-- `lookup_character_set(bytes code)` -/
def lookupCharset (code : List Byte) : Option Charset :=
  match code with
  | [] => none
  | c0 :: rest =>
    if c0 = Consts.charset_extender then
      match rest with
      | [] => none
      | c1 :: _ =>
        (Consts.extended_charset_map.find? (fun r => c1 == r.2.2)).bind (fun r => Charset.ofCode r.1)
    else
      (Consts.charset_map.find? (fun r => c0 == r.2)).bind (fun r => Charset.ofCode r.1)

def encodeCharsetRow (code : Nat) : Option (List Byte) :=
  match Consts.charset_map.find? (fun r => r.1 == code) with
  | some r => some [r.2]
  | none =>
    match Consts.extended_charset_map.find? (fun r => r.1 == code) with
    | some r => some [r.2.1, r.2.2]
    | none => none

/-- `encode_character_set(set)`; a set without a row is encoded as US-ASCII (the C++ recurses once) -/
def encodeCharset (cs : Charset) : List Byte :=
  match encodeCharsetRow cs.code with
  | some bs => bs
  | none => (encodeCharsetRow Charset.usAscii.code).getD []

end Tpp
