import Tpp.Model.Charset
/-!
`detail/element_difference.hpp` and the glyph writer of `manip/write_element.cpp`
as functions returning the bytes handed to the write continuation.
-/
namespace Tpp

/-- `fmt::format("{}", int)` -/
def decInt (i : Int) : List Byte := if i < 0 then 0x2D :: decDigits (-i).toNat else decDigits i.toNat

/-- parameter chunks joined by `ansi::ps` (the `change_appended` separator logic) -/
def joinParams : List Nat → List Byte
  | [] => []
  | [p] => decDigits p
  | p :: q :: ps => decDigits p ++ [Consts.ps] ++ joinParams (q :: ps)

def csiBytes : List Byte := Consts.control7_csi
def oscBytes : List Byte := Consts.control7_osc
def stBytes : List Byte := Consts.control7_st
/-- `dec_pm`: CSI followed by the private-mode marker -/
def decPmBytes : List Byte := csiBytes ++ [Consts.dec_private_mode.headD 0]

/-- `default_attribute`: CSI `0` `m` -/
def sgr0 : List Byte := csiBytes ++ [0x30, Consts.csi_select_graphics_rendition]

def designateG0 (cs : Charset) : List Byte := Consts.set_charset_g0 ++ encodeCharset cs
def selectUtf8 : List Byte := Consts.select_utf8_character_set
def selectDefault : List Byte := Consts.select_default_character_set

/-- `change_charset(source, dest, behaviour, wc)` -/
def changeCharset (beh : Behaviour) (src dst : Charset) : List Byte :=
  if src = dst then []
  else if dst = .utf8 then
    (if beh.unicodeAll then [] else (if src = .usAscii then [] else designateG0 .usAscii)) ++ selectUtf8
  else (if src = .utf8 then selectDefault else []) ++ designateG0 dst

/-- `change_effect` for the intensity (the one effect that "has normal") -/
def effIntensity (s d : Intensity) : List Nat :=
  if s = d then [] else (if s ≠ .normal ∧ d ≠ .normal then [Intensity.normal.code] else []) ++ [d.code]
def effPolarity (s d : Polarity) : List Nat := if s = d then [] else [d.code]
def effUnderlining (s d : Underlining) : List Nat := if s = d then [] else [d.code]
def effBlinking (s d : Blinking) : List Nat := if s = d then [] else [d.code]

/-- the parameter text written by `change_foreground_colour` for `dest` -/
def fgParams : Colour → List Nat
  | .low v => [v.toNat + Consts.foreground_colour_base]
  | .high v => [38, 5, v.toNat]
  | .grey v => [38, 5, v.toNat]
  | .rgb r g b => [38, 2, r.toNat, g.toNat, b.toNat]
def bgParams : Colour → List Nat
  | .low v => [v.toNat + Consts.background_colour_base]
  | .high v => [48, 5, v.toNat]
  | .grey v => [48, 5, v.toNat]
  | .rgb r g b => [48, 2, r.toNat, g.toNat, b.toNat]

/-- the SGR parameters `change_attribute` emits between CSI and `m`, in emission order -/
def diffParams (s d : Attr) : List Nat :=
  effIntensity s.intensity d.intensity ++ (effPolarity s.polarity d.polarity ++
  (effUnderlining s.underlining d.underlining ++ (effBlinking s.blinking d.blinking ++
  ((if s.fg = d.fg then [] else fgParams d.fg) ++ (if s.bg = d.bg then [] else bgParams d.bg)))))

/-- `change_attribute(source, dest, behaviour, wc)` -/
def changeAttribute (src dst : Attr) : List Byte :=
  if src = dst then []
  else if dst = {} then sgr0
  else csiBytes ++ joinParams (diffParams src dst) ++ [Consts.csi_select_graphics_rendition]

/-- `last_utf8_index` of `write_utf8_glyph` -/
def Glyph.utf8Index (g : Glyph) : Nat :=
  if g.b0 = 0 then 0 else if g.b0 &&& 0x80 = 0 then 0
  else if g.b1 = 0 then 1 else if g.b1 &&& 0x80 = 0 then 1
  else if g.b2 = 0 then 2 else if g.b2 &&& 0x80 = 0 then 2 else 3

/-- `write_single_element`: the glyph bytes that go on the wire -/
def Glyph.payload (g : Glyph) : List Byte :=
  if g.cs = .utf8 then [g.b0, g.b1, g.b2].take (max g.utf8Index 1) else [g.b0]

end Tpp
