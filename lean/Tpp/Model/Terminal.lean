import Tpp.Model.Encoder
/-!
`terminal_state`, the built-in manipulators (`src/manip/*.cpp`) and `terminal::operator<<`,
`terminal::set_size` as a step function `TermState → Op → TermState × List Byte`.
-/
namespace Tpp

structure TermState where
  size : Extent := ⟨0, 0⟩
  last : Option Element := none
  cursor : Option Point := none
  saved : Option Point := none
  visible : Option Bool := none
deriving DecidableEq, Repr, Inhabited

inductive EraseKind | display | above | below | line | lineLeft | lineRight
deriving DecidableEq, Repr, Inhabited

inductive Op
  | writeElement (e : Element)          -- terminal << element
  | writeString (es : List Element)     -- terminal << string
  | rawElement (e : Element)            -- terminal << write_element(e)             (manipulator alone)
  | defaultAttr                         -- terminal << write_optional_default_attribute()
  | moveCursor (p : Point)
  | hideCursor | showCursor | saveCursor | restoreCursor
  | erase (k : EraseKind)
  | enableMouse | disableMouse
  | setTitle (t : List Byte)
  | normalBuffer | altBuffer
  | setSize (e : Extent)                -- terminal.set_size(e)
  | rawWrite (bs : List Byte)           -- terminal.write(bytes): handed to the channel unchanged
  | input (bs : List Byte)              -- bytes arriving on the INPUT side between two output operations: no effect here
deriving DecidableEq, Repr, Inhabited

-- ---------------------------------------------------------------- cursor.cpp
def writeCUP (d : Point) : List Byte :=
  csiBytes ++ (if d.x ≠ 0 ∨ d.y ≠ 0 then
      (if d.x = 0 then decInt (d.y + 1) else decInt (d.y + 1) ++ [Consts.ps] ++ decInt (d.x + 1)) else [])
    ++ [Consts.csi_cursor_position]
def writeCHA (x : Int) : List Byte :=
  csiBytes ++ (if x ≠ 0 then decInt (x + 1) else []) ++ [Consts.csi_cursor_horizontal_absolute]
def writeCUU (n : Int) : List Byte := csiBytes ++ (if n ≠ 1 then decInt n else []) ++ [Consts.csi_cursor_up]
def writeCUD (n : Int) : List Byte := csiBytes ++ (if n ≠ 1 then decInt n else []) ++ [Consts.csi_cursor_down]

/-- `move_cursor::operator()`: bytes only -/
def moveCursorBytes (cur : Option Point) (d : Point) : List Byte :=
  match cur with
  | none => writeCUP d
  | some c =>
    if c = d then []
    else if c.y = d.y then writeCHA d.x
    else if c.x = d.x then (if c.y - d.y > 0 then writeCUU (c.y - d.y) else writeCUD (-(c.y - d.y)))
    else writeCUP d

def hideCursorBytes : List Byte := decPmBytes ++ Consts.dec_pm_cursor ++ Consts.dec_pm_reset
def showCursorBytes : List Byte := decPmBytes ++ Consts.dec_pm_cursor ++ Consts.dec_pm_set
def saveCursorBytes : List Byte := csiBytes ++ [Consts.csi_save_cursor_position]
def restoreCursorBytes : List Byte := csiBytes ++ [Consts.csi_restore_cursor_position]

-- ---------------------------------------------------------------- erase.cpp
def eraseSuffix : EraseKind → List Byte
  | .display => [Consts.csi_erase_in_display_all, Consts.csi_erase_in_display]
  | .above => [Consts.csi_erase_in_display_above, Consts.csi_erase_in_display]
  | .below => [Consts.csi_erase_in_display]
  | .line => [Consts.csi_erase_in_line_all, Consts.csi_erase_in_line]
  | .lineLeft => [Consts.csi_erase_in_line_left, Consts.csi_erase_in_line]
  | .lineRight => [Consts.csi_erase_in_line]

/-- `change_to_default_attribute(last_element, beh, wc)` -/
def changeToDefault (last : Option Element) : Option Element × List Byte :=
  match last with
  | some l => (some { l with attr := {} }, changeAttribute l.attr {})
  | none => (some {}, sgr0)

-- ---------------------------------------------------------------- mouse.cpp / window.cpp
def mouseBytes (beh : Behaviour) (suffix : List Byte) : List Byte :=
  if beh.basicMouse then decPmBytes ++ Consts.dec_pm_basic_mouse_tracking ++ suffix
  else if beh.allMouse then decPmBytes ++ Consts.dec_pm_all_motion_mouse_tracking ++ suffix
  else []

def titleBytes (beh : Behaviour) (t : List Byte) : List Byte :=
  if beh.titleBel then oscBytes ++ [Consts.osc_set_window_title, Consts.ps] ++ t ++ [Consts.ascii_bel]
  else if beh.titleSt then oscBytes ++ [Consts.osc_set_window_title, Consts.ps] ++ t ++ stBytes
  else []

def normalBufferBytes : List Byte := decPmBytes ++ Consts.dec_pm_use_alternate_screen_buffer ++ Consts.dec_pm_reset
def altBufferBytes : List Byte := decPmBytes ++ Consts.dec_pm_use_alternate_screen_buffer ++ Consts.dec_pm_set

-- ---------------------------------------------------------------- write_element.cpp
/-- `advance_cursor_position` -/
def advanceCursor (s : TermState) : TermState :=
  match s.cursor with
  | none => s
  | some p => if p.x + 1 = s.size.width then { s with cursor := none } else { s with cursor := some { p with x := p.x + 1 } }

/-- control bytes `write_element::operator()` emits before the glyph -/
def elementCtl (beh : Behaviour) (last : Option Element) (e : Element) : List Byte :=
  let l := last.getD {}
  changeCharset beh l.glyph.cs e.glyph.cs ++ changeAttribute l.attr e.attr

/-- `write_element::operator()` -/
def rawElement (beh : Behaviour) (s : TermState) (e : Element) : TermState × List Byte :=
  (advanceCursor { s with last := some e }, elementCtl beh s.last e ++ e.glyph.payload)

/-- `write_optional_default_attribute::operator()` -/
def defaultAttr (s : TermState) : TermState × List Byte :=
  match s.last with
  | none => ({ s with last := some {} }, sgr0)
  | some _ => (s, [])

def rawElements (beh : Behaviour) : TermState → List Element → TermState × List Byte
  | s, [] => (s, [])
  | s, e :: es =>
    let (s1, o1) := rawElement beh s e
    let (s2, o2) := rawElements beh s1 es
    (s2, o1 ++ o2)

/-- one library operation -/
def step (beh : Behaviour) (s : TermState) : Op → TermState × List Byte
  | .writeElement e =>
    let (s1, o1) := defaultAttr s
    let (s2, o2) := rawElement beh s1 e
    (s2, o1 ++ o2)
  | .writeString es =>
    let (s1, o1) := defaultAttr s
    let (s2, o2) := rawElements beh s1 es
    (s2, o1 ++ o2)
  | .rawElement e => rawElement beh s e
  | .defaultAttr => defaultAttr s
  | .moveCursor p => ({ s with cursor := some p }, moveCursorBytes s.cursor p)
  | .hideCursor => ({ s with visible := some false }, if s.visible = some false then [] else hideCursorBytes)
  | .showCursor => ({ s with visible := some true }, if s.visible = some true then [] else showCursorBytes)
  | .saveCursor => ({ s with saved := s.cursor }, saveCursorBytes)
  | .restoreCursor => ({ s with cursor := s.saved }, restoreCursorBytes)
  | .erase k =>
    let (l, o) := changeToDefault s.last
    ({ s with last := l }, o ++ csiBytes ++ eraseSuffix k)
  | .enableMouse => (s, mouseBytes beh Consts.dec_pm_set)
  | .disableMouse => (s, mouseBytes beh Consts.dec_pm_reset)
  | .setTitle t => (s, titleBytes beh t)
  | .normalBuffer => (s, normalBufferBytes)
  | .altBuffer => (s, altBufferBytes)
  | .setSize e => ({ s with size := e, cursor := none, saved := none }, [])
  | .rawWrite bs => (s, bs)
  | .input _ => (s, [])

/-- a history of operations: final state and everything written to the channel -/
def run (beh : Behaviour) : TermState → List Op → TermState × List Byte
  | s, [] => (s, [])
  | s, op :: ops =>
    let (s1, o1) := step beh s op
    let (s2, o2) := run beh s1 ops
    (s2, o1 ++ o2)

end Tpp
