import Tpp.Model.Types
import Tpp.Model.Palette
import Tpp.Model.Charset
/-!
The attribute-markup decoder: `detail::parse_element` (`include/terminalpp/detail/element_udl.hpp`),
`encode` (`src/encoder.cpp`), `operator""_ete` (`element.hpp`), `operator""_ets` and `to_string`
(`src/string.cpp`), as total functions.

Conventions (all of them mirror the code that exists, warts included):

* `char` is signed on the target.  `digit10_to_byte(ch) = static_cast<byte>(ch - '0')` is evaluated in
  `int` and truncated, i.e. it is the wrapping byte subtraction `b - 0x30` for EVERY byte (`'/'` gives
  255, `0x80` gives 80 …).  `digit16_to_byte` compares the signed char with ASCII ranges; bytes ≥ 0x80 are
  negative and fall into the `0` default, exactly like every other non-hex byte, so the unsigned
  comparison below is the same function.
* `info.charcode *= 10`, `(info.greyscale * 10) + d` are truncated to `byte`; `high_colour(r,g,b)` and
  `greyscale_colour(n)` go through `encode_high_components` / `encode_greyscale_component`
  (`Tpp.encodeHigh`, `Tpp.encodeGrey`), which truncate to `byte` too; a low colour is a `static_cast`
  of any byte to the enum.
* `\U` assembles a `uint16_t` (`UInt16` here; wraps in principle, never in fact because the accumulator is
  assigned, not accumulated, by the first digit).  The UTF-8 encoding of the value is written with
  `/ 64`, `% 64`, `+` instead of `>> 6`, `& 0x3F`, `|` – equal on the three ranges; the equality with the
  C++ bit operations is carried by the exhaustive correspondence over all 65 536 values.
* `elem.glyph_.character_ = x` writes the FIRST storage byte of the union only; the other two storage
  bytes and the character set are inherited from the base element (`element_with_base`), so after a UTF-8
  element the next (non-UTF-8) element carries the old continuation bytes as unused storage.
* the parser state and the scratch registers of `parser_info` are passed as two arguments
  (`PState`, `Scratch`) instead of one struct; nothing else is reshaped.  The `fg_*`/`bg_*` handlers, which
  are textually duplicated in the C++, share one definition parameterised by `Ground`; the 38-entry handler
  table below lists them in the C++ order.
-/
namespace Tpp.Markup
open Tpp

/-- `detail::parser_state` (39 enumerators: 38 handler states and `done`) -/
inductive PState
  | idle | escape | charcode0 | charcode1 | charcode2 | charset | charsetExt
  | intensity | polarity | underlining
  | fgLow | fgHigh0 | fgHigh1 | fgHigh2 | fgGrey0 | fgGrey1
  | fgTrue0 | fgTrue1 | fgTrue2 | fgTrue3 | fgTrue4 | fgTrue5
  | bgLow | bgHigh0 | bgHigh1 | bgHigh2 | bgGrey0 | bgGrey1
  | bgTrue0 | bgTrue1 | bgTrue2 | bgTrue3 | bgTrue4 | bgTrue5
  | utf0 | utf1 | utf2 | utf3
  | done
deriving DecidableEq, Repr, Inhabited

/-- `static_cast<int>(state)` -/
def PState.index : PState → Nat
  | .idle => 0 | .escape => 1 | .charcode0 => 2 | .charcode1 => 3 | .charcode2 => 4 | .charset => 5
  | .charsetExt => 6 | .intensity => 7 | .polarity => 8 | .underlining => 9
  | .fgLow => 10 | .fgHigh0 => 11 | .fgHigh1 => 12 | .fgHigh2 => 13 | .fgGrey0 => 14 | .fgGrey1 => 15
  | .fgTrue0 => 16 | .fgTrue1 => 17 | .fgTrue2 => 18 | .fgTrue3 => 19 | .fgTrue4 => 20 | .fgTrue5 => 21
  | .bgLow => 22 | .bgHigh0 => 23 | .bgHigh1 => 24 | .bgHigh2 => 25 | .bgGrey0 => 26 | .bgGrey1 => 27
  | .bgTrue0 => 28 | .bgTrue1 => 29 | .bgTrue2 => 30 | .bgTrue3 => 31 | .bgTrue4 => 32 | .bgTrue5 => 33
  | .utf0 => 34 | .utf1 => 35 | .utf2 => 36 | .utf3 => 37
  | .done => 38

/-- the scratch registers of `parser_info` (everything but `state`) -/
structure Scratch where
  charcode : Byte := 0
  red : Byte := 0
  green : Byte := 0
  blue : Byte := 0
  greyscale : Byte := 0
  utf8 : UInt16 := 0
deriving DecidableEq, Repr, Inhabited

/-- `digit10_to_byte` on a (signed) char: `static_cast<byte>(ch - '0')` -/
def digit10 (b : Byte) : Byte := b - 0x30

/-- `digit16_to_byte` -/
def digit16 (b : Byte) : Byte :=
  if 0x30 ≤ b ∧ b ≤ 0x39 then b - 0x30
  else if 0x61 ≤ b ∧ b ≤ 0x66 then (b - 0x61) + 10
  else if 0x41 ≤ b ∧ b ≤ 0x46 then (b - 0x41) + 10
  else 0

inductive Ground | fg | bg deriving DecidableEq, Repr

def setColour (g : Ground) (c : Colour) (e : Element) : Element :=
  match g with
  | .fg => { e with attr := { e.attr with fg := c } }
  | .bg => { e with attr := { e.attr with bg := c } }

/-- `elem.glyph_.character_ = b` : first storage byte of the union only -/
def setChar (b : Byte) (e : Element) : Element := { e with glyph := { e.glyph with b0 := b } }

def setCharset (cs : Charset) (e : Element) : Element := { e with glyph := { e.glyph with cs := cs } }

def high0 : Ground → PState | .fg => .fgHigh0 | .bg => .bgHigh0
def high1 : Ground → PState | .fg => .fgHigh1 | .bg => .bgHigh1
def high2 : Ground → PState | .fg => .fgHigh2 | .bg => .bgHigh2
def grey0 : Ground → PState | .fg => .fgGrey0 | .bg => .bgGrey0
def grey1 : Ground → PState | .fg => .fgGrey1 | .bg => .bgGrey1
def true0 : Ground → PState | .fg => .fgTrue0 | .bg => .bgTrue0
def true1 : Ground → PState | .fg => .fgTrue1 | .bg => .bgTrue1
def true2 : Ground → PState | .fg => .fgTrue2 | .bg => .bgTrue2
def true3 : Ground → PState | .fg => .fgTrue3 | .bg => .bgTrue3
def true4 : Ground → PState | .fg => .fgTrue4 | .bg => .bgTrue4
def true5 : Ground → PState | .fg => .fgTrue5 | .bg => .bgTrue5
def low : Ground → PState | .fg => .fgLow | .bg => .bgLow

/-- what a handler returns: the new `info.state`, the new scratch registers, the new element -/
abbrev Step := PState × Scratch × Element
abbrev Handler := Byte → Scratch → Element → Step

/-- the UTF-8 bytes `parse_utf8_3` stores for a 16-bit value (three storage bytes, zero padded) -/
def utf8Glyph (v : Nat) : Glyph :=
  if v ≤ 0x7F then { b0 := UInt8.ofNat (v % 128), b1 := 0, b2 := 0, cs := .utf8 }
  else if v ≤ 0x7FF then
    { b0 := UInt8.ofNat (192 + v / 64), b1 := UInt8.ofNat (128 + v % 64), b2 := 0, cs := .utf8 }
  else if v ≤ 0xFFFF then
    { b0 := UInt8.ofNat (224 + v / 4096), b1 := UInt8.ofNat (128 + (v / 64) % 64),
      b2 := UInt8.ofNat (128 + v % 64), cs := .utf8 }
  else { b0 := 0x3F, b1 := 0, b2 := 0, cs := .utf8 }   -- '?': unreachable for a uint16_t

def parseIdle : Handler := fun b sc e =>
  if b = 0x5C then (.escape, sc, e) else (.done, sc, setChar b e)

def parseEscape : Handler := fun b sc e =>
  if b = 0x43 then (.charcode0, sc, e)            -- 'C'
  else if b = 0x63 then (.charset, sc, e)         -- 'c'
  else if b = 0x69 then (.intensity, sc, e)       -- 'i'
  else if b = 0x70 then (.polarity, sc, e)        -- 'p'
  else if b = 0x75 then (.underlining, sc, e)     -- 'u'
  else if b = 0x5B then (.fgLow, sc, e)           -- '['
  else if b = 0x3C then (.fgHigh0, sc, e)         -- '<'
  else if b = 0x7B then (.fgGrey0, sc, e)         -- '{'
  else if b = 0x28 then (.fgTrue0, sc, e)         -- '('
  else if b = 0x5D then (.bgLow, sc, e)           -- ']'
  else if b = 0x3E then (.bgHigh0, sc, e)         -- '>'
  else if b = 0x7D then (.bgGrey0, sc, e)         -- '}'
  else if b = 0x29 then (.bgTrue0, sc, e)         -- ')'
  else if b = 0x55 then (.utf0, sc, e)            -- 'U'
  else if b = 0x78 then (.idle, sc, { e with attr := {} })   -- 'x'
  else (.done, sc, setChar b e)

def parseCharcode0 : Handler := fun b sc e => (.charcode1, { sc with charcode := digit10 b }, e)
def parseCharcode1 : Handler := fun b sc e =>
  (.charcode2, { sc with charcode := sc.charcode * 10 + digit10 b }, e)
def parseCharcode2 : Handler := fun b sc e =>
  let c := sc.charcode * 10 + digit10 b
  (.done, { sc with charcode := c }, setChar c e)

def applyLookup (r : Option Charset) (e : Element) : Element :=
  match r with
  | some cs => setCharset cs e
  | none => e

def parseCharset : Handler := fun b sc e =>
  if b = 0x25 then (.charsetExt, sc, e) else (.idle, sc, applyLookup (lookupCharset [b]) e)
def parseCharsetExt : Handler := fun b sc e =>
  (.idle, sc, applyLookup (lookupCharset [Consts.charset_extender, b]) e)

def parseIntensity : Handler := fun b sc e =>
  (.idle, sc, { e with attr := { e.attr with intensity :=
    if b = 0x3E then .bold else if b = 0x3C then .faint else .normal } })
def parsePolarity : Handler := fun b sc e =>
  (.idle, sc, { e with attr := { e.attr with polarity :=
    if b = 0x2B then .positive else if b = 0x2D then .negative else .positive } })
def parseUnderlining : Handler := fun b sc e =>
  (.idle, sc, { e with attr := { e.attr with underlining :=
    if b = 0x2B then .underlined else if b = 0x2D then .notUnderlined else .notUnderlined } })

def parseLow (g : Ground) : Handler := fun b sc e => (.idle, sc, setColour g (.low (digit10 b)) e)
def parseHigh0 (g : Ground) : Handler := fun b sc e => (high1 g, { sc with red := digit10 b }, e)
def parseHigh1 (g : Ground) : Handler := fun b sc e => (high2 g, { sc with green := digit10 b }, e)
def parseHigh2 (g : Ground) : Handler := fun b sc e =>
  (.idle, sc, setColour g (Colour.ofHigh sc.red sc.green (digit10 b)) e)
def parseGrey0 (g : Ground) : Handler := fun b sc e => (grey1 g, { sc with greyscale := digit10 b }, e)
def parseGrey1 (g : Ground) : Handler := fun b sc e =>
  (.idle, sc, setColour g (Colour.ofGrey (sc.greyscale * 10 + digit10 b)) e)
def parseTrue0 (g : Ground) : Handler := fun b sc e => (true1 g, { sc with red := digit16 b <<< 4 }, e)
def parseTrue1 (g : Ground) : Handler := fun b sc e => (true2 g, { sc with red := sc.red ||| digit16 b }, e)
def parseTrue2 (g : Ground) : Handler := fun b sc e => (true3 g, { sc with green := digit16 b <<< 4 }, e)
def parseTrue3 (g : Ground) : Handler := fun b sc e => (true4 g, { sc with green := sc.green ||| digit16 b }, e)
def parseTrue4 (g : Ground) : Handler := fun b sc e => (true5 g, { sc with blue := digit16 b <<< 4 }, e)
def parseTrue5 (g : Ground) : Handler := fun b sc e =>
  let bl := sc.blue ||| digit16 b
  (.idle, { sc with blue := bl }, setColour g (.rgb sc.red sc.green bl) e)

def hexWord (b : Byte) : UInt16 := (digit16 b).toUInt16

def parseUtf0 : Handler := fun b sc e => (.utf1, { sc with utf8 := hexWord b }, e)
def parseUtf1 : Handler := fun b sc e => (.utf2, { sc with utf8 := sc.utf8 * 16 + hexWord b }, e)
def parseUtf2 : Handler := fun b sc e => (.utf3, { sc with utf8 := sc.utf8 * 16 + hexWord b }, e)
def parseUtf3 : Handler := fun b sc e =>
  let value : UInt16 := sc.utf8 * 16 + hexWord b
  (.done, sc, { e with glyph := utf8Glyph value.toNat })

/-- the handler a state denotes (the table entry `handlers[static_cast<int>(state)]`, see `handlerTable`);
    `done` has no handler – the loop never asks for it (`C07_handler_index`) -/
def step : PState → Handler
  | .idle => parseIdle | .escape => parseEscape
  | .charcode0 => parseCharcode0 | .charcode1 => parseCharcode1 | .charcode2 => parseCharcode2
  | .charset => parseCharset | .charsetExt => parseCharsetExt
  | .intensity => parseIntensity | .polarity => parsePolarity | .underlining => parseUnderlining
  | .fgLow => parseLow .fg | .fgHigh0 => parseHigh0 .fg | .fgHigh1 => parseHigh1 .fg | .fgHigh2 => parseHigh2 .fg
  | .fgGrey0 => parseGrey0 .fg | .fgGrey1 => parseGrey1 .fg
  | .fgTrue0 => parseTrue0 .fg | .fgTrue1 => parseTrue1 .fg | .fgTrue2 => parseTrue2 .fg
  | .fgTrue3 => parseTrue3 .fg | .fgTrue4 => parseTrue4 .fg | .fgTrue5 => parseTrue5 .fg
  | .bgLow => parseLow .bg | .bgHigh0 => parseHigh0 .bg | .bgHigh1 => parseHigh1 .bg | .bgHigh2 => parseHigh2 .bg
  | .bgGrey0 => parseGrey0 .bg | .bgGrey1 => parseGrey1 .bg
  | .bgTrue0 => parseTrue0 .bg | .bgTrue1 => parseTrue1 .bg | .bgTrue2 => parseTrue2 .bg
  | .bgTrue3 => parseTrue3 .bg | .bgTrue4 => parseTrue4 .bg | .bgTrue5 => parseTrue5 .bg
  | .utf0 => parseUtf0 | .utf1 => parseUtf1 | .utf2 => parseUtf2 | .utf3 => parseUtf3
  | .done => fun _ sc e => (.done, sc, e)

/-- `handler const handlers[]` of `parse_element`, in the order of the source: 38 entries -/
def handlerTable : List Handler :=
  [parseIdle, parseEscape, parseCharcode0, parseCharcode1, parseCharcode2, parseCharset, parseCharsetExt,
   parseIntensity, parsePolarity, parseUnderlining,
   parseLow .fg, parseHigh0 .fg, parseHigh1 .fg, parseHigh2 .fg, parseGrey0 .fg, parseGrey1 .fg,
   parseTrue0 .fg, parseTrue1 .fg, parseTrue2 .fg, parseTrue3 .fg, parseTrue4 .fg, parseTrue5 .fg,
   parseLow .bg, parseHigh0 .bg, parseHigh1 .bg, parseHigh2 .bg, parseGrey0 .bg, parseGrey1 .bg,
   parseTrue0 .bg, parseTrue1 .bg, parseTrue2 .bg, parseTrue3 .bg, parseTrue4 .bg, parseTrue5 .bg,
   parseUtf0, parseUtf1, parseUtf2, parseUtf3]

/-- `element_with_base` -/
def elementWithBase (base : Element) : Element :=
  { base with glyph := { base.glyph with
      cs := if base.glyph.cs = .utf8 then .usAscii else base.glyph.cs, b0 := 0x20 } }

/-- `while (!text.empty() && info.state != parser_state::done) { handlers[state](text[0], …); text = text.subspan(1); }` -/
def parseLoop : List Byte → PState → Scratch → Element → Element × List Byte
  | [], _, _, e => (e, [])
  | b :: bs, st, sc, e =>
    if st = .done then (e, b :: bs)
    else
      let r := step st b sc e
      parseLoop bs r.1 r.2.1 r.2.2

/-- the same loop with the handler looked up in the 38-entry table by `static_cast<int>(state)`;
    an out-of-bounds read of `handlers[]` (undefined behaviour in C++) is `none` -/
def parseLoopChecked : List Byte → PState → Scratch → Element → Option (Element × List Byte)
  | [], _, _, e => some (e, [])
  | b :: bs, st, sc, e =>
    if st = .done then some (e, b :: bs)
    else
      match handlerTable[st.index]? with
      | none => none
      | some h =>
        let r := h b sc e
        parseLoopChecked bs r.1 r.2.1 r.2.2

/-- `detail::parse_element(text, elem_base)`: the element and the unconsumed rest of `text` -/
def parseElement (text : List Byte) (base : Element) : Element × List Byte :=
  parseLoop text .idle {} (elementWithBase base)

/-- `operator""_ete` -/
def ete (text : List Byte) : Element := (parseElement text {}).1

/-- `encode`, with the loop counter made explicit: `fuel` bounds the number of `parse_element` calls.
    `encode` supplies `text.length`, which is always enough (`encodeFuel_enough`). -/
def encodeFuel : Nat → List Byte → Element → List Element
  | _, [], _ => []
  | 0, _ :: _, _ => []
  | n + 1, b :: bs, prev =>
    let r := parseElement (b :: bs) prev
    r.1 :: encodeFuel n r.2 r.1

/-- the loop of `encode` started with a given `prev_element` -/
def encodeFrom (text : List Byte) (prev : Element) : List Element := encodeFuel text.length text prev

/-- `terminalpp::encode(text)` = `operator""_ets` -/
def encode (text : List Byte) : List Element := encodeFrom text {}

/-- `operator==(glyph, glyph)`: unused storage bytes are ignored for non-UTF-8 glyphs -/
def glyphEq (a b : Glyph) : Bool :=
  a.cs == b.cs && (if a.cs = .utf8 then a.b0 == b.b0 && a.b1 == b.b1 && a.b2 == b.b2 else a.b0 == b.b0)

/-- `operator==(element, element)` (defaulted: glyph, then attribute) -/
def elementEq (a b : Element) : Bool := glyphEq a.glyph b.glyph && a.attr == b.attr

/-- `operator==(string, string)` = `std::vector<element>::operator==` -/
def stringEq : List Element → List Element → Bool
  | [], [] => true
  | a :: as, b :: bs => elementEq a b && stringEq as bs
  | _, _ => false

end Tpp.Markup
