import Tpp.Model.Token
/-!
`terminalpp::detail::parser` (src/detail/parser.cpp) as a total step function.

The C++ object has the control state `state_` (8 values) and the scratch members `initializer_`,
`extender_`, `meta_`, `mouse_event_type_`, `mouse_coordinate_` (x and y), `argument_`, `arguments_`.
None of the scratch members is initialised by the constructor; they are (re)written on some paths only,
which is exactly what C05/C07 are about, so all of them are fields of `PState` and the property theorems
quantify over arbitrary values of them.

`PState.feed` mirrors `parser::operator()`: one byte in, new state and at most one token out.
Byte comparisons use the constants regenerated from the headers (`Consts.ascii_*`, `control8_*`,
`control7_*_1`, `ps`, `csi_mouse_tracking`, `mouse_*`), `isdigit` is the C-locale 0x30..0x39 (`isDigit`).
-/
namespace Tpp

inductive Ctl | idle | cr | lf | escape | arguments | mouse0 | mouse1 | mouse2
deriving DecidableEq, Repr, Inhabited

/-- what `parser::operator()` returns: a `terminalpp::token` (before `get_well_known_virtual_key`) -/
abbrev RawToken := Token

structure PState where
  ctl : Ctl := .idle
  initializer : Byte := 0
  extender : Byte := 0
  metaFlag : Bool := false
  mouseEv : MouseEv := .noChange
  mouseX : Int := 0
  mouseY : Int := 0
  arg : List Byte := []
  args : List (List Byte) := []
deriving DecidableEq, Repr, Inhabited

/-- `is_csi_extension_character` -/
def isExt (b : Byte) : Bool :=
  b = Consts.ascii_question_mark || b = Consts.ascii_greater_than || b = Consts.ascii_exclamation_mark

/-- `mouse_event_table` of `parse_mouse0` (function-local; tied by the exhaustive mouse sweep) -/
def mouseTable : List (Nat × MouseEv) :=
  [ (Consts.mouse_left_button_down, .leftDown), (Consts.mouse_middle_button_down, .middleDown),
    (Consts.mouse_right_button_down, .rightDown), (Consts.mouse_button_up, .up),
    (Consts.mouse_no_button_change, .noChange), (Consts.mouse_scrollwheel_up, .wheelUp),
    (Consts.mouse_scrollwheel_down, .wheelDown) ]

/-- `input - mouse_value_offset` is `int` arithmetic in C++ (may be negative: then nothing matches) -/
def mouseVal (b : Byte) : Int := (b.toNat : Int) - (Consts.mouse_value_offset : Int)

def mouseLookup (v : Int) : List (Nat × MouseEv) → MouseEv
  | [] => .noChange
  | (k, e) :: rest => if (k : Int) = v then e else mouseLookup v rest

def mouseOf (b : Byte) : MouseEv := mouseLookup (mouseVal b) mouseTable

/-- `(input - mouse_value_offset) - 1` -/
def mouseCoord (b : Byte) : Int := mouseVal b - 1

/-- `virtual_key{vk::enter, none, 1, '\n'}` -/
def enterKey : VKey := { key := Consts.vk_enter, mods := Consts.vkmod_none, rep := 1, seq := .byte 0x0A }

/-- `virtual_key{static_cast<vk>(input), none, 1, {input}}` -/
def rawKey (b : Byte) : VKey := { key := b.toNat, mods := Consts.vkmod_none, rep := 1, seq := .byte b }

/-- the scratch reset performed on ESC / 0x9B / 0x8F -/
def PState.reset (s : PState) : PState := { s with metaFlag := false, extender := 0, arg := [], args := [] }

def parseIdle (s : PState) (b : Byte) : PState × Option RawToken :=
  if b = Consts.ascii_esc then ({ s.reset with ctl := .escape }, none)
  else if b = Consts.ascii_cr then ({ s with ctl := .cr }, some (.key enterKey))
  else if b = Consts.ascii_lf then ({ s with ctl := .lf }, some (.key enterKey))
  else if b = Consts.control8_csi then
    ({ s.reset with ctl := .arguments, initializer := Consts.control7_csi_1 }, none)
  else if b = Consts.control8_ss3 then
    ({ s.reset with ctl := .arguments, initializer := Consts.control7_ss3_1 }, none)
  else (s, some (.key (rawKey b)))

def parseArguments (s : PState) (b : Byte) : PState × Option RawToken :=
  if isDigit b then ({ s with arg := s.arg ++ [b] }, none)
  else if b = Consts.ps then ({ s with args := s.args ++ [s.arg], arg := [] }, none)
  else if b = Consts.csi_mouse_tracking && s.initializer = Consts.control7_csi_1 then
    ({ s with ctl := .mouse0 }, none)
  else if isExt b then ({ s with extender := b }, none)
  else
    ({ s with ctl := .idle, args := s.args ++ [s.arg] },
     some (.ctrl { initiator := s.initializer, command := b, metaFlag := s.metaFlag,
                   args := s.args ++ [s.arg], extender := s.extender }))

def PState.feed (s : PState) (b : Byte) : PState × Option RawToken :=
  match s.ctl with
  | .idle => parseIdle s b
  | .cr =>
    if b = Consts.ascii_lf || b = Consts.ascii_nul then ({ s with ctl := .idle }, none)
    else parseIdle { s with ctl := .idle } b
  | .lf =>
    if b = Consts.ascii_cr then ({ s with ctl := .idle }, none)
    else parseIdle { s with ctl := .idle } b
  | .escape =>
    if b = Consts.ascii_esc then ({ s with metaFlag := true }, none)
    else ({ s with initializer := b, ctl := .arguments }, none)
  | .arguments => parseArguments s b
  | .mouse0 => ({ s with ctl := .mouse1, mouseEv := mouseOf b }, none)
  | .mouse1 => ({ s with ctl := .mouse2, mouseX := mouseCoord b }, none)
  | .mouse2 =>
    ({ s with ctl := .idle, mouseY := mouseCoord b }, some (.mouse s.mouseEv s.mouseX (mouseCoord b)))

/-- `Option.toList` spelled out (keeps `simp` normal forms small) -/
def optList {α} : Option α → List α
  | none => []
  | some a => [a]

/-- state after a byte string -/
def feedAll : List Byte → PState → PState
  | [], s => s
  | b :: bs, s => feedAll bs (s.feed b).1

/-- raw tokens completed by a byte string -/
def rawTokens : List Byte → PState → List RawToken
  | [], _ => []
  | b :: bs, s => optList (s.feed b).2 ++ rawTokens bs (s.feed b).1

theorem feedAll_append (xs ys : List Byte) (s : PState) :
    feedAll (xs ++ ys) s = feedAll ys (feedAll xs s) := by
  induction xs generalizing s with
  | nil => rfl
  | cons x xs ih => simp [feedAll, ih]

theorem rawTokens_append (xs ys : List Byte) (s : PState) :
    rawTokens (xs ++ ys) s = rawTokens xs s ++ rawTokens ys (feedAll xs s) := by
  induction xs generalizing s with
  | nil => rfl
  | cons x xs ih => simp [feedAll, rawTokens, ih]

/-- the constructor: `state_(state::idle)`, everything else indeterminate (here: some value) -/
def PState.init : PState := {}

end Tpp
