import Tpp.Model.Strings
/-!
The whole of `class terminalpp::string` (include/terminalpp/string.hpp, src/string.cpp) as operations on a small
register machine, so that arbitrary *programs* over the class can be run side by side with the real one:
every constructor (`char const*`, pointer+length, `std::string`, `std::string`+attribute, fill, initializer
list / iterator pair, `""_ts`), `+=` and `+` with an element and with a string, both `insert`s, the three
`erase`s, `swap`, `operator[]` assignment.

The machine is polymorphic in the element type: the mutators are pure sequence operations (`std::vector`
semantics), which is what makes the text-preservation theorem (`C17_program_text`) a naturality statement.
-/
namespace Tpp

/-- `string(char const*)`: `strlen` stops at the first NUL of the memory it is handed -/
def TString.ofCStr (mem : List Byte) : List Element := TString.ofBytes (mem.takeWhile (· ≠ 0))

/-- `string(std::string const&, attribute const&)`: every element gets the attribute -/
def TString.withAttr (a : Attr) (es : List Element) : List Element := es.map fun e => { e with attr := a }

/-- register-machine operations on sequences; positions are indices from `begin()` -/
inductive SeqOp (α : Type) where
  | set (r : Nat) (xs : List α)                 -- any constructor, the contents already built
  | addE (r : Nat) (x : α)                      -- r += x
  | addS (r q : Nat)                            -- r += q
  | plusE (r q : Nat) (x : α)                   -- r = q + x
  | plusS (r q t : Nat)                         -- r = q + t
  | insE (r pos : Nat) (x : α)                  -- r.insert(begin+pos, x)
  | insR (r pos q a b : Nat)                    -- r.insert(begin+pos, q.begin+a, q.begin+b)
  | eraseAll (r : Nat)                          -- r.erase()
  | eraseFrom (r pos : Nat)                     -- r.erase(begin+pos)
  | eraseRange (r a b : Nat)                    -- r.erase(begin+a, begin+b)
  | swap (r q : Nat)                            -- r.swap(q)
  | setAt (r i : Nat) (x : α)                   -- r[i] = x
  | setAtRev (r i : Nat) (x : α)                -- *(r.rbegin() + i) = x
  | obs (r : Nat)                               -- to_string(r) / size() / iteration: an observation, changes nothing
  | moveS (r q : Nat)                           -- r = std::move(q); q = string{}   (nothing when r = q)
  | obsNone (r : Nat)                           -- r = r (self-assignment): changes nothing
  | obs2 (r q : Nat)                            -- r == q, r < q, r <=> q, hashes: an observation of two registers
deriving Repr

abbrev Regs (α : Type) := Nat → List α

def Regs.put {α} (g : Regs α) (r : Nat) (xs : List α) : Regs α := fun k => if k = r then xs else g k

/-- one operation.  An operation whose preconditions fail (position past the end, reversed range, inserting a
    string's own elements into itself – undefined behaviour in C++) is skipped; the executor skips exactly the same. -/
def SeqOp.apply {α} (g : Regs α) : SeqOp α → Regs α
  | .set r xs => g.put r xs
  | .addE r x => g.put r (g r ++ [x])
  | .addS r q => g.put r (g r ++ g q)
  | .plusE r q x => g.put r (g q ++ [x])
  | .plusS r q t => g.put r (g q ++ g t)
  | .insE r pos x => if pos ≤ (g r).length then g.put r ((g r).take pos ++ [x] ++ (g r).drop pos) else g
  | .insR r pos q a b =>
    if pos ≤ (g r).length ∧ a ≤ b ∧ b ≤ (g q).length ∧ q ≠ r
    then g.put r ((g r).take pos ++ ((g q).drop a).take (b - a) ++ (g r).drop pos) else g
  | .eraseAll r => g.put r []
  | .eraseFrom r pos => if pos ≤ (g r).length then g.put r ((g r).take pos) else g
  | .eraseRange r a b => if a ≤ b ∧ b ≤ (g r).length then g.put r ((g r).take a ++ (g r).drop b) else g
  | .swap r q => (g.put r (g q)).put q (g r)
  | .setAt r i x => if i < (g r).length then g.put r ((g r).set i x) else g
  | .setAtRev r i x => if i < (g r).length then g.put r ((g r).set ((g r).length - 1 - i) x) else g
  | .obs _ => g
  | .moveS r q => if r = q then g else (g.put r (g q)).put q []
  | .obsNone _ => g
  | .obs2 _ _ => g

def SeqOp.run {α} (g : Regs α) (ops : List (SeqOp α)) : Regs α := ops.foldl SeqOp.apply g

def SeqOp.map {α β} (f : α → β) : SeqOp α → SeqOp β
  | .set r xs => .set r (xs.map f)
  | .addE r x => .addE r (f x)
  | .addS r q => .addS r q
  | .plusE r q x => .plusE r q (f x)
  | .plusS r q t => .plusS r q t
  | .insE r pos x => .insE r pos (f x)
  | .insR r pos q a b => .insR r pos q a b
  | .eraseAll r => .eraseAll r
  | .eraseFrom r pos => .eraseFrom r pos
  | .eraseRange r a b => .eraseRange r a b
  | .swap r q => .swap r q
  | .setAt r i x => .setAt r i (f x)
  | .setAtRev r i x => .setAtRev r i (f x)
  | .obs r => .obs r
  | .moveS r q => .moveS r q
  | .obsNone r => .obsNone r
  | .obs2 r q => .obs2 r q

def Regs.map {α β} (f : α → β) (g : Regs α) : Regs β := fun r => (g r).map f

end Tpp
