import Tpp.Model.Strings
/-!
The constructors of `glyph` and `element` (include/terminalpp/glyph.hpp, element.hpp) – how text gets INTO the
value types.  `glyph(char const*)` is a loop over at most three bytes of the memory it is handed that stops after
the first byte without the high bit.
-/
namespace Tpp

/-- `glyph(byte character, character_set charset)`; the other storage bytes are unused (never observed) -/
def Glyph.ofChar (b : Byte) (cs : Charset := .usAscii) : Glyph := { b0 := b, b1 := 0, b2 := 0, cs := cs }

/-- `glyph(char8_t const (&)[2])`, `[3]`, `[4]`: the array without its terminator, zero padded -/
def Glyph.ofArr1 (t0 : Byte) : Glyph := { b0 := t0, b1 := 0, b2 := 0, cs := .utf8 }
def Glyph.ofArr2 (t0 t1 : Byte) : Glyph := { b0 := t0, b1 := t1, b2 := 0, cs := .utf8 }
def Glyph.ofArr3 (t0 t1 t2 : Byte) : Glyph := { b0 := t0, b1 := t1, b2 := t2, cs := .utf8 }

/-- `glyph(char const *ustr)`: `for (i < 3) { u[i] = ustr[i]; if (!(u[i] & 0x80)) break; }` on zeroed storage.
    `mem` is the memory behind the pointer (reads past its end never happen for the inputs the harness builds). -/
def Glyph.ofCharPtr (mem : List Byte) : Glyph :=
  let m0 := mem.getD 0 0
  if m0 &&& 0x80 = 0 then { b0 := m0, b1 := 0, b2 := 0, cs := .utf8 } else
  let m1 := mem.getD 1 0
  if m1 &&& 0x80 = 0 then { b0 := m0, b1 := m1, b2 := 0, cs := .utf8 } else
  { b0 := m0, b1 := m1, b2 := mem.getD 2 0, cs := .utf8 }

/-- `element(byte ch, attribute)` and `element(glyph, attribute)` -/
def Element.ofChar (b : Byte) (a : Attr := {}) : Element := { glyph := Glyph.ofChar b, attr := a }

end Tpp
