import Tpp.Model.Keys
/-!
An equivalent way of running the decoder model that the compiled driver uses for long inputs.

`PState.feed` appends every digit to the end of `arg` (`s.arg ++ [b]`, faithful to `argument_.push_back`), which is
quadratic on a list.  `runFast` collects a run of digits in reverse and flushes it when the run ends.
`Tpp.runFast_eq` (Lemmas/Input.lean) proves it equal to `(feedAll, rawTokens)`; no property refers to it.
-/
namespace Tpp

def flushDigits (s : PState) (acc : List Byte) : PState := { s with arg := s.arg ++ acc.reverse }

def runFast : List Byte → PState → List Byte → PState × List RawToken
  | [], s, acc => (flushDigits s acc, [])
  | b :: bs, s, acc =>
    if s.ctl = .arguments && isDigit b then runFast bs s (b :: acc)
    else
      let r := (flushDigits s acc).feed b
      let rest := runFast bs r.1 []
      (rest.1, optList r.2 ++ rest.2)

/-- `deliver` through `runFast` -/
def deliverFast (s : PState) (chunk : List Byte) : PState × List Token :=
  let r := runFast chunk s []
  (r.1, r.2.map wellKnown)

/-- the token lists of `deliverAll`, through `deliverFast` -/
def deliverAllFast : List (List Byte) → PState → List (List Token)
  | [], _ => []
  | c :: cs, s => (deliverFast s c).2 :: deliverAllFast cs (deliverFast s c).1

end Tpp
