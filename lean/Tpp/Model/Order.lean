import Tpp.Model.Types
import Tpp.Model.Tokens
/-!
`operator==`, `operator<`, `operator<=>` and `hash_value` of the value types, transcribed from the headers.

C++ rules followed here:

* a **defaulted `<=>`** compares the members lexicographically in DECLARATION order with their own `<=>`
  (`Ordering.then`); the **defaulted `==`** that comes with it compares the members with their own `==`
  (`&&`, in the same order); `a < b` is rewritten by the compiler to `(a <=> b) < 0`, so `lt := (cmp a b).isLT`;
* enumerations compare by their numeric value (`.code`, regenerated from the headers);
* `std::variant` compares the index first, then the active alternative;
* `std::vector` / `std::basic_string` compare lexicographically, a proper prefix being less
  (`std::lexicographical_compare_three_way`); their `==` is "same size and element-wise `==`";
* **`glyph` is hand written**: `==` and `<` switch on `charset_ == utf8` to read either the three bytes of
  `ucharacter_` or the single byte `character_` (= storage byte 0 of the union), and `<=>` is defined FROM `<`.
  The three operators are transcribed literally over the explicit 3-byte storage of `Tpp.Glyph`.

`hash_value` is modelled by the typed sequence of values it feeds to `boost::hash_combine` (`HashTree`); the
executor folds that tree with the real boost functions and compares with the real `hash_value`.
-/
namespace Tpp

/-! ### primitives -/

/-- `<=>` on unsigned integral values -/
def cmpNat (a b : Nat) : Ordering := if a < b then .lt else if a = b then .eq else .gt
/-- `<=>` on `int` / `coordinate_type` -/
def cmpInt (a b : Int) : Ordering := if a < b then .lt else if a = b then .eq else .gt
/-- `<=>` on `byte` (and on `enum class … : byte` values) -/
def cmpByte (a b : Byte) : Ordering := cmpNat a.toNat b.toNat
/-- `<=>` on `bool` (`false < true`) -/
def cmpBool (a b : Bool) : Ordering := cmpNat a.toNat b.toNat

/-- `std::vector::operator==` / `basic_string::operator==`: same size and element-wise equal -/
def listEq {α : Type} (e : α → α → Bool) : List α → List α → Bool
  | [], [] => true
  | a :: as, b :: bs => e a b && listEq e as bs
  | _, _ => false

/-- `std::lexicographical_compare_three_way` -/
def listCmp {α : Type} (c : α → α → Ordering) : List α → List α → Ordering
  | [], [] => .eq
  | [], _ :: _ => .lt
  | _ :: _, [] => .gt
  | a :: as, b :: bs => (c a b).then (listCmp c as bs)

/-! ### `character_set` – defaulted `<=>` over `charset value_` -/

def Charset.eq (a b : Charset) : Bool := a.code == b.code
def Charset.cmp (a b : Charset) : Ordering := cmpNat a.code b.code
def Charset.lt (a b : Charset) : Bool := (Charset.cmp a b).isLT

/-! ### `glyph` – three hand-written operators -/

/-- the storage seen as `ucharacter_[3]` -/
def Glyph.ucharacter (g : Glyph) : List Byte := [g.b0, g.b1, g.b2]
/-- the storage seen as `character_` -/
def Glyph.character (g : Glyph) : Byte := g.b0

/-- the re-implemented `std::equal` loop of `operator==` -/
def Glyph.equalLoop : List Byte → List Byte → Bool
  | l :: ls, r :: rs => if l != r then false else Glyph.equalLoop ls rs
  | _, _ => true

/-- the re-implemented `std::lexicographical_compare` loop of `operator<` (bytes compared unsigned) -/
def Glyph.lessLoop : List Byte → List Byte → Bool
  | l :: ls, r :: rs =>
    if l.toNat < r.toNat then true else if r.toNat < l.toNat then false else Glyph.lessLoop ls rs
  | _, _ => false

/-- `operator==(glyph const&, glyph const&)` -/
def Glyph.eq (lhs rhs : Glyph) : Bool :=
  if Charset.eq lhs.cs rhs.cs then
    if Charset.eq lhs.cs .utf8 then Glyph.equalLoop lhs.ucharacter rhs.ucharacter
    else lhs.character == rhs.character
  else false

/-- `operator<(glyph const&, glyph const&)` -/
def Glyph.lt (lhs rhs : Glyph) : Bool :=
  if Charset.lt lhs.cs rhs.cs then true
  else if Charset.eq lhs.cs rhs.cs then
    if Charset.eq lhs.cs .utf8 then Glyph.lessLoop lhs.ucharacter rhs.ucharacter
    else decide (lhs.character.toNat < rhs.character.toNat)
  else false

/-- `operator<=>(glyph const&, glyph const&)`: defined from `<` -/
def Glyph.cmp (lhs rhs : Glyph) : Ordering :=
  if Glyph.lt lhs rhs then .lt else if Glyph.lt rhs lhs then .gt else .eq

/-! ### colours – four structs with defaulted `<=>`, and the variant -/

/-- `low_colour { graphics::colour value_; }` (stored enum value) -/
structure LowColour where
  value : Byte
deriving DecidableEq, Repr, Inhabited
/-- `high_colour { byte value_; }` -/
structure HighColour where
  value : Byte
deriving DecidableEq, Repr, Inhabited
/-- `greyscale_colour { byte shade_; }` -/
structure GreyscaleColour where
  shade : Byte
deriving DecidableEq, Repr, Inhabited
/-- `true_colour { byte red_; byte green_; byte blue_; }` -/
structure TrueColour where
  red : Byte
  green : Byte
  blue : Byte
deriving DecidableEq, Repr, Inhabited

def LowColour.eq (a b : LowColour) : Bool := a.value == b.value
def LowColour.cmp (a b : LowColour) : Ordering := cmpByte a.value b.value
def LowColour.lt (a b : LowColour) : Bool := (LowColour.cmp a b).isLT

def HighColour.eq (a b : HighColour) : Bool := a.value == b.value
def HighColour.cmp (a b : HighColour) : Ordering := cmpByte a.value b.value
def HighColour.lt (a b : HighColour) : Bool := (HighColour.cmp a b).isLT

def GreyscaleColour.eq (a b : GreyscaleColour) : Bool := a.shade == b.shade
def GreyscaleColour.cmp (a b : GreyscaleColour) : Ordering := cmpByte a.shade b.shade
def GreyscaleColour.lt (a b : GreyscaleColour) : Bool := (GreyscaleColour.cmp a b).isLT

def TrueColour.eq (a b : TrueColour) : Bool := a.red == b.red && (a.green == b.green && a.blue == b.blue)
def TrueColour.cmp (a b : TrueColour) : Ordering :=
  (cmpByte a.red b.red).then ((cmpByte a.green b.green).then (cmpByte a.blue b.blue))
def TrueColour.lt (a b : TrueColour) : Bool := (TrueColour.cmp a b).isLT

/-- `std::variant::index()` -/
def Colour.index : Colour → Nat
  | .low _ => 0 | .high _ => 1 | .grey _ => 2 | .rgb _ _ _ => 3

/-- `colour`: defaulted `==` over the variant: same index and equal alternatives -/
def Colour.eq : Colour → Colour → Bool
  | .low a, .low b => LowColour.eq ⟨a⟩ ⟨b⟩
  | .high a, .high b => HighColour.eq ⟨a⟩ ⟨b⟩
  | .grey a, .grey b => GreyscaleColour.eq ⟨a⟩ ⟨b⟩
  | .rgb r g b, .rgb r' g' b' => TrueColour.eq ⟨r, g, b⟩ ⟨r', g', b'⟩
  | _, _ => false

/-- `colour`: defaulted `<=>` over the variant: index first, then the alternative -/
def Colour.cmp : Colour → Colour → Ordering
  | .low a, .low b => LowColour.cmp ⟨a⟩ ⟨b⟩
  | .high a, .high b => HighColour.cmp ⟨a⟩ ⟨b⟩
  | .grey a, .grey b => GreyscaleColour.cmp ⟨a⟩ ⟨b⟩
  | .rgb r g b, .rgb r' g' b' => TrueColour.cmp ⟨r, g, b⟩ ⟨r', g', b'⟩
  | x, y => cmpNat x.index y.index
def Colour.lt (a b : Colour) : Bool := (Colour.cmp a b).isLT

/-! ### effects – `effect<Type> { Type value_; }`, defaulted `<=>` on the enum value -/

def Intensity.eq (a b : Intensity) : Bool := a.code == b.code
def Intensity.cmp (a b : Intensity) : Ordering := cmpNat a.code b.code
def Intensity.lt (a b : Intensity) : Bool := (Intensity.cmp a b).isLT

def Underlining.eq (a b : Underlining) : Bool := a.code == b.code
def Underlining.cmp (a b : Underlining) : Ordering := cmpNat a.code b.code
def Underlining.lt (a b : Underlining) : Bool := (Underlining.cmp a b).isLT

def Polarity.eq (a b : Polarity) : Bool := a.code == b.code
def Polarity.cmp (a b : Polarity) : Ordering := cmpNat a.code b.code
def Polarity.lt (a b : Polarity) : Bool := (Polarity.cmp a b).isLT

def Blinking.eq (a b : Blinking) : Bool := a.code == b.code
def Blinking.cmp (a b : Blinking) : Ordering := cmpNat a.code b.code
def Blinking.lt (a b : Blinking) : Bool := (Blinking.cmp a b).isLT

/-! ### `attribute` – defaulted, members in declaration order:
    foreground, background, intensity, underlining, polarity, blinking -/

def Attr.eq (a b : Attr) : Bool :=
  Colour.eq a.fg b.fg && (Colour.eq a.bg b.bg && (Intensity.eq a.intensity b.intensity &&
  (Underlining.eq a.underlining b.underlining && (Polarity.eq a.polarity b.polarity &&
  Blinking.eq a.blinking b.blinking))))
def Attr.cmp (a b : Attr) : Ordering :=
  (Colour.cmp a.fg b.fg).then ((Colour.cmp a.bg b.bg).then ((Intensity.cmp a.intensity b.intensity).then
  ((Underlining.cmp a.underlining b.underlining).then ((Polarity.cmp a.polarity b.polarity).then
  (Blinking.cmp a.blinking b.blinking)))))
def Attr.lt (a b : Attr) : Bool := (Attr.cmp a b).isLT

/-! ### `element` – defaulted over `glyph_`, `attribute_`.
    NB the defaulted `==` uses `glyph::operator==` while the defaulted `<=>` uses `glyph::operator<=>`
    (i.e. `glyph::operator<`): two different hand-written functions. -/

def Element.eq (a b : Element) : Bool := Glyph.eq a.glyph b.glyph && Attr.eq a.attr b.attr
def Element.cmp (a b : Element) : Ordering := (Glyph.cmp a.glyph b.glyph).then (Attr.cmp a.attr b.attr)
def Element.lt (a b : Element) : Bool := (Element.cmp a b).isLT

/-! ### `string` – defaulted `<=>` over `std::vector<element> elements_`;
    `operator==` is `lhs.elements_ == rhs.elements_` (src/string.cpp) -/

/-- `terminalpp::string` = its element vector -/
abbrev TString := List Element

def TString.eq (a b : TString) : Bool := listEq Element.eq a b
def TString.cmp (a b : TString) : Ordering := listCmp Element.cmp a b
def TString.lt (a b : TString) : Bool := (TString.cmp a b).isLT

/-! ### `point` (members declared `y_` THEN `x_`), `extent` (`width_`, `height_`), `rectangle` (`origin_`, `size_`) -/

def Point.eq (a b : Point) : Bool := a.y == b.y && a.x == b.x
def Point.cmp (a b : Point) : Ordering := (cmpInt a.y b.y).then (cmpInt a.x b.x)
def Point.lt (a b : Point) : Bool := (Point.cmp a b).isLT

def Extent.eq (a b : Extent) : Bool := a.width == b.width && a.height == b.height
def Extent.cmp (a b : Extent) : Ordering := (cmpInt a.width b.width).then (cmpInt a.height b.height)
def Extent.lt (a b : Extent) : Bool := (Extent.cmp a b).isLT

def Rectangle.eq (a b : Rectangle) : Bool := Point.eq a.origin b.origin && Extent.eq a.size b.size
def Rectangle.cmp (a b : Rectangle) : Ordering := (Point.cmp a.origin b.origin).then (Extent.cmp a.size b.size)
def Rectangle.lt (a b : Rectangle) : Bool := (Rectangle.cmp a b).isLT

/-! ### `control_sequence` – defaulted `<=>` and `==` over
    `initiator, command, meta, arguments, extender` -/

/-- `byte_storage` = `std::basic_string<byte>` -/
def byteStringEq (a b : List Byte) : Bool := listEq (fun x y => x == y) a b
def byteStringCmp (a b : List Byte) : Ordering := listCmp cmpByte a b

def ControlSequence.eq (a b : ControlSequence) : Bool :=
  a.initiator == b.initiator && (a.command == b.command && (a.«meta» == b.«meta» &&
  (listEq byteStringEq a.arguments b.arguments && a.extender == b.extender)))
def ControlSequence.cmp (a b : ControlSequence) : Ordering :=
  (cmpByte a.initiator b.initiator).then ((cmpByte a.command b.command).then ((cmpBool a.«meta» b.«meta»).then
  ((listCmp byteStringCmp a.arguments b.arguments).then (cmpByte a.extender b.extender))))
def ControlSequence.lt (a b : ControlSequence) : Bool := (ControlSequence.cmp a b).isLT

/-! ### `virtual_key` – defaulted over `key, modifiers, repeat_count, sequence`
    (`sequence` is `std::variant<byte, control_sequence>`) -/

def KeySequence.index : KeySequence → Nat
  | .raw _ => 0 | .control _ => 1
def KeySequence.eq : KeySequence → KeySequence → Bool
  | .raw a, .raw b => a == b
  | .control a, .control b => ControlSequence.eq a b
  | _, _ => false
def KeySequence.cmp : KeySequence → KeySequence → Ordering
  | .raw a, .raw b => cmpByte a b
  | .control a, .control b => ControlSequence.cmp a b
  | x, y => cmpNat x.index y.index
def KeySequence.lt (a b : KeySequence) : Bool := (KeySequence.cmp a b).isLT

def VirtualKey.eq (a b : VirtualKey) : Bool :=
  a.key == b.key && (a.modifiers == b.modifiers && (a.repeatCount == b.repeatCount &&
  KeySequence.eq a.sequence b.sequence))
def VirtualKey.cmp (a b : VirtualKey) : Ordering :=
  (cmpByte a.key b.key).then ((cmpByte a.modifiers b.modifiers).then ((cmpInt a.repeatCount b.repeatCount).then
  (KeySequence.cmp a.sequence b.sequence)))
def VirtualKey.lt (a b : VirtualKey) : Bool := (VirtualKey.cmp a b).isLT

/-! ### `mouse::event` – defaulted over `action_`, `position_` -/

def MouseEvent.eq (a b : MouseEvent) : Bool := a.action == b.action && Point.eq a.position b.position
def MouseEvent.cmp (a b : MouseEvent) : Ordering := (cmpNat a.action b.action).then (Point.cmp a.position b.position)
def MouseEvent.lt (a b : MouseEvent) : Bool := (MouseEvent.cmp a b).isLT

/-! ### hashing

`hash_value(x)` starts from `seed = 0` and calls `boost::hash_combine(seed, v)` for a sequence of values `v`.
A value that is itself a library object is hashed by its own `hash_value` first (a `std::size_t`), which is then
combined: that is a `node`.  Leaves carry the C++ type class of what is combined: a `byte`, or an enumeration
value (`boost::hash` of an enum hashes its numeric value, but the executor feeds the real typed value). -/

inductive HashTree
  | byte (b : Byte)                 -- `hash_combine(seed, <byte>)`
  | enum (n : Nat)                  -- `hash_combine(seed, <enum class value>)`
  | node (children : List HashTree) -- `hash_combine(seed, hash_value(obj))`, `hash_value(obj)` folding the children from 0
deriving Repr, Inhabited, BEq

/-- `hash_value(character_set)`: combines `value_` (the enum) -/
def Charset.hashTree (cs : Charset) : HashTree := .node [.enum cs.code]

/-- `hash_value(glyph)`: combines `charset_` (an object), then – UTF-8 – each of the three `ucharacter_` bytes,
    or – otherwise – the single `character_` -/
def Glyph.hashTree (g : Glyph) : HashTree :=
  .node (Charset.hashTree g.cs ::
    (if Charset.eq g.cs .utf8 then g.ucharacter.map HashTree.byte else [.byte g.character]))

/-- `hash_value(low_colour)`: combines the value cast to its underlying type (`byte`) -/
def LowColour.hashTree (c : LowColour) : HashTree := .node [.byte c.value]
def HighColour.hashTree (c : HighColour) : HashTree := .node [.byte c.value]
def GreyscaleColour.hashTree (c : GreyscaleColour) : HashTree := .node [.byte c.shade]
def TrueColour.hashTree (c : TrueColour) : HashTree := .node [.byte c.red, .byte c.green, .byte c.blue]

/-- `hash_value(colour)`: `std::visit` returning the alternative's own `hash_value` (the index is NOT hashed) -/
def Colour.hashTree : Colour → HashTree
  | .low v => LowColour.hashTree ⟨v⟩
  | .high v => HighColour.hashTree ⟨v⟩
  | .grey v => GreyscaleColour.hashTree ⟨v⟩
  | .rgb r g b => TrueColour.hashTree ⟨r, g, b⟩

/-- `hash_value(effect<T>)`: combines `value_` (the enum) -/
def Intensity.hashTree (e : Intensity) : HashTree := .node [.enum e.code]
def Underlining.hashTree (e : Underlining) : HashTree := .node [.enum e.code]
def Polarity.hashTree (e : Polarity) : HashTree := .node [.enum e.code]
def Blinking.hashTree (e : Blinking) : HashTree := .node [.enum e.code]

/-- `hash_value(attribute)`: the six members in declaration order -/
def Attr.hashTree (a : Attr) : HashTree :=
  .node [Colour.hashTree a.fg, Colour.hashTree a.bg, Intensity.hashTree a.intensity,
         Underlining.hashTree a.underlining, Polarity.hashTree a.polarity, Blinking.hashTree a.blinking]

/-- `hash_value(element)`: `glyph_`, `attribute_` -/
def Element.hashTree (e : Element) : HashTree := .node [Glyph.hashTree e.glyph, Attr.hashTree e.attr]

/-- `hash_value(string)`: `boost::hash_range` over the elements (no length is mixed in) -/
def TString.hashTree (s : TString) : HashTree := .node (s.map Element.hashTree)

end Tpp
