import Tpp.Model.Types
/-!
`ansi/graphics.hpp`: 256-colour palette arithmetic.  C++ evaluates these in `int` (the `byte`
operands are promoted) and truncates the result to `byte` on return; division and remainder
truncate toward zero.
-/
namespace Tpp

def byteOfInt (i : Int) : Byte := UInt8.ofNat (i % 256).toNat

/-- `encode_high_components(red, green, blue)` -/
def encodeHigh (r g b : Byte) : Byte :=
  UInt8.ofNat (Consts.high_colour_offset + r.toNat * Consts.red_coefficient
    + g.toNat * Consts.green_coefficient + b.toNat * Consts.blue_coefficient)

/-- `high_red_component(value)` -/
def highRed (v : Byte) : Byte :=
  byteOfInt (Int.tdiv ((v.toNat : Int) - Consts.high_colour_offset) Consts.red_coefficient)
/-- `high_green_component(value)` -/
def highGreen (v : Byte) : Byte :=
  byteOfInt (Int.tdiv (Int.tmod ((v.toNat : Int) - Consts.high_colour_offset) Consts.red_coefficient)
    Consts.green_coefficient)
/-- `high_blue_component(value)` -/
def highBlue (v : Byte) : Byte :=
  byteOfInt (Int.tmod ((v.toNat : Int) - Consts.high_colour_offset) Consts.green_coefficient)

/-- `encode_greyscale_component(grey)` -/
def encodeGrey (s : Byte) : Byte := UInt8.ofNat (Consts.greyscale_colour_offset + s.toNat)
/-- `greyscale_component(value)` -/
def greyComponent (v : Byte) : Byte := byteOfInt ((v.toNat : Int) - Consts.greyscale_colour_offset)

/-- `high_colour(r, g, b)` / `greyscale_colour(shade)` as colours -/
def Colour.ofHigh (r g b : Byte) : Colour := .high (encodeHigh r g b)
def Colour.ofGrey (s : Byte) : Colour := .grey (encodeGrey s)

end Tpp
