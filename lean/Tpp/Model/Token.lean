import Tpp.Basic
import Tpp.Generated.Consts
/-!
The value types delivered to the `async_read` callback (`terminalpp::token` and its alternatives) as
plain Lean data.  Shared by the model of the decoder (`Tpp.Model.Parser`, `Tpp.Model.Keys`) and by the
specification side (`Tpp.Ref.Input`), which must name the expected token in the library's vocabulary.

* `control_sequence {initiator, command, meta, arguments, extender}` → `CtrlSeq`
* `mouse::event_type` → `MouseEv` (`.code` = the enumerator's value, regenerated)
* `virtual_key {key, modifiers, repeat_count, sequence}` → `VKey`; `key` is the numeric value of the
  `vk` enumerator (a byte in the library; kept as `Nat` so that it compares directly with the
  regenerated `Consts.vk_*`), `mods` the `vk_modifier` bit set, `rep` the `int` repeat count,
  `seq` the `std::variant<byte, control_sequence>`.
* `token = variant<virtual_key, mouse::event, control_sequence>` → `Token`
-/
namespace Tpp

structure CtrlSeq where
  initiator : Byte := 0
  command : Byte := 0
  metaFlag : Bool := false
  args : List (List Byte) := []
  extender : Byte := 0
deriving DecidableEq, Repr, Inhabited

inductive MouseEv | leftDown | middleDown | rightDown | up | noChange | wheelUp | wheelDown
deriving DecidableEq, Repr, Inhabited

/-- value of the `mouse::event_type` enumerator -/
def MouseEv.code : MouseEv → Nat
  | .leftDown => Consts.ev_left_button_down | .middleDown => Consts.ev_middle_button_down
  | .rightDown => Consts.ev_right_button_down | .up => Consts.ev_button_up
  | .noChange => Consts.ev_no_button_change | .wheelUp => Consts.ev_scrollwheel_up
  | .wheelDown => Consts.ev_scrollwheel_down

inductive KeySeq
  | byte (b : Byte)
  | ctrl (c : CtrlSeq)
deriving DecidableEq, Repr, Inhabited

structure VKey where
  key : Nat := 0
  mods : Nat := 0
  rep : Int := 0
  seq : KeySeq := .byte 0
deriving DecidableEq, Repr, Inhabited

inductive Token
  | key (k : VKey)
  | mouse (ev : MouseEv) (x y : Int)
  | ctrl (c : CtrlSeq)
deriving DecidableEq, Repr, Inhabited

/-- the keys above `vk::del` are abstract keys, not character values (virtual_key.hpp) -/
def isAbstractKey (k : Nat) : Bool := Consts.vk_del < k && k ≤ Consts.vk_f12

end Tpp
