/-!
Objects as state machines, and schedules that interleave operations on distinct objects.
A step reads and writes only its own object's state – that is what "no hidden shared mutable state"
means for the model; whether the *code* has that shape is checked by the regenerated statics inventory
and by running objects interleaved and concurrently (C12).
-/
namespace Tpp

structure Machine (σ ι ο : Type) where
  step : σ → ι → σ × ο

variable {σ ι ο : Type}

/-- an object run alone -/
def Machine.runSolo (m : Machine σ ι ο) : σ → List ι → σ × List ο
  | s, [] => (s, [])
  | s, i :: is =>
    let r := m.step s i
    let rest := m.runSolo r.1 is
    (rest.1, r.2 :: rest.2)

/-- several objects (indexed by `Nat`), operations interleaved by a schedule -/
def Machine.runSched (m : Machine σ ι ο) : (Nat → σ) → List (Nat × ι) → (Nat → σ) × (Nat → List ο)
  | st, [] => (st, fun _ => [])
  | st, (k, i) :: rest =>
    let r := m.step (st k) i
    let st' := fun j => if j = k then r.1 else st j
    let tail := m.runSched st' rest
    (tail.1, fun j => if j = k then r.2 :: tail.2 j else tail.2 j)

end Tpp
