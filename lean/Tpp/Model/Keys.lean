import Tpp.Model.Parser
/-!
`detail::get_well_known_virtual_key` (src/detail/well_known_virtual_key.cpp) and the delivery loop of
`terminal::async_read` (src/terminal.cpp).

The four function-local tables are transcribed row by row in the order of the source, their entries
referring to the regenerated constants; they are tied completely by the exhaustive key-space sweep.

`argument_to_integer` (the helper that replaced `atoi`, fix F8) on a digit-only string (the parser only ever
stores digits in an argument): `strtoll(s, 0, 10)` saturates at `LLONG_MAX = 2^63-1`, the result is then clamped
to the range of `int`, so the value is `min n (2^31-1)`.  The empty string gives 0.
-/
namespace Tpp

/-- `argument_to_integer` on a digit-only byte string: `strtoll`, clamped to `int` -/
def argToInt (ds : List Byte) : Int := ((min (min (parseDec ds 0) 9223372036854775807) 2147483647 : Nat) : Int)

/-- `std::ranges::find(table, value, &pair::first)` where `value` is an `int` and the keys are bytes -/
def lookupInt {α} (v : Int) : List (Nat × α) → Option α
  | [] => none
  | (k, a) :: rest => if (k : Int) = v then some a else lookupInt v rest

def lookupByte {α} (b : Byte) : List (Byte × α) → Option α
  | [] => none
  | (k, a) :: rest => if k = b then some a else lookupByte b rest

open Consts in
/-- `modifier_mappings` -/
def modifierTable : List (Nat × Nat) :=
  [ (modifier_shift, vkmod_shift),
    (modifier_ctrl, vkmod_ctrl),
    (modifier_alt, vkmod_alt),
    (modifier_meta, vkmod_meta),
    (modifier_shift_alt, vkmod_shift ||| vkmod_alt),
    (modifier_shift_ctrl, vkmod_shift ||| vkmod_ctrl),
    (modifier_alt_ctrl, vkmod_alt ||| vkmod_ctrl),
    (modifier_shift_alt_ctrl, vkmod_shift ||| vkmod_alt ||| vkmod_ctrl),
    (modifier_meta_shift, vkmod_meta ||| vkmod_shift),
    (modifier_meta_ctrl, vkmod_meta ||| vkmod_ctrl),
    (modifier_meta_alt, vkmod_meta ||| vkmod_alt),
    (modifier_meta_shift_alt, vkmod_meta ||| vkmod_shift ||| vkmod_alt),
    (modifier_meta_shift_ctrl, vkmod_meta ||| vkmod_shift ||| vkmod_ctrl),
    (modifier_meta_alt_ctrl, vkmod_meta ||| vkmod_alt ||| vkmod_ctrl),
    (modifier_meta_shift_alt_ctrl, vkmod_meta ||| vkmod_shift ||| vkmod_alt ||| vkmod_ctrl) ]

/-- `convert_modifier_argument` -/
def convertModifier (arg : List Byte) : Nat :=
  (lookupInt (argToInt arg) modifierTable).getD Consts.vkmod_none

open Consts in
/-- `cursor_movement_commands` -/
def cursorTable : List (Byte × Nat) :=
  [ (csi_cursor_up, vk_cursor_up), (csi_cursor_down, vk_cursor_down),
    (csi_cursor_forward, vk_cursor_right), (csi_cursor_backward, vk_cursor_left),
    (csi_cursor_home, vk_home), (csi_cursor_end, vk_end),
    (csi_cursor_tabulation, vk_ht), (csi_cursor_backward_tabulation, vk_bt) ]

open Consts in
/-- `ss3_commands` -/
def ss3Table : List (Byte × Nat) :=
  [ (ss3_cursor_up, vk_cursor_up), (ss3_cursor_down, vk_cursor_down),
    (ss3_cursor_right, vk_cursor_right), (ss3_cursor_left, vk_cursor_left),
    (ss3_cursor_home, vk_home), (ss3_cursor_end, vk_end), (ss3_cursor_tab, vk_ht),
    (ss3_enter, vk_enter), (ss3_f1, vk_f1), (ss3_f2, vk_f2), (ss3_f3, vk_f3), (ss3_f4, vk_f4) ]

open Consts in
/-- `keypad_commands` -/
def keypadTable : List (Nat × Nat) :=
  [ (keypad_home, vk_home), (keypad_insert, vk_ins), (keypad_del, vk_del), (keypad_end, vk_end),
    (keypad_pgup, vk_pgup), (keypad_pgdn, vk_pgdn),
    (keypad_f1, vk_f1), (keypad_f2, vk_f2), (keypad_f3, vk_f3), (keypad_f4, vk_f4), (keypad_f5, vk_f5),
    (keypad_f6, vk_f6), (keypad_f7, vk_f7), (keypad_f8, vk_f8), (keypad_f9, vk_f9), (keypad_f10, vk_f10),
    (keypad_f11, vk_f11), (keypad_f12, vk_f12) ]

/-- `seq.meta ? vk_modifier::meta : vk_modifier::none` -/
def metaMod (c : CtrlSeq) : Nat := if c.metaFlag then Consts.vkmod_meta else Consts.vkmod_none

/-- `(seq.arguments.size() > 1 ? convert_modifier_argument(seq.arguments[1]) : none) | meta` -/
def seqMods (c : CtrlSeq) : Nat :=
  (match c.args with
   | _ :: m :: _ => convertModifier m
   | _ => Consts.vkmod_none) ||| metaMod c

/-- `convert_control_sequence` -/
def convertControlSequence (c : CtrlSeq) : Token :=
  match lookupByte c.command cursorTable with
  | some k =>
    -- `seq.arguments.empty() ? "1" : seq.arguments[0]`
    let repArg : List Byte := match c.args with | [] => [0x31] | a :: _ => a
    .key { key := k, mods := seqMods c, rep := max (argToInt repArg) 1, seq := .ctrl c }
  | none => .ctrl c

/-- `convert_ss3_sequence` -/
def convertSs3Sequence (c : CtrlSeq) : Token :=
  match lookupByte c.command ss3Table with
  | some k => .key { key := k, mods := metaMod c, rep := 1, seq := .ctrl c }
  | none => .ctrl c

/-- `convert_keypad_sequence`.  `seq.arguments[0]` is unguarded in the C++ (undefined for an empty
    argument vector); the model takes the empty argument there and `C07_input_arguments_nonempty`
    shows the decoder never produces such a sequence. -/
def convertKeypadSequence (c : CtrlSeq) : Token :=
  let a0 : List Byte := c.args.headD []
  match a0 with
  | [] => .ctrl c
  | d :: _ =>
    if !isDigit d then .ctrl c else
    match lookupInt (argToInt a0) keypadTable with
    | some k => .key { key := k, mods := seqMods c, rep := 1, seq := .ctrl c }
    | none => .ctrl c

/-- `convert_common_control_sequence` -/
def convertCommon (c : CtrlSeq) : Token :=
  if c.initiator = Consts.control7_csi_1 then
    if c.command = Consts.csi_keypad_function then convertKeypadSequence c else convertControlSequence c
  else if c.initiator = Consts.control7_ss3_1 then convertSs3Sequence c
  else .ctrl c

/-- `get_well_known_virtual_key` -/
def wellKnown : Token → Token
  | .ctrl c => convertCommon c
  | t => t

/-- the tokens a client sees for a byte string (concatenated over callbacks) -/
def tokens (s : PState) (bs : List Byte) : List Token := (rawTokens bs s).map wellKnown

/-- one channel delivery = one `callback(results)`: the new decoder state and the tokens completed -/
def deliver (s : PState) (chunk : List Byte) : PState × List Token := (feedAll chunk s, tokens s chunk)

structure Deliveries where
  state : PState
  tokenLists : List (List Token)     -- one entry per callback invocation, in order
  callbacks : Nat
deriving Repr

/-- a sequence of channel deliveries to a client that re-arms its read from the callback -/
def deliverAll : List (List Byte) → PState → Deliveries
  | [], s => { state := s, tokenLists := [], callbacks := 0 }
  | c :: cs, s =>
    let r := deliverAll cs (deliver s c).1
    { state := r.state, tokenLists := (deliver s c).2 :: r.tokenLists, callbacks := r.callbacks + 1 }

theorem tokens_append (s : PState) (xs ys : List Byte) :
    tokens s (xs ++ ys) = tokens s xs ++ tokens (feedAll xs s) ys := by
  simp [tokens, rawTokens_append]

end Tpp
