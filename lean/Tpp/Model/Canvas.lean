import Tpp.Model.Types
/-!
`canvas` (`src/canvas.cpp`) and `for_each_in_region` as total functions.
The grid is a row-major `List Element`; `grid.length = width * height` is a separate invariant
(`Canvas.WF`), not a subtype.  Out-of-range accesses (undefined behaviour in C++) are totalised with
`getD`/`set` no-ops; property theorems are stated under the in-range guards.
Sizes are assumed non-negative with `width * height < 2³¹` (no `int32` overflow).
-/
namespace Tpp

structure Canvas where
  size : Extent
  grid : List Element
deriving DecidableEq, Repr, Inhabited

/-- `canvas(extent)` -/
def Canvas.new (e : Extent) : Canvas :=
  { size := e, grid := List.replicate (e.width.toNat * e.height.toNat) {} }

/-- `row * size_.width_ + column` as the vector index -/
def Canvas.index (c : Canvas) (x y : Int) : Nat := (y * c.size.width + x).toNat

/-- `cvs[x][y]` (read) -/
def Canvas.get (c : Canvas) (x y : Int) : Element := c.grid.getD (c.index x y) {}

/-- `cvs[x][y] = e` -/
def Canvas.set (c : Canvas) (x y : Int) (e : Element) : Canvas :=
  { c with grid := c.grid.set (c.index x y) e }

def Canvas.WF (c : Canvas) : Prop :=
  0 ≤ c.size.width ∧ 0 ≤ c.size.height ∧ c.grid.length = c.size.width.toNat * c.size.height.toNat

/-- integers `start, start+1, …` (`len` of them; none when `len ≤ 0`) -/
def intRange (start len : Int) : List Int := (List.range len.toNat).map (fun (i : Nat) => start + Int.ofNat i)

/-- the `(column, row)` pairs `for_each_in_region` passes to its callable, in call order -/
def regionCoords (r : Rectangle) : List (Int × Int) :=
  (intRange r.origin.y r.size.height).flatMap fun row =>
    (intRange r.origin.x r.size.width).map fun col => (col, row)

/-- `for_each_in_region(c, r, callable)`: the argument triples `(container[column][row], column, row)`
    the callable receives, in call order -/
def Canvas.visits (c : Canvas) (r : Rectangle) : List (Element × Int × Int) :=
  (regionCoords r).map fun p => (c.get p.1 p.2, p.1, p.2)

/-- `for_each_in_region(c, r, [&](element &cell, …){ cell = e; })`: the callable is handed a REFERENCE to the cell,
    so assigning through it assigns the canvas cell – a region fill -/
def Canvas.fill (c : Canvas) (r : Rectangle) (e : Element) : Canvas :=
  (regionCoords r).foldl (fun acc p => acc.set p.1 p.2 e) c

/-- `canvas::resize(size)` -/
def Canvas.resize (c : Canvas) (size : Extent) : Canvas :=
  let minW := min size.width c.size.width
  let minH := min size.height c.size.height
  let blank : List Element := List.replicate (size.width * size.height).toNat {}
  let grid := (regionCoords ⟨⟨0, 0⟩, ⟨minW, minH⟩⟩).foldl
    (fun g (p : Int × Int) => g.set (p.2 * size.width + p.1).toNat (c.get p.1 p.2)) blank
  { size := size, grid := grid }

end Tpp
