import Tpp.Model.Keys
/-!
The read protocol with the posted reads made explicit.

`terminal::async_read(handler)` posts a read on the channel; a delivery completes the OLDEST read that is posted and the
handler of that read is invoked, once, with the tokens of that delivery.  A client may keep several reads posted (a window);
the clients considered here re-arm one read from inside every handler invocation.

`RState.served` records, per handler invocation, WHICH read it belonged to and the tokens it was handed; `RState.lost` the
deliveries that found no read posted (a stalled client).
-/
namespace Tpp

structure RState where
  parser : PState
  /-- ids of the reads posted and not yet completed, oldest first -/
  posted : List Nat := []
  /-- the id the next posted read gets -/
  next : Nat := 0
  served : List (Nat × List Token) := []
  lost : List (List Byte) := []

/-- `async_read(handler)` -/
def RState.post (s : RState) : RState := { s with posted := s.posted ++ [s.next], next := s.next + 1 }

/-- the client posts `k` reads -/
def RState.postN : Nat → RState → RState
  | 0, s => s
  | k + 1, s => RState.postN k s.post

/-- one delivery: the oldest posted read completes; its handler sees the tokens and re-arms one read -/
def RState.deliver (s : RState) (data : List Byte) : RState :=
  match s.posted with
  | [] => { s with lost := s.lost ++ [data] }
  | id :: rest =>
    ({ s with parser := feedAll data s.parser, posted := rest, served := s.served ++ [(id, tokens s.parser data)] }).post

def RState.deliverAll (s : RState) (chunks : List (List Byte)) : RState := chunks.foldl RState.deliver s

end Tpp
