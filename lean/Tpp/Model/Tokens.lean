import Tpp.Model.Types
/-!
Token-level value types (`control_sequence.hpp`, `virtual_key.hpp`, `mouse.hpp`) as plain data.
Field order is the C++ DECLARATION order: it is the order of the defaulted `<=>`/`==`.

Kept deliberately small (only what the comparison slice C15 needs); the input-decoder slice is expected to
define richer versions of the same records – these are the reconciliation points.
-/
namespace Tpp

/-- `control_sequence { byte initiator; byte command; bool meta; std::vector<byte_storage> arguments; byte extender; }`
    (`meta` is a Lean keyword, hence the quotes; the field really is called `meta`) -/
structure ControlSequence where
  initiator : Byte := 0
  command : Byte := 0
  «meta» : Bool := false
  arguments : List (List Byte) := []
  extender : Byte := 0
deriving DecidableEq, Repr, Inhabited

/-- `virtual_key::input_sequence = std::variant<byte, control_sequence>` (constructor order = variant index) -/
inductive KeySequence
  | raw (b : Byte)
  | control (c : ControlSequence)
deriving DecidableEq, Repr, Inhabited

/-- `virtual_key { vk key; vk_modifier modifiers; int repeat_count; input_sequence sequence; }`;
    `key`/`modifiers` are the stored enum values (`enum class … : byte`) -/
structure VirtualKey where
  key : Byte := 0
  modifiers : Byte := 0
  repeatCount : Int := 0
  sequence : KeySequence := .raw 0
deriving DecidableEq, Repr, Inhabited

/-- `mouse::event { event_type action_; point position_; }`; `action` is the enum value -/
structure MouseEvent where
  action : Nat := 4
  position : Point := ⟨0, 0⟩
deriving DecidableEq, Repr, Inhabited

end Tpp
