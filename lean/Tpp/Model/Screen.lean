import Tpp.Model.Canvas
import Tpp.Model.Terminal
import Tpp.Model.Order
/-! `screen::draw` (`src/screen.cpp`) as a function producing the operations it streams to the terminal. -/
namespace Tpp

structure ScreenState where
  /-- `last_frame_`, initially `canvas({})` -/
  last : Canvas := Canvas.new ⟨0, 0⟩
deriving Repr, Inhabited

/-- the frame a draw is diffed against: blanks of the new size after a size change, else the last frame -/
def Screen.base (st : ScreenState) (cvs : Canvas) : Canvas :=
  if cvs.size ≠ st.last.size then Canvas.new cvs.size else st.last

/-- per cell, in `for_each_in_region` order: `if (last_frame_[x][y] != elem) terminal_ << move_cursor({x,y}) << elem` -/
def Screen.cellOps (base cvs : Canvas) (p : Int × Int) : List Op :=
  if Element.eq (base.get p.1 p.2) (cvs.get p.1 p.2) then []
  else [.moveCursor ⟨p.1, p.2⟩, .writeElement (cvs.get p.1 p.2)]

/-- the operations `screen::draw(cvs)` streams to its terminal -/
def Screen.drawOps (st : ScreenState) (cvs : Canvas) : List Op :=
  (if cvs.size ≠ st.last.size then [Op.erase .display] else []) ++
  (regionCoords ⟨⟨0, 0⟩, cvs.size⟩).flatMap (Screen.cellOps (Screen.base st cvs) cvs)

/-- `screen::draw(cvs)`: the new screen state (`last_frame_ = cvs`) and the operations -/
def Screen.draw (st : ScreenState) (cvs : Canvas) : ScreenState × List Op :=
  ({ last := cvs }, Screen.drawOps st cvs)

end Tpp
