import Tpp.Model.Encoder
import Tpp.Ref.Glyphs
/-! Byte-range facts and the storage shape of valid glyphs (helpers for `Tpp.Props.C15`). -/
namespace Tpp

theorem byte_lt_0x80 : ∀ b : Byte, b < 0x80 → (b = 0 ∨ b &&& 0x80 = 0) := by decide +kernel
theorem byte_ge_0x80 : ∀ b : Byte, 0x80 ≤ b → (b ≠ 0 ∧ b &&& 0x80 ≠ 0) := by decide +kernel

/-- a valid UTF-8 glyph's storage is its printed bytes, zero padded -/
theorem valid_storage (g : Glyph) (hv : g.Valid) (hu : g.cs = .utf8) :
    [g.b0, g.b1, g.b2] = (g.printed ++ [0, 0]).take 3 := by
  rcases hv hu with ⟨h0, h1, h2⟩ | ⟨h0, h0', _, h2⟩ | ⟨h0, _, _, _⟩
  · simp [Glyph.printed, hu, h0, h1, h2]
  · have n0 : ¬ g.b0 < 0x80 := by
      have : ∀ b : Byte, 0xC2 ≤ b → ¬ b < 0x80 := by decide +kernel
      exact this _ h0
    simp [Glyph.printed, hu, n0, h0', h2]
  · have n0 : ¬ g.b0 < 0x80 ∧ ¬ g.b0 ≤ 0xDF := by
      have : ∀ b : Byte, 0xE0 ≤ b → ¬ b < 0x80 ∧ ¬ b ≤ 0xDF := by decide +kernel
      exact this _ h0
    simp [Glyph.printed, hu, n0.1, n0.2]

end Tpp
