import Tpp.Model.Markup
/-! Helper lemmas about the decoder loop: consumption, fuel, handler table, plain text. -/
namespace Tpp.Markup
open Tpp

theorem parseLoop_nil (st sc e) : parseLoop [] st sc e = (e, []) := by
  simp [parseLoop]

theorem parseLoop_done (bs : List Byte) (sc e) : parseLoop bs .done sc e = (e, bs) := by
  cases bs <;> simp [parseLoop]

theorem parseLoop_cons (b : Byte) (bs st sc e) (h : st ≠ .done) :
    parseLoop (b :: bs) st sc e = parseLoop bs (step st b sc e).1 (step st b sc e).2.1 (step st b sc e).2.2 := by
  simp [parseLoop, h]

/-- the loop never gives back more than it was given -/
theorem parseLoop_length (bs : List Byte) : ∀ st sc e, (parseLoop bs st sc e).2.length ≤ bs.length := by
  induction bs with
  | nil => intro st sc e; simp [parseLoop]
  | cons b bs ih =>
    intro st sc e
    by_cases h : st = .done
    · subst h; simp [parseLoop_done]
    · rw [parseLoop_cons b bs st sc e h]
      exact Nat.le_trans (ih _ _ _) (Nat.le_succ _)

/-- every `parse_element` call on a non-empty text consumes at least one character -/
theorem parseElement_consumes (b : Byte) (bs : List Byte) (prev : Element) :
    (parseElement (b :: bs) prev).2.length ≤ bs.length := by
  unfold parseElement
  rw [parseLoop_cons _ _ _ _ _ (by decide)]
  exact parseLoop_length _ _ _ _

theorem encodeFuel_congr : ∀ (n m : Nat) (bs : List Byte) (prev : Element), bs.length ≤ n → bs.length ≤ m →
    encodeFuel n bs prev = encodeFuel m bs prev := by
  intro n
  induction n with
  | zero =>
    intro m bs prev h1 _
    have : bs = [] := List.eq_nil_of_length_eq_zero (Nat.le_zero.mp h1)
    subst this
    cases m <;> simp [encodeFuel]
  | succ n ih =>
    intro m bs prev h1 h2
    cases bs with
    | nil => cases m <;> simp [encodeFuel]
    | cons b bs =>
      cases m with
      | zero => simp at h2
      | succ m =>
        simp only [encodeFuel]
        have hc := parseElement_consumes b bs prev
        simp only [List.length_cons] at h1 h2
        rw [ih m _ _ (by omega) (by omega)]

/-- `text.length` calls are always enough: more fuel changes nothing -/
theorem encodeFuel_enough (n : Nat) (bs : List Byte) (prev : Element) (h : bs.length ≤ n) :
    encodeFuel n bs prev = encodeFrom bs prev :=
  encodeFuel_congr n bs.length bs prev h (Nat.le_refl _)

theorem encodeFrom_nil (prev : Element) : encodeFrom [] prev = [] := by
  simp [encodeFrom, encodeFuel]

/-- the defining equation of the `encode` loop, free of fuel -/
theorem encodeFrom_cons (b : Byte) (bs : List Byte) (prev : Element) :
    encodeFrom (b :: bs) prev =
      (parseElement (b :: bs) prev).1 :: encodeFrom (parseElement (b :: bs) prev).2 (parseElement (b :: bs) prev).1 := by
  simp only [encodeFrom, List.length_cons, encodeFuel]
  congr 1
  exact encodeFuel_enough _ _ _ (parseElement_consumes b bs prev)

theorem encodeFrom_of_ne_nil (bs : List Byte) (prev : Element) (h : bs ≠ []) :
    encodeFrom bs prev = (parseElement bs prev).1 :: encodeFrom (parseElement bs prev).2 (parseElement bs prev).1 := by
  cases bs with
  | nil => exact absurd rfl h
  | cons b bs => exact encodeFrom_cons b bs prev

theorem encodeFuel_length (n : Nat) : ∀ (bs : List Byte) (prev : Element), (encodeFuel n bs prev).length ≤ bs.length := by
  induction n with
  | zero => intro bs prev; cases bs <;> simp [encodeFuel]
  | succ n ih =>
    intro bs prev
    cases bs with
    | nil => simp [encodeFuel]
    | cons b bs =>
      simp only [encodeFuel, List.length_cons]
      have := ih (parseElement (b :: bs) prev).2 (parseElement (b :: bs) prev).1
      have := parseElement_consumes b bs prev
      omega

/-- the table entry of every handler state is the handler `step` dispatches to -/
theorem handlerTable_index (st : PState) (h : st ≠ .done) : handlerTable[st.index]? = some (step st) := by
  cases st <;> first | rfl | exact absurd rfl h

theorem parseLoopChecked_eq (bs : List Byte) : ∀ st sc e, parseLoopChecked bs st sc e = some (parseLoop bs st sc e) := by
  induction bs with
  | nil => intro st sc e; simp [parseLoopChecked, parseLoop]
  | cons b bs ih =>
    intro st sc e
    by_cases h : st = .done
    · subst h; simp [parseLoopChecked, parseLoop]
    · simp only [parseLoopChecked, h, if_false, handlerTable_index st h, parseLoop]
      exact ih _ _ _

end Tpp.Markup
