import Tpp.Lemmas.Control
import Tpp.Ref.Sys
/-! The agreement invariant is preserved by every operation (`agree_step`) and by resize events. -/
namespace Tpp

theorem agree_init (vt : VT) (hu : vt.Unknown) (sz : Extent) (hw : sz.width = vt.w) (hh : sz.height = vt.h) :
    Agree { size := sz } vt :=
  ⟨⟨hu.ground, hu.ok, (by intro e h; cases h), (by simp [CharsetAgree, hu.g0, hu.utf8]), (by intro b h; cases h)⟩,
   ⟨hw, hh, (by intro p h; cases h), (by intro p h; cases h)⟩⟩

theorem agreeRend_init (vt : VT) (hu : vt.Unknown) : AgreeRend {} vt :=
  ⟨hu.ground, hu.ok, (by intro e h; cases h), (by simp [CharsetAgree, hu.g0, hu.utf8]), (by intro b h; cases h)⟩

-- ------------------------------------------------------------------ writes
/-- `write_optional_default_attribute`: afterwards the rendition is known -/
theorem agree_defaultAttr (s : TermState) (vt : VT) (hA : Agree s vt) :
    Agree (defaultAttr s).1 (vt.feedAll (defaultAttr s).2) ∧ (defaultAttr s).1.last.isSome = true ∧
    (vt.feedAll (defaultAttr s).2).log = vt.log ∧
    (defaultAttr s).1.cursor = s.cursor ∧ (defaultAttr s).1.size = s.size := by
  obtain ⟨⟨hg, hok, hrend, hcs, hvis⟩, hC⟩ := hA
  unfold defaultAttr
  cases hl : s.last with
  | none =>
    simp only
    rw [VT.feed_sgr0 vt hg]
    refine ⟨⟨⟨by simpa using hg, by simpa using hok, ?_, ?_, by simpa using hvis⟩, ?_⟩, by simp, by simp, by simp, by simp⟩
    · intro e he; simp at he; subst he; simp [rendOf_default]
    · simpa [hl, CharsetAgree] using hcs
    · exact ⟨hC.width, hC.height, hC.cursor, hC.saved⟩
  | some l =>
    refine ⟨⟨⟨hg, hok, hrend, hcs, hvis⟩, hC⟩, ?_, ?_, ?_, ?_⟩ <;> simp [hl]

/-- one `write_element` on a state whose rendition is known -/
theorem agree_rawElement (beh : Behaviour) (s : TermState) (vt : VT) (e : Element) (hA : Agree s vt)
    (hw : e.wf = true) (hk : s.last.isSome = true) :
    Agree (rawElement beh s e).1 (vt.feedAll (rawElement beh s e).2) ∧
    (∃ x y, (vt.feedAll (rawElement beh s e).2).log = vt.log ++ [(x, y, cellOf e)] ∧
       (∀ p, s.cursor = some p → x = p.x.toNat ∧ y = p.y.toNat)) ∧
    (rawElement beh s e).1.last.isSome = true := by
  obtain ⟨⟨hg, hok, hrend, hcs, hvis⟩, hC⟩ := hA
  cases hl : s.last with
  | none => simp [hl] at hk
  | some l =>
    obtain ⟨g0, u, hfeed, hagree⟩ := feed_rawElement_from beh vt l e hg (hrend l hl) (by simpa [hl] using hcs) hw
    have hout : (rawElement beh s e).2 = elementCtl beh (some l) e ++ e.glyph.payload := by simp [rawElement, hl]
    rw [hout, hfeed]
    generalize hvt1 : ({ vt with g0 := g0, utf8 := u, rend := rendOf e.attr } : VT) = vt1 at *
    have e_w : vt1.w = vt.w := by subst hvt1; rfl
    have e_h : vt1.h = vt.h := by subst hvt1; rfl
    have e_cx : vt1.cx = vt.cx := by subst hvt1; rfl
    have e_cy : vt1.cy = vt.cy := by subst hvt1; rfl
    have e_p : vt1.pending = vt.pending := by subst hvt1; rfl
    have e_log : vt1.log = vt.log := by subst hvt1; rfl
    have e_saved : vt1.saved = vt.saved := by subst hvt1; rfl
    have e_ps : vt1.ps = vt.ps := by subst hvt1; rfl
    have e_mal : vt1.malformed = vt.malformed := by subst hvt1; rfl
    have e_vis : vt1.cursorVisible = vt.cursorVisible := by subst hvt1; rfl
    have e_rend : vt1.rend = rendOf e.attr := by subst hvt1; rfl
    have hcell : ({ bytes := e.glyph.text, cs := if vt1.utf8 then .utf8 else vt1.g0, rend := vt1.rend } : Cell) = cellOf e := by
      simp only [cellOf, e_rend]
      by_cases hu : e.glyph.cs = .utf8 <;> simp_all [CharsetAgree]
    refine ⟨⟨⟨by simp [e_ps, hg], by simp [e_mal, hok], ?_, ?_, ?_⟩, ?_⟩, ?_, ?_⟩
    · intro e' he'; simp [rawElement, advanceCursor] at he'
      have : e' = e := by
        cases hc : s.cursor <;> simp [hc] at he' <;> (try split at he') <;> simp_all
      subst this; simp [e_rend]
    · have hlast : (rawElement beh s e).1.last = some e := by
        simp [rawElement, advanceCursor]; cases hc : s.cursor <;> simp <;> (try split) <;> rfl
      rw [hlast]
      simp only [CharsetAgree] at hagree ⊢
      by_cases hu : e.glyph.cs = .utf8 <;> simp_all
    · intro b hb
      have : s.visible = some b := by
        simp [rawElement, advanceCursor] at hb
        cases hc : s.cursor <;> simp [hc] at hb <;> (try split at hb) <;> simp_all
      simpa [e_vis] using hvis b this
    · -- cursor half
      have hsz : (rawElement beh s e).1.size = s.size := by
        simp [rawElement, advanceCursor]; cases hc : s.cursor <;> simp <;> (try split) <;> rfl
      have hsv : (rawElement beh s e).1.saved = s.saved := by
        simp [rawElement, advanceCursor]; cases hc : s.cursor <;> simp <;> (try split) <;> rfl
      refine ⟨by simp [hsz, e_w, hC.width], by simp [hsz, e_h, hC.height], ?_, ?_⟩
      · intro p hp
        cases hc : s.cursor with
        | none => simp [rawElement, advanceCursor, hc] at hp
        | some q =>
          obtain ⟨q1, q2, q3, q4, q5, q6, q7⟩ := hC.cursor q hc
          simp [rawElement, advanceCursor, hc] at hp
          split at hp
          · simp at hp
          · rename_i hne
            simp at hp; subst hp
            have hlt : vt1.cx + 1 < vt1.w := by
              have : q.x + 1 ≠ s.size.width := hne
              rw [hC.width] at this
              rw [e_cx, e_w]; omega
            obtain ⟨a1, a2, a3⟩ := VT.print_advance vt1 e.glyph.text (by rw [e_p]; exact q5) hlt
            simp only [VT.print_w, VT.print_h]
            refine ⟨by omega, q2, ?_, ?_, a3, ?_, ?_⟩
            · rw [a1, e_cx]; omega
            · rw [a2, e_cy]; omega
            · rw [a1]; exact hlt
            · rw [a2, e_cy, e_h]; exact q7
      · intro p hp
        rw [hsv] at hp
        obtain ⟨s1, s2, s3, s4, s5⟩ := hC.saved p hp
        simp only [VT.print_saved, VT.print_w, VT.print_h]
        exact ⟨s1, s2, by rw [e_saved]; exact s3, by rw [e_w]; exact s4, by rw [e_h]; exact s5⟩
    · by_cases hpd : vt1.pending = false
      · refine ⟨vt1.cx, vt1.cy, ?_, ?_⟩
        · rw [VT.print_log_at vt1 _ hpd, hcell, e_log]
        · intro p hp
          obtain ⟨q1, q2, q3, q4, q5, q6, q7⟩ := hC.cursor p hp
          rw [e_cx, e_cy]; exact ⟨q3.symm, q4.symm⟩
      · obtain ⟨x, y, hxy⟩ := VT.print_log vt1 e.glyph.text
        refine ⟨x, y, ?_, ?_⟩
        · rw [hxy, hcell, e_log]
        · intro p hp
          obtain ⟨q1, q2, q3, q4, q5, q6, q7⟩ := hC.cursor p hp
          rw [e_p] at hpd; exact absurd q5 hpd
    · simp [rawElement, advanceCursor]; cases hc : s.cursor <;> simp <;> (try split) <;> rfl

end Tpp

namespace Tpp

/-- a run of `write_element`s: agreement is kept and the log grows by exactly the requested cells -/
theorem agree_rawElements (beh : Behaviour) (es : List Element) :
    ∀ (s : TermState) (vt : VT), Agree s vt → (∀ e ∈ es, e.wf = true) → s.last.isSome = true →
    Agree (rawElements beh s es).1 (vt.feedAll (rawElements beh s es).2) ∧
    (∃ entries, (vt.feedAll (rawElements beh s es).2).log = vt.log ++ entries ∧
        entries.map (·.2.2) = es.map cellOf) ∧
    (rawElements beh s es).1.last.isSome = true := by
  induction es with
  | nil => intro s vt hA _ hk; exact ⟨by simpa [rawElements] using hA, ⟨[], by simp [rawElements], rfl⟩, by simpa [rawElements] using hk⟩
  | cons e es ih =>
    intro s vt hA hw hk
    obtain ⟨hA1, ⟨x, y, hlog, _⟩, hk1⟩ := agree_rawElement beh s vt e hA (hw e (by simp)) hk
    obtain ⟨hA2, ⟨entries, hent, hcells⟩, hk2⟩ := ih _ _ hA1 (fun e' he' => hw e' (by simp [he'])) hk1
    simp only [rawElements, VT.feedAll_append]
    refine ⟨hA2, ⟨(x, y, cellOf e) :: entries, ?_, ?_⟩, hk2⟩
    · rw [hent, hlog]; simp
    · simp [hcells]

end Tpp

namespace Tpp

/-- the library's view of where a move goes is where the terminal's cursor ends up -/
theorem feed_moveCursor (s : TermState) (vt : VT) (hA : Agree s vt) (p : Point)
    (hx0 : 0 ≤ p.x) (hxw : p.x < s.size.width) (hy0 : 0 ≤ p.y) (hyh : p.y < s.size.height) :
    vt.feedAll (moveCursorBytes s.cursor p) = { vt with cx := p.x.toNat, cy := p.y.toNat, pending := false } := by
  obtain ⟨⟨hg, _, _, _, _⟩, hC⟩ := hA
  have hxw' : p.x.toNat < vt.w := by have := hC.width; omega
  have hyh' : p.y.toNat < vt.h := by have := hC.height; omega
  unfold moveCursorBytes
  cases hc : s.cursor with
  | none => exact feed_CUP vt hg p hx0 hy0 hxw' hyh'
  | some c =>
    obtain ⟨c1, c2, c3, c4, c5, c6, c7⟩ := hC.cursor c hc
    simp only
    by_cases h1 : c = p
    · subst h1; simp only [if_true, VT.feedAll_nil]
      cases vt; simp_all
    · simp only [h1, if_false]
      by_cases h2 : c.y = p.y
      · simp only [h2, if_true]
        rw [feed_CHA vt hg p.x hx0 hxw']
        have : vt.cy = p.y.toNat := by rw [← c4, h2]
        cases vt; simp_all
      · simp only [h2, if_false]
        by_cases h3 : c.x = p.x
        · simp only [h3, if_true]
          have hcx : vt.cx = p.x.toNat := by rw [← c3, h3]
          by_cases h4 : c.y - p.y > 0
          · simp only [h4, if_true]
            rw [feed_CUU vt hg _ h4]
            have : vt.cy - (c.y - p.y).toNat = p.y.toNat := by omega
            cases vt; simp_all
          · simp only [h4, if_false]
            rw [feed_CUD vt hg _ (by omega)]
            have : min (vt.cy + (-(c.y - p.y)).toNat) (vt.h - 1) = p.y.toNat := by omega
            cases vt; simp_all
        · simp only [h3, if_false]
          exact feed_CUP vt hg p hx0 hy0 hxw' hyh'

theorem agree_moveCursor (beh : Behaviour) (s : TermState) (vt : VT) (hA : Agree s vt) (p : Point)
    (hw : (Op.moveCursor p).WF s) :
    Agree (step beh s (.moveCursor p)).1 (vt.feedAll (step beh s (.moveCursor p)).2) := by
  obtain ⟨hx0, hxw, hy0, hyh⟩ := hw
  have hf := feed_moveCursor s vt hA p hx0 hxw hy0 hyh
  obtain ⟨⟨hg, hok, hrend, hcs, hvis⟩, hC⟩ := hA
  simp only [step]
  rw [hf]
  refine ⟨⟨hg, hok, hrend, ?_, hvis⟩, ⟨hC.width, hC.height, ?_, hC.saved⟩⟩
  · simpa [CharsetAgree] using hcs
  · intro q hq
    simp at hq; subst hq
    have := hC.width; have := hC.height
    refine ⟨hx0, hy0, rfl, rfl, rfl, ?_, ?_⟩ <;> simp <;> omega

theorem agree_frame (s s' : TermState) (vt vt' : VT) (hA : Agree s vt)
    (h1 : s'.last = s.last) (h2 : s'.size = s.size) (h3 : s'.cursor = s.cursor) (h4 : s'.saved = s.saved)
    (h5 : s'.visible = s.visible)
    (v1 : vt'.ps = vt.ps) (v2 : vt'.malformed = vt.malformed) (v3 : vt'.rend = vt.rend) (v4 : vt'.g0 = vt.g0)
    (v5 : vt'.utf8 = vt.utf8) (v6 : vt'.cursorVisible = vt.cursorVisible) (v7 : vt'.w = vt.w) (v8 : vt'.h = vt.h)
    (v9 : vt'.cx = vt.cx) (v10 : vt'.cy = vt.cy) (v11 : vt'.pending = vt.pending) (v12 : vt'.saved = vt.saved) :
    Agree s' vt' := by
  obtain ⟨⟨hg, hok, hrend, hcs, hvis⟩, hC⟩ := hA
  refine ⟨⟨by rw [v1]; exact hg, by rw [v2]; exact hok, ?_, ?_, ?_⟩, ⟨?_, ?_, ?_, ?_⟩⟩
  · intro e he; rw [v3]; exact hrend e (by rw [← h1]; exact he)
  · rw [h1]; simpa [CharsetAgree, v4, v5] using hcs
  · intro b hb; rw [v6]; exact hvis b (by rw [← h5]; exact hb)
  · rw [h2, v7]; exact hC.width
  · rw [h2, v8]; exact hC.height
  · intro p hp; rw [v7, v8, v9, v10, v11]; exact hC.cursor p (by rw [← h3]; exact hp)
  · intro p hp; rw [v7, v8, v12]; exact hC.saved p (by rw [← h4]; exact hp)

theorem agree_hide (beh) (s : TermState) (vt : VT) (hA : Agree s vt) :
    Agree (step beh s .hideCursor).1 (vt.feedAll (step beh s .hideCursor).2) := by
  have hg := hA.1.ground
  simp only [step]
  by_cases h : s.visible = some false
  · simp only [h, if_true, VT.feedAll_nil]
    exact agree_frame s _ vt vt hA rfl rfl rfl rfl (by simp [h]) rfl rfl rfl rfl rfl rfl rfl rfl rfl rfl rfl rfl
  · simp only [h, if_false]
    rw [feed_hide vt hg]
    obtain ⟨⟨_, hok, hrend, hcs, hvis⟩, hC⟩ := hA
    refine ⟨⟨hg, hok, hrend, by simpa [CharsetAgree] using hcs, ?_⟩, ⟨hC.width, hC.height, hC.cursor, hC.saved⟩⟩
    intro b hb; simp at hb; simp [← hb]

theorem agree_show (beh) (s : TermState) (vt : VT) (hA : Agree s vt) :
    Agree (step beh s .showCursor).1 (vt.feedAll (step beh s .showCursor).2) := by
  have hg := hA.1.ground
  simp only [step]
  by_cases h : s.visible = some true
  · simp only [h, if_true, VT.feedAll_nil]
    exact agree_frame s _ vt vt hA rfl rfl rfl rfl (by simp [h]) rfl rfl rfl rfl rfl rfl rfl rfl rfl rfl rfl rfl
  · simp only [h, if_false]
    rw [feed_show vt hg]
    obtain ⟨⟨_, hok, hrend, hcs, hvis⟩, hC⟩ := hA
    refine ⟨⟨hg, hok, hrend, by simpa [CharsetAgree] using hcs, ?_⟩, ⟨hC.width, hC.height, hC.cursor, hC.saved⟩⟩
    intro b hb; simp at hb; simp [← hb]

theorem agree_save (beh) (s : TermState) (vt : VT) (hA : Agree s vt) :
    Agree (step beh s .saveCursor).1 (vt.feedAll (step beh s .saveCursor).2) := by
  have hg := hA.1.ground
  simp only [step]
  rw [feed_save vt hg]
  obtain ⟨⟨_, hok, hrend, hcs, hvis⟩, hC⟩ := hA
  refine ⟨⟨hg, hok, hrend, by simpa [CharsetAgree] using hcs, hvis⟩, ⟨hC.width, hC.height, hC.cursor, ?_⟩⟩
  intro p hp
  obtain ⟨c1, c2, c3, c4, c5, c6, c7⟩ := hC.cursor p hp
  exact ⟨c1, c2, by simp [c3, c4], by simpa [c3] using c6, by simpa [c4] using c7⟩

theorem agree_restore (beh) (s : TermState) (vt : VT) (hA : Agree s vt) :
    Agree (step beh s .restoreCursor).1 (vt.feedAll (step beh s .restoreCursor).2) := by
  have hg := hA.1.ground
  simp only [step]
  rw [feed_restore vt hg]
  obtain ⟨⟨_, hok, hrend, hcs, hvis⟩, hC⟩ := hA
  cases hs : s.saved with
  | none =>
    have hc : ∀ cx cy : Nat, Agree { s with cursor := none } { vt with cx := cx, cy := cy, pending := false } := by
      intro cx cy
      refine ⟨⟨hg, hok, hrend, by simpa [CharsetAgree] using hcs, hvis⟩,
        ⟨hC.width, hC.height, (by intro p hp; cases hp), hC.saved⟩⟩
    cases hv : vt.saved with
    | none => simpa [hv, hs] using hc 0 0
    | some q => obtain ⟨x, y⟩ := q; simpa [hv, hs] using hc x y
  | some p =>
    obtain ⟨s1, s2, s3, s4, s5⟩ := hC.saved p hs
    rw [s3]
    refine ⟨⟨hg, hok, hrend, by simpa [CharsetAgree] using hcs, hvis⟩, ⟨hC.width, hC.height, ?_, ?_⟩⟩
    · intro q hq; simp at hq; subst hq
      exact ⟨s1, s2, rfl, rfl, rfl, s4, s5⟩
    · intro q hq
      have := hC.saved q (by rw [hs]; exact hq)
      simpa [s3] using this

end Tpp

namespace Tpp

theorem defaultAttr_valid : (({} : Attr)).valid = true := by decide

/-- an erase manipulator first makes the rendition default, then clears exactly its region -/
theorem feed_eraseOp (beh : Behaviour) (s : TermState) (vt : VT) (hA : Agree s vt) (k : EraseKind) :
    vt.feedAll (step beh s (.erase k)).2 = ({ vt with rend := {} } : VT).eraseWhere (eraseRegion k vt.cx vt.cy) := by
  obtain ⟨⟨hg, hok, hrend, hcs, hvis⟩, hC⟩ := hA
  simp only [step, changeToDefault]
  cases hl : s.last with
  | none =>
    simp only [List.append_assoc, VT.feedAll_append]
    rw [VT.feed_sgr0 vt hg, ← VT.feedAll_append, feed_erase _ (by simpa using hg) k]
  | some l =>
    simp only [List.append_assoc, VT.feedAll_append]
    rw [feed_changeAttribute vt hg l.attr {} defaultAttr_valid (hrend l hl), rendOf_default,
      ← VT.feedAll_append, feed_erase _ (by simpa using hg) k]

theorem agree_erase (beh : Behaviour) (s : TermState) (vt : VT) (hA : Agree s vt) (k : EraseKind) :
    Agree (step beh s (.erase k)).1 (vt.feedAll (step beh s (.erase k)).2) := by
  rw [feed_eraseOp beh s vt hA k]
  obtain ⟨⟨hg, hok, hrend, hcs, hvis⟩, hC⟩ := hA
  simp only [step, changeToDefault]
  cases hl : s.last with
  | none =>
    refine ⟨⟨hg, hok, ?_, ?_, hvis⟩, ⟨hC.width, hC.height, hC.cursor, hC.saved⟩⟩
    · intro e he; simp at he; subst he; simp [VT.eraseWhere, rendOf_default]
    · simpa [hl, CharsetAgree, VT.eraseWhere] using hcs
  | some l =>
    refine ⟨⟨hg, hok, ?_, ?_, hvis⟩, ⟨hC.width, hC.height, hC.cursor, hC.saved⟩⟩
    · intro e he; simp at he; subst he; simp [VT.eraseWhere, rendOf_default]
    · simpa [hl, CharsetAgree, VT.eraseWhere] using hcs

/-- mode switches and the title touch neither the belief nor anything the belief speaks about -/
theorem agree_modes (s : TermState) (vt : VT) (hA : Agree s vt) (on : Bool) (n : Nat) (hn : n ≠ 25) :
    Agree s (vt.setMode on n) := by
  unfold VT.setMode
  simp only [hn, if_false]
  split
  · exact agree_frame s s vt _ hA rfl rfl rfl rfl rfl rfl rfl rfl rfl rfl rfl rfl rfl rfl rfl rfl rfl
  · split
    · exact agree_frame s s vt _ hA rfl rfl rfl rfl rfl rfl rfl rfl rfl rfl rfl rfl rfl rfl rfl rfl rfl
    · split
      · exact agree_frame s s vt _ hA rfl rfl rfl rfl rfl rfl rfl rfl rfl rfl rfl rfl rfl rfl rfl rfl rfl
      · exact hA

theorem feed_mouse (beh : Behaviour) (vt : VT) (hg : vt.ps = .ground) (on : Bool) :
    vt.feedAll (mouseBytes beh (if on then Consts.dec_pm_set else Consts.dec_pm_reset)) =
      (if beh.basicMouse then vt.setMode on 1000 else if beh.allMouse then vt.setMode on 1003 else vt) := by
  have hs : Consts.dec_pm_set = [0x68] := by decide
  have hr : Consts.dec_pm_reset = [0x6C] := by decide
  unfold mouseBytes
  by_cases h1 : beh.basicMouse = true
  · simp only [h1, if_true]
    rw [basicMouse_eq]
    cases on
    · exact feed_mode vt hg _ 1000 0x6C false (by simp [hr]) (Or.inr ⟨rfl, rfl⟩)
    · exact feed_mode vt hg _ 1000 0x68 true (by simp [hs]) (Or.inl ⟨rfl, rfl⟩)
  · simp only [h1, Bool.false_eq_true, if_false]
    by_cases h2 : beh.allMouse = true
    · simp only [h2, if_true]
      rw [allMouse_eq]
      cases on
      · exact feed_mode vt hg _ 1003 0x6C false (by simp [hr]) (Or.inr ⟨rfl, rfl⟩)
      · exact feed_mode vt hg _ 1003 0x68 true (by simp [hs]) (Or.inl ⟨rfl, rfl⟩)
    · simp [h2]

theorem feed_titleOp (beh : Behaviour) (vt : VT) (hg : vt.ps = .ground) (t : List Byte) (ht : titleClean t = true) :
    vt.feedAll (titleBytes beh t) = (if beh.titleBel || beh.titleSt then { vt with title := t } else vt) := by
  unfold titleBytes
  by_cases h1 : beh.titleBel = true
  · simp only [h1, if_true, Bool.true_or]; exact feed_title_bel vt hg t ht
  · simp only [h1, Bool.false_eq_true, if_false, Bool.false_or]
    by_cases h2 : beh.titleSt = true
    · simp only [h2, if_true]; exact feed_title_st vt hg t ht
    · simp [h2]

/-- a resize event: the belief forgets both positions, so whatever the terminal chose is consistent -/
theorem agree_resize (beh : Behaviour) (s : TermState) (vt : VT) (hA : Agree s vt)
    (w h : Nat) (cells : Bool → Grid) (cx cy : Nat) (saved : Option (Nat × Nat)) (pending : Bool) :
    Agree (Sys.step beh (s, vt) (.resize w h cells cx cy saved pending)).1
          (Sys.step beh (s, vt) (.resize w h cells cx cy saved pending)).2 := by
  obtain ⟨⟨hg, hok, hrend, hcs, hvis⟩, hC⟩ := hA
  simp only [Sys.step, step, VT.resize]
  exact ⟨⟨hg, hok, hrend, by simpa [CharsetAgree] using hcs, hvis⟩,
    ⟨rfl, rfl, (by intro p hp; cases hp), (by intro p hp; cases hp)⟩⟩

/-- **the simulation step**: every in-domain event preserves the agreement between belief and terminal -/
theorem agree_step (beh : Behaviour) (s : TermState) (vt : VT) (hA : Agree s vt) (ev : Ev) (hw : ev.WF s) :
    Agree (Sys.step beh (s, vt) ev).1 (Sys.step beh (s, vt) ev).2 := by
  cases ev with
  | resize w h cells cx cy saved pending => exact agree_resize beh s vt hA w h cells cx cy saved pending
  | op o =>
    simp only [Sys.step]
    have hg := hA.1.ground
    cases o with
    | writeElement e =>
      obtain ⟨hA1, hk1, _, _, _⟩ := agree_defaultAttr s vt hA
      obtain ⟨hA2, _, _⟩ := agree_rawElement beh _ _ e hA1 hw hk1
      simpa [step, VT.feedAll_append] using hA2
    | writeString es =>
      obtain ⟨hA1, hk1, _, _, _⟩ := agree_defaultAttr s vt hA
      obtain ⟨hA2, _, _⟩ := agree_rawElements beh es _ _ hA1 hw hk1
      simpa [step, VT.feedAll_append] using hA2
    | rawElement e => exact (agree_rawElement beh s vt e hA hw.1 hw.2).1
    | defaultAttr => exact (agree_defaultAttr s vt hA).1
    | moveCursor p => exact agree_moveCursor beh s vt hA p hw
    | hideCursor => exact agree_hide beh s vt hA
    | showCursor => exact agree_show beh s vt hA
    | saveCursor => exact agree_save beh s vt hA
    | restoreCursor => exact agree_restore beh s vt hA
    | erase k => exact agree_erase beh s vt hA k
    | enableMouse =>
      have := feed_mouse beh vt hg true
      simp only [if_true] at this
      simp only [step]; rw [this]
      split
      · exact agree_modes s vt hA true 1000 (by decide)
      · split
        · exact agree_modes s vt hA true 1003 (by decide)
        · exact hA
    | disableMouse =>
      have := feed_mouse beh vt hg false
      simp only [Bool.false_eq_true, if_false] at this
      simp only [step]; rw [this]
      split
      · exact agree_modes s vt hA false 1000 (by decide)
      · split
        · exact agree_modes s vt hA false 1003 (by decide)
        · exact hA
    | setTitle t =>
      simp only [step]; rw [feed_titleOp beh vt hg t hw]
      split
      · exact agree_frame s s vt _ hA rfl rfl rfl rfl rfl rfl rfl rfl rfl rfl rfl rfl rfl rfl rfl rfl rfl
      · exact hA
    | normalBuffer =>
      simp only [step]
      rw [feed_mode vt hg _ 47 0x6C false normalBufferBytes_eq (Or.inr ⟨rfl, rfl⟩)]
      exact agree_modes s vt hA false 47 (by decide)
    | altBuffer =>
      simp only [step]
      rw [feed_mode vt hg _ 47 0x68 true altBufferBytes_eq (Or.inl ⟨rfl, rfl⟩)]
      exact agree_modes s vt hA true 47 (by decide)
    | setSize e => exact absurd hw (by simp [Ev.WF, Op.WF])
    | rawWrite bs => exact absurd hw (by simp [Ev.WF, Op.WF])
    | input bs => simpa [step] using hA

/-- **the simulation theorem**: agreement holds after every in-domain history -/
theorem agree_run (beh : Behaviour) (evs : List Ev) :
    ∀ (st : TermState × VT), Agree st.1 st.2 → RunWF beh st evs →
      Agree (Sys.run beh st evs).1 (Sys.run beh st evs).2 := by
  induction evs with
  | nil => intro st hA _; exact hA
  | cons ev evs ih =>
    intro st hA hw
    obtain ⟨h1, h2⟩ := hw
    have := agree_step beh st.1 st.2 hA ev h1
    exact ih (Sys.step beh st ev) this h2

end Tpp

namespace Tpp

/-- the elements an event asks the terminal to show -/
def Op.elements : Op → List Element
  | .writeElement e => [e]
  | .writeString es => es
  | .rawElement e => [e]
  | _ => []
def Ev.elements : Ev → List Element
  | .op o => o.elements
  | .resize _ _ _ _ _ _ _ => []

theorem eraseWhere_log (vt : VT) (p) : (vt.eraseWhere p).log = vt.log := rfl
theorem setMode_log (vt : VT) (on n) : (vt.setMode on n).log = vt.log := by
  unfold VT.setMode
  split
  · rfl
  · split
    · rfl
    · split
      · rfl
      · split <;> rfl

/-- what an event adds to the print log: exactly the cells of the elements it writes, in order -/
theorem step_log (beh : Behaviour) (s : TermState) (vt : VT) (hA : Agree s vt) (ev : Ev) (hw : ev.WF s) :
    ∃ entries, (Sys.step beh (s, vt) ev).2.log = vt.log ++ entries ∧ entries.map (·.2.2) = ev.elements.map cellOf := by
  cases ev with
  | resize w h cells cx cy saved pending => exact ⟨[], by simp [Sys.step, VT.resize], rfl⟩
  | op o =>
    simp only [Sys.step, Ev.elements]
    have hg := hA.1.ground
    cases o with
    | writeElement e =>
      obtain ⟨hA1, hk1, hl1, _, _⟩ := agree_defaultAttr s vt hA
      obtain ⟨_, ⟨x, y, hlog, _⟩, _⟩ := agree_rawElement beh _ _ e hA1 hw hk1
      refine ⟨[(x, y, cellOf e)], ?_, by simp [Op.elements]⟩
      simp only [step, VT.feedAll_append]; rw [hlog, hl1]
    | writeString es =>
      obtain ⟨hA1, hk1, hl1, _, _⟩ := agree_defaultAttr s vt hA
      obtain ⟨_, ⟨entries, hlog, hc⟩, _⟩ := agree_rawElements beh es _ _ hA1 hw hk1
      refine ⟨entries, ?_, by simpa [Op.elements] using hc⟩
      simp only [step, VT.feedAll_append]; rw [hlog, hl1]
    | rawElement e =>
      obtain ⟨_, ⟨x, y, hlog, _⟩, _⟩ := agree_rawElement beh s vt e hA hw.1 hw.2
      exact ⟨[(x, y, cellOf e)], hlog, by simp [Op.elements]⟩
    | defaultAttr => exact ⟨[], by simpa [step] using (agree_defaultAttr s vt hA).2.2.1, rfl⟩
    | moveCursor p =>
      obtain ⟨hx0, hxw, hy0, hyh⟩ := hw
      exact ⟨[], by simp only [step]; rw [feed_moveCursor s vt hA p hx0 hxw hy0 hyh]; simp, rfl⟩
    | hideCursor =>
      refine ⟨[], ?_, rfl⟩
      simp only [step]; split
      · simp
      · rw [feed_hide vt hg]; simp
    | showCursor =>
      refine ⟨[], ?_, rfl⟩
      simp only [step]; split
      · simp
      · rw [feed_show vt hg]; simp
    | saveCursor => exact ⟨[], by simp only [step]; rw [feed_save vt hg]; simp, rfl⟩
    | restoreCursor =>
      refine ⟨[], ?_, rfl⟩
      simp only [step]; rw [feed_restore vt hg]
      cases vt.saved with
      | none => simp
      | some q => obtain ⟨x, y⟩ := q; simp
    | erase k => exact ⟨[], by rw [feed_eraseOp beh s vt hA k]; simp [eraseWhere_log], rfl⟩
    | enableMouse =>
      have := feed_mouse beh vt hg true
      simp only [if_true] at this
      refine ⟨[], ?_, rfl⟩
      simp only [step]; rw [this]; repeat' split <;> simp [setMode_log]
    | disableMouse =>
      have := feed_mouse beh vt hg false
      simp only [Bool.false_eq_true, if_false] at this
      refine ⟨[], ?_, rfl⟩
      simp only [step]; rw [this]; repeat' split <;> simp [setMode_log]
    | setTitle t =>
      refine ⟨[], ?_, rfl⟩
      simp only [step]; rw [feed_titleOp beh vt hg t hw]; split <;> simp
    | normalBuffer =>
      refine ⟨[], ?_, rfl⟩
      simp only [step]
      rw [feed_mode vt hg _ 47 0x6C false normalBufferBytes_eq (Or.inr ⟨rfl, rfl⟩)]; simp [setMode_log]
    | altBuffer =>
      refine ⟨[], ?_, rfl⟩
      simp only [step]
      rw [feed_mode vt hg _ 47 0x68 true altBufferBytes_eq (Or.inl ⟨rfl, rfl⟩)]; simp [setMode_log]
    | setSize e => exact absurd hw (by simp [Ev.WF, Op.WF])
    | rawWrite bs => exact absurd hw (by simp [Ev.WF, Op.WF])
    | input bs => exact ⟨[], by simp [step], rfl⟩

/-- over a whole history the print log grows by exactly the requested cells, in order -/
theorem run_log (beh : Behaviour) (evs : List Ev) :
    ∀ (st : TermState × VT), Agree st.1 st.2 → RunWF beh st evs →
      ∃ entries, (Sys.run beh st evs).2.log = st.2.log ++ entries ∧
        entries.map (·.2.2) = (evs.flatMap Ev.elements).map cellOf := by
  induction evs with
  | nil => intro st _ _; exact ⟨[], by simp [Sys.run], rfl⟩
  | cons ev evs ih =>
    intro st hA hw
    obtain ⟨h1, h2⟩ := hw
    obtain ⟨e1, hl1, hc1⟩ := step_log beh st.1 st.2 hA ev h1
    obtain ⟨e2, hl2, hc2⟩ := ih (Sys.step beh st ev) (agree_step beh st.1 st.2 hA ev h1) h2
    refine ⟨e1 ++ e2, ?_, ?_⟩
    · show (Sys.run beh (Sys.step beh st ev) evs).2.log = _
      rw [hl2, hl1]; simp
    · simp [hc1, hc2]

end Tpp

namespace Tpp

/-- a fresh terminal object meets a terminal in an unknown state: after the first size declaration they agree -/
theorem agree_resize_fresh (beh : Behaviour) (s : TermState) (vt : VT) (hA : AgreeRend s vt)
    (w h : Nat) (cells : Bool → Grid) (cx cy : Nat) (saved : Option (Nat × Nat)) (pending : Bool) :
    Agree (Sys.step beh (s, vt) (.resize w h cells cx cy saved pending)).1
          (Sys.step beh (s, vt) (.resize w h cells cx cy saved pending)).2 := by
  obtain ⟨hg, hok, hrend, hcs, hvis⟩ := hA
  simp only [Sys.step, step, VT.resize]
  exact ⟨⟨hg, hok, hrend, by simpa [CharsetAgree] using hcs, hvis⟩,
    ⟨rfl, rfl, (by intro p hp; cases hp), (by intro p hp; cases hp)⟩⟩

theorem rawElement_cursor (beh : Behaviour) (s : TermState) (e : Element) (p : Point) (hc : s.cursor = some p)
    (hne : p.x + 1 ≠ s.size.width) :
    (rawElement beh s e).1.cursor = some ⟨p.x + 1, p.y⟩ ∧ (rawElement beh s e).1.size = s.size := by
  simp [rawElement, advanceCursor, hc, hne]

/-- consecutive glyphs written from a known position land in consecutive columns of that row -/
theorem rawElements_positions (beh : Behaviour) (es : List Element) :
    ∀ (s : TermState) (vt : VT) (p : Point), Agree s vt → s.cursor = some p → (∀ e ∈ es, e.wf = true) →
      s.last.isSome = true → p.x + es.length ≤ s.size.width →
      ∃ entries, (vt.feedAll (rawElements beh s es).2).log = vt.log ++ entries ∧
        entries.map (fun t => (t.1, t.2.1)) = (List.range es.length).map (fun i => (p.x.toNat + i, p.y.toNat)) := by
  induction es with
  | nil => intro s vt p _ _ _ _ _; exact ⟨[], by simp [rawElements], rfl⟩
  | cons e es ih =>
    intro s vt p hA hc hw hk hlen
    obtain ⟨hA1, ⟨x, y, hlog, hpos⟩, hk1⟩ := agree_rawElement beh s vt e hA (hw e (by simp)) hk
    obtain ⟨hx, hy⟩ := hpos p hc
    obtain ⟨p0, _, _, _, _, _, _⟩ := hA.2.cursor p hc
    cases es with
    | nil =>
      refine ⟨[(x, y, cellOf e)], ?_, ?_⟩
      · simp only [rawElements, VT.feedAll_append, List.append_nil, VT.feedAll_nil]; exact hlog
      · simp [hx, hy]
    | cons e2 es2 =>
      have hne : p.x + 1 ≠ s.size.width := by simp at hlen; omega
      obtain ⟨hc1, hs1⟩ := rawElement_cursor beh s e p hc hne
      obtain ⟨entries, hent, hp2⟩ := ih (rawElement beh s e).1 _ ⟨p.x + 1, p.y⟩ hA1 hc1
        (fun e' he' => hw e' (by simp [he'])) hk1 (by rw [hs1]; simp at hlen ⊢; omega)
      refine ⟨(x, y, cellOf e) :: entries, ?_, ?_⟩
      · simp only [rawElements, VT.feedAll_append] at hent ⊢
        rw [hent, hlog]; simp
      · simp only [List.map_cons, hp2, hx, hy]
        have hr : (e :: e2 :: es2).length = (e2 :: es2).length + 1 := rfl
        rw [hr, List.range_succ_eq_map]
        simp only [List.map_cons, List.map_map, Nat.add_zero, List.cons.injEq, true_and]
        apply List.map_congr_left
        intro i _
        simp only [Function.comp, Prod.mk.injEq, and_true]
        omega

end Tpp
