import Tpp.Lemmas.Control
import Tpp.Ref.Sys
/-! The agreement invariant is preserved by every operation (`agree_step`) and by resize events. -/
namespace Tpp

theorem agree_init (vt : VT) (hu : vt.Unknown) (sz : Extent) (hw : sz.width = vt.w) (hh : sz.height = vt.h) :
    Agree { size := sz } vt :=
  ⟨⟨hu.ground, hu.ok, (by intro e h; cases h), (by simp [CharsetAgree, hu.g0, hu.utf8]), (by intro b h; cases h)⟩,
   ⟨hw, hh, (by intro p h; cases h), (by intro p h; cases h)⟩⟩

theorem agreeRend_init (vt : VT) (hu : vt.Unknown) : AgreeRend {} vt :=
  ⟨hu.ground, hu.ok, (by intro e h; cases h), (by simp [CharsetAgree, hu.g0, hu.utf8]), (by intro b h; cases h)⟩

-- ------------------------------------------------------------------ writes
/-- `write_optional_default_attribute`: afterwards the rendition is known -/
theorem agree_defaultAttr (s : TermState) (vt : VT) (hA : Agree s vt) :
    Agree (defaultAttr s).1 (vt.feedAll (defaultAttr s).2) ∧ (defaultAttr s).1.last.isSome = true ∧
    (vt.feedAll (defaultAttr s).2).log = vt.log ∧
    (defaultAttr s).1.cursor = s.cursor ∧ (defaultAttr s).1.size = s.size := by
  obtain ⟨⟨hg, hok, hrend, hcs, hvis⟩, hC⟩ := hA
  unfold defaultAttr
  cases hl : s.last with
  | none =>
    simp only
    rw [VT.feed_sgr0 vt hg]
    refine ⟨⟨⟨by simpa using hg, by simpa using hok, ?_, ?_, by simpa using hvis⟩, ?_⟩, by simp, by simp, by simp, by simp⟩
    · intro e he; simp at he; subst he; simp [rendOf_default]
    · simpa [hl, CharsetAgree] using hcs
    · exact ⟨hC.width, hC.height, hC.cursor, hC.saved⟩
  | some l =>
    refine ⟨⟨⟨hg, hok, hrend, hcs, hvis⟩, hC⟩, ?_, ?_, ?_, ?_⟩ <;> simp [hl]

/-- one `write_element` on a state whose rendition is known -/
theorem agree_rawElement (beh : Behaviour) (s : TermState) (vt : VT) (e : Element) (hA : Agree s vt)
    (hw : e.wf = true) (hk : s.last.isSome = true) :
    Agree (rawElement beh s e).1 (vt.feedAll (rawElement beh s e).2) ∧
    (∃ x y, (vt.feedAll (rawElement beh s e).2).log = vt.log ++ [(x, y, cellOf e)] ∧
       (∀ p, s.cursor = some p → x = p.x.toNat ∧ y = p.y.toNat)) ∧
    (rawElement beh s e).1.last.isSome = true := by
  obtain ⟨⟨hg, hok, hrend, hcs, hvis⟩, hC⟩ := hA
  cases hl : s.last with
  | none => simp [hl] at hk
  | some l =>
    obtain ⟨g0, u, hfeed, hagree⟩ := feed_rawElement_from beh vt l e hg (hrend l hl) (by simpa [hl] using hcs) hw
    have hout : (rawElement beh s e).2 = elementCtl beh (some l) e ++ e.glyph.payload := by simp [rawElement, hl]
    rw [hout, hfeed]
    generalize hvt1 : ({ vt with g0 := g0, utf8 := u, rend := rendOf e.attr } : VT) = vt1 at *
    have e_w : vt1.w = vt.w := by subst hvt1; rfl
    have e_h : vt1.h = vt.h := by subst hvt1; rfl
    have e_cx : vt1.cx = vt.cx := by subst hvt1; rfl
    have e_cy : vt1.cy = vt.cy := by subst hvt1; rfl
    have e_p : vt1.pending = vt.pending := by subst hvt1; rfl
    have e_log : vt1.log = vt.log := by subst hvt1; rfl
    have e_saved : vt1.saved = vt.saved := by subst hvt1; rfl
    have e_ps : vt1.ps = vt.ps := by subst hvt1; rfl
    have e_mal : vt1.malformed = vt.malformed := by subst hvt1; rfl
    have e_vis : vt1.cursorVisible = vt.cursorVisible := by subst hvt1; rfl
    have e_rend : vt1.rend = rendOf e.attr := by subst hvt1; rfl
    have hcell : ({ bytes := e.glyph.text, cs := if vt1.utf8 then .utf8 else vt1.g0, rend := vt1.rend } : Cell) = cellOf e := by
      simp only [cellOf, e_rend]
      by_cases hu : e.glyph.cs = .utf8 <;> simp_all [CharsetAgree]
    refine ⟨⟨⟨by simp [e_ps, hg], by simp [e_mal, hok], ?_, ?_, ?_⟩, ?_⟩, ?_, ?_⟩
    · intro e' he'; simp [rawElement, advanceCursor] at he'
      have : e' = e := by
        cases hc : s.cursor <;> simp [hc] at he' <;> (try split at he') <;> simp_all
      subst this; simp [e_rend]
    · have hlast : (rawElement beh s e).1.last = some e := by
        simp [rawElement, advanceCursor]; cases hc : s.cursor <;> simp <;> (try split) <;> rfl
      rw [hlast]
      simp only [CharsetAgree] at hagree ⊢
      by_cases hu : e.glyph.cs = .utf8 <;> simp_all
    · intro b hb
      have : s.visible = some b := by
        simp [rawElement, advanceCursor] at hb
        cases hc : s.cursor <;> simp [hc] at hb <;> (try split at hb) <;> simp_all
      simpa [e_vis] using hvis b this
    · -- cursor half
      have hsz : (rawElement beh s e).1.size = s.size := by
        simp [rawElement, advanceCursor]; cases hc : s.cursor <;> simp <;> (try split) <;> rfl
      have hsv : (rawElement beh s e).1.saved = s.saved := by
        simp [rawElement, advanceCursor]; cases hc : s.cursor <;> simp <;> (try split) <;> rfl
      refine ⟨by simp [hsz, e_w, hC.width], by simp [hsz, e_h, hC.height], ?_, ?_⟩
      · intro p hp
        cases hc : s.cursor with
        | none => simp [rawElement, advanceCursor, hc] at hp
        | some q =>
          obtain ⟨q1, q2, q3, q4, q5, q6, q7⟩ := hC.cursor q hc
          simp [rawElement, advanceCursor, hc] at hp
          split at hp
          · simp at hp
          · rename_i hne
            simp at hp; subst hp
            have hlt : vt1.cx + 1 < vt1.w := by
              have : q.x + 1 ≠ s.size.width := hne
              rw [hC.width] at this
              rw [e_cx, e_w]; omega
            obtain ⟨a1, a2, a3⟩ := VT.print_advance vt1 e.glyph.text (by rw [e_p]; exact q5) hlt
            simp only [VT.print_w, VT.print_h]
            refine ⟨by omega, q2, ?_, ?_, a3, ?_, ?_⟩
            · rw [a1, e_cx]; omega
            · rw [a2, e_cy]; omega
            · rw [a1]; exact hlt
            · rw [a2, e_cy, e_h]; exact q7
      · intro p hp
        rw [hsv] at hp
        obtain ⟨s1, s2, s3, s4, s5⟩ := hC.saved p hp
        simp only [VT.print_saved, VT.print_w, VT.print_h]
        exact ⟨s1, s2, by rw [e_saved]; exact s3, by rw [e_w]; exact s4, by rw [e_h]; exact s5⟩
    · by_cases hpd : vt1.pending = false
      · refine ⟨vt1.cx, vt1.cy, ?_, ?_⟩
        · rw [VT.print_log_at vt1 _ hpd, hcell, e_log]
        · intro p hp
          obtain ⟨q1, q2, q3, q4, q5, q6, q7⟩ := hC.cursor p hp
          rw [e_cx, e_cy]; exact ⟨q3.symm, q4.symm⟩
      · obtain ⟨x, y, hxy⟩ := VT.print_log vt1 e.glyph.text
        refine ⟨x, y, ?_, ?_⟩
        · rw [hxy, hcell, e_log]
        · intro p hp
          obtain ⟨q1, q2, q3, q4, q5, q6, q7⟩ := hC.cursor p hp
          rw [e_p] at hpd; exact absurd q5 hpd
    · simp [rawElement, advanceCursor]; cases hc : s.cursor <;> simp <;> (try split) <;> rfl

end Tpp
