import Tpp.Lemmas.Agree
import Tpp.Ref.Regions
/-! Byte-level effect of each cursor / erase / mode / title control function the library emits. -/
namespace Tpp

theorem decInt_nonneg (i : Int) (h : 0 ≤ i) : decInt i = decDigits i.toNat := by
  simp [decInt]; omega

theorem joinParams_one (n : Nat) : joinParams [n] = decDigits n := rfl
theorem joinParams_two (a b : Nat) : joinParams [a, b] = decDigits a ++ [Consts.ps] ++ decDigits b := rfl

theorem feed_CUP (vt : VT) (hg : vt.ps = .ground) (d : Point) (hx : 0 ≤ d.x) (hy : 0 ≤ d.y)
    (hxw : d.x.toNat < vt.w) (hyh : d.y.toNat < vt.h) :
    vt.feedAll (writeCUP d) = { vt with cx := d.x.toNat, cy := d.y.toNat, pending := false } := by
  have hfin : (Consts.csi_cursor_position : Byte) = 0x48 := by decide
  unfold writeCUP
  rw [hfin]
  by_cases h0 : d.x ≠ 0 ∨ d.y ≠ 0
  · simp only [h0, if_true]
    by_cases hx0 : d.x = 0
    · simp only [hx0, if_true]
      rw [decInt_nonneg _ (by omega), ← joinParams_one, VT.feed_csi vt hg _ (by simp) 0x48 (by decide)]
      simp [VT.dispatch, VT.param]
      have : (d.y + 1).toNat ≠ 0 := by omega
      split <;> simp_all <;> omega
    · simp only [hx0, if_false]
      rw [decInt_nonneg _ (by omega), decInt_nonneg _ (by omega), ← joinParams_two,
        VT.feed_csi vt hg _ (by simp) 0x48 (by decide)]
      simp [VT.dispatch, VT.param]
      have h1 : (d.y + 1).toNat ≠ 0 := by omega
      have h2 : (d.x + 1).toNat ≠ 0 := by omega
      constructor <;> (split <;> simp_all <;> omega)
  · have hx0 : d.x = 0 := by omega
    have hy0 : d.y = 0 := by omega
    simp only [h0, if_false, List.append_nil]
    rw [VT.feed_csi_empty vt hg 0x48 (by decide)]
    simp [VT.dispatch, VT.param, hx0, hy0, hg]

theorem feed_CHA (vt : VT) (hg : vt.ps = .ground) (x : Int) (hx : 0 ≤ x) (hxw : x.toNat < vt.w) :
    vt.feedAll (writeCHA x) = { vt with cx := x.toNat, pending := false } := by
  have hfin : (Consts.csi_cursor_horizontal_absolute : Byte) = 0x47 := by decide
  unfold writeCHA
  rw [hfin]
  by_cases h0 : x ≠ 0
  · rw [if_pos h0]
    rw [decInt_nonneg _ (by omega), ← joinParams_one, VT.feed_csi vt hg _ (by simp) 0x47 (by decide)]
    simp [VT.dispatch, VT.param]
    have : (x + 1).toNat ≠ 0 := by omega
    split <;> simp_all <;> omega
  · have hx0 : x = 0 := by omega
    rw [if_neg h0, List.append_nil]
    rw [VT.feed_csi_empty vt hg 0x47 (by decide)]
    simp [VT.dispatch, VT.param, hx0, hg]

theorem feed_CUU (vt : VT) (hg : vt.ps = .ground) (n : Int) (hn : 0 < n) :
    vt.feedAll (writeCUU n) = { vt with cy := vt.cy - n.toNat, pending := false } := by
  have hfin : (Consts.csi_cursor_up : Byte) = 0x41 := by decide
  unfold writeCUU
  rw [hfin]
  by_cases h1 : n ≠ 1
  · rw [if_pos h1]
    rw [decInt_nonneg _ (by omega), ← joinParams_one, VT.feed_csi vt hg _ (by simp) 0x41 (by decide)]
    simp [VT.dispatch, VT.param]
    have : n.toNat ≠ 0 := by omega
    split <;> simp_all <;> omega
  · have hn1 : n = 1 := by omega
    rw [if_neg h1, List.append_nil]
    rw [VT.feed_csi_empty vt hg 0x41 (by decide)]
    simp [VT.dispatch, VT.param, hn1, hg]

theorem feed_CUD (vt : VT) (hg : vt.ps = .ground) (n : Int) (hn : 0 < n) :
    vt.feedAll (writeCUD n) = { vt with cy := min (vt.cy + n.toNat) (vt.h - 1), pending := false } := by
  have hfin : (Consts.csi_cursor_down : Byte) = 0x42 := by decide
  unfold writeCUD
  rw [hfin]
  by_cases h1 : n ≠ 1
  · rw [if_pos h1]
    rw [decInt_nonneg _ (by omega), ← joinParams_one, VT.feed_csi vt hg _ (by simp) 0x42 (by decide)]
    simp [VT.dispatch, VT.param]
    have : n.toNat ≠ 0 := by omega
    split <;> simp_all <;> omega
  · have hn1 : n = 1 := by omega
    rw [if_neg h1, List.append_nil]
    rw [VT.feed_csi_empty vt hg 0x42 (by decide)]
    simp [VT.dispatch, VT.param, hn1, hg]

theorem feed_save (vt : VT) (hg : vt.ps = .ground) :
    vt.feedAll saveCursorBytes = { vt with saved := some (vt.cx, vt.cy) } := by
  have : saveCursorBytes = csiBytes ++ [0x73] := by decide
  rw [this, VT.feed_csi_empty vt hg 0x73 (by decide)]
  simp [VT.dispatch, hg]

theorem feed_restore (vt : VT) (hg : vt.ps = .ground) :
    vt.feedAll restoreCursorBytes =
      (match vt.saved with
       | some (x, y) => { vt with cx := x, cy := y, pending := false }
       | none => { vt with cx := 0, cy := 0, pending := false }) := by
  have : restoreCursorBytes = csiBytes ++ [0x75] := by decide
  rw [this, VT.feed_csi_empty vt hg 0x75 (by decide)]
  simp [VT.dispatch]
  cases hs : vt.saved <;> simp [hg] <;> (cases vt; simp_all)

theorem feed_hide (vt : VT) (hg : vt.ps = .ground) :
    vt.feedAll hideCursorBytes = { vt with cursorVisible := false } := by
  have : hideCursorBytes = decPmBytes ++ joinParams [25] ++ [0x6C] := by
    simp [hideCursorBytes, joinParams, decDigits, digitByte]
  rw [this, VT.feed_decpm vt hg [25] (by simp) 0x6C (by decide)]
  simp [VT.dispatch, VT.setMode, hg]

theorem feed_show (vt : VT) (hg : vt.ps = .ground) :
    vt.feedAll showCursorBytes = { vt with cursorVisible := true } := by
  have : showCursorBytes = decPmBytes ++ joinParams [25] ++ [0x68] := by
    simp [showCursorBytes, joinParams, decDigits, digitByte]
  rw [this, VT.feed_decpm vt hg [25] (by simp) 0x68 (by decide)]
  simp [VT.dispatch, VT.setMode, hg]

end Tpp

namespace Tpp

/-- the six erase manipulators clear exactly the region their name denotes -/
theorem feed_erase (vt : VT) (hg : vt.ps = .ground) (k : EraseKind) :
    vt.feedAll (csiBytes ++ eraseSuffix k) = vt.eraseWhere (eraseRegion k vt.cx vt.cy) := by
  have hJ : ∀ (ps : List Nat) (sel : EraseKindV), eraseSel ps = some sel →
      vt.dispatch none ps 0x4A = vt.eraseWhere (inDisplayRegion sel vt.cx vt.cy) := by
    intro ps sel h; simp [VT.dispatch, h, VT.eraseWhere, VT.erasedCell, hg]
  have hK : ∀ (ps : List Nat) (sel : EraseKindV), eraseSel ps = some sel →
      vt.dispatch none ps 0x4B = vt.eraseWhere (inLineRegion sel vt.cx vt.cy) := by
    intro ps sel h; simp [VT.dispatch, h, VT.eraseWhere, VT.erasedCell, hg]
  cases k
  · have : csiBytes ++ eraseSuffix .display = csiBytes ++ joinParams [2] ++ [0x4A] := by
      simp [eraseSuffix, joinParams, decDigits, digitByte]
    rw [this, VT.feed_csi vt hg [2] (by simp) 0x4A (by decide), hJ [2] .all rfl]
    congr 1
  · have : csiBytes ++ eraseSuffix .above = csiBytes ++ joinParams [1] ++ [0x4A] := by
      simp [eraseSuffix, joinParams, decDigits, digitByte]
    rw [this, VT.feed_csi vt hg [1] (by simp) 0x4A (by decide), hJ [1] .toStart rfl]
    congr 1
  · have : csiBytes ++ eraseSuffix .below = csiBytes ++ [0x4A] := by simp [eraseSuffix]
    rw [this, VT.feed_csi_empty vt hg 0x4A (by decide), hJ [] .toEnd rfl]
    congr 1
  · have : csiBytes ++ eraseSuffix .line = csiBytes ++ joinParams [2] ++ [0x4B] := by
      simp [eraseSuffix, joinParams, decDigits, digitByte]
    rw [this, VT.feed_csi vt hg [2] (by simp) 0x4B (by decide), hK [2] .all rfl]
    congr 1; funext x y; simp [inLineRegion, eraseRegion]
  · have : csiBytes ++ eraseSuffix .lineLeft = csiBytes ++ joinParams [1] ++ [0x4B] := by
      simp [eraseSuffix, joinParams, decDigits, digitByte]
    rw [this, VT.feed_csi vt hg [1] (by simp) 0x4B (by decide), hK [1] .toStart rfl]
    congr 1
  · have : csiBytes ++ eraseSuffix .lineRight = csiBytes ++ [0x4B] := by simp [eraseSuffix]
    rw [this, VT.feed_csi_empty vt hg 0x4B (by decide), hK [] .toEnd rfl]
    congr 1

theorem feed_mode (vt : VT) (hg : vt.ps = .ground) (bytes : List Byte) (n : Nat) (fin : Byte) (on : Bool)
    (hb : bytes = decPmBytes ++ joinParams [n] ++ [fin]) (hf : (fin = 0x68 ∧ on = true) ∨ (fin = 0x6C ∧ on = false)) :
    vt.feedAll bytes = vt.setMode on n := by
  subst hb
  rcases hf with ⟨h1, h2⟩ | ⟨h1, h2⟩ <;> subst h1 <;> subst h2
  · rw [VT.feed_decpm vt hg [n] (by simp) 0x68 (by decide)]
    simp [VT.dispatch, VT.setMode, hg]; cases vt; simp_all
  · rw [VT.feed_decpm vt hg [n] (by simp) 0x6C (by decide)]
    simp [VT.dispatch, VT.setMode, hg]; cases vt; simp_all

theorem normalBufferBytes_eq : normalBufferBytes = decPmBytes ++ joinParams [47] ++ [0x6C] := by
  simp [normalBufferBytes, joinParams, decDigits, digitByte]
theorem altBufferBytes_eq : altBufferBytes = decPmBytes ++ joinParams [47] ++ [0x68] := by
  simp [altBufferBytes, joinParams, decDigits, digitByte]
theorem basicMouse_eq (suffix : List Byte) :
    decPmBytes ++ Consts.dec_pm_basic_mouse_tracking ++ suffix = decPmBytes ++ joinParams [1000] ++ suffix := by
  simp [joinParams, decDigits, digitByte]
theorem allMouse_eq (suffix : List Byte) :
    decPmBytes ++ Consts.dec_pm_all_motion_mouse_tracking ++ suffix = decPmBytes ++ joinParams [1003] ++ suffix := by
  simp [joinParams, decDigits, digitByte]

/-- clean title bytes accumulate in the OSC buffer -/
theorem feed_osc_body (t : List Byte) (ht : titleClean t = true) :
    ∀ (vt : VT) (buf : List Byte), vt.ps = .osc buf → vt.feedAll t = { vt with ps := .osc (buf ++ t) } := by
  induction t with
  | nil => intro vt buf h; cases vt; simp_all
  | cons b t ih =>
    intro vt buf h
    simp only [titleClean, List.all_cons, Bool.and_eq_true, bne_iff_ne, ne_eq, decide_eq_true_eq] at ht
    obtain ⟨⟨⟨⟨h1, h2⟩, _⟩, _⟩, ht'⟩ := ht
    have hstep : vt.feed b = { vt with ps := .osc (buf ++ [b]) } := by simp [VT.feed, h, h1, h2]
    rw [VT.feedAll_cons, hstep, ih (by simpa [titleClean] using ht') _ (buf ++ [b]) rfl]
    simp

theorem feed_title_bel (vt : VT) (hg : vt.ps = .ground) (t : List Byte) (ht : titleClean t = true) :
    vt.feedAll (oscBytes ++ [Consts.osc_set_window_title, Consts.ps] ++ t ++ [Consts.ascii_bel]) = { vt with title := t } := by
  have h0 : oscBytes ++ [Consts.osc_set_window_title, Consts.ps] = [0x1B, 0x5D, 0x32, 0x3B] := by decide
  have hb : (Consts.ascii_bel : Byte) = 0x07 := by decide
  rw [h0, hb, VT.feedAll_append, VT.feedAll_append]
  have h1 : vt.feedAll [0x1B, 0x5D, 0x32, 0x3B] = { vt with ps := .osc [0x32, 0x3B] } := by
    simp [VT.feed, hg]
  rw [h1, feed_osc_body t ht _ [0x32, 0x3B] rfl]
  simp [VT.feed, VT.oscDone, hg]

theorem feed_title_st (vt : VT) (hg : vt.ps = .ground) (t : List Byte) (ht : titleClean t = true) :
    vt.feedAll (oscBytes ++ [Consts.osc_set_window_title, Consts.ps] ++ t ++ stBytes) = { vt with title := t } := by
  have h0 : oscBytes ++ [Consts.osc_set_window_title, Consts.ps] = [0x1B, 0x5D, 0x32, 0x3B] := by decide
  have hb : stBytes = [0x1B, 0x5C] := by decide
  rw [h0, hb, VT.feedAll_append, VT.feedAll_append]
  have h1 : vt.feedAll [0x1B, 0x5D, 0x32, 0x3B] = { vt with ps := .osc [0x32, 0x3B] } := by
    simp [VT.feed, hg]
  rw [h1, feed_osc_body t ht _ [0x32, 0x3B] rfl]
  simp [VT.feed, VT.oscDone, hg]

end Tpp
