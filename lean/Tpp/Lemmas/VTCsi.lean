import Tpp.Ref.VT
import Tpp.Model.Encoder
/-! Feeding one complete control sequence `CSI params final` to the reference terminal. -/
namespace Tpp

def isFinal (b : Byte) : Bool := 0x40 ≤ b && b ≤ 0x7E

theorem final_not_digit (b : Byte) (h : isFinal b = true) : isDigit b = false ∧ b ≠ 0x3B ∧ b ≠ 0x3F := by
  revert h; revert b; decide +kernel

theorem VT.feed_digits (vt : VT) (priv params) (ds : List Byte) (hd : ∀ b ∈ ds, isDigit b = true) :
    ∀ cur, vt.ps = .csi priv params cur → ds ≠ [] →
      (vt.feedAll ds) = { vt with ps := .csi priv params (some (parseDec ds (cur.getD 0))) } := by
  induction ds generalizing vt with
  | nil => intro cur _ h; exact absurd rfl h
  | cons d ds ih =>
    intro cur hps _
    have hdd : isDigit d = true := hd d (by simp)
    have hstep : vt.feed d = { vt with ps := .csi priv params (some ((cur.getD 0) * 10 + digitVal d)) } := by
      simp [VT.feed, hps, hdd]
    simp only [VT.feedAll_cons, hstep, parseDec]
    by_cases hds : ds = []
    · subst hds; simp [parseDec]
    · rw [ih _ (fun b hb => hd b (by simp [hb])) (some (cur.getD 0 * 10 + digitVal d)) rfl hds]
      simp

theorem VT.feed_number (vt : VT) (priv params) (n : Nat) (h : vt.ps = .csi priv params none) :
    vt.feedAll (decDigits n) = { vt with ps := .csi priv params (some n) } := by
  rw [VT.feed_digits vt priv params (decDigits n) (decDigits_all_digits n) none h (decDigits_ne_nil n)]
  simp [parseDec_zero_decDigits]

theorem ps_eq : (Consts.ps : Byte) = 0x3B := by decide

/-- feeding a rendered non-empty parameter list followed by a final byte dispatches with exactly those parameters -/
theorem VT.feed_params (ps : List Nat) (hne : ps ≠ []) (fin : Byte) (hf : isFinal fin = true) :
    ∀ (vt : VT) (priv) (acc : List Nat), vt.ps = .csi priv acc none →
      vt.feedAll (joinParams ps ++ [fin]) = vt.dispatch priv (acc ++ ps) fin := by
  obtain ⟨hnd, hns, hnq⟩ := final_not_digit fin hf
  induction ps with
  | nil => exact absurd rfl hne
  | cons p rest ih =>
    intro vt priv acc hps
    cases rest with
    | nil =>
      simp only [joinParams, VT.feedAll_append]
      rw [VT.feed_number vt priv acc p hps]
      simp [VT.feed, hnd, hns, hnq, isFinal] at hf ⊢
      simp [hf, VT.dispatch]
    | cons q rest' =>
      simp only [joinParams, VT.feedAll_append, List.append_assoc, ps_eq]
      rw [VT.feed_number vt priv acc p hps]
      have hsemi : ({ vt with ps := PS.csi priv acc (some p) } : VT).feedAll [0x3B]
          = { vt with ps := .csi priv (acc ++ [p]) none } := by
        simp [VT.feed, isDigit]
      rw [hsemi]
      have := ih (by simp) { vt with ps := .csi priv (acc ++ [p]) none } priv (acc ++ [p]) rfl
      simp only [VT.feedAll_append] at this
      rw [this]
      simp [VT.dispatch]

theorem csiBytes_eq : csiBytes = [0x1B, 0x5B] := by decide

theorem VT.feed_csi (vt : VT) (hg : vt.ps = .ground) (ps : List Nat) (hne : ps ≠ []) (fin : Byte) (hf : isFinal fin = true) :
    vt.feedAll (csiBytes ++ joinParams ps ++ [fin]) = vt.dispatch none ps fin := by
  simp only [csiBytes_eq, List.cons_append, List.nil_append, VT.feedAll_cons]
  have h1 : vt.feed 0x1B = { vt with ps := .esc } := by simp [VT.feed, hg]
  have h2 : ({ vt with ps := .esc } : VT).feed 0x5B = { vt with ps := .csi none [] none } := by simp [VT.feed]
  rw [h1, h2]
  have := VT.feed_params ps hne fin hf { vt with ps := .csi none [] none } none [] rfl
  rw [this]; simp [VT.dispatch]

theorem VT.feed_csi_empty (vt : VT) (hg : vt.ps = .ground) (fin : Byte) (hf : isFinal fin = true) :
    vt.feedAll (csiBytes ++ [fin]) = vt.dispatch none [] fin := by
  obtain ⟨hnd, hns, hnq⟩ := final_not_digit fin hf
  simp only [csiBytes_eq, List.cons_append, List.nil_append, VT.feedAll_cons, VT.feedAll_nil]
  have h1 : vt.feed 0x1B = { vt with ps := .esc } := by simp [VT.feed, hg]
  have h2 : ({ vt with ps := .esc } : VT).feed 0x5B = { vt with ps := .csi none [] none } := by simp [VT.feed]
  rw [h1, h2]
  simp [VT.feed, hnd, hns, hnq, isFinal] at hf ⊢
  simp [hf, VT.dispatch]

/-- DEC private mode sequences: `CSI ? params final` -/
theorem VT.feed_decpm (vt : VT) (hg : vt.ps = .ground) (ps : List Nat) (hne : ps ≠ []) (fin : Byte) (hf : isFinal fin = true) :
    vt.feedAll (decPmBytes ++ joinParams ps ++ [fin]) = vt.dispatch (some 0x3F) ps fin := by
  have hd : decPmBytes = [0x1B, 0x5B, 0x3F] := by decide
  simp only [hd, List.cons_append, List.nil_append, VT.feedAll_cons]
  have h1 : vt.feed 0x1B = { vt with ps := .esc } := by simp [VT.feed, hg]
  have h2 : ({ vt with ps := .esc } : VT).feed 0x5B = { vt with ps := .csi none [] none } := by simp [VT.feed]
  have h3 : ({ vt with ps := .csi none [] none } : VT).feed 0x3F = { vt with ps := .csi (some 0x3F) [] none } := by
    simp [VT.feed, isDigit]
  rw [h1, h2, h3]
  have := VT.feed_params ps hne fin hf { vt with ps := .csi (some 0x3F) [] none } (some 0x3F) [] rfl
  rw [this]; simp [VT.dispatch]

end Tpp
