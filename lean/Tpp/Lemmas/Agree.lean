import Tpp.Lemmas.Glyphs
import Tpp.Model.Terminal
/-!
The agreement invariant between the library's belief (`TermState`) and the reference terminal,
and the byte-level effect of writing one element.
-/
namespace Tpp

/-- rendition half: needs no assumption about sizes -/
structure AgreeRend (s : TermState) (vt : VT) : Prop where
  ground : vt.ps = .ground
  ok : vt.malformed = false
  rend : ∀ e, s.last = some e → vt.rend = rendOf e.attr
  charset : CharsetAgree (match s.last with | some e => e.glyph.cs | none => .usAscii) vt
  visible : ∀ b, s.visible = some b → vt.cursorVisible = b

/-- cursor half: meaningful once the size has been declared -/
structure AgreeCursor (s : TermState) (vt : VT) : Prop where
  width : s.size.width = vt.w
  height : s.size.height = vt.h
  cursor : ∀ p, s.cursor = some p →
    0 ≤ p.x ∧ 0 ≤ p.y ∧ p.x.toNat = vt.cx ∧ p.y.toNat = vt.cy ∧ vt.pending = false ∧ vt.cx < vt.w ∧ vt.cy < vt.h
  saved : ∀ p, s.saved = some p →
    0 ≤ p.x ∧ 0 ≤ p.y ∧ vt.saved = some (p.x.toNat, p.y.toNat) ∧ p.x.toNat < vt.w ∧ p.y.toNat < vt.h

def Agree (s : TermState) (vt : VT) : Prop := AgreeRend s vt ∧ AgreeCursor s vt

/-- the control bytes before a glyph bring the terminal's rendition and character set to the element's -/
theorem feed_elementCtl (beh : Behaviour) (vt : VT) (l e : Element) (hg : vt.ps = .ground)
    (hr : vt.rend = rendOf l.attr) (hc : CharsetAgree l.glyph.cs vt) (hv : e.attr.valid = true) :
    ∃ g0 u, vt.feedAll (changeCharset beh l.glyph.cs e.glyph.cs ++ changeAttribute l.attr e.attr)
        = { vt with g0 := g0, utf8 := u, rend := rendOf e.attr } ∧
      CharsetAgree e.glyph.cs { vt with g0 := g0, utf8 := u, rend := rendOf e.attr } := by
  obtain ⟨g0, u, hfeed, hagree⟩ := feed_changeCharset beh vt hg l.glyph.cs e.glyph.cs hc
  refine ⟨g0, u, ?_, ?_⟩
  · rw [VT.feedAll_append, hfeed, feed_changeAttribute _ (by simpa using hg) l.attr e.attr hv (by simpa using hr)]
  · simpa [CharsetAgree] using hagree

/-- `write_element` on a terminal that agrees with element `l`: the bytes amount to re-rendering and printing the text -/
theorem feed_rawElement_from (beh : Behaviour) (vt : VT) (l e : Element) (hg : vt.ps = .ground)
    (hr : vt.rend = rendOf l.attr) (hc : CharsetAgree l.glyph.cs vt) (hw : e.wf = true) :
    ∃ g0 u, vt.feedAll (elementCtl beh (some l) e ++ e.glyph.payload)
        = ({ vt with g0 := g0, utf8 := u, rend := rendOf e.attr } : VT).print e.glyph.text ∧
      CharsetAgree e.glyph.cs { vt with g0 := g0, utf8 := u, rend := rendOf e.attr } := by
  simp only [Element.wf, Bool.and_eq_true] at hw
  obtain ⟨g0, u, hfeed, hagree⟩ := feed_elementCtl beh vt l e hg hr hc hw.2
  refine ⟨g0, u, ?_, hagree⟩
  simp only [elementCtl, Option.getD_some]
  rw [VT.feedAll_append, hfeed, payload_eq_text _ hw.1, feed_text _ (by simpa using hg) e.glyph hw.1 hagree]

end Tpp
