import Tpp.Lemmas.MarkupLoop
import Tpp.Ref.Markup
/-! Helper lemmas: what the decoder does on the printed form of one directive / one glyph spelling. -/
namespace Tpp.Markup
open Tpp Tpp.Ref

def ground : Layer → Ground | .fg => .fg | .bg => .bg

theorem setColour_ground (l : Layer) (c : Colour) (e : Element) :
    Markup.setColour (ground l) c e = Ref.setColour l c e := by
  cases l <;> rfl

/-! ### digits -/

theorem digit10_decDigit (n : Nat) : digit10 (decDigit n) = UInt8.ofNat (n % 10) := by
  have h : ∀ k : Fin 10, digit10 (UInt8.ofNat (0x30 + k.val)) = UInt8.ofNat k.val := by decide
  exact h ⟨n % 10, Nat.mod_lt _ (by decide)⟩

theorem digit16_print : ∀ (v : Fin 16) (u : Bool), digit16 (Hex.print ⟨v, u⟩) = UInt8.ofNat v.val := by decide

theorem nibbles : ∀ a b : Fin 16, (UInt8.ofNat a.val <<< 4) ||| UInt8.ofNat b.val = UInt8.ofNat (16 * a.val + b.val) := by
  decide +kernel

theorem true_byte (hi lo : Hex) : (digit16 hi.print <<< 4) ||| digit16 lo.print = hexByte hi lo := by
  cases hi; cases lo
  simp only [digit16_print, nibbles, hexByte]

theorem high_value : ∀ r g b : Fin 6,
    encodeHigh (UInt8.ofNat (r.val % 10)) (UInt8.ofNat (g.val % 10)) (UInt8.ofNat (b.val % 10))
      = UInt8.ofNat (16 + 36 * r.val + 6 * g.val + b.val) := by decide +kernel

theorem grey_value : ∀ n : Fin 24,
    encodeGrey (UInt8.ofNat (n.val / 10 % 10) * 10 + UInt8.ofNat (n.val % 10)) = UInt8.ofNat (232 + n.val) := by
  decide +kernel

theorem low_value : ∀ d : Fin 10, UInt8.ofNat (d.val % 10) = UInt8.ofNat d.val := by decide

theorem charcode_value : ∀ b : Byte,
    (UInt8.ofNat (b.toNat / 100 % 10) * 10 + UInt8.ofNat (b.toNat / 10 % 10)) * 10 + UInt8.ofNat (b.toNat % 10) = b := by
  decide +kernel

theorem hexWord_print (h : Hex) : hexWord h.print = UInt16.ofNat h.v.val := by
  have k : ∀ v : Fin 16, (UInt8.ofNat v.val).toUInt16 = UInt16.ofNat v.val := by decide
  cases h with
  | mk v u => simp [hexWord, digit16_print, k]

/-- the model's UTF-8 arithmetic is RFC 3629 on the whole 16-bit range -/
theorem utf8Glyph_eq (v : Nat) (h : v < 65536) : utf8Glyph v = utf8GlyphOf v := by
  unfold utf8Glyph utf8GlyphOf Ref.utf8
  by_cases h1 : v ≤ 0x7F
  · have : v < 0x80 := by omega
    simp [h1, this, Nat.mod_eq_of_lt this]
  · by_cases h2 : v ≤ 0x7FF
    · have a : ¬ v < 0x80 := by omega
      have b : v < 0x800 := by omega
      simp [h1, h2, a, b]
    · have a : ¬ v < 0x80 := by omega
      have b : ¬ v < 0x800 := by omega
      have c : v ≤ 0xFFFF := by omega
      simp [h1, h2, a, b, c]

theorem codePointOf_lt (h3 h2 h1 h0 : Hex) : codePointOf h3 h2 h1 h0 < 65536 := by
  unfold codePointOf; omega

/-! ### designators -/

theorem lookup_1byte : ∀ b : Byte, lookupCharset [b] = scsLookup [b] := by decide +kernel
theorem lookup_ext : ∀ b : Byte, lookupCharset [0x25, b] = scsLookup [0x25, b] := by decide +kernel

def dShape (l : List Byte) : Bool :=
  match l with
  | [b] => b != 0x25
  | [a, _] => a == 0x25
  | _ => false

theorem designators_shape : ∀ d : Fin 24, dShape (designatorBytes d) = true := by decide
theorem designators_not_utf8 : ∀ d : Fin 24, scsLookup (designatorBytes d) ≠ some .utf8 := by decide

/-! ### one directive -/

theorem decode_charset (d : Designator) (rest : List Byte) (sc : Scratch) (e : Element) :
    parseLoop ((Directive.charset d).print ++ rest) .idle sc e = parseLoop rest .idle sc ((Directive.charset d).apply e) := by
  have hs := designators_shape d
  simp only [Directive.print, Directive.apply]
  generalize designatorBytes d = l at hs
  match l, hs with
  | [b], hs =>
    have hb : b ≠ 0x25 := by simpa [dShape] using hs
    simp [Ref.bs, parseLoop, step, parseIdle, parseEscape, parseCharset, hb, lookup_1byte, applyLookup]
    cases scsLookup [b] <;> rfl
  | [a, b], hs =>
    have ha : a = 0x25 := by simpa [dShape] using hs
    subst ha
    simp [Ref.bs, parseLoop, step, parseIdle, parseEscape, parseCharset, parseCharsetExt, applyLookup]
    rw [show ([Consts.charset_extender, b] : List Byte) = [0x25, b] from rfl, lookup_ext b]
    cases scsLookup [0x25, b] <;> rfl

/-- from `idle`, the printed form of a directive is consumed entirely, has exactly the specified effect
    on the element under construction, and leaves the decoder in `idle` -/
theorem decode_directive (d : Directive) (rest : List Byte) (sc : Scratch) (e : Element) :
    ∃ sc', parseLoop (d.print ++ rest) .idle sc e = parseLoop rest .idle sc' (d.apply e) := by
  cases d with
  | charset d => exact ⟨sc, decode_charset d rest sc e⟩
  | intensity i =>
    exact ⟨sc, by cases i <;> simp [Directive.print, Ref.bs, parseLoop, step, parseIdle, parseEscape, parseIntensity, Directive.apply]⟩
  | polarity p =>
    exact ⟨sc, by cases p <;> simp [Directive.print, Ref.bs, parseLoop, step, parseIdle, parseEscape, parsePolarity, Directive.apply]⟩
  | underlining u =>
    exact ⟨sc, by cases u <;> simp [Directive.print, Ref.bs, parseLoop, step, parseIdle, parseEscape, parseUnderlining, Directive.apply]⟩
  | low l d =>
    exact ⟨sc, by
      cases l <;> simp [Directive.print, Ref.bs, parseLoop, step, parseIdle, parseEscape, parseLow, Directive.apply,
        digit10_decDigit, low_value, ← setColour_ground, ground]⟩
  | high l r g b =>
    cases l <;>
    exact ⟨_, by
      simp [Directive.print, Ref.bs, parseLoop, step, parseIdle, parseEscape, parseHigh0, parseHigh1, parseHigh2, high1, high2,
        Directive.apply, digit10_decDigit, Colour.ofHigh, high_value, ← setColour_ground, ground]; rfl⟩
  | grey l n =>
    cases l <;>
    exact ⟨_, by
      simp [Directive.print, Ref.bs, parseLoop, step, parseIdle, parseEscape, parseGrey0, parseGrey1, grey1,
        Directive.apply, digit10_decDigit, Colour.ofGrey, grey_value, ← setColour_ground, ground]; rfl⟩
  | rgb l r1 r0 g1 g0 b1 b0 =>
    cases l <;>
    exact ⟨_, by
      simp [Directive.print, Ref.bs, parseLoop, step, parseIdle, parseEscape, parseTrue0, parseTrue1, parseTrue2, parseTrue3,
        parseTrue4, parseTrue5, true1, true2, true3, true4, true5, Directive.apply, true_byte, ← setColour_ground, ground]; rfl⟩
  | reset =>
    exact ⟨sc, by simp [Directive.print, Ref.bs, parseLoop, step, parseIdle, parseEscape, Directive.apply]⟩

theorem decode_directives (ds : List Directive) : ∀ (rest : List Byte) (sc : Scratch) (e : Element),
    ∃ sc', parseLoop (ds.flatMap Directive.print ++ rest) .idle sc e = parseLoop rest .idle sc' (ds.foldl Directive.apply e) := by
  induction ds with
  | nil => intro rest sc e; exact ⟨sc, rfl⟩
  | cons d ds ih =>
    intro rest sc e
    obtain ⟨sc1, h1⟩ := decode_directive d (ds.flatMap Directive.print ++ rest) sc e
    obtain ⟨sc2, h2⟩ := ih rest sc1 (d.apply e)
    refine ⟨sc2, ?_⟩
    simp only [List.flatMap_cons, List.append_assoc, List.foldl_cons]
    rw [h1, h2]

/-! ### the glyph -/

/-- what the decoder stores for a glyph spelling -/
def storeGlyph (e : Element) : GlyphSp → Element
  | .lit b => setChar b e
  | .code b => setChar b e
  | .uni h3 h2 h1 h0 => { e with glyph := utf8GlyphOf (codePointOf h3 h2 h1 h0) }

/-- from `idle`, the printed form of a glyph is consumed entirely and ends the element -/
theorem decode_glyph (g : GlyphSp) (rest : List Byte) (sc : Scratch) (e : Element) :
    parseLoop (g.print ++ rest) .idle sc e = (storeGlyph e g, rest) := by
  cases g with
  | lit b =>
    by_cases hb : b = Ref.bs
    · subst hb; simp [GlyphSp.print, Ref.bs, parseLoop, step, parseIdle, parseEscape, parseLoop_done, storeGlyph]
    · have hb' : b ≠ 0x5C := hb
      simp [GlyphSp.print, hb, hb', parseLoop, step, parseIdle, parseLoop_done, storeGlyph]
  | code b =>
    simp [GlyphSp.print, Ref.bs, parseLoop, step, parseIdle, parseEscape, parseCharcode0, parseCharcode1, parseCharcode2,
      parseLoop_done, storeGlyph, digit10_decDigit, charcode_value]
  | uni h3 h2 h1 h0 =>
    simp [GlyphSp.print, Ref.bs, parseLoop, step, parseIdle, parseEscape, parseUtf0, parseUtf1, parseUtf2, parseUtf3,
      parseLoop_done, storeGlyph, hexWord_print]
    rw [utf8Glyph_eq _ (by omega)]
    congr 1
    have := h3.v.isLt; have := h2.v.isLt; have := h1.v.isLt; have := h0.v.isLt
    unfold codePointOf; omega

theorem glyph_print_ne_nil (g : GlyphSp) : g.print ≠ [] := by
  cases g with
  | lit b => simp only [GlyphSp.print]; split <;> simp
  | code b => simp [GlyphSp.print]
  | uni => simp [GlyphSp.print]

theorem spelling_print_ne_nil (sp : Spelling) (rest : List Byte) : sp.print ++ rest ≠ [] := by
  have := glyph_print_ne_nil sp.glyph
  simp [Spelling.print, this]

/-! ### one spelling -/

/-- attributes and character set of an element, glyph storage blanked: what directives act on -/
def strip (e : Element) : Element :=
  { glyph := { b0 := 0x20, b1 := 0, b2 := 0, cs := e.glyph.cs }, attr := e.attr }

theorem strip_elementWithBase (prev : Element) : strip (elementWithBase prev) = startFrom prev := rfl

theorem startFrom_norm (e : Element) : startFrom (norm e) = startFrom e := by
  unfold startFrom norm normGlyph
  split <;> rfl

theorem strip_apply (d : Directive) (e : Element) : strip (d.apply e) = d.apply (strip e) := by
  cases d with
  | charset d => simp only [Directive.apply]; cases scsLookup (designatorBytes d) <;> rfl
  | low l _ => cases l <;> rfl
  | high l _ _ _ => cases l <;> rfl
  | grey l _ => cases l <;> rfl
  | rgb l _ _ _ _ _ _ => cases l <;> rfl
  | _ => rfl

theorem strip_foldl (ds : List Directive) : ∀ e : Element,
    strip (ds.foldl Directive.apply e) = ds.foldl Directive.apply (strip e) := by
  induction ds with
  | nil => intro e; rfl
  | cons d ds ih => intro e; simp only [List.foldl_cons, ih, strip_apply]

theorem apply_not_utf8 (d : Directive) (e : Element) (h : e.glyph.cs ≠ .utf8) : (d.apply e).glyph.cs ≠ .utf8 := by
  cases d with
  | charset d =>
    simp only [Directive.apply]
    have := designators_not_utf8 d
    cases hc : scsLookup (designatorBytes d) with
    | none => exact h
    | some cs => intro hcs; simp only [] at hcs; rw [hc, hcs] at this; exact this rfl
  | low l _ => cases l <;> exact h
  | high l _ _ _ => cases l <;> exact h
  | grey l _ => cases l <;> exact h
  | rgb l _ _ _ _ _ _ => cases l <;> exact h
  | _ => exact h

theorem foldl_not_utf8 (ds : List Directive) : ∀ e : Element, e.glyph.cs ≠ .utf8 →
    (ds.foldl Directive.apply e).glyph.cs ≠ .utf8 := by
  induction ds with
  | nil => intro e h; exact h
  | cons d ds ih => intro e h; exact ih _ (apply_not_utf8 d e h)

theorem elementWithBase_not_utf8 (prev : Element) : (elementWithBase prev).glyph.cs ≠ .utf8 := by
  unfold elementWithBase
  by_cases h : prev.glyph.cs = .utf8 <;> simp [h]

theorem norm_storeGlyph (g : GlyphSp) (e : Element) (h : e.glyph.cs ≠ .utf8) :
    norm (storeGlyph e g) = g.apply (strip e) := by
  cases g with
  | lit b => simp [storeGlyph, norm, normGlyph, setChar, h, GlyphSp.apply, strip]
  | code b => simp [storeGlyph, norm, normGlyph, setChar, h, GlyphSp.apply, strip]
  | uni h3 h2 h1 h0 => simp [storeGlyph, norm, normGlyph, GlyphSp.apply, strip, utf8GlyphOf]

/-- decoding the printed form of one spelling: everything is consumed, and the element compares equal
    (meaningful values) to what the spelling denotes -/
theorem decode_spelling (sp : Spelling) (rest : List Byte) (prev : Element) :
    (parseElement (sp.print ++ rest) prev).2 = rest ∧
    norm (parseElement (sp.print ++ rest) prev).1 = denote sp prev := by
  unfold parseElement Spelling.print
  obtain ⟨sc', h⟩ := decode_directives sp.directives (sp.glyph.print ++ rest) {} (elementWithBase prev)
  rw [List.append_assoc, h, decode_glyph]
  refine ⟨rfl, ?_⟩
  simp only []
  rw [norm_storeGlyph _ _ (foldl_not_utf8 _ _ (elementWithBase_not_utf8 prev)), strip_foldl, strip_elementWithBase]
  rfl

theorem denote_congr (sp : Spelling) (a b : Element) (h : startFrom a = startFrom b) : denote sp a = denote sp b := by
  unfold denote; rw [h]

theorem denoteFrom_congr (sps : List Spelling) (a b : Element) (h : startFrom a = startFrom b) :
    denoteFrom sps a = denoteFrom sps b := by
  cases sps with
  | nil => rfl
  | cons sp r => simp only [denoteFrom, denote_congr sp a b h]

theorem encodeFrom_spellings (sps : List Spelling) : ∀ prev : Element,
    (encodeFrom (sps.flatMap Spelling.print) prev).map norm = denoteFrom sps prev := by
  induction sps with
  | nil => intro prev; simp [encodeFrom_nil, denoteFrom]
  | cons sp r ih =>
    intro prev
    simp only [List.flatMap_cons]
    rw [encodeFrom_of_ne_nil _ _ (spelling_print_ne_nil sp _)]
    obtain ⟨h2, h1⟩ := decode_spelling sp (r.flatMap Spelling.print) prev
    simp only [List.map_cons, denoteFrom, h2, h1, ih]
    congr 1
    apply denoteFrom_congr
    rw [← h1, startFrom_norm]

/-! ### plain text -/

theorem parseElement_plain (b : Byte) (bs : List Byte) (prev : Element) (hb : b ≠ 0x5C)
    (ha : prev.attr = {}) (hc : prev.glyph.cs = .usAscii) (h1 : prev.glyph.b1 = 0) (h2 : prev.glyph.b2 = 0) :
    parseElement (b :: bs) prev = (plainElement b, bs) := by
  obtain ⟨⟨g0, g1, g2, gc⟩, pa⟩ := prev
  simp only at ha hc h1 h2
  subst ha hc h1 h2
  simp [parseElement, parseLoop, step, parseIdle, hb, parseLoop_done, setChar, elementWithBase, plainElement]

theorem encodeFrom_plain (bs : List Byte) (h : (0x5C : Byte) ∉ bs) : ∀ prev : Element,
    prev.attr = {} → prev.glyph.cs = .usAscii → prev.glyph.b1 = 0 → prev.glyph.b2 = 0 →
    encodeFrom bs prev = bs.map plainElement := by
  induction bs with
  | nil => intro prev _ _ _ _; simp [encodeFrom_nil]
  | cons b bs ih =>
    intro prev ha hc h1 h2
    have hb : b ≠ 0x5C := fun hb => h (by simp [hb])
    have hr : (0x5C : Byte) ∉ bs := fun hr => h (List.mem_cons_of_mem _ hr)
    rw [encodeFrom_cons, parseElement_plain b bs prev hb ha hc h1 h2]
    simp only [List.map_cons]
    rw [ih hr (plainElement b) rfl rfl rfl rfl]

/-! ### the library's `==` compares meaningful values -/

theorem elementEq_iff (a b : Element) : elementEq a b = true ↔ norm a = norm b := by
  obtain ⟨⟨a0, a1, a2, ac⟩, aa⟩ := a
  obtain ⟨⟨b0, b1, b2, bc⟩, ba⟩ := b
  by_cases hu : ac = .utf8 <;> by_cases hv : bc = .utf8 <;>
    simp [elementEq, glyphEq, norm, normGlyph, hu, hv] <;> grind

theorem stringEq_iff : ∀ (as bs : List Element), stringEq as bs = true ↔ as.map norm = bs.map norm
  | [], [] => by simp [stringEq]
  | [], _ :: _ => by simp [stringEq]
  | _ :: _, [] => by simp [stringEq]
  | a :: as, b :: bs => by
    simp only [stringEq, Bool.and_eq_true, elementEq_iff, stringEq_iff as bs, List.map_cons, List.cons.injEq]

end Tpp.Markup
