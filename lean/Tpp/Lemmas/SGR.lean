import Tpp.Lemmas.VTCsi
import Tpp.Ref.Render
/-! The SGR parameters the library emits, interpreted by the reference terminal. -/
namespace Tpp

theorem sgr_intensity (r : Rend) (si di : Intensity) (rest : List Nat)
    (hb : r.bold = decide (si = .bold)) (hf : r.faint = decide (si = .faint)) :
    applySGR r (effIntensity si di ++ rest) =
      applySGR { r with bold := decide (di = .bold), faint := decide (di = .faint) } rest := by
  cases r; cases si <;> cases di <;> simp_all [effIntensity, Intensity.code, applySGR]

theorem sgr_polarity (r : Rend) (s d : Polarity) (rest : List Nat) (h : r.inv = decide (s = .negative)) :
    applySGR r (effPolarity s d ++ rest) = applySGR { r with inv := decide (d = .negative) } rest := by
  cases r; cases s <;> cases d <;> simp_all [effPolarity, Polarity.code, applySGR]
theorem sgr_underlining (r : Rend) (s d : Underlining) (rest : List Nat) (h : r.ul = decide (s = .underlined)) :
    applySGR r (effUnderlining s d ++ rest) = applySGR { r with ul := decide (d = .underlined) } rest := by
  cases r; cases s <;> cases d <;> simp_all [effUnderlining, Underlining.code, applySGR]
theorem sgr_blinking (r : Rend) (s d : Blinking) (rest : List Nat) (h : r.blink = decide (s = .blink)) :
    applySGR r (effBlinking s d ++ rest) = applySGR { r with blink := decide (d = .blink) } rest := by
  cases r; cases s <;> cases d <;> simp_all [effBlinking, Blinking.code, applySGR]

theorem low_cases : ∀ v : Byte, (v < 8 || v = 9) = true →
    v = 0 ∨ v = 1 ∨ v = 2 ∨ v = 3 ∨ v = 4 ∨ v = 5 ∨ v = 6 ∨ v = 7 ∨ v = 9 := by decide +kernel

theorem sgr_fg (r : Rend) (c : Colour) (hc : c.valid = true) (rest : List Nat) :
    applySGR r (fgParams c ++ rest) = applySGR { r with fg := vcol c } rest := by
  cases c with
  | low v =>
    rcases low_cases v hc with h|h|h|h|h|h|h|h|h <;> subst h <;> simp [fgParams, Consts.foreground_colour_base, applySGR, vcol]
  | high v => simp [fgParams, applySGR, vcol]
  | grey v => simp [fgParams, applySGR, vcol]
  | rgb a b c => simp [fgParams, applySGR, vcol]

theorem sgr_bg (r : Rend) (c : Colour) (hc : c.valid = true) (rest : List Nat) :
    applySGR r (bgParams c ++ rest) = applySGR { r with bg := vcol c } rest := by
  cases c with
  | low v =>
    rcases low_cases v hc with h|h|h|h|h|h|h|h|h <;> subst h <;> simp [bgParams, Consts.background_colour_base, applySGR, vcol]
  | high v => simp [bgParams, applySGR, vcol]
  | grey v => simp [bgParams, applySGR, vcol]
  | rgb a b c => simp [bgParams, applySGR, vcol]

theorem sgr_diff (s d : Attr) (hd : d.valid = true) :
    applySGR (rendOf s) (diffParams s d) = rendOf d := by
  simp only [Attr.valid, Bool.and_eq_true] at hd
  obtain ⟨hfg, hbg⟩ := hd
  unfold diffParams
  rw [sgr_intensity _ s.intensity d.intensity _ (by simp [rendOf]) (by simp [rendOf])]
  rw [sgr_polarity _ s.polarity d.polarity _ (by simp [rendOf])]
  rw [sgr_underlining _ s.underlining d.underlining _ (by simp [rendOf])]
  rw [sgr_blinking _ s.blinking d.blinking _ (by simp [rendOf])]
  have hfg' : ∀ (r : Rend) rest, r.fg = vcol s.fg →
      applySGR r ((if s.fg = d.fg then [] else fgParams d.fg) ++ rest) = applySGR { r with fg := vcol d.fg } rest := by
    intro r rest hr
    by_cases h : s.fg = d.fg
    · simp [h]; cases r; simp_all
    · simp only [h, if_false]; exact sgr_fg r d.fg hfg rest
  have hbg' : ∀ (r : Rend), r.bg = vcol s.bg →
      applySGR r (if s.bg = d.bg then [] else bgParams d.bg) = { r with bg := vcol d.bg } := by
    intro r hr
    by_cases h : s.bg = d.bg
    · simp [h, applySGR]; cases r; simp_all
    · simp only [h, if_false]
      have := sgr_bg r d.bg hbg []
      simpa [applySGR] using this
  rw [hfg' _ _ (by simp [rendOf]), hbg' _ (by simp [rendOf])]
  simp [rendOf]

/-- the lemma that makes `ESC [ m` impossible: two different attributes differ in an emitted parameter -/
theorem diffParams_ne_nil (s d : Attr) (h : s ≠ d) : diffParams s d ≠ [] := by
  intro hnil
  apply h
  cases s with | mk sfg sbg si su sp sb =>
  cases d with | mk dfg dbg di du dp db =>
  simp only [diffParams, List.append_eq_nil_iff, effIntensity, effPolarity, effUnderlining, effBlinking] at hnil
  obtain ⟨h1, h2, h3, h4, h5, h6⟩ := hnil
  have e1 : si = di := by
    by_cases hc : si = di
    · exact hc
    · simp [hc] at h1
  have e2 : sp = dp := by
    by_cases hc : sp = dp
    · exact hc
    · simp [hc] at h2
  have e3 : su = du := by
    by_cases hc : su = du
    · exact hc
    · simp [hc] at h3
  have e4 : sb = db := by
    by_cases hc : sb = db
    · exact hc
    · simp [hc] at h4
  have e5 : sfg = dfg := by
    by_cases hc : sfg = dfg
    · exact hc
    · simp [hc] at h5; cases dfg <;> simp [fgParams] at h5
  have e6 : sbg = dbg := by
    by_cases hc : sbg = dbg
    · exact hc
    · simp [hc] at h6; cases dbg <;> simp [bgParams] at h6
  simp [e1, e2, e3, e4, e5, e6]

theorem sgrFinal_eq : (Consts.csi_select_graphics_rendition : Byte) = 0x6D := by decide

theorem VT.feed_sgr (vt : VT) (hg : vt.ps = .ground) (ps : List Nat) (hne : ps ≠ []) :
    vt.feedAll (csiBytes ++ joinParams ps ++ [Consts.csi_select_graphics_rendition]) = { vt with rend := applySGR vt.rend ps } := by
  rw [sgrFinal_eq, VT.feed_csi vt hg ps hne 0x6D (by decide)]
  cases ps with
  | nil => exact absurd rfl hne
  | cons p ps => cases vt; simp_all [VT.dispatch]

theorem VT.feed_sgr0 (vt : VT) (hg : vt.ps = .ground) :
    vt.feedAll sgr0 = { vt with rend := {} } := by
  have : sgr0 = csiBytes ++ joinParams [0] ++ [Consts.csi_select_graphics_rendition] := by
    simp [sgr0, joinParams, decDigits, digitByte]
  rw [this, VT.feed_sgr vt hg [0] (by simp)]
  simp [applySGR]

theorem rendOf_default : rendOf {} = ({} : Rend) := by decide

theorem feed_changeAttribute (vt : VT) (hg : vt.ps = .ground) (src dst : Attr) (hv : dst.valid = true)
    (hr : vt.rend = rendOf src) :
    vt.feedAll (changeAttribute src dst) = { vt with rend := rendOf dst } := by
  unfold changeAttribute
  by_cases h : src = dst
  · subst h; cases vt; simp_all
  · simp only [h, if_false]
    by_cases hd : dst = {}
    · subst hd; simp only [if_true]; rw [VT.feed_sgr0 vt hg, rendOf_default]
    · simp only [hd, if_false]
      rw [VT.feed_sgr vt hg _ (diffParams_ne_nil src dst h), hr, sgr_diff src dst hv]

end Tpp
