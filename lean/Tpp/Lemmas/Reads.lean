import Tpp.Model.Reads
import Tpp.Lemmas.Input
/-! Invariant of a client that keeps a window of reads posted (`Tpp.Model.Reads`). -/
namespace Tpp

theorem postN_spec (k : Nat) : ∀ s : RState,
    (RState.postN k s).posted = s.posted ++ (List.range' s.next k) ∧ (RState.postN k s).next = s.next + k
    ∧ (RState.postN k s).parser = s.parser ∧ (RState.postN k s).served = s.served ∧ (RState.postN k s).lost = s.lost := by
  induction k with
  | zero => intro s; simp [RState.postN]
  | succ k ih =>
    intro s
    obtain ⟨h1, h2, h3, h4, h5⟩ := ih s.post
    refine ⟨?_, ?_, ?_, ?_, ?_⟩
    · show (RState.postN k s.post).posted = _
      rw [h1]; simp [RState.post, List.range'_succ]
    · show (RState.postN k s.post).next = _
      rw [h2]; simp [RState.post]; omega
    · show (RState.postN k s.post).parser = _
      rw [h3]; rfl
    · show (RState.postN k s.post).served = _
      rw [h4]; rfl
    · show (RState.postN k s.post).lost = _
      rw [h5]; rfl

theorem deliverAll_snoc (done : List (List Byte)) (data : List Byte) : ∀ st0 : PState,
    (deliverAll (done ++ [data]) st0).tokenLists = (deliverAll done st0).tokenLists ++ [tokens (feedAll done.flatten st0) data] := by
  induction done with
  | nil => intro st0; simp [deliverAll, deliver, feedAll]
  | cons c cs ih => intro st0; simp [deliverAll, deliver, ih, feedAll_append]

/-- the invariant of a client with a window of `k ≥ 1` reads after the deliveries `done`: the posted reads are the `k`
    consecutive ids after the ones served, nothing was lost, and the handlers served so far are the reads `0, 1, …` in
    order, each with the tokens of its own delivery -/
structure Windowed (k : Nat) (st0 : PState) (done : List (List Byte)) (s : RState) : Prop where
  posted : s.posted = List.range' done.length k
  next : s.next = done.length + k
  parser : s.parser = feedAll done.flatten st0
  ids : s.served.map (·.1) = List.range' 0 done.length
  toks : s.served.map (·.2) = (deliverAll done st0).tokenLists
  lost : s.lost = []

theorem windowed_init (k : Nat) (st0 : PState) : Windowed k st0 [] (RState.postN k { parser := st0 }) := by
  obtain ⟨h1, h2, h3, h4, h5⟩ := postN_spec k { parser := st0 }
  exact ⟨by simpa using h1, by simpa using h2, by simpa [feedAll] using h3, by simp [h4], by simp [h4, deliverAll], by simp [h5]⟩

theorem windowed_deliver (k : Nat) (hk : 1 ≤ k) (st0 : PState) (done : List (List Byte)) (s : RState)
    (h : Windowed k st0 done s) (data : List Byte) : Windowed k st0 (done ++ [data]) (s.deliver data) := by
  obtain ⟨hp, hn, hpar, hids, htoks, hlost⟩ := h
  obtain ⟨k', rfl⟩ : ∃ k', k = k' + 1 := ⟨k - 1, by omega⟩
  have hpost : s.posted = done.length :: List.range' (done.length + 1) k' := by rw [hp, List.range'_succ]
  have hd : s.deliver data =
      { s with parser := feedAll data s.parser, posted := List.range' (done.length + 1) k' ++ [s.next], next := s.next + 1,
               served := s.served ++ [(done.length, tokens s.parser data)] } := by
    simp only [RState.deliver, hpost, RState.post]
  rw [hd]
  refine ⟨?_, ?_, ?_, ?_, ?_, ?_⟩
  · simp only [List.length_append, List.length_cons, List.length_nil, hn]
    rw [show done.length + (k' + 1) = (done.length + 1) + 1 * k' by omega, show done.length + (0 + 1) = done.length + 1 by omega,
      ← List.range'_concat]
  · simp only [List.length_append, List.length_cons, List.length_nil, hn]; omega
  · simp only [List.flatten_append, List.flatten_cons, List.flatten_nil, List.append_nil, feedAll_append, hpar]
  · simp only [List.map_append, List.map_cons, List.map_nil, hids, List.length_append, List.length_cons, List.length_nil]
    rw [show done.length + (0 + 1) = done.length + 1 by omega, List.range'_concat]
    simp
  · simp only [List.map_append, List.map_cons, List.map_nil, htoks, deliverAll_snoc, hpar]
  · exact hlost

theorem windowed_run (k : Nat) (hk : 1 ≤ k) (st0 : PState) (rest : List (List Byte)) :
    ∀ (done : List (List Byte)) (s : RState), Windowed k st0 done s → Windowed k st0 (done ++ rest) (s.deliverAll rest) := by
  induction rest with
  | nil => intro done s h; simpa [RState.deliverAll] using h
  | cons c cs ih =>
    intro done s h
    have := ih (done ++ [c]) (s.deliver c) (windowed_deliver k hk st0 done s h c)
    simpa [RState.deliverAll, List.append_assoc] using this

end Tpp
