import Tpp.Model.Keys
import Tpp.Model.ParserFast
import Tpp.Ref.Input
/-!
Helper lemmas for the input-decoder properties (C05 C06 C07 C20): what the parser model does on the
building blocks of the input protocol (digit strings, parameter strings, introducers, final bytes),
and the arithmetic of `argToInt`.  No property statements here.
-/
namespace Tpp
open Tpp.Ref

/-! ### the step function with the regenerated constants spelled out (definitional) -/

theorem isExt_eq (b : Byte) : isExt b = (b = 0x3F || b = 0x3E || b = 0x21) := rfl

theorem parseIdle_eq (s : PState) (b : Byte) : parseIdle s b =
    if b = 0x1B then ({ s.reset with ctl := .escape }, none)
    else if b = 0x0D then ({ s with ctl := .cr }, some (.key enterKey))
    else if b = 0x0A then ({ s with ctl := .lf }, some (.key enterKey))
    else if b = 0x9B then ({ s.reset with ctl := .arguments, initializer := 0x5B }, none)
    else if b = 0x8F then ({ s.reset with ctl := .arguments, initializer := 0x4F }, none)
    else (s, some (.key (rawKey b))) := rfl

theorem parseArguments_eq (s : PState) (b : Byte) : parseArguments s b =
    if isDigit b then ({ s with arg := s.arg ++ [b] }, none)
    else if b = 0x3B then ({ s with args := s.args ++ [s.arg], arg := [] }, none)
    else if b = 0x4D && s.initializer = 0x5B then ({ s with ctl := .mouse0 }, none)
    else if isExt b then ({ s with extender := b }, none)
    else
      ({ s with ctl := .idle, args := s.args ++ [s.arg] },
       some (.ctrl { initiator := s.initializer, command := b, metaFlag := s.metaFlag,
                     args := s.args ++ [s.arg], extender := s.extender })) := rfl

theorem feed_eq (s : PState) (b : Byte) : s.feed b =
    match s.ctl with
    | .idle => parseIdle s b
    | .cr => if b = 0x0A || b = 0x00 then ({ s with ctl := .idle }, none) else parseIdle { s with ctl := .idle } b
    | .lf => if b = 0x0D then ({ s with ctl := .idle }, none) else parseIdle { s with ctl := .idle } b
    | .escape =>
      if b = 0x1B then ({ s with metaFlag := true }, none) else ({ s with initializer := b, ctl := .arguments }, none)
    | .arguments => parseArguments s b
    | .mouse0 => ({ s with ctl := .mouse1, mouseEv := mouseOf b }, none)
    | .mouse1 => ({ s with ctl := .mouse2, mouseX := mouseCoord b }, none)
    | .mouse2 =>
      ({ s with ctl := .idle, mouseY := mouseCoord b }, some (.mouse s.mouseEv s.mouseX (mouseCoord b))) := rfl

/-! ### atoi -/

theorem atoi_small (ds : List Byte) (h : parseDec ds 0 < 2147483648) : argToInt ds = (parseDec ds 0 : Nat) := by
  unfold argToInt
  generalize parseDec ds 0 = n at *
  have h1 : min (min n 9223372036854775807) 2147483647 = n := by omega
  rw [h1]

/-- a parameter that does not fit is clamped – it never wraps around into the range of meaningful values -/
theorem atoi_large (ds : List Byte) (h : ¬ parseDec ds 0 < 2147483648) : argToInt ds = (2147483647 : Nat) := by
  unfold argToInt
  generalize parseDec ds 0 = n at *
  have h1 : min (min n 9223372036854775807) 2147483647 = 2147483647 := by omega
  rw [h1]

theorem atoi_decDigits (n : Nat) (h : n < 2147483648) : argToInt (decDigits n) = (n : Int) := by
  rw [atoi_small] <;> rw [parseDec_zero_decDigits] ; exact h

theorem atoi_nil : argToInt [] = 0 := by decide

/-! ### the arguments state -/

theorem feed_digit (s : PState) (b : Byte) (hc : s.ctl = .arguments) (hd : isDigit b = true) :
    s.feed b = ({ s with arg := s.arg ++ [b] }, none) := by
  simp [feed_eq, hc, parseArguments_eq, hd]

theorem feedAll_digits (ds : List Byte) : ∀ s : PState, s.ctl = .arguments → (∀ b ∈ ds, isDigit b = true) →
    feedAll ds s = { s with arg := s.arg ++ ds } ∧ rawTokens ds s = [] := by
  induction ds with
  | nil => intro s _ _; cases s; simp [feedAll, rawTokens]
  | cons d ds ih =>
    intro s hc hd
    have hd1 : isDigit d = true := hd d (by simp)
    have hrest : ∀ b ∈ ds, isDigit b = true := fun b hb => hd b (by simp [hb])
    have := ih { s with arg := s.arg ++ [d] } hc hrest
    simp [feedAll, rawTokens, feed_digit s d hc hd1, this, optList]

theorem encParam_digits (p : Option Nat) : ∀ b ∈ encParam p, isDigit b = true := by
  cases p with
  | none => simp [encParam]
  | some n => simpa [encParam] using decDigits_all_digits n

theorem feed_ps (s : PState) (hc : s.ctl = .arguments) :
    s.feed 0x3B = ({ s with args := s.args ++ [s.arg], arg := [] }, none) := by
  have : isDigit 0x3B = false := by decide
  simp [feed_eq, hc, parseArguments_eq, this]

/-- what a parameter string leaves in `arguments_` (first component) and `argument_` (second) -/
def argsSplit : List (Option Nat) → List (List Byte) × List Byte
  | [] => ([], [])
  | [p] => ([], encParam p)
  | p :: q :: r => (encParam p :: (argsSplit (q :: r)).1, (argsSplit (q :: r)).2)

theorem argsSplit_finish (ps : List (Option Nat)) : (argsSplit ps).1 ++ [(argsSplit ps).2] = argsOf ps := by
  fun_induction argsSplit ps with
  | case1 => rfl
  | case2 p => rfl
  | case3 p q r ih =>
    simp only [List.cons_append, ih]
    simp [argsOf]

theorem feedAll_params (ps : List (Option Nat)) : ∀ s : PState, s.ctl = .arguments → s.arg = [] →
    feedAll (paramBytes ps) s = { s with args := s.args ++ (argsSplit ps).1, arg := (argsSplit ps).2 }
    ∧ rawTokens (paramBytes ps) s = [] := by
  fun_induction argsSplit ps with
  | case1 => intro s _ ha; cases s; simp_all [paramBytes, feedAll, rawTokens]
  | case2 p =>
    intro s hc ha
    have := feedAll_digits (encParam p) s hc (encParam_digits p)
    cases s; simp_all [paramBytes]
  | case3 p q r ih =>
    intro s hc ha
    have h1 := feedAll_digits (encParam p) s hc (encParam_digits p)
    have h2 := feed_ps { s with arg := s.arg ++ encParam p } hc
    have h3 := ih { s with args := s.args ++ [s.arg ++ encParam p], arg := [] } hc rfl
    simp only [paramBytes, feedAll_append, rawTokens_append, h1.1, h1.2, feedAll, rawTokens, h2, h3.1, h3.2, optList]
    cases s; simp_all

/-! ### introducers, marker, final byte -/

/-- the decoder state right after an introducer, whatever the scratch fields held before -/
def afterIntro (s : PState) (initiator : Byte) (i : Intro) : PState :=
  { s with ctl := .arguments, initializer := initiator, metaFlag := i.isMeta, extender := 0, arg := [], args := [] }

theorem feedAll_introCsi (i : Intro) (s : PState) (h : s.ctl = .idle) :
    feedAll i.csi s = afterIntro s 0x5B i ∧ rawTokens i.csi s = [] := by
  cases i with
  | seven m => cases m <;> simp [Intro.csi, Intro.isMeta, afterIntro, feedAll, rawTokens, feed_eq, h, parseIdle_eq, PState.reset, optList]
  | eight => simp [Intro.csi, Intro.isMeta, afterIntro, feedAll, rawTokens, feed_eq, h, parseIdle_eq, PState.reset, optList]

theorem feedAll_introSs3 (i : Intro) (s : PState) (h : s.ctl = .idle) :
    feedAll i.ss3 s = afterIntro s 0x4F i ∧ rawTokens i.ss3 s = [] := by
  cases i with
  | seven m => cases m <;> simp [Intro.ss3, Intro.isMeta, afterIntro, feedAll, rawTokens, feed_eq, h, parseIdle_eq, PState.reset, optList]
  | eight => simp [Intro.ss3, Intro.isMeta, afterIntro, feedAll, rawTokens, feed_eq, h, parseIdle_eq, PState.reset, optList]

def markerByte : Option Marker → Byte
  | none => 0
  | some m => m.byte

theorem feedAll_marker (m : Option Marker) (s : PState) (hc : s.ctl = .arguments) (he : s.extender = 0)
    (hi : s.initializer = 0x5B ∨ s.initializer = 0x4F) :
    feedAll (markerBytes m) s = { s with extender := markerByte m } ∧ rawTokens (markerBytes m) s = [] := by
  cases m with
  | none => cases s; simp_all [markerBytes, markerByte, feedAll, rawTokens]
  | some m =>
    cases m <;> simp [markerBytes, markerByte, Marker.byte, feedAll, rawTokens, feed_eq, hc, parseArguments_eq, isDigit, isExt_eq, optList]

/-- a byte that ends a control sequence whose initiator is `init` -/
def isFinalFor (init f : Byte) : Bool :=
  !isDigit f && f != 0x3B && !(f == 0x4D && init == 0x5B) && !isExt f

theorem feed_final (s : PState) (f : Byte) (hc : s.ctl = .arguments) (hf : isFinalFor s.initializer f = true) :
    s.feed f = ({ s with ctl := .idle, args := s.args ++ [s.arg] },
                some (.ctrl { initiator := s.initializer, command := f, metaFlag := s.metaFlag,
                              args := s.args ++ [s.arg], extender := s.extender })) := by
  simp [isFinalFor] at hf
  obtain ⟨⟨⟨h1, h2⟩, h3⟩, h4⟩ := hf
  simp [feed_eq, hc, parseArguments_eq, h1, h2, h4]
  intro h5 h6
  rcases h3 with h3 | h3
  · exact absurd h5 h3
  · exact absurd h6 h3

/-- a complete control sequence from an idle decoder with arbitrary scratch: exactly one raw token, the
    control sequence as sent, and the decoder is idle again -/
theorem seq_from_idle (introBytes : List Byte) (init : Byte) (i : Intro) (m : Option Marker)
    (ps : List (Option Nat)) (f : Byte) (s : PState)
    (hintro : feedAll introBytes s = afterIntro s init i ∧ rawTokens introBytes s = [])
    (hinit : init = 0x5B ∨ init = 0x4F) (hf : isFinalFor init f = true) :
    rawTokens (introBytes ++ (markerBytes m ++ (paramBytes ps ++ [f]))) s
      = [.ctrl { initiator := init, command := f, metaFlag := i.isMeta, args := argsOf ps, extender := markerByte m }]
    ∧ (feedAll (introBytes ++ (markerBytes m ++ (paramBytes ps ++ [f]))) s).ctl = .idle := by
  have hm := feedAll_marker m (afterIntro s init i) rfl rfl hinit
  have hp := feedAll_params ps { afterIntro s init i with extender := markerByte m } rfl rfl
  have hfin := feed_final
    { afterIntro s init i with extender := markerByte m, args := [] ++ (argsSplit ps).1, arg := (argsSplit ps).2 } f rfl hf
  have hsplit := argsSplit_finish ps
  simp only [feedAll_append, rawTokens_append, hintro.1, hintro.2, hm.1, hm.2, hp.1, hp.2, feedAll, rawTokens]
  simp only [afterIntro] at hfin ⊢
  simp only [hfin, optList]
  simp [hsplit]

/-! ### the key tables against the xterm tables of `Tpp.Ref` -/

theorem lookup_cursor (k : CsiKey) : lookupByte k.final cursorTable = some k.vk := by cases k <;> decide

theorem lookup_cursor_none : ∀ f : Byte, isKeyFinal f = false → lookupByte f cursorTable = none := by
  decide +kernel

theorem lookup_cursor_some : ∀ f : Byte, ∀ k, lookupByte f cursorTable = some k →
    (csiKeyOfFinal f).map CsiKey.vk = some k := by
  intro f
  have : ∀ f : Byte, (lookupByte f cursorTable) = (csiKeyOfFinal f).map CsiKey.vk := by decide +kernel
  intro k h; rw [← this, h]

theorem lookup_ss3 (k : Ss3Key) : lookupByte k.final ss3Table = some k.vk := by cases k <;> decide

theorem lookup_ss3_eq : ∀ f : Byte, lookupByte f ss3Table = (ss3KeyOfFinal f).map Ss3Key.vk := by
  decide +kernel

theorem lookup_keypad (k : PadKey) : lookupInt (k.code : Int) keypadTable = some k.vk := by cases k <;> decide

theorem lookup_keypad_eq (n : Nat) : lookupInt (n : Int) keypadTable = (padKeyOfCode n).map PadKey.vk := by
  by_cases h : n < 25
  · have : ∀ n : Fin 25, lookupInt ((n.val : Nat) : Int) keypadTable = (padKeyOfCode n.val).map PadKey.vk := by
      decide +kernel
    exact this ⟨n, h⟩
  · have h1 : lookupInt (n : Int) keypadTable = none := by
      simp [lookupInt, keypadTable]
      repeat (rw [if_neg (by omega)])
    have h2 : padKeyOfCode n = none := by
      simp [padKeyOfCode, PadKey.all, PadKey.code]
      repeat' apply And.intro
      all_goals (apply decide_eq_false; omega)
    rw [h1, h2]; rfl

theorem Ref.Mods.code_lt (m : Mods) : m.code < 2147483648 := by
  obtain ⟨a, b, c, d⟩ := m
  cases a <;> cases b <;> cases c <;> cases d <;> decide

theorem convertModifier_code (m : Mods) : convertModifier (decDigits m.code) = m.bits := by
  unfold convertModifier
  rw [atoi_decDigits _ m.code_lt]
  obtain ⟨a, b, c, d⟩ := m
  cases a <;> cases b <;> cases c <;> cases d <;> decide

theorem metaMod_eq (c : CtrlSeq) (i : Intro) (h : c.metaFlag = i.isMeta) : metaMod c = i.metaBits := by
  simp [metaMod, Intro.metaBits, h]

/-! ### `get_well_known_virtual_key` on the sequences of the protocol -/

theorem seqOf_eq (init : Byte) (i : Intro) (m : Option Marker) (ps : List (Option Nat)) (f : Byte) :
    seqOf init i m ps f = { initiator := init, command := f, metaFlag := i.isMeta, args := argsOf ps, extender := markerByte m } := by
  cases m <;> rfl

theorem convertCommon_csi_nonpad (c : CtrlSeq) (h1 : c.initiator = 0x5B) (h2 : c.command ≠ 0x7E) :
    convertCommon c = convertControlSequence c := by
  unfold convertCommon; simp [Consts.control7_csi_1, Consts.csi_keypad_function, h1, h2]

theorem convertCommon_csi_pad (c : CtrlSeq) (h1 : c.initiator = 0x5B) (h2 : c.command = 0x7E) :
    convertCommon c = convertKeypadSequence c := by
  unfold convertCommon; simp [Consts.control7_csi_1, Consts.csi_keypad_function, h1, h2]

theorem convertCommon_ss3 (c : CtrlSeq) (h1 : c.initiator = 0x4F) : convertCommon c = convertSs3Sequence c := by
  unfold convertCommon; simp [Consts.control7_csi_1, Consts.control7_ss3_1, h1]

theorem CsiKey.final_ne_tilde (k : CsiKey) : k.final ≠ 0x7E := by cases k <;> decide

theorem metaMod_seqOf (init : Byte) (i : Intro) (m : Option Marker) (ps : List (Option Nat)) (f : Byte) :
    metaMod (seqOf init i m ps f) = i.metaBits := metaMod_eq _ _ rfl

theorem wellKnown_csiKey (i : Intro) (k : CsiKey) (rep : Option Nat) (mods : Option Mods)
    (hwf : (Item.csiKey i k rep mods).wf = true) :
    wellKnown (.ctrl (seqOf 0x5B i none (keyParams rep mods) k.final)) = (Item.csiKey i k rep mods).expected := by
  rw [wellKnown, convertCommon_csi_nonpad _ rfl (CsiKey.final_ne_tilde k)]
  unfold convertControlSequence
  have hl : lookupByte (seqOf 0x5B i none (keyParams rep mods) k.final).command cursorTable = some k.vk := lookup_cursor k
  simp only [hl]
  have h01 : max (0 : Int) 1 = 1 := by decide
  cases rep <;> cases mods <;> simp [Item.wf] at hwf <;>
    simp [Item.expected, keyParams, argsOf, seqMods, encParam, modBits, metaMod, Intro.metaBits, Consts.vkmod_none, atoi_nil,
      convertModifier_code, seqOf, h01, atoi_decDigits, hwf] <;> rfl

theorem wellKnown_ss3Key (i : Intro) (k : Ss3Key) :
    wellKnown (.ctrl (seqOf 0x4F i none [] k.final)) = (Item.ss3Key i k).expected := by
  rw [wellKnown, convertCommon_ss3 _ rfl]
  unfold convertSs3Sequence
  have hl : lookupByte (seqOf 0x4F i none [] k.final).command ss3Table = some k.vk := lookup_ss3 k
  simp only [hl]
  simp [Item.expected, metaMod, Intro.metaBits, Consts.vkmod_none, seqOf] <;> rfl

theorem decDigits_cons (n : Nat) : ∃ d ds, decDigits n = d :: ds ∧ isDigit d = true := by
  have hne := decDigits_ne_nil n
  have hall := decDigits_all_digits n
  cases h : decDigits n with
  | nil => exact absurd h hne
  | cons d ds => exact ⟨d, ds, rfl, hall d (by simp [h])⟩

theorem wellKnown_keypad (i : Intro) (k : PadKey) (mods : Option Mods) :
    wellKnown (.ctrl (seqOf 0x5B i none (padParams k mods) 0x7E)) = (Item.keypad i k mods).expected := by
  rw [wellKnown, convertCommon_csi_pad _ rfl rfl]
  unfold convertKeypadSequence
  have hk : k.code < 2147483648 := by cases k <;> decide
  obtain ⟨d, ds, hd, hdig⟩ := decDigits_cons k.code
  have ha : argToInt (d :: ds) = (k.code : Int) := by rw [← hd]; exact atoi_decDigits _ hk
  cases mods <;>
    simp [Item.expected, padParams, argsOf, seqMods, encParam, modBits, metaMod, Intro.metaBits, Consts.vkmod_none,
      convertModifier_code, seqOf, hd, hdig, ha, lookup_keypad]

theorem wellKnown_csi (i : Intro) (m : Option Marker) (ps : List (Option Nat)) (f : Byte)
    (hwf : (Item.csi i m ps f).wf = true) :
    wellKnown (.ctrl (seqOf 0x5B i m ps f)) = (Item.csi i m ps f).expected := by
  simp only [Item.expected]
  simp [Item.wf] at hwf
  obtain ⟨⟨_, hkey⟩, htilde⟩ := hwf
  by_cases hf : f = 0x7E
  · subst hf
    rw [wellKnown, convertCommon_csi_pad _ rfl rfl]
    unfold convertKeypadSequence
    simp at htilde
    match ps, htilde with
    | [], _ => simp [seqOf, argsOf]
    | none :: r, _ => simp [seqOf, argsOf, encParam]
    | some n :: r, hpad =>
      obtain ⟨d, ds, hd, hdig⟩ := decDigits_cons n
      have hnone : padKeyOfCode n = none := by simpa [namesPadKey] using hpad
      by_cases hn' : n < 2147483648
      · have ha : argToInt (d :: ds) = (n : Int) := by rw [← hd]; exact atoi_decDigits _ hn'
        simp [seqOf, argsOf, encParam, hd, hdig, ha, lookup_keypad_eq, hnone]
      · have ha : argToInt (d :: ds) = ((2147483647 : Nat) : Int) := by
          rw [← hd]; exact atoi_large _ (by rw [parseDec_zero_decDigits]; exact hn')
        have hl : lookupInt (2147483647 : Int) keypadTable = none := by decide
        simp [seqOf, argsOf, encParam, hd, hdig, ha, hl]
  · rw [wellKnown, convertCommon_csi_nonpad _ rfl hf]
    unfold convertControlSequence
    have hl : lookupByte (seqOf 0x5B i m ps f).command cursorTable = none := lookup_cursor_none f hkey
    simp only [hl]

/-! ### single items from an idle decoder with arbitrary scratch -/

theorem char_facts : ∀ b : Byte, (b < 0x80 && b != 0x1B && b != 0x0D && b != 0x0A) = true →
    b ≠ 0x1B ∧ b ≠ 0x0D ∧ b ≠ 0x0A ∧ b ≠ 0x9B ∧ b ≠ 0x8F := by decide +kernel

theorem mouseOf_button (b : Button) : mouseOf (UInt8.ofNat (32 + b.code)) = b.ev := by cases b <;> decide

theorem mouseCoord_enc (x : Nat) (h : x ≤ 222) : mouseCoord (UInt8.ofNat (32 + (x + 1))) = (x : Int) := by
  simp [mouseCoord, mouseVal, Consts.mouse_value_offset]
  omega

/-- the control state an item leaves behind: a bare CR / LF waits for its optional partner -/
def afterCtl : Item → Ctl
  | .enter .cr => .cr
  | .enter .lf => .lf
  | _ => .idle

theorem isFinalFor_csiKey (k : CsiKey) : isFinalFor 0x5B k.final = true := by cases k <;> decide
theorem isFinalFor_ss3Key (k : Ss3Key) : isFinalFor 0x4F k.final = true := by cases k <;> decide

theorem isFinalFor_csi (i : Intro) (m : Option Marker) (ps : List (Option Nat)) (f : Byte)
    (hwf : (Item.csi i m ps f).wf = true) : isFinalFor 0x5B f = true := by
  simp [Item.wf] at hwf
  obtain ⟨⟨⟨⟨⟨⟨⟨h1, h2⟩, h3⟩, h4⟩, h5⟩, h6⟩, _⟩, _⟩ := hwf
  simp [isFinalFor, isExt_eq, h1, h2, h3, h4, h5, h6]

theorem item_from_idle (it : Item) (hwf : it.wf = true) (s : PState) (h : s.ctl = .idle) :
    tokens s it.bytes = [it.expected] ∧ (feedAll it.bytes s).ctl = afterCtl it := by
  cases it with
  | char b =>
    obtain ⟨h1, h2, h3, h4, h5⟩ := char_facts b hwf
    simp [tokens, Item.bytes, rawTokens, feedAll, feed_eq, h, parseIdle_eq, h1, h2, h3, h4, h5, optList, wellKnown,
      Item.expected, rawKey, afterCtl, Consts.vkmod_none]
  | enter f =>
    cases f <;>
      simp [tokens, Item.bytes, EnterForm.bytes, rawTokens, feedAll, feed_eq, h, parseIdle_eq, optList, wellKnown,
        Item.expected, enterKey, afterCtl, Consts.vkmod_none]
  | csiKey i k rep mods =>
    have := seq_from_idle i.csi 0x5B i none (keyParams rep mods) k.final s (feedAll_introCsi i s h) (Or.inl rfl)
      (isFinalFor_csiKey k)
    simp only [markerBytes, List.nil_append] at this
    simp only [tokens, Item.bytes, this.1, this.2, List.map, ← seqOf_eq, wellKnown_csiKey i k rep mods hwf, afterCtl]
    trivial
  | ss3Key i k =>
    have := seq_from_idle i.ss3 0x4F i none [] k.final s (feedAll_introSs3 i s h) (Or.inr rfl) (isFinalFor_ss3Key k)
    simp only [markerBytes, paramBytes, List.nil_append] at this
    simp only [tokens, Item.bytes, this.1, this.2, List.map, ← seqOf_eq, wellKnown_ss3Key i k, afterCtl]
    trivial
  | keypad i k mods =>
    have := seq_from_idle i.csi 0x5B i none (padParams k mods) 0x7E s (feedAll_introCsi i s h) (Or.inl rfl) (by decide)
    simp only [markerBytes, List.nil_append] at this
    simp only [tokens, Item.bytes, this.1, this.2, List.map, ← seqOf_eq, wellKnown_keypad i k mods, afterCtl]
    trivial
  | csi i m ps f =>
    have := seq_from_idle i.csi 0x5B i m ps f s (feedAll_introCsi i s h) (Or.inl rfl) (isFinalFor_csi i m ps f hwf)
    simp only [tokens, Item.bytes, this.1, this.2, List.map, ← seqOf_eq, wellKnown_csi i m ps f hwf, afterCtl]
    trivial
  | mouse i b x y =>
    simp [Item.wf] at hwf
    have hi := feedAll_introCsi i s h
    have hd : isDigit 0x4D = false := by decide
    simp [tokens, Item.bytes, rawTokens_append, feedAll_append, hi.1, hi.2, rawTokens, feedAll, feed_eq, afterIntro,
      parseArguments_eq, hd, optList, wellKnown, Item.expected, afterCtl]
    exact ⟨by simpa using mouseOf_button b, by simpa using mouseCoord_enc x hwf.1,
      by simpa using mouseCoord_enc y hwf.2⟩

/-! ### the CR / LF look-ahead states -/

/-- a decoder in control state `c` treats the coming bytes exactly as an idle one does -/
def StartsOk (c : Ctl) (bs : List Byte) : Prop :=
  c = .idle ∨ (c = .cr ∧ bs.head? ≠ some 0x0A ∧ bs.head? ≠ some 0x00) ∨ (c = .lf ∧ bs.head? ≠ some 0x0D)

theorem tokens_from_ready (s : PState) (bs : List Byte) (h : StartsOk s.ctl bs) :
    tokens s bs = tokens { s with ctl := .idle } bs := by
  cases bs with
  | nil => rfl
  | cons b r =>
    have hfeed : s.feed b = ({ s with ctl := .idle } : PState).feed b := by
      rcases h with h | ⟨h, h1, h2⟩ | ⟨h, h1⟩
      · have : ({ s with ctl := .idle } : PState) = s := by cases s; simp_all
        rw [this]
      · simp at h1 h2
        simp [feed_eq, h, h1, h2]
      · simp at h1
        simp [feed_eq, h, h1]
    simp [tokens, rawTokens, hfeed]

theorem Item.bytes_ne_nil (it : Item) : it.bytes ≠ [] := by
  cases it with
  | char b => simp [Item.bytes]
  | enter f => cases f <;> simp [Item.bytes, EnterForm.bytes]
  | csiKey i k rep mods => cases i with | seven m => cases m <;> simp [Item.bytes, Intro.csi] | eight => simp [Item.bytes, Intro.csi]
  | ss3Key i k => cases i with | seven m => cases m <;> simp [Item.bytes, Intro.ss3] | eight => simp [Item.bytes, Intro.ss3]
  | keypad i k mods => cases i with | seven m => cases m <;> simp [Item.bytes, Intro.csi] | eight => simp [Item.bytes, Intro.csi]
  | csi i m ps f => cases i with | seven m => cases m <;> simp [Item.bytes, Intro.csi] | eight => simp [Item.bytes, Intro.csi]
  | mouse i b x y => cases i with | seven m => cases m <;> simp [Item.bytes, Intro.csi] | eight => simp [Item.bytes, Intro.csi]

theorem head_flatMap_cons (b : Item) (r : List Item) :
    ((b :: r).flatMap Item.bytes).head? = b.bytes.head? := by
  have := Item.bytes_ne_nil b
  cases hb : b.bytes with
  | nil => exact absurd hb this
  | cons x xs => simp [List.flatMap_cons, hb]

theorem startsOk_after (it : Item) (rest : List Item) (hadj : adjacent (it :: rest) = true) :
    StartsOk (afterCtl it) (rest.flatMap Item.bytes) := by
  cases rest with
  | nil =>
    unfold StartsOk
    cases it with
    | enter f => cases f <;> simp [afterCtl]
    | _ => simp [afterCtl]
  | cons b r =>
    have hp : okPair it b = true := by simp [adjacent] at hadj; exact hadj.1
    unfold StartsOk
    rw [head_flatMap_cons]
    cases it with
    | enter f => cases f <;> simp_all [afterCtl, okPair]
    | _ => simp [afterCtl]

theorem items_decode : ∀ (items : List Item), (∀ it ∈ items, it.wf = true) → adjacent items = true →
    ∀ s : PState, StartsOk s.ctl (items.flatMap Item.bytes) →
    tokens s (items.flatMap Item.bytes) = items.map Item.expected := by
  intro items
  induction items with
  | nil => intro _ _ s _; rfl
  | cons it rest ih =>
    intro hwf hadj s hs
    have hwf1 : it.wf = true := hwf it (by simp)
    have hwfr : ∀ x ∈ rest, x.wf = true := fun x hx => hwf x (by simp [hx])
    have hadjr : adjacent rest = true := by
      cases rest with
      | nil => rfl
      | cons b r => simp [adjacent] at hadj; exact hadj.2
    rw [tokens_from_ready s _ hs]
    have hitem := item_from_idle it hwf1 { s with ctl := .idle } rfl
    simp only [List.flatMap_cons, tokens_append, hitem.1, List.map_cons]
    have hready : StartsOk (feedAll it.bytes { s with ctl := .idle }).ctl (rest.flatMap Item.bytes) := by
      rw [hitem.2]; exact startsOk_after it rest hadj
    rw [ih hwfr hadjr _ hready]
    rfl


/-! ### C07: dead scratch fields (bisimulation) -/

/-- two decoder states that differ only in fields the decoder will overwrite before reading them -/
def Sim (a b : PState) : Prop :=
  a.ctl = b.ctl ∧
  match a.ctl with
  | .idle | .cr | .lf | .mouse0 => True
  | .escape => a.metaFlag = b.metaFlag ∧ a.extender = b.extender ∧ a.arg = b.arg ∧ a.args = b.args
  | .arguments => a.initializer = b.initializer ∧ a.metaFlag = b.metaFlag ∧ a.extender = b.extender
                  ∧ a.arg = b.arg ∧ a.args = b.args
  | .mouse1 => a.mouseEv = b.mouseEv
  | .mouse2 => a.mouseEv = b.mouseEv ∧ a.mouseX = b.mouseX

theorem sim_feed (a b : PState) (x : Byte) (h : Sim a b) :
    (a.feed x).2 = (b.feed x).2 ∧ Sim (a.feed x).1 (b.feed x).1 := by
  obtain ⟨hc, hm⟩ := h
  cases ha : a.ctl <;> rw [ha] at hc hm <;> simp only [] at hm
  all_goals simp only [feed_eq, ha, ← hc, parseIdle_eq, parseArguments_eq, PState.reset]
  all_goals (repeat' split)
  all_goals simp_all [Sim]
  all_goals (rw [← hc]; exact True.intro)

theorem sim_tokens (bs : List Byte) : ∀ a b : PState, Sim a b → rawTokens bs a = rawTokens bs b := by
  induction bs with
  | nil => intros; rfl
  | cons x xs ih =>
    intro a b h
    have := sim_feed a b x h
    simp [rawTokens, this.1, ih _ _ this.2]

theorem sim_of_idle (a b : PState) (ha : a.ctl = .idle) (hb : b.ctl = .idle) : Sim a b := by
  simp [Sim, ha, hb]

/-! ### C07: resynchronisation -/

theorem letter_facts : ∀ b : Byte, isLetter b = true →
    (b ≠ 0x1B ∧ b ≠ 0x0D ∧ b ≠ 0x0A ∧ b ≠ 0x9B ∧ b ≠ 0x8F ∧ b ≠ 0 ∧ isDigit b = false ∧ b ≠ 0x3B ∧ isExt b = false
     ∧ b ≠ 0x5B) := by
  decide +kernel

/-- one letter from any state: where the decoder lands -/
theorem feed_letter_ctl (s : PState) (b : Byte) (hl : isLetter b = true) :
    (s.feed b).1.ctl = match s.ctl with
      | .idle => .idle | .cr => .idle | .lf => .idle
      | .escape => .arguments
      | .arguments => if b = 0x4D && s.initializer = 0x5B then .mouse0 else .idle
      | .mouse0 => .mouse1 | .mouse1 => .mouse2 | .mouse2 => .idle := by
  obtain ⟨h1, h2, h3, h4, h5, h6, h7, h8, h9, _⟩ := letter_facts b hl
  cases hc : s.ctl <;> simp [feed_eq, parseIdle_eq, parseArguments_eq, hc, h1, h2, h3, h4, h5, h6, h7, h8, h9]
  split <;> simp_all

theorem feed_letter_init (s : PState) (b : Byte) (hl : isLetter b = true) (hc : s.ctl = .escape) :
    (s.feed b).1.initializer = b := by
  obtain ⟨h1, _⟩ := letter_facts b hl
  simp [feed_eq, hc, h1]

theorem resync4 (s : PState) (a b c d : Byte) (ha : isLetter a = true) (hb : isLetter b = true)
    (hc : isLetter c = true) (hd : isLetter d = true) :
    (feedAll [a, b, c, d] s).ctl = .idle := by
  simp only [feedAll]
  have h1 := feed_letter_ctl s a ha
  have h2 := feed_letter_ctl (s.feed a).1 b hb
  have h3 := feed_letter_ctl ((s.feed a).1.feed b).1 c hc
  have h4 := feed_letter_ctl (((s.feed a).1.feed b).1.feed c).1 d hd
  have ha5 : a ≠ 0x5B := (letter_facts a ha).2.2.2.2.2.2.2.2.2
  cases hs : s.ctl <;> simp [hs] at h1
  all_goals (try (rw [h1] at h2; simp at h2; rw [h2] at h3; simp at h3; rw [h3] at h4; simpa using h4))
  · have hi := feed_letter_init s a ha hs
    rw [h1] at h2; simp [hi, ha5] at h2
    rw [h2] at h3; simp at h3; rw [h3] at h4; simpa using h4
  · split at h1
    · rw [h1] at h2; simp at h2; rw [h2] at h3; simp at h3; rw [h3] at h4; simpa using h4
    · rw [h1] at h2; simp at h2; rw [h2] at h3; simp at h3; rw [h3] at h4; simpa using h4



/-! ### C20 / C07: what the decoder can emit -/

def DigitsOnly (a : List Byte) : Prop := ∀ b ∈ a, isDigit b = true

/-- while a control sequence is being collected, the collected arguments hold digits only -/
def ArgInv (s : PState) : Prop :=
  match s.ctl with
  | .escape | .arguments => DigitsOnly s.arg ∧ ∀ a ∈ s.args, DigitsOnly a
  | _ => True

/-- the shapes of raw tokens -/
def RawOk : RawToken → Prop
  | .key k => k = enterKey ∨ ∃ b : Byte, k = rawKey b ∧ isOrdinary b = true
  | .mouse _ _ _ => True
  | .ctrl c => c.args ≠ [] ∧ ∀ a ∈ c.args, DigitsOnly a

theorem feed_inv (s : PState) (x : Byte) (h : ArgInv s) :
    ArgInv (s.feed x).1 ∧ ∀ t, (s.feed x).2 = some t → RawOk t := by
  cases hc : s.ctl <;> simp only [ArgInv, hc] at h
  all_goals simp only [feed_eq, hc, parseIdle_eq, parseArguments_eq, PState.reset]
  all_goals (repeat' split)
  all_goals simp_all [ArgInv, RawOk, DigitsOnly, isOrdinary]
  all_goals first
    | exact h.2
    | (refine Or.inr ⟨x, rfl, ?_⟩; simp_all)
    | (refine ⟨?_, h.2⟩; intro b hb; rcases hb with hb | hb
       · exact h.1 b hb
       · subst hb; assumption)
    | (intro a ha; rcases ha with ha | ha
       · exact h.2 a ha
       · subst ha; exact h.1)


theorem rawTokens_ok (bs : List Byte) : ∀ s : PState, ArgInv s → ∀ t ∈ rawTokens bs s, RawOk t := by
  induction bs with
  | nil => intro s _ t ht; simp [rawTokens] at ht
  | cons x xs ih =>
    intro s hs t ht
    have hf := feed_inv s x hs
    simp only [rawTokens, List.mem_append] at ht
    rcases ht with ht | ht
    · cases ho : (s.feed x).2 with
      | none => simp [ho, optList] at ht
      | some t' =>
        simp [ho, optList] at ht
        subst ht
        exact hf.2 _ ho
    · exact ih _ hf.1 t ht

theorem argInv_of_idle (s : PState) (h : s.ctl = .idle) : ArgInv s := by simp [ArgInv, h]

/-- every control sequence the decoder emits has at least one argument – from ANY state -/
theorem feed_args_nonempty (s : PState) (x : Byte) (c : CtrlSeq) (h : (s.feed x).2 = some (.ctrl c)) :
    c.args ≠ [] := by
  cases hc : s.ctl <;> simp only [feed_eq, hc, parseIdle_eq, parseArguments_eq, PState.reset] at h
  all_goals (repeat' split at h)
  all_goals simp_all
  all_goals (subst h; simp)

theorem abstract_byte : ∀ b : Byte, isAbstractKey b.toNat = true → 0x80 ≤ b ∧ b ≤ 0x96 := by decide +kernel

theorem parseDec_all_digits_first (d : Byte) (ds : List Byte) (h : DigitsOnly (d :: ds)) :
    (d :: ds).all isDigit = true := by
  simpa [DigitsOnly] using h

/-- a control sequence that `get_well_known_virtual_key` turns into a key names that key in the xterm
    tables – for EVERY parameter value (a parameter that does not fit an `int` is clamped, and the clamped
    value names no key) -/
theorem convertCommon_key (c : CtrlSeq) (k : VKey) (hargs : ∀ a ∈ c.args, DigitsOnly a)
    (h : convertCommon c = .key k) :
    k.seq = .ctrl c ∧ designates c k.key = true := by
  unfold convertCommon at h
  split at h
  · rename_i hi
    have hi' : c.initiator = 0x5B := hi
    split at h
    · rename_i hcmd
      have hcmd' : c.command = 0x7E := hcmd
      unfold convertKeypadSequence at h
      cases hargs0 : c.args with
      | nil => simp [hargs0] at h
      | cons a0 rest =>
        simp only [hargs0, List.headD] at h
        cases a0 with
        | nil => simp at h
        | cons d ds =>
          simp only at h
          split at h
          · simp at h
          · by_cases hsmall : parseDec (d :: ds) 0 < 2147483648
            · rw [atoi_small _ hsmall, lookup_keypad_eq] at h
              cases hp : padKeyOfCode (parseDec (d :: ds) 0) with
              | none => simp [hp] at h
              | some pk =>
                simp [hp] at h
                subst h
                refine ⟨rfl, ?_⟩
                have hd := parseDec_all_digits_first d ds (hargs _ (by simp [hargs0]))
                simp [designates, keyNamedBy, hi', hcmd', firstParam, hargs0, hd, hp]
            · rw [atoi_large _ hsmall, lookup_keypad_eq] at h
              have hnone : padKeyOfCode 2147483647 = none := by decide
              simp [hnone] at h
    · rename_i hcmd
      have hcmd' : c.command ≠ 0x7E := hcmd
      unfold convertControlSequence at h
      cases hl : lookupByte c.command cursorTable with
      | none => simp [hl] at h
      | some key =>
        simp [hl] at h
        subst h
        refine ⟨rfl, ?_⟩
        simp [designates, keyNamedBy, hi', hcmd', lookup_cursor_some _ _ hl]
  · rename_i hi
    have hi' : c.initiator ≠ 0x5B := hi
    split at h
    · rename_i hi2
      have hi2' : c.initiator = 0x4F := hi2
      unfold convertSs3Sequence at h
      cases hl : lookupByte c.command ss3Table with
      | none => simp [hl] at h
      | some key =>
        simp [hl] at h
        subst h
        refine ⟨rfl, ?_⟩
        rw [lookup_ss3_eq] at hl
        simp [designates, keyNamedBy, hi2', hl]
    · simp at h



theorem rawTokens_mem (bs : List Byte) : ∀ (s : PState) (t : RawToken), t ∈ rawTokens bs s →
    ∃ (s' : PState) (x : Byte), (s'.feed x).2 = some t := by
  induction bs with
  | nil => intro s t h; simp [rawTokens] at h
  | cons x xs ih =>
    intro s t h
    simp only [rawTokens, List.mem_append] at h
    rcases h with h | h
    · cases ho : (s.feed x).2 with
      | none => simp [ho, optList] at h
      | some t' =>
        simp [ho, optList] at h
        subst h
        exact ⟨s, x, ho⟩
    · exact ih _ t h

/-- a key produced by the parser itself always carries a raw byte -/
theorem feed_key_byte (s : PState) (x : Byte) (k : VKey) (h : (s.feed x).2 = some (.key k)) :
    ∃ b, k.seq = .byte b := by
  cases hc : s.ctl <;> simp only [feed_eq, hc, parseIdle_eq, parseArguments_eq, PState.reset] at h
  all_goals (repeat' split at h)
  all_goals simp_all
  all_goals (subst h; simp [enterKey, rawKey])

/-- `get_well_known_virtual_key` keeps the control sequence: as the token itself or as the key's `sequence` -/
theorem convertCommon_seq (c : CtrlSeq) :
    convertCommon c = .ctrl c ∨ ∃ k, convertCommon c = .key k ∧ k.seq = .ctrl c := by
  have hpad : convertKeypadSequence c = .ctrl c ∨ ∃ k, convertKeypadSequence c = .key k ∧ k.seq = .ctrl c := by
    unfold convertKeypadSequence
    generalize c.args.headD [] = a0
    cases a0 with
    | nil => simp
    | cons d ds =>
      simp only []
      split
      · simp
      · split <;> simp
  have hcur : convertControlSequence c = .ctrl c ∨ ∃ k, convertControlSequence c = .key k ∧ k.seq = .ctrl c := by
    unfold convertControlSequence
    split <;> simp
  have hss3 : convertSs3Sequence c = .ctrl c ∨ ∃ k, convertSs3Sequence c = .key k ∧ k.seq = .ctrl c := by
    unfold convertSs3Sequence
    split <;> simp
  unfold convertCommon
  repeat' split
  all_goals first | assumption | simp


/-! ### the driver's linear-time evaluation of the model is the model -/

theorem flushDigits_nil (s : PState) : flushDigits s [] = s := by cases s; simp [flushDigits]

theorem runFast_eq (bs : List Byte) : ∀ (s : PState) (acc : List Byte), (s.ctl = .arguments ∨ acc = []) →
    runFast bs s acc = (feedAll bs (flushDigits s acc), rawTokens bs (flushDigits s acc)) := by
  induction bs with
  | nil => intro s acc _; rfl
  | cons b bs ih =>
    intro s acc h
    unfold runFast
    split
    · rename_i hcond
      simp at hcond
      have hc : (flushDigits s acc).ctl = .arguments := hcond.1
      have hf := feed_digit (flushDigits s acc) b hc hcond.2
      rw [ih s (b :: acc) (Or.inl hcond.1)]
      have : flushDigits s (b :: acc) = { flushDigits s acc with arg := (flushDigits s acc).arg ++ [b] } := by
        simp [flushDigits]
      simp [feedAll, rawTokens, hf, this, optList]
    · have := ih ((flushDigits s acc).feed b).1 [] (Or.inr rfl)
      simp only [this, flushDigits_nil, feedAll, rawTokens]

theorem deliverFast_eq (s : PState) (chunk : List Byte) : deliverFast s chunk = deliver s chunk := by
  simp [deliverFast, deliver, tokens, runFast_eq chunk s [] (Or.inr rfl), flushDigits_nil]

theorem deliverAllFast_eq (chunks : List (List Byte)) : ∀ s : PState,
    deliverAllFast chunks s = (deliverAll chunks s).tokenLists := by
  induction chunks with
  | nil => intro s; rfl
  | cons c cs ih => intro s; simp [deliverAllFast, deliverAll, deliverFast_eq, ih]

end Tpp
