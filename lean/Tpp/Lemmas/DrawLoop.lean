import Tpp.Lemmas.Draw
/-! The cell loop of `screen::draw`: what it transmits (C04) and what the grid shows afterwards (C03). -/
namespace Tpp

def changedCell (base cvs : Canvas) (p : Int × Int) : Bool := !(Element.eq (base.get p.1 p.2) (cvs.get p.1 p.2))

theorem cellOps_eq (base cvs : Canvas) (p : Int × Int) :
    Screen.cellOps base cvs p = if changedCell base cvs p then [.moveCursor ⟨p.1, p.2⟩, .writeElement (cvs.get p.1 p.2)] else [] := by
  unfold Screen.cellOps changedCell
  cases Element.eq (base.get p.1 p.2) (cvs.get p.1 p.2) <;> rfl

/-- the cell written for coordinate pair `p` -/
def drawnEntry (cvs : Canvas) (p : Int × Int) : Nat × Nat × Cell := (p.1.toNat, p.2.toNat, cellOf (cvs.get p.1 p.2))

theorem draw_loop (beh : Behaviour) (base cvs : Canvas) (ps : List (Int × Int)) :
    ∀ (s : TermState) (vt : VT), Agree s vt →
      (∀ p ∈ ps, 0 ≤ p.1 ∧ p.1 < s.size.width ∧ 0 ≤ p.2 ∧ p.2 < s.size.height) →
      (∀ p ∈ ps, (cvs.get p.1 p.2).wf = true) →
      Agree (run beh s (ps.flatMap (Screen.cellOps base cvs))).1 (vt.feedAll (run beh s (ps.flatMap (Screen.cellOps base cvs))).2) ∧
      (run beh s (ps.flatMap (Screen.cellOps base cvs))).1.size = s.size ∧
      (vt.feedAll (run beh s (ps.flatMap (Screen.cellOps base cvs))).2).alt = vt.alt ∧
      (vt.feedAll (run beh s (ps.flatMap (Screen.cellOps base cvs))).2).wrap = vt.wrap ∧
      (vt.feedAll (run beh s (ps.flatMap (Screen.cellOps base cvs))).2).log
        = vt.log ++ (ps.filter (changedCell base cvs)).map (drawnEntry cvs) ∧
      ((vt.wrap ≠ .immediate ∨ ∀ p ∈ ps, changedCell base cvs p = true → ¬ (p.1.toNat + 1 = vt.w ∧ p.2.toNat + 1 = vt.h)) →
        ∀ (b : Bool) (x y : Nat),
          (vt.feedAll (run beh s (ps.flatMap (Screen.cellOps base cvs))).2).cells b x y =
            if b = vt.alt ∧ ∃ p ∈ ps, changedCell base cvs p = true ∧ p.1.toNat = x ∧ p.2.toNat = y
            then cellOf (cvs.get x y) else vt.cells b x y) := by
  induction ps with
  | nil =>
    intro s vt hA _ _
    refine ⟨hA, rfl, rfl, rfl, by simp [run], ?_⟩
    intro _ b x y
    simp [run]
  | cons p ps ih =>
    intro s vt hA hb hw
    have hbp := hb p (by simp)
    have hwp := hw p (by simp)
    have hb' : ∀ q ∈ ps, 0 ≤ q.1 ∧ q.1 < s.size.width ∧ 0 ≤ q.2 ∧ q.2 < s.size.height := fun q hq => hb q (by simp [hq])
    have hw' : ∀ q ∈ ps, (cvs.get q.1 q.2).wf = true := fun q hq => hw q (by simp [hq])
    simp only [List.flatMap_cons]
    cases hch : changedCell base cvs p with
    | false =>
      have hops : Screen.cellOps base cvs p = [] := by rw [cellOps_eq, hch]; rfl
      rw [hops, List.nil_append]
      obtain ⟨i1, i2, i3, i4, i5, i6⟩ := ih s vt hA hb' hw'
      refine ⟨i1, i2, i3, i4, ?_, ?_⟩
      · rw [i5]; simp [List.filter_cons, hch]
      · intro hns b x y
        have hns' : vt.wrap ≠ .immediate ∨ ∀ q ∈ ps, changedCell base cvs q = true → ¬ (q.1.toNat + 1 = vt.w ∧ q.2.toNat + 1 = vt.h) := by
          rcases hns with h | h
          · exact Or.inl h
          · exact Or.inr (fun q hq => h q (by simp [hq]))
        rw [i6 hns' b x y]
        have : (∃ q ∈ p :: ps, changedCell base cvs q = true ∧ q.1.toNat = x ∧ q.2.toNat = y)
            ↔ (∃ q ∈ ps, changedCell base cvs q = true ∧ q.1.toNat = x ∧ q.2.toNat = y) := by
          constructor
          · rintro ⟨q, hq, h1, h2⟩
            simp at hq
            rcases hq with rfl | hq
            · rw [hch] at h1; exact absurd h1 (by simp)
            · exact ⟨q, hq, h1, h2⟩
          · rintro ⟨q, hq, h⟩; exact ⟨q, by simp [hq], h⟩
        simp only [this]
    | true =>
      have hops : Screen.cellOps base cvs p = [.moveCursor ⟨p.1, p.2⟩, .writeElement (cvs.get p.1 p.2)] := by
        rw [cellOps_eq, hch]; rfl
      rw [hops, run_append]
      simp only [VT.feedAll_append]
      obtain ⟨j1, j2, j3, j4, j5, j6⟩ := place_one beh s vt hA ⟨p.1, p.2⟩ hbp (cvs.get p.1 p.2) hwp
      generalize hs1 : (run beh s [.moveCursor ⟨p.1, p.2⟩, .writeElement (cvs.get p.1 p.2)]).1 = s1 at *
      generalize hv1 : vt.feedAll (run beh s [.moveCursor ⟨p.1, p.2⟩, .writeElement (cvs.get p.1 p.2)]).2 = vt1 at *
      have hb1 : ∀ q ∈ ps, 0 ≤ q.1 ∧ q.1 < s1.size.width ∧ 0 ≤ q.2 ∧ q.2 < s1.size.height := by rw [j2]; exact hb'
      obtain ⟨i1, i2, i3, i4, i5, i6⟩ := ih s1 vt1 j1 hb1 hw'
      have hw1 : vt1.w = vt.w := by
        have a := j1.2.width; have b := hA.2.width; rw [j2] at a; omega
      have hh1 : vt1.h = vt.h := by
        have a := j1.2.height; have b := hA.2.height; rw [j2] at a; omega
      refine ⟨i1, by rw [i2, j2], by rw [i3, j4], by rw [i4, j5], ?_, ?_⟩
      · rw [i5, j3]; simp [List.filter_cons, hch, drawnEntry]
      · intro hns b x y
        have hns1 : vt1.wrap ≠ .immediate ∨ ∀ q ∈ ps, changedCell base cvs q = true → ¬ (q.1.toNat + 1 = vt1.w ∧ q.2.toNat + 1 = vt1.h) := by
          rw [j5, hw1, hh1]
          rcases hns with h | h
          · exact Or.inl h
          · exact Or.inr (fun q hq => h q (by simp [hq]))
        have hnsp : (p.1.toNat + 1 < vt.w ∨ vt.wrap ≠ .immediate ∨ p.2.toNat + 1 < vt.h) := by
          rcases hns with h | h
          · exact Or.inr (Or.inl h)
          · have := h p (by simp) hch
            have a := hA.2.width; have b := hA.2.height
            obtain ⟨b1, b2, b3, b4⟩ := hbp
            have : ¬ (p.1.toNat + 1 = vt.w ∧ p.2.toNat + 1 = vt.h) := this
            by_cases hx : p.1.toNat + 1 < vt.w
            · exact Or.inl hx
            · by_cases hy : p.2.toNat + 1 < vt.h
              · exact Or.inr (Or.inr hy)
              · exfalso; apply this; constructor <;> omega
        have hc1 := j6 hnsp
        rw [i6 hns1 b x y, j4, hc1]
        obtain ⟨b1, b2, b3, b4⟩ := hbp
        by_cases hhere : b = vt.alt ∧ p.1.toNat = x ∧ p.2.toNat = y
        · obtain ⟨e1, e2, e3⟩ := hhere
          have hex : ∃ q ∈ p :: ps, changedCell base cvs q = true ∧ q.1.toNat = x ∧ q.2.toNat = y :=
            ⟨p, by simp, hch, e2, e3⟩
          have hxy : cvs.get p.1 p.2 = cvs.get (x : Int) (y : Int) := by
            have : p.1 = (x : Int) := by omega
            have : p.2 = (y : Int) := by omega
            simp [*]
          simp only [e1, true_and, hex, if_true]
          split
          · rfl
          · simp [setCell, e2, e3, hxy]
        · have hiff : (∃ q ∈ p :: ps, changedCell base cvs q = true ∧ q.1.toNat = x ∧ q.2.toNat = y)
              ↔ (b ≠ vt.alt ∧ False) ∨ (∃ q ∈ ps, changedCell base cvs q = true ∧ q.1.toNat = x ∧ q.2.toNat = y) ∨
                (p.1.toNat = x ∧ p.2.toNat = y) := by
            constructor
            · rintro ⟨q, hq, h1, h2⟩
              simp at hq
              rcases hq with rfl | hq
              · exact Or.inr (Or.inr h2)
              · exact Or.inr (Or.inl ⟨q, hq, h1, h2⟩)
            · rintro (⟨_, h⟩ | ⟨q, hq, h⟩ | h)
              · exact absurd h id
              · exact ⟨q, by simp [hq], h⟩
              · exact ⟨p, by simp, hch, h⟩
          by_cases hb : b = vt.alt
          · have hnp : ¬ (p.1.toNat = x ∧ p.2.toNat = y) := fun h => hhere ⟨hb, h⟩
            have hsc : setCell vt.cells vt.alt p.1.toNat p.2.toNat (cellOf (cvs.get p.1 p.2)) b x y = vt.cells b x y := by
              simp only [setCell]
              rw [if_neg]
              intro ⟨_, h2, h3⟩; exact hnp ⟨h2.symm, h3.symm⟩
            rw [hsc]
            have : (∃ q ∈ p :: ps, changedCell base cvs q = true ∧ q.1.toNat = x ∧ q.2.toNat = y)
                ↔ (∃ q ∈ ps, changedCell base cvs q = true ∧ q.1.toNat = x ∧ q.2.toNat = y) := by
              rw [hiff]; constructor
              · rintro (⟨_, h⟩ | h | h)
                · exact absurd h id
                · exact h
                · exact absurd h hnp
              · intro h; exact Or.inr (Or.inl h)
            simp only [hb, true_and, this]
          · have hsc : setCell vt.cells vt.alt p.1.toNat p.2.toNat (cellOf (cvs.get p.1 p.2)) b x y = vt.cells b x y := by
              simp only [setCell]; rw [if_neg]; intro ⟨h1, _, _⟩; exact hb h1
            simp [hb, hsc]

end Tpp
