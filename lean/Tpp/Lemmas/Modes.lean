import Tpp.Lemmas.Step
/-! What each event does to the terminal's modes (cursor visibility, active buffer, mouse reporting, title). -/
namespace Tpp

structure VT.Modes where
  vis : Bool
  alt : Bool
  m1000 : Bool
  m1003 : Bool
  title : List Byte
deriving DecidableEq, Repr

def VT.modes (vt : VT) : VT.Modes := ⟨vt.cursorVisible, vt.alt, vt.mouse1000, vt.mouse1003, vt.title⟩

theorem print_modes (vt : VT) (bs) : (vt.print bs).modes = vt.modes := by simp [VT.modes]

theorem defaultAttr_modes (s : TermState) (vt : VT) (hA : Agree s vt) :
    (vt.feedAll (defaultAttr s).2).modes = vt.modes := by
  unfold defaultAttr
  cases s.last with
  | none => simp only; rw [VT.feed_sgr0 vt hA.1.ground]; rfl
  | some l => rfl

theorem rawElement_modes (beh : Behaviour) (s : TermState) (vt : VT) (e : Element) (hA : Agree s vt)
    (hw : e.wf = true) (hk : s.last.isSome = true) :
    (vt.feedAll (rawElement beh s e).2).modes = vt.modes := by
  obtain ⟨⟨hg, hok, hrend, hcs, hvis⟩, hC⟩ := hA
  cases hl : s.last with
  | none => simp [hl] at hk
  | some l =>
    obtain ⟨g0, u, hfeed, _⟩ := feed_rawElement_from beh vt l e hg (hrend l hl) (by simpa [hl] using hcs) hw
    have hout : (rawElement beh s e).2 = elementCtl beh (some l) e ++ e.glyph.payload := by simp [rawElement, hl]
    rw [hout, hfeed, print_modes]; rfl

theorem rawElements_modes (beh : Behaviour) (es : List Element) :
    ∀ (s : TermState) (vt : VT), Agree s vt → (∀ e ∈ es, e.wf = true) → s.last.isSome = true →
      (vt.feedAll (rawElements beh s es).2).modes = vt.modes := by
  induction es with
  | nil => intro s vt _ _ _; rfl
  | cons e es ih =>
    intro s vt hA hw hk
    obtain ⟨hA1, _, hk1⟩ := agree_rawElement beh s vt e hA (hw e (by simp)) hk
    simp only [rawElements, VT.feedAll_append]
    rw [ih _ _ hA1 (fun e' he' => hw e' (by simp [he'])) hk1, rawElement_modes beh s vt e hA (hw e (by simp)) hk]

theorem setMode_modes (vt : VT) (on : Bool) (n : Nat) :
    (vt.setMode on n).modes =
      if n = 25 then { vt.modes with vis := on } else if n = 47 then { vt.modes with alt := on }
      else if n = 1000 then { vt.modes with m1000 := on } else if n = 1003 then { vt.modes with m1003 := on }
      else vt.modes := by
  unfold VT.setMode
  split
  · rfl
  · split
    · rfl
    · split
      · rfl
      · split <;> rfl

/-- the effect of one in-domain event on the modes -/
def modesAfter (beh : Behaviour) (m : VT.Modes) : Ev → VT.Modes
  | .op .hideCursor => { m with vis := false }
  | .op .showCursor => { m with vis := true }
  | .op .normalBuffer => { m with alt := false }
  | .op .altBuffer => { m with alt := true }
  | .op .enableMouse => if beh.basicMouse then { m with m1000 := true } else if beh.allMouse then { m with m1003 := true } else m
  | .op .disableMouse => if beh.basicMouse then { m with m1000 := false } else if beh.allMouse then { m with m1003 := false } else m
  | .op (.setTitle t) => if beh.titleBel || beh.titleSt then { m with title := t } else m
  | _ => m

theorem step_modes (beh : Behaviour) (s : TermState) (vt : VT) (hA : Agree s vt) (ev : Ev) (hw : ev.WF s) :
    (Sys.step beh (s, vt) ev).2.modes = modesAfter beh vt.modes ev := by
  cases ev with
  | resize w h cells cx cy saved pending => rfl
  | op o =>
    simp only [Sys.step]
    have hg := hA.1.ground
    cases o with
    | writeElement e =>
      obtain ⟨hA1, hk1, _, _, _⟩ := agree_defaultAttr s vt hA
      simp only [step, VT.feedAll_append, modesAfter]
      rw [rawElement_modes beh _ _ e hA1 hw hk1, defaultAttr_modes s vt hA]
    | writeString es =>
      obtain ⟨hA1, hk1, _, _, _⟩ := agree_defaultAttr s vt hA
      simp only [step, VT.feedAll_append, modesAfter]
      rw [rawElements_modes beh es _ _ hA1 hw hk1, defaultAttr_modes s vt hA]
    | rawElement e => exact rawElement_modes beh s vt e hA hw.1 hw.2
    | defaultAttr => exact defaultAttr_modes s vt hA
    | moveCursor p =>
      obtain ⟨hx0, hxw, hy0, hyh⟩ := hw
      simp only [step]; rw [feed_moveCursor s vt hA p hx0 hxw hy0 hyh]; rfl
    | hideCursor =>
      simp only [step, modesAfter]
      split
      · rename_i h
        have := hA.1.visible false h
        simp [VT.modes, this]
      · rw [feed_hide vt hg]; rfl
    | showCursor =>
      simp only [step, modesAfter]
      split
      · rename_i h
        have := hA.1.visible true h
        simp [VT.modes, this]
      · rw [feed_show vt hg]; rfl
    | saveCursor => simp only [step]; rw [feed_save vt hg]; rfl
    | restoreCursor =>
      simp only [step]; rw [feed_restore vt hg]
      cases vt.saved with
      | none => rfl
      | some q => obtain ⟨x, y⟩ := q; rfl
    | erase k => rw [feed_eraseOp beh s vt hA k]; rfl
    | enableMouse =>
      have := feed_mouse beh vt hg true
      simp only [if_true] at this
      simp only [step, modesAfter]; rw [this]
      split
      · rw [setMode_modes]; rfl
      · split
        · rw [setMode_modes]; rfl
        · rfl
    | disableMouse =>
      have := feed_mouse beh vt hg false
      simp only [Bool.false_eq_true, if_false] at this
      simp only [step, modesAfter]; rw [this]
      split
      · rw [setMode_modes]; rfl
      · split
        · rw [setMode_modes]; rfl
        · rfl
    | setTitle t =>
      simp only [step, modesAfter]; rw [feed_titleOp beh vt hg t hw]
      split <;> rfl
    | normalBuffer =>
      simp only [step, modesAfter]
      rw [feed_mode vt hg _ 47 0x6C false normalBufferBytes_eq (Or.inr ⟨rfl, rfl⟩), setMode_modes]; rfl
    | altBuffer =>
      simp only [step, modesAfter]
      rw [feed_mode vt hg _ 47 0x68 true altBufferBytes_eq (Or.inl ⟨rfl, rfl⟩), setMode_modes]; rfl
    | setSize e => exact absurd hw (by simp [Ev.WF, Op.WF])
    | rawWrite bs => exact absurd hw (by simp [Ev.WF, Op.WF])
    | input bs => rfl

end Tpp
