import Tpp.Model.Keys
import Tpp.Generated.Tables
/-!
The tables the input-side model uses ARE the tables of the current source.

`Tpp.Tables.*` is regenerated on every run from the declaration text inside `/repo/src/**/*.cpp`
(`vlib/tables.py`: the declaration is pasted verbatim into a C++ program that prints every row).  The model's
tables (`Tpp/Model/Keys.lean`, `Tpp/Model/Parser.lean`) are written row by row over the regenerated header
constants.  These theorems – kernel evaluation, re-checked on every run – close the gap between the two: a row
changed, dropped, added or moved in the source breaks the obligation that names its table.
-/
namespace Tpp

theorem modifierTable_is_source : modifierTable = Tables.modifier_mappings := by decide +kernel

theorem cursorTable_is_source :
    cursorTable.map (fun p => (p.1.toNat, p.2)) = Tables.cursor_movement_commands := by decide +kernel

theorem ss3Table_is_source :
    ss3Table.map (fun p => (p.1.toNat, p.2)) = Tables.ss3_commands := by decide +kernel

theorem keypadTable_is_source : keypadTable = Tables.keypad_commands := by decide +kernel

theorem mouseTable_is_source :
    mouseTable.map (fun p => (p.1, p.2.code)) = Tables.mouse_event_table := by decide +kernel

end Tpp
