import Tpp.Lemmas.SGR
/-! Facts about `VT.print`: what it leaves alone (the *frame*), and the log entry it appends. -/
namespace Tpp

/-- everything printing never touches -/
structure VT.Frame where
  w : Nat
  h : Nat
  wrap : Wrap
  eraseMode : EraseMode
  rend : Rend
  g0 : Charset
  utf8 : Bool
  cursorVisible : Bool
  mouse1000 : Bool
  mouse1003 : Bool
  alt : Bool
  title : List Byte
  saved : Option (Nat × Nat)
  ps : PS
  malformed : Bool

def VT.frame (vt : VT) : VT.Frame :=
  ⟨vt.w, vt.h, vt.wrap, vt.eraseMode, vt.rend, vt.g0, vt.utf8, vt.cursorVisible, vt.mouse1000, vt.mouse1003,
   vt.alt, vt.title, vt.saved, vt.ps, vt.malformed⟩

theorem VT.scrollUp_frame (vt : VT) : vt.scrollUp.frame = vt.frame := rfl
theorem VT.newline_frame (vt : VT) : vt.newline.frame = vt.frame := by
  unfold VT.newline; split <;> rfl
theorem VT.resolvePending_frame (vt : VT) : vt.resolvePending.frame = vt.frame := by
  unfold VT.resolvePending; split
  · exact VT.newline_frame vt
  · rfl
theorem VT.place_frame (vt : VT) (bs) : (vt.place bs).frame = vt.frame := rfl
theorem VT.advance_frame (vt : VT) : vt.advance.frame = vt.frame := by
  unfold VT.advance; split
  · rfl
  · split
    · rfl
    · exact VT.newline_frame vt
    · rfl
theorem VT.print_frame (vt : VT) (bs) : (vt.print bs).frame = vt.frame := by
  unfold VT.print
  rw [VT.advance_frame, VT.place_frame, VT.resolvePending_frame]

@[simp] theorem VT.print_rend (vt : VT) (bs) : (vt.print bs).rend = vt.rend := congrArg VT.Frame.rend (VT.print_frame vt bs)
@[simp] theorem VT.print_g0 (vt : VT) (bs) : (vt.print bs).g0 = vt.g0 := congrArg VT.Frame.g0 (VT.print_frame vt bs)
@[simp] theorem VT.print_utf8 (vt : VT) (bs) : (vt.print bs).utf8 = vt.utf8 := congrArg VT.Frame.utf8 (VT.print_frame vt bs)
@[simp] theorem VT.print_ps (vt : VT) (bs) : (vt.print bs).ps = vt.ps := congrArg VT.Frame.ps (VT.print_frame vt bs)
@[simp] theorem VT.print_malformed (vt : VT) (bs) : (vt.print bs).malformed = vt.malformed := congrArg VT.Frame.malformed (VT.print_frame vt bs)
@[simp] theorem VT.print_cursorVisible (vt : VT) (bs) : (vt.print bs).cursorVisible = vt.cursorVisible := congrArg VT.Frame.cursorVisible (VT.print_frame vt bs)
@[simp] theorem VT.print_mouse1000 (vt : VT) (bs) : (vt.print bs).mouse1000 = vt.mouse1000 := congrArg VT.Frame.mouse1000 (VT.print_frame vt bs)
@[simp] theorem VT.print_mouse1003 (vt : VT) (bs) : (vt.print bs).mouse1003 = vt.mouse1003 := congrArg VT.Frame.mouse1003 (VT.print_frame vt bs)
@[simp] theorem VT.print_alt (vt : VT) (bs) : (vt.print bs).alt = vt.alt := congrArg VT.Frame.alt (VT.print_frame vt bs)
@[simp] theorem VT.print_title (vt : VT) (bs) : (vt.print bs).title = vt.title := congrArg VT.Frame.title (VT.print_frame vt bs)
@[simp] theorem VT.print_saved (vt : VT) (bs) : (vt.print bs).saved = vt.saved := congrArg VT.Frame.saved (VT.print_frame vt bs)
@[simp] theorem VT.print_w (vt : VT) (bs) : (vt.print bs).w = vt.w := congrArg VT.Frame.w (VT.print_frame vt bs)
@[simp] theorem VT.print_h (vt : VT) (bs) : (vt.print bs).h = vt.h := congrArg VT.Frame.h (VT.print_frame vt bs)
@[simp] theorem VT.print_wrap (vt : VT) (bs) : (vt.print bs).wrap = vt.wrap := congrArg VT.Frame.wrap (VT.print_frame vt bs)
@[simp] theorem VT.print_eraseMode (vt : VT) (bs) : (vt.print bs).eraseMode = vt.eraseMode := congrArg VT.Frame.eraseMode (VT.print_frame vt bs)

theorem VT.newline_log (vt : VT) : vt.newline.log = vt.log := by unfold VT.newline VT.scrollUp; split <;> rfl
theorem VT.advance_log (vt : VT) : vt.advance.log = vt.log := by
  unfold VT.advance; split
  · rfl
  · split
    · rfl
    · exact VT.newline_log vt
    · rfl
theorem VT.resolvePending_log (vt : VT) : vt.resolvePending.log = vt.log := by
  unfold VT.resolvePending; split
  · exact VT.newline_log vt
  · rfl

/-- printing appends exactly one log entry: the bytes, with the terminal's current charset and rendition -/
theorem VT.print_log (vt : VT) (bs : List Byte) :
    ∃ x y, (vt.print bs).log = vt.log ++ [(x, y, { bytes := bs, cs := if vt.utf8 then .utf8 else vt.g0, rend := vt.rend })] := by
  refine ⟨vt.resolvePending.cx, vt.resolvePending.cy, ?_⟩
  unfold VT.print
  rw [VT.advance_log]
  have hf := VT.resolvePending_frame vt
  have h1 : vt.resolvePending.utf8 = vt.utf8 := congrArg VT.Frame.utf8 hf
  have h2 : vt.resolvePending.g0 = vt.g0 := congrArg VT.Frame.g0 hf
  have h3 : vt.resolvePending.rend = vt.rend := congrArg VT.Frame.rend hf
  simp [VT.place, VT.resolvePending_log, h1, h2, h3]

/-- without a pending wrap the glyph lands at the cursor -/
theorem VT.print_log_at (vt : VT) (bs : List Byte) (hp : vt.pending = false) :
    (vt.print bs).log = vt.log ++ [(vt.cx, vt.cy, { bytes := bs, cs := if vt.utf8 then .utf8 else vt.g0, rend := vt.rend })] := by
  unfold VT.print
  rw [VT.advance_log]
  simp [VT.place, VT.resolvePending, hp]

/-- … and, when not in the last column, the cursor advances by one with no wrap pending -/
theorem VT.print_advance (vt : VT) (bs : List Byte) (hp : vt.pending = false) (hx : vt.cx + 1 < vt.w) :
    (vt.print bs).cx = vt.cx + 1 ∧ (vt.print bs).cy = vt.cy ∧ (vt.print bs).pending = false := by
  simp [VT.print, VT.resolvePending, hp, VT.place, VT.advance, hx]

end Tpp
