import Tpp.Ref.Markup
/-! Helper lemmas (specification side only): the canonical spelling of an expressible element denotes it. -/
namespace Tpp.Ref
open Tpp

theorem primary_lookup : ∀ cs : Charset, cs ≠ .utf8 → scsLookup (designatorBytes (primaryIndex cs)) = some cs := by
  intro cs; cases cs <;> decide

theorem ofNat_toNat (v : Byte) : UInt8.ofNat v.toNat = v := by simp

theorem colourDirective_apply (l : Layer) (c : Colour) (e : Element) (h : constructible c = true) :
    (colourDirective l c).apply e = setColour l c e := by
  cases c with
  | low v =>
    simp only [constructible, Bool.or_eq_true, decide_eq_true_eq] at h
    simp only [colourDirective, Directive.apply]
    have : v.toNat % 10 = v.toNat := by omega
    rw [this, ofNat_toNat]
  | high v =>
    simp only [constructible, Bool.and_eq_true, decide_eq_true_eq] at h
    simp only [colourDirective, Directive.apply]
    have : 16 + 36 * ((v.toNat - 16) / 36 % 6) + 6 * ((v.toNat - 16) / 6 % 6) + (v.toNat - 16) % 6 = v.toNat := by omega
    rw [this, ofNat_toNat]
  | grey v =>
    simp only [constructible, decide_eq_true_eq] at h
    simp only [colourDirective, Directive.apply]
    have hv := v.toNat_lt
    have : 232 + (v.toNat - 232) % 24 = v.toNat := by omega
    rw [this, ofNat_toNat]
  | rgb r g b =>
    simp only [colourDirective, Directive.apply, hexByte, hexOf]
    have k : ∀ x : Byte, UInt8.ofNat (16 * (x.toNat / 16 % 16) + x.toNat % 16) = x := by
      intro x
      have hx := x.toNat_lt
      have : 16 * (x.toNat / 16 % 16) + x.toNat % 16 = x.toNat := by omega
      rw [this, ofNat_toNat]
    rw [k, k, k]

theorem hex_roundtrip (v : Nat) (h : v < 65536) :
    codePointOf (hexOf (v / 4096)) (hexOf (v / 256)) (hexOf (v / 16)) (hexOf v) = v := by
  simp only [codePointOf, hexOf]; omega

/-- attribute directives do not touch the glyph -/
theorem attr_apply_glyph (d : Directive) (e : Element) (h : ∀ x, d ≠ .charset x) : (d.apply e).glyph = e.glyph := by
  cases d with
  | charset x => exact absurd rfl (h x)
  | low l _ => cases l <;> rfl
  | high l _ _ _ => cases l <;> rfl
  | grey l _ => cases l <;> rfl
  | rgb l _ _ _ _ _ _ => cases l <;> rfl
  | _ => rfl

/-- the attribute part of `spell` -/
def attrDirectives (prev e : Element) : List Directive :=
  if e.attr = prev.attr then []
  else if e.attr = {} then [Directive.reset]
  else
    (if e.attr.intensity ≠ prev.attr.intensity then [Directive.intensity e.attr.intensity] else [])
    ++ (if e.attr.polarity ≠ prev.attr.polarity then [Directive.polarity e.attr.polarity] else [])
    ++ (if e.attr.underlining ≠ prev.attr.underlining then [Directive.underlining e.attr.underlining] else [])
    ++ (if e.attr.fg ≠ prev.attr.fg then [colourDirective .fg e.attr.fg] else [])
    ++ (if e.attr.bg ≠ prev.attr.bg then [colourDirective .bg e.attr.bg] else [])

theorem attrDirectives_apply (prev e s : Element) (hs : s.attr = prev.attr)
    (hb : e.attr.blinking = prev.attr.blinking)
    (hf : constructible e.attr.fg = true) (hg : constructible e.attr.bg = true) :
    (attrDirectives prev e).foldl Directive.apply s = { s with attr := e.attr } := by
  unfold attrDirectives
  by_cases h1 : e.attr = prev.attr
  · simp only [h1, if_true, List.foldl_nil]; rw [← hs]
  · by_cases h2 : e.attr = {}
    · have h1' : ¬ (({} : Attr) = prev.attr) := by rw [← h2]; exact h1
      simp [h2, h1', Directive.apply]
    · simp only [h1, h2, if_false, List.foldl_append]
      obtain ⟨sg, sa⟩ := s
      obtain ⟨eg, ea⟩ := e
      obtain ⟨pg, pa⟩ := prev
      obtain ⟨efg, ebg, ei, eu, ep, eb⟩ := ea
      obtain ⟨pfg, pbg, pi, pu, pp, pb⟩ := pa
      simp only at hs hb hf hg
      subst hs hb
      by_cases c1 : ei = pi <;> by_cases c2 : ep = pp <;> by_cases c3 : eu = pu <;>
        by_cases c4 : efg = pfg <;> by_cases c5 : ebg = pbg <;>
        simp only [c1, c2, c3, c4, c5, if_true, if_false, ne_eq, not_true_eq_false, not_false_eq_true,
          List.foldl_cons, List.foldl_nil, colourDirective_apply _ _ _ hf, colourDirective_apply _ _ _ hg] <;>
        simp_all [Directive.apply, setColour]

theorem spell_directives (prev e : Element) :
    (spell prev e).directives =
      (if e.glyph.cs ≠ .utf8 ∧ e.glyph.cs ≠ (startFrom prev).glyph.cs then [Directive.charset (primaryIndex e.glyph.cs)] else [])
        ++ attrDirectives prev e := rfl

theorem glyphSpelling_apply (g : Glyph) (s : Element) (h : expressibleGlyph g = true)
    (hcs : g.cs ≠ .utf8 → s.glyph.cs = g.cs) :
    (glyphSpelling g).apply s = { s with glyph := normGlyph g } := by
  unfold glyphSpelling normGlyph
  by_cases hu : g.cs = .utf8
  · simp only [expressibleGlyph, hu, if_true, Bool.and_eq_true, decide_eq_true_eq] at h
    simp only [hu, if_true, GlyphSp.apply, hex_roundtrip _ h.1, h.2]
  · have := hcs hu
    simp only [hu, if_false]
    split <;> simp [GlyphSp.apply, this]

/-- the canonical spelling of an expressible element denotes that element (meaningful values) -/
theorem denote_spell (prev e : Element) (he : expressible e = true) (hb : prev.attr.blinking = .steady) :
    denote (spell prev e) prev = norm e := by
  simp only [expressible, Bool.and_eq_true, decide_eq_true_eq] at he
  obtain ⟨⟨⟨hbl, hf⟩, hg⟩, hgl⟩ := he
  unfold denote
  rw [spell_directives, List.foldl_append]
  -- after the character-set part
  have key : ∃ s : Element, (if e.glyph.cs ≠ .utf8 ∧ e.glyph.cs ≠ (startFrom prev).glyph.cs
        then [Directive.charset (primaryIndex e.glyph.cs)] else []).foldl Directive.apply (startFrom prev) = s ∧
      s.attr = prev.attr ∧ (e.glyph.cs ≠ .utf8 → s.glyph.cs = e.glyph.cs) := by
    by_cases hc : e.glyph.cs ≠ .utf8 ∧ e.glyph.cs ≠ (startFrom prev).glyph.cs
    · refine ⟨_, rfl, ?_, ?_⟩
      · rw [if_pos hc]
        simp only [List.foldl_cons, List.foldl_nil, Directive.apply, primary_lookup _ hc.1]; rfl
      · intro _
        rw [if_pos hc]
        simp only [List.foldl_cons, List.foldl_nil, Directive.apply, primary_lookup _ hc.1]
    · refine ⟨startFrom prev, by rw [if_neg hc]; rfl, rfl, ?_⟩
      intro hu
      by_cases h2 : e.glyph.cs = (startFrom prev).glyph.cs
      · exact h2.symm
      · exact absurd ⟨hu, h2⟩ hc
  obtain ⟨s, hs, hsa, hscs⟩ := key
  rw [hs, attrDirectives_apply prev e s hsa (by rw [hbl, hb]) hf hg]
  show (glyphSpelling e.glyph).apply { s with attr := e.attr } = norm e
  rw [glyphSpelling_apply e.glyph { glyph := s.glyph, attr := e.attr } hgl hscs]
  rfl

theorem spell_congr (a b e : Element) (h : startFrom a = startFrom b) : spell a e = spell b e := by
  have h0 : (startFrom a).attr = (startFrom b).attr := congrArg Element.attr h
  have h1 : a.attr = b.attr := h0
  unfold spell
  rw [h, h1]

theorem startFrom_norm' (e : Element) : startFrom (norm e) = startFrom e := by
  unfold startFrom norm normGlyph
  split <;> rfl

theorem spellFrom_congr (es : List Element) (a b : Element) (h : startFrom a = startFrom b) :
    spellFrom es a = spellFrom es b := by
  cases es with
  | nil => rfl
  | cons e r => simp only [spellFrom, spell_congr a b e h]

theorem denoteFrom_congr' (sps : List Spelling) (a b : Element) (h : startFrom a = startFrom b) :
    denoteFrom sps a = denoteFrom sps b := by
  cases sps with
  | nil => rfl
  | cons sp r => simp only [denoteFrom, denote, h]

theorem denoteFrom_spellFrom (es : List Element) : ∀ prev : Element, prev.attr.blinking = .steady →
    (∀ e ∈ es, expressible e = true) → denoteFrom (spellFrom es prev) prev = es.map norm := by
  induction es with
  | nil => intro prev _ _; rfl
  | cons e r ih =>
    intro prev hb hex
    have he := hex e (List.mem_cons_self)
    have hr : ∀ x ∈ r, expressible x = true := fun x hx => hex x (List.mem_cons_of_mem _ hx)
    have heb : e.attr.blinking = .steady := by
      simp only [expressible, Bool.and_eq_true, decide_eq_true_eq] at he
      exact he.1.1.1
    simp only [spellFrom, denoteFrom, List.map_cons, denote_spell prev e he hb]
    congr 1
    rw [denoteFrom_congr' _ (norm e) e (startFrom_norm' e)]
    exact ih e heb hr

end Tpp.Ref
