import Tpp.Lemmas.Print
/-! Character-set switching and glyph payload, interpreted by the reference terminal. -/
namespace Tpp

theorem scs_roundtrip (cs : Charset) (h : cs ≠ .utf8) : Ref.scsLookup (encodeCharset cs) = some cs := by
  cases cs <;> first | (exact absurd rfl h) | decide

/-- the designator of a set is either one non-`%` byte or `%` + one byte, and the standard maps it back -/
def designateOk (cs : Charset) : Bool :=
  match encodeCharset cs with
  | [b] => b ≠ 0x25 && decide (Ref.scsLookup [b] = some cs)
  | [a, b] => a = 0x25 && decide (Ref.scsLookup [0x25, b] = some cs)
  | _ => false

theorem designateOk_all (cs : Charset) (h : cs ≠ .utf8) : designateOk cs = true := by
  cases cs <;> first | (exact absurd rfl h) | decide

theorem feed_designate (vt : VT) (hg : vt.ps = .ground) (cs : Charset) (h : cs ≠ .utf8) :
    vt.feedAll (designateG0 cs) = { vt with g0 := cs } := by
  have hok := designateOk_all cs h
  have hg0 : Consts.set_charset_g0 = [0x1B, 0x28] := by decide
  unfold designateOk at hok
  rw [designateG0, hg0]
  split at hok
  · rename_i b hb
    simp only [Bool.and_eq_true, decide_eq_true_eq, bne_iff_ne, ne_eq] at hok
    rw [hb]
    simp [VT.feed, hg, hok.1, hok.2]
  · rename_i a b hb
    simp only [Bool.and_eq_true, decide_eq_true_eq] at hok
    rw [hb, hok.1]
    simp [VT.feed, hg, hok.2]
  · exact absurd hok (by simp)

theorem feed_selectUtf8 (vt : VT) (hg : vt.ps = .ground) : vt.feedAll selectUtf8 = { vt with utf8 := true } := by
  have : selectUtf8 = [0x1B, 0x25, 0x47] := by decide
  simp [this, VT.feed, hg]
theorem feed_selectDefault (vt : VT) (hg : vt.ps = .ground) : vt.feedAll selectDefault = { vt with utf8 := false } := by
  have : selectDefault = [0x1B, 0x25, 0x40] := by decide
  simp [this, VT.feed, hg]

/-- after the charset bytes the terminal agrees with the destination; nothing else changes -/
theorem feed_changeCharset (beh) (vt : VT) (hg : vt.ps = .ground) (src dst : Charset) (ha : CharsetAgree src vt) :
    ∃ g0 u, vt.feedAll (changeCharset beh src dst) = { vt with g0 := g0, utf8 := u } ∧
      CharsetAgree dst { vt with g0 := g0, utf8 := u } := by
  unfold changeCharset
  by_cases h : src = dst
  · subst h; refine ⟨vt.g0, vt.utf8, ?_, ?_⟩ <;> (cases vt; simp_all [CharsetAgree])
  · simp only [h, if_false]
    by_cases hd : dst = .utf8
    · subst hd
      simp only [if_true]
      by_cases hu : beh.unicodeAll = true
      · simp only [hu, if_true, List.nil_append]
        rw [feed_selectUtf8 vt hg]
        exact ⟨vt.g0, true, by cases vt; rfl, by simp [CharsetAgree]⟩
      · simp only [hu]
        by_cases hs : src = .usAscii
        · simp only [hs, if_true, Bool.false_eq_true, if_false, List.nil_append]
          rw [feed_selectUtf8 vt hg]
          exact ⟨vt.g0, true, by cases vt; rfl, by simp [CharsetAgree]⟩
        · simp only [hs, if_false, Bool.false_eq_true, VT.feedAll_append]
          rw [feed_designate vt hg .usAscii (by simp), feed_selectUtf8 _ (by simpa using hg)]
          exact ⟨.usAscii, true, rfl, by simp [CharsetAgree]⟩
    · simp only [hd, if_false]
      by_cases hs : src = .utf8
      · simp only [hs, if_true, VT.feedAll_append]
        rw [feed_selectDefault vt hg, feed_designate _ (by simpa using hg) dst hd]
        exact ⟨dst, false, rfl, by simp [CharsetAgree, hd]⟩
      · simp only [hs, if_false, List.nil_append]
        rw [feed_designate vt hg dst hd]
        have : vt.utf8 = false := by simp [CharsetAgree, hs] at ha; exact ha.1
        exact ⟨dst, vt.utf8, by cases vt; rfl, by simp [CharsetAgree, hd, this]⟩

theorem ascii_facts : ∀ b : UInt8, 0x20 ≤ b → b ≤ 0x7E → (b ≠ 0 ∧ b &&& 0x80 = 0 ∧ b ≠ 0x1B ∧ b < 0x80) := by decide +kernel
theorem lead2_facts : ∀ b : UInt8, 0xC2 ≤ b → b ≤ 0xDF →
    (b ≠ 0 ∧ b &&& 0x80 ≠ 0 ∧ b ≠ 0x1B ∧ ¬ b < 0x80 ∧ ¬ (0xE0 ≤ b ∧ b ≤ 0xEF)) := by decide +kernel
theorem lead3_facts : ∀ b : UInt8, 0xE0 ≤ b → b ≤ 0xEF →
    (b ≠ 0 ∧ b &&& 0x80 ≠ 0 ∧ b ≠ 0x1B ∧ ¬ b < 0x80 ∧ ¬ (0xC2 ≤ b ∧ b ≤ 0xDF)) := by decide +kernel
theorem cont_facts : ∀ b : UInt8, isCont b = true → (b ≠ 0 ∧ b &&& 0x80 ≠ 0 ∧ 0x80 ≤ b ∧ b ≤ 0xBF) := by decide +kernel

/-- for graphic glyphs the bytes the library puts on the wire are the glyph's text -/
theorem payload_eq_text (g : Glyph) (hgr : g.graphic = true) : g.payload = g.text := by
  unfold Glyph.graphic at hgr
  by_cases hu : g.cs = .utf8
  · simp only [hu, if_true, Bool.or_eq_true, Bool.and_eq_true, decide_eq_true_eq] at hgr
    rcases hgr with (⟨⟨⟨h1, h2⟩, h3⟩, h4⟩ | ⟨⟨⟨h1, h2⟩, h3⟩, h4⟩) | ⟨⟨⟨h1, h2⟩, h3⟩, h4⟩
    · obtain ⟨a1, a2, _, _⟩ := ascii_facts g.b0 h1 h2
      simp [Glyph.payload, Glyph.text, Glyph.utf8Index, hu, a1, a2, h3, h4]
    · obtain ⟨a1, a2, _, _, _⟩ := lead2_facts g.b0 h1 h2
      obtain ⟨c1, c2, _, _⟩ := cont_facts g.b1 h3
      simp [Glyph.payload, Glyph.text, Glyph.utf8Index, hu, a1, a2, c1, c2, h4]
    · obtain ⟨a1, a2, _, _, _⟩ := lead3_facts g.b0 h1 h2
      obtain ⟨c1, c2, _, _⟩ := cont_facts g.b1 h3
      obtain ⟨d1, d2, _, _⟩ := cont_facts g.b2 h4
      simp [Glyph.payload, Glyph.text, Glyph.utf8Index, hu, a1, a2, c1, c2, d1, d2]
  · simp [Glyph.payload, Glyph.text, hu]

/-- feeding the text of a graphic glyph prints exactly that text as one cell -/
theorem feed_text (vt : VT) (hg : vt.ps = .ground) (g : Glyph) (hgr : g.graphic = true)
    (ha : CharsetAgree g.cs vt) :
    vt.feedAll g.text = vt.print g.text := by
  unfold Glyph.graphic at hgr
  by_cases hu : g.cs = .utf8
  · simp only [hu, if_true, Bool.or_eq_true, Bool.and_eq_true, decide_eq_true_eq] at hgr
    have hvu : vt.utf8 = true := by simpa [CharsetAgree, hu] using ha
    rcases hgr with (⟨⟨⟨h1, h2⟩, h3⟩, h4⟩ | ⟨⟨⟨h1, h2⟩, h3⟩, h4⟩) | ⟨⟨⟨h1, h2⟩, h3⟩, h4⟩
    · obtain ⟨a1, a2, a3, a4⟩ := ascii_facts g.b0 h1 h2
      simp [Glyph.text, hu, h3, VT.feed, hg, hvu, a3, a4, h1, h2]
    · obtain ⟨a1, a2, a3, a4, a5⟩ := lead2_facts g.b0 h1 h2
      obtain ⟨c1, c2, c3, c4⟩ := cont_facts g.b1 h3
      simp [Glyph.text, hu, c1, h4, VT.feed, hg, hvu, a3, a4, h1, h2, c3, c4]
      cases vt; simp_all
    · obtain ⟨a1, a2, a3, a4, a5⟩ := lead3_facts g.b0 h1 h2
      obtain ⟨c1, c2, c3, c4⟩ := cont_facts g.b1 h3
      obtain ⟨d1, d2, d3, d4⟩ := cont_facts g.b2 h4
      simp [Glyph.text, hu, c1, d1, VT.feed, hg, hvu, a3, a4, a5, h1, h2, c3, c4, d3, d4]
      cases vt; simp_all
  · simp only [hu, if_false] at hgr
    have hvu : vt.utf8 = false := by simp [CharsetAgree, hu] at ha; exact ha.1
    simp [Glyph.text, hu, VT.feed, hg, hvu, hgr]
    intro h; simp [isGraphic1] at hgr; rw [h] at hgr; exact absurd hgr (by decide)

end Tpp
