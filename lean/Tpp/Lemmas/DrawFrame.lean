import Tpp.Lemmas.DrawLoop
import Tpp.Lemmas.Canvas
/-! One whole `screen::draw` against a terminal of the canvas's size. -/
namespace Tpp
open Tpp.Lemmas.Canvas

/-- every cell of the canvas is in the properties' domain -/
def Canvas.cellsWF (c : Canvas) : Prop :=
  ∀ x y : Int, 0 ≤ x → x < c.size.width → 0 ≤ y → y < c.size.height → (c.get x y).wf = true

def fullRegion (c : Canvas) : List (Int × Int) := regionCoords ⟨⟨0, 0⟩, c.size⟩

theorem mem_fullRegion (c : Canvas) (p : Int × Int) :
    p ∈ fullRegion c ↔ (0 ≤ p.1 ∧ p.1 < c.size.width) ∧ (0 ≤ p.2 ∧ p.2 < c.size.height) := by
  unfold fullRegion
  rw [mem_regionCoords]; simp

theorem new_get_default (e : Extent) (x y : Int) : (Canvas.new e).get x y = {} :=
  getD_replicate_self _ _ _

theorem cellOf_default : cellOf {} = Cell.blank := by decide

theorem Props_erased_blank (vt : VT) : ({ vt with rend := {} } : VT).erasedCell = Cell.blank := by
  cases h : vt.eraseMode <;> simp [VT.erasedCell, h, Cell.blank]

/-- the display shows canvas `c` -/
def Shows (vt : VT) (c : Canvas) : Prop :=
  ∀ x y : Nat, x < vt.w → y < vt.h → vt.cell x y = cellOf (c.get x y)

/-- the library side of one draw: final belief and the bytes written -/
def drawRun (beh : Behaviour) (scr : ScreenState) (c : Canvas) (s : TermState) : TermState × List Byte :=
  run beh s (Screen.draw scr c).2

/-- what one draw does, from a state where belief and terminal agree and the terminal shows the frame the
    draw is diffed against -/
theorem draw_frame (beh : Behaviour) (scr : ScreenState) (c : Canvas) (s : TermState) (vt : VT)
    (hA : Agree s vt) (hsize : c.size = s.size) (hwf : c.cellsWF)
    (hbase : c.size = scr.last.size → Shows vt scr.last) :
    Agree (drawRun beh scr c s).1 (vt.feedAll (drawRun beh scr c s).2) ∧ (drawRun beh scr c s).1.size = s.size ∧
    (vt.feedAll (drawRun beh scr c s).2).log
      = vt.log ++ ((fullRegion c).filter (changedCell (Screen.base scr c) c)).map (drawnEntry c) ∧
    ((vt.wrap ≠ .immediate ∨ changedCell (Screen.base scr c) c (c.size.width - 1, c.size.height - 1) = false) →
      Shows (vt.feedAll (drawRun beh scr c s).2) c) := by
  generalize hr : drawRun beh scr c s = r
  have hw : (vt.w : Int) = c.size.width := by rw [hsize]; exact hA.2.width.symm
  have hh : (vt.h : Int) = c.size.height := by rw [hsize]; exact hA.2.height.symm
  have hin : ∀ (s1 : TermState), s1.size = s.size → ∀ p ∈ fullRegion c,
      0 ≤ p.1 ∧ p.1 < s1.size.width ∧ 0 ≤ p.2 ∧ p.2 < s1.size.height := by
    intro s1 hs1 p hp
    rw [mem_fullRegion] at hp
    rw [hs1, ← hsize]; exact ⟨hp.1.1, hp.1.2, hp.2.1, hp.2.2⟩
  have hwfp : ∀ p ∈ fullRegion c, (c.get p.1 p.2).wf = true := by
    intro p hp; rw [mem_fullRegion] at hp; exact hwf p.1 p.2 hp.1.1 hp.1.2 hp.2.1 hp.2.2
  -- the no-scroll condition for the loop, from the statement's condition on the bottom-right cell
  have hnoscroll : ∀ (vtx : VT), vtx.w = vt.w → vtx.h = vt.h → vtx.wrap = vt.wrap →
      (vt.wrap ≠ .immediate ∨ changedCell (Screen.base scr c) c (c.size.width - 1, c.size.height - 1) = false) →
      (vtx.wrap ≠ .immediate ∨ ∀ p ∈ fullRegion c, changedCell (Screen.base scr c) c p = true →
        ¬ (p.1.toNat + 1 = vtx.w ∧ p.2.toNat + 1 = vtx.h)) := by
    intro vtx e1 e2 e3 h
    rcases h with h | h
    · exact Or.inl (by rw [e3]; exact h)
    · refine Or.inr (fun p hp hc ⟨a, b⟩ => ?_)
      rw [mem_fullRegion] at hp
      have : p = (c.size.width - 1, c.size.height - 1) := by
        rw [e1] at a; rw [e2] at b
        apply Prod.ext <;> simp <;> omega
      rw [this, h] at hc; exact absurd hc (by simp)
  by_cases hsz : c.size ≠ scr.last.size
  · -- size changed: erase the display, diff against blanks
    have hbase' : Screen.base scr c = Canvas.new c.size := by simp [Screen.base, hsz]
    have hr : r = run beh s ([Op.erase .display] ++ (fullRegion c).flatMap (Screen.cellOps (Screen.base scr c) c)) := by
      rw [← hr]; simp [drawRun, Screen.draw, Screen.drawOps, hsz, fullRegion]
    have hA1 := agree_erase beh s vt hA .display
    have hf1 := feed_eraseOp beh s vt hA .display
    generalize hs1 : (step beh s (.erase .display)).1 = s1 at *
    generalize hv1 : vt.feedAll (step beh s (.erase .display)).2 = vt1 at *
    have hs1s : s1.size = s.size := by rw [← hs1]; rfl
    obtain ⟨i1, i2, i3, i4, i5, i6⟩ := draw_loop beh (Screen.base scr c) c (fullRegion c) s1 vt1 hA1 (hin s1 hs1s) hwfp
    have hrun : r = ((run beh s1 ((fullRegion c).flatMap (Screen.cellOps (Screen.base scr c) c))).1,
        (step beh s (.erase .display)).2 ++ (run beh s1 ((fullRegion c).flatMap (Screen.cellOps (Screen.base scr c) c))).2) := by
      rw [hr, run_append]; simp only [run, List.append_nil, hs1]
    have hvt' : vt.feedAll r.2 = vt1.feedAll (run beh s1 ((fullRegion c).flatMap (Screen.cellOps (Screen.base scr c) c))).2 := by
      rw [hrun, VT.feedAll_append, hv1]
    have hr1 : r.1 = (run beh s1 ((fullRegion c).flatMap (Screen.cellOps (Screen.base scr c) c))).1 := by rw [hrun]
    rw [hvt', hr1]
    have hv1log : vt1.log = vt.log := by rw [hf1]; rfl
    have hv1w : vt1.w = vt.w := by rw [hf1]; rfl
    have hv1h : vt1.h = vt.h := by rw [hf1]; rfl
    have hv1wrap : vt1.wrap = vt.wrap := by rw [hf1]; rfl
    have hv1alt : vt1.alt = vt.alt := by rw [hf1]; rfl
    refine ⟨i1, by rw [i2, hs1s], by rw [i5, hv1log], ?_⟩
    intro hcond x y hx hy
    have hcells := i6 (hnoscroll vt1 hv1w hv1h hv1wrap hcond)
    have hA' := i1
    have hw' : (vt1.feedAll (run beh s1 ((fullRegion c).flatMap (Screen.cellOps (Screen.base scr c) c))).2).w = vt.w := by
      have a := hA'.2.width; rw [i2, hs1s] at a; have b := hA.2.width; omega
    have hh' : (vt1.feedAll (run beh s1 ((fullRegion c).flatMap (Screen.cellOps (Screen.base scr c) c))).2).h = vt.h := by
      have a := hA'.2.height; rw [i2, hs1s] at a; have b := hA.2.height; omega
    rw [hw'] at hx; rw [hh'] at hy
    simp only [VT.cell, i3]
    rw [hcells vt1.alt x y]
    simp only [true_and]
    split
    · rfl
    · rename_i hne
      -- not transmitted: the cell equals the blank the erase left, and the canvas cell equals the default element
      have hin' : ((x : Int), (y : Int)) ∈ fullRegion c := by rw [mem_fullRegion]; simp; omega
      have hnc : changedCell (Screen.base scr c) c ((x : Int), (y : Int)) = false := by
        cases hcc : changedCell (Screen.base scr c) c ((x : Int), (y : Int)) with
        | false => rfl
        | true => exact absurd ⟨((x : Int), (y : Int)), hin', hcc, by simp, by simp⟩ hne
      have heq : Element.eq ((Canvas.new c.size).get x y) (c.get x y) = true := by
        simpa [changedCell, hbase'] using hnc
      rw [← cellOf_of_eq _ _ heq, new_get_default, cellOf_default]
      -- the erased cell
      rw [hf1]
      simp [VT.eraseWhere, eraseRegion, hv1alt]
      exact Props_erased_blank vt
  · -- same size: diff against the last frame, which the terminal shows
    have hsz' : c.size = scr.last.size := by
      cases hd : decide (c.size = scr.last.size) with
      | true => exact of_decide_eq_true hd
      | false => exact absurd (of_decide_eq_false hd) hsz
    have hbase' : Screen.base scr c = scr.last := by simp [Screen.base, hsz']
    have hshow := hbase hsz'
    have hr : r = run beh s ((fullRegion c).flatMap (Screen.cellOps (Screen.base scr c) c)) := by
      rw [← hr]; simp [drawRun, Screen.draw, Screen.drawOps, hsz', fullRegion]
    rw [hr]
    obtain ⟨i1, i2, i3, i4, i5, i6⟩ := draw_loop beh (Screen.base scr c) c (fullRegion c) s vt hA (hin s rfl) hwfp
    refine ⟨i1, i2, i5, ?_⟩
    intro hcond x y hx hy
    have hcells := i6 (hnoscroll vt rfl rfl rfl hcond)
    have hw' : (vt.feedAll (run beh s ((fullRegion c).flatMap (Screen.cellOps (Screen.base scr c) c))).2).w = vt.w := by
      have a := i1.2.width; rw [i2] at a; have b := hA.2.width; omega
    have hh' : (vt.feedAll (run beh s ((fullRegion c).flatMap (Screen.cellOps (Screen.base scr c) c))).2).h = vt.h := by
      have a := i1.2.height; rw [i2] at a; have b := hA.2.height; omega
    have hx' : x < vt.w := by rw [← hw']; exact hx
    have hy' : y < vt.h := by rw [← hh']; exact hy
    simp only [VT.cell]
    rw [i3, hcells vt.alt x y]
    simp only [true_and]
    split
    · rfl
    · rename_i hne
      have hin' : ((x : Int), (y : Int)) ∈ fullRegion c := by rw [mem_fullRegion]; simp; omega
      have hnc : changedCell (Screen.base scr c) c ((x : Int), (y : Int)) = false := by
        cases hcc : changedCell (Screen.base scr c) c ((x : Int), (y : Int)) with
        | false => rfl
        | true => exact absurd ⟨((x : Int), (y : Int)), hin', hcc, by simp, by simp⟩ hne
      have heq : Element.eq (scr.last.get x y) (c.get x y) = true := by
        simpa [changedCell, hbase'] using hnc
      rw [← cellOf_of_eq _ _ heq]
      exact hshow x y hx' hy'

end Tpp
