import Tpp.Model.Order
/-!
Generic machinery for C15: what it means for a triple (`==`, `<`, `<=>`) to be lawful, and closure of
lawfulness under the constructions C++ uses for defaulted comparisons.

* `Cmp α`           – the three operators of a type, bundled;
* `Cmp.Laws c`      – the user-facing laws (equivalence; strict total order; `<=>` consistent; congruence);
* `Cmp.Lawful c`    – a smaller, `<=>`-centric axiomatisation that is convenient to push through constructions;
                      `Lawful.laws` / `Laws.lawful` show the two are equivalent;
* closure: `lex` (members in order), `sum` (variant: index first), `list` (vector / basic_string),
  `pullback` (comparison through a function – e.g. an enum through its numeric code; a struct through the
  tuple of its members), `congr` (pointwise equal operators), base cases `nat`, `int`, `byte`, `bool`.

Nothing here mentions a particular library type.
-/
namespace Tpp

/-- the three comparison operators of a type -/
structure Cmp (α : Type) where
  eq : α → α → Bool
  lt : α → α → Bool
  cmp : α → α → Ordering

namespace Cmp
variable {α β : Type}

/-- The laws, as the property states them. -/
structure Laws (c : Cmp α) : Prop where
  eq_refl : ∀ a, c.eq a a = true
  eq_symm : ∀ a b, c.eq a b = true → c.eq b a = true
  eq_trans : ∀ a b d, c.eq a b = true → c.eq b d = true → c.eq a d = true
  lt_irrefl : ∀ a, c.lt a a = false
  lt_trans : ∀ a b d, c.lt a b = true → c.lt b d = true → c.lt a d = true
  /-- exactly one of `a < b`, `a == b`, `b < a` -/
  trichotomy : ∀ a b,
    (c.lt a b = true ∧ c.eq a b = false ∧ c.lt b a = false) ∨
    (c.lt a b = false ∧ c.eq a b = true ∧ c.lt b a = false) ∨
    (c.lt a b = false ∧ c.eq a b = false ∧ c.lt b a = true)
  cmp_lt : ∀ a b, c.cmp a b = .lt ↔ c.lt a b = true
  cmp_eq : ∀ a b, c.cmp a b = .eq ↔ c.eq a b = true
  cmp_gt : ∀ a b, c.cmp a b = .gt ↔ c.lt b a = true
  lt_congr_left : ∀ a a' b, c.eq a a' = true → c.lt a b = c.lt a' b
  lt_congr_right : ∀ a b b', c.eq b b' = true → c.lt a b = c.lt a b'

/-- `<=>`-centric axiomatisation (equivalent to `Laws`, see below). -/
structure Lawful (c : Cmp α) : Prop where
  cmp_refl : ∀ a, c.cmp a a = .eq
  cmp_swap : ∀ a b, c.cmp b a = (c.cmp a b).swap
  cmp_lt_trans : ∀ x y z, c.cmp x y = .lt → c.cmp y z = .lt → c.cmp x z = .lt
  cmp_eq_congr : ∀ x y z, c.cmp x y = .eq → c.cmp x z = c.cmp y z
  eq_iff : ∀ a b, c.eq a b = true ↔ c.cmp a b = .eq
  lt_iff : ∀ a b, c.lt a b = true ↔ c.cmp a b = .lt

namespace Lawful
variable {c : Cmp α}

theorem cmp_eq_congr_right (h : c.Lawful) (x y z : α) (hyz : c.cmp y z = .eq) : c.cmp x y = c.cmp x z := by
  have h1 := h.cmp_swap y x
  have h2 := h.cmp_swap z x
  have h3 := h.cmp_eq_congr y z x hyz
  rw [h1, h2, h3]

theorem gt_iff (h : c.Lawful) (a b : α) : c.cmp a b = .gt ↔ c.lt b a = true := by
  rw [h.lt_iff, h.cmp_swap a b]
  cases c.cmp a b <;> simp [Ordering.swap]

theorem lt_false_iff (h : c.Lawful) (a b : α) : c.lt a b = false ↔ c.cmp a b ≠ .lt := by
  have := h.lt_iff a b
  cases hl : c.lt a b <;> simp_all

theorem eq_false_iff (h : c.Lawful) (a b : α) : c.eq a b = false ↔ c.cmp a b ≠ .eq := by
  have := h.eq_iff a b
  cases hl : c.eq a b <;> simp_all

/-- `<=>` is determined by `<` alone (this is how `glyph::operator<=>` is written) -/
theorem cmp_of_lt (h : c.Lawful) (a b : α) :
    c.cmp a b = if c.lt a b = true then .lt else if c.lt b a = true then .gt else .eq := by
  have h1 := h.lt_iff a b
  have h2 := h.gt_iff a b
  cases hc : c.cmp a b <;> simp [hc] at h1 h2 <;> simp [h1, h2]

theorem laws (h : c.Lawful) : c.Laws where
  eq_refl a := (h.eq_iff a a).2 (h.cmp_refl a)
  eq_symm a b hab := by
    rw [h.eq_iff] at *; rw [h.cmp_swap a b, hab]; rfl
  eq_trans a b d hab hbd := by
    rw [h.eq_iff] at *; rw [h.cmp_eq_congr a b d hab]; exact hbd
  lt_irrefl a := by rw [h.lt_false_iff, h.cmp_refl]; simp
  lt_trans a b d hab hbd := by
    rw [h.lt_iff] at *; exact h.cmp_lt_trans a b d hab hbd
  trichotomy a b := by
    rw [h.lt_false_iff, h.lt_false_iff, h.eq_false_iff, h.lt_iff, h.lt_iff, h.eq_iff, h.cmp_swap a b]
    cases c.cmp a b <;> simp [Ordering.swap]
  cmp_lt a b := (h.lt_iff a b).symm
  cmp_eq a b := (h.eq_iff a b).symm
  cmp_gt a b := h.gt_iff a b
  lt_congr_left a a' b haa := by
    rw [h.eq_iff] at haa
    have := h.cmp_eq_congr a a' b haa
    have h1 := h.lt_iff a b
    have h2 := h.lt_iff a' b
    rw [this] at h1
    cases hl : c.lt a b <;> cases hl' : c.lt a' b <;> simp_all
  lt_congr_right a b b' hbb := by
    rw [h.eq_iff] at hbb
    have := h.cmp_eq_congr_right a b b' hbb
    have h1 := h.lt_iff a b
    have h2 := h.lt_iff a b'
    rw [this] at h1
    cases hl : c.lt a b <;> cases hl' : c.lt a b' <;> simp_all

end Lawful

/-- the converse: the stated laws imply the `<=>`-centric ones, so nothing was strengthened or lost -/
theorem Laws.lawful {c : Cmp α} (h : c.Laws) : c.Lawful where
  cmp_refl a := (h.cmp_eq a a).2 (h.eq_refl a)
  cmp_swap a b := by
    have t := h.trichotomy a b
    have l1 := h.cmp_lt a b; have e1 := h.cmp_eq a b; have g1 := h.cmp_gt a b
    have l2 := h.cmp_lt b a; have e2 := h.cmp_eq b a; have g2 := h.cmp_gt b a
    have s1 := h.eq_symm a b; have s2 := h.eq_symm b a
    cases hab : c.cmp a b <;> cases hba : c.cmp b a <;> simp_all [Ordering.swap]
  cmp_lt_trans x y z hxy hyz := by
    rw [h.cmp_lt] at *; exact h.lt_trans x y z hxy hyz
  cmp_eq_congr x y z hxy := by
    rw [h.cmp_eq] at hxy
    have hyx := h.eq_symm x y hxy
    have l := h.lt_congr_left x y z hxy
    have r := h.lt_congr_right z x y hxy
    have e1 : c.eq x z = c.eq y z := by
      cases h1 : c.eq x z <;> cases h2 : c.eq y z <;> try rfl
      · have := h.eq_trans x y z hxy h2; simp_all
      · have := h.eq_trans y x z hyx h1; simp_all
    have l1 := h.cmp_lt x z; have e1' := h.cmp_eq x z; have g1 := h.cmp_gt x z
    have l2 := h.cmp_lt y z; have e2 := h.cmp_eq y z; have g2 := h.cmp_gt y z
    cases hxz : c.cmp x z <;> cases hyz : c.cmp y z <;> simp_all
  eq_iff a b := (h.cmp_eq a b).symm
  lt_iff a b := (h.cmp_lt a b).symm

/-! ### transport -/

/-- operators that agree pointwise with lawful ones are lawful -/
theorem Lawful.congr {c c' : Cmp α} (h : c.Lawful)
    (he : ∀ a b, c'.eq a b = c.eq a b) (hl : ∀ a b, c'.lt a b = c.lt a b)
    (hc : ∀ a b, c'.cmp a b = c.cmp a b) : c'.Lawful where
  cmp_refl a := by rw [hc]; exact h.cmp_refl a
  cmp_swap a b := by rw [hc, hc]; exact h.cmp_swap a b
  cmp_lt_trans x y z := by rw [hc, hc, hc]; exact h.cmp_lt_trans x y z
  cmp_eq_congr x y z := by rw [hc, hc, hc]; exact h.cmp_eq_congr x y z
  eq_iff a b := by rw [he, hc]; exact h.eq_iff a b
  lt_iff a b := by rw [hl, hc]; exact h.lt_iff a b

/-- comparison through a function (a code, a projection to the tuple of members, …) -/
def pullback (f : α → β) (c : Cmp β) : Cmp α where
  eq a b := c.eq (f a) (f b)
  lt a b := c.lt (f a) (f b)
  cmp a b := c.cmp (f a) (f b)

theorem Lawful.pullback {c : Cmp β} (h : c.Lawful) (f : α → β) : (Cmp.pullback f c).Lawful where
  cmp_refl a := h.cmp_refl (f a)
  cmp_swap a b := h.cmp_swap (f a) (f b)
  cmp_lt_trans x y z := h.cmp_lt_trans (f x) (f y) (f z)
  cmp_eq_congr x y z := h.cmp_eq_congr (f x) (f y) (f z)
  eq_iff a b := h.eq_iff (f a) (f b)
  lt_iff a b := h.lt_iff (f a) (f b)

/-- when `==` upstairs is equality and the code is injective, `==` downstairs is equality too -/
theorem pullback_eq_iff_of_injective {c : Cmp β} (f : α → β) (hinj : ∀ a b, f a = f b → a = b)
    (heq : ∀ x y, c.eq x y = true ↔ x = y) (a b : α) : (Cmp.pullback f c).eq a b = true ↔ a = b := by
  constructor
  · intro h; exact hinj a b ((heq _ _).1 h)
  · intro h; subst h; exact (heq _ _).2 rfl

/-! ### base cases -/

/-- unsigned integers -/
def nat : Cmp Nat := ⟨fun a b => a == b, fun a b => (cmpNat a b).isLT, cmpNat⟩
/-- `int`, `coordinate_type` -/
def int : Cmp Int := ⟨fun a b => a == b, fun a b => (cmpInt a b).isLT, cmpInt⟩
/-- `byte` and byte-sized enums, through `toNat` -/
def byte : Cmp Byte := ⟨fun a b => a == b, fun a b => (cmpByte a b).isLT, cmpByte⟩
/-- `bool`, through `toNat` -/
def bool : Cmp Bool := ⟨fun a b => a == b, fun a b => (cmpBool a b).isLT, cmpBool⟩

theorem nat_lawful : nat.Lawful where
  cmp_refl a := by simp [nat, cmpNat]
  cmp_swap a b := by
    simp only [nat, cmpNat]
    split <;> split <;> (try split) <;> (try split) <;> simp [Ordering.swap] <;> omega
  cmp_lt_trans x y z := by
    simp only [nat, cmpNat]
    split <;> split <;> (try split) <;> (try split) <;> (try split) <;> simp <;> omega
  cmp_eq_congr x y z := by
    simp only [nat, cmpNat]
    intro h
    have : x = y := by
      split at h
      · simp at h
      · split at h
        · assumption
        · simp at h
    subst this; rfl
  eq_iff a b := by
    simp only [nat, cmpNat]
    split <;> (try split) <;> simp <;> omega
  lt_iff a b := by simp [nat]

theorem int_lawful : int.Lawful where
  cmp_refl a := by simp [int, cmpInt]
  cmp_swap a b := by
    simp only [int, cmpInt]
    split <;> split <;> (try split) <;> (try split) <;> simp [Ordering.swap] <;> omega
  cmp_lt_trans x y z := by
    simp only [int, cmpInt]
    split <;> split <;> (try split) <;> (try split) <;> (try split) <;> simp <;> omega
  cmp_eq_congr x y z := by
    simp only [int, cmpInt]
    intro h
    have : x = y := by
      split at h
      · simp at h
      · split at h
        · assumption
        · simp at h
    subst this; rfl
  eq_iff a b := by
    simp only [int, cmpInt]
    split <;> (try split) <;> simp <;> omega
  lt_iff a b := by simp [int]

theorem nat_eq_iff (a b : Nat) : nat.eq a b = true ↔ a = b := by simp [nat]
theorem int_eq_iff (a b : Int) : int.eq a b = true ↔ a = b := by simp [int]

theorem byte_lawful : byte.Lawful :=
  (nat_lawful.pullback UInt8.toNat).congr
    (fun a b => by
      simp only [byte, Cmp.pullback, nat]
      cases h : (a == b) <;> cases h' : (a.toNat == b.toNat) <;> simp_all [UInt8.toNat_inj])
    (fun _ _ => rfl) (fun _ _ => rfl)

theorem byte_eq_iff (a b : Byte) : byte.eq a b = true ↔ a = b := by simp [byte]

theorem bool_lawful : bool.Lawful :=
  (nat_lawful.pullback Bool.toNat).congr
    (fun a b => by cases a <;> cases b <;> rfl) (fun _ _ => rfl) (fun _ _ => rfl)

theorem bool_eq_iff (a b : Bool) : bool.eq a b = true ↔ a = b := by simp [bool]

/-- an enumeration compared through its numeric code -/
def code (f : α → Nat) : Cmp α := ⟨fun a b => f a == f b, fun a b => (cmpNat (f a) (f b)).isLT, fun a b => cmpNat (f a) (f b)⟩

theorem code_lawful (f : α → Nat) : (code f).Lawful :=
  (nat_lawful.pullback f).congr (fun _ _ => rfl) (fun _ _ => rfl) (fun _ _ => rfl)

theorem code_eq_iff (f : α → Nat) (hinj : ∀ a b, f a = f b → a = b) (a b : α) :
    (code f).eq a b = true ↔ a = b :=
  pullback_eq_iff_of_injective (c := nat) f hinj nat_eq_iff a b

/-! ### lexicographic product (members of a struct, in order) -/

def lex (c1 : Cmp α) (c2 : Cmp β) : Cmp (α × β) where
  eq a b := c1.eq a.1 b.1 && c2.eq a.2 b.2
  lt a b := ((c1.cmp a.1 b.1).then (c2.cmp a.2 b.2)).isLT
  cmp a b := (c1.cmp a.1 b.1).then (c2.cmp a.2 b.2)

/-- the transitivity step shared by `lex` and `list` -/
theorem then_lt_trans {a b d a' b' d' : Ordering}
    (hll : a = .lt → b = .lt → d = .lt) (hle : a = .lt → b = .eq → d = .lt)
    (hel : a = .eq → b = .lt → d = .lt) (hee : a = .eq → b = .eq → d = .eq)
    (h2 : a' = .lt → b' = .lt → d' = .lt)
    (hab : a.then a' = .lt) (hbd : b.then b' = .lt) : d.then d' = .lt := by
  cases a <;> cases b <;> simp_all [Ordering.then]

/-- the congruence step shared by `lex` and `list` -/
theorem then_eq_congr {a a' x x' y y' : Ordering}
    (h1 : a = .eq → x = y) (h2 : a' = .eq → x' = y')
    (h : a.then a' = .eq) : x.then x' = y.then y' := by
  rw [Ordering.then_eq_eq] at h
  rw [h1 h.1, h2 h.2]

theorem Lawful.lex {c1 : Cmp α} {c2 : Cmp β} (h1 : c1.Lawful) (h2 : c2.Lawful) : (Cmp.lex c1 c2).Lawful where
  cmp_refl a := by simp [Cmp.lex, h1.cmp_refl, h2.cmp_refl]
  cmp_swap a b := by
    simp only [Cmp.lex]; rw [Ordering.swap_then, ← h1.cmp_swap, ← h2.cmp_swap]
  cmp_lt_trans x y z := by
    simp only [Cmp.lex]
    exact then_lt_trans (h1.cmp_lt_trans x.1 y.1 z.1)
      (fun hxy hyz => by rw [← h1.cmp_eq_congr_right x.1 y.1 z.1 hyz]; exact hxy)
      (fun hxy hyz => by rw [h1.cmp_eq_congr x.1 y.1 z.1 hxy]; exact hyz)
      (fun hxy hyz => by rw [h1.cmp_eq_congr x.1 y.1 z.1 hxy]; exact hyz)
      (h2.cmp_lt_trans x.2 y.2 z.2)
  cmp_eq_congr x y z := by
    simp only [Cmp.lex]
    exact then_eq_congr (h1.cmp_eq_congr x.1 y.1 z.1) (h2.cmp_eq_congr x.2 y.2 z.2)
  eq_iff a b := by
    simp only [Cmp.lex, Bool.and_eq_true, Ordering.then_eq_eq, h1.eq_iff, h2.eq_iff]
  lt_iff a b := by simp [Cmp.lex]

theorem lex_eq_iff {c1 : Cmp α} {c2 : Cmp β} (e1 : ∀ x y, c1.eq x y = true ↔ x = y)
    (e2 : ∀ x y, c2.eq x y = true ↔ x = y) (a b : α × β) : (Cmp.lex c1 c2).eq a b = true ↔ a = b := by
  simp only [Cmp.lex, Bool.and_eq_true, e1, e2]
  cases a; cases b; simp

/-! ### sum ordered by constructor index (`std::variant`) -/

def sum (c1 : Cmp α) (c2 : Cmp β) : Cmp (α ⊕ β) where
  eq
    | .inl a, .inl b => c1.eq a b
    | .inr a, .inr b => c2.eq a b
    | _, _ => false
  lt
    | .inl a, .inl b => (c1.cmp a b).isLT
    | .inr a, .inr b => (c2.cmp a b).isLT
    | .inl _, .inr _ => true
    | .inr _, .inl _ => false
  cmp
    | .inl a, .inl b => c1.cmp a b
    | .inr a, .inr b => c2.cmp a b
    | .inl _, .inr _ => .lt
    | .inr _, .inl _ => .gt

theorem Lawful.sum {c1 : Cmp α} {c2 : Cmp β} (h1 : c1.Lawful) (h2 : c2.Lawful) : (Cmp.sum c1 c2).Lawful where
  cmp_refl a := by cases a <;> simp [Cmp.sum, h1.cmp_refl, h2.cmp_refl]
  cmp_swap a b := by
    cases a <;> cases b <;> simp only [Cmp.sum, Ordering.swap]
    · exact h1.cmp_swap _ _
    · exact h2.cmp_swap _ _
  cmp_lt_trans x y z := by
    cases x <;> cases y <;> cases z <;> simp [Cmp.sum]
    · exact h1.cmp_lt_trans _ _ _
    · exact h2.cmp_lt_trans _ _ _
  cmp_eq_congr x y z := by
    cases x <;> cases y <;> cases z <;> simp [Cmp.sum]
    · exact h1.cmp_eq_congr _ _ _
    · exact h2.cmp_eq_congr _ _ _
  eq_iff a b := by cases a <;> cases b <;> simp [Cmp.sum, h1.eq_iff, h2.eq_iff]
  lt_iff a b := by cases a <;> cases b <;> simp [Cmp.sum]

/-! ### lexicographic list order (`std::vector`, `std::basic_string`) -/

def list (c : Cmp α) : Cmp (List α) where
  eq := listEq c.eq
  lt a b := (listCmp c.cmp a b).isLT
  cmp := listCmp c.cmp

theorem Lawful.list {c : Cmp α} (h : c.Lawful) : (Cmp.list c).Lawful where
  cmp_refl a := by
    simp only [Cmp.list]
    induction a with
    | nil => rfl
    | cons x xs ih => simp [listCmp, h.cmp_refl, ih]
  cmp_swap a b := by
    simp only [Cmp.list]
    induction a generalizing b with
    | nil => cases b <;> rfl
    | cons x xs ih =>
      cases b with
      | nil => rfl
      | cons y ys => simp only [listCmp]; rw [Ordering.swap_then, ← h.cmp_swap, ← ih]
  cmp_lt_trans x y z := by
    simp only [Cmp.list]
    induction x generalizing y z with
    | nil => cases y <;> cases z <;> simp [listCmp]
    | cons a as ih =>
      cases y with
      | nil => simp [listCmp]
      | cons b bs =>
        cases z with
        | nil => simp [listCmp]
        | cons d ds =>
          simp only [listCmp]
          exact then_lt_trans (h.cmp_lt_trans a b d)
            (fun hxy hyz => by rw [← h.cmp_eq_congr_right a b d hyz]; exact hxy)
            (fun hxy hyz => by rw [h.cmp_eq_congr a b d hxy]; exact hyz)
            (fun hxy hyz => by rw [h.cmp_eq_congr a b d hxy]; exact hyz)
            (ih bs ds)
  cmp_eq_congr x y z := by
    simp only [Cmp.list]
    induction x generalizing y z with
    | nil => cases y <;> simp [listCmp]
    | cons a as ih =>
      cases y with
      | nil => simp [listCmp]
      | cons b bs =>
        cases z with
        | nil => simp [listCmp]
        | cons d ds =>
          simp only [listCmp]
          exact then_eq_congr (h.cmp_eq_congr a b d) (ih bs ds)
  eq_iff a b := by
    simp only [Cmp.list]
    induction a generalizing b with
    | nil => cases b <;> simp [listEq, listCmp]
    | cons x xs ih =>
      cases b with
      | nil => simp [listEq, listCmp]
      | cons y ys => simp only [listEq, listCmp, Bool.and_eq_true, Ordering.then_eq_eq, h.eq_iff, ih]
  lt_iff a b := by simp [Cmp.list]

theorem list_eq_iff {c : Cmp α} (e : ∀ x y, c.eq x y = true ↔ x = y) (a b : List α) :
    (Cmp.list c).eq a b = true ↔ a = b := by
  simp only [Cmp.list]
  induction a generalizing b with
  | nil => cases b <;> simp [listEq]
  | cons x xs ih =>
    cases b with
    | nil => simp [listEq]
    | cons y ys => simp [listEq, e, ih]

end Cmp
end Tpp

/-! ### the laws in the shape the property theorems quote them -/
namespace Tpp.Cmp
variable {α : Type} {c : Cmp α}

theorem Laws.not_lt_not_gt_iff_eq (h : c.Laws) (a b : α) :
    (c.lt a b = false ∧ c.lt b a = false) ↔ c.eq a b = true := by
  rcases h.trichotomy a b with ⟨h1, h2, h3⟩ | ⟨h1, h2, h3⟩ | ⟨h1, h2, h3⟩ <;> simp [h1, h2, h3]

theorem Laws.cmp_consistent (h : c.Laws) (a b : α) :
    (c.cmp a b = .lt ↔ c.lt a b = true) ∧ (c.cmp a b = .eq ↔ c.eq a b = true) ∧
    (c.cmp a b = .gt ↔ c.lt b a = true) :=
  ⟨h.cmp_lt a b, h.cmp_eq a b, h.cmp_gt a b⟩

end Tpp.Cmp
