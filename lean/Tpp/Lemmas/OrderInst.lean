import Tpp.Lemmas.Order
/-!
The comparison operators of every value type (`Tpp.Model.Order`), bundled as `Cmp`s, are `Lawful`:
each is exhibited as (a pointwise-equal copy of) a generic construction of `Tpp.Lemmas.Order` –
`lex` for struct members in declaration order, `sum` for variants, `list` for vectors/strings, `code` for enums –
except `glyph`, whose three hand-written operators are shown to coincide with the lexicographic comparison of
the key `(charset code, byte 0, byte 1 if UTF-8 else 0, byte 2 if UTF-8 else 0)`.

Also: equal values have equal hash trees.
-/
namespace Tpp
open Cmp

@[simp] theorem cmpNat_eq_lt (a b : Nat) : cmpNat a b = .lt ↔ a < b := by
  simp only [cmpNat]; split <;> (try split) <;> simp <;> omega
@[simp] theorem cmpNat_eq_eq (a b : Nat) : cmpNat a b = .eq ↔ a = b := by
  simp only [cmpNat]; split <;> (try split) <;> simp <;> omega
@[simp] theorem cmpNat_eq_gt (a b : Nat) : cmpNat a b = .gt ↔ b < a := by
  simp only [cmpNat]; split <;> (try split) <;> simp <;> omega

/-! ### bundles -/
def Charset.ops : Cmp Charset := ⟨Charset.eq, Charset.lt, Charset.cmp⟩
def Glyph.ops : Cmp Glyph := ⟨Glyph.eq, Glyph.lt, Glyph.cmp⟩
def LowColour.ops : Cmp LowColour := ⟨LowColour.eq, LowColour.lt, LowColour.cmp⟩
def HighColour.ops : Cmp HighColour := ⟨HighColour.eq, HighColour.lt, HighColour.cmp⟩
def GreyscaleColour.ops : Cmp GreyscaleColour := ⟨GreyscaleColour.eq, GreyscaleColour.lt, GreyscaleColour.cmp⟩
def TrueColour.ops : Cmp TrueColour := ⟨TrueColour.eq, TrueColour.lt, TrueColour.cmp⟩
def Colour.ops : Cmp Colour := ⟨Colour.eq, Colour.lt, Colour.cmp⟩
def Intensity.ops : Cmp Intensity := ⟨Intensity.eq, Intensity.lt, Intensity.cmp⟩
def Underlining.ops : Cmp Underlining := ⟨Underlining.eq, Underlining.lt, Underlining.cmp⟩
def Polarity.ops : Cmp Polarity := ⟨Polarity.eq, Polarity.lt, Polarity.cmp⟩
def Blinking.ops : Cmp Blinking := ⟨Blinking.eq, Blinking.lt, Blinking.cmp⟩
def Attr.ops : Cmp Attr := ⟨Attr.eq, Attr.lt, Attr.cmp⟩
def Element.ops : Cmp Element := ⟨Element.eq, Element.lt, Element.cmp⟩
def TString.ops : Cmp TString := ⟨TString.eq, TString.lt, TString.cmp⟩
def Point.ops : Cmp Point := ⟨Point.eq, Point.lt, Point.cmp⟩
def Extent.ops : Cmp Extent := ⟨Extent.eq, Extent.lt, Extent.cmp⟩
def Rectangle.ops : Cmp Rectangle := ⟨Rectangle.eq, Rectangle.lt, Rectangle.cmp⟩
def ControlSequence.ops : Cmp ControlSequence := ⟨ControlSequence.eq, ControlSequence.lt, ControlSequence.cmp⟩
def KeySequence.ops : Cmp KeySequence := ⟨KeySequence.eq, KeySequence.lt, KeySequence.cmp⟩
def VirtualKey.ops : Cmp VirtualKey := ⟨VirtualKey.eq, VirtualKey.lt, VirtualKey.cmp⟩
def MouseEvent.ops : Cmp MouseEvent := ⟨MouseEvent.eq, MouseEvent.lt, MouseEvent.cmp⟩

/-! ### enums through their code -/
theorem Charset.ops_lawful : Charset.ops.Lawful :=
  (code_lawful Charset.code).congr (fun _ _ => rfl) (fun _ _ => rfl) (fun _ _ => rfl)
theorem Intensity.ops_lawful : Intensity.ops.Lawful :=
  (code_lawful Intensity.code).congr (fun _ _ => rfl) (fun _ _ => rfl) (fun _ _ => rfl)
theorem Underlining.ops_lawful : Underlining.ops.Lawful :=
  (code_lawful Underlining.code).congr (fun _ _ => rfl) (fun _ _ => rfl) (fun _ _ => rfl)
theorem Polarity.ops_lawful : Polarity.ops.Lawful :=
  (code_lawful Polarity.code).congr (fun _ _ => rfl) (fun _ _ => rfl) (fun _ _ => rfl)
theorem Blinking.ops_lawful : Blinking.ops.Lawful :=
  (code_lawful Blinking.code).congr (fun _ _ => rfl) (fun _ _ => rfl) (fun _ _ => rfl)

theorem Charset.eq_iff (a b : Charset) : Charset.eq a b = true ↔ a = b :=
  code_eq_iff Charset.code Charset.code_injective a b

/-! ### glyph -/

/-- what the hand-written operators actually look at -/
def Glyph.key (g : Glyph) : Nat × Nat × Nat × Nat :=
  (g.cs.code, g.b0.toNat, (if Charset.eq g.cs .utf8 then g.b1.toNat else 0),
    (if Charset.eq g.cs .utf8 then g.b2.toNat else 0))
def Glyph.keyOps : Cmp (Nat × Nat × Nat × Nat) := Cmp.lex Cmp.nat (Cmp.lex Cmp.nat (Cmp.lex Cmp.nat Cmp.nat))

theorem Glyph.keyOps_lawful : Glyph.keyOps.Lawful :=
  nat_lawful.lex (nat_lawful.lex (nat_lawful.lex nat_lawful))

theorem Glyph.eq_key (l r : Glyph) : Glyph.eq l r = Glyph.keyOps.eq (Glyph.key l) (Glyph.key r) := by
  rw [Bool.eq_iff_iff]
  simp only [Glyph.eq, Glyph.key, Glyph.keyOps, Cmp.lex, Cmp.nat, Charset.eq, Glyph.equalLoop, Glyph.ucharacter,
    Glyph.character]
  by_cases hcs : l.cs.code = r.cs.code
  · by_cases hu : l.cs.code = Charset.utf8.code
    · have hu' : r.cs.code = Charset.utf8.code := hcs ▸ hu
      simp [hcs, hu', ← UInt8.toNat_inj]
    · have hu' : ¬ r.cs.code = Charset.utf8.code := hcs ▸ hu
      simp [hcs, hu', ← UInt8.toNat_inj]
  · simp [hcs]

theorem Glyph.lt_key (l r : Glyph) : Glyph.lt l r = Glyph.keyOps.lt (Glyph.key l) (Glyph.key r) := by
  rw [Bool.eq_iff_iff]
  simp only [Glyph.lt, Glyph.key, Glyph.keyOps, Cmp.lex, Cmp.nat, Charset.eq, Charset.lt, Charset.cmp, Glyph.lessLoop,
    Glyph.ucharacter, Glyph.character]
  by_cases hcs : l.cs.code = r.cs.code
  · by_cases hu : l.cs.code = Charset.utf8.code
    · have hu' : r.cs.code = Charset.utf8.code := hcs ▸ hu
      simp [hcs, hu', Ordering.then_eq_lt]
      omega
    · have hu' : ¬ r.cs.code = Charset.utf8.code := hcs ▸ hu
      simp [hcs, hu', Ordering.then_eq_lt]
      exact decide_eq_true_iff
  · simp [hcs, Ordering.then_eq_lt]

theorem Glyph.cmp_key (l r : Glyph) : Glyph.cmp l r = Glyph.keyOps.cmp (Glyph.key l) (Glyph.key r) := by
  rw [Glyph.keyOps_lawful.cmp_of_lt, ← Glyph.lt_key, ← Glyph.lt_key]; rfl

theorem Glyph.ops_lawful : Glyph.ops.Lawful :=
  (Glyph.keyOps_lawful.pullback Glyph.key).congr Glyph.eq_key Glyph.lt_key Glyph.cmp_key

/-! ### colours -/
theorem LowColour.ops_lawful : LowColour.ops.Lawful :=
  (byte_lawful.pullback LowColour.value).congr (fun _ _ => rfl) (fun _ _ => rfl) (fun _ _ => rfl)
theorem HighColour.ops_lawful : HighColour.ops.Lawful :=
  (byte_lawful.pullback HighColour.value).congr (fun _ _ => rfl) (fun _ _ => rfl) (fun _ _ => rfl)
theorem GreyscaleColour.ops_lawful : GreyscaleColour.ops.Lawful :=
  (byte_lawful.pullback GreyscaleColour.shade).congr (fun _ _ => rfl) (fun _ _ => rfl) (fun _ _ => rfl)
theorem TrueColour.ops_lawful : TrueColour.ops.Lawful :=
  ((byte_lawful.lex (byte_lawful.lex byte_lawful)).pullback
      (fun c : TrueColour => (c.red, c.green, c.blue))).congr
    (fun _ _ => rfl) (fun _ _ => rfl) (fun _ _ => rfl)

/-- the variant as a nested sum, in index order -/
def Colour.toSum : Colour → LowColour ⊕ (HighColour ⊕ (GreyscaleColour ⊕ TrueColour))
  | .low v => .inl ⟨v⟩
  | .high v => .inr (.inl ⟨v⟩)
  | .grey v => .inr (.inr (.inl ⟨v⟩))
  | .rgb r g b => .inr (.inr (.inr ⟨r, g, b⟩))

theorem Colour.ops_lawful : Colour.ops.Lawful :=
  ((LowColour.ops_lawful.sum (HighColour.ops_lawful.sum
      (GreyscaleColour.ops_lawful.sum TrueColour.ops_lawful))).pullback Colour.toSum).congr
    (fun a b => by cases a <;> cases b <;> rfl)
    (fun a b => by cases a <;> cases b <;> rfl)
    (fun a b => by cases a <;> cases b <;> rfl)

/-! ### attribute, element, string -/
theorem Attr.ops_lawful : Attr.ops.Lawful :=
  ((Colour.ops_lawful.lex (Colour.ops_lawful.lex (Intensity.ops_lawful.lex (Underlining.ops_lawful.lex
      (Polarity.ops_lawful.lex Blinking.ops_lawful))))).pullback
      (fun a : Attr => (a.fg, a.bg, a.intensity, a.underlining, a.polarity, a.blinking))).congr
    (fun _ _ => rfl) (fun _ _ => rfl) (fun _ _ => rfl)

theorem Element.ops_lawful : Element.ops.Lawful :=
  ((Glyph.ops_lawful.lex Attr.ops_lawful).pullback (fun e : Element => (e.glyph, e.attr))).congr
    (fun _ _ => rfl) (fun _ _ => rfl) (fun _ _ => rfl)

theorem TString.ops_lawful : TString.ops.Lawful :=
  Element.ops_lawful.list.congr (fun _ _ => rfl) (fun _ _ => rfl) (fun _ _ => rfl)

/-! ### geometry -/
theorem Point.ops_lawful : Point.ops.Lawful :=
  ((int_lawful.lex int_lawful).pullback (fun p : Point => (p.y, p.x))).congr
    (fun _ _ => rfl) (fun _ _ => rfl) (fun _ _ => rfl)
theorem Extent.ops_lawful : Extent.ops.Lawful :=
  ((int_lawful.lex int_lawful).pullback (fun e : Extent => (e.width, e.height))).congr
    (fun _ _ => rfl) (fun _ _ => rfl) (fun _ _ => rfl)
theorem Rectangle.ops_lawful : Rectangle.ops.Lawful :=
  ((Point.ops_lawful.lex Extent.ops_lawful).pullback (fun r : Rectangle => (r.origin, r.size))).congr
    (fun _ _ => rfl) (fun _ _ => rfl) (fun _ _ => rfl)

/-! ### tokens -/
theorem ControlSequence.ops_lawful : ControlSequence.ops.Lawful :=
  ((byte_lawful.lex (byte_lawful.lex (bool_lawful.lex (byte_lawful.list.list.lex byte_lawful)))).pullback
      (fun c : ControlSequence => (c.initiator, c.command, c.«meta», c.arguments, c.extender))).congr
    (fun _ _ => rfl) (fun _ _ => rfl) (fun _ _ => rfl)

def KeySequence.toSum : KeySequence → Byte ⊕ ControlSequence
  | .raw b => .inl b
  | .control c => .inr c

theorem KeySequence.ops_lawful : KeySequence.ops.Lawful :=
  ((byte_lawful.sum ControlSequence.ops_lawful).pullback KeySequence.toSum).congr
    (fun a b => by cases a <;> cases b <;> rfl)
    (fun a b => by cases a <;> cases b <;> rfl)
    (fun a b => by cases a <;> cases b <;> rfl)

theorem VirtualKey.ops_lawful : VirtualKey.ops.Lawful :=
  ((byte_lawful.lex (byte_lawful.lex (int_lawful.lex KeySequence.ops_lawful))).pullback
      (fun k : VirtualKey => (k.key, k.modifiers, k.repeatCount, k.sequence))).congr
    (fun _ _ => rfl) (fun _ _ => rfl) (fun _ _ => rfl)

theorem MouseEvent.ops_lawful : MouseEvent.ops.Lawful :=
  ((nat_lawful.lex Point.ops_lawful).pullback (fun e : MouseEvent => (e.action, e.position))).congr
    (fun _ _ => rfl) (fun _ _ => rfl) (fun _ _ => rfl)

/-! ### equal values have equal hash trees -/

theorem Charset.hash_of_eq (a b : Charset) (h : Charset.eq a b = true) : a.hashTree = b.hashTree := by
  rw [(Charset.eq_iff a b).1 h]

theorem Glyph.hash_of_eq (a b : Glyph) (h : Glyph.eq a b = true) : a.hashTree = b.hashTree := by
  simp only [Glyph.eq] at h
  by_cases hcs : Charset.eq a.cs b.cs = true
  · have hcs' := (Charset.eq_iff _ _).1 hcs
    simp only [hcs, if_true] at h
    simp only [Glyph.hashTree, ← hcs']
    by_cases hu : Charset.eq a.cs .utf8 = true
    · simp only [hu, if_true, Glyph.equalLoop, Glyph.ucharacter] at h ⊢
      simp at h
      simp [h]
    · simp only [hu] at h ⊢
      simp [Glyph.character] at h ⊢
      exact h
  · simp [hcs] at h

theorem LowColour.hash_of_eq (a b : LowColour) (h : LowColour.eq a b = true) : a.hashTree = b.hashTree := by
  cases a; cases b; simp_all [LowColour.eq, LowColour.hashTree]
theorem HighColour.hash_of_eq (a b : HighColour) (h : HighColour.eq a b = true) : a.hashTree = b.hashTree := by
  cases a; cases b; simp_all [HighColour.eq, HighColour.hashTree]
theorem GreyscaleColour.hash_of_eq (a b : GreyscaleColour) (h : GreyscaleColour.eq a b = true) :
    a.hashTree = b.hashTree := by
  cases a; cases b; simp_all [GreyscaleColour.eq, GreyscaleColour.hashTree]
theorem TrueColour.hash_of_eq (a b : TrueColour) (h : TrueColour.eq a b = true) : a.hashTree = b.hashTree := by
  cases a; cases b; simp_all [TrueColour.eq, TrueColour.hashTree]

theorem Colour.hash_of_eq (a b : Colour) (h : Colour.eq a b = true) : a.hashTree = b.hashTree := by
  cases a <;> cases b <;> simp only [Colour.eq, Colour.hashTree] at h ⊢ <;>
    first
    | exact LowColour.hash_of_eq _ _ h
    | exact HighColour.hash_of_eq _ _ h
    | exact GreyscaleColour.hash_of_eq _ _ h
    | exact TrueColour.hash_of_eq _ _ h
    | exact absurd h (by decide)

theorem Intensity.hash_of_eq (a b : Intensity) (h : Intensity.eq a b = true) : a.hashTree = b.hashTree := by
  simp_all [Intensity.eq, Intensity.hashTree]
theorem Underlining.hash_of_eq (a b : Underlining) (h : Underlining.eq a b = true) : a.hashTree = b.hashTree := by
  simp_all [Underlining.eq, Underlining.hashTree]
theorem Polarity.hash_of_eq (a b : Polarity) (h : Polarity.eq a b = true) : a.hashTree = b.hashTree := by
  simp_all [Polarity.eq, Polarity.hashTree]
theorem Blinking.hash_of_eq (a b : Blinking) (h : Blinking.eq a b = true) : a.hashTree = b.hashTree := by
  simp_all [Blinking.eq, Blinking.hashTree]

theorem Attr.hash_of_eq (a b : Attr) (h : Attr.eq a b = true) : a.hashTree = b.hashTree := by
  simp only [Attr.eq, Bool.and_eq_true] at h
  obtain ⟨h1, h2, h3, h4, h5, h6⟩ := h
  simp only [Attr.hashTree, Colour.hash_of_eq _ _ h1, Colour.hash_of_eq _ _ h2, Intensity.hash_of_eq _ _ h3,
    Underlining.hash_of_eq _ _ h4, Polarity.hash_of_eq _ _ h5, Blinking.hash_of_eq _ _ h6]

theorem Element.hash_of_eq (a b : Element) (h : Element.eq a b = true) : a.hashTree = b.hashTree := by
  simp only [Element.eq, Bool.and_eq_true] at h
  simp only [Element.hashTree, Glyph.hash_of_eq _ _ h.1, Attr.hash_of_eq _ _ h.2]

theorem TString.hash_of_eq (a b : TString) (h : TString.eq a b = true) : a.hashTree = b.hashTree := by
  simp only [TString.hashTree]
  congr 1
  simp only [TString.eq] at h
  induction a generalizing b with
  | nil => cases b <;> simp_all [listEq]
  | cons x xs ih =>
    cases b with
    | nil => simp [listEq] at h
    | cons y ys =>
      simp only [listEq, Bool.and_eq_true] at h
      simp only [List.map, Element.hash_of_eq _ _ h.1, ih ys h.2]

end Tpp
