import Tpp.Lemmas.Step
import Tpp.Lemmas.Modes
/-!
The rendition half of the agreement invariant on its own: it is preserved by every operation whatever the
library believes about sizes and positions – no size ever declared (the README's use of the library), a wrong
size declared, the terminal resized behind the application's back.  Cursor moves may then land anywhere, but
every glyph still comes out with the requested look.

Technique: the operations other than `move_cursor` emit bytes that do not depend on the position fields of the
belief, so their step is the step from the *position-forgetting* belief, for which the full invariant holds
(`agree_step` is reused); `move_cursor` is handled by showing that its bytes, for ANY believed position, only
touch the terminal's cursor.
-/
namespace Tpp

/-- the belief with both positions forgotten and the terminal's real size -/
def TermState.forgetPos (s : TermState) (vt : VT) : TermState :=
  { s with size := ⟨vt.w, vt.h⟩, cursor := none, saved := none }

theorem agree_forgetPos (s : TermState) (vt : VT) (h : AgreeRend s vt) : Agree (s.forgetPos vt) vt := by
  obtain ⟨hg, hok, hrend, hcs, hvis⟩ := h
  exact ⟨⟨hg, hok, hrend, hcs, hvis⟩, ⟨rfl, rfl, (by intro p hp; cases hp), (by intro p hp; cases hp)⟩⟩

theorem agreeRend_of_fields (s s' : TermState) (vt : VT) (h : AgreeRend s' vt) (hl : s.last = s'.last)
    (hv : s.visible = s'.visible) : AgreeRend s vt := by
  obtain ⟨hg, hok, hrend, hcs, hvis⟩ := h
  exact ⟨hg, hok, by rw [hl]; exact hrend, by rw [hl]; exact hcs, by rw [hv]; exact hvis⟩

-- ------------------------------------------------------------------ position independence of the writers
theorem advanceCursor_last (s : TermState) : (advanceCursor s).last = s.last ∧ (advanceCursor s).visible = s.visible := by
  unfold advanceCursor
  cases s.cursor with
  | none => exact ⟨rfl, rfl⟩
  | some p => simp only; split <;> exact ⟨rfl, rfl⟩

theorem rawElement_indep (beh : Behaviour) (s s' : TermState) (e : Element) (hl : s.last = s'.last)
    (hv : s.visible = s'.visible) :
    (rawElement beh s e).2 = (rawElement beh s' e).2 ∧ (rawElement beh s e).1.last = (rawElement beh s' e).1.last ∧
    (rawElement beh s e).1.visible = (rawElement beh s' e).1.visible := by
  simp only [rawElement, hl]
  refine ⟨trivial, ?_, ?_⟩
  · rw [(advanceCursor_last _).1, (advanceCursor_last _).1]
  · rw [(advanceCursor_last _).2, (advanceCursor_last _).2]; exact hv

theorem rawElements_indep (beh : Behaviour) (es : List Element) : ∀ (s s' : TermState), s.last = s'.last →
    s.visible = s'.visible →
    (rawElements beh s es).2 = (rawElements beh s' es).2 ∧ (rawElements beh s es).1.last = (rawElements beh s' es).1.last ∧
    (rawElements beh s es).1.visible = (rawElements beh s' es).1.visible := by
  induction es with
  | nil => intro s s' hl hv; exact ⟨rfl, hl, hv⟩
  | cons e es ih =>
    intro s s' hl hv
    obtain ⟨h1, h2, h3⟩ := rawElement_indep beh s s' e hl hv
    obtain ⟨i1, i2, i3⟩ := ih _ _ h2 h3
    simp only [rawElements]
    exact ⟨by rw [h1, i1], i2, i3⟩

theorem defaultAttr_indep (s s' : TermState) (hl : s.last = s'.last) (hv : s.visible = s'.visible) :
    (defaultAttr s).2 = (defaultAttr s').2 ∧ (defaultAttr s).1.last = (defaultAttr s').1.last ∧
    (defaultAttr s).1.visible = (defaultAttr s').1.visible := by
  unfold defaultAttr
  rw [hl]
  cases s'.last with
  | none => exact ⟨rfl, rfl, hv⟩
  | some l => exact ⟨rfl, hl, hv⟩

/-- operations whose bytes and rendition-related effects do not look at the position fields -/
def Op.positionFree : Op → Bool
  | .moveCursor _ => false
  | .setSize _ => false
  | .rawWrite _ => false
  | _ => true

theorem step_indep (beh : Behaviour) (s s' : TermState) (op : Op) (hp : op.positionFree = true)
    (hl : s.last = s'.last) (hv : s.visible = s'.visible) :
    (step beh s op).2 = (step beh s' op).2 ∧ (step beh s op).1.last = (step beh s' op).1.last ∧
    (step beh s op).1.visible = (step beh s' op).1.visible := by
  cases op with
  | writeElement e =>
    obtain ⟨d1, d2, d3⟩ := defaultAttr_indep s s' hl hv
    obtain ⟨r1, r2, r3⟩ := rawElement_indep beh _ _ e d2 d3
    simp only [step]; exact ⟨by rw [d1, r1], r2, r3⟩
  | writeString es =>
    obtain ⟨d1, d2, d3⟩ := defaultAttr_indep s s' hl hv
    obtain ⟨r1, r2, r3⟩ := rawElements_indep beh es _ _ d2 d3
    simp only [step]; exact ⟨by rw [d1, r1], r2, r3⟩
  | rawElement e => exact rawElement_indep beh s s' e hl hv
  | defaultAttr => exact defaultAttr_indep s s' hl hv
  | moveCursor p => simp [Op.positionFree] at hp
  | hideCursor => simp only [step, hv]; exact ⟨trivial, hl, trivial⟩
  | showCursor => simp only [step, hv]; exact ⟨trivial, hl, trivial⟩
  | saveCursor => simp only [step]; exact ⟨trivial, hl, hv⟩
  | restoreCursor => simp only [step]; exact ⟨trivial, hl, hv⟩
  | erase k => simp only [step, hl]; exact ⟨trivial, trivial, hv⟩
  | enableMouse => simp only [step]; exact ⟨trivial, hl, hv⟩
  | disableMouse => simp only [step]; exact ⟨trivial, hl, hv⟩
  | setTitle t => simp only [step]; exact ⟨trivial, hl, hv⟩
  | normalBuffer => simp only [step]; exact ⟨trivial, hl, hv⟩
  | altBuffer => simp only [step]; exact ⟨trivial, hl, hv⟩
  | setSize e => simp [Op.positionFree] at hp
  | rawWrite bs => simp [Op.positionFree] at hp
  | input bs => simp only [step]; exact ⟨trivial, hl, hv⟩

-- ------------------------------------------------------------------ cursor moves from ANY believed position
/-- CUP with non-negative coordinates only touches the cursor (where it lands depends on the real size) -/
theorem feed_CUP_any (vt : VT) (hg : vt.ps = .ground) (d : Point) (hx : 0 ≤ d.x) (hy : 0 ≤ d.y) :
    ∃ cx cy, vt.feedAll (writeCUP d) = { vt with cx := cx, cy := cy, pending := false } := by
  have hfin : (Consts.csi_cursor_position : Byte) = 0x48 := by decide
  unfold writeCUP
  rw [hfin]
  by_cases h0 : d.x ≠ 0 ∨ d.y ≠ 0
  · simp only [h0, if_true]
    by_cases hx0 : d.x = 0
    · simp only [hx0, if_true]
      rw [decInt_nonneg _ (by omega), ← joinParams_one, VT.feed_csi vt hg _ (by simp) 0x48 (by decide)]
      refine ⟨(vt.dispatch none [(d.y + 1).toNat] 0x48).cx, (vt.dispatch none [(d.y + 1).toNat] 0x48).cy, ?_⟩
      simp only [VT.dispatch]
      cases vt; simp_all
    · simp only [hx0, if_false]
      rw [decInt_nonneg _ (by omega), decInt_nonneg _ (by omega), ← joinParams_two,
        VT.feed_csi vt hg _ (by simp) 0x48 (by decide)]
      refine ⟨(vt.dispatch none [(d.y + 1).toNat, (d.x + 1).toNat] 0x48).cx,
        (vt.dispatch none [(d.y + 1).toNat, (d.x + 1).toNat] 0x48).cy, ?_⟩
      simp only [VT.dispatch]
      cases vt; simp_all
  · simp only [h0, if_false, List.append_nil]
    rw [VT.feed_csi_empty vt hg 0x48 (by decide)]
    refine ⟨(vt.dispatch none [] 0x48).cx, (vt.dispatch none [] 0x48).cy, ?_⟩
    simp only [VT.dispatch]
    cases vt; simp_all

theorem feed_CHA_any (vt : VT) (hg : vt.ps = .ground) (x : Int) (hx : 0 ≤ x) :
    ∃ cx, vt.feedAll (writeCHA x) = { vt with cx := cx, pending := false } := by
  have hfin : (Consts.csi_cursor_horizontal_absolute : Byte) = 0x47 := by decide
  unfold writeCHA
  rw [hfin]
  by_cases h0 : x ≠ 0
  · rw [if_pos h0]
    rw [decInt_nonneg _ (by omega), ← joinParams_one, VT.feed_csi vt hg _ (by simp) 0x47 (by decide)]
    refine ⟨(vt.dispatch none [(x + 1).toNat] 0x47).cx, ?_⟩
    simp only [VT.dispatch]
    cases vt; simp_all
  · rw [if_neg h0, List.append_nil]
    rw [VT.feed_csi_empty vt hg 0x47 (by decide)]
    refine ⟨(vt.dispatch none [] 0x47).cx, ?_⟩
    simp only [VT.dispatch]
    cases vt; simp_all

/-- `move_cursor` to a position with non-negative coordinates, from ANY believed position (true or false):
    the bytes form complete cursor-addressing functions and touch nothing but the terminal's cursor -/
theorem feed_moveCursor_any (vt : VT) (hg : vt.ps = .ground) (c : Option Point) (p : Point)
    (hx : 0 ≤ p.x) (hy : 0 ≤ p.y) :
    ∃ cx cy pd, vt.feedAll (moveCursorBytes c p) = { vt with cx := cx, cy := cy, pending := pd } := by
  unfold moveCursorBytes
  cases c with
  | none =>
    obtain ⟨cx, cy, h⟩ := feed_CUP_any vt hg p hx hy
    exact ⟨cx, cy, false, h⟩
  | some c =>
    simp only
    by_cases h1 : c = p
    · simp only [h1, if_true, VT.feedAll_nil]; exact ⟨vt.cx, vt.cy, vt.pending, rfl⟩
    · simp only [h1, if_false]
      by_cases h2 : c.y = p.y
      · simp only [h2, if_true]
        obtain ⟨cx, h⟩ := feed_CHA_any vt hg p.x hx
        exact ⟨cx, vt.cy, false, h⟩
      · simp only [h2, if_false]
        by_cases h3 : c.x = p.x
        · simp only [h3, if_true]
          by_cases h4 : c.y - p.y > 0
          · simp only [h4, if_true]
            rw [feed_CUU vt hg _ h4]; exact ⟨vt.cx, _, false, rfl⟩
          · simp only [h4, if_false]
            rw [feed_CUD vt hg _ (by omega)]; exact ⟨vt.cx, _, false, rfl⟩
        · simp only [h3, if_false]
          obtain ⟨cx, cy, h⟩ := feed_CUP_any vt hg p hx hy
          exact ⟨cx, cy, false, h⟩

-- ------------------------------------------------------------------ the rendition-only simulation
/-- domain of the rendition-only statements: NO condition relating positions to sizes -/
def Op.WFR (s : TermState) : Op → Prop
  | .writeElement e => e.wf = true
  | .writeString es => ∀ e ∈ es, e.wf = true
  | .rawElement e => e.wf = true ∧ s.last.isSome = true
  | .moveCursor p => 0 ≤ p.x ∧ 0 ≤ p.y
  | .setTitle t => titleClean t = true
  | .rawWrite _ => False
  | _ => True

/-- events: a library operation (including a bare `set_size`, truthful or not), or the terminal being resized
    without the library being told -/
inductive REv
  | op (o : Op)
  | termResize (w h : Nat) (cells : Bool → Grid) (cx cy : Nat) (saved : Option (Nat × Nat)) (pending : Bool)

def REv.WF (s : TermState) : REv → Prop
  | .op o => o.WFR s
  | .termResize _ _ _ _ _ _ _ => True

def REv.elements : REv → List Element
  | .op o => o.elements
  | .termResize _ _ _ _ _ _ _ => []

def RSys.step (beh : Behaviour) (st : TermState × VT) : REv → TermState × VT
  | .op o => ((Tpp.step beh st.1 o).1, st.2.feedAll (Tpp.step beh st.1 o).2)
  | .termResize w h cells cx cy saved pending => (st.1, st.2.resize w h cells cx cy saved pending)

def RSys.run (beh : Behaviour) (st : TermState × VT) (evs : List REv) : TermState × VT := evs.foldl (RSys.step beh) st

def RRunWF (beh : Behaviour) : TermState × VT → List REv → Prop
  | _, [] => True
  | st, ev :: evs => ev.WF st.1 ∧ RRunWF beh (RSys.step beh st ev) evs

theorem wf_of_wfr (s : TermState) (vt : VT) (op : Op) (hp : op.positionFree = true) (hw : op.WFR s) :
    op.WF (s.forgetPos vt) := by
  cases op <;> simp_all [Op.WF, Op.WFR, Op.positionFree, TermState.forgetPos]

/-- one event: the rendition half is preserved and the log grows by exactly the requested cells -/
theorem agreeRend_step (beh : Behaviour) (s : TermState) (vt : VT) (hA : AgreeRend s vt) (ev : REv) (hw : ev.WF s) :
    AgreeRend (RSys.step beh (s, vt) ev).1 (RSys.step beh (s, vt) ev).2 ∧
    ∃ entries, (RSys.step beh (s, vt) ev).2.log = vt.log ++ entries ∧ entries.map (·.2.2) = ev.elements.map cellOf := by
  cases ev with
  | termResize w h cells cx cy saved pending =>
    obtain ⟨hg, hok, hrend, hcs, hvis⟩ := hA
    simp only [RSys.step, VT.resize]
    exact ⟨⟨hg, hok, hrend, by simpa [CharsetAgree] using hcs, hvis⟩, [], by simp, rfl⟩
  | op o =>
    by_cases hp : o.positionFree = true
    · have hF := agree_forgetPos s vt hA
      have hw' := wf_of_wfr s vt o hp hw
      obtain ⟨i1, i2, i3⟩ := step_indep beh s (s.forgetPos vt) o hp rfl rfl
      have hA' := agree_step beh _ vt hF (.op o) hw'
      have hL := step_log beh _ vt hF (.op o) hw'
      simp only [Sys.step] at hA' hL
      simp only [RSys.step, i1]
      exact ⟨agreeRend_of_fields _ _ _ hA'.1 i2 i3, hL⟩
    · cases o with
      | moveCursor p =>
        obtain ⟨hx, hy⟩ := hw
        obtain ⟨cx, cy, pd, hf⟩ := feed_moveCursor_any vt hA.ground s.cursor p hx hy
        obtain ⟨hg, hok, hrend, hcs, hvis⟩ := hA
        simp only [RSys.step, step]
        rw [hf]
        exact ⟨⟨hg, hok, hrend, by simpa [CharsetAgree] using hcs, hvis⟩, [], by simp, rfl⟩
      | setSize e =>
        obtain ⟨hg, hok, hrend, hcs, hvis⟩ := hA
        simp only [RSys.step, step, VT.feedAll_nil]
        exact ⟨⟨hg, hok, hrend, hcs, hvis⟩, [], by simp, rfl⟩
      | rawWrite bs => exact absurd hw (by simp [REv.WF, Op.WFR])
      | _ => simp [Op.positionFree] at hp

/-- every history: rendition agreement at the end, and the print log grew by exactly the requested cells -/
theorem agreeRend_run (beh : Behaviour) (evs : List REv) :
    ∀ (st : TermState × VT), AgreeRend st.1 st.2 → RRunWF beh st evs →
      AgreeRend (RSys.run beh st evs).1 (RSys.run beh st evs).2 ∧
      ∃ entries, (RSys.run beh st evs).2.log = st.2.log ++ entries ∧
        entries.map (·.2.2) = (evs.flatMap REv.elements).map cellOf := by
  induction evs with
  | nil => intro st hA _; exact ⟨hA, [], by simp [RSys.run], rfl⟩
  | cons ev evs ih =>
    intro st hA hw
    obtain ⟨h1, h2⟩ := hw
    obtain ⟨hA1, e1, hl1, hc1⟩ := agreeRend_step beh st.1 st.2 hA ev h1
    obtain ⟨hA2, e2, hl2, hc2⟩ := ih (RSys.step beh st ev) hA1 h2
    refine ⟨hA2, e1 ++ e2, ?_, ?_⟩
    · show (RSys.run beh (RSys.step beh st ev) evs).2.log = _
      rw [hl2, hl1]; simp
    · simp [hc1, hc2]

end Tpp

namespace Tpp

/-- the in-domain event an `REv` corresponds to for the purpose of mode accounting -/
def REv.toEv : REv → Ev
  | .op o => .op o
  | .termResize w h cells cx cy saved pending => .resize w h cells cx cy saved pending

/-- the effect of one event on the terminal's modes – with no assumption about sizes or positions -/
theorem rstep_modes (beh : Behaviour) (s : TermState) (vt : VT) (hA : AgreeRend s vt) (ev : REv) (hw : ev.WF s) :
    (RSys.step beh (s, vt) ev).2.modes = modesAfter beh vt.modes ev.toEv := by
  cases ev with
  | termResize w h cells cx cy saved pending => rfl
  | op o =>
    by_cases hp : o.positionFree = true
    · have hF := agree_forgetPos s vt hA
      have hw' := wf_of_wfr s vt o hp hw
      obtain ⟨i1, _, _⟩ := step_indep beh s (s.forgetPos vt) o hp rfl rfl
      have hm := step_modes beh _ vt hF (.op o) hw'
      simp only [Sys.step] at hm
      simp only [RSys.step, i1, REv.toEv]
      exact hm
    · cases o with
      | moveCursor p =>
        obtain ⟨hx, hy⟩ := hw
        obtain ⟨cx, cy, pd, hf⟩ := feed_moveCursor_any vt hA.ground s.cursor p hx hy
        simp only [RSys.step, step, REv.toEv]
        rw [hf]; rfl
      | setSize e => rfl
      | rawWrite bs => exact absurd hw (by simp [REv.WF, Op.WFR])
      | _ => simp [Op.positionFree] at hp

end Tpp

namespace Tpp

/-- a plain operation list run through `RSys` is `run` on the library side and `feedAll` on the terminal side -/
theorem RSys.run_ops (beh : Behaviour) (ops : List Op) : ∀ (s : TermState) (vt : VT),
    RSys.run beh (s, vt) (ops.map REv.op) = ((Tpp.run beh s ops).1, vt.feedAll (Tpp.run beh s ops).2) := by
  induction ops with
  | nil => intro s vt; rfl
  | cons op ops ih =>
    intro s vt
    simp only [List.map_cons, RSys.run, List.foldl_cons] at ih ⊢
    rw [show RSys.step beh (s, vt) (REv.op op) = ((Tpp.step beh s op).1, vt.feedAll (Tpp.step beh s op).2) from rfl, ih]
    simp only [Tpp.run, VT.feedAll_append]

/-- operations whose rendition-only domain condition does not depend on the library state -/
def Op.WFR0 : Op → Prop
  | .writeElement e => e.wf = true
  | .writeString es => ∀ e ∈ es, e.wf = true
  | .rawElement _ => False
  | .moveCursor p => 0 ≤ p.x ∧ 0 ≤ p.y
  | .setTitle t => titleClean t = true
  | .rawWrite _ => False
  | _ => True

theorem wfr_of_wfr0 (s : TermState) (op : Op) (h : op.WFR0) : op.WFR s := by
  cases op <;> simp_all [Op.WFR0, Op.WFR]

theorem rrunwf_of_all (beh : Behaviour) (ops : List Op) (h : ∀ op ∈ ops, op.WFR0) :
    ∀ st : TermState × VT, RRunWF beh st (ops.map REv.op) := by
  induction ops with
  | nil => intro st; trivial
  | cons op ops ih =>
    intro st
    exact ⟨wfr_of_wfr0 st.1 op (h op (by simp)), ih (fun o ho => h o (by simp [ho])) _⟩

end Tpp
