import Tpp.Lemmas.MarkupDecode
import Tpp.Lemmas.MarkupCanonical
/-! Helper lemmas used by `Tpp.Props.C10`: normal forms, the last element of a decoded text. -/
namespace Tpp.Markup
open Tpp Tpp.Ref

theorem encode_spellings (sps : List Spelling) :
    (encode (sps.flatMap Spelling.print)).map norm = denoteAll sps :=
  encodeFrom_spellings sps {}

theorem norm_idem (e : Element) : norm (norm e) = norm e := by
  unfold norm normGlyph; split <;> simp_all

theorem denote_normal (sp : Spelling) (prev : Element) : norm (denote sp prev) = denote sp prev := by
  have := (decode_spelling sp [] prev).2
  rw [← this, norm_idem]

theorem denoteFrom_normal (sps : List Spelling) : ∀ prev, (denoteFrom sps prev).map norm = denoteFrom sps prev := by
  induction sps with
  | nil => intro _; rfl
  | cons sp r ih => intro prev; simp only [denoteFrom, List.map_cons, denote_normal, ih]


theorem denoteFrom_snoc (a : List Spelling) (sp : Spelling) : ∀ p : Element,
    denoteFrom (a ++ [sp]) p = denoteFrom a p ++ [denote sp ((denoteFrom a p).getLast?.getD p)] := by
  induction a with
  | nil => intro p; simp [denoteFrom]
  | cons x a ih =>
    intro p
    simp only [List.cons_append, denoteFrom, ih, List.getLast?_cons]
    simp

theorem norm_attr (e : Element) : (norm e).attr = e.attr := rfl

theorem decoded_snoc (sps : List Spelling) (sp : Spelling) :
    (encode ((sps ++ [sp]).flatMap Spelling.print)).map norm =
      (encode (sps.flatMap Spelling.print)).map norm ++
        [denote sp (norm ((encode (sps.flatMap Spelling.print)).getLast?.getD {}))] := by
  rw [encode_spellings, denoteAll, denoteFrom_snoc, ← denoteAll, ← encode_spellings, List.getLast?_map]
  cases (encode (sps.flatMap Spelling.print)).getLast? <;> rfl

theorem foldl_reset (ds : List Directive) (e : Element) : ((ds ++ [Directive.reset]).foldl Directive.apply e).attr = ({} : Attr) := by
  simp [List.foldl_append, Directive.apply]

theorem glyph_apply_attr (g : GlyphSp) (e : Element) : (g.apply e).attr = e.attr := by cases g <;> rfl


end Tpp.Markup
