import Tpp.Lemmas.VTCsi
import Tpp.Lemmas.Agree
/-! Status queries (DSR, DA) sent through the raw entry point `terminal::write`: the reference terminal does not act on them. -/
namespace Tpp
open Tpp.Ref

/-- the status queries the oracle lets through as raw writes: DSR 6, DSR 5, primary DA with and without parameter -/
def statusQueries : List (List Byte) :=
  [[0x1B, 0x5B, 0x36, 0x6E], [0x1B, 0x5B, 0x35, 0x6E], [0x1B, 0x5B, 0x63], [0x1B, 0x5B, 0x30, 0x63]]

theorem dispatch_n (vt : VT) (ps : List Nat) : vt.dispatch none ps 0x6E = { vt with ps := .ground } := by
  simp [VT.dispatch]
theorem dispatch_c (vt : VT) (ps : List Nat) : vt.dispatch none ps 0x63 = { vt with ps := .ground } := by
  simp [VT.dispatch]

/-- the reference terminal does not act on a status query: it is in exactly the same state afterwards -/
theorem feed_statusQuery (vt : VT) (hg : vt.ps = .ground) (q : List Byte) (hq : q ∈ statusQueries) : vt.feedAll q = vt := by
  have hsame : ({ vt with ps := .ground } : VT) = vt := by cases vt; simp_all
  simp only [statusQueries, List.mem_cons, List.mem_nil_iff, or_false] at hq
  rcases hq with rfl | rfl | rfl | rfl
  · have h := VT.feed_csi vt hg [6] (by simp) 0x6E (by decide)
    have e : csiBytes ++ joinParams [6] ++ [0x6E] = [0x1B, 0x5B, 0x36, 0x6E] := by decide +kernel
    rw [e] at h; rw [h, dispatch_n, hsame]
  · have h := VT.feed_csi vt hg [5] (by simp) 0x6E (by decide)
    have e : csiBytes ++ joinParams [5] ++ [0x6E] = [0x1B, 0x5B, 0x35, 0x6E] := by decide +kernel
    rw [e] at h; rw [h, dispatch_n, hsame]
  · have h := VT.feed_csi_empty vt hg 0x63 (by decide)
    have e : csiBytes ++ [0x63] = [0x1B, 0x5B, 0x63] := by decide +kernel
    rw [e] at h; rw [h, dispatch_c, hsame]
  · have h := VT.feed_csi vt hg [0] (by simp) 0x63 (by decide)
    have e : csiBytes ++ joinParams [0] ++ [0x63] = [0x1B, 0x5B, 0x30, 0x63] := by decide +kernel
    rw [e] at h; rw [h, dispatch_c, hsame]

/-- hence everything the library believes stays true across such a raw write -/
theorem agree_statusQuery (s : TermState) (vt : VT) (hA : Agree s vt) (q : List Byte) (hq : q ∈ statusQueries) :
    Agree s (vt.feedAll q) := by
  rw [feed_statusQuery vt hA.1.ground q hq]; exact hA

end Tpp
