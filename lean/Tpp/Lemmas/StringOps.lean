import Tpp.Model.StringOps
/-! Naturality of the string register machine: mapping the elements commutes with every operation. -/
namespace Tpp

theorem Regs.map_put {α β} (f : α → β) (g : Regs α) (r : Nat) (xs : List α) :
    (g.put r xs).map f = (g.map f).put r (xs.map f) := by
  funext k; simp only [Regs.map, Regs.put]; split <;> rfl

theorem SeqOp.apply_map {α β} (f : α → β) (g : Regs α) (op : SeqOp α) :
    (op.apply g).map f = (op.map f).apply (g.map f) := by
  cases op with
  | set r xs => simp [SeqOp.apply, SeqOp.map, Regs.map_put]
  | addE r x => simp [SeqOp.apply, SeqOp.map, Regs.map_put, Regs.map]
  | addS r q => simp [SeqOp.apply, SeqOp.map, Regs.map_put, Regs.map]
  | plusE r q x => simp [SeqOp.apply, SeqOp.map, Regs.map_put, Regs.map]
  | plusS r q t => simp [SeqOp.apply, SeqOp.map, Regs.map_put, Regs.map]
  | insE r pos x =>
    simp only [SeqOp.apply, SeqOp.map, Regs.map, List.length_map]
    split
    · rw [← Regs.map, Regs.map_put]; simp [Regs.map, List.map_take, List.map_drop]
    · rfl
  | insR r pos q a b =>
    simp only [SeqOp.apply, SeqOp.map, Regs.map, List.length_map]
    split
    · rw [← Regs.map, Regs.map_put]; simp [Regs.map, List.map_take, List.map_drop]
    · rfl
  | eraseAll r => simp [SeqOp.apply, SeqOp.map, Regs.map_put]
  | eraseFrom r pos =>
    simp only [SeqOp.apply, SeqOp.map, Regs.map, List.length_map]
    split
    · rw [← Regs.map, Regs.map_put]; simp [Regs.map, List.map_take]
    · rfl
  | eraseRange r a b =>
    simp only [SeqOp.apply, SeqOp.map, Regs.map, List.length_map]
    split
    · rw [← Regs.map, Regs.map_put]; simp [Regs.map, List.map_take, List.map_drop]
    · rfl
  | swap r q => simp [SeqOp.apply, SeqOp.map, Regs.map_put, Regs.map]
  | setAt r i x =>
    simp only [SeqOp.apply, SeqOp.map, Regs.map, List.length_map]
    split
    · rw [← Regs.map, Regs.map_put]; simp [Regs.map, List.map_set]
    · rfl

  | setAtRev r i x =>
    simp only [SeqOp.apply, SeqOp.map, Regs.map, List.length_map]
    split
    · rw [← Regs.map, Regs.map_put]; simp [Regs.map, List.map_set]
    · rfl
  | obs r => rfl
  | moveS r q =>
    simp only [SeqOp.apply, SeqOp.map]
    split
    · rfl
    · simp [Regs.map_put, Regs.map]
  | obsNone r => rfl
  | obs2 r q => rfl

theorem SeqOp.run_map {α β} (f : α → β) (ops : List (SeqOp α)) : ∀ g : Regs α,
    (SeqOp.run g ops).map f = SeqOp.run (g.map f) (ops.map (SeqOp.map f)) := by
  induction ops with
  | nil => intro g; rfl
  | cons op ops ih =>
    intro g
    simp only [SeqOp.run, List.foldl_cons, List.map_cons] at ih ⊢
    rw [ih, SeqOp.apply_map]

theorem TString.toString_eq_flatten (es : List Element) :
    TString.toString es = (es.map fun e => e.glyph.toStringBytes).flatten := by
  simp [TString.toString, List.flatMap_def]

end Tpp
