import Tpp.Lemmas.Step
import Tpp.Lemmas.OrderInst
import Tpp.Model.Screen
/-! Lemmas for `screen::draw`: running a list of library operations, and placing one cell. -/
namespace Tpp

/-- library operations as events -/
theorem sys_run_ops (beh : Behaviour) (ops : List Op) : ∀ (s : TermState) (vt : VT),
    Sys.run beh (s, vt) (ops.map Ev.op) = ((run beh s ops).1, vt.feedAll (run beh s ops).2) := by
  induction ops with
  | nil => intro s vt; rfl
  | cons o ops ih =>
    intro s vt
    simp only [List.map_cons, Sys.run_cons, run, VT.feedAll_append]
    rw [show Sys.step beh (s, vt) (Ev.op o) = ((step beh s o).1, vt.feedAll (step beh s o).2) from rfl, ih]

theorem run_append (beh : Behaviour) (a b : List Op) : ∀ s : TermState,
    run beh s (a ++ b) = ((run beh (run beh s a).1 b).1, (run beh s a).2 ++ (run beh (run beh s a).1 b).2) := by
  induction a with
  | nil => intro s; simp [run]
  | cons o a ih => intro s; simp only [List.cons_append, run, ih, List.append_assoc]

theorem Colour.eq_imp (a b : Colour) (h : Colour.eq a b = true) : a = b := by
  cases a <;> cases b <;> simp_all [Colour.eq, LowColour.eq, HighColour.eq, GreyscaleColour.eq, TrueColour.eq]
theorem Intensity.eq_imp (a b : Intensity) (h : Intensity.eq a b = true) : a = b := by
  cases a <;> cases b <;> first | rfl | (exact absurd h (by decide))
theorem Underlining.eq_imp (a b : Underlining) (h : Underlining.eq a b = true) : a = b := by
  cases a <;> cases b <;> first | rfl | (exact absurd h (by decide))
theorem Polarity.eq_imp (a b : Polarity) (h : Polarity.eq a b = true) : a = b := by
  cases a <;> cases b <;> first | rfl | (exact absurd h (by decide))
theorem Blinking.eq_imp (a b : Blinking) (h : Blinking.eq a b = true) : a = b := by
  cases a <;> cases b <;> first | rfl | (exact absurd h (by decide))

theorem Attr.eq_imp (a b : Attr) (h : Attr.eq a b = true) : a = b := by
  simp only [Attr.eq, Bool.and_eq_true] at h
  obtain ⟨h1, h2, h3, h4, h5, h6⟩ := h
  cases a; cases b
  simp only [Attr.mk.injEq]
  exact ⟨Colour.eq_imp _ _ h1, Colour.eq_imp _ _ h2, Intensity.eq_imp _ _ h3, Underlining.eq_imp _ _ h4,
    Polarity.eq_imp _ _ h5, Blinking.eq_imp _ _ h6⟩

/-- library equality of elements implies they look the same on a terminal -/
theorem cellOf_of_eq (a b : Element) (h : Element.eq a b = true) : cellOf a = cellOf b := by
  simp only [Element.eq, Bool.and_eq_true] at h
  obtain ⟨hg, ha⟩ := h
  have hattr : a.attr = b.attr := Attr.eq_imp _ _ ha
  have htext : a.glyph.text = b.glyph.text ∧ a.glyph.cs = b.glyph.cs := by
    simp only [Glyph.eq] at hg
    split at hg
    · rename_i hcs
      have hcs' : a.glyph.cs = b.glyph.cs := (Charset.eq_iff _ _).1 hcs
      split at hg
      · rename_i hu
        have hu' : a.glyph.cs = .utf8 := (Charset.eq_iff _ _).1 hu
        simp [Glyph.equalLoop, Glyph.ucharacter] at hg
        obtain ⟨h0, h1, h2⟩ := hg
        refine ⟨?_, hcs'⟩
        simp [Glyph.text, hu', ← hcs', h0, h1, h2]
      · rename_i hu
        have hu' : a.glyph.cs ≠ .utf8 := fun hc => hu ((Charset.eq_iff _ _).2 hc)
        simp [Glyph.character] at hg
        refine ⟨?_, hcs'⟩
        have hb : b.glyph.cs ≠ .utf8 := hcs' ▸ hu'
        simp [Glyph.text, hu', hb, hg]
    · exact absurd hg (by simp)
  simp [cellOf, hattr, htext.1, htext.2]

theorem Element.eq_refl (a : Element) : Element.eq a a = true := Element.ops_lawful.laws.eq_refl a


/-- `print` without scrolling: the glyph goes into the cell under the cursor and nothing else changes -/
theorem VT.print_cells (vt : VT) (bs : List Byte) (hp : vt.pending = false)
    (hns : vt.cx + 1 < vt.w ∨ vt.wrap ≠ .immediate ∨ vt.cy + 1 < vt.h) :
    (vt.print bs).cells = setCell vt.cells vt.alt vt.cx vt.cy
        { bytes := bs, cs := if vt.utf8 then .utf8 else vt.g0, rend := vt.rend } ∧
    (vt.print bs).log = vt.log ++ [(vt.cx, vt.cy, { bytes := bs, cs := if vt.utf8 then .utf8 else vt.g0, rend := vt.rend })] := by
  refine ⟨?_, VT.print_log_at vt bs hp⟩
  simp only [VT.print, VT.resolvePending, hp, Bool.false_eq_true, if_false, VT.place, VT.advance]
  split
  · rfl
  · rename_i hlt
    cases hw : vt.wrap with
    | deferred => rfl
    | none => rfl
    | immediate =>
      rcases hns with h | h | h
      · exact absurd h hlt
      · exact absurd hw h
      · simp [VT.newline, h]

/-- move to `p`, write one element: where it lands, what the grid looks like afterwards -/
theorem place_one (beh : Behaviour) (s : TermState) (vt : VT) (hA : Agree s vt) (p : Point)
    (hp : 0 ≤ p.x ∧ p.x < s.size.width ∧ 0 ≤ p.y ∧ p.y < s.size.height) (e : Element) (hw : e.wf = true) :
    let r := run beh s [.moveCursor p, .writeElement e]
    let vt' := vt.feedAll r.2
    Agree r.1 vt' ∧ r.1.size = s.size ∧
    vt'.log = vt.log ++ [(p.x.toNat, p.y.toNat, cellOf e)] ∧
    vt'.alt = vt.alt ∧ vt'.wrap = vt.wrap ∧
    ((p.x.toNat + 1 < vt.w ∨ vt.wrap ≠ .immediate ∨ p.y.toNat + 1 < vt.h) →
      vt'.cells = setCell vt.cells vt.alt p.x.toNat p.y.toNat (cellOf e)) := by
  intro r vt'
  -- the move
  have hf1 := feed_moveCursor s vt hA p hp.1 hp.2.1 hp.2.2.1 hp.2.2.2
  have hA1 : Agree (step beh s (.moveCursor p)).1 (vt.feedAll (step beh s (.moveCursor p)).2) :=
    agree_moveCursor beh s vt hA p hp
  -- write_optional_default_attribute
  obtain ⟨hA2, hk2, _, hc2, hs2⟩ := agree_defaultAttr _ _ hA1
  generalize hs1 : (step beh s (.moveCursor p)).1 = s1 at *
  generalize hvt1 : vt.feedAll (step beh s (.moveCursor p)).2 = vt1 at *
  have hvt1' : vt1 = { vt with cx := p.x.toNat, cy := p.y.toNat, pending := false } := by
    rw [← hvt1]; simp only [step]; exact hf1
  have hs1c : s1.cursor = some p := by rw [← hs1]; rfl
  have hs1s : s1.size = s.size := by rw [← hs1]; rfl
  generalize hs2' : (defaultAttr s1).1 = s2 at *
  generalize hvt2 : vt1.feedAll (defaultAttr s1).2 = vt2 at *
  have hvt2' : ∃ rd, vt2 = { vt1 with rend := rd } := by
    rw [← hvt2]; unfold defaultAttr
    cases s1.last with
    | none => exact ⟨{}, VT.feed_sgr0 vt1 hA1.1.ground⟩
    | some l => exact ⟨vt1.rend, by cases vt1; rfl⟩
  obtain ⟨rd, hvt2'⟩ := hvt2'
  -- write_element
  obtain ⟨l, hl⟩ : ∃ l, s2.last = some l := by
    cases h : s2.last with
    | none => simp [h] at hk2
    | some l => exact ⟨l, rfl⟩
  obtain ⟨g0, u, hfeed, hagree⟩ := feed_rawElement_from beh vt2 l e hA2.1.ground (hA2.1.rend l hl)
    (by have := hA2.1.charset; simpa [hl] using this) hw
  have hout : (rawElement beh s2 e).2 = elementCtl beh (some l) e ++ e.glyph.payload := by simp [rawElement, hl]
  obtain ⟨hA3, _, _⟩ := agree_rawElement beh s2 vt2 e hA2 hw hk2
  have hr1 : r.1 = (rawElement beh s2 e).1 := by
    show (run beh s [.moveCursor p, .writeElement e]).1 = _
    simp only [run, step, ← hs2', ← hs1]
  have hr2 : vt' = vt2.feedAll (rawElement beh s2 e).2 := by
    show vt.feedAll (run beh s [.moveCursor p, .writeElement e]).2 = _
    simp only [run, step, List.append_nil, VT.feedAll_append, ← hvt2, ← hvt1, ← hs2', ← hs1]
  have hsz : (rawElement beh s2 e).1.size = s.size := by
    have : (rawElement beh s2 e).1.size = s2.size := by
      simp [rawElement, advanceCursor]; cases hc : s2.cursor <;> simp <;> (try split) <;> rfl
    rw [this, hs2, hs1s]
  generalize hvt3 : ({ vt2 with g0 := g0, utf8 := u, rend := rendOf e.attr } : VT) = vt3 at *
  have hcell : ({ bytes := e.glyph.text, cs := if vt3.utf8 then .utf8 else vt3.g0, rend := vt3.rend } : Cell) = cellOf e := by
    have e_rend : vt3.rend = rendOf e.attr := by subst hvt3; rfl
    simp only [cellOf, e_rend]
    by_cases hu : e.glyph.cs = .utf8 <;> simp_all [CharsetAgree]
  have h3cx : vt3.cx = p.x.toNat := by subst hvt3; subst hvt2'; subst hvt1'; rfl
  have h3cy : vt3.cy = p.y.toNat := by subst hvt3; subst hvt2'; subst hvt1'; rfl
  have h3p : vt3.pending = false := by subst hvt3; subst hvt2'; subst hvt1'; rfl
  have h3w : vt3.w = vt.w := by subst hvt3; subst hvt2'; subst hvt1'; rfl
  have h3h : vt3.h = vt.h := by subst hvt3; subst hvt2'; subst hvt1'; rfl
  have h3wrap : vt3.wrap = vt.wrap := by subst hvt3; subst hvt2'; subst hvt1'; rfl
  have h3alt : vt3.alt = vt.alt := by subst hvt3; subst hvt2'; subst hvt1'; rfl
  have h3log : vt3.log = vt.log := by subst hvt3; subst hvt2'; subst hvt1'; rfl
  have h3cells : vt3.cells = vt.cells := by subst hvt3; subst hvt2'; subst hvt1'; rfl
  rw [hr1, hr2, hout, hfeed]
  refine ⟨by rw [← hfeed, ← hout]; exact hA3, hsz, ?_, ?_, ?_, ?_⟩
  · rw [VT.print_log_at vt3 _ h3p, hcell, h3log, h3cx, h3cy]
  · rw [VT.print_alt, h3alt]
  · rw [VT.print_wrap, h3wrap]
  · intro hns
    have := (VT.print_cells vt3 e.glyph.text h3p (by rw [h3cx, h3cy, h3w, h3h, h3wrap]; exact hns)).1
    rw [this, hcell, h3cells, h3alt, h3cx, h3cy]

end Tpp
