import Tpp.Model.Canvas
/-!
Helper lemmas for C16 (canvas addressing, region iteration, resize).  No property statements here.
-/
namespace Tpp.Lemmas.Canvas
open Tpp

/-! ### row-major index arithmetic (`row * width + column`) -/

theorem idx_nonneg {W x y : Int} (hW : 0 ≤ W) (hx : 0 ≤ x) (hy : 0 ≤ y) : 0 ≤ y * W + x := by
  have := Int.mul_nonneg hy hW
  omega

theorem idx_lt {W H x y : Int} (hx0 : 0 ≤ x) (hx : x < W) (hy : y < H) : y * W + x < W * H := by
  have h1 : (y + 1) * W ≤ H * W := Int.mul_le_mul_of_nonneg_right (by omega) (by omega)
  rw [Int.add_mul, Int.one_mul, Int.mul_comm H W] at h1
  omega

/-- `(x, y) ↦ y*W + x` is injective on columns `0 ≤ x < W` (rows compared first) -/
theorem idx_inj {W x y x' y' : Int} (hx0 : 0 ≤ x) (hx : x < W) (hx0' : 0 ≤ x') (hx' : x' < W)
    (h : y * W + x = y' * W + x') : x = x' ∧ y = y' := by
  have key : ∀ a b p q : Int, a < b → p < W → 0 ≤ q → a * W + p ≠ b * W + q := by
    intro a b p q hab hpW hq heq
    have h1 : (a + 1) * W ≤ b * W := Int.mul_le_mul_of_nonneg_right (by omega) (by omega)
    rw [Int.add_mul, Int.one_mul] at h1
    omega
  have hy : y = y' := by
    by_cases h1 : y < y'
    · exact absurd h (key y y' x x' h1 hx hx0')
    · by_cases h2 : y' < y
      · exact absurd h.symm (key y' y x' x h2 hx' hx0)
      · omega
  subst hy
  exact ⟨by omega, rfl⟩

theorem wf_length {c : Canvas} (h : c.WF) : (c.grid.length : Int) = c.size.width * c.size.height := by
  obtain ⟨hw, hh, hl⟩ := h
  rw [hl, Int.natCast_mul, Int.toNat_of_nonneg hw, Int.toNat_of_nonneg hh]

theorem index_lt {c : Canvas} (h : c.WF) {x y : Int} (hx0 : 0 ≤ x) (hx : x < c.size.width)
    (hy0 : 0 ≤ y) (hy : y < c.size.height) : c.index x y < c.grid.length := by
  have h1 := wf_length h
  have h2 := idx_lt hx0 hx hy
  have h3 := idx_nonneg (W := c.size.width) (by omega) hx0 hy0
  unfold Canvas.index
  omega

theorem index_inj {c : Canvas} {x y x' y' : Int} (hx0 : 0 ≤ x) (hx : x < c.size.width) (hy0 : 0 ≤ y)
    (hx0' : 0 ≤ x') (hx' : x' < c.size.width) (hy0' : 0 ≤ y')
    (h : c.index x y = c.index x' y') : x = x' ∧ y = y' := by
  have h3 := idx_nonneg (W := c.size.width) (by omega) hx0 hy0
  have h4 := idx_nonneg (W := c.size.width) (by omega) hx0' hy0'
  unfold Canvas.index at h
  exact idx_inj hx0 hx hx0' hx' (by omega)

/-- the index in natural-number arithmetic -/
theorem index_nat {c : Canvas} {x y : Int} (hw : 0 ≤ c.size.width) (hx0 : 0 ≤ x) (hy0 : 0 ≤ y) :
    c.index x y = y.toNat * c.size.width.toNat + x.toNat := by
  unfold Canvas.index
  have h3 := idx_nonneg hw hx0 hy0
  have : ((y.toNat * c.size.width.toNat + x.toNat : Nat) : Int) = y * c.size.width + x := by
    rw [Int.natCast_add, Int.natCast_mul, Int.toNat_of_nonneg hw, Int.toNat_of_nonneg hx0, Int.toNat_of_nonneg hy0]
  omega

theorem getD_replicate_self {α : Type} (n k : Nat) (a : α) : (List.replicate n a).getD k a = a := by
  rw [List.getD_eq_getElem?_getD, List.getElem?_replicate]
  split <;> rfl

theorem getD_set_eq {α : Type} (l : List α) (i : Nat) (a d : α) (h : i < l.length) : (l.set i a).getD i d = a := by
  rw [List.getD_eq_getElem?_getD, List.getElem?_set]
  simp [h]

theorem getD_set_ne {α : Type} (l : List α) (i j : Nat) (a d : α) (h : i ≠ j) : (l.set i a).getD j d = l.getD j d := by
  rw [List.getD_eq_getElem?_getD, List.getD_eq_getElem?_getD, List.getElem?_set]
  simp [h]

/-! ### region enumeration -/

theorem mem_intRange {s n a : Int} : a ∈ intRange s n ↔ s ≤ a ∧ a < s + n := by
  unfold intRange
  rw [List.mem_map]
  constructor
  · rintro ⟨i, hi, rfl⟩
    rw [List.mem_range] at hi
    simp only [Int.ofNat_eq_natCast]
    omega
  · intro h
    refine ⟨(a - s).toNat, ?_, ?_⟩
    · rw [List.mem_range]; omega
    · simp only [Int.ofNat_eq_natCast]; omega

theorem pairwise_intRange (s n : Int) : List.Pairwise (· < ·) (intRange s n) := by
  unfold intRange
  rw [List.pairwise_map]
  exact List.pairwise_lt_range.imp (by intro a b h; simp only [Int.ofNat_eq_natCast]; omega)

theorem length_intRange (s n : Int) : (intRange s n).length = n.toNat := by
  simp [intRange]

theorem mem_regionCoords {r : Rectangle} {p : Int × Int} :
    p ∈ regionCoords r ↔
      (r.origin.x ≤ p.1 ∧ p.1 < r.origin.x + r.size.width) ∧ (r.origin.y ≤ p.2 ∧ p.2 < r.origin.y + r.size.height) := by
  unfold regionCoords
  rw [List.mem_flatMap]
  constructor
  · rintro ⟨row, hrow, hp⟩
    rw [List.mem_map] at hp
    obtain ⟨col, hcol, rfl⟩ := hp
    exact ⟨mem_intRange.mp hcol, mem_intRange.mp hrow⟩
  · rintro ⟨hc, hr⟩
    exact ⟨p.2, mem_intRange.mpr hr, List.mem_map.mpr ⟨p.1, mem_intRange.mpr hc, rfl⟩⟩

/-- strict row-major order on `(column, row)` pairs -/
def RowMajorLt (p q : Int × Int) : Prop := p.2 < q.2 ∨ (p.2 = q.2 ∧ p.1 < q.1)

theorem pairwise_regionCoords (r : Rectangle) : List.Pairwise RowMajorLt (regionCoords r) := by
  unfold regionCoords
  rw [List.pairwise_flatMap]
  constructor
  · intro row _
    rw [List.pairwise_map]
    exact (pairwise_intRange _ _).imp (by intro a b h; exact Or.inr ⟨rfl, h⟩)
  · refine (pairwise_intRange _ _).imp ?_
    intro a b hab x hx y hy
    rw [List.mem_map] at hx hy
    obtain ⟨_, _, rfl⟩ := hx
    obtain ⟨_, _, rfl⟩ := hy
    exact Or.inl hab

theorem RowMajorLt.ne {p q : Int × Int} (h : RowMajorLt p q) : p ≠ q := by
  intro e; subst e
  rcases h with h | ⟨_, h⟩ <;> omega

theorem nodup_regionCoords (r : Rectangle) : (regionCoords r).Nodup := by
  rw [List.nodup_iff_pairwise_ne]
  exact (pairwise_regionCoords r).imp RowMajorLt.ne

/-- the flatMap over rows, written over natural-number offsets -/
theorem regionCoords_eq_range (ox oy : Int) (w h : Nat) :
    regionCoords ⟨⟨ox, oy⟩, ⟨w, h⟩⟩ =
      (List.range (w * h)).map fun k => (ox + ((k % w : Nat) : Int), oy + ((k / w : Nat) : Int)) := by
  unfold regionCoords intRange
  simp only [Int.toNat_natCast, Int.ofNat_eq_natCast, List.flatMap_map, List.map_map]
  induction h with
  | zero => simp
  | succ h ih =>
    rw [List.range_succ, List.flatMap_append, ih, Nat.mul_succ, List.range_add, List.map_append]
    congr 1
    simp only [List.flatMap_cons, List.flatMap_nil, List.append_nil, List.map_map]
    apply List.map_congr_left
    intro c hc
    rw [List.mem_range] at hc
    have hw : 0 < w := by omega
    simp only [Function.comp]
    rw [Nat.mul_add_mod, Nat.mul_add_div hw, Nat.mod_eq_of_lt hc, Nat.div_eq_of_lt hc, Nat.add_zero]

/-! ### a fold of point updates -/

section fold
variable {α β : Type} (f : α → Nat) (v : α → β)

theorem fold_set_length (ps : List α) (g : List β) :
    (ps.foldl (fun g p => g.set (f p) (v p)) g).length = g.length := by
  induction ps generalizing g with
  | nil => rfl
  | cons p ps ih => rw [List.foldl_cons, ih, List.length_set]

theorem fold_set_miss (ps : List α) (g : List β) (k : Nat) (d : β) (h : ∀ p ∈ ps, f p ≠ k) :
    (ps.foldl (fun g p => g.set (f p) (v p)) g).getD k d = g.getD k d := by
  induction ps generalizing g with
  | nil => rfl
  | cons p ps ih =>
    rw [List.foldl_cons, ih _ (fun q hq => h q (List.mem_cons_of_mem _ hq)),
      getD_set_ne _ _ _ _ _ (h p List.mem_cons_self)]

theorem fold_set_hit (ps : List α) (g : List β) (k : Nat) (d e : β) (hk : k < g.length)
    (hex : ∃ p ∈ ps, f p = k) (hval : ∀ q ∈ ps, f q = k → v q = e) :
    (ps.foldl (fun g p => g.set (f p) (v p)) g).getD k d = e := by
  induction ps generalizing g with
  | nil => obtain ⟨p, hp, _⟩ := hex; cases hp
  | cons p ps ih =>
    rw [List.foldl_cons]
    by_cases h : ∃ q ∈ ps, f q = k
    · exact ih _ (by rw [List.length_set]; exact hk) h (fun q hq => hval q (List.mem_cons_of_mem _ hq))
    · have hmiss : ∀ q ∈ ps, f q ≠ k := fun q hq hf => h ⟨q, hq, hf⟩
      rw [fold_set_miss f v ps _ k d hmiss]
      obtain ⟨q, hq, hfq⟩ := hex
      rcases List.mem_cons.mp hq with rfl | hq'
      · rw [hfq, getD_set_eq _ _ _ _ hk]
        exact hval q List.mem_cons_self hfq
      · exact absurd hfq (hmiss q hq')
end fold

/-! ### resize -/

theorem resize_size (c : Canvas) (s : Extent) : (c.resize s).size = s := rfl

theorem resize_grid_length (c : Canvas) (s : Extent) :
    (c.resize s).grid.length = (s.width * s.height).toNat := by
  unfold Canvas.resize
  simp only
  rw [fold_set_length (fun p : Int × Int => (p.2 * s.width + p.1).toNat) (fun p => c.get p.1 p.2)]
  exact List.length_replicate

theorem resize_wf (c : Canvas) {s : Extent} (hw : 0 ≤ s.width) (hh : 0 ≤ s.height) : (c.resize s).WF := by
  refine ⟨hw, hh, ?_⟩
  rw [resize_grid_length, resize_size, Int.toNat_mul hw hh]

theorem resize_get (c : Canvas) {s : Extent} {x y : Int}
    (hx0 : 0 ≤ x) (hx : x < s.width) (hy0 : 0 ≤ y) (hy : y < s.height) :
    (c.resize s).get x y = if x < c.size.width ∧ y < c.size.height then c.get x y else {} := by
  have hidx0 := idx_nonneg (W := s.width) (by omega) hx0 hy0
  have hidxlt := idx_lt hx0 hx hy
  unfold Canvas.get
  rw [show (c.resize s).index x y = (y * s.width + x).toNat from rfl]
  unfold Canvas.resize
  simp only
  -- every visited coordinate pair that lands on our index is our coordinate pair
  have inj : ∀ q ∈ regionCoords ⟨⟨0, 0⟩, ⟨min s.width c.size.width, min s.height c.size.height⟩⟩,
      (q.2 * s.width + q.1).toNat = (y * s.width + x).toNat → q = (x, y) := by
    intro q hq hf
    have hm := mem_regionCoords.mp hq
    simp only at hm
    have hq0 := idx_nonneg (W := s.width) (x := q.1) (y := q.2) (by omega) (by omega) (by omega)
    have := idx_inj (W := s.width) (x := q.1) (y := q.2) (x' := x) (y' := y) (by omega) (by omega) hx0 hx (by omega)
    exact Prod.ext this.1 this.2
  by_cases hin : x < c.size.width ∧ y < c.size.height
  · rw [if_pos hin]
    apply fold_set_hit (fun p : Int × Int => (p.2 * s.width + p.1).toNat) (fun p => c.get p.1 p.2)
    · rw [List.length_replicate]; omega
    · refine ⟨(x, y), mem_regionCoords.mpr ?_, rfl⟩
      simp only
      omega
    · intro q hq hf
      rw [inj q hq hf]
      rfl
  · rw [if_neg hin]
    rw [fold_set_miss (fun p : Int × Int => (p.2 * s.width + p.1).toNat) (fun p => c.get p.1 p.2)]
    · exact getD_replicate_self _ _ _
    · intro q hq hf
      have := inj q hq hf
      subst this
      have hm := mem_regionCoords.mp hq
      simp only at hm
      omega

end Tpp.Lemmas.Canvas
