import Tpp.Lemmas.Input
/-!
Faithfulness of decoded control sequences to the input: a control sequence the decoder reports (without a private
marker) re-renders – introducer, parameters separated by `;`, final byte – to a contiguous piece of the bytes that
were actually fed.  Invariant over the scratch members, by induction over the stream.
-/
namespace Tpp
open Tpp.Ref

/-- bytes of the parameters collected so far: every completed argument followed by `;`, then the one in progress -/
def partialBody (args : List (List Byte)) (arg : List Byte) : List Byte := args.flatMap (· ++ [0x3B]) ++ arg

/-- parameters separated by `;`, then the final byte -/
def renderBody (c : CtrlSeq) : List Byte := (List.intersperse [0x3B] c.args).flatten ++ [c.command]

/-- the byte strings that spell the control sequence `c`: optional meta ESC, 7-bit introducer (or the 8-bit one for CSI /
    SS3), body -/
def renderings (c : CtrlSeq) : List (List Byte) :=
  let pre : List Byte := if c.metaFlag then [0x1B] else []
  ((if c.initiator = 0x5B then [[0x9B]] else if c.initiator = 0x4F then [[0x8F]] else []) ++ [[0x1B, c.initiator]]).map
    fun it => pre ++ it ++ renderBody c

theorem intersperse_flatten (args : List (List Byte)) (arg : List Byte) :
    (List.intersperse [0x3B] (args ++ [arg])).flatten = partialBody args arg := by
  induction args with
  | nil => simp [partialBody]
  | cons a as ih =>
    cases as with
    | nil => simp [partialBody, List.intersperse]
    | cons b bs =>
      simp only [List.cons_append, List.intersperse, partialBody, List.flatMap_cons] at ih ⊢
      simp only [List.flatten_cons, ih]
      simp [List.append_assoc]

/-- which introducer bytes are consistent with the scratch -/
def IntroOK (s : PState) (intro : List Byte) : Prop :=
  intro = (if s.metaFlag then [0x1B] else []) ++ [0x1B, s.initializer]
  ∨ (s.metaFlag = false ∧ s.initializer = 0x5B ∧ intro = [0x9B])
  ∨ (s.metaFlag = false ∧ s.initializer = 0x4F ∧ intro = [0x8F])

/-- the scratch members describe the tail of the bytes seen so far -/
def Faithful (seen : List Byte) (s : PState) : Prop :=
  match s.ctl with
  | .escape => s.extender = 0 ∧ s.args = [] ∧ s.arg = [] ∧
      ∃ pre, seen = pre ++ [0x1B] ∧ (s.metaFlag = true → ∃ pre', pre = pre' ++ [0x1B])
  | .arguments => s.extender = 0 → ∃ pre intro, seen = pre ++ intro ++ partialBody s.args s.arg ∧ IntroOK s intro
  | _ => True

theorem isExt_ne_zero (b : Byte) (h : isExt b = true) : b ≠ 0 := by
  have : ∀ b : Byte, isExt b = true → b ≠ 0 := by decide +kernel
  exact this b h

theorem faithful_idle (seen : List Byte) (s : PState) (h : s.ctl = .idle ∨ s.ctl = .cr ∨ s.ctl = .lf) : Faithful seen s := by
  unfold Faithful; rcases h with h | h | h <;> simp [h]

/-- `parse_idle` from any scratch: the new state is faithful to the bytes seen -/
theorem faithful_parseIdle (seen : List Byte) (s : PState) (b : Byte) (hs : s.ctl = .idle) :
    Faithful (seen ++ [b]) (parseIdle s b).1 ∧ ∀ c, (parseIdle s b).2 ≠ some (.ctrl c) := by
  rw [parseIdle_eq]
  by_cases h1 : b = 0x1B
  · subst h1
    simp only [if_true]
    refine ⟨?_, by simp⟩
    simp only [Faithful, PState.reset]
    refine ⟨?_, ?_, ?_, seen, rfl, by simp⟩ <;> first | rfl | trivial
  · simp only [h1, if_false]
    by_cases h2 : b = 0x0D
    · simp only [h2, if_true]; exact ⟨by simp [Faithful], by simp⟩
    · simp only [h2, if_false]
      by_cases h3 : b = 0x0A
      · simp only [h3, if_true]; exact ⟨by simp [Faithful], by simp⟩
      · simp only [h3, if_false]
        by_cases h4 : b = 0x9B
        · subst h4
          simp only [if_true]
          refine ⟨?_, by simp⟩
          simp only [Faithful, PState.reset]
          intro _
          exact ⟨seen, [0x9B], by simp [partialBody], Or.inr (Or.inl ⟨rfl, rfl, rfl⟩)⟩
        · simp only [h4, if_false]
          by_cases h5 : b = 0x8F
          · subst h5
            simp only [if_true]
            refine ⟨?_, by simp⟩
            simp only [Faithful, PState.reset]
            intro _
            exact ⟨seen, [0x8F], by simp [partialBody], Or.inr (Or.inr ⟨rfl, rfl, rfl⟩)⟩
          · simp only [h5, if_false]
            refine ⟨?_, by simp⟩
            simp [Faithful, hs]

/-- one byte: the invariant is kept, and a control sequence completed by this byte (one without a private marker)
    re-renders to a piece of the bytes seen -/
theorem faithful_feed (seen : List Byte) (s : PState) (b : Byte) (hF : Faithful seen s) :
    Faithful (seen ++ [b]) (s.feed b).1 ∧
    ∀ c, (s.feed b).2 = some (.ctrl c) → c.extender = 0 → ∃ r ∈ renderings c, r <:+: seen ++ [b] := by
  rw [feed_eq]
  cases hc : s.ctl with
  | idle =>
    simp only
    obtain ⟨h1, h2⟩ := faithful_parseIdle seen s b hc
    exact ⟨h1, fun c hcq => absurd hcq (h2 c)⟩
  | cr =>
    simp only
    split
    · exact ⟨by simp [Faithful], by simp⟩
    · obtain ⟨h1, h2⟩ := faithful_parseIdle seen { s with ctl := .idle } b rfl
      exact ⟨h1, fun c hcq => absurd hcq (h2 c)⟩
  | lf =>
    simp only
    split
    · exact ⟨by simp [Faithful], by simp⟩
    · obtain ⟨h1, h2⟩ := faithful_parseIdle seen { s with ctl := .idle } b rfl
      exact ⟨h1, fun c hcq => absurd hcq (h2 c)⟩
  | escape =>
    simp only [Faithful, hc] at hF
    obtain ⟨he, ha, hg, pre, hseen, hmeta⟩ := hF
    simp only
    by_cases hb : b = 0x1B
    · subst hb
      simp only [if_true]
      refine ⟨?_, by simp⟩
      simp only [Faithful, hc]
      exact ⟨he, ha, hg, seen, rfl, fun _ => ⟨pre, hseen⟩⟩
    · simp only [hb, if_false]
      refine ⟨?_, by simp⟩
      simp only [Faithful]
      intro _
      by_cases hm : s.metaFlag = true
      · obtain ⟨pre', hp⟩ := hmeta hm
        refine ⟨pre', [0x1B, 0x1B, b], ?_, Or.inl ?_⟩
        · simp [hseen, hp, ha, hg, partialBody]
        · simp [hm]
      · refine ⟨pre, [0x1B, b], ?_, Or.inl ?_⟩
        · simp [hseen, ha, hg, partialBody]
        · simp [hm]
  | arguments =>
    simp only [Faithful, hc] at hF
    simp only
    rw [parseArguments_eq]
    by_cases hd : isDigit b = true
    · simp only [hd, if_true]
      refine ⟨?_, by simp⟩
      simp only [Faithful, hc]
      intro he
      obtain ⟨pre, intro, hs, hi⟩ := hF he
      exact ⟨pre, intro, by simp [hs, partialBody, List.append_assoc], hi⟩
    · simp only [hd, if_false]
      by_cases hsemi : b = 0x3B
      · subst hsemi
        simp only [if_true]
        refine ⟨?_, by simp⟩
        simp only [Faithful, hc]
        intro he
        obtain ⟨pre, intro, hs, hi⟩ := hF he
        exact ⟨pre, intro, by simp [hs, partialBody, List.append_assoc], hi⟩
      · simp only [hsemi, if_false]
        by_cases hm : (b = 0x4D && s.initializer = 0x5B) = true
        · simp only [hm, if_true]
          exact ⟨by simp [Faithful], by simp⟩
        · simp only [hm, if_false]
          by_cases hx : isExt b = true
          · simp only [hx, if_true]
            refine ⟨?_, by simp⟩
            simp only [Faithful, hc]
            intro he
            exact absurd he (isExt_ne_zero b hx)
          · simp only [hx, if_false]
            refine ⟨by simp [Faithful], ?_⟩
            intro c hcq hext
            simp at hcq
            have hargs : c.args = s.args ++ [s.arg] := by rw [← hcq]
            have hcmd : c.command = b := by rw [← hcq]
            have hini : c.initiator = s.initializer := by rw [← hcq]
            have hmet : c.metaFlag = s.metaFlag := by rw [← hcq]
            have hex : c.extender = s.extender := by rw [← hcq]
            obtain ⟨pre, intro, hs, hi⟩ := hF (by rw [← hex]; exact hext)
            have hbody : renderBody c = partialBody s.args s.arg ++ [b] := by
              simp [renderBody, hargs, hcmd, intersperse_flatten]
            refine ⟨intro ++ (partialBody s.args s.arg ++ [b]), ?_, ⟨pre, [], by simp [hs, List.append_assoc]⟩⟩
            simp only [renderings, List.mem_map, hbody, hini, hmet]
            rcases hi with hi | ⟨h1, h2, h3⟩ | ⟨h1, h2, h3⟩
            · refine ⟨[0x1B, s.initializer], by simp, ?_⟩
              rw [hi]
            · refine ⟨[0x9B], by simp [h2], ?_⟩
              simp [h1, h3]
            · refine ⟨[0x8F], ?_, ?_⟩
              · simp [h2]
              · simp [h1, h3]
  | mouse0 => exact ⟨by simp [Faithful], by simp⟩
  | mouse1 => exact ⟨by simp [Faithful], by simp⟩
  | mouse2 => exact ⟨by simp [Faithful], by simp⟩

theorem infix_append_right {l r : List Byte} (t : List Byte) (h : r <:+: l) : r <:+: l ++ t := by
  obtain ⟨a, b, hab⟩ := h
  exact ⟨a, b ++ t, by simp [← hab, List.append_assoc]⟩

/-- every control sequence (without private marker) reported anywhere in a stream was spelled in the stream -/
theorem faithful_rawTokens (bs : List Byte) : ∀ (seen : List Byte) (s : PState), Faithful seen s →
    ∀ c, Token.ctrl c ∈ rawTokens bs s → c.extender = 0 → ∃ r ∈ renderings c, r <:+: seen ++ bs := by
  induction bs with
  | nil => intro seen s _ c hmem; simp [rawTokens] at hmem
  | cons b bs ih =>
    intro seen s hF c hmem hext
    obtain ⟨hF', hnow⟩ := faithful_feed seen s b hF
    simp only [rawTokens, List.mem_append] at hmem
    rcases hmem with h | h
    · cases ho : (s.feed b).2 with
      | none => simp [ho, optList] at h
      | some t =>
        simp [ho, optList] at h
        subst h
        obtain ⟨r, hr, hin⟩ := hnow c ho hext
        refine ⟨r, hr, ?_⟩
        have : seen ++ b :: bs = (seen ++ [b]) ++ bs := by simp
        rw [this]
        exact infix_append_right bs hin
    · have := ih (seen ++ [b]) _ hF' c h hext
      simpa using this

end Tpp
