import Tpp.Ref.Regions
/-!
The library and the reference terminal run together: every byte the library model emits is fed to
the terminal; a size change is an event that changes both (declared size = actual size).
Also the domain of the output-side properties (`Op.WF`, `Ev.WF`).
-/
namespace Tpp

inductive Ev
  | op (o : Op)
  /-- the terminal is resized (new contents, cursor, saved position and pending flag are the terminal's
      own choice) and the application declares the new size with `set_size` -/
  | resize (w h : Nat) (cells : Bool → Grid) (cx cy : Nat) (saved : Option (Nat × Nat)) (pending : Bool)

def Sys.step (beh : Behaviour) (st : TermState × VT) : Ev → TermState × VT
  | .op o => ((Tpp.step beh st.1 o).1, st.2.feedAll (Tpp.step beh st.1 o).2)
  | .resize w h cells cx cy saved pending =>
    ((Tpp.step beh st.1 (Op.setSize ⟨w, h⟩)).1, st.2.resize w h cells cx cy saved pending)

def Sys.run (beh : Behaviour) (st : TermState × VT) (evs : List Ev) : TermState × VT :=
  evs.foldl (Sys.step beh) st

theorem Sys.run_cons (beh : Behaviour) (st : TermState × VT) (ev : Ev) (evs : List Ev) :
    Sys.run beh st (ev :: evs) = Sys.run beh (Sys.step beh st ev) evs := rfl
theorem Sys.run_nil (beh : Behaviour) (st : TermState × VT) : Sys.run beh st [] = st := rfl

/-- domain of the output-side properties, relative to the library state (declared size, rendition known) -/
def Op.WF (s : TermState) : Op → Prop
  | .writeElement e => e.wf = true
  | .writeString es => ∀ e ∈ es, e.wf = true
  | .rawElement e => e.wf = true ∧ s.last.isSome = true   -- the bare manipulator on an unknown rendition is a misuse
  | .moveCursor p => 0 ≤ p.x ∧ p.x < s.size.width ∧ 0 ≤ p.y ∧ p.y < s.size.height
  | .setTitle t => titleClean t = true
  | .setSize _ => False                                   -- size changes are `Ev.resize`
  | .rawWrite _ => False                                  -- raw bytes bypass the encoder: outside these properties
  | _ => True

def Ev.WF (s : TermState) : Ev → Prop
  | .op o => o.WF s
  | .resize _ _ _ _ _ _ _ => True

/-- every event of a history is in the domain at the point where it happens -/
def RunWF (beh : Behaviour) : TermState × VT → List Ev → Prop
  | _, [] => True
  | st, ev :: evs => ev.WF st.1 ∧ RunWF beh (Sys.step beh st ev) evs

/-- "a terminal in an unknown state": anything, except that no control function is in progress,
    G0 is US-ASCII and UTF-8 mode is off (DESIGN §4 decision 2) -/
structure VT.Unknown (vt : VT) : Prop where
  ground : vt.ps = .ground
  ok : vt.malformed = false
  g0 : vt.g0 = .usAscii
  utf8 : vt.utf8 = false

end Tpp
