import Tpp.Model.Types
/-!
Which stored glyphs denote a character, and which bytes they denote – written from the definition of UTF-8
(RFC 3629, restricted to U+0000–U+FFFF = at most three bytes) and from the documented contract of
`terminalpp::glyph` ("a single byte in some character set, or one UTF-8 encoded code point"), NOT from the
comparison or output code of the library.
-/
namespace Tpp

/-- UTF-8 continuation byte `10xxxxxx` -/
def isContinuation (b : Byte) : Prop := 0x80 ≤ b ∧ b ≤ 0xBF
instance (b : Byte) : Decidable (isContinuation b) := by unfold isContinuation; infer_instance

/-- A stored glyph is *valid* when
    * its character set is not UTF-8 (then storage bytes 1 and 2 are unused and ARBITRARY), or
    * it is UTF-8 and the storage is a zero-padded well-formed encoding: one byte `< 0x80` then two zero bytes;
      or a lead `0xC2–0xDF`, a continuation byte and a zero byte; or a lead `0xE0–0xEF` and two continuation bytes. -/
def Glyph.Valid (g : Glyph) : Prop :=
  g.cs = .utf8 →
    (g.b0 < 0x80 ∧ g.b1 = 0 ∧ g.b2 = 0) ∨
    (0xC2 ≤ g.b0 ∧ g.b0 ≤ 0xDF ∧ isContinuation g.b1 ∧ g.b2 = 0) ∨
    (0xE0 ≤ g.b0 ∧ g.b0 ≤ 0xEF ∧ isContinuation g.b1 ∧ isContinuation g.b2)
instance (g : Glyph) : Decidable g.Valid := by unfold Glyph.Valid; infer_instance

/-- the bytes a valid glyph denotes (its length is determined by the lead byte) -/
def Glyph.printed (g : Glyph) : List Byte :=
  if g.cs = .utf8 then
    (if g.b0 < 0x80 then [g.b0] else if g.b0 ≤ 0xDF then [g.b0, g.b1] else [g.b0, g.b1, g.b2])
  else [g.b0]

end Tpp
