import Tpp.Ref.VT
import Tpp.Model.Types
/-!
Specification side: what a standard terminal should *show* for an element, and the domain the
output-side properties quantify over (graphic glyphs, constructible colours).  Nothing here looks at
the library's encoder.
-/
namespace Tpp

/-- the terminal colour an attribute colour denotes (xterm palette: 0–7 basic, 16–231 cube, 232–255 grey) -/
def vcol : Colour → VColour
  | .low v => if v = 9 then .dflt else .idx v.toNat
  | .high v => .idx v.toNat
  | .grey v => .idx v.toNat
  | .rgb r g b => .rgb r.toNat g.toNat b.toNat

/-- constructible colours: low 0–7 and 9 (default), high 16–231, greyscale 232–255, any true colour -/
def Colour.valid : Colour → Bool
  | .low v => v < 8 || v = 9
  | .high v => 16 ≤ v && v ≤ 231
  | .grey v => 232 ≤ v
  | .rgb _ _ _ => true

def Attr.valid (a : Attr) : Bool := a.fg.valid && a.bg.valid

/-- the rendition an attribute asks for -/
def rendOf (a : Attr) : Rend :=
  { bold := a.intensity = .bold, faint := a.intensity = .faint, ul := a.underlining = .underlined,
    blink := a.blinking = .blink, inv := a.polarity = .negative, fg := vcol a.fg, bg := vcol a.bg }

def isCont (b : Byte) : Bool := 0x80 ≤ b && b ≤ 0xBF

/-- graphic glyphs: for a non-UTF-8 set one byte in 0x20–0x7E or 0xA0–0xFF; for UTF-8 the zero-padded
    well-formed encoding of a code point in U+0020–U+FFFF outside U+007F–U+009F -/
def Glyph.graphic (g : Glyph) : Bool :=
  if g.cs = .utf8 then
    ((0x20 ≤ g.b0 && g.b0 ≤ 0x7E) && g.b1 = 0 && g.b2 = 0) ||
    ((0xC2 ≤ g.b0 && g.b0 ≤ 0xDF) && isCont g.b1 && g.b2 = 0) ||
    ((0xE0 ≤ g.b0 && g.b0 ≤ 0xEF) && isCont g.b1 && isCont g.b2)
  else isGraphic1 g.b0

/-- the bytes a glyph denotes (its text): one byte in a single-byte set; for UTF-8 the first byte and the
    following non-zero storage bytes -/
def Glyph.text (g : Glyph) : List Byte :=
  if g.cs = .utf8 then
    g.b0 :: (if g.b1 = 0 then [] else g.b1 :: (if g.b2 = 0 then [] else [g.b2]))
  else [g.b0]

/-- what the terminal should show for an element -/
def cellOf (e : Element) : Cell := { bytes := e.glyph.text, cs := e.glyph.cs, rend := rendOf e.attr }

def Element.wf (e : Element) : Bool := e.glyph.graphic && e.attr.valid

/-- the terminal's character-set state lets a glyph of set `cs` through unchanged -/
def CharsetAgree (cs : Charset) (vt : VT) : Prop :=
  if cs = .utf8 then vt.utf8 = true else (vt.utf8 = false ∧ vt.g0 = cs)

instance (cs : Charset) (vt : VT) : Decidable (CharsetAgree cs vt) := by
  unfold CharsetAgree; exact inferInstance

end Tpp
