import Tpp.Ref.Designators
/-!
# The reference terminal

A deterministic byte-level interpreter of the ECMA-48 / VT / xterm subset that terminalpp can emit,
written from the standards (ECMA-48 §5.4 control-sequence syntax, §8.3 CUP/CHA/CUU/CUD/ED/EL/SGR,
xterm `ctlseqs` for SCS, `ESC % G`/`ESC % @`, DEC private modes 25/47/1000/1003, SCOSC/SCORC, OSC 2),
not from the library.  It is the oracle of every output-side property: theorems relate the library
model to it, and the check feeds it the real library's bytes.

Configuration (quantified over by the theorems): size, end-of-line behaviour, erase behaviour.
Modelling decisions that can change a verdict are listed in DESIGN.md §4.
-/
namespace Tpp

inductive VColour | dflt | idx (n : Nat) | rgb (r g b : Nat)
deriving DecidableEq, Repr, Inhabited

/-- graphic rendition: bold and faint are separate flags (SGR 22 clears both) -/
structure Rend where
  bold : Bool := false
  faint : Bool := false
  ul : Bool := false
  blink : Bool := false
  inv : Bool := false
  fg : VColour := .dflt
  bg : VColour := .dflt
deriving DecidableEq, Repr, Inhabited

structure Cell where
  bytes : List Byte
  cs : Charset
  rend : Rend
deriving DecidableEq, Repr, Inhabited

/-- a blank with default rendition -/
def Cell.blank : Cell := { bytes := [0x20], cs := .usAscii, rend := {} }

inductive Wrap | deferred | immediate | none deriving DecidableEq, Repr, Inhabited
/-- what an erased cell looks like: default rendition, current background only (bce), whole current rendition -/
inductive EraseMode | plain | bce | current deriving DecidableEq, Repr, Inhabited

inductive PS where
  | ground
  | esc
  | escPct
  | scs
  | scsPct
  | csi (priv : Option Byte) (params : List Nat) (cur : Option Nat)
  | osc (buf : List Byte)
  | oscEsc (buf : List Byte)
  | u8 (need : Nat) (acc : List Byte)
deriving DecidableEq, Repr, Inhabited

abbrev Grid := Nat → Nat → Cell

structure VT where
  w : Nat
  h : Nat
  wrap : Wrap
  eraseMode : EraseMode
  cx : Nat
  cy : Nat
  pending : Bool
  rend : Rend
  g0 : Charset
  utf8 : Bool
  cursorVisible : Bool
  mouse1000 : Bool
  mouse1003 : Bool
  alt : Bool
  title : List Byte
  saved : Option (Nat × Nat)
  ps : PS
  malformed : Bool
  /-- append-only history of printed glyphs: position and cell, newest last -/
  log : List (Nat × Nat × Cell)
  /-- cell contents per buffer (`false` = normal, `true` = alternate) -/
  cells : Bool → Grid

/-- the visible grid -/
def VT.cell (vt : VT) (x y : Nat) : Cell := vt.cells vt.alt x y

def applySGR : Rend → List Nat → Rend
  | r, [] => r
  | _, 0 :: ps => applySGR {} ps
  | r, 1 :: ps => applySGR { r with bold := true } ps
  | r, 2 :: ps => applySGR { r with faint := true } ps
  | r, 22 :: ps => applySGR { r with bold := false, faint := false } ps
  | r, 4 :: ps => applySGR { r with ul := true } ps
  | r, 24 :: ps => applySGR { r with ul := false } ps
  | r, 5 :: ps => applySGR { r with blink := true } ps
  | r, 25 :: ps => applySGR { r with blink := false } ps
  | r, 7 :: ps => applySGR { r with inv := true } ps
  | r, 27 :: ps => applySGR { r with inv := false } ps
  | r, 38 :: 5 :: n :: ps => applySGR { r with fg := .idx n } ps
  | r, 38 :: 2 :: a :: b :: c :: ps => applySGR { r with fg := .rgb a b c } ps
  | r, 48 :: 5 :: n :: ps => applySGR { r with bg := .idx n } ps
  | r, 48 :: 2 :: a :: b :: c :: ps => applySGR { r with bg := .rgb a b c } ps
  | r, 39 :: ps => applySGR { r with fg := .dflt } ps
  | r, 49 :: ps => applySGR { r with bg := .dflt } ps
  | r, p :: ps =>
      if 30 ≤ p ∧ p ≤ 37 then applySGR { r with fg := .idx (p - 30) } ps
      else if 40 ≤ p ∧ p ≤ 47 then applySGR { r with bg := .idx (p - 40) } ps
      else applySGR r ps

def setCell (g : Bool → Grid) (buf : Bool) (x y : Nat) (c : Cell) : Bool → Grid :=
  fun b x' y' => if b = buf ∧ x' = x ∧ y' = y then c else g b x' y'

/-- what an erase (or a scrolled-in line) leaves behind -/
def VT.erasedCell (vt : VT) : Cell :=
  match vt.eraseMode with
  | .plain => Cell.blank
  | .bce => { Cell.blank with rend := { bg := vt.rend.bg } }
  | .current => { Cell.blank with rend := vt.rend }

/-- scroll the active buffer up by one line -/
def VT.scrollUp (vt : VT) : VT :=
  let fill := vt.erasedCell
  { vt with cells := fun b x y =>
      if b = vt.alt then (if y + 1 < vt.h then vt.cells b x (y + 1) else fill) else vt.cells b x y }

/-- carriage return + line feed, scrolling at the bottom row -/
def VT.newline (vt : VT) : VT :=
  if vt.cy + 1 < vt.h then { vt with cx := 0, cy := vt.cy + 1, pending := false }
  else { vt.scrollUp with cx := 0, pending := false }

/-- a pending wrap is resolved before the next glyph is placed -/
def VT.resolvePending (vt : VT) : VT := if vt.pending then vt.newline else vt

/-- put a glyph into the cell under the cursor and record it in the log -/
def VT.place (vt : VT) (bytes : List Byte) : VT :=
  let cell : Cell := { bytes := bytes, cs := if vt.utf8 then .utf8 else vt.g0, rend := vt.rend }
  { vt with log := vt.log ++ [(vt.cx, vt.cy, cell)], cells := setCell vt.cells vt.alt vt.cx vt.cy cell }

/-- move on after a glyph according to the end-of-line behaviour -/
def VT.advance (vt : VT) : VT :=
  if vt.cx + 1 < vt.w then { vt with cx := vt.cx + 1 }
  else match vt.wrap with
    | .deferred => { vt with pending := true }
    | .immediate => vt.newline
    | .none => vt

/-- place a glyph at the cursor, then advance according to the end-of-line behaviour -/
def VT.print (vt : VT) (bytes : List Byte) : VT := ((vt.resolvePending).place bytes).advance

/-- CSI parameter `i` with default (an absent or zero parameter takes the default) -/
def VT.param (ps : List Nat) (i : Nat) (dflt : Nat) : Nat :=
  match ps[i]? with
  | some 0 => dflt
  | some n => n
  | none => dflt

inductive EraseKindV | toEnd | toStart | all deriving DecidableEq, Repr

def eraseSel (ps : List Nat) : Option EraseKindV :=
  match ps with
  | [] => some .toEnd
  | [0] => some .toEnd
  | [1] => some .toStart
  | [2] => some .all
  | _ => none

/-- ED region predicate relative to the cursor (row-major) -/
def inDisplayRegion (k : EraseKindV) (cx cy x y : Nat) : Bool :=
  match k with
  | .toEnd => decide (y > cy) || (decide (y = cy) && decide (x ≥ cx))
  | .toStart => decide (y < cy) || (decide (y = cy) && decide (x ≤ cx))
  | .all => true
/-- EL region predicate -/
def inLineRegion (k : EraseKindV) (cx cy x y : Nat) : Bool :=
  decide (y = cy) && (match k with
  | .toEnd => decide (x ≥ cx)
  | .toStart => decide (x ≤ cx)
  | .all => true)

def VT.eraseWhere (vt : VT) (p : Nat → Nat → Bool) : VT :=
  let fill := vt.erasedCell
  { vt with cells := fun b x y => if b = vt.alt ∧ p x y = true then fill else vt.cells b x y }

def VT.setMode (vt : VT) (on : Bool) (n : Nat) : VT :=
  if n = 25 then { vt with cursorVisible := on }
  else if n = 47 then { vt with alt := on }
  else if n = 1000 then { vt with mouse1000 := on }
  else if n = 1003 then { vt with mouse1003 := on }
  else vt

def VT.dispatch (vt : VT) (priv : Option Byte) (ps : List Nat) (fin : Byte) : VT :=
  let vt := { vt with ps := .ground }
  match priv, fin with
  | none, 0x6D /- m -/ => { vt with rend := applySGR vt.rend (if ps.isEmpty then [0] else ps) }
  | none, 0x47 /- G -/ => { vt with cx := min (VT.param ps 0 1 - 1) (vt.w - 1), pending := false }
  | none, 0x41 /- A -/ => { vt with cy := vt.cy - VT.param ps 0 1, pending := false }
  | none, 0x42 /- B -/ => { vt with cy := min (vt.cy + VT.param ps 0 1) (vt.h - 1), pending := false }
  | none, 0x48 /- H -/ => { vt with cy := min (VT.param ps 0 1 - 1) (vt.h - 1),
                                    cx := min (VT.param ps 1 1 - 1) (vt.w - 1), pending := false }
  | none, 0x4A /- J -/ =>
      match eraseSel ps with
      | some k => vt.eraseWhere (inDisplayRegion k vt.cx vt.cy)
      | none => vt
  | none, 0x4B /- K -/ =>
      match eraseSel ps with
      | some k => vt.eraseWhere (inLineRegion k vt.cx vt.cy)
      | none => vt
  | none, 0x73 /- s -/ => { vt with saved := some (vt.cx, vt.cy) }
  | none, 0x75 /- u -/ =>
      match vt.saved with
      | some (x, y) => { vt with cx := x, cy := y, pending := false }
      | none => { vt with cx := 0, cy := 0, pending := false }
  | some 0x3F, 0x68 /- ?h -/ => ps.foldl (fun v n => v.setMode true n) vt
  | some 0x3F, 0x6C /- ?l -/ => ps.foldl (fun v n => v.setMode false n) vt
  | _, _ => vt

/-- OSC payload handling: `2;text` and `0;text` set the window title -/
def VT.oscDone (vt : VT) (buf : List Byte) : VT :=
  match buf with
  | 0x32 :: 0x3B :: t => { vt with ps := .ground, title := t }
  | 0x30 :: 0x3B :: t => { vt with ps := .ground, title := t }
  | _ => { vt with ps := .ground }

def isGraphic1 (b : Byte) : Bool := (0x20 ≤ b && b ≤ 0x7E) || 0xA0 ≤ b

def VT.feed (vt : VT) (b : Byte) : VT :=
  match vt.ps with
  | .ground =>
    if b = 0x1B then { vt with ps := .esc }
    else if vt.utf8 then
      if b < 0x80 then (if 0x20 ≤ b && b ≤ 0x7E then vt.print [b] else { vt with malformed := true })
      else if 0xC2 ≤ b && b ≤ 0xDF then { vt with ps := .u8 1 [b] }
      else if 0xE0 ≤ b && b ≤ 0xEF then { vt with ps := .u8 2 [b] }
      else { vt with malformed := true }
    else if isGraphic1 b then vt.print [b] else { vt with malformed := true }
  | .u8 need acc =>
    if 0x80 ≤ b && b ≤ 0xBF then
      (if need = 1 then ({ vt with ps := .ground }).print (acc ++ [b]) else { vt with ps := .u8 (need - 1) (acc ++ [b]) })
    else { vt with ps := .ground, malformed := true }
  | .esc =>
    if b = 0x5B then { vt with ps := .csi none [] none }
    else if b = 0x5D then { vt with ps := .osc [] }
    else if b = 0x28 then { vt with ps := .scs }
    else if b = 0x25 then { vt with ps := .escPct }
    else { vt with ps := .ground, malformed := true }
  | .escPct =>
    if b = 0x47 then { vt with ps := .ground, utf8 := true }
    else if b = 0x40 then { vt with ps := .ground, utf8 := false }
    else { vt with ps := .ground, malformed := true }
  | .scs =>
    if b = 0x25 then { vt with ps := .scsPct }
    else match Ref.scsLookup [b] with
      | some cs => { vt with ps := .ground, g0 := cs }
      | none => { vt with ps := .ground, malformed := true }
  | .scsPct =>
    match Ref.scsLookup [0x25, b] with
      | some cs => { vt with ps := .ground, g0 := cs }
      | none => { vt with ps := .ground, malformed := true }
  | .csi priv params cur =>
    if isDigit b then { vt with ps := .csi priv params (some ((cur.getD 0) * 10 + digitVal b)) }
    else if b = 0x3B then { vt with ps := .csi priv (params ++ [cur.getD 0]) none }
    else if b = 0x3F then { vt with ps := .csi (some b) params cur }
    else if 0x40 ≤ b && b ≤ 0x7E then
      vt.dispatch priv (match cur with | some c => params ++ [c] | none => if params.isEmpty then [] else params ++ [0]) b
    else { vt with ps := .ground, malformed := true }
  | .osc buf =>
    if b = 0x07 then vt.oscDone buf
    else if b = 0x1B then { vt with ps := .oscEsc buf }
    else { vt with ps := .osc (buf ++ [b]) }
  | .oscEsc buf =>
    if b = 0x5C then vt.oscDone buf else { vt with ps := .ground, malformed := true }

def VT.feedAll (vt : VT) (bs : List Byte) : VT := bs.foldl VT.feed vt

@[simp] theorem VT.feedAll_nil (vt : VT) : vt.feedAll [] = vt := rfl
@[simp] theorem VT.feedAll_cons (vt : VT) (b : Byte) (bs : List Byte) : vt.feedAll (b :: bs) = (vt.feed b).feedAll bs := rfl
theorem VT.feedAll_append (vt : VT) (xs ys : List Byte) : vt.feedAll (xs ++ ys) = (vt.feedAll xs).feedAll ys := by
  simp [VT.feedAll, List.foldl_append]

/-- a size change is an event, not bytes: the new contents, cursor, saved position and pending flag are
    whatever the terminal chooses (all universally quantified in the theorems) -/
def VT.resize (vt : VT) (w h : Nat) (cells : Bool → Grid) (cx cy : Nat) (saved : Option (Nat × Nat)) (pending : Bool) : VT :=
  { vt with w := w, h := h, cells := cells, cx := cx, cy := cy, saved := saved, pending := pending }

end Tpp
