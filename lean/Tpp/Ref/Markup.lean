import Tpp.Model.Types
import Tpp.Ref.Designators
/-!
Specification side of the attribute-markup language ("String To Elements protocol"), written from the
documented language, not from the decoder's handler code:

```
\\            literal backslash              \x            reset: all attributes back to default
\Cnnn         character code nnn (decimal)   \Uxxxx        Unicode code point xxxx (hex), stored as UTF-8
\c<d> \c%<d>  character set by SCS designator (unknown designators are ignored)
\i> \i< \i=   intensity bold / faint / normal
\p+ \p-       polarity positive / negative   \u+ \u-       underlined / not underlined
\[d  \]d      low colour d (ANSI colour number)              foreground / background
\<rgb \>rgb   high colour, components 0..5   = palette index 16 + 36 r + 6 g + b
\{nn \}nn     greyscale 00..23               = palette index 232 + nn
\(rrggbb \)rrggbb   true colour, hex digits in either case
```
Directives persist from element to element until changed.  A glyph given as `\U` is a UTF-8 glyph; the
element after it starts again in US-ASCII (a UTF-8 "character set" cannot be designated, so it does not
persist) – `canonical` compensates by re-issuing the character set.

The values an element is compared by are the *meaningful* ones: for a non-UTF-8 glyph one byte and the
character set; `denote` yields elements whose unused glyph storage is zero.
-/
namespace Tpp.Ref
open Tpp

/-- one hexadecimal digit as written: its value and, for a–f, the letter case -/
structure Hex where
  v : Fin 16
  upper : Bool
deriving DecidableEq, Repr

def Hex.print (h : Hex) : Byte :=
  if h.v.val < 10 then UInt8.ofNat (0x30 + h.v.val)
  else if h.upper then UInt8.ofNat (0x41 + (h.v.val - 10))
  else UInt8.ofNat (0x61 + (h.v.val - 10))

/-- the byte written by two hex digits -/
def hexByte (hi lo : Hex) : Byte := UInt8.ofNat (16 * hi.v.val + lo.v.val)

def decDigit (n : Nat) : Byte := UInt8.ofNat (0x30 + n % 10)

inductive Layer | fg | bg deriving DecidableEq, Repr

/-- every standard SCS designator (xterm ctlseqs / VT220–VT320, plus `U`), aliases included -/
def designators : List (List Byte) :=
  [[0x30], [0x3C], [0x25, 0x35], [0x3E], [0x41], [0x42], [0x34], [0x43], [0x35], [0x52], [0x66], [0x51],
   [0x39], [0x4B], [0x59], [0x60], [0x45], [0x36], [0x25, 0x36], [0x5A], [0x48], [0x37], [0x3D], [0x55]]

abbrev Designator := Fin 24
def designatorBytes (d : Designator) : List Byte := designators.getD d.val []

inductive Directive
  | charset (d : Designator)
  | intensity (i : Intensity)
  | polarity (p : Polarity)
  | underlining (u : Underlining)
  | low (l : Layer) (d : Fin 10)
  | high (l : Layer) (r g b : Fin 6)
  | grey (l : Layer) (n : Fin 24)
  | rgb (l : Layer) (r1 r0 g1 g0 b1 b0 : Hex)
  | reset
deriving DecidableEq, Repr

/-- how the glyph of an element is written -/
inductive GlyphSp
  | lit (b : Byte)                 -- the byte itself; a backslash is written `\\`
  | code (b : Byte)                -- `\Cnnn`
  | uni (h3 h2 h1 h0 : Hex)        -- `\Uxxxx`
deriving DecidableEq, Repr

/-- one element as written: any directives (any order, any redundancy), then the glyph -/
structure Spelling where
  directives : List Directive
  glyph : GlyphSp
deriving DecidableEq, Repr

def bs : Byte := 0x5C

def Directive.print : Directive → List Byte
  | .charset d => [bs, 0x63] ++ designatorBytes d
  | .intensity .bold => [bs, 0x69, 0x3E]
  | .intensity .faint => [bs, 0x69, 0x3C]
  | .intensity .normal => [bs, 0x69, 0x3D]
  | .polarity .positive => [bs, 0x70, 0x2B]
  | .polarity .negative => [bs, 0x70, 0x2D]
  | .underlining .underlined => [bs, 0x75, 0x2B]
  | .underlining .notUnderlined => [bs, 0x75, 0x2D]
  | .low .fg d => [bs, 0x5B, decDigit d.val]
  | .low .bg d => [bs, 0x5D, decDigit d.val]
  | .high .fg r g b => [bs, 0x3C, decDigit r.val, decDigit g.val, decDigit b.val]
  | .high .bg r g b => [bs, 0x3E, decDigit r.val, decDigit g.val, decDigit b.val]
  | .grey .fg n => [bs, 0x7B, decDigit (n.val / 10), decDigit n.val]
  | .grey .bg n => [bs, 0x7D, decDigit (n.val / 10), decDigit n.val]
  | .rgb .fg r1 r0 g1 g0 b1 b0 => [bs, 0x28, r1.print, r0.print, g1.print, g0.print, b1.print, b0.print]
  | .rgb .bg r1 r0 g1 g0 b1 b0 => [bs, 0x29, r1.print, r0.print, g1.print, g0.print, b1.print, b0.print]
  | .reset => [bs, 0x78]

def GlyphSp.print : GlyphSp → List Byte
  | .lit b => if b = bs then [bs, bs] else [b]
  | .code b => [bs, 0x43, decDigit (b.toNat / 100), decDigit (b.toNat / 10), decDigit b.toNat]
  | .uni h3 h2 h1 h0 => [bs, 0x55, h3.print, h2.print, h1.print, h0.print]

def Spelling.print (sp : Spelling) : List Byte := sp.directives.flatMap Directive.print ++ sp.glyph.print

/-- UTF-8 (RFC 3629 §3) for U+0000–U+FFFF:
    `0xxxxxxx` | `110xxxxx 10xxxxxx` | `1110xxxx 10xxxxxx 10xxxxxx`.
    (Total on the whole 16-bit range: the surrogate block is encoded like any other value.) -/
def utf8 (v : Nat) : List Byte :=
  if v < 0x80 then [UInt8.ofNat v]
  else if v < 0x800 then [UInt8.ofNat (0xC0 + v / 64), UInt8.ofNat (0x80 + v % 64)]
  else [UInt8.ofNat (0xE0 + v / 4096), UInt8.ofNat (0x80 + v / 64 % 64), UInt8.ofNat (0x80 + v % 64)]

/-- a UTF-8 glyph: the encoding, zero padded to the three storage bytes -/
def utf8GlyphOf (v : Nat) : Glyph :=
  let t := utf8 v
  { b0 := t.getD 0 0, b1 := t.getD 1 0, b2 := t.getD 2 0, cs := .utf8 }

def codePointOf (h3 h2 h1 h0 : Hex) : Nat := 4096 * h3.v.val + 256 * h2.v.val + 16 * h1.v.val + h0.v.val

def setColour (l : Layer) (c : Colour) (e : Element) : Element :=
  match l with
  | .fg => { e with attr := { e.attr with fg := c } }
  | .bg => { e with attr := { e.attr with bg := c } }

/-- the effect of one directive on the element under construction -/
def Directive.apply (e : Element) : Directive → Element
  | .charset d =>
    match scsLookup (designatorBytes d) with
    | some cs => { e with glyph := { e.glyph with cs := cs } }
    | none => e
  | .intensity i => { e with attr := { e.attr with intensity := i } }
  | .polarity p => { e with attr := { e.attr with polarity := p } }
  | .underlining u => { e with attr := { e.attr with underlining := u } }
  | .low l d => setColour l (.low (UInt8.ofNat d.val)) e
  | .high l r g b => setColour l (.high (UInt8.ofNat (16 + 36 * r.val + 6 * g.val + b.val))) e
  | .grey l n => setColour l (.grey (UInt8.ofNat (232 + n.val))) e
  | .rgb l r1 r0 g1 g0 b1 b0 => setColour l (.rgb (hexByte r1 r0) (hexByte g1 g0) (hexByte b1 b0)) e
  | .reset => { e with attr := {} }

def GlyphSp.apply (e : Element) : GlyphSp → Element
  | .lit b => { e with glyph := { b0 := b, b1 := 0, b2 := 0, cs := e.glyph.cs } }
  | .code b => { e with glyph := { b0 := b, b1 := 0, b2 := 0, cs := e.glyph.cs } }
  | .uni h3 h2 h1 h0 => { e with glyph := utf8GlyphOf (codePointOf h3 h2 h1 h0) }

/-- what the next element starts from: the previous element's attributes and character set (US-ASCII
    after a UTF-8 element), a blank glyph -/
def startFrom (prev : Element) : Element :=
  { glyph := { b0 := 0x20, b1 := 0, b2 := 0, cs := if prev.glyph.cs = .utf8 then .usAscii else prev.glyph.cs },
    attr := prev.attr }

/-- the element a spelling denotes after `prev` -/
def denote (sp : Spelling) (prev : Element) : Element :=
  sp.glyph.apply (sp.directives.foldl Directive.apply (startFrom prev))

def denoteFrom : List Spelling → Element → List Element
  | [], _ => []
  | sp :: r, prev => let e := denote sp prev; e :: denoteFrom r e

/-- the element string a markup text (list of spellings) denotes -/
def denoteAll (sps : List Spelling) : List Element := denoteFrom sps {}

/-- the meaningful value of an element – what the library's `==` compares and what is sent to a terminal:
    the storage bytes a non-UTF-8 glyph does not use are zeroed -/
def normGlyph (g : Glyph) : Glyph := if g.cs = .utf8 then g else { g with b1 := 0, b2 := 0 }
def norm (e : Element) : Element := { e with glyph := normGlyph e.glyph }

/-- text without markup: every byte is one default-attribute US-ASCII element -/
def plainElement (b : Byte) : Element := { glyph := { b0 := b, b1 := 0, b2 := 0, cs := .usAscii }, attr := {} }

/-! ### Expressible elements and their canonical markup -/

def constructible : Colour → Bool
  | .low v => v.toNat ≤ 7 || v.toNat = 9
  | .high v => 16 ≤ v.toNat && v.toNat ≤ 231
  | .grey v => 232 ≤ v.toNat
  | .rgb _ _ _ => true

/-- the code point a (well-formed) UTF-8 glyph encodes -/
def codePoint (g : Glyph) : Nat :=
  if g.b0.toNat < 0x80 then g.b0.toNat
  else if g.b0.toNat < 0xE0 then (g.b0.toNat - 0xC0) * 64 + (g.b1.toNat - 0x80)
  else (g.b0.toNat - 0xE0) * 4096 + (g.b1.toNat - 0x80) * 64 + (g.b2.toNat - 0x80)

def expressibleGlyph (g : Glyph) : Bool :=
  if g.cs = .utf8 then decide (codePoint g < 65536) && decide (utf8GlyphOf (codePoint g) = g) else true

/-- steady blink; constructible colours; any byte in a designatable character set, or the UTF-8 encoding
    of a code point up to U+FFFF -/
def expressible (e : Element) : Bool :=
  decide (e.attr.blinking = .steady) && constructible e.attr.fg && constructible e.attr.bg && expressibleGlyph e.glyph

def Expressible (es : List Element) : Prop := ∀ e ∈ es, expressible e = true

def hexOf (n : Nat) : Hex := { v := ⟨n % 16, Nat.mod_lt _ (by decide)⟩, upper := true }

def colourDirective (l : Layer) : Colour → Directive
  | .low v => .low l ⟨v.toNat % 10, Nat.mod_lt _ (by decide)⟩
  | .high v =>
    let n := v.toNat - 16
    .high l ⟨n / 36 % 6, Nat.mod_lt _ (by decide)⟩ ⟨n / 6 % 6, Nat.mod_lt _ (by decide)⟩ ⟨n % 6, Nat.mod_lt _ (by decide)⟩
  | .grey v => .grey l ⟨(v.toNat - 232) % 24, Nat.mod_lt _ (by decide)⟩
  | .rgb r g b =>
    .rgb l (hexOf (r.toNat / 16)) (hexOf r.toNat) (hexOf (g.toNat / 16)) (hexOf g.toNat)
      (hexOf (b.toNat / 16)) (hexOf b.toNat)

/-- index of the primary designator of a set in `designators` -/
def primaryIndex (cs : Charset) : Designator :=
  ⟨designators.idxOf (primaryDesignator cs) % 24, Nat.mod_lt _ (by decide)⟩

def glyphSpelling (g : Glyph) : GlyphSp :=
  if g.cs = .utf8 then
    let v := codePoint g
    .uni (hexOf (v / 4096)) (hexOf (v / 256)) (hexOf (v / 16)) (hexOf v)
  else if 0x20 ≤ g.b0.toNat ∧ g.b0.toNat ≤ 0x7E then .lit g.b0
  else .code g.b0

/-- the canonical spelling of `e` after `prev`: only what changes is written; a return to the all-default
    attribute is written `\x`; the character set is re-issued when the fallback after a UTF-8 element
    would otherwise lose it -/
def spell (prev e : Element) : Spelling :=
  let cs0 := (startFrom prev).glyph.cs
  let csd := if e.glyph.cs ≠ .utf8 ∧ e.glyph.cs ≠ cs0 then [Directive.charset (primaryIndex e.glyph.cs)] else []
  let ad :=
    if e.attr = prev.attr then []
    else if e.attr = {} then [Directive.reset]
    else
      (if e.attr.intensity ≠ prev.attr.intensity then [Directive.intensity e.attr.intensity] else [])
      ++ (if e.attr.polarity ≠ prev.attr.polarity then [Directive.polarity e.attr.polarity] else [])
      ++ (if e.attr.underlining ≠ prev.attr.underlining then [Directive.underlining e.attr.underlining] else [])
      ++ (if e.attr.fg ≠ prev.attr.fg then [colourDirective .fg e.attr.fg] else [])
      ++ (if e.attr.bg ≠ prev.attr.bg then [colourDirective .bg e.attr.bg] else [])
  { directives := csd ++ ad, glyph := glyphSpelling e.glyph }

def spellFrom : List Element → Element → List Spelling
  | [], _ => []
  | e :: r, prev => spell prev e :: spellFrom r e

def spellAll (es : List Element) : List Spelling := spellFrom es {}

/-- the canonical markup of an element string -/
def canonical (es : List Element) : List Byte := (spellAll es).flatMap Spelling.print

end Tpp.Ref
