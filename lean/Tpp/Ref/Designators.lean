import Tpp.Model.Types
/-!
Specification side: the SCS designators of the VT220/VT320 manuals and xterm's `ctlseqs`
("Designate G0 Character Set"), plus the Linux-console/SCO `U` (PC code page).  Written from
those documents, not from the library's tables.
-/
namespace Tpp.Ref

/-- the primary (first listed) designator of each set -/
def primaryDesignator : Charset → List Byte
  | .dec => [0x30]                        -- 0  DEC Special Character and Line Drawing Set
  | .decSupplementary => [0x3C]           -- <  DEC Supplementary (VT200)
  | .decSupplementaryGraphics => [0x25, 0x35] -- %5 DEC Supplementary Graphics (VT300)
  | .decTechnical => [0x3E]               -- >  DEC Technical (VT300)
  | .uk => [0x41]                         -- A  United Kingdom
  | .usAscii => [0x42]                    -- B  USASCII
  | .dutch => [0x34]                      -- 4  Dutch
  | .finnish => [0x43]                    -- C or 5  Finnish
  | .french => [0x52]                     -- R or f  French
  | .frenchCanadian => [0x51]             -- Q or 9  French Canadian
  | .german => [0x4B]                     -- K  German
  | .italian => [0x59]                    -- Y  Italian
  | .danish => [0x60]                     -- `, E or 6  Norwegian/Danish
  | .portuguese => [0x25, 0x36]           -- %6 Portuguese (VT300)
  | .spanish => [0x5A]                    -- Z  Spanish
  | .swedish => [0x48]                    -- H or 7  Swedish
  | .swiss => [0x3D]                      -- =  Swiss
  | .sco => [0x55]                        -- U  PC/SCO code page (Linux console, SCO ANSI)
  | .utf8 => []                           -- not designated by SCS (ESC % G)

/-- every standard designator, aliases included -/
def scsLookup : List Byte → Option Charset
  | [0x30] => some .dec
  | [0x3C] => some .decSupplementary
  | [0x25, 0x35] => some .decSupplementaryGraphics
  | [0x3E] => some .decTechnical
  | [0x41] => some .uk
  | [0x42] => some .usAscii
  | [0x34] => some .dutch
  | [0x43] => some .finnish | [0x35] => some .finnish
  | [0x52] => some .french | [0x66] => some .french
  | [0x51] => some .frenchCanadian | [0x39] => some .frenchCanadian
  | [0x4B] => some .german
  | [0x59] => some .italian
  | [0x60] => some .danish | [0x45] => some .danish | [0x36] => some .danish
  | [0x25, 0x36] => some .portuguese
  | [0x5A] => some .spanish
  | [0x48] => some .swedish | [0x37] => some .swedish
  | [0x3D] => some .swiss
  | [0x55] => some .sco
  | _ => none

end Tpp.Ref
