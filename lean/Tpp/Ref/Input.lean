import Tpp.Model.Token
/-!
Specification side of the input decoder: the *input protocol* of an xterm-compatible terminal, written
from ECMA-48 (control functions, C1 introducers, parameter strings), xterm's `ctlseqs` ("PC-Style Function
Keys", "VT220-Style Function Keys", "Mouse Tracking") and the Telnet NVT line-ending rules (RFC 854/1123)
– not from the library's source.  It shares with the library only the vocabulary in which a token is
expressed (`Tpp.Token`, the numeric values of the `vk`, `vk_modifier` and `mouse::event_type`
enumerators as regenerated from the headers).

What a terminal sends (an `Item`):

* a character: any 7-bit code except ESC, CR, LF;
* Enter: `CR LF`, `LF CR`, `CR NUL`, a bare `CR`, a bare `LF`;
* a cursor-pad key `CSI Pn ; Pm X` with X ∈ A B C D H F I Z, optional repeat count Pn and optional modifier
  parameter Pm, the introducer in 7-bit (`ESC [`) or 8-bit (0x9B) form, the 7-bit form optionally preceded by
  another ESC (meta sends escape);
* an application-mode key `SS3 X` (`ESC O` / 0x8F), X ∈ A B C D H F I M P Q R S;
* an editing/function key `CSI n ; Pm ~` with n from the VT220 table;
* any other CSI control sequence: optional private marker (`?`, `>`, `!`), parameters separated by `;`
  (each empty or a decimal number), a final byte;
* an X10/normal-tracking mouse report `CSI M Cb Cx Cy`.

xterm's modifier rule: the modifier parameter is `1 + (shift·1 + alt·2 + ctrl·4 + meta·8)`.
-/
namespace Tpp.Ref
open Tpp

/-- how the control function is introduced -/
inductive Intro
  | seven (metaPrefix : Bool)     -- ESC Fe, optionally preceded by one more ESC
  | eight                         -- the C1 control itself
deriving DecidableEq, Repr, Inhabited

def Intro.isMeta : Intro → Bool
  | .seven m => m
  | .eight => false

/-- CSI = ESC 0x5B or 0x9B -/
def Intro.csi : Intro → List Byte
  | .seven false => [0x1B, 0x5B]
  | .seven true => [0x1B, 0x1B, 0x5B]
  | .eight => [0x9B]

/-- SS3 = ESC 0x4F or 0x8F -/
def Intro.ss3 : Intro → List Byte
  | .seven false => [0x1B, 0x4F]
  | .seven true => [0x1B, 0x1B, 0x4F]
  | .eight => [0x8F]

inductive Marker | question | greater | bang
deriving DecidableEq, Repr, Inhabited

def Marker.byte : Marker → Byte
  | .question => 0x3F | .greater => 0x3E | .bang => 0x21

structure Mods where
  shift : Bool := false
  alt : Bool := false
  ctrl : Bool := false
  metaKey : Bool := false
deriving DecidableEq, Repr, Inhabited

/-- xterm: parameter = 1 + bit mask (shift 1, alt 2, ctrl 4, meta 8) -/
def Mods.code (m : Mods) : Nat :=
  1 + ((if m.shift then 1 else 0) + (if m.alt then 2 else 0) + (if m.ctrl then 4 else 0)
       + (if m.metaKey then 8 else 0))

/-- the same modifier set in the library's `vk_modifier` bits -/
def Mods.bits (m : Mods) : Nat :=
  (if m.shift then Consts.vkmod_shift else 0) ||| (if m.alt then Consts.vkmod_alt else 0)
  ||| (if m.ctrl then Consts.vkmod_ctrl else 0) ||| (if m.metaKey then Consts.vkmod_meta else 0)

/-- the ESC prefix of a 7-bit introducer reports Meta -/
def Intro.metaBits (i : Intro) : Nat := if i.isMeta then Consts.vkmod_meta else 0

inductive CsiKey | up | down | right | left | home | end_ | tab | backTab
deriving DecidableEq, Repr, Inhabited

def CsiKey.all : List CsiKey := [.up, .down, .right, .left, .home, .end_, .tab, .backTab]

/-- CUU CUD CUF CUB, Home = CSI H, End = CSI F, CHT = CSI I, CBT = CSI Z -/
def CsiKey.final : CsiKey → Byte
  | .up => 0x41 | .down => 0x42 | .right => 0x43 | .left => 0x44
  | .home => 0x48 | .end_ => 0x46 | .tab => 0x49 | .backTab => 0x5A

def CsiKey.vk : CsiKey → Nat
  | .up => Consts.vk_cursor_up | .down => Consts.vk_cursor_down | .right => Consts.vk_cursor_right
  | .left => Consts.vk_cursor_left | .home => Consts.vk_home | .end_ => Consts.vk_end
  | .tab => Consts.vk_ht | .backTab => Consts.vk_bt

inductive Ss3Key | up | down | right | left | home | end_ | tab | enter | f1 | f2 | f3 | f4
deriving DecidableEq, Repr, Inhabited

def Ss3Key.all : List Ss3Key := [.up, .down, .right, .left, .home, .end_, .tab, .enter, .f1, .f2, .f3, .f4]

/-- application cursor keys SS3 A-D, H, F; keypad Tab SS3 I, Enter SS3 M; PF1-PF4 SS3 P-S -/
def Ss3Key.final : Ss3Key → Byte
  | .up => 0x41 | .down => 0x42 | .right => 0x43 | .left => 0x44 | .home => 0x48 | .end_ => 0x46
  | .tab => 0x49 | .enter => 0x4D | .f1 => 0x50 | .f2 => 0x51 | .f3 => 0x52 | .f4 => 0x53

def Ss3Key.vk : Ss3Key → Nat
  | .up => Consts.vk_cursor_up | .down => Consts.vk_cursor_down | .right => Consts.vk_cursor_right
  | .left => Consts.vk_cursor_left | .home => Consts.vk_home | .end_ => Consts.vk_end
  | .tab => Consts.vk_ht | .enter => Consts.vk_enter
  | .f1 => Consts.vk_f1 | .f2 => Consts.vk_f2 | .f3 => Consts.vk_f3 | .f4 => Consts.vk_f4

inductive PadKey
  | home | ins | del | end_ | pgup | pgdn
  | f1 | f2 | f3 | f4 | f5 | f6 | f7 | f8 | f9 | f10 | f11 | f12
deriving DecidableEq, Repr, Inhabited

def PadKey.all : List PadKey :=
  [.home, .ins, .del, .end_, .pgup, .pgdn, .f1, .f2, .f3, .f4, .f5, .f6, .f7, .f8, .f9, .f10, .f11, .f12]

/-- VT220 editing keypad and function keys: `CSI n ~` (xterm ctlseqs; 16 and 22 are unassigned) -/
def PadKey.code : PadKey → Nat
  | .home => 1 | .ins => 2 | .del => 3 | .end_ => 4 | .pgup => 5 | .pgdn => 6
  | .f1 => 11 | .f2 => 12 | .f3 => 13 | .f4 => 14 | .f5 => 15 | .f6 => 17 | .f7 => 18 | .f8 => 19
  | .f9 => 20 | .f10 => 21 | .f11 => 23 | .f12 => 24

def PadKey.vk : PadKey → Nat
  | .home => Consts.vk_home | .ins => Consts.vk_ins | .del => Consts.vk_del | .end_ => Consts.vk_end
  | .pgup => Consts.vk_pgup | .pgdn => Consts.vk_pgdn
  | .f1 => Consts.vk_f1 | .f2 => Consts.vk_f2 | .f3 => Consts.vk_f3 | .f4 => Consts.vk_f4
  | .f5 => Consts.vk_f5 | .f6 => Consts.vk_f6 | .f7 => Consts.vk_f7 | .f8 => Consts.vk_f8
  | .f9 => Consts.vk_f9 | .f10 => Consts.vk_f10 | .f11 => Consts.vk_f11 | .f12 => Consts.vk_f12

def csiKeyOfFinal (b : Byte) : Option CsiKey := CsiKey.all.find? (fun k => k.final = b)
def ss3KeyOfFinal (b : Byte) : Option Ss3Key := Ss3Key.all.find? (fun k => k.final = b)
def padKeyOfCode (n : Nat) : Option PadKey := PadKey.all.find? (fun k => k.code = n)

inductive EnterForm | crlf | lfcr | crnul | cr | lf
deriving DecidableEq, Repr, Inhabited

def EnterForm.bytes : EnterForm → List Byte
  | .crlf => [0x0D, 0x0A] | .lfcr => [0x0A, 0x0D] | .crnul => [0x0D, 0x00] | .cr => [0x0D] | .lf => [0x0A]

inductive Button | left | middle | right | release | motion | wheelUp | wheelDown
deriving DecidableEq, Repr, Inhabited

/-- Cb - 32: buttons 0-2, release 3, +32 for motion, wheel = 64 / 65 -/
def Button.code : Button → Nat
  | .left => 0 | .middle => 1 | .right => 2 | .release => 3 | .motion => 32 | .wheelUp => 64 | .wheelDown => 65

def Button.ev : Button → MouseEv
  | .left => .leftDown | .middle => .middleDown | .right => .rightDown | .release => .up
  | .motion => .noChange | .wheelUp => .wheelUp | .wheelDown => .wheelDown

inductive Item
  | char (b : Byte)
  | enter (f : EnterForm)
  | csiKey (i : Intro) (k : CsiKey) (rep : Option Nat) (mods : Option Mods)
  | ss3Key (i : Intro) (k : Ss3Key)
  | keypad (i : Intro) (k : PadKey) (mods : Option Mods)
  | csi (i : Intro) (marker : Option Marker) (params : List (Option Nat)) (final : Byte)
  | mouse (i : Intro) (b : Button) (x y : Nat)
deriving DecidableEq, Repr, Inhabited

/-- a parameter: empty (default) or a decimal number -/
def encParam : Option Nat → List Byte
  | none => []
  | some n => decDigits n

/-- a parameter string: parameters separated by `;` (0x3B) -/
def paramBytes : List (Option Nat) → List Byte
  | [] => []
  | [p] => encParam p
  | p :: q :: r => encParam p ++ 0x3B :: paramBytes (q :: r)

def markerBytes : Option Marker → List Byte
  | none => []
  | some m => [m.byte]

/-- the parameters of a cursor-pad key: nothing, `Pn`, or `Pn ; Pm` (Pn may be empty) -/
def keyParams (rep : Option Nat) (mods : Option Mods) : List (Option Nat) :=
  match rep, mods with
  | none, none => []
  | some n, none => [some n]
  | r, some m => [r, some m.code]

def padParams (k : PadKey) (mods : Option Mods) : List (Option Nat) :=
  match mods with
  | none => [some k.code]
  | some m => [some k.code, some m.code]

/-- the bytes a terminal sends for an item -/
def Item.bytes : Item → List Byte
  | .char b => [b]
  | .enter f => f.bytes
  | .csiKey i k rep mods => i.csi ++ (paramBytes (keyParams rep mods) ++ [k.final])
  | .ss3Key i k => i.ss3 ++ [k.final]
  | .keypad i k mods => i.csi ++ (paramBytes (padParams k mods) ++ [0x7E])
  | .csi i marker params final => i.csi ++ (markerBytes marker ++ (paramBytes params ++ [final]))
  | .mouse i b x y => i.csi ++ [0x4D, UInt8.ofNat (32 + b.code), UInt8.ofNat (32 + (x + 1)), UInt8.ofNat (32 + (y + 1))]

/-- the argument list of the reported control sequence: the parameter strings as sent; a control
    sequence without a parameter string has one (empty, i.e. default) parameter -/
def argsOf : List (Option Nat) → List (List Byte)
  | [] => [[]]
  | ps => ps.map encParam

def isKeyFinal (b : Byte) : Bool := (csiKeyOfFinal b).isSome

/-- does the first parameter name a VT220 key? -/
def namesPadKey : List (Option Nat) → Bool
  | some n :: _ => (padKeyOfCode n).isSome
  | _ => false

/-- well-formed items.  A repeat count is below 2^31 (it is reported as an `int`; larger counts are clamped by
    the decoder).  Parameters of other control sequences are unbounded. -/
def Item.wf : Item → Bool
  | .char b => b < 0x80 && b != 0x1B && b != 0x0D && b != 0x0A
  | .enter _ => true
  | .csiKey _ _ rep _ => match rep with | some n => n < 2147483648 | none => true
  | .ss3Key _ _ => true
  | .keypad _ _ _ => true
  | .csi _ _ params final =>
    !isDigit final && final != 0x3B && final != 0x3F && final != 0x3E && final != 0x21 && final != 0x4D
    && !isKeyFinal final
    && (final != 0x7E || !namesPadKey params)
  | .mouse _ _ x y => x ≤ 222 && y ≤ 222

def seqOf (initiator : Byte) (i : Intro) (marker : Option Marker) (params : List (Option Nat)) (final : Byte) : CtrlSeq :=
  { initiator := initiator, command := final, metaFlag := i.isMeta, args := argsOf params,
    extender := match marker with | none => 0 | some m => m.byte }

def modBits (i : Intro) (mods : Option Mods) : Nat :=
  (match mods with | none => 0 | some m => m.bits) ||| i.metaBits

/-- the token the client must see for an item -/
def Item.expected : Item → Token
  | .char b => .key { key := b.toNat, mods := 0, rep := 1, seq := .byte b }
  | .enter _ => .key { key := Consts.vk_enter, mods := 0, rep := 1, seq := .byte 0x0A }
  | .csiKey i k rep mods =>
    .key { key := k.vk, mods := modBits i mods,
           rep := (match rep with | none => 1 | some n => max (n : Int) 1),
           seq := .ctrl (seqOf 0x5B i none (keyParams rep mods) k.final) }
  | .ss3Key i k =>
    .key { key := k.vk, mods := i.metaBits, rep := 1, seq := .ctrl (seqOf 0x4F i none [] k.final) }
  | .keypad i k mods =>
    .key { key := k.vk, mods := modBits i mods, rep := 1, seq := .ctrl (seqOf 0x5B i none (padParams k mods) 0x7E) }
  | .csi i marker params final => .ctrl (seqOf 0x5B i marker params final)
  | .mouse _ b x y => .mouse b.ev (x : Int) (y : Int)

/-- The byte language is ambiguous around bare CR / LF: `CR` followed by `LF` or `NUL`, and `LF` followed
    by `CR`, *are* the two-byte forms of Enter.  A pair of neighbours is unambiguous when that does not arise. -/
def okPair (a b : Item) : Bool :=
  match a with
  | .enter .cr => b.bytes.head? != some 0x0A && b.bytes.head? != some 0x00
  | .enter .lf => b.bytes.head? != some 0x0D
  | _ => true

def adjacent : List Item → Bool
  | [] => true
  | [_] => true
  | a :: b :: rest => okPair a b && adjacent (b :: rest)

def Adjacent (items : List Item) : Prop := adjacent items = true

/-! ### C07: letters -/

/-- a letter of the basic Latin alphabet -/
def isLetter (b : Byte) : Bool := (0x41 ≤ b && b ≤ 0x5A) || (0x61 ≤ b && b ≤ 0x7A)

/-! ### C20: which control sequences designate which abstract key -/

/-- bytes with a structural role in the input protocol: ESC, CR, LF and the C1 controls CSI and SS3;
    every other byte, received while no control function is in progress, is an ordinary input byte -/
def isOrdinary (b : Byte) : Bool := b != 0x1B && b != 0x0D && b != 0x0A && b != 0x9B && b != 0x8F


/-- value of the first parameter, when it is a non-empty digit string -/
def firstParam (c : CtrlSeq) : Option Nat :=
  match c.args with
  | (d :: ds) :: _ => if (d :: ds).all isDigit then some (parseDec (d :: ds) 0) else none
  | _ => none

/-- the key a control sequence names in the xterm tables: CSI or SS3 (the 7-bit / 8-bit distinction is already
    normalised away in `initiator`), the final byte, for `~` the first parameter; further parameters and
    private markers are ignored, as every practical decoder does -/
def keyNamedBy (c : CtrlSeq) : Option Nat :=
  if c.initiator = 0x5B then
    if c.command = 0x7E then (firstParam c).bind fun n => (padKeyOfCode n).map PadKey.vk
    else (csiKeyOfFinal c.command).map CsiKey.vk
  else if c.initiator = 0x4F then (ss3KeyOfFinal c.command).map Ss3Key.vk
  else none

def designates (c : CtrlSeq) (key : Nat) : Bool := keyNamedBy c == some key

end Tpp.Ref
