import Tpp.Ref.Render
import Tpp.Model.Terminal
/-! Specification side: the region each erase manipulator's *name* denotes, relative to the cursor. -/
namespace Tpp

/-- display = every cell; above/below = row-major up to / from the cursor (inclusive);
    line = the cursor's row; line-left / line-right = that row up to / from the cursor's column (inclusive) -/
def eraseRegion (k : EraseKind) (cx cy x y : Nat) : Bool :=
  match k with
  | .display => true
  | .above => decide (y < cy) || (decide (y = cy) && decide (x ≤ cx))
  | .below => decide (y > cy) || (decide (y = cy) && decide (x ≥ cx))
  | .line => decide (y = cy)
  | .lineLeft => decide (y = cy) && decide (x ≤ cx)
  | .lineRight => decide (y = cy) && decide (x ≥ cx)

/-- window titles the properties quantify over: no BEL, ESC, ST or other control characters -/
def titleClean (t : List Byte) : Bool := t.all fun b => b ≠ 0x07 && b ≠ 0x1B && b ≠ 0x9C && 0x20 ≤ b

end Tpp
