import Tpp.Driver.Proto
import Tpp.Model.Keys
import Tpp.Model.ParserFast
import Tpp.Ref.Input
/-!
Driver slice `Input`: the input decoder (`detail::parser`, `get_well_known_virtual_key`, `terminal::async_read`).

## Protocol kind `I`

```
I <run> [ / <run> ]*        run = chunk,chunk,…     chunk = lower-case hex | `-` (an empty delivery)
```
Every run is played on a FRESH terminal.  The client arms `async_read` once and re-arms it from inside the
callback.  The answer lists, per delivery, the number of callback invocations the delivery caused and the
tokens they carried:

```
answer   = runans ( " / " runans )*
runans   = "."                                   a run without deliveries
         | delivery ( " ; " delivery )*
delivery = <calls> ":" [ tok ( " " tok )* ]
tok      = "K" key "." mods "." rep "." "b" hh             virtual_key, sequence = raw byte hh
         | "K" key "." mods "." rep "." "c" seq            virtual_key, sequence = control sequence
         | "M" action "." x "." y                          mouse event (x, y signed decimal)
         | "C" seq                                         control sequence
seq      = hh(initiator) "." hh(command) "." ("0"|"1")(meta) "." hh(extender) "." args
args     = "~"  (no argument at all)  |  arg ( "," arg )*        arg = hex | "-" (empty argument)
```
`key`, `mods`, `rep`, `action` are decimal (`key` = numeric value of the `vk` enumerator, `mods` = the
`vk_modifier` bit set, `action` = numeric value of `mouse::event_type`).

## Oracle configurations (`O<cfg> | I … # <real answer>`)

The first word of the configuration names the property whose statement is evaluated on the real answer
(from `Tpp.Ref.Input` only – never from the model of the library).  Cases without configuration are
correspondence-only.

* `C05 <item> <item> …` – the case is ONE run whose bytes are `items.flatMap Item.bytes` (checked), in any
  chunking; the real tokens, concatenated over the deliveries, must be `items.map Item.expected`.
  Item words (intro: `7` = ESC Fe, `m` = ESC ESC Fe, `8` = C1 byte):
  `c<hh>` character; `e:crlf|lfcr|crnul|cr|lf`; `k<intro>:<key 0-7>:<rep|->:<mods 0-15|->` cursor-pad key
  (key = index in `CsiKey.all`, mods bit mask shift 1 alt 2 ctrl 4 meta 8); `s<intro>:<key 0-11>` SS3 key;
  `p<intro>:<key 0-17>:<mods|->` keypad `~` key; `q<intro>:<n|q|g|b>:<params>:<final hh>` other CSI
  (marker none ? > !; params `_` = no parameter string, else comma separated numbers, `-` = empty);
  `m<intro>:<button 0-6>:<x>:<y>` mouse report.
* `C06` – every run of the case is a partition of the same byte stream (checked); the concatenated real tokens
  of every run must equal those of the last run, and every delivery must report exactly one callback.
* `C07` – the runs come in pairs: `garbage…,<4 letters>,<suffix>` / `<suffix>`: the tokens of the last delivery of
  the first run must equal the tokens of the second (a fresh terminal), and every delivery reports one callback.
* `C20` – every key token of the real answer that names an abstract key must be designated by its own
  sequence (`Ref.designates`) or be a line ending.  `C20 byte` additionally: the case is `I [<cr|lf>,]<hh>` and
  an ordinary, unswallowed byte must be reported as the non-abstract key of that value.
  Failure kinds (stable, used as known-finding signatures): `idle-byte 0x<hh>`, `atoi-wrap`,
  `undesignated <tok>`, `misreported-byte 0x<hh>`.
-/
namespace Tpp.Driver.Input
open Tpp Tpp.Driver

def hex2 (b : Byte) : String := String.ofList [hexDigit (b.toNat / 16), hexDigit (b.toNat % 16)]

def showSeq (c : CtrlSeq) : String :=
  let args := if c.args.isEmpty then "~" else ",".intercalate (c.args.map hex)
  s!"{hex2 c.initiator}.{hex2 c.command}.{if c.metaFlag then 1 else 0}.{hex2 c.extender}.{args}"

def showToken : Token → String
  | .key k =>
    match k.seq with
    | .byte b => s!"K{k.key}.{k.mods}.{k.rep}.b{hex2 b}"
    | .ctrl c => s!"K{k.key}.{k.mods}.{k.rep}.c{showSeq c}"
  | .mouse ev x y => s!"M{ev.code}.{x}.{y}"
  | .ctrl c => s!"C{showSeq c}"

def showTokens (ts : List Token) : String := " ".intercalate (ts.map showToken)

/-- chunks of one run; `none` when the run has no deliveries -/
def parseRun (run : String) : Option (List (List Byte)) :=
  match words run with
  | [] => none
  | w :: _ =>
    -- chunks starting with `@` are output-side operations on the same terminal between deliveries (`@sz.W.H`, `@we`,
    -- `@mv.X.Y`, `@er`, `@hc`): the decoder lives in its own part of the state, so the model ignores them
    -- a leading `!` selects the executor's queued channel (reads complete synchronously): same deliveries, same answer
    let w := if w.startsWith "!!" then (w.drop 2).toString else if w.startsWith "!" then (w.drop 1).toString else w
    let cs := (w.splitOn ",").filter fun c => !c.startsWith "@"
    if cs.isEmpty then none else some (cs.map unhex)

def showRun (chunks : Option (List (List Byte))) : String :=
  match chunks with
  | none => "."
  | some cs =>
    -- `deliverAllFast cs s = (deliverAll cs s).tokenLists` (`Tpp.deliverAllFast_eq`); it avoids the quadratic
    -- `arg ++ [b]` of the step function on long digit runs.
    -- `deliverAll` counts one callback per delivery (C06); the per-delivery count is therefore 1
    " ; ".intercalate ((deliverAllFast cs PState.init).map fun ts => s!"1:{showTokens ts}")

def runI (rest : String) : String :=
  " / ".intercalate ((rest.splitOn "/").map fun r => showRun (parseRun r))

/-- model answer for a case line of this slice; `none` when the kind is not ours -/
def run (kind : Char) (rest : String) : Option String :=
  if kind = 'I' || kind = 'J' then some (runI rest) else none

/-! ### oracle: parsing the case, the configuration and the real answer -/

open Tpp.Ref

def parseIntro : Char → Option Intro
  | '7' => some (.seven false) | 'm' => some (.seven true) | '8' => some .eight | _ => none

def optNat (w : String) : Option (Option Nat) := if w = "-" then some none else w.toNat?.map some

def modsOfMask (n : Nat) : Mods :=
  { shift := n % 2 = 1, alt := (n / 2) % 2 = 1, ctrl := (n / 4) % 2 = 1, metaKey := (n / 8) % 2 = 1 }

def optMods (w : String) : Option (Option Mods) :=
  if w = "-" then some none else w.toNat?.bind fun n => if n < 16 then some (some (modsOfMask n)) else none

def parseParams (w : String) : Option (List (Option Nat)) :=
  if w = "_" then some [] else (w.splitOn ",").mapM optNat

def enterForm : String → Option EnterForm
  | "crlf" => some .crlf | "lfcr" => some .lfcr | "crnul" => some .crnul | "cr" => some .cr | "lf" => some .lf
  | _ => none

def markerOf : String → Option (Option Marker)
  | "n" => some none | "q" => some (some .question) | "g" => some (some .greater) | "b" => some (some .bang)
  | _ => none

def buttons : List Button := [.left, .middle, .right, .release, .motion, .wheelUp, .wheelDown]

def parseItem (w : String) : Option Item :=
  match w.toList with
  | [] => none
  | 'c' :: rest => match unhexList rest with | [b] => some (.char b) | _ => none
  | 'e' :: ':' :: rest => (enterForm (String.ofList rest)).map .enter
  | kind :: ic :: ':' :: rest => do
    let i ← parseIntro ic
    let fs := (String.ofList rest).splitOn ":"
    match kind, fs with
    | 'k', [k, r, m] => do
      let key ← CsiKey.all[(← k.toNat?)]?
      return .csiKey i key (← optNat r) (← optMods m)
    | 's', [k] => do return .ss3Key i (← Ss3Key.all[(← k.toNat?)]?)
    | 'p', [k, m] => do return .keypad i (← PadKey.all[(← k.toNat?)]?) (← optMods m)
    | 'q', [mk, ps, f] => do
      match unhex f with
      | [fb] => return .csi i (← markerOf mk) (← parseParams ps) fb
      | _ => none
    | 'm', [b, x, y] => do return .mouse i (← buttons[(← b.toNat?)]?) (← x.toNat?) (← y.toNat?)
    | _, _ => none
  | _ => none

/-- chunks of every run of the case line -/
def caseRuns (rest : String) : List (List (List Byte)) :=
  (rest.splitOn "/").map fun r => (parseRun r).getD []

structure RealDelivery where
  calls : String
  toks : List String

def parseDelivery (d : String) : RealDelivery :=
  match d.splitOn ":" with
  | c :: rest => { calls := c.trimAscii.toString, toks := words (":".intercalate rest) }
  | [] => { calls := "", toks := [] }

def realRuns (real : String) : List (List RealDelivery) :=
  (real.splitOn " / ").map fun r =>
    if r.trimAscii.toString = "." then [] else (r.splitOn " ; ").map parseDelivery

def allOneCallback (runs : List (List RealDelivery)) : Bool := runs.all fun r => r.all fun d => d.calls = "1"

def runToks (r : List RealDelivery) : List String := r.flatMap (·.toks)

/-! ### C05 -/

/-- index and contents of the first position where two token lists differ -/
def firstDiff : List String → List String → Nat → Nat × String × String
  | a :: as, b :: bs, i => if a = b then firstDiff as bs (i + 1) else (i, a, b)
  | a :: _, [], i => (i, a, "<nothing>")
  | [], b :: _, i => (i, "<nothing>", b)
  | [], [], i => (i, "", "")

def oracleC05 (itemWords : List String) (rest real : String) : String :=
  match itemWords.mapM parseItem with
  | none => "FAIL C05 generator: unparsable item list"
  | some items =>
    let bytes := (caseRuns rest).headD [] |>.flatten
    if bytes ≠ items.flatMap Item.bytes then
      s!"FAIL C05 generator: bytes of the case {hex bytes} are not the bytes of the items {hex (items.flatMap Item.bytes)}"
    else if !(items.all Item.wf) then "FAIL C05 generator: ill-formed item"
    else if !(adjacent items) then "ok"   -- ambiguous stream: outside the statement
    else
      let expected := items.map fun it => showToken it.expected
      let got := runToks ((realRuns real).headD [])
      if got ≠ expected then
        let diff := firstDiff expected got 0
        s!"FAIL C05 token {diff.1}: expected {diff.2.1} got {diff.2.2} -- all expected [{" ".intercalate expected}] got [{" ".intercalate got}]"
      else if !(allOneCallback (realRuns real)) then "FAIL C05 C06 callback count is not 1 per delivery"
      else
        -- further runs that deliver the same bytes (cut differently, possibly multiplexed with the first: kind `J`)
        let others := ((caseRuns rest).zip (realRuns real)).drop 1 |>.filter fun (c, r) =>
          c.flatten = bytes && runToks r ≠ expected
        match others with
        | [] => "ok"
        | (_, r) :: _ =>
          let got := runToks r
          let diff := firstDiff expected got 0
          s!"FAIL C05 (another connection receiving the same bytes) token {diff.1}: expected {diff.2.1} got {diff.2.2}"

/-! ### C06 -/

def oracleC06 (rest real : String) : String :=
  let cruns := caseRuns rest
  let rruns := realRuns real
  let streams := cruns.map List.flatten
  match streams.getLast?, rruns.getLast? with
  | some ref, some rref =>
    if !(streams.all (· = ref)) then "FAIL C06 generator: runs are not partitions of one stream"
    else if cruns.length ≠ rruns.length then "FAIL C06 answer has a different number of runs"
    else if !((cruns.zip rruns).all fun (c, r) => c.length = r.length) then
      "FAIL C06 number of reported deliveries differs from the number of deliveries made"
    else if !(allOneCallback rruns) then "FAIL C06 a delivery did not cause exactly one callback"
    else if !(rruns.all fun r => runToks r = runToks rref) then
      s!"FAIL C06 tokens depend on the partition: one-chunk run gives [{" ".intercalate (runToks rref)}]"
    else "ok"
  | _, _ => "ok"

/-! ### history independence (C05 "never depends on the items that preceded it", C20) -/

/-- `HIST`: run 0 is the byte-concatenation of runs 1… (each one self-contained segment, one delivery, fresh
    terminal): the real tokens of the whole stream must be the concatenation of the segments' own tokens -/
def oracleHist (tag rest real : String) : String :=
  let cruns := caseRuns rest
  let rruns := realRuns real
  match cruns, rruns with
  | whole :: segs, rwhole :: rsegs =>
    if whole.flatten ≠ (segs.map List.flatten).flatten then s!"FAIL {tag} generator: run 0 is not the concatenation of the segments"
    else if segs.length ≠ rsegs.length then s!"FAIL {tag} answer has a different number of runs"
    else
      -- for C20 only tokens that name an abstract key matter (`K<key>.…` with key above `del`)
      let abstractTok (t : String) : Bool :=
        t.startsWith "K" && (((t.drop 1).toString.splitOn ".").headD "0").toNat?.getD 0 > Consts.vk_del
      let keep (ts : List String) : List String := if tag = "C20" then ts.filter abstractTok else ts
      let expect := keep (rsegs.flatMap runToks)
      let got := keep (runToks rwhole)
      if got = expect then "ok"
      else
        let k := ((got.zip expect).takeWhile fun (a, b) => a = b).length
        s!"FAIL {tag} decoding depends on what preceded: token {k} of the stream is {got.getD k "(none)"}, the segment alone gives {expect.getD k "(none)"}"
  | _, _ => "ok"

/-! ### C07 -/

/-- one `garbage…,letters,suffix / suffix` pair -/
def judgeC07 (r1 r2 : List (List Byte)) (a1 a2 : List RealDelivery) : Option String :=
  match r1.reverse, r2 with
  | s :: ls :: _, [suffix] =>
    if s ≠ suffix ∨ ls.length ≠ 4 ∨ !(ls.all isLetter) then some "generator: not garbage,letters,suffix / suffix"
    else if a1.length ≠ r1.length ∨ a2.length ≠ 1 then some "number of reported deliveries differs"
    else if !(allOneCallback [a1, a2]) then some "C06 a delivery did not cause exactly one callback"
    else
      let after := (a1.getLast?.map (·.toks)).getD []
      if after ≠ runToks a2 then
        some s!"not resynchronised after {hex (r1.dropLast.flatten)}: suffix decodes to [{" ".intercalate after}], on a fresh terminal to [{" ".intercalate (runToks a2)}]"
      else none
  | _, _ => some "generator: malformed pair"

def pairUp {α} : List α → List (α × α)
  | a :: b :: r => (a, b) :: pairUp r
  | _ => []

def oracleC07 (rest real : String) : String :=
  let cr := caseRuns rest
  let rr := realRuns real
  if cr.length % 2 ≠ 0 ∨ cr.length ≠ rr.length then "FAIL C07 generator: expected pairs of runs, answered one to one" else
  match ((pairUp cr).zip (pairUp rr)).filterMap fun ((r1, r2), (a1, a2)) => judgeC07 r1 r2 a1 a2 with
  | [] => "ok"
  | e :: _ => "FAIL C07 " ++ e

/-! ### C20 -/

def parseSeq (fs : List String) : Option CtrlSeq :=
  match fs with
  | [i, c, m, e, args] =>
    match unhex i, unhex c, unhex e with
    | [ib], [cb], [eb] =>
      some { initiator := ib, command := cb, metaFlag := m = "1", extender := eb,
             args := if args = "~" then [] else (args.splitOn ",").map unhex }
    | _, _, _ => none
  | _ => none

/-- failure kinds of one real token (empty = fine) -/
def judgeToken (tok : String) : List String :=
  match tok.toList with
  | 'K' :: rest =>
    match (String.ofList rest).splitOn "." with
    | k :: _ :: _ :: s :: more =>
      match k.toNat? with
      | none => [s!"unparsable {tok}"]
      | some key =>
        if !isAbstractKey key then [] else
        match s.toList with
        | 'b' :: hh =>
          if key = Consts.vk_enter ∧ hh = ['0', 'a'] then [] else [s!"idle-byte 0x{String.ofList hh}"]
        | 'c' :: i =>
          match parseSeq (String.ofList i :: more) with
          | none => [s!"unparsable {tok}"]
          | some c =>
            if designates c key then []
            else if c.args.any fun a => a.all isDigit ∧ 2147483648 ≤ parseDec a 0 then ["atoi-wrap"]
            else [s!"undesignated {tok}"]
        | _ => [s!"unparsable {tok}"]
    | _ => [s!"unparsable {tok}"]
  | _ => []

def isInfix (pat s : List Byte) : Bool :=
  pat.isEmpty || (List.range (s.length + 1 - pat.length)).any fun i => (s.drop i).take pat.length = pat

/-- **faithfulness to the input**: the control sequence an abstract-key token carries (when it has no private marker)
    must occur in the bytes that were actually delivered – introducer (7- or 8-bit, with the meta ESC when flagged),
    its parameters separated by `;`, its final byte, contiguously.  A sequence that designates its key but was never
    sent (stitched together from pieces, truncated, inherited from an earlier packet) fails here. -/
def unfaithful (input : List Byte) (tok : String) : List String :=
  match tok.toList with
  | 'K' :: rest =>
    match (String.ofList rest).splitOn "." with
    | k :: _ :: _ :: s :: more =>
      match k.toNat?, s.toList with
      | some key, 'c' :: i =>
        if !isAbstractKey key then [] else
        match parseSeq (String.ofList i :: more) with
        | some c =>
          if c.extender ≠ 0 then [] else
          let body : List Byte := (List.intersperse [0x3B] c.args).flatten ++ [c.command]
          let intros : List (List Byte) :=
            (if c.initiator = 0x5B then [[0x9B]] else if c.initiator = 0x4F then [[0x8F]] else []) ++ [[0x1B, c.initiator]]
          let pre : List Byte := if c.metaFlag then [0x1B] else []
          if intros.any (fun it => isInfix (pre ++ it ++ body) input) then []
          else [s!"never-sent {tok}"]
        | none => []
      | _, _ => []
    | _ => []
  | _ => []

def oracleC20 (cfgWords : List String) (rest real : String) : String :=
  let rruns := realRuns real
  let cruns := caseRuns rest
  let faith := ((cruns.zip rruns).flatMap fun p => (runToks p.2).flatMap (unfaithful p.1.flatten))
  let stream := (rruns.flatMap runToks).flatMap judgeToken ++ faith
  let single : List String :=
    if cfgWords = ["byte"] then
      match caseRuns rest, rruns with
      | [chunks], [ans] =>
        match chunks.reverse, ans.reverse with
        | [b] :: before, last :: _ =>
          let swallowed := (before = [[0x0D]] ∧ (b = 0x0A ∨ b = 0x00)) ∨ (before = [[0x0A]] ∧ b = 0x0D)
          if !isOrdinary b ∨ swallowed then []
          else if last.toks = [s!"K{b.toNat}.0.1.b{hex2 b}"] ∧ !isAbstractKey b.toNat then []
          else if isAbstractKey b.toNat then [s!"idle-byte 0x{hex2 b}"]
          else [s!"misreported-byte 0x{hex2 b}"]
        | _, _ => ["generator: bad byte case"]
      | _, _ => ["generator: bad byte case"]
    else []
  let fails := (single ++ stream).eraseDups
  if fails.isEmpty then "ok" else "FAIL C20 " ++ "; ".intercalate fails

/-- oracle verdict (`ok` / `FAIL <ids> …`) given the case, the configuration prefix and the real answer -/
def oracle (kind : Char) (cfg rest real : String) : Option String :=
  if kind ≠ 'I' && kind ≠ 'J' then none else
  match words cfg with
  | "C05" :: items => some (oracleC05 items rest real)
  | "C06" :: _ => some (oracleC06 rest real)
  | "HIST" :: t :: _ => some (oracleHist t rest real)
  | "C07" :: _ => some (oracleC07 rest real)
  | "C20" :: ws => some (oracleC20 ws rest real)
  | _ => some "ok"

end Tpp.Driver.Input
