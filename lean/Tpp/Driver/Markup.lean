import Tpp.Driver.Proto
import Tpp.Model.Strings
import Tpp.Model.Markup
import Tpp.Ref.Markup
/-!
Driver slice `Markup` (properties C10, C07 markup half; the element/to_string answers are also what C17 reads).

Case lines (the text to decode is one hex word, `-` = empty):

* `E <hex>`  `terminalpp::encode(span)`
* `s <hex>`  `operator""_ets(ptr, len)`
* `e <hex>`  `operator""_ete(ptr, len)`

Answers (byte-identical between `harness/exec_markup.inc` and `run` below):

* `E`, `s`:  `<n> ; <element> ; <element> … / <hex of to_string(result)>`  (n = number of elements)
* `e`:       `<element>`

where `<element>` is the shared 16-number encoding (`showElement`: glyph `cs b0 b1 b2` with only the
*meaningful* bytes – `b1 b2` are printed as 0 for a non-UTF-8 glyph – then the attribute).

Oracle configurations, all judged from `Tpp.Ref.Markup` only.  The configuration is written AFTER the hex
word on the case line itself (`E <hex> S tok …`; executor and `run` ignore everything after the hex word), so
that a replay file – which stores case lines – reproduces the oracle's verdict; the prefix form
`O<cfg> | <case> # <real>` of `vlib/core.py` is accepted too and takes precedence:

* (none)      every `E`/`s` answer must have `n ≤` input length (C07) and a consistent count; if the input
              contains no backslash the elements must be `Ref.plainElement` of every byte (C10_plain);
              an `e` answer on an input that does not start with a backslash must be the plain element of
              the first byte (the default element for the empty input).
* `S tok …`   the generator's list of `Ref.Spelling`s.  Tokens: directives `c<i>` (designator index 0–23),
              `ib if in`, `pp pn`, `uu un`, `lf<d> lb<d>`, `hf<r><g><b> hb…`, `gf<n> gb<n>`,
              `tf<6 hex chars> tb…` (the characters carry the letter case), `x`; a glyph token ends a
              spelling: `L<byte>` literal, `C<byte>` `\Cnnn`, `U<4 hex chars>`.
              The oracle checks that `flatMap print` of the list IS the input (otherwise the generator and
              the specification disagree about the language – reported as a failure, never skipped) and
              that the real elements are `Ref.denoteAll` of the list (for `e`: its first element).
* `K n <16 numbers> …`  an `Expressible` element string; the input must be `Ref.canonical` of it and the
              real elements must be that string (compared by meaningful values = the library's `==`).
-/
namespace Tpp.Driver.Markup
open Tpp Tpp.Driver

def showString (es : List Element) : String :=
  let parts := toString es.length :: es.map showElement
  " ; ".intercalate parts ++ " / " ++ hex (TString.toString es)

/-- model answer for a case line of this slice; `none` when the kind is not ours -/
def run (kind : Char) (rest : String) : Option String :=
  let text := unhex ((words rest).headD "-")
  match kind with
  | 'E' => some (showString (Tpp.Markup.encode text))
  | 's' => some (showString (Tpp.Markup.encode text))
  | 'e' => some (showElement (Tpp.Markup.ete text))
  | _ => none

/-! ### configuration parsing (spec-side values only) -/

def hexOfChar (c : Char) : Option Ref.Hex :=
  if '0' ≤ c ∧ c ≤ '9' then some { v := Fin.ofNat 16 (c.toNat - 48), upper := true }
  else if 'a' ≤ c ∧ c ≤ 'f' then some { v := Fin.ofNat 16 (c.toNat - 87), upper := false }
  else if 'A' ≤ c ∧ c ≤ 'F' then some { v := Fin.ofNat 16 (c.toNat - 55), upper := true }
  else none

def layerOf (c : Char) : Option Ref.Layer := if c = 'f' then some .fg else if c = 'b' then some .bg else none

def finOf (n : Nat) (s : String) : Option (Fin n) :=
  match s.toNat? with
  | some v => if h : v < n then some ⟨v, h⟩ else none
  | none => none

def digitFin (n : Nat) (c : Char) : Option (Fin n) := finOf n (String.singleton c)

inductive Tok | dir (d : Ref.Directive) | gly (g : Ref.GlyphSp)

def parseTok (t : String) : Option Tok :=
  match t.toList with
  | ['x'] => some (.dir .reset)
  | ['i', 'b'] => some (.dir (.intensity .bold))
  | ['i', 'f'] => some (.dir (.intensity .faint))
  | ['i', 'n'] => some (.dir (.intensity .normal))
  | ['p', 'p'] => some (.dir (.polarity .positive))
  | ['p', 'n'] => some (.dir (.polarity .negative))
  | ['u', 'u'] => some (.dir (.underlining .underlined))
  | ['u', 'n'] => some (.dir (.underlining .notUnderlined))
  | 'c' :: r => (finOf 24 (String.ofList r)).map fun d => .dir (.charset d)
  | ['l', l, d] => do let l ← layerOf l; let d ← digitFin 10 d; return .dir (.low l d)
  | ['h', l, r, g, b] => do
    let l ← layerOf l; let r ← digitFin 6 r; let g ← digitFin 6 g; let b ← digitFin 6 b
    return .dir (.high l r g b)
  | 'g' :: l :: r => do let l ← layerOf l; let n ← finOf 24 (String.ofList r); return .dir (.grey l n)
  | ['t', l, a, b, c, d, e, f] => do
    let l ← layerOf l
    let a ← hexOfChar a; let b ← hexOfChar b; let c ← hexOfChar c
    let d ← hexOfChar d; let e ← hexOfChar e; let f ← hexOfChar f
    return .dir (.rgb l a b c d e f)
  | 'L' :: r => (finOf 256 (String.ofList r)).map fun v => .gly (.lit (UInt8.ofNat v.val))
  | 'C' :: r => (finOf 256 (String.ofList r)).map fun v => .gly (.code (UInt8.ofNat v.val))
  | ['U', a, b, c, d] => do
    let a ← hexOfChar a; let b ← hexOfChar b; let c ← hexOfChar c; let d ← hexOfChar d
    return .gly (.uni a b c d)
  | _ => none

/-- tokens → spellings; `none` on an unknown token or on trailing directives without a glyph -/
def parseSpellings : List String → List Ref.Directive → Option (List Ref.Spelling)
  | [], acc => if acc.isEmpty then some [] else none
  | t :: ts, acc =>
    match parseTok t with
    | none => none
    | some (.dir d) => parseSpellings ts (d :: acc)
    | some (.gly g) => (parseSpellings ts []).map fun r => { directives := acc.reverse, glyph := g } :: r

/-- the element part of an `E`/`s` answer: (declared count, element strings) -/
def splitAnswer (real : String) : Nat × List String :=
  let left := (real.splitOn " / ").headD ""
  match left.splitOn " ; " with
  | [] => (0, [])
  | n :: es => (n.trimAscii.toString.toNat?.getD 0, es.map fun e => e.trimAscii.toString)

def firstDiff : List String → List String → Nat → Option (Nat × String × String)
  | [], [], _ => none
  | a :: as, b :: bs, i => if a = b then firstDiff as bs (i + 1) else some (i, a, b)
  | [], b :: _, i => some (i, "<end>", b)
  | a :: _, [], i => some (i, a, "<end>")

def compareElements (what : String) (expected : List Element) (got : List String) : String :=
  match firstDiff (expected.map showElement) got 0 with
  | none => "ok"
  | some (i, a, b) => s!"FAIL C10 {what}: element {i} expected [{a}] got [{b}]"

/-- oracle verdict (`ok` / `FAIL <ids> …`) given the case, the configuration prefix and the real answer -/
def oracle (kind : Char) (cfg rest real : String) : Option String :=
  if kind ≠ 'E' ∧ kind ≠ 's' ∧ kind ≠ 'e' then none else
  let ws := words rest
  let text := unhex (ws.headD "-")
  -- the configuration travels with the case line (so that a replay file, which stores case lines only,
  -- reproduces the verdict); a non-empty prefix configuration overrides it
  let cfgw := if (words cfg).isEmpty then ws.drop 1 else words cfg
  some <|
  if kind = 'e' then
    let got := [real.trimAscii.toString]
    match cfgw with
    | "S" :: toks =>
      match parseSpellings toks [] with
      | none => "FAIL C10 oracle: unreadable spelling configuration"
      | some sps =>
        if sps.flatMap Ref.Spelling.print ≠ text then "FAIL C10 oracle: generator spelling does not print to the input"
        else compareElements "_ete of a spelling" [(Ref.denoteAll sps).headD {}] got
    | [] =>
      match text with
      | [] => compareElements "_ete of the empty text" [({} : Element)] got
      | b :: _ => if b = 0x5C then "ok" else compareElements "_ete of plain text" [Ref.plainElement b] got
    | _ => "ok"
  else
    let (n, got) := splitAnswer real
    if n ≠ got.length then s!"FAIL C07 C10 answer count {n} but {got.length} elements printed"
    else if n > text.length then s!"FAIL C07 markup decoder yields {n} elements for {text.length} input characters"
    else
    match cfgw with
    | "S" :: toks =>
      match parseSpellings toks [] with
      | none => "FAIL C10 oracle: unreadable spelling configuration"
      | some sps =>
        if sps.flatMap Ref.Spelling.print ≠ text then "FAIL C10 oracle: generator spelling does not print to the input"
        else compareElements "decode of spellings" (Ref.denoteAll sps) got
    | "K" :: nums =>
      let (es, _) := (do let k ← Rd.num; rdElements k : Rd (List Element)).run nums
      if es.any (fun e => !Ref.expressible e) then "FAIL C10 oracle: element string is not Expressible"
      else if Ref.canonical es ≠ text then "FAIL C10 oracle: input is not Ref.canonical of the element string"
      else compareElements "decode of canonical markup" es got
    | [] =>
      if text.contains 0x5C then "ok"
      else compareElements "plain text" (text.map Ref.plainElement) got
    | _ => "ok"

end Tpp.Driver.Markup
