import Tpp.Driver.Proto
/-! Driver slice `Markup`: model answers (`run`) and property oracle on the implementation's answers (`oracle`). -/
namespace Tpp.Driver.Markup
open Tpp Tpp.Driver

/-- model answer for a case line of this slice; `none` when the kind is not ours -/
def run (_kind : Char) (_rest : String) : Option String := none

/-- oracle verdict (`ok` / `FAIL <ids> …`) given the case, the configuration prefix and the real answer -/
def oracle (_kind : Char) (_cfg _rest _real : String) : Option String := none

end Tpp.Driver.Markup
