import Tpp.Driver.Proto
import Tpp.Ref.Regions
/-!
Oracle for terminal scripts (`OT…`): the REAL library's bytes and state records are judged against
the reference terminal `Ref.VT` and a specification-level account of the session (what was requested),
for C01 C02 C08 C09 C11 C13 C17.  Nothing here calls the library model (`Tpp.step` etc.).

Line: `O<W E R Z w h> | T<bits> ; op ; op … # <hex> / <state> ; <hex> / <state> …`
  W wrap 0 deferred 1 immediate 2 none;  E erase 0 plain 1 bce 2 current;  R initial-state variant;
  Z resize-behaviour variant;  w h initial actual size (until the first `sz`).
-/
namespace Tpp.Driver
open Tpp

structure OCfg where
  wrap : Wrap := .deferred
  erase : EraseMode := .bce
  r : Nat := 0
  z : Nat := 0
  w : Nat := 80
  h : Nat := 24

def parseCfg (s : String) : OCfg :=
  match (words s).map (·.toNat?.getD 0) with
  | [wv, e, r, z, w, h] =>
    { wrap := (match wv with | 0 => .deferred | 1 => .immediate | _ => .none),
      erase := (match e with | 0 => .plain | 1 => .bce | _ => .current), r := r, z := z, w := max w 1, h := max h 1 }
  | _ => {}

def initRend (r : Nat) : Rend :=
  match r % 6 with
  | 0 => {}
  | 1 => { bold := true, fg := .idx 1, bg := .idx 4 }
  | 2 => { faint := true, ul := true, inv := true, blink := true, fg := .idx 200 }
  | 3 => { bg := .rgb 10 20 30 }
  | 4 => { blink := true }
  | _ => { ul := true, fg := .rgb 1 2 3, bg := .idx 250 }

def junkCell (r x y : Nat) : Cell :=
  { bytes := [UInt8.ofNat (0x41 + (x + 3 * y + r) % 26)], cs := .usAscii, rend := initRend (r + x + y + 1) }

def initVT (c : OCfg) : VT :=
  let cx := (c.r * 3 + 1) % c.w
  let cy := (c.r + 1) % c.h
  { w := c.w, h := c.h, wrap := c.wrap, eraseMode := c.erase, cx := cx, cy := cy,
    pending := (c.r % 2 = 1 && cx + 1 = c.w && c.wrap = .deferred),
    rend := initRend c.r, g0 := .usAscii, utf8 := false, cursorVisible := c.r % 2 = 0,
    mouse1000 := c.r % 3 = 1, mouse1003 := c.r % 3 = 2, alt := false, title := [0x69],
    saved := if c.r % 3 = 0 then none else some ((c.r * 5) % c.w, (c.r * 2) % c.h),
    ps := .ground, malformed := false, log := [], cells := fun _ x y => junkCell c.r x y }

/-- the terminal's own choice of state after a resize (terminal-dependent: variants) -/
def resizeVT (c : OCfg) (vt : VT) (w h : Nat) : VT :=
  let w := max w 1
  let h := max h 1
  match c.z % 4 with
  | 0 => vt.resize w h vt.cells (min vt.cx (w - 1)) (min vt.cy (h - 1))
           (vt.saved.map fun p => (min p.1 (w - 1), min p.2 (h - 1))) false
  | 1 => vt.resize w h (fun _ _ _ => Cell.blank) 0 0 none false
  | 2 => vt.resize w h vt.cells (w - 1) (h - 1) (some (w - 1, 0)) (vt.wrap = .deferred)
  | _ => vt.resize w h (fun b x y => vt.cells b (x + 1) y) (min vt.cx (w - 1)) 0 (some (0, h - 1)) false

structure StateRec where
  size : String := ""
  last : Option Element := none
  cursor : Option (Int × Int) := none
  saved : Option (Int × Int) := none
  visible : Option Bool := none
  ok : Bool := true

def parsePoint (s : String) : Option (Int × Int) :=
  if s = "-" then none else
  match s.splitOn "," with
  | [a, b] =>
    let pi (t : String) : Int := if t.startsWith "-" then - ((t.drop 1).toNat?.getD 0 : Int) else (t.toNat?.getD 0 : Int)
    some (pi a, pi b)
  | _ => none

/-- `w,h L=<elem|-> C=<p> S=<p> V=<v>` -/
def parseStateRec (s : String) : StateRec :=
  match s.trimAscii.toString.splitOn " L=" with
  | [size, rest] =>
    match rest.splitOn " C=" with
    | [l, rest2] =>
      match rest2.splitOn " S=" with
      | [c, rest3] =>
        match rest3.splitOn " V=" with
        | [sv, v] =>
          { size := size,
            last := if l = "-" then none else some ((rdElement.run (words l)).1),
            cursor := parsePoint c, saved := parsePoint sv,
            visible := if v.trimAscii.toString = "1" then some true else if v.trimAscii.toString = "0" then some false else none }
        | _ => { ok := false }
      | _ => { ok := false }
    | _ => { ok := false }
  | _ => { ok := false }

/-- driver-only optimisation: tabulate the visible part of both buffers so that lookups do not walk the
    closure chain built up by earlier prints (cells outside the size are never inspected), and drop the print
    log (the oracle only ever looks at the entries added by the current operation) -/
def compactVT (vt : VT) : VT :=
  if vt.w * vt.h > 40000 then { vt with log := [] } else   -- very large terminals: keep the closure chain (scripts are short)
  let n := vt.w * vt.h
  let tab (b : Bool) : Array Cell := Array.ofFn (n := n) fun i => vt.cells b (i.val % vt.w) (i.val / vt.w)
  let a0 := tab false
  let a1 := tab true
  { vt with log := [],
            cells := fun b x y => if x < vt.w ∧ y < vt.h then (if b then a1 else a0).getD (y * vt.w + x) Cell.blank else vt.cells b x y }

structure OSt where
  vt : VT
  sized : Bool := false                 -- declared size = actual size (after the first `sz`)
  exp : Option (Nat × Nat) := none      -- specification-level cursor knowledge
  savedExp : Option (Nat × Nat) := none
  rendKnown : Bool := false
  lastVis : Option Bool := none
  lastBuf : Option Bool := none
  lastMouse : Option Bool := none
  lastTitle : Option (List Byte) := none
  erased : Bool := false                -- an erase has happened: wrong-looking text after it also concerns C09
  fails : List String := []

def OSt.fail (s : OSt) (msg : String) : OSt := { s with fails := s.fails ++ [msg] }

def opInDomain (st : OSt) : Op → Bool
  | .writeElement e => e.wf
  | .writeString es => es.all Element.wf
  | .rawElement e => e.wf && st.rendKnown
  | .moveCursor p => st.sized && decide (0 ≤ p.x) && decide (0 ≤ p.y) && decide (p.x.toNat < st.vt.w) && decide (p.y.toNat < st.vt.h)
  | .setTitle t => titleClean t
  | .setSize e => decide (1 ≤ e.width) && decide (1 ≤ e.height)
  -- raw bytes are outside the properties' domain, except status queries (DSR 5/6, primary DA), which no terminal acts upon
  | .rawWrite bs => [[0x1B, 0x5B, 0x36, 0x6E], [0x1B, 0x5B, 0x35, 0x6E], [0x1B, 0x5B, 0x63], [0x1B, 0x5B, 0x30, 0x63]].contains bs
  | _ => true

/-- the rows / columns inspected by the grid checks: all of them, except on very large terminals (more than 40000
    cells), where the first and last few and the ones around the cursor are inspected -/
def probe (n c : Nat) (total : Nat) : List Nat :=
  if total ≤ 40000 then List.range n
  else ([0, 1, 2, c - 2, c - 1, c, c + 1, c + 2, n / 2, n - 3, n - 2, n - 1].filter (· < n)).eraseDups
def gridEqOn (a b : VT) (p : Nat → Nat → Bool) : Bool :=
  (probe a.h a.cy (a.w * a.h)).all fun y => (probe a.w a.cx (a.w * a.h)).all fun x => !(p x y) || decide (a.cell x y = b.cell x y)
def gridAllOn (a : VT) (p : Nat → Nat → Bool) (c : Cell) : Bool :=
  (probe a.h a.cy (a.w * a.h)).all fun y => (probe a.w a.cx (a.w * a.h)).all fun x => !(p x y) || decide (a.cell x y = c)

/-- positions of the glyphs printed since `n0`, checked against the specification-level expectation -/
def checkPositions (i : Nat) (w : Nat) : OSt → List (Nat × Nat × Cell) → OSt
  | st, [] => st
  | st, (x, y, _) :: rest =>
    let st := match st.exp with
      | some p => if p = (x, y) then st else st.fail s!"C02@{i} glyph expected at {p.1},{p.2} landed at {x},{y}"
      | none => st
    let st := { st with exp := match st.exp with
      | some p => if p.1 + 1 < w then some (p.1 + 1, p.2) else none
      | none => none }
    checkPositions i w st rest

def checkWrite (i : Nat) (st : OSt) (es : List Element) (bytes : List Byte) : OSt :=
  let before := st.vt
  let vt := before.feedAll bytes
  let new := vt.log.drop before.log.length
  let st := { st with vt := vt, rendKnown := true }
  let c09 := if st.erased then s!" C09@{i} (text after an erase)" else ""
  -- a write that has to designate / select a character set: what goes wrong there also concerns C18 (designators)
  let c18 := if es.any (fun e => !(decide (CharsetAgree e.glyph.cs before))) || (es.zip (es.drop 1)).any (fun p => p.1.glyph.cs != p.2.glyph.cs)
    then s!" C18@{i} (character-set change)" else ""
  let st := if new.map (·.2.2) = es.map cellOf then st
    else st.fail s!"C01@{i} C17@{i}{c09}{c18} cells shown differ from the elements requested ({new.length} glyphs for {es.length} elements)"
  let st := if new.flatMap (·.2.2.bytes) = es.flatMap (·.glyph.text) then st
    else st.fail s!"C17@{i} glyph bytes on the wire differ from to_string"
  if st.sized then checkPositions i vt.w st new else { st with exp := none }

def checkOp (c : OCfg) (beh : Behaviour) (i : Nat) (st : OSt) (op : Op) (bytes : List Byte) (rec : StateRec) : OSt :=
  let st := { st with vt := compactVT st.vt }
  let before := st.vt
  let st := match op with
    | .writeElement e =>
      -- C13: same rendition and character set already in effect (left by a write or erase) → payload only
      let st := if st.rendKnown && decide (before.rend = rendOf e.attr) && decide (CharsetAgree e.glyph.cs before) && bytes ≠ e.glyph.text
        then st.fail s!"C13@{i} element with the rendition already in effect sent more than its glyph bytes" else st
      checkWrite i st [e] bytes
    | .rawElement e => checkWrite i st [e] bytes
    | .writeString es => checkWrite i st es bytes
    | .defaultAttr => { st with vt := before.feedAll bytes, rendKnown := true }
    | .moveCursor p =>
      let tgt := (p.x.toNat, p.y.toNat)
      let st := if st.exp = some tgt && !bytes.isEmpty then st.fail s!"C13@{i} move to the position already occupied sent bytes" else st
      let vt := before.feedAll bytes
      let st := if (vt.cx, vt.cy) = tgt && !vt.pending then st else st.fail s!"C02@{i} cursor at {vt.cx},{vt.cy} pending={vt.pending} after move to {tgt.1},{tgt.2}"
      { st with vt := vt, exp := some tgt }
    | .hideCursor =>
      let st := if st.lastVis = some false && !bytes.isEmpty then st.fail s!"C13@{i} hide_cursor re-sent" else st
      { st with vt := before.feedAll bytes, lastVis := some false }
    | .showCursor =>
      let st := if st.lastVis = some true && !bytes.isEmpty then st.fail s!"C13@{i} show_cursor re-sent" else st
      { st with vt := before.feedAll bytes, lastVis := some true }
    | .saveCursor => { st with vt := before.feedAll bytes, savedExp := st.exp }
    | .restoreCursor =>
      let vt := before.feedAll bytes
      let st := { st with vt := vt, exp := st.savedExp }
      match st.savedExp with
      | some p => if (vt.cx, vt.cy) = p && !vt.pending then st else st.fail s!"C02@{i} restore did not return to the saved position"
      | none => st
    | .erase k =>
      let vt := before.feedAll bytes
      let reg := eraseRegion k before.cx before.cy
      let st := { st with vt := vt, rendKnown := true, erased := true }
      let st := if gridAllOn vt reg Cell.blank then st else st.fail s!"C09@{i} C03@{i} erased region is not default-attribute blanks"
      let st := if gridEqOn before vt (fun x y => !(reg x y)) then st else st.fail s!"C09@{i} cells outside the erased region changed"
      let st := if (vt.cx, vt.cy, vt.pending) = (before.cx, before.cy, before.pending) then st else st.fail s!"C09@{i} erase moved the cursor"
      if vt.rend = ({} : Rend) then st else st.fail s!"C09@{i} rendition after erase is not the default the library assumes"
    | .enableMouse => { st with vt := before.feedAll bytes, lastMouse := some true }
    | .disableMouse => { st with vt := before.feedAll bytes, lastMouse := some false }
    | .setTitle t => { st with vt := before.feedAll bytes, lastTitle := some t }
    | .normalBuffer => { st with vt := before.feedAll bytes, lastBuf := some false }
    | .altBuffer => { st with vt := before.feedAll bytes, lastBuf := some true }
    | .rawWrite _ => { st with vt := before.feedAll bytes }
    | .input _ => (if bytes.isEmpty then st else st.fail s!"C08@{i} input bytes caused output") 
    | .setSize e =>
      let st := if bytes.isEmpty then st else st.fail s!"C08@{i} set_size wrote bytes"
      { st with vt := resizeVT c before e.width.toNat e.height.toNat, sized := true, exp := none, savedExp := none }
  let vt := st.vt
  -- every byte is glyph payload or part of a well-formed control function
  let st := if vt.malformed then st.fail s!"C01@{i} a byte the reference terminal cannot place (malformed output)" else st
  let st := if vt.ps = .ground then st else st.fail s!"C01@{i} operation ended inside a control function"
  -- C11: modes
  let st := match st.lastVis with
    | some b => if vt.cursorVisible = b then st else st.fail s!"C11@{i} cursor visibility is not the one last requested"
    | none => st
  let st := match st.lastBuf with
    | some b => if vt.alt = b then st else st.fail s!"C11@{i} active buffer is not the one last requested"
    | none => st
  let mouseCapable := beh.basicMouse || beh.allMouse
  let st := match st.lastMouse with
    | some b =>
      if mouseCapable then
        (if beh.basicMouse then
          (if vt.mouse1000 = b && vt.mouse1003 = (initVT c).mouse1003 then st else st.fail s!"C11@{i} basic mouse tracking state wrong")
         else
          (if vt.mouse1003 = b && vt.mouse1000 = (initVT c).mouse1000 then st else st.fail s!"C11@{i} all-motion mouse tracking state wrong"))
      else st
    | none => st
  let st := match op with
    | .enableMouse | .disableMouse =>
      if !mouseCapable && !bytes.isEmpty then st.fail s!"C11@{i} mouse sequence sent without the capability" else st
    | .setTitle _ =>
      let capable := beh.titleBel || beh.titleSt
      let st := if !capable && !bytes.isEmpty then st.fail s!"C11@{i} title sequence sent without the capability" else st
      let st := if beh.titleBel && bytes.getLast? ≠ some 0x07 then st.fail s!"C11@{i} title not terminated by BEL" else st
      if !beh.titleBel && beh.titleSt && bytes.drop (bytes.length - 2) ≠ [0x1B, 0x5C] then st.fail s!"C11@{i} title not terminated by ST" else st
    | _ => st
  let st := match st.lastTitle with
    | some t => if (beh.titleBel || beh.titleSt) then (if vt.title = t then st else st.fail s!"C11@{i} window title is not the one last requested") else st
    | none => st
  -- C08: whatever the record reports as known is true of the terminal
  let st := if rec.ok then st else st.fail s!"C08@{i} state record unreadable"
  let st := match rec.cursor with
    | some (x, y) =>
      if st.sized then
        (if decide (0 ≤ x) && decide (0 ≤ y) && vt.cx = x.toNat && vt.cy = y.toNat && !vt.pending && decide (x.toNat < vt.w) && decide (y.toNat < vt.h) then st
         else st.fail s!"C08@{i} C02@{i} record says cursor {x},{y}; terminal at {vt.cx},{vt.cy} pending={vt.pending}")
      else st
    | none => st
  let st := match rec.saved with
    | some (x, y) =>
      if st.sized then
        (if decide (0 ≤ x) && decide (0 ≤ y) && vt.saved = some (x.toNat, y.toNat) then st
         else st.fail s!"C08@{i} C02@{i} record says saved position {x},{y}; terminal disagrees")
      else st
    | none => st
  let st := match rec.visible with
    | some b => if vt.cursorVisible = b then st else st.fail s!"C08@{i} record says visible={b}; terminal disagrees"
    | none => st
  let st := match rec.last with
    | some e =>
      if decide (vt.rend = rendOf e.attr) && decide (CharsetAgree e.glyph.cs vt) then st
      else st.fail s!"C08@{i} C01@{i} record's current attribute/charset is not the terminal's"
    | none => st
  -- C08: terminal-dependent state must be reported unknown
  let st := match op with
    | .setSize _ => if rec.cursor.isSome || rec.saved.isSome then st.fail s!"C08@{i} position reported known after a size change" else st
    | .restoreCursor => if st.sized && st.savedExp.isNone && rec.cursor.isSome then st.fail s!"C08@{i} position reported known after restoring a never-saved position" else st
    | .writeElement _ | .writeString _ | .rawElement _ =>
      if st.sized && st.exp.isNone && rec.cursor.isSome && before.cx + 1 ≥ before.w then st.fail s!"C08@{i} position reported known after writing the last column" else st
    | _ => st
  st

def splitAnswers (real : String) : List (List Byte × StateRec) :=
  (real.splitOn " ; ").map fun seg =>
    match seg.splitOn " / " with
    | [h, s] => (unhex h.trimAscii.toString, parseStateRec s)
    | _ => ([], { ok := false })

def runOps (c : OCfg) (beh : Behaviour) : Nat → OSt → List Op → List (List Byte × StateRec) → OSt
  | _, st, [], _ => st
  | _, st, _, [] => st.fail "C01 C08 missing answer"
  | i, st, op :: ops, (bytes, rec) :: rest =>
    if opInDomain st op then runOps c beh (i + 1) (checkOp c beh i st op bytes rec) ops rest
    else st   -- outside the properties' domain from here on: stop judging

def oracleTerminal (cfg rest real : String) : String :=
  let c := parseCfg cfg
  let (beh, ops) := parseScript rest
  if real.trimAscii.toString = "-" then "ok" else
  let st := runOps c beh 0 { vt := initVT c } ops (splitAnswers real)
  if st.fails.isEmpty then "ok" else "FAIL " ++ " | ".intercalate (st.fails.take 4)

end Tpp.Driver
