import Tpp.Driver.TermOracle
import Tpp.Model.Screen
/-!
Driver slice `Screen` (C03, C04).
  `S <bits> ; op ; op …` with ops
     `cv w h`            a new canvas of that size becomes the current canvas (`nc`: constructed in place, at the same address)
     `px x y <element>`  canvas[x][y] = element   (`pi`: via *(begin()+y*w+x), `pr`: via a range-for over the canvas)
     `rz w h`            canvas.resize
     `tsz w h`           terminal.set_size (the terminal itself is resized to w x h as well)
     `dr`                screen.draw(canvas)
     `t <op>`            an operation streamed straight to the screen's terminal between two draws (`t sv`, `t rs`,
                         `t mv x y`, `t hc`, `t sc`; the oracle judges scripts whose `t` ops do not print)
  answer: one segment per `dr` and per `t`: `<hex> / <state record>`, joined by ` ; ` (`-` when there is none).
Oracle configuration as for `T` lines (`W E R Z w h`).
-/
namespace Tpp.Driver.Screen
open Tpp Tpp.Driver

inductive SOp
  | cv (w h : Int) | px (x y : Int) (e : Element) | rz (w h : Int) | tsz (w h : Int) | dr
  | top (o : Op)     -- an operation streamed to the screen's terminal between two draws (`t sv`, `t rs`, `t mv x y`, `t hc`, `t sc`)

def rdSOp : Rd (Option SOp) := do
  let w ← Rd.word
  match w with
  | "cv" => do let a ← Rd.int; let b ← Rd.int; return some (.cv a b)
  -- `nc`: a new canvas object constructed at the address of the old one – for the model simply a new canvas
  | "nc" => do let a ← Rd.int; let b ← Rd.int; return some (.cv a b)
  | "px" => do let x ← Rd.int; let y ← Rd.int; let e ← rdElement; return some (.px x y e)
  -- the same assignment made through `begin() + y*w + x` (`pi`) or inside a range-for (`pr`): C16 says it is the same cell
  | "pi" => do let x ← Rd.int; let y ← Rd.int; let e ← rdElement; return some (.px x y e)
  | "pr" => do let x ← Rd.int; let y ← Rd.int; let e ← rdElement; return some (.px x y e)
  | "pe" => do let x ← Rd.int; let y ← Rd.int; let e ← rdElement; return some (.px x y e)   -- through the mutable `end()`
  | "rz" => do let a ← Rd.int; let b ← Rd.int; return some (.rz a b)
  | "tsz" => do let a ← Rd.int; let b ← Rd.int; return some (.tsz a b)
  | "dr" => return some .dr
  | "t" => do
      let o ← rdOp
      return o.map SOp.top
  | _ => return none

def parseS (rest : String) : Behaviour × List SOp :=
  match rest.splitOn ";" with
  | [] => ({}, [])
  | h :: ops =>
    -- `kr x y` keeps a reference to a cell, `sr <el>` / `si <el>` assign through it later (after a draw, say): for the model
    -- an assignment to that cell.  `cv` / `nc` / `rz` drop the kept reference.  Resolved here, while parsing.
    let step := fun (acc : List SOp × Option (Int × Int)) (o : String) =>
      match words o with
      | "kr" :: rest =>
        let ((x, y), _) := (do let x ← Rd.int; let y ← Rd.int; return (x, y) : Rd (Int × Int)).run rest
        (acc.1, some (x, y))
      | w :: rest =>
        if w = "sr" || w = "si" then
          match acc.2 with
          | some (x, y) => let (e, _) := rdElement.run rest; (acc.1 ++ [SOp.px x y e], acc.2)
          | none => acc
        else
          match (rdSOp.run (w :: rest)).1 with
          | some op => (acc.1 ++ [op], if w = "cv" || w = "nc" || w = "rz" then none else acc.2)
          | none => acc
      | [] => acc
    (rdBehaviour ((words h).headD "0" |>.toNat?.getD 0), (ops.foldl step ([], none)).1)

def inCanvas (c : Canvas) (x y : Int) : Bool := decide (0 ≤ x) && decide (x < c.size.width) && decide (0 ≤ y) && decide (y < c.size.height)

def runModel (beh : Behaviour) : List SOp → ScreenState → Canvas → TermState → List String
  | [], _, _, _ => []
  | op :: ops, scr, cvs, ts =>
    match op with
    | .cv w h => runModel beh ops scr (Canvas.new ⟨w, h⟩) ts
    | .px x y e => runModel beh ops scr (if inCanvas cvs x y then cvs.set x y e else cvs) ts
    | .rz w h => runModel beh ops scr (cvs.resize ⟨w, h⟩) ts
    | .tsz w h => runModel beh ops scr cvs (step beh ts (.setSize ⟨w, h⟩)).1
    | .top o =>
      let (ts', out) := step beh ts o
      s!"{hex out} / {showState ts'}" :: runModel beh ops scr cvs ts'
    | .dr =>
      let (scr', dops) := Screen.draw scr cvs
      let (ts', out) := Tpp.run beh ts dops
      s!"{hex out} / {showState ts'}" :: runModel beh ops scr' cvs ts'

def run (kind : Char) (rest : String) : Option String :=
  if kind ≠ 'S' then none else
  let (beh, ops) := parseS rest
  let outs := runModel beh ops {} (Canvas.new ⟨0, 0⟩) {}
  some (if outs.isEmpty then "-" else " ; ".intercalate outs)

-- ---------------------------------------------------------------- oracle
structure SSt where
  vt : VT
  cvs : Canvas := Canvas.new ⟨0, 0⟩
  drawn : Option Canvas := none         -- the canvas last drawn (specification level)
  sized : Bool := false                 -- terminal size = canvas size declared
  wantVisible : Option Bool := none     -- the cursor visibility last requested through the screen's terminal (C11)
  fails : List String := []
  stop : Bool := false

def SSt.fail (s : SSt) (m : String) : SSt := { s with fails := s.fails ++ [m] }

def canvasWF (c : Canvas) : Bool :=
  (regionCoords ⟨⟨0, 0⟩, c.size⟩).all fun p => (c.get p.1 p.2).wf

/-- cells of the canvas that differ (library element inequality) from the frame the draw is diffed against -/
def changedCells (base cvs : Canvas) : List (Int × Int) :=
  (regionCoords ⟨⟨0, 0⟩, cvs.size⟩).filter fun p => !(Element.eq (base.get p.1 p.2) (cvs.get p.1 p.2))

def checkDraw (c : OCfg) (i : Nat) (st : SSt) (bytes : List Byte) : SSt :=
  let before := compactVT st.vt
  let vt := before.feedAll bytes
  let cvs := st.cvs
  let st := { st with vt := vt }
  let sizeOK := decide (cvs.size.width = (vt.w : Int)) && decide (cvs.size.height = (vt.h : Int))
  -- a canvas without cells (zero width and/or height): nothing may be transmitted; it still counts as the
  -- previously drawn frame (of a different size) for the next draw.  The terminal keeps its size.
  if decide (cvs.size.width ≤ 0) || decide (cvs.size.height ≤ 0) then
    let new := vt.log.drop before.log.length
    let st := if new.isEmpty then st else st.fail s!"C04@{i} a canvas without cells transmitted {new.length} glyphs"
    let st := if vt.malformed then st.fail s!"C03@{i} C01@{i} malformed output" else st
    { st with drawn := some cvs }
  else
  -- the properties are claimed for the declared-size protocol only (DESIGN §5 C03): an undeclared size is
  -- outside the domain even when the terminal happens to have the canvas's size
  if !st.sized || !sizeOK || !canvasWF cvs then { st with stop := true } else
  -- C04: which glyphs were transmitted
  let base := match st.drawn with
    | some d => if d.size = cvs.size then d else Canvas.new cvs.size
    | none => Canvas.new cvs.size
  let expected := changedCells base cvs
  let erasedNow := match st.drawn with | some d => d.size != cvs.size | none => true
  let c09 := if erasedNow then s!" C09@{i} (text after the erase of a size-changing draw)" else ""
  let new := vt.log.drop before.log.length
  let st := if st.drawn.isSome && (st.drawn.map (fun d => decide (d = cvs))).getD false && !bytes.isEmpty
    then st.fail s!"C04@{i} drawing the canvas last drawn wrote {bytes.length} bytes" else st
  let st := if new.map (fun t => ((t.1 : Int), (t.2.1 : Int))) = expected then st
    else st.fail s!"C04@{i} transmitted {new.length} glyphs, {expected.length} cells changed (or positions/order differ)"
  let st := if new.map (·.2.2) = expected.map (fun p => cellOf (cvs.get p.1 p.2)) then st
    else st.fail s!"C04@{i} C01@{i}{c09} transmitted glyphs are not the changed cells' elements"
  -- C03: the display shows the canvas
  let bad := (regionCoords ⟨⟨0, 0⟩, cvs.size⟩).filter fun p => vt.cell p.1.toNat p.2.toNat ≠ cellOf (cvs.get p.1 p.2)
  let brSent := expected.any fun p => p.1 + 1 = cvs.size.width && p.2 + 1 = cvs.size.height
  let st := if bad.isEmpty then st
    else
      let known := c.wrap = .immediate && brSent
      let tag := if known then " [immediate-wrap bottom-right]" else ""
      -- after the terminal has scrolled, every later frame of this script is damaged too: stop judging
      { (st.fail s!"C03@{i} display differs from the canvas in {bad.length} cells, first at {(bad.headD (0,0)).1},{(bad.headD (0,0)).2}{tag}") with stop := known }
  let st := if vt.malformed then st.fail s!"C03@{i} C01@{i} malformed output" else st
  { st with drawn := some cvs }

def runOracle (c : OCfg) : Nat → SSt → List SOp → List (List Byte × StateRec) → SSt
  | _, st, [], _ => st
  | i, st, op :: ops, answers =>
    if st.stop then st else
    match op with
    | .cv w h => runOracle c (i + 1) { st with cvs := Canvas.new ⟨w, h⟩ } ops answers
    | .px x y e => runOracle c (i + 1) { st with cvs := if inCanvas st.cvs x y then st.cvs.set x y e else st.cvs } ops answers
    | .rz w h => runOracle c (i + 1) { st with cvs := st.cvs.resize ⟨w, h⟩ } ops answers
    | .tsz w h =>
      if decide (1 ≤ w) && decide (1 ≤ h) then
        -- declaring the size the terminal already has is not a resize of the terminal
        let vt' := if st.sized && st.vt.w = w.toNat && st.vt.h = h.toNat then st.vt else resizeVT c st.vt w.toNat h.toNat
        runOracle c (i + 1) { st with vt := vt', sized := true } ops answers
      else { st with stop := true }
    | .top o =>
      match answers with
      | [] => st.fail "C03 missing answer"
      | (bytes, _) :: rest =>
        -- only operations that print nothing keep the script in the domain (the screen does not know about text
        -- written behind its back); positions must be inside the size
        let inDomain := match o with
          | .saveCursor | .restoreCursor | .hideCursor | .showCursor => true
          | .input _ => true      -- close / is_alive / re-attach / input: nothing the output side knows about changes
          | .moveCursor p => decide (0 ≤ p.x) && decide (0 ≤ p.y) && decide (p.x.toNat < st.vt.w) && decide (p.y.toNat < st.vt.h)
          | _ => false
        if !inDomain then { st with stop := true } else
        let want := match o with
          | .hideCursor => some false
          | .showCursor => some true
          | _ => st.wantVisible
        let vt' := (compactVT st.vt).feedAll bytes
        let st := { st with vt := vt', wantVisible := want }
        let st := match want with
          | some b => if vt'.cursorVisible = b then st else st.fail s!"C11@{i} cursor visibility is not the one last requested"
          | none => st
        runOracle c (i + 1) st ops rest
    | .dr =>
      match answers with
      | [] => st.fail "C03 missing answer"
      | (bytes, _) :: rest =>
        let st := checkDraw c i st bytes
        -- C11: a draw is not a mode request – the cursor visibility last requested is still in effect after it
        let st := match st.wantVisible with
          | some b => if st.vt.cursorVisible = b then st else st.fail s!"C11@{i} cursor visibility after the draw is not the one last requested"
          | none => st
        runOracle c (i + 1) st ops rest

def oracle (kind : Char) (cfg rest real : String) : Option String :=
  if kind ≠ 'S' then none else
  let c := parseCfg cfg
  let (_, ops) := parseS rest
  if real.trimAscii.toString = "-" then some "ok" else
  let st := runOracle c 0 { vt := initVT c } ops (splitAnswers real)
  some (if st.fails.isEmpty then "ok" else "FAIL " ++ " | ".intercalate (st.fails.take 4))

end Tpp.Driver.Screen
