import Tpp.Driver.Proto
import Tpp.Model.Order
import Tpp.Ref.Glyphs
import Tpp.Model.Printers
/-!
Driver slice `Values` (property C15): comparison operators and hashing of the value types.

## Protocol

```
V <type> <value> <value> [<value>]
W <type> <value>
```

`<type>` and the encoding of a `<value>` (space-separated decimal numbers, negative numbers with `-`):

| type | C++ type            | value                                                                    |
|------|---------------------|--------------------------------------------------------------------------|
| `cs` | `character_set`     | `code`                                                                   |
| `gl` | `glyph`             | `cs b0 b1 b2` – ALL THREE storage bytes are written by the executor        |
| `lo` | `low_colour`        | `v` (stored enum value)                                                  |
| `hi` | `high_colour`       | `v` (stored palette value)                                               |
| `gr` | `greyscale_colour`  | `v` (stored palette value)                                               |
| `tc` | `true_colour`       | `r g b`                                                                  |
| `co` | `colour`            | `k a b c` (k: 0 low, 1 high, 2 grey, 3 rgb; shared encoding)             |
| `in` `un` `po` `bl` | `intensity` `underlining` `polarity` `blinking` | enum code             |
| `at` | `attribute`         | `fg(4) bg(4) intensity underlining polarity blinking`                    |
| `el` | `element`           | glyph(4) attribute(12)                                                   |
| `st` | `string`            | `n` then `n` elements                                                    |
| `pt` | `point`             | `x y`                                                                    |
| `ex` | `extent`            | `w h`                                                                    |
| `re` | `rectangle`         | `x y w h`                                                                |
| `cq` | `control_sequence`  | `initiator command meta nargs { len byte* }* extender`                   |
| `vk` | `virtual_key`       | `key modifiers repeat_count 0 byte` or `key modifiers repeat_count 1 <cq>` |
| `me` | `mouse::event`      | `action x y`                                                             |

**`V`** answers, for every ordered pair `(i, j)` of the 2 or 3 values (including `i = j`; the executor builds the
two operands as two separately constructed objects), the block

```
ij e n l le g ge c h
```

`e n l le g ge` = `a==b a!=b a<b a<=b a>b a>=b` as `0/1`; `c` = `a<=>b` as `-1/0/1`; `h` = `1/0` whether the REAL
hash values of `a` and `b` are equal (`-` for the types without `hash_value`).  Blocks are joined by ` | `.
No hash number is ever printed.  The model prints `h` as equality of the two `HashTree`s.

**`W`** ties `hashTree` to the real `hash_value`: the answer is the tree, flattened –
`(`, `)` around the children of a node, `b:<n>` for a byte, `e:<n>` for an enumeration value – followed by
`hash-ok`.  The executor derives the same description independently from the object's public fields, folds it
with the real `boost::hash_combine` on the real typed values, and prints `hash-ok` only if that fold equals both
`hash_value(obj)` and `std::hash<T>{}(obj)`; otherwise `hash-MISMATCH`.

## Oracle

The oracle judges the REAL `V` answers with the laws of the property only (it never calls `Tpp.Model.Order`):
derived operators consistent with `<=>`; `<=>` consistent with `<` and `==`; reflexivity on the `(i,i)` blocks;
`==` symmetric, `<=>` antisymmetric; exactly one of `a<b`, `a==b`, `b<a`; `a==b` implies equal hashes;
transitivity of `<` and of `==` over all triples; two values whose descriptions denote the same value
(identical after blanking the unused storage bytes of non-UTF-8 glyphs) must be `==`; two valid glyphs
(`Tpp.Ref.Glyphs`) with the same printed bytes and character set must be `==`.
-/
namespace Tpp.Driver.Values
open Tpp Tpp.Driver

/-! ### reading values -/

def rdPoint : Rd Point := do let x ← Rd.int; let y ← Rd.int; return ⟨x, y⟩
def rdExtent : Rd Extent := do let w ← Rd.int; let h ← Rd.int; return ⟨w, h⟩
def rdRectangle : Rd Rectangle := do let p ← rdPoint; let e ← rdExtent; return ⟨p, e⟩
def rdCharset : Rd Charset := do let n ← Rd.num; return (Charset.ofCode n).getD .usAscii
def rdTString : Rd TString := do let n ← Rd.num; rdElements n

def rdArgs : Nat → Rd (List (List Byte))
  | 0 => return []
  | n + 1 => do let len ← Rd.num; let a ← rdBytes len; let r ← rdArgs n; return a :: r

def rdControlSequence : Rd ControlSequence := do
  let i ← Rd.byte; let c ← Rd.byte; let m ← Rd.num; let n ← Rd.num
  let args ← rdArgs n
  let e ← Rd.byte
  return { initiator := i, command := c, «meta» := m != 0, arguments := args, extender := e }

def rdVirtualKey : Rd VirtualKey := do
  let k ← Rd.byte; let m ← Rd.byte; let rc ← Rd.int; let kind ← Rd.num
  if kind = 0 then
    let b ← Rd.byte
    return { key := k, modifiers := m, repeatCount := rc, sequence := .raw b }
  else
    let c ← rdControlSequence
    return { key := k, modifiers := m, repeatCount := rc, sequence := .control c }

def rdMouseEvent : Rd MouseEvent := do let a ← Rd.num; let p ← rdPoint; return { action := a, position := p }

/-- up to three values -/
def rdMany {α : Type} (rd : Rd α) : Nat → Rd (List α)
  | 0 => return []
  | n + 1 => do
    if ← Rd.more then
      let v ← rd
      let vs ← rdMany rd n
      return v :: vs
    else return []

/-! ### printing -/

mutual
def flatTree : HashTree → List String
  | .byte b => [s!"b:{b.toNat}"]
  | .enum n => [s!"e:{n}"]
  | .node cs => "(" :: (flatTrees cs ++ [")"])
def flatTrees : List HashTree → List String
  | [] => []
  | t :: ts => flatTree t ++ flatTrees ts
end

def bit (b : Bool) : String := if b then "1" else "0"
def showOrdering : Ordering → String
  | .lt => "-1" | .eq => "0" | .gt => "1"

/-- everything the two protocol kinds need to know about one type -/
structure Ty (α : Type) where
  rd : Rd α
  eq : α → α → Bool
  lt : α → α → Bool
  cmp : α → α → Ordering
  hash : Option (α → HashTree)
  /-- the description with everything the value does not denote blanked out (oracle only) -/
  canon : α → α
  same : α → α → Bool
  /-- the text `out << value` appends to a stream in its default formatting state (kind `p`) -/
  print : α → List Byte

/-- one block of a `V` answer, from the MODEL.  Derived operators as the compiler rewrites them:
    `a != b` is `!(a == b)`; `a <= b`, `a > b`, `a >= b` are `(a <=> b) <= 0`, `> 0`, `>= 0`. -/
def modelBlock {α : Type} (t : Ty α) (a b : α) : String :=
  let c := t.cmp a b
  let h := match t.hash with
    | some f => bit (f a == f b)
    | none => "-"
  s!"{bit (t.eq a b)} {bit (!t.eq a b)} {bit (t.lt a b)} {bit (c != .gt)} {bit (c == .gt)} {bit (c != .lt)} {showOrdering c} {h}"

def index {α : Type} (xs : List α) : List (Nat × α) := (List.range xs.length).zip xs

def runV {α : Type} (t : Ty α) (ws : List String) : String :=
  let (vs, _) := (rdMany t.rd 3).run ws
  let iv := index vs
  let blocks := iv.flatMap fun (i, a) => iv.map fun (j, b) => s!"{i}{j} {modelBlock t a b}"
  if blocks.isEmpty then "-" else " | ".intercalate blocks

def runW {α : Type} (t : Ty α) (ws : List String) : String :=
  match t.hash with
  | none => "not-hashable"
  | some f =>
    let (v, _) := t.rd.run ws
    " ".intercalate (flatTree (f v)) ++ " hash-ok"

/-! ### the oracle: laws only -/

structure Block where
  i : Nat
  j : Nat
  e : Bool
  n : Bool
  l : Bool
  le : Bool
  g : Bool
  ge : Bool
  c : Int
  h : Option Bool
deriving Inhabited

def parseBlock (s : String) : Option Block :=
  match words s with
  | [ij, e, n, l, le, g, ge, c, h] =>
    let d := ij.toList
    let b := fun (w : String) => w == "1"
    let ci : Int := if c == "-1" then -1 else if c == "1" then 1 else 0
    match d with
    | [di, dj] =>
      some { i := di.toNat - 48, j := dj.toNat - 48, e := b e, n := b n, l := b l, le := b le, g := b g, ge := b ge,
             c := ci, h := if h == "-" then none else some (b h) }
    | _ => none
  | _ => none

def findBlock (bs : List Block) (i j : Nat) : Option Block := bs.find? fun b => b.i == i && b.j == j

/-- all violated laws for the real answers `bs` over `n` values; `same i j` = the two descriptions denote
    the same value; `mustEq i j` = the property's glyph clause applies -/
def lawFailures (n : Nat) (bs : List Block) (same mustEq : Nat → Nat → Bool) (hashable : Bool) : List String :=
  let idx := List.range n
  let get := fun i j => (findBlock bs i j).getD default
  let missing := idx.flatMap fun i => idx.filterMap fun j =>
    if (findBlock bs i j).isNone then some s!"missing-block {i}{j}" else none
  let perBlock := bs.flatMap fun b =>
    (if b.n != !b.e then [s!"ne-vs-eq {b.i}{b.j}"] else []) ++
    (if b.le != (b.c ≤ 0) then [s!"le-vs-cmp {b.i}{b.j}"] else []) ++
    (if b.g != (b.c > 0) then [s!"gt-vs-cmp {b.i}{b.j}"] else []) ++
    (if b.ge != (b.c ≥ 0) then [s!"ge-vs-cmp {b.i}{b.j}"] else []) ++
    (if b.l != (b.c < 0) then [s!"cmp-vs-lt {b.i}{b.j}"] else []) ++
    (if b.e != (b.c == 0) then [s!"cmp-vs-eq {b.i}{b.j}"] else []) ++
    (if hashable && b.e && b.h != some true then [s!"equal-but-hash-differs {b.i}{b.j}"] else []) ++
    (if hashable != b.h.isSome then [s!"hash-field {b.i}{b.j}"] else [])
  let refl := idx.flatMap fun i =>
    let b := get i i
    (if !b.e then [s!"eq-not-reflexive {i}"] else []) ++ (if b.l then [s!"lt-not-irreflexive {i}"] else [])
  let pairs := idx.flatMap fun i => idx.flatMap fun j =>
    if i < j then
      let ab := get i j; let ba := get j i
      (if ab.e != ba.e then [s!"eq-not-symmetric {i}{j}"] else []) ++
      (if ab.c != - ba.c then [s!"cmp-not-antisymmetric {i}{j}"] else []) ++
      (if ab.h != ba.h then [s!"hash-equality-not-symmetric {i}{j}"] else []) ++
      (if (if ab.l then 1 else 0) + (if ab.e then 1 else 0) + (if ba.l then 1 else 0) != 1
        then [s!"not-exactly-one-of-lt-eq-gt {i}{j}"] else [])
    else []
  let sameDesc := idx.flatMap fun i => idx.flatMap fun j =>
    let b := get i j
    (if same i j && !b.e then [s!"same-value-not-equal {i}{j}"] else []) ++
    (if mustEq i j && !b.e then [s!"same-printed-glyph-not-equal {i}{j}"] else [])
  let triples := idx.flatMap fun i => idx.flatMap fun j => idx.flatMap fun k =>
    (if (get i j).l && (get j k).l && !(get i k).l then [s!"lt-not-transitive {i}{j}{k}"] else []) ++
    (if (get i j).e && (get j k).e && !(get i k).e then [s!"eq-not-transitive {i}{j}{k}"] else [])
  missing ++ perBlock ++ refl ++ pairs ++ sameDesc ++ triples

/-- the property's glyph clause, from `Tpp.Ref.Glyphs` -/
def glyphMustEq (a b : Glyph) : Bool :=
  decide a.Valid && decide b.Valid && a.printed == b.printed && decide (a.cs = b.cs)

def oracleV {α : Type} (t : Ty α) (tyName : String) (mustEq : α → α → Bool) (ws : List String) (real : String) : String :=
  let (vs, _) := (rdMany t.rd 3).run ws
  let parsed := (real.splitOn " | ").map parseBlock
  if parsed.any Option.isNone then s!"FAIL C15 {tyName} unparsable-answer {real}" else
  let bs := parsed.filterMap id
  let arr := vs.toArray
  let rel := fun (f : α → α → Bool) (i j : Nat) =>
    match arr[i]?, arr[j]? with
    | some a, some b => f a b
    | _, _ => false
  let fails := lawFailures vs.length bs (rel fun a b => t.same (t.canon a) (t.canon b)) (rel mustEq) t.hash.isSome
  match fails with
  | [] => "ok"
  | f :: _ => s!"FAIL C15 {tyName} {f} (all: {", ".intercalate fails})"

/-! ### the types -/

def canonGlyph (g : Glyph) : Glyph := if g.cs = .utf8 then g else { g with b1 := 0, b2 := 0 }
def canonElement (e : Element) : Element := { e with glyph := canonGlyph e.glyph }

def mkTy {α : Type} [DecidableEq α] (rd : Rd α) (eq lt : α → α → Bool) (cmp : α → α → Ordering)
    (hash : Option (α → HashTree)) (print : α → List Byte) (canon : α → α := id) : Ty α :=
  { rd := rd, eq := eq, lt := lt, cmp := cmp, hash := hash, canon := canon, same := fun a b => decide (a = b), print := print }

def tyCharset := mkTy rdCharset Charset.eq Charset.lt Charset.cmp (some Charset.hashTree) printCharset
def tyGlyph := mkTy rdGlyph Glyph.eq Glyph.lt Glyph.cmp (some Glyph.hashTree) printGlyph canonGlyph
def tyLow := mkTy (do let v ← Rd.byte; return (⟨v⟩ : LowColour)) LowColour.eq LowColour.lt LowColour.cmp (some LowColour.hashTree) (fun c => showLowColour c.value)
def tyHigh := mkTy (do let v ← Rd.byte; return (⟨v⟩ : HighColour)) HighColour.eq HighColour.lt HighColour.cmp (some HighColour.hashTree) (fun c => showHighColour c.value)
def tyGrey := mkTy (do let v ← Rd.byte; return (⟨v⟩ : GreyscaleColour)) GreyscaleColour.eq GreyscaleColour.lt
  GreyscaleColour.cmp (some GreyscaleColour.hashTree) (fun c => showGreyColour c.shade)
def tyTrue := mkTy (do let r ← Rd.byte; let g ← Rd.byte; let b ← Rd.byte; return (⟨r, g, b⟩ : TrueColour))
  TrueColour.eq TrueColour.lt TrueColour.cmp (some TrueColour.hashTree) (fun c => showTrueColour c.red c.green c.blue)
def tyColour := mkTy rdColour Colour.eq Colour.lt Colour.cmp (some Colour.hashTree) showColourText
def tyIntensity := mkTy (do let n ← Rd.num; return rdIntensity n) Intensity.eq Intensity.lt Intensity.cmp (some Intensity.hashTree) printIntensity
def tyUnderlining := mkTy (do let n ← Rd.num; return rdUnderlining n) Underlining.eq Underlining.lt Underlining.cmp
  (some Underlining.hashTree) printUnderlining
def tyPolarity := mkTy (do let n ← Rd.num; return rdPolarity n) Polarity.eq Polarity.lt Polarity.cmp (some Polarity.hashTree) printPolarity
def tyBlinking := mkTy (do let n ← Rd.num; return rdBlinking n) Blinking.eq Blinking.lt Blinking.cmp (some Blinking.hashTree) printBlinking
def tyAttr := mkTy rdAttr Attr.eq Attr.lt Attr.cmp (some Attr.hashTree) printAttr
def tyElement := mkTy rdElement Element.eq Element.lt Element.cmp (some Element.hashTree) printElement canonElement
def tyString := mkTy rdTString TString.eq TString.lt TString.cmp (some TString.hashTree) printString (fun s => s.map canonElement)
def tyPoint := mkTy rdPoint Point.eq Point.lt Point.cmp none printPoint
def tyExtent := mkTy rdExtent Extent.eq Extent.lt Extent.cmp none printExtent
def tyRectangle := mkTy rdRectangle Rectangle.eq Rectangle.lt Rectangle.cmp none printRectangle
def tyControlSequence := mkTy rdControlSequence ControlSequence.eq ControlSequence.lt ControlSequence.cmp none printCtrlSeq
def tyVirtualKey := mkTy rdVirtualKey VirtualKey.eq VirtualKey.lt VirtualKey.cmp none printVKey
def tyMouseEvent := mkTy rdMouseEvent MouseEvent.eq MouseEvent.lt MouseEvent.cmp none printMouse

/-- apply `k` to the `Ty` named by the first word -/
def withTy (name : String) (k : {α : Type} → Ty α → (α → α → Bool) → String) : String :=
  let no := fun {α : Type} (_ _ : α) => false
  match name with
  | "cs" => k tyCharset no
  | "gl" => k tyGlyph glyphMustEq
  | "lo" => k tyLow no
  | "hi" => k tyHigh no
  | "gr" => k tyGrey no
  | "tc" => k tyTrue no
  | "co" => k tyColour no
  | "in" => k tyIntensity no
  | "un" => k tyUnderlining no
  | "po" => k tyPolarity no
  | "bl" => k tyBlinking no
  | "at" => k tyAttr no
  | "el" => k tyElement (fun a b => glyphMustEq a.glyph b.glyph && decide (a.attr = b.attr))
  | "st" => k tyString no
  | "pt" => k tyPoint no
  | "ex" => k tyExtent no
  | "re" => k tyRectangle no
  | "cq" => k tyControlSequence no
  | "vk" => k tyVirtualKey no
  | "me" => k tyMouseEvent no
  | _ => "?type"

/-- model answer for a case line of this slice; `none` when the kind is not ours -/
def run (kind : Char) (rest : String) : Option String :=
  match kind, words rest with
  | 'V', name :: ws => some (withTy name fun t _ => runV t ws)
  | 'W', name :: ws => some (withTy name fun t _ => runW t ws)
  | 'p', name :: ws => some (withTy name fun t _ => hex (t.print (t.rd.run ws).1))
  | 'p', [] => some "?type"
  | 'V', [] => some "?type"
  | 'W', [] => some "?type"
  | _, _ => none

/-- oracle verdict (`ok` / `FAIL <ids> …`) given the case, the configuration prefix and the real answer -/
def oracle (kind : Char) (_cfg rest real : String) : Option String :=
  match kind, words rest with
  | 'V', name :: ws =>
    -- operators must say the same before and after an observer (hash_value) has run on an operand
    if (real.splitOn "unstable-after-hash").length > 1 then
      some s!"FAIL C15 {name} comparison-changes-after-hashing-an-operand {real.take 120}"
    else some (withTy name fun t mustEq => oracleV t name mustEq ws real.trimAscii.toString)
  | 'p', _ => some "ok"   -- the stream inserters are tied, not judged: no property speaks about them
  | 'W', _ => some "ok"   -- a hash-MISMATCH is a broken tie, not a broken law: reported by the correspondence
  | _, _ => none

end Tpp.Driver.Values
