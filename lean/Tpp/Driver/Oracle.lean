import Tpp.Driver.Run
import Tpp.Ref.Designators
import Tpp.Driver.TermOracle
/-!
Property oracles evaluated on the IMPLEMENTATION's observed answers (second driver pass).
Input: `O<kind><case> # <real answer>`; output `ok` or `FAIL <property ids and details>`.
Only `Tpp.Ref` definitions and the property statements' own arithmetic are used here – never the model
of the library.
-/
namespace Tpp.Driver
open Tpp

def oracleLookup (rest real : String) : String :=
  let (code, _) := (do let n ← Rd.num; rdBytes n : Rd (List Byte)).run (words rest)
  let inDomain := code.length = 1 ∨ (code.length = 2 ∧ code.head? = some 0x25) ∨ code.length = 0
  if !inDomain then "ok" else
  let expected := match Ref.scsLookup code with | some cs => toString cs.code | none => "-"
  if expected = real.trimAscii.toString then "ok" else s!"FAIL C18 lookup expected {expected} got {real}"

def oracleEncodeCs (rest real : String) : String :=
  let n := ((words rest).headD "0").toNat?.getD 0
  match Charset.ofCode n with
  | some .utf8 => "ok"
  | some cs =>
    let expected := hex (Ref.primaryDesignator cs)
    if expected = real.trimAscii.toString then "ok" else s!"FAIL C18 encode expected {expected} got {real}"
  | none => "ok"

def oracleHigh (rest real : String) : String :=
  match (words rest).map (·.toNat?.getD 0) with
  | [r, g, b] =>
    if r < 6 ∧ g < 6 ∧ b < 6 then
      let expected := s!"{16 + 36 * r + 6 * g + b} {r} {g} {b}"
      if expected = real.trimAscii.toString then "ok" else s!"FAIL C19 high expected {expected} got {real}"
    else "ok"
  | _ => "ok"

def oracleGrey (rest real : String) : String :=
  let s := ((words rest).headD "0").toNat?.getD 0
  if s < 24 then
    let expected := s!"{232 + s} {s}"
    if expected = real.trimAscii.toString then "ok" else s!"FAIL C19 grey expected {expected} got {real}"
  else "ok"

def splitReal (s : String) : String × String :=
  match s.splitOn " # " with
  | [a, b] => (a, b)
  | a :: rest => (a, " # ".intercalate rest)
  | [] => ("", "")

def runOracle (line : String) : String :=
  -- optional configuration prefix `cfg | case`
  let (cfg, body) := match line.splitOn " | " with
    | [c, b] => (c, b)
    | _ => ("", line)
  let (case_, real) := splitReal body
  if case_.isEmpty then "ok" else
  let case_ := if case_.front = '~' then (case_.drop 1).toString else case_      -- run under a grouping locale: same judgement
  if case_.isEmpty then "ok" else
  let kind := case_.front
  let rest := (case_.drop 1).toString
  match kind with
  | 'D' => oracleLookup rest real
  | 'd' => oracleLookup rest real
  | 'N' => oracleEncodeCs rest real
  | 'H' => oracleHigh rest real
  | 'Y' => oracleGrey rest real
  | 'T' => oracleTerminal cfg rest real
  | 'K' =>
    -- one canvas, several screens: each screen is judged as the `S` script it is, and what it is sent must not depend on
    -- another screen having drawn the same canvas (C12)
    match real.splitOn " ## " with
    | [shared, alone] =>
      let sh := shared.splitOn " || "
      let al := alone.splitOn " || "
      let judged := ((multiScripts rest).zip sh).map fun (sc, r) => (Screen.oracle 'S' cfg sc r.trimAscii.toString).getD "ok"
      let tfail := (judged.find? (· ≠ "ok")).map fun v => (v.drop 5).toString
      let c12 := (((List.range sh.length).zip (sh.zip al)).find? fun (_, a, b) => a.trimAscii.toString ≠ b.trimAscii.toString).map
        fun (k, _, _) => s!"C12 screen {k} of the script is sent different bytes when the canvas is also drawn by the other screens than when it draws a canvas of its own"
      match c12, tfail with
      | none, none => "ok"
      | some a, none => "FAIL " ++ a
      | none, some b => "FAIL " ++ b
      | some a, some b => "FAIL " ++ a ++ " | " ++ b
    | _ => "FAIL C12 unreadable answer"
  | 'M' =>
    -- the real answer is `<shared> ## <alone>`: each terminal's bytes must not depend on the manipulator OBJECT having been
    -- used on another terminal before (C12: no hidden state shared between instances), and each terminal's bytes are
    -- judged as the terminal script they are (C01 … C13)
    match real.splitOn " ## " with
    | [shared, alone] =>
      let sh := shared.splitOn " || "
      let al := alone.splitOn " || "
      let scripts := multiScripts rest
      let judged := (scripts.zip sh).map fun (sc, r) => oracleTerminal cfg sc r.trimAscii.toString
      let tfail := (judged.find? (· ≠ "ok")).map fun v => (v.drop 5).toString
      let c12 := (((List.range sh.length).zip (sh.zip al)).find? fun (_, a, b) => a.trimAscii.toString ≠ b.trimAscii.toString).map
        fun (k, _, _) => s!"C12 terminal {k} of the script is sent different bytes when the manipulator objects are shared with the other terminals than when it runs alone"
      match c12, tfail with
      | none, none => "ok"
      | some a, none => "FAIL " ++ a
      | none, some b => "FAIL " ++ b
      | some a, some b => "FAIL " ++ a ++ " | " ++ b
    | _ => "FAIL C12 unreadable answer"
  | _ =>
    (Values.oracle kind cfg rest real <|> Canvas.oracle kind cfg rest real <|> Input.oracle kind cfg rest real
      <|> Markup.oracle kind cfg rest real <|> Strings.oracle kind cfg rest real
      <|> Screen.oracle kind cfg rest real).getD "ok"

end Tpp.Driver
