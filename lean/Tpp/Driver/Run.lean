import Tpp.Driver.Proto
import Tpp.Driver.Values
import Tpp.Driver.Canvas
import Tpp.Driver.Input
import Tpp.Driver.Markup
import Tpp.Driver.Strings
import Tpp.Driver.Screen
/-! The model side of every protocol kind. -/
namespace Tpp.Driver
open Tpp

def runTerminal (rest : String) : String :=
  let (beh, ops) := parseScript rest
  let rec go (s : TermState) : List Op → List String
    | [] => []
    | op :: ops =>
      let (s', out) := step beh s op
      s!"{hex out} / {showState s'}" :: go s' ops
  let outs := go {} ops
  if outs.isEmpty then "-" else " ; ".intercalate outs

/-- kind `M`: `bits bits [bits] ; op ; op …` – the same operations on several terminals.  The model has no manipulator
    OBJECTS (a manipulator is a value): every terminal behaves as if it ran the script alone. -/
def multiScripts (rest : String) : List String :=
  match rest.splitOn ";" with
  | [] => []
  | h :: ops => (words h).map fun b => ";".intercalate (s!" {b} " :: ops)

def runMulti (rest : String) : String :=
  let j := " || ".intercalate ((multiScripts rest).map runTerminal)
  s!"{j} ## {j}"

def runLookup (rest : String) : String :=
  let (code, _) := (do let n ← Rd.num; rdBytes n : Rd (List Byte)).run (words rest)
  match lookupCharset code with | some cs => toString cs.code | none => "-"

def runEncodeCs (rest : String) : String :=
  let n := ((words rest).headD "0").toNat?.getD 0
  match Charset.ofCode n with
  | some cs => hex (encodeCharset cs)
  | none => "?"

def runHigh (rest : String) : String :=
  let ((r, g, b), _) := (do let r ← Rd.byte; let g ← Rd.byte; let b ← Rd.byte; return (r, g, b) : Rd _).run (words rest)
  let v := encodeHigh r g b
  s!"{v.toNat} {(highRed v).toNat} {(highGreen v).toNat} {(highBlue v).toNat}"

def runComponents (rest : String) : String :=
  let v := UInt8.ofNat (((words rest).headD "0").toNat?.getD 0)
  s!"{(highRed v).toNat} {(highGreen v).toNat} {(highBlue v).toNat} {(greyComponent v).toNat}"

def runGrey (rest : String) : String :=
  let s := UInt8.ofNat (((words rest).headD "0").toNat?.getD 0)
  let v := encodeGrey s
  s!"{v.toNat} {(greyComponent v).toNat}"

def runLine (line : String) : String :=
  if line.isEmpty then "" else
  -- a leading `~`: the executor runs the line under a digit-grouping global locale; the library must not notice
  let line := if line.front = '~' then (line.drop 1).toString else line
  if line.isEmpty then "" else
  let kind := line.front
  let rest := (line.drop 1).toString
  match kind with
  | 'T' => runTerminal rest
  | 'M' => runMulti rest
  | 'K' =>
    -- one canvas drawn by several screens: a canvas is a value, so every screen behaves as in its own `S` script
    let j := " || ".intercalate ((multiScripts rest).map fun sc => (Screen.run 'S' sc).getD "?")
    s!"{j} ## {j}"
  | 'D' => runLookup rest
  | 'd' => runLookup rest     -- the same lookup made in constant evaluation (the executor's compile-time tables)
  | 'N' => runEncodeCs rest
  | 'H' => runHigh rest
  | 'X' => runComponents rest
  | 'Y' => runGrey rest
  | _ =>
    (Values.run kind rest <|> Canvas.run kind rest <|> Input.run kind rest <|> Markup.run kind rest
      <|> Strings.run kind rest <|> Screen.run kind rest).getD "?kind"

end Tpp.Driver
