import Tpp.Driver.Proto
import Tpp.Model.Strings
import Tpp.Model.StringOps
import Tpp.Model.Ctors
import Tpp.Model.Printers
import Tpp.Driver.Values
import Tpp.Ref.Render
import Tpp.Driver.TermOracle
/-!
Driver slice `Strings` (C17).
  `Z <hex>`                      string(ptr, len)          → `<to_string hex> <size>`
  `z n <n elems> m <m elems>`    a, b                      → `<to_string a> <to_string b> <to_string (a+b)> <to_string (a+=b)>`
  `w <bits> n <n elems>`         fresh terminal << string  → `<wire hex> / <to_string hex>`
  `P op ; op ; …`                a program over `class string` on registers 0..3 (register numbers are taken mod 4):
       `cz r <hex>` string(char const*) (a NUL is appended to the memory)   `cl r <hex>` string(ptr, len)
       `cs r <hex>` string(std::string)   `ca r <hex> <attr>` string(std::string, attribute)   `cn r n <elem>` string(n, elem)
       `ci r n <elems>` string(first, last)   `il r n <elems>` string{…} (n ≤ 3)   `ts r <hex>` ""_ts
       `ae r <elem>` r += elem   `as r q` r += q   `pe r q <elem>` r = q + elem   `ps r q t` r = q + t
       `ie r pos <elem>` insert   `ir r pos q a b` range insert   `ea r` erase()   `ef r pos` erase(it)   `er r a b` erase(it, it)
       `sw r q` swap   `ix r i <elem>` r[i] = elem   `ob r` to_string(r) taken at that point (an observation)
     → per register `<size> <to_string hex> ; <elem> ; <elem> …`, joined by ` | `, then ` # k=1` (accessors agree), then ` # obs <hex> <hex> …` (the mid-program observations)
  `Q <colour> <state bits>`      `out << colour` on a stream in a non-default formatting state → `<text hex> <text hex>` (via the
                                 variant / directly); bits: 1 hex, 2 oct, 4 left, 8 internal, 16 showbase, 32 showpos, 64 uppercase, 128 fill
  `G g1 b cs` glyph(byte, charset)   `G g2 t0` / `G g3 t0 t1` / `G g4 t0 t1 t2` glyph(char8_t const(&)[n])
  `G gp <hex>` glyph(char const*) on that memory followed by three NULs   `G e1 b <attr>` element(byte, attribute)
     → the glyph / element, then ` / <to_string of a one-element string holding it>`
-/
namespace Tpp.Driver.Strings
open Tpp Tpp.Driver

def rdTwo : Rd (List Element × List Element) := do
  let n ← Rd.num; let a ← rdElements n; let m ← Rd.num; let b ← rdElements m; return (a, b)

/-- parse one op of a `P` program into the polymorphic machine, with the element contents built by `mk` -/
def rdSeqOp : Rd (Option (SeqOp Element)) := do
  let w ← Rd.word
  let R : Rd Nat := do let n ← Rd.num; return n % 4
  match w with
  | "cz" => do let r ← R; let h ← Rd.word; return some (.set r (TString.ofCStr (unhex h ++ [0])))
  -- `cb` / `cc`: string(char array) – the array is larger than the C string in it and holds stale bytes after the NUL
  | "cb" => do let r ← R; let h ← Rd.word; return some (.set r (TString.ofCStr ((unhex h).take 80 ++ [0])))
  | "cc" => do let r ← R; let h ← Rd.word; return some (.set r (TString.ofCStr ((unhex h).take 80 ++ [0])))
  | "cl" => do let r ← R; let h ← Rd.word; return some (.set r (TString.ofBytes (unhex h)))
  | "cs" => do let r ← R; let h ← Rd.word; return some (.set r (TString.ofBytes (unhex h)))
  | "ca" => do let r ← R; let h ← Rd.word; let a ← rdAttr; return some (.set r (TString.withAttr a (TString.ofBytes (unhex h))))
  | "cn" => do let r ← R; let n ← Rd.num; let e ← rdElement; return some (.set r (List.replicate n e))
  | "ci" => do let r ← R; let n ← Rd.num; let es ← rdElements n; return some (.set r es)
  | "il" => do let r ← R; let n ← Rd.num; let es ← rdElements n; return some (.set r (es.take 3))
  | "ts" => do let r ← R; let h ← Rd.word; return some (.set r (TString.ofBytes (unhex h)))
  | "ae" => do let r ← R; let e ← rdElement; return some (.addE r e)
  | "as" => do let r ← R; let q ← R; return some (.addS r q)
  | "pe" => do let r ← R; let q ← R; let e ← rdElement; return some (.plusE r q e)
  -- `am r q t`: r += std::move(copy of t) (q ignored);  `pm r q t`: r = q + std::move(copy of t);  `mv r q`: r = std::move(q), q = {};
  -- `sa r`: self-assignment – value semantics: the same sequence operations as their copying counterparts
  | "am" => do let r ← R; let _ ← R; let t ← R; return some (.addS r t)
  | "pm" => do let r ← R; let q ← R; let t ← R; return some (.plusS r q t)
  | "mv" => do let r ← R; let q ← R; return some (.moveS r q)
  | "sa" => do let r ← R; return some (.obsNone r)
  | "ps" => do let r ← R; let q ← R; let t ← R; return some (.plusS r q t)
  | "ie" => do let r ← R; let p ← Rd.num; let e ← rdElement; return some (.insE r p e)
  | "ir" => do let r ← R; let p ← Rd.num; let q ← R; let a ← Rd.num; let b ← Rd.num; return some (.insR r p q a b)
  | "ea" => do let r ← R; return some (.eraseAll r)
  | "ef" => do let r ← R; let p ← Rd.num; return some (.eraseFrom r p)
  | "er" => do let r ← R; let a ← Rd.num; let b ← Rd.num; return some (.eraseRange r a b)
  | "sw" => do let r ← R; let q ← R; return some (.swap r q)
  | "ix" => do let r ← R; let i ← Rd.num; let e ← rdElement; return some (.setAt r i e)
  | "ob" => do let r ← R; return some (.obs r)
  -- `tw r`: the register streamed to a fresh terminal (an observation of the WIRE): encoded as an observation of register r + 4
  | "tw" => do let r ← R; return some (.obs (r + 4))
  -- `cq r q`: the comparison operators and hashes of two registers (an observation)
  | "cq" => do let r ← R; let q ← R; return some (.obs2 r q)
  -- `bi r i <elem>` / `ri r i <elem>`: assignment through `*(begin()+i)` / `*(rbegin()+i)`
  | "bi" => do let r ← R; let i ← Rd.num; let e ← rdElement; return some (.setAt r i e)
  | "ri" => do let r ← R; let i ← Rd.num; let e ← rdElement; return some (.setAtRev r i e)
  | _ => return none

def parseProgram (rest : String) : List (SeqOp Element) :=
  (rest.splitOn ";").filterMap fun o => (rdSeqOp.run (words o)).1

def showReg (es : List Element) : String :=
  s!"{es.length} {hex (TString.toString es)}" ++ String.join (es.map fun e => " ; " ++ showElement e)

/-- the observations made in mid-program (`ob r` = `to_string(r)` at that point), in program order -/
def observations {α} (text : List α → List Byte) (cmp : List α → List α → String) (wire : List α → String := fun _ => "W?") :
    Regs α → List (SeqOp α) → List String
  | _, [] => []
  | g, .obs r :: ops =>
    (if r < 4 then hex (text (g r)) else "W" ++ wire (g (r - 4))) :: observations text cmp wire g ops
  | g, .obs2 r q :: ops => cmp (g r) (g q) :: observations text cmp wire g ops
  | g, op :: ops => observations text cmp wire (op.apply g) ops

/-- `== != < > <=> hash`: what the executor prints for two strings (hash: `1` when the hashes are equal, printed only
    when the strings compare equal, `-` otherwise) -/
def cmpBlock (a b : List Element) : String :=
  let e := TString.eq a b
  let c := match TString.cmp a b with | .lt => "-1" | .eq => "0" | .gt => "1"
  let bit (x : Bool) : String := if x then "1" else "0"
  s!"{bit e}{bit (!e)}{bit (TString.lt a b)}{bit (TString.lt b a)}:{c}:{if e then "1" else "-"}"

/-- `fresh terminal << string`: the wire bytes and the state record, as one word -/
def wireOf (es : List Element) : String :=
  let (s', out) := step {} {} (.writeString es)
  s!"{hex out}/{(showState s').replace " " "_"}"

def runProgram (rest : String) : String :=
  let ops := parseProgram rest
  let g := SeqOp.run (fun _ => []) ops
  let all := observations TString.toString cmpBlock wireOf (fun _ => []) ops
  " | ".intercalate ((List.range 4).map fun k => showReg (g k)) ++ " # k=1 # " ++
    " ".intercalate ("obs" :: all.filter (fun o => !o.startsWith "W")) ++ " # " ++
    " ".intercalate ("wire" :: (all.filter (·.startsWith "W")).map fun o => (o.drop 1).toString)

def run (kind : Char) (rest : String) : Option String :=
  match kind with
  | 'Z' =>
    let bs := unhex ((words rest).headD "-")
    let s := TString.ofBytes bs
    some s!"{hex (TString.toString s)} {s.length}"
  | 'z' =>
    let ((a, b), _) := rdTwo.run (words rest)
    some s!"{hex (TString.toString a)} {hex (TString.toString b)} {hex (TString.toString (a ++ b))} {hex (TString.toString (a ++ b))}"
  | 'w' =>
    let ((bits, es), _) := (do let bits ← Rd.num; let n ← Rd.num; let es ← rdElements n; return (bits, es) : Rd _).run (words rest)
    let out := (step (rdBehaviour bits) {} (.writeString es)).2
    some s!"{hex out} / {hex (TString.toString es)}"
  | 'P' => some (runProgram rest)
  | 'Q' =>
    -- `Q <colour> <state bits>`: the text `out << colour` appends (through the variant and directly), whatever the state
    let (c, _) := rdColour.run (words rest)
    some s!"{hex (showColourText c)} {hex (showColourText c)}"
  | 'G' =>
    let ws := words rest
    let nums := (ws.drop 1).map fun w => w.toNat?.getD 0
    let b (i : Nat) : Byte := UInt8.ofNat (nums.getD i 0)
    let showG (g : Glyph) : String := s!"{showGlyph g} / {hex (TString.toString [{ glyph := g }])}"
    match ws.headD "" with
    | "g1" => some (showG (Glyph.ofChar (b 0) ((Charset.ofCode (nums.getD 1 0)).getD .usAscii)))
    | "g2" => some (showG (Glyph.ofArr1 (b 0)))
    | "g3" => some (showG (Glyph.ofArr2 (b 0) (b 1)))
    | "g4" => some (showG (Glyph.ofArr3 (b 0) (b 1) (b 2)))
    | "gp" => some (showG (Glyph.ofCharPtr (unhex (ws.getD 1 "-") ++ [0, 0, 0])))
    | "e1" =>
      let (e, _) := (do let _ ← Rd.word; let c ← Rd.byte; let a ← rdAttr; return Element.ofChar c a : Rd Element).run ws
      some s!"{showElement e} / {hex (TString.toString [e])}"
    | _ => some "?"
  | _ => none

/-- one complete control function at the head of the wire (ECMA-48 §5.4 CSI syntax; SCS; `ESC % F`) -/
def ctlStrip : List Byte → Option (List Byte)
  | 0x1B :: 0x5B :: rest =>
    let r1 := rest.dropWhile (fun b => 0x30 ≤ b && b ≤ 0x3F)
    let r2 := r1.dropWhile (fun b => 0x20 ≤ b && b ≤ 0x2F)
    match r2 with
    | f :: r3 => if 0x40 ≤ f && f ≤ 0x7E then some r3 else none
    | [] => none
  | 0x1B :: 0x28 :: 0x25 :: _ :: rest => some rest
  | 0x1B :: 0x28 :: _ :: rest => some rest
  | 0x1B :: 0x25 :: _ :: rest => some rest
  | _ => none

def startsWith (w t : List Byte) : Bool := w.take t.length = t

/-- can the wire be read as control functions interleaved with exactly these glyph texts, in order? -/
def decomp : Nat → List Byte → List (List Byte) → Bool
  | 0, _, _ => false
  | fuel + 1, w, [] =>
    w.isEmpty || (match ctlStrip w with | some r => decomp fuel r [] | none => false)
  | fuel + 1, w, t :: ts =>
    (startsWith w t && decomp fuel (w.drop t.length) ts) ||
    (match ctlStrip w with | some r => decomp fuel r (t :: ts) | none => false)

def glyphValid (g : Glyph) : Bool :=
  if g.cs = .utf8 then
    (g.b0 < 0x80 && g.b1 = 0 && g.b2 = 0) ||
    ((0xC2 ≤ g.b0 && g.b0 ≤ 0xDF) && isCont g.b1 && g.b2 = 0) ||
    ((0xE0 ≤ g.b0 && g.b0 ≤ 0xEF) && isCont g.b1 && isCont g.b2)
  else true

def oracle (kind : Char) (_cfg rest real : String) : Option String :=
  let rw := words real
  match kind with
  | 'Z' =>
    let inp := (words rest).headD "-"
    some (if rw.headD "" = inp then "ok" else s!"FAIL C17 to_string(string(bytes)) = {rw.headD ""} for bytes {inp}")
  | 'z' =>
    match rw with
    | [a, b, ab, ab2] =>
      let cat := hex (unhex a ++ unhex b)
      some (if ab = cat && ab2 = cat then "ok" else s!"FAIL C17 to_string does not distribute over concatenation: {a} {b} {ab} {ab2}")
    | _ => some "FAIL C17 unreadable answer"
  | 'w' =>
    let ((_, es), _) := (do let bits ← Rd.num; let n ← Rd.num; let es ← rdElements n; return (bits, es) : Rd _).run (words rest)
    if !(es.all fun e => glyphValid e.glyph) then some "ok" else
    match real.splitOn " / " with
    | [wire, ts] =>
      let w := unhex wire.trimAscii.toString
      let texts := es.map fun e => e.glyph.text
      let expect := hex (texts.flatMap id)
      if ts.trimAscii.toString ≠ expect then some s!"FAIL C17 to_string = {ts}, the glyph text is {expect}"
      else if decomp (w.length + es.length + 2) w texts then some "ok"
      else some s!"FAIL C17 wire {wire} is not control functions interleaved with the glyph bytes {expect}"
    | _ => some "FAIL C17 unreadable answer"
  | 'Q' =>
    -- C19: a palette colour built from components / a shade streams as `#rgb` / `#NN` in decimal, in every stream state
    let (c, _) := rdColour.run (words rest)
    let expect : Option (List Byte) := match c with
      | .high v => if 16 ≤ v.toNat then
          let n := v.toNat - 16
          some [0x23, UInt8.ofNat (48 + n / 36), UInt8.ofNat (48 + n / 6 % 6), UInt8.ofNat (48 + n % 6)] else none
      | .grey v => if 232 ≤ v.toNat then
          let n := v.toNat - 232
          some [0x23, UInt8.ofNat (48 + n / 10), UInt8.ofNat (48 + n % 10)] else none
      | _ => none
    match expect with
    | none => some "ok"
    | some t => some (if words real = [hex t, hex t] then "ok" else s!"FAIL C19 streamed form of the colour is [{real}], expected {hex t}")
  | 'G' =>
    -- the text of the constructed glyph is the character it was constructed from (documented uses only:
    -- one well-formed NUL-terminated character for the pointer and array constructors)
    let ws := words rest
    let nums := (ws.drop 1).map fun w => w.toNat?.getD 0
    let b (i : Nat) : Byte := UInt8.ofNat (nums.getD i 0)
    let wf1 (enc : List Byte) : Bool := match enc with
      | [a] => a < 0x80 && a != 0
      | [a, c] => (0xC2 ≤ a && a ≤ 0xDF) && isCont c
      | [a, c, d] => (0xE0 ≤ a && a ≤ 0xEF) && isCont c && isCont d
      | _ => false
    let expect : Option (List Byte) := match ws.headD "" with
      | "g1" => some [b 0]
      | "e1" => some [b 0]
      | "g2" => if wf1 [b 0] then some [b 0] else none
      | "g3" => if wf1 [b 0, b 1] then some [b 0, b 1] else none
      | "g4" => if wf1 [b 0, b 1, b 2] then some [b 0, b 1, b 2] else none
      | "gp" => let m := unhex (ws.getD 1 "-"); if wf1 m then some m else none
      | _ => none
    match expect, real.splitOn " / " with
    | none, _ => some "ok"
    | some t, [_, ts] => some (if ts.trimAscii.toString = hex t then "ok" else s!"FAIL C17 constructed glyph has text {ts}, constructed from {hex t}")
    | _, _ => some "FAIL C17 unreadable answer"
  | 'P' =>
    -- specification side: the same program on sequences of glyph TEXTS (`Ref` text of each element; the byte
    -- constructors yield one one-byte text per byte, `char const*` up to the first NUL); the real `to_string`
    -- and `size` of every register must be the concatenation / the count of those texts
    let ops := parseProgram rest
    let allValid := ops.all fun o => match o with
      | .set _ xs => xs.all fun e => glyphValid e.glyph
      | .addE _ e => glyphValid e.glyph | .plusE _ _ e => glyphValid e.glyph | .insE _ _ e => glyphValid e.glyph
      | .setAt _ _ e => glyphValid e.glyph | _ => true
    if !allValid then some "ok" else
    let texts := SeqOp.run (fun _ => ([] : List (List Byte))) (ops.map (SeqOp.map fun e => e.glyph.text))
    -- comparison observations are judged on canonical elements (unused glyph storage blanked): equality must be
    -- "same elements", and ==, <, >, <=> and the hashes must agree with each other (C15)
    let canonBlock (a b : List Element) : String :=
      let same := decide (a = b)
      let bit (x : Bool) : String := if x then "1" else "0"
      s!"{bit same}{bit (!same)}"
    let expObs := "obs" :: (observations (fun (ts : List (List Byte)) => ts.flatten) (fun _ _ => "?") (fun _ => "") (fun _ => []) (ops.map (SeqOp.map fun e => e.glyph.text))).filter (fun o => !o.startsWith "W")
    let expCmp := (observations (fun _ => []) canonBlock (fun _ => "") (fun _ => []) (ops.map (SeqOp.map Tpp.Driver.Values.canonElement))).filter (fun o => !o.startsWith "W")
    -- the strings streamed to a terminal in mid-program: each wire is judged as the terminal script `ws <elements>` it is
    let wired := (observations (fun _ => []) (fun _ _ => "?") (fun (es : List Element) => s!" 0 ; ws {es.length} {" ".intercalate (es.map showElement)}") (fun _ => []) ops).filter (·.startsWith "W")
    match real.splitOn " # " with
    | [body, k, obs, wires] =>
      let gotW := (words wires).drop 1
      let wfail := (wired.zip gotW).findSome? fun (sc, w) =>
        let v := oracleTerminal "0 1 0 0 40 3" (sc.drop 1).toString (w.replace "/" " / " |>.replace "_" " ")
        if v = "ok" then none else some v
      if gotW.length ≠ wired.length then some "FAIL C17 unreadable answer (wire observations)" else
      if let some v := wfail then some (v ++ " [a string built by a program, streamed to a fresh terminal]") else
      let gotObs := words obs
      -- text observations: compare where the expectation is a text; comparison observations: judged below
      let pairs := gotObs.zip expObs
      if gotObs.length ≠ expObs.length || pairs.any (fun p => p.2 ≠ "?" && p.1 ≠ p.2) then
        some s!"FAIL C17 to_string taken in mid-program: got [{obs}], the text at those points was [{" ".intercalate expObs}]" else
      let gotCmp := (pairs.filter (fun p => p.2 = "?")).map (·.1)
      let expC := expCmp.filter (fun s => s.length = 2)
      let badCmp := (gotCmp.zip expC).filter fun p =>
        let g := p.1
        -- g = "e n l g:c:h"; laws: e ≠ n; e ↔ c = 0; l ↔ c = -1; g ↔ c = 1; e → h = 1; and e must be `same`
        match g.splitOn ":" with
        | [bits, c, h] =>
          let bs := bits.toList
          !(bs.length = 4 && (bs.take 2 = p.2.toList) && (bs.getD 1 '?' != bs.getD 0 '?')
            && ((bs.getD 0 '0' = '1') == (c = "0")) && ((bs.getD 2 '0' = '1') == (c = "-1")) && ((bs.getD 3 '0' = '1') == (c = "1"))
            && (bs.getD 0 '0' = '0' || h = "1"))
        | _ => true
      if !badCmp.isEmpty then some s!"FAIL C15 C17 strings built by a program: comparison {(badCmp.headD ("", "")).1} but same-elements is {(badCmp.headD ("", "")).2}" else
      let regs := body.splitOn " | "
      if regs.length ≠ 4 then some "FAIL C17 unreadable answer" else
      let bad := (List.range 4).filterMap fun i =>
        let r := (regs.getD i "").splitOn " ; "
        match words (r.headD "") with
        | [n, h] =>
          let t := texts i
          if n.toNat?.getD 0 ≠ t.length then some s!"register {i}: size {n}, expected {t.length}"
          else if h ≠ hex t.flatten then some s!"register {i}: to_string {h}, expected {hex t.flatten}"
          else none
        | _ => some s!"register {i}: unreadable"
      if !bad.isEmpty then some ("FAIL C17 string program: " ++ "; ".intercalate bad)
      else if k.trimAscii.toString ≠ "k=1" then some "FAIL C17 string accessors disagree (operator[] / iterators / reverse iterators / empty / size)"
      else some "ok"
    | _ => some "FAIL C17 unreadable answer"
  | _ => none

end Tpp.Driver.Strings
