import Tpp.Driver.Proto
import Tpp.Model.Strings
import Tpp.Ref.Render
/-!
Driver slice `Strings` (C17).
  `Z <hex>`                      string(ptr, len)          → `<to_string hex> <size>`
  `z n <n elems> m <m elems>`    a, b                      → `<to_string a> <to_string b> <to_string (a+b)> <to_string (a+=b)>`
  `w <bits> n <n elems>`         fresh terminal << string  → `<wire hex> / <to_string hex>`
-/
namespace Tpp.Driver.Strings
open Tpp Tpp.Driver

def rdTwo : Rd (List Element × List Element) := do
  let n ← Rd.num; let a ← rdElements n; let m ← Rd.num; let b ← rdElements m; return (a, b)

def run (kind : Char) (rest : String) : Option String :=
  match kind with
  | 'Z' =>
    let bs := unhex ((words rest).headD "-")
    let s := TString.ofBytes bs
    some s!"{hex (TString.toString s)} {s.length}"
  | 'z' =>
    let ((a, b), _) := rdTwo.run (words rest)
    some s!"{hex (TString.toString a)} {hex (TString.toString b)} {hex (TString.toString (a ++ b))} {hex (TString.toString (a ++ b))}"
  | 'w' =>
    let ((bits, es), _) := (do let bits ← Rd.num; let n ← Rd.num; let es ← rdElements n; return (bits, es) : Rd _).run (words rest)
    let out := (step (rdBehaviour bits) {} (.writeString es)).2
    some s!"{hex out} / {hex (TString.toString es)}"
  | _ => none

/-- one complete control function at the head of the wire (ECMA-48 §5.4 CSI syntax; SCS; `ESC % F`) -/
def ctlStrip : List Byte → Option (List Byte)
  | 0x1B :: 0x5B :: rest =>
    let r1 := rest.dropWhile (fun b => 0x30 ≤ b && b ≤ 0x3F)
    let r2 := r1.dropWhile (fun b => 0x20 ≤ b && b ≤ 0x2F)
    match r2 with
    | f :: r3 => if 0x40 ≤ f && f ≤ 0x7E then some r3 else none
    | [] => none
  | 0x1B :: 0x28 :: 0x25 :: _ :: rest => some rest
  | 0x1B :: 0x28 :: _ :: rest => some rest
  | 0x1B :: 0x25 :: _ :: rest => some rest
  | _ => none

def startsWith (w t : List Byte) : Bool := w.take t.length = t

/-- can the wire be read as control functions interleaved with exactly these glyph texts, in order? -/
def decomp : Nat → List Byte → List (List Byte) → Bool
  | 0, _, _ => false
  | fuel + 1, w, [] =>
    w.isEmpty || (match ctlStrip w with | some r => decomp fuel r [] | none => false)
  | fuel + 1, w, t :: ts =>
    (startsWith w t && decomp fuel (w.drop t.length) ts) ||
    (match ctlStrip w with | some r => decomp fuel r (t :: ts) | none => false)

def glyphValid (g : Glyph) : Bool :=
  if g.cs = .utf8 then
    (g.b0 < 0x80 && g.b1 = 0 && g.b2 = 0) ||
    ((0xC2 ≤ g.b0 && g.b0 ≤ 0xDF) && isCont g.b1 && g.b2 = 0) ||
    ((0xE0 ≤ g.b0 && g.b0 ≤ 0xEF) && isCont g.b1 && isCont g.b2)
  else true

def oracle (kind : Char) (_cfg rest real : String) : Option String :=
  let rw := words real
  match kind with
  | 'Z' =>
    let inp := (words rest).headD "-"
    some (if rw.headD "" = inp then "ok" else s!"FAIL C17 to_string(string(bytes)) = {rw.headD ""} for bytes {inp}")
  | 'z' =>
    match rw with
    | [a, b, ab, ab2] =>
      let cat := hex (unhex a ++ unhex b)
      some (if ab = cat && ab2 = cat then "ok" else s!"FAIL C17 to_string does not distribute over concatenation: {a} {b} {ab} {ab2}")
    | _ => some "FAIL C17 unreadable answer"
  | 'w' =>
    let ((_, es), _) := (do let bits ← Rd.num; let n ← Rd.num; let es ← rdElements n; return (bits, es) : Rd _).run (words rest)
    if !(es.all fun e => glyphValid e.glyph) then some "ok" else
    match real.splitOn " / " with
    | [wire, ts] =>
      let w := unhex wire.trimAscii.toString
      let texts := es.map fun e => e.glyph.text
      let expect := hex (texts.flatMap id)
      if ts.trimAscii.toString ≠ expect then some s!"FAIL C17 to_string = {ts}, the glyph text is {expect}"
      else if decomp (w.length + es.length + 2) w texts then some "ok"
      else some s!"FAIL C17 wire {wire} is not control functions interleaved with the glyph bytes {expect}"
    | _ => some "FAIL C17 unreadable answer"
  | _ => none

end Tpp.Driver.Strings
