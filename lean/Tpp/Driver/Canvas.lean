import Tpp.Driver.Proto
import Tpp.Model.Canvas
/-!
Driver slice `Canvas` (property C16): model answers (`run`) and property oracle on the
implementation's answers (`oracle`).

## Protocol kind `C`  (executor side: `harness/exec_canvas.inc`)

```
C w h ; op ; op ; …
```
constructs `terminalpp::canvas{{w, h}}` and applies the ops in order (ops separated by `;`, words by
blanks, numbers decimal, an `<element>` is the shared 16-number encoding of `Proto.rdElement`):

| op                     | C++                                                           | answer segment            |
|------------------------|---------------------------------------------------------------|---------------------------|
| `px x y <element>`     | `cvs[x][y] = e`                                               | none (`?range` if outside) |
| `gt x y` / `cgt x y`   | `cvs[x][y]` through the non-const / const `operator[]` proxies | `<element>`               |
| `rz w h`               | `cvs.resize({w, h})`                                          | `w,h` = `size()` afterwards |
| `it ox oy w h`         | `for_each_in_region(cvs, {{ox,oy},{w,h}}, f)`                  | `x,y=<element>` per call of `f`, joined by `/`; `none` when `f` is never called |
| `cit ox oy w h`        | the same on `canvas const &` (const proxies, `element const &`) | as `it`                 |
| `dump` / `cdump`       | `size()` and every element of `begin()..end()` (non-const / const overloads) | `w,h:` then the elements joined by `,` |
| `pi x y <element>` / `pr x y <element>` | the same cell assigned through `*(begin()+y*w+x)` / inside a range-for | none (`?range` if outside) |
| `fl ox oy w h <element>` | `for_each_in_region(cvs, region, [&](element &c, …){ c = e; })` – a fill THROUGH the callback's reference | none (`?range`) |
| `cp` / `cc`            | a second canvas object becomes a copy (copy-assignment / copy-construction + move) | none |
| `ba`                   | the canvas is assigned from that copy                          | none |
| `bdump`                | dump of the copy: later edits or resizes of the original must not show in it | as `dump` |

The answer is the segments joined by ` ; ` (`-` when there is none).  `<element>` is printed with
`show_element` / `showElement` (16 numbers separated by blanks, only the meaningful glyph bytes).
The executor never makes an out-of-range access of its own: `px`/`gt` outside the canvas and `it`
regions not contained in it answer `?range`, negative or huge sizes (`w*h > 2²⁰`) answer `?size`,
unknown words `?op`; such ops change nothing.  These inputs are outside C16's domain.

## Oracle

`oracle` never calls `Canvas.get/set/resize/regionCoords`.  It keeps the *expected* contents as an
abstract finite map `(x, y) ↦ element` (absent = default element) and the expected size, updated from
the property statement alone: `px` binds one cell; `rz` keeps exactly the bindings inside both the old
and the new extent and reports the new size; `dump` must list `w,h:` and `w*h` elements with cell
`(k mod w, k div w)` at position `k`; `it` over a `w'×h'` region must make exactly `w'*h'` calls, the
`k`-th with coordinates `(ox + k mod w', oy + k div w')` and the element bound to them.
-/
namespace Tpp.Driver.Canvas
open Tpp Tpp.Driver

inductive COp
  | px (x y : Int) (e : Element)
  | gt (x y : Int)
  | rz (w h : Int)
  | it (ox oy w h : Int)
  | dump
  | fl (ox oy w h : Int) (e : Element)
  | cp | ba | bdump
  | bad
deriving Inhabited

def rdCOp : Rd (Option COp) := do
  let w ← Rd.word
  match w with
  | "" => return none
  | "px" | "pi" | "pr" | "pe" => do let x ← Rd.int; let y ← Rd.int; let e ← rdElement; return some (.px x y e)
  | "fl" => do let ox ← Rd.int; let oy ← Rd.int; let w ← Rd.int; let h ← Rd.int; let e ← rdElement; return some (.fl ox oy w h e)
  | "cp" | "cc" => return some .cp
  | "ba" => return some .ba
  | "bdump" => return some .bdump
  | "gt" | "cgt" => do let x ← Rd.int; let y ← Rd.int; return some (.gt x y)
  | "rz" => do let w ← Rd.int; let h ← Rd.int; return some (.rz w h)
  | "it" | "cit" | "itb" | "iti" | "itp" => do let ox ← Rd.int; let oy ← Rd.int; let w ← Rd.int; let h ← Rd.int; return some (.it ox oy w h)
  | "dump" | "cdump" => return some .dump
  | _ => return some .bad

def sizeOk (w h : Int) : Bool := 0 ≤ w && 0 ≤ h && w ≤ 65536 && h ≤ 65536 && w * h ≤ 1048576

/-- `C w h ; op ; …` → initial size and ops -/
def parse (rest : String) : Int × Int × List COp :=
  match rest.splitOn ";" with
  | [] => (0, 0, [])
  | h :: ops =>
    let ((w, hh), _) := (do let w ← Rd.int; let h ← Rd.int; return (w, h) : Rd (Int × Int)).run (words h)
    (w, hh, ops.flatMap fun o =>
      -- `hz x y w h <element>`: a column handle taken before a resize and assigned through after it = resize, then the cell
      match words o with
      | "hz" :: rest =>
        let ((x, y, w2, h2, e), _) := (do let x ← Rd.int; let y ← Rd.int; let w ← Rd.int; let h ← Rd.int; let e ← rdElement
                                          return (x, y, w, h, e) : Rd (Int × Int × Int × Int × Element)).run rest
        if sizeOk w2 h2 then [.rz w2 h2, .px x y e] else [.rz w2 h2]
      | ws => ((rdCOp.run ws).1).toList)

def opName : COp → String
  | .px x y _ => s!"px {x} {y}" | .gt x y => s!"gt {x} {y}" | .rz w h => s!"rz {w} {h}"
  | .it ox oy w h => s!"it {ox} {oy} {w} {h}" | .dump => "dump" | .bad => "?"
  | .fl ox oy w h _ => s!"fl {ox} {oy} {w} {h}" | .cp => "cp" | .ba => "ba" | .bdump => "bdump"

def inside (s : Extent) (x y : Int) : Bool := 0 ≤ x && 0 ≤ y && x < s.width && y < s.height
def regionInside (s : Extent) (ox oy w h : Int) : Bool :=
  0 ≤ ox && 0 ≤ oy && 0 ≤ w && 0 ≤ h && ox + w ≤ s.width && oy + h ≤ s.height

def showSize (s : Extent) : String := s!"{s.width},{s.height}"
def showVisit (x y : Int) (e : Element) : String := s!"{x},{y}={showElement e}"
def joinOr (empty sep : String) (xs : List String) : String := if xs.isEmpty then empty else sep.intercalate xs

/-! ### model side -/

/-- one op on the model: the canvas, the second object holding a copy, and the answer segment (if any) -/
def stepModel (c b : Tpp.Canvas) : COp → Tpp.Canvas × Tpp.Canvas × Option String
  | .px x y e => if inside c.size x y then (c.set x y e, b, none) else (c, b, some "?range")
  | .gt x y => if inside c.size x y then (c, b, some (showElement (c.get x y))) else (c, b, some "?range")
  | .rz w h => if sizeOk w h then let c' := c.resize ⟨w, h⟩; (c', b, some (showSize c'.size)) else (c, b, some "?size")
  | .it ox oy w h =>
    if regionInside c.size ox oy w h then
      (c, b, some (joinOr "none" "/" ((c.visits ⟨⟨ox, oy⟩, ⟨w, h⟩⟩).map fun v => showVisit v.2.1 v.2.2 v.1)))
    else (c, b, some "?range")
  | .dump => (c, b, some (showSize c.size ++ ":" ++ ",".intercalate (c.grid.map showElement)))
  | .fl ox oy w h e =>
    if regionInside c.size ox oy w h then
      (c.fill ⟨⟨ox, oy⟩, ⟨w, h⟩⟩ e, b, none)
    else (c, b, some "?range")
  | .cp => (c, c, none)
  | .ba => (b, b, none)
  | .bdump => (c, b, some (showSize b.size ++ ":" ++ ",".intercalate (b.grid.map showElement)))
  | .bad => (c, b, some "?op")

def runOps : Tpp.Canvas → Tpp.Canvas → List COp → List String
  | _, _, [] => []
  | c, b, op :: ops =>
    let (c', b', seg) := stepModel c b op
    match seg with
    | some s => s :: runOps c' b' ops
    | none => runOps c' b' ops

/-- model answer for a case line of this slice; `none` when the kind is not ours -/
def run (kind : Char) (rest : String) : Option String :=
  if kind ≠ 'C' then none else
  let (w, h, ops) := parse rest
  if !sizeOk w h then some "?size" else
  some (joinOr "-" " ; " (runOps (Tpp.Canvas.new ⟨w, h⟩) (Tpp.Canvas.new ⟨0, 0⟩) ops))

/-! ### oracle side: expected behaviour from the property statement -/

/-- expected state: the size, and the bound cells, most recent binding first; unbound = default -/
structure Expect where
  size : Extent
  cells : List ((Int × Int) × Element)
  /-- the copy held by the second object: size and bindings at the time of the copy -/
  bsize : Extent := ⟨0, 0⟩
  bcells : List ((Int × Int) × Element) := []

def Expect.lookup (s : Expect) (x y : Int) : Element :=
  match s.cells.find? (fun b => b.1.1 == x && b.1.2 == y) with
  | some b => b.2
  | none => {}

/-- expected answer segment and expected next state -/
def stepExpect (s : Expect) : COp → Expect × Option String
  | .px x y e =>
    if inside s.size x y then ({ s with cells := ((x, y), e) :: s.cells }, none) else (s, some "?range")
  | .gt x y => if inside s.size x y then (s, some (showElement (s.lookup x y))) else (s, some "?range")
  | .rz w h =>
    if sizeOk w h then
      -- cells inside both the old and the new extent keep their element, every other cell is default
      let n : Extent := ⟨w, h⟩
      ({ s with size := n, cells := s.cells.filter fun b => inside s.size b.1.1 b.1.2 && inside n b.1.1 b.1.2 },
       some (showSize n))
    else (s, some "?size")
  | .it ox oy w h =>
    if regionInside s.size ox oy w h then
      let n := w.toNat * h.toNat
      let vs := (List.range n).map fun k =>
        let x := ox + Int.ofNat (k % w.toNat)
        let y := oy + Int.ofNat (k / w.toNat)
        showVisit x y (s.lookup x y)
      (s, some (joinOr "none" "/" vs))
    else (s, some "?range")
  | .dump =>
    let w := s.size.width.toNat
    let n := w * s.size.height.toNat
    let es := (List.range n).map fun k => showElement (s.lookup (Int.ofNat (k % w)) (Int.ofNat (k / w)))
    (s, some (showSize s.size ++ ":" ++ ",".intercalate es))
  | .fl ox oy w h e =>
    if regionInside s.size ox oy w h then
      let n := w.toNat * h.toNat
      let binds := (List.range n).map fun k => ((ox + Int.ofNat (k % w.toNat), oy + Int.ofNat (k / w.toNat)), e)
      ({ s with cells := binds ++ s.cells }, none)
    else (s, some "?range")
  | .cp => ({ s with bsize := s.size, bcells := s.cells }, none)
  | .ba => ({ s with size := s.bsize, cells := s.bcells }, none)
  | .bdump =>
    let t : Expect := { size := s.bsize, cells := s.bcells }
    let w := t.size.width.toNat
    let n := w * t.size.height.toNat
    let es := (List.range n).map fun k => showElement (t.lookup (Int.ofNat (k % w)) (Int.ofNat (k / w)))
    (s, some (showSize t.size ++ ":" ++ ",".intercalate es))
  | .bad => (s, some "?op")

/-- first differing item of two segments (items separated by `/` in visit lists, `,` in dumps) -/
def firstDiff (e r : String) : String :=
  let sep := if e.contains '=' || r.contains '=' then "/" else ","
  let rec go (i : Nat) : List String → List String → String
    | [], [] => "identical"
    | a :: _, [] => s!"item#{i} expected '{a}' got nothing"
    | [], b :: _ => s!"item#{i} expected nothing got '{b}'"
    | a :: as, b :: bs => if a = b then go (i + 1) as bs else s!"item#{i} expected '{a}' got '{b}'"
  let es := e.splitOn sep
  let rs := r.splitOn sep
  s!"{es.length} vs {rs.length} items, {go 0 es rs}"

/-- walk ops and real segments together; first mismatch is reported -/
def judge : Expect → Nat → List COp → List String → String
  | _, _, [], [] => "ok"
  | _, i, [], r :: _ => s!"FAIL C16 op#{i}: unexpected extra answer segment '{r.take 80}'"
  | s, i, op :: ops, real =>
    let (s', seg) := stepExpect s op
    match seg with
    | none => judge s' (i + 1) ops real
    | some e =>
      match real with
      | [] => s!"FAIL C16 op#{i}: missing answer segment, expected '{e.take 200}'"
      | r :: rs =>
        if r = e then judge s' (i + 1) ops rs
        else s!"FAIL C16 op#{i} ({opName op}): {firstDiff e r}"

/-- oracle verdict (`ok` / `FAIL <ids> …`) given the case, the configuration prefix and the real answer -/
def oracle (kind : Char) (_cfg rest real : String) : Option String :=
  if kind ≠ 'C' then none else
  let (w, h, ops) := parse rest
  if !sizeOk w h then some "ok" else
  let r := real.trimAscii.toString
  let segs := if r = "-" then [] else r.splitOn " ; "
  some (judge { size := ⟨w, h⟩, cells := [] } 1 ops segs)

end Tpp.Driver.Canvas
