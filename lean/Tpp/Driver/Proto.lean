import Tpp.Model.Terminal
import Tpp.Model.Palette
/-! Line-protocol plumbing shared by all driver components: token reader, printers. -/
namespace Tpp.Driver
open Tpp

abbrev Rd := StateM (List String)

def Rd.word : Rd String := modifyGet fun ts => match ts with | t :: r => (t, r) | [] => ("", [])
def Rd.num : Rd Nat := do let w ← Rd.word; return w.toNat?.getD 0
def Rd.int : Rd Int := do
  let w ← Rd.word
  return (if w.startsWith "-" then - ((w.drop 1).toNat?.getD 0 : Int) else (w.toNat?.getD 0 : Int))
def Rd.byte : Rd Byte := do let n ← Rd.num; return UInt8.ofNat n
def Rd.more : Rd Bool := do let ts ← get; return !ts.isEmpty

def words (s : String) : List String := (s.splitOn " ").filter (· ≠ "")

def hexDigit (n : Nat) : Char := if n < 10 then Char.ofNat (48 + n) else Char.ofNat (87 + n)
def hex (bs : List Byte) : String :=
  if bs.isEmpty then "-" else String.ofList (bs.flatMap fun b => [hexDigit (b.toNat / 16), hexDigit (b.toNat % 16)])

def unhexDigit (c : Char) : Nat :=
  if '0' ≤ c ∧ c ≤ '9' then c.toNat - 48 else if 'a' ≤ c ∧ c ≤ 'f' then c.toNat - 87 else if 'A' ≤ c ∧ c ≤ 'F' then c.toNat - 55 else 0
def unhexList : List Char → List Byte
  | a :: b :: r => UInt8.ofNat (unhexDigit a * 16 + unhexDigit b) :: unhexList r
  | _ => []
def unhex (s : String) : List Byte := if s = "-" then [] else unhexList s.toList

def rdIntensity (n : Nat) : Intensity :=
  if n = Intensity.bold.code then .bold else if n = Intensity.faint.code then .faint else .normal
def rdUnderlining (n : Nat) : Underlining := if n = Underlining.underlined.code then .underlined else .notUnderlined
def rdPolarity (n : Nat) : Polarity := if n = Polarity.negative.code then .negative else .positive
def rdBlinking (n : Nat) : Blinking := if n = Blinking.blink.code then .blink else .steady

def rdColour : Rd Colour := do
  let k ← Rd.num; let a ← Rd.byte; let b ← Rd.byte; let c ← Rd.byte
  return match k with | 0 => .low a | 1 => .high a | 2 => .grey a | _ => .rgb a b c

def rdGlyph : Rd Glyph := do
  let cs ← Rd.num; let b0 ← Rd.byte; let b1 ← Rd.byte; let b2 ← Rd.byte
  return { b0 := b0, b1 := b1, b2 := b2, cs := (Charset.ofCode cs).getD .usAscii }

def rdAttr : Rd Attr := do
  let fg ← rdColour; let bg ← rdColour
  let i ← Rd.num; let u ← Rd.num; let p ← Rd.num; let b ← Rd.num
  return { fg := fg, bg := bg, intensity := rdIntensity i, underlining := rdUnderlining u,
           polarity := rdPolarity p, blinking := rdBlinking b }

def rdElement : Rd Element := do let g ← rdGlyph; let a ← rdAttr; return { glyph := g, attr := a }

def rdElements : Nat → Rd (List Element)
  | 0 => return []
  | n + 1 => do let e ← rdElement; let es ← rdElements n; return e :: es

def rdBytes : Nat → Rd (List Byte)
  | 0 => return []
  | n + 1 => do let b ← Rd.byte; let bs ← rdBytes n; return b :: bs

def showColour : Colour → String
  | .low v => s!"0 {v.toNat} 0 0" | .high v => s!"1 {v.toNat} 0 0" | .grey v => s!"2 {v.toNat} 0 0"
  | .rgb r g b => s!"3 {r.toNat} {g.toNat} {b.toNat}"
def showGlyph (g : Glyph) : String :=
  if g.cs = .utf8 then s!"{g.cs.code} {g.b0.toNat} {g.b1.toNat} {g.b2.toNat}" else s!"{g.cs.code} {g.b0.toNat} 0 0"
def showAttr (a : Attr) : String :=
  s!"{showColour a.fg} {showColour a.bg} {a.intensity.code} {a.underlining.code} {a.polarity.code} {a.blinking.code}"
def showElement (e : Element) : String := s!"{showGlyph e.glyph} {showAttr e.attr}"

def rdBehaviour (bits : Nat) : Behaviour :=
  { basicMouse := bits % 2 = 1, allMouse := (bits / 2) % 2 = 1, titleBel := (bits / 4) % 2 = 1,
    titleSt := (bits / 8) % 2 = 1, unicodeAll := (bits / 16) % 2 = 1 }

def showOptPoint : Option Point → String
  | none => "-" | some p => s!"{p.x},{p.y}"

def showState (s : TermState) : String :=
  let l := match s.last with | none => "-" | some e => showElement e
  let v := match s.visible with | none => "-" | some true => "1" | some false => "0"
  s!"{s.size.width},{s.size.height} L={l} C={showOptPoint s.cursor} S={showOptPoint s.saved} V={v}"

def rdEraseKind (n : Nat) : EraseKind :=
  match n with | 0 => .display | 1 => .above | 2 => .below | 3 => .line | 4 => .lineLeft | _ => .lineRight

/-- one operation of a `T` script; `none` for an unknown word -/
def rdOp : Rd (Option Op) := do
  let w ← Rd.word
  match w with
  | "we" => do let e ← rdElement; return some (.writeElement e)
  | "ws" => do let n ← Rd.num; let es ← rdElements n; return some (.writeString es)
  | "re" => do let e ← rdElement; return some (.rawElement e)
  | "da" => return some .defaultAttr
  | "mv" => do let x ← Rd.int; let y ← Rd.int; return some (.moveCursor ⟨x, y⟩)
  | "hc" => return some .hideCursor
  | "sc" => return some .showCursor
  | "sv" => return some .saveCursor
  | "rs" => return some .restoreCursor
  | "er" => do let k ← Rd.num; return some (.erase (rdEraseKind k))
  | "me" => return some .enableMouse
  | "md" => return some .disableMouse
  | "ti" => do let n ← Rd.num; let t ← rdBytes n; return some (.setTitle t)
  | "nb" => return some .normalBuffer
  | "ab" => return some .altBuffer
  | "sz" => do let w ← Rd.int; let h ← Rd.int; return some (.setSize ⟨w, h⟩)
  -- `wl n bytes`: `term << "text"` (a NUL-terminated C string converts to a string of default-attribute US-ASCII elements)
  | "wl" => do
      let n ← Rd.num; let bs ← rdBytes n
      return some (.writeString ((bs.takeWhile (· ≠ 0)).map fun b => ({ glyph := { b0 := b, cs := Charset.default } } : Element)))
  | "wr" => do let n ← Rd.num; let bs ← rdBytes n; return some (.rawWrite bs)
  | "in" => do let n ← Rd.num; let bs ← rdBytes n; return some (.input bs)
  -- `cl` terminal.close(), `al` is_alive(), `ar` async_read(callback): nothing is written, nothing the output side knows changes
  | "cl" => return some (.input [])
  | "al" => return some (.input [])
  | "ar" => return some (.input [])
  -- `rv`: the channel is alive again (a re-attached session); the library writes whether or not the channel is alive
  | "rv" => return some (.input [])
  | _ => return none

/-- `lv <op>`: the manipulator is a NAMED object streamed as an lvalue (`auto m = move_cursor(p); term << m;`) instead of
    a temporary – a manipulator is a value, so for the model it is the same operation -/
def parseOp (s : String) : Option Op :=
  let ws := words s
  -- `ux <op>`: the operation is performed from a destructor that runs while an unrelated exception is unwinding the stack
  -- (a clean-up handler restoring the cursor): the same operation
  (rdOp.run (if ws.head? = some "lv" || ws.head? = some "ux" then ws.drop 1 else ws)).1

/-- parse `bits ; op ; op …` -/
def parseScript (rest : String) : Behaviour × List Op :=
  match rest.splitOn ";" with
  | [] => ({}, [])
  | h :: ops => (rdBehaviour ((words h).headD "0" |>.toNat?.getD 0), ops.filterMap parseOp)

end Tpp.Driver
