import Tpp.Driver.Oracle
open Tpp.Driver

partial def loop (hin hout : IO.FS.Stream) : IO Unit := do
  let line ← hin.getLine
  if line.isEmpty then return ()
  let l := if line.endsWith "\n" then (line.dropEnd 1).toString else line
  hout.putStrLn (if l.startsWith "O" then runOracle (l.drop 1).toString else runLine l)
  loop hin hout

def main : IO Unit := do
  let hin ← IO.getStdin
  let hout ← IO.getStdout
  loop hin hout
