"""Generators for terminal (`T`) scripts: structured, mostly valid, edge-biased (DESIGN §2.4).
Every random choice comes from the rng passed in."""

CS_UTF8 = 18
CHARSETS = list(range(19))
INTENSITY = [1, 2, 22]
UNDERLINING = [4, 24]
POLARITY = [7, 27]
BLINKING = [5, 25]
DEFAULT_ATTR = [0, 9, 0, 0, 0, 9, 0, 0, 22, 24, 27, 25]


def colour(rng, kinds=(0, 0, 1, 2, 3)):
    k = rng.choice(kinds)
    if k == 0:
        return [0, rng.choice([0, 1, 2, 3, 4, 5, 6, 7, 9, 9]), 0, 0]
    if k == 1:
        return [1, rng.choice([16, 17, 21, 52, 196, 231, rng.randrange(16, 232)]), 0, 0]
    if k == 2:
        return [2, rng.choice([232, 255, rng.randrange(232, 256)]), 0, 0]
    return [3, component(rng), component(rng), component(rng)]


def component(rng):
    """a true-colour component: extremes, the values where the decimal form changes length, anything"""
    return rng.choice([0, 255, rng.randrange(256), rng.randrange(256), rng.choice([1, 9, 10, 11, 99, 100, 101, 109, 110, 199, 200, 249, 250, 254])])


def opposite_attr(rng, a):
    """an attribute that differs from `a` in EVERY field, with true colours of three-digit components: the longest
    SGR sequence a single transition can need (bold<->faint goes through normal)"""
    def other(v, choices):
        c = [x for x in choices if x != v]
        return rng.choice(c)
    big = lambda: rng.choice([100, 101, 128, 199, 200, 254, 255, rng.randrange(100, 256)])
    fg = [3, big(), big(), big()]
    bg = [3, big(), big(), big()]
    while fg == list(a[0:4]):
        fg[3] = big()
    while bg == list(a[4:8]):
        bg[3] = big()
    inten = {1: 2, 2: 1}.get(a[8], rng.choice([1, 2]))
    return fg + bg + [inten, other(a[9], UNDERLINING), other(a[10], POLARITY), other(a[11], BLINKING)]


def attr(rng, blink=True):
    return colour(rng) + colour(rng) + [rng.choice(INTENSITY), rng.choice(UNDERLINING), rng.choice(POLARITY),
                                        rng.choice(BLINKING) if blink else 25]


def mutate_attr(rng, a, blink=True):
    a = list(a)
    f = rng.randrange(6)
    if f == 0:
        a[0:4] = colour(rng)
    elif f == 1:
        a[4:8] = colour(rng)
    elif f == 2:
        a[8] = rng.choice(INTENSITY)
    elif f == 3:
        a[9] = rng.choice(UNDERLINING)
    elif f == 4:
        a[10] = rng.choice(POLARITY)
    elif blink:
        a[11] = rng.choice(BLINKING)
    return a


def utf8_bytes(cp):
    if cp < 0x80:
        return [cp, 0, 0]
    if cp < 0x800:
        return [0xC0 | (cp >> 6), 0x80 | (cp & 0x3F), 0]
    return [0xE0 | (cp >> 12), 0x80 | ((cp >> 6) & 0x3F), 0x80 | (cp & 0x3F)]


def graphic_glyph(rng, cs=None):
    if cs is None:
        cs = rng.choice([5, 5, 5, CS_UTF8, CS_UTF8, rng.choice(CHARSETS)])
    if cs == CS_UTF8:
        cp = rng.choice([rng.randrange(0x20, 0x7F), rng.randrange(0xA0, 0x800), rng.randrange(0x800, 0x10000),
                         0x20, 0x7E, 0xA0, 0x7FF, 0x800, 0xFFFF, 0xE9, 0x20AC])
        return [cs] + utf8_bytes(cp)
    b = rng.choice([rng.randrange(0x20, 0x7F), rng.randrange(0xA0, 0x100), 0x20, 0x7E, 0xA0, 0xFF, 0x41])
    # unused storage bytes of a single-byte glyph are arbitrary
    return [cs, b, rng.choice([0, 0, 0x55, 0xFF]), rng.choice([0, 0, 0xAA])]


def any_glyph(rng):
    cs = rng.choice(CHARSETS)
    return [cs, rng.randrange(256), rng.choice([0, rng.randrange(256)]), rng.choice([0, rng.randrange(256)])]


def element(rng, prev=None, blink=True, graphic=True):
    g = graphic_glyph(rng) if graphic else any_glyph(rng)
    if prev is not None and rng.random() < 0.08:
        a = opposite_attr(rng, prev[4:])
        if not blink:
            a[11] = 25
    elif prev is not None and rng.random() < 0.6:
        a = mutate_attr(rng, prev[4:], blink) if rng.random() < 0.7 else list(prev[4:])
        if rng.random() < 0.5:
            g = graphic_glyph(rng, prev[0]) if graphic else g
    else:
        a = attr(rng, blink) if rng.random() < 0.8 else list(DEFAULT_ATTR)
    return g + a


def fmt_el(e):
    return " ".join(str(x) for x in e)


def op_we(e):
    return "we " + fmt_el(e)


def op_ws(es):
    return "ws %d %s" % (len(es), " ".join(fmt_el(e) for e in es)) if es else "ws 0"


def pos(rng, w, h, cur=None):
    r = rng.random()
    if (w > 90 or h > 90) and r < 0.5:
        # coordinates whose 1-based decimal form has interior / trailing zeros or one more digit than its neighbour
        def pick(n):
            c = [v for v in (8, 9, 10, 98, 99, 100, 101, 104, 109, 199, 200, 999, 1000, 1001, 1009, 1099, 9999, 10000, 10008, 99999, 100000) if v < n]
            return rng.choice(c + [n - 1])
        return (pick(w), pick(h))
    if cur is not None and r < 0.25:
        return (cur[0], rng.randrange(h))          # same column
    if cur is not None and r < 0.5:
        return (rng.randrange(w), cur[1])          # same row
    if r < 0.6:
        return (w - 1, rng.randrange(h))           # last column
    if r < 0.7:
        return (rng.randrange(w), h - 1)           # bottom row
    if r < 0.75:
        return (0, 0)
    return (rng.randrange(w), rng.randrange(h))


def title(rng):
    # any byte except BEL, ESC and ST (0x9C) may appear in a title (titleClean); lengths around buffer sizes too
    n = rng.choice([0, 1, 3, 8, 8, 30, 63, 64, 65, 255, 256, 1000])
    alphabet = [0x20, 0x41, 0x7E, 0xE9, 0x3B, 0x80, 0xFF, 0xC3, 0xA9]
    t = [rng.choice(alphabet + [rng.randrange(0x20, 0x7F)]) for _ in range(n)]
    if t and rng.random() < 0.05:
        t[rng.randrange(len(t))] = rng.choice([0x00, 0x0A, 0x0D])     # control characters: outside titleClean, tie only
    return t


INPUTS = [b"", b"", b"\x1b[1;2R", b"\x1b[5;10R", b"\x1b[M !!", b"\x1b[M#+5", b"a", b"\r\n", b"\x1b[A", b"\x1b[15~", b"\x1bOP", b"\x9b3;3R", b"\x1b[", b"\x1b[?1;2c", b"\x1b[24;80R"]


def history(rng, nops, blink=True, graphic=True, sized=True, ops_weights=None, behbits=None, wild=False, inputs=False, localised=False):
    """returns the script line (without oracle config); one manipulator in eight is a named object streamed as an lvalue;
    localised: the line is executed under a digit-grouping global C++ locale (prefix `~`)"""
    line = _history(rng, nops, blink, graphic, sized, ops_weights, behbits, wild, inputs)
    parts = line.split(" ; ")
    for k in range(1, len(parts)):
        w0 = parts[k].split(" ", 1)[0]
        if w0 in ("mv", "ti", "hc", "sc", "sv", "rs", "er", "me", "md", "nb", "ab", "re", "da", "we", "ws"):
            x = rng.random()
            if x < 0.125:
                parts[k] = "lv " + parts[k]
            elif x < 0.19:
                parts[k] = "ux " + parts[k]       # from a destructor, while an unrelated exception is unwinding
    return ("~" if localised else "") + " ; ".join(parts)


def _history(rng, nops, blink=True, graphic=True, sized=True, ops_weights=None, behbits=None, wild=False, inputs=False):
    """returns the script line (without oracle config)"""
    if behbits is None:
        # bits 0-4: the five flags the library consults; bits 5-11: the seven it declares but ignores (non-default values)
        behbits = rng.randrange(32) | (rng.choice([0, 0, 0, 1 << rng.randrange(7), rng.randrange(128)]) << 5)
    w, h = rng.choice([(1, 1), (2, 2), (3, 2), (4, 3), (5, 5), (10, 4), (40, 12), (80, 24), (250, 2), (3, 120), (rng.randrange(1, 41), rng.randrange(1, 13)),
                       (1205, 1102), (100003, 10021), (1012, 3), (5, 20004)])
    parts = ["T %d" % behbits]
    if sized:
        parts.append("sz %d %d" % (w, h))
    prev = None
    cur = None
    weights = ops_weights or {"we": 30, "ws": 10, "mv": 20, "sv": 4, "rs": 4, "er": 8, "hc": 3, "sc": 3, "me": 2,
                              "md": 2, "ti": 2, "nb": 1, "ab": 1, "sz": 3, "re": 3, "da": 1, "dup": 6}
    if inputs:
        weights = dict(weights, **{"in": 12, "cl": 2, "rv": 2, "al": 1, "qw": 4})
    names = list(weights)
    wts = [weights[n] for n in names]
    last = None
    for _ in range(nops):
        o = rng.choices(names, wts)[0]
        if o == "dup" and last is not None:
            for _ in range(rng.choice([1, 1, 2, 3])):     # the same operation again - twice or three times now and then
                parts.append(last)
            continue
        if o == "qw":
            # the application sends a status query through the raw entry point terminal::write (DSR, DA): the terminal
            # answers on its input side and changes nothing - what the library knows about it stays true
            q = rng.choice([b"\x1b[6n", b"\x1b[5n", b"\x1b[c", b"\x1b[0c"])
            parts.append("wr %d %s" % (len(q), " ".join(str(b) for b in q)))
            continue
        if o in ("cl", "rv", "al"):
            # the channel is closed / re-attached / asked whether it is alive: the library writes regardless
            parts.append(o)
            continue
        if o == "in":
            data = rng.choice(INPUTS)
            parts.append("in %d %s" % (len(data), " ".join(str(b) for b in data)))
            continue
        if o == "we" or o == "re":
            e = element(rng, prev, blink, graphic)
            prev = e
            s = ("we " if o == "we" or prev is None else "re ") + fmt_el(e)
        elif o == "ws" and rng.random() < 0.12:
            # plain text streamed as a C string (`term << "text"`): a NUL-terminated char const*
            txt = bytes(rng.choice([rng.randrange(0x20, 0x7F), 0x41, 0x20, 0x7E]) for _ in range(rng.choice([1, 2, 5, 12])))
            s = "wl %d %s" % (len(txt), " ".join(str(b) for b in txt))
            prev = [5, txt[-1], 0, 0] + list(DEFAULT_ATTR)
        elif o == "ws":
            es = []
            for _ in range(min(300, rng.choice([0, 1, 2, 3, 5, max(1, w - 1), w, w + 1, rng.choice([w + 1, 90, 300])]))):
                e = element(rng, prev, blink, graphic)
                prev = e
                es.append(e)
            s = op_ws(es)
        elif o == "mv":
            p = pos(rng, w, h, cur)
            if wild and rng.random() < 0.5:
                # outside the declared size (beyond the right / bottom edge, far beyond, negative): correspondence only
                p = (rng.choice([p[0], w, w + 1, w + 20, -1, 5 * w + 3]), rng.choice([p[1], h, h + 1, h + 7, -1]))
                if rng.random() < 0.4 and cur is not None:
                    p = cur                                    # the same out-of-range request again
            cur = p
            s = "mv %d %d" % p
        elif o == "er":
            s = "er %d" % rng.randrange(6)
        elif o == "ti":
            t = title(rng)
            s = "ti %d %s" % (len(t), " ".join(map(str, t)))
        elif o == "sz":
            w, h = rng.choice([(w, h), (max(1, w - 1), h), (w + 1, h + 1), (rng.randrange(1, 41), rng.randrange(1, 13))])
            cur = None
            s = "sz %d %d" % (w, h)
        elif o == "dup":
            continue
        else:
            s = o
        parts.append(s)
        last = s
    return " ; ".join(parts)


def configs(rng, n, w=None, h=None):
    out = []
    for _ in range(n):
        out.append("%d %d %d %d %d %d" % (rng.randrange(3), rng.randrange(3), rng.randrange(6), rng.randrange(4),
                                          w or rng.choice([1, 2, 5, 80]), h or rng.choice([1, 3, 24])))
    return out


ALL_CONFIGS_SMALL = ["%d %d %d %d 7 4" % (wv, e, r, z) for wv in range(3) for e in range(3) for r in (0, 1, 2) for z in (0, 2)]


def short_histories(maxlen, cfgs):
    """EVERY sequence of at most `maxlen` operations over an 18-operation alphabet on a 3x2 terminal (after the size has
    been declared): two different elements, strings that stop short of / reach the last column, moves to the four kinds
    of position, save, restore, two erases, hide, show, re-declaring the same size, declaring a smaller one, the bare
    manipulators.  Systematic cover of short interaction patterns (e.g. save, restore, restore, move)."""
    import itertools
    a = "5 120 0 0 " + " ".join(map(str, DEFAULT_ATTR))
    b = "18 195 169 0 0 1 0 0 0 9 0 0 1 24 27 5"
    alphabet = ["we " + a, "we " + b, "ws 2 %s %s" % (a, b), "ws 3 %s %s %s" % (a, a, a), "mv 0 0", "mv 2 0", "mv 1 1", "mv 2 1",
                "sv", "rs", "er 0", "er 4", "hc", "sc", "sz 3 2", "sz 2 2", "da", "re " + a]
    out = []
    k = 0
    for n in range(1, maxlen + 1):
        for seq in itertools.product(alphabet, repeat=n):
            # after a shrink to 2x2 positions with x = 2 are outside the declared size: keep the script in the domain
            shrunk = False
            ok = True
            for o in seq:
                if o == "sz 2 2":
                    shrunk = True
                elif o == "sz 3 2":
                    shrunk = False
                elif shrunk and (o in ("mv 2 0", "mv 2 1")):
                    ok = False
                    break
            if not ok:
                continue
            out.append(("T 0 ; sz 3 2 ; " + " ; ".join(seq), [cfgs[k % len(cfgs)]]))
            k += 1
    return out


def short_histories_b(maxlen, cfgs):
    """a second alphabet for the exhaustive short histories: all six erases, both buffers, mouse on/off, a title, the
    two visibility requests, elements in three character sets, a move, save and restore, input arriving - on a 3x2
    terminal whose behaviour has mouse and title capabilities"""
    import itertools
    a = "5 120 0 0 " + " ".join(map(str, DEFAULT_ATTR))
    d = "0 113 0 0 0 2 0 0 0 9 0 0 22 4 27 25"
    u = "18 226 130 172 0 9 0 0 1 196 0 0 1 24 7 25"
    alphabet = ["er 0", "er 1", "er 2", "er 3", "er 4", "er 5", "nb", "ab", "me", "md", "ti 2 104 105", "hc", "sc",
                "we " + a, "we " + d, "we " + u, "mv 1 1", "sv", "rs", "in 6 27 91 49 59 50 82"]
    out = []
    k = 0
    for n in range(1, maxlen + 1):
        for seq in itertools.product(alphabet, repeat=n):
            out.append(("T %d ; sz 3 2 ; %s" % ((5, 10, 21, 26)[k % 4], " ; ".join(seq)), [cfgs[k % len(cfgs)]]))
            k += 1
    return out


def multi_history(rng, nops, ops_weights=None, sized=True):
    """an `M` script: the operations of one history streamed as THE SAME objects to two or three terminals whose
    capability flags differ (mouse and window-title flags in particular)"""
    line = _history(rng, nops, sized=sized, ops_weights=ops_weights, inputs=False)
    head, _, tail = line.partition(" ; ")
    n = rng.choice([2, 2, 3])
    caps = [0, 1, 2, 3, 4, 8, 12, 5, 10, 15, 16, 31]
    bits = []
    while len(bits) < n:
        b = rng.choice(caps) if rng.random() < 0.8 else rng.randrange(32)
        if rng.random() < 0.7 and b in bits:
            continue                                   # mostly different capabilities
        bits.append(b)
    return "M " + " ".join(str(b) for b in bits) + (" ; " + tail if tail else "")
