"""Builds: library from /repo's working tree (sanitised), harness executables, regenerated Lean
constants, the Lean library + driver.  Everything lives under /verif/build/<fingerprint>/ and
/verif/lean/.lake; nothing is kept under /tmp."""
import fcntl
import glob
import hashlib
import os
import shutil
import subprocess
import sys
import time

VERIF = os.path.dirname(os.path.dirname(os.path.abspath(__file__)))
REPO = os.environ.get("VERIF_REPO", "/repo")
LEAN = os.path.join(VERIF, "lean")
BUILD = os.path.join(VERIF, "build")
GUARD = "TERMINALPP_VERIF"
SYS_INC = "/root/miniconda/include"
SYS_LIB = "/root/miniconda/lib"
NPROC = os.cpu_count() or 4


class BuildError(Exception):
    def __init__(self, what, log):
        super().__init__(what)
        self.what = what
        self.log = log


def sh(cmd, cwd=None, timeout=3600, env=None):
    p = subprocess.run(cmd, cwd=cwd, stdout=subprocess.PIPE, stderr=subprocess.STDOUT, timeout=timeout, env=env)
    return p.returncode, p.stdout.decode("utf-8", "replace")


def repo_sources():
    srcs = sorted(glob.glob(os.path.join(REPO, "src", "**", "*.cpp"), recursive=True))
    hdrs = sorted(glob.glob(os.path.join(REPO, "include", "**", "*"), recursive=True))
    return srcs, [h for h in hdrs if os.path.isfile(h)]


def fingerprint():
    h = hashlib.sha256()
    srcs, hdrs = repo_sources()
    for f in srcs + hdrs + sorted(glob.glob(os.path.join(VERIF, "harness", "*"))) + [
            os.path.join(VERIF, "vlib", "tables.py"), os.path.join(VERIF, "vlib", "statics.py")]:
        if os.path.isfile(f):
            h.update(f.encode())
            with open(f, "rb") as fh:
                h.update(fh.read())
    return h.hexdigest()[:16]


class Lock:
    def __init__(self, path):
        os.makedirs(os.path.dirname(path), exist_ok=True)
        self.path = path

    def __enter__(self):
        self.fh = open(self.path, "w")
        fcntl.flock(self.fh, fcntl.LOCK_EX)
        return self

    def __exit__(self, *a):
        fcntl.flock(self.fh, fcntl.LOCK_UN)
        self.fh.close()


def include_flags():
    return ["-I" + os.path.join(REPO, "include"), "-I" + os.path.join(VERIF, "harness", "fallback_include"),
            "-isystem", SYS_INC]


BASE_FLAGS = ["-std=gnu++20", "-DFMT_SHARED", "-D" + GUARD, "-w"]
SAN = {
    "asan": ["-O1", "-g", "-fsanitize=address,undefined", "-fno-sanitize-recover=all", "-fno-omit-frame-pointer"],
    "tsan": ["-O1", "-g", "-fsanitize=thread"],
    "plain": ["-O1"],
}
LINK = ["-L" + SYS_LIB, "-lfmt", "-Wl,-rpath," + SYS_LIB, "-lpthread"]


def _compile_many(jobs):
    """jobs: list of (cmd, outfile). run in parallel, raise on first failure."""
    procs = []
    pending = list(jobs)
    failed = None
    running = []
    while pending or running:
        while pending and len(running) < NPROC:
            cmd, out = pending.pop(0)
            running.append((subprocess.Popen(cmd, stdout=subprocess.PIPE, stderr=subprocess.STDOUT), cmd, out))
        still = []
        for p, cmd, out in running:
            if p.poll() is None:
                still.append((p, cmd, out))
            else:
                o = p.stdout.read().decode("utf-8", "replace")
                if p.returncode != 0 and failed is None:
                    failed = (cmd, o)
        running = still
        if running:
            time.sleep(0.02)
    if failed:
        raise BuildError("compile failed: " + " ".join(failed[0][-3:]), failed[1])


def build_dir():
    fp = fingerprint()
    d = os.path.join(BUILD, fp)
    return fp, d


def clean_stale(keep):
    if not os.path.isdir(BUILD):
        return
    for name in os.listdir(BUILD):
        p = os.path.join(BUILD, name)
        if name in (keep, "locks", "tmp") or not os.path.isdir(p):
            continue
        # only remove directories older than 30 minutes (another check may be using a sibling)
        try:
            if time.time() - os.path.getmtime(p) > 1800:
                shutil.rmtree(p, ignore_errors=True)
        except OSError:
            pass


def build_library(variant="asan"):
    """compile every /repo/src/**/*.cpp; returns list of object files"""
    fp, d = build_dir()
    od = os.path.join(d, "obj-" + variant)
    stamp = os.path.join(od, ".done")
    srcs, _ = repo_sources()
    objs = [os.path.join(od, os.path.relpath(s, REPO).replace("/", "__") + ".o") for s in srcs]
    with Lock(os.path.join(BUILD, "locks", fp + "-" + variant + ".lock")):
        if os.path.exists(stamp) and all(os.path.exists(o) for o in objs):
            return objs
        os.makedirs(od, exist_ok=True)
        jobs = []
        for s, o in zip(srcs, objs):
            jobs.append((["g++"] + BASE_FLAGS + SAN[variant] + include_flags() + ["-c", s, "-o", o], o))
        _compile_many(jobs)
        open(stamp, "w").close()
    clean_stale(fp)
    return objs


def build_harness(name, variant="asan", extra_src=()):
    """link harness/<name>.cpp against the freshly built library objects"""
    fp, d = build_dir()
    objs = build_library(variant)
    exe = os.path.join(d, name + "-" + variant)
    with Lock(os.path.join(BUILD, "locks", fp + "-" + name + variant + ".lock")):
        if os.path.exists(exe):
            return exe
        src = [os.path.join(VERIF, "harness", name + ".cpp")] + list(extra_src)
        cmd = ["g++"] + BASE_FLAGS + SAN[variant] + include_flags() + ["-I" + os.path.join(VERIF, "harness")] + src + objs + LINK + ["-o", exe + ".tmp"]
        rc, out = sh(cmd)
        if rc != 0:
            raise BuildError("harness %s does not compile against the tree" % name, out)
        os.replace(exe + ".tmp", exe)
    return exe


def regenerate_consts():
    """compile + run the extractor; rewrite Generated/Consts.lean only when content changes"""
    fp, d = build_dir()
    os.makedirs(d, exist_ok=True)
    exe = os.path.join(d, "extract_consts")
    with Lock(os.path.join(BUILD, "locks", fp + "-extract.lock")):
        if not os.path.exists(exe):
            cmd = ["g++"] + BASE_FLAGS + ["-O0"] + include_flags() + [os.path.join(VERIF, "harness", "extract_consts.cpp"), "-o", exe + ".tmp"]
            rc, out = sh(cmd)
            if rc != 0:
                raise BuildError("extract_consts.cpp does not compile against /repo/include", out)
            os.replace(exe + ".tmp", exe)
        rc, out = sh([exe])
        if rc != 0:
            raise BuildError("extract_consts failed", out)
    target = os.path.join(LEAN, "Tpp", "Generated", "Consts.lean")
    with Lock(os.path.join(BUILD, "locks", "lake.lock")):
        old = open(target).read() if os.path.exists(target) else None
        if old != out:
            with open(target, "w") as fh:
                fh.write(out)
            return True
    return False


def regenerate_tables():
    """translate the lookup tables declared inside /repo/src/**/*.cpp into Generated/Tables.lean (vlib/tables.py)"""
    from . import tables as tb
    fp, d = build_dir()
    os.makedirs(d, exist_ok=True)
    found = tb.find_tables(REPO)
    out_path = os.path.join(d, "tables.out")
    with Lock(os.path.join(BUILD, "locks", fp + "-tables.lock")):
        if os.path.exists(out_path):
            printed = open(out_path).read()
        else:
            printed = ""
            if found:
                src = os.path.join(d, "tables_gen.cpp")
                with open(src, "w") as fh:
                    fh.write(tb.cpp_program(found))
                exe = os.path.join(d, "tables_gen")
                rc, out = sh(["g++"] + BASE_FLAGS + ["-O0"] + include_flags() + [src, "-o", exe])
                if rc != 0:
                    # one table that no longer compiles in isolation must not hide the others: retry one by one
                    for t in found:
                        with open(src, "w") as fh:
                            fh.write(tb.cpp_program([t]))
                        rc1, _ = sh(["g++"] + BASE_FLAGS + ["-O0"] + include_flags() + [src, "-o", exe])
                        if rc1 == 0:
                            rc2, o2 = sh([exe])
                            if rc2 == 0:
                                printed += o2
                else:
                    rc, printed = sh([exe])
                    if rc != 0:
                        printed = ""
            with open(out_path, "w") as fh:
                fh.write(printed)
    text = tb.lean_module(printed, found, REPO)
    target = os.path.join(LEAN, "Tpp", "Generated", "Tables.lean")
    with Lock(os.path.join(BUILD, "locks", "lake.lock")):
        old = open(target).read() if os.path.exists(target) else None
        if old != text:
            with open(target, "w") as fh:
                fh.write(text)
            return True
    return False


def lake_build(targets, timeout=3600):
    """returns (ok, output)"""
    with Lock(os.path.join(BUILD, "locks", "lake.lock")):
        rc, out = sh(["lake", "build"] + list(targets), cwd=LEAN, timeout=timeout)
    return rc == 0, out


def driver_path():
    return os.path.join(LEAN, ".lake", "build", "bin", "driver")


def lean_run(src_text, timeout=1200):
    """run a Lean snippet under `lake env lean` (used for #print axioms)"""
    os.makedirs(os.path.join(BUILD, "tmp"), exist_ok=True)
    path = os.path.join(BUILD, "tmp", "snippet_%d_%d.lean" % (os.getpid(), int(time.time() * 1000) % 100000))
    with open(path, "w") as fh:
        fh.write(src_text)
    try:
        rc, out = sh(["lake", "env", "lean", path], cwd=LEAN, timeout=timeout)
    finally:
        try:
            os.remove(path)
        except OSError:
            pass
    return rc, out


HANG_RC = 124


def _run_once(exe, lines, timeout, e):
    """returns (returncode or None on timeout, answer lines, stderr)"""
    data = ("\n".join(lines) + "\n").encode()
    p = subprocess.Popen([exe], stdin=subprocess.PIPE, stdout=subprocess.PIPE, stderr=subprocess.PIPE, env=e)
    try:
        so, se = p.communicate(data, timeout=timeout)
        rc = p.returncode
    except subprocess.TimeoutExpired:
        p.kill()
        so, se = p.communicate()
        rc = None
    out = so.decode("utf-8", "replace").split("\n")
    if out and out[-1] == "":
        out.pop()
    return rc, out, se.decode("utf-8", "replace")


def _run_lines_one(exe, lines, timeout, e):
    """one process for a batch of lines.  A process that stops answering (an input on which the library never
    returns) is killed after a time limit proportional to the batch; the hanging line is then located by bisection
    and reported like a crash: the answers up to it are returned with a non-zero return code."""
    size = sum(len(l) for l in lines)
    limit = min(timeout, int(os.environ.get("VERIF_EXEC_TIMEOUT", "0")) or max(90, size // 20000))
    rc, out, err = _run_once(exe, lines, limit, e)
    if rc is not None:
        return rc, out, err
    # timed out: everything before `lo` is known to be answered; find the first line that never returns
    lo, hi = min(len(out), len(lines) - 1), len(lines)
    good = out[:lo]
    while hi - lo > 1:
        mid = (lo + hi) // 2
        seg = lines[lo:mid]
        r2, o2, _ = _run_once(exe, seg, max(10, sum(len(l) for l in seg) // 20000 * 3), e)
        if r2 is None or len(o2) != len(seg):
            if r2 is not None:
                # died rather than hung inside this half: report as an ordinary abort at that line
                return (r2 if r2 != 0 else 1), good + o2, "executor died while a hang was being located"
            hi = mid
        else:
            good += o2
            lo = mid
    return HANG_RC, good, "TIMEOUT: the executor never answered line %d of its batch (no answer within %d s, located by bisection): %s" % (
        lo, limit, lines[lo][:300])


def run_lines(exe, lines, timeout=3600, env=None):
    """feed lines to an executable; returns (returncode, list of answer lines, stderr text).
    Large batches are split into contiguous chunks run concurrently (cases are independent: one line in, one line
    out); answers are concatenated in order.  When a chunk dies, the answers up to its first unanswered line are
    returned, so the caller still finds the failing input at index len(answers)."""
    e = dict(os.environ)
    e["ASAN_OPTIONS"] = "detect_leaks=0:abort_on_error=0"
    e["UBSAN_OPTIONS"] = "print_stacktrace=1"
    if env:
        e.update(env)
    if not lines:
        return 0, [], ""
    total = sum(len(l) for l in lines)
    if len(lines) < 400 or total < 200000:
        return _run_lines_one(exe, lines, timeout, e)
    from concurrent.futures import ThreadPoolExecutor
    nchunks = min(NPROC, max(2, len(lines) // 200))
    # balance by text size, keep order
    target = total / nchunks
    chunks, cur, acc = [], [], 0
    for l in lines:
        cur.append(l)
        acc += len(l)
        if acc >= target and len(chunks) < nchunks - 1:
            chunks.append(cur)
            cur, acc = [], 0
    if cur:
        chunks.append(cur)
    with ThreadPoolExecutor(max_workers=len(chunks)) as ex:
        results = list(ex.map(lambda c: _run_lines_one(exe, c, timeout, e), chunks))
    out, err_all = [], ""
    for (rc, o, err), c in zip(results, chunks):
        out.extend(o)
        if rc != 0 or len(o) != len(c):
            return (rc if rc != 0 else 1), out, err
        err_all += err[-2000:]
    return 0, out, err_all
