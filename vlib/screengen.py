"""Generators for screen (`S`) scripts: sequences of frames (DESIGN §5 C03/C04)."""
from . import termgen as tg


def px(x, y, e, how="px"):
    return "%s %d %d %s" % (how, x, y, tg.fmt_el(e))


def frames(rng, nframes, declare=True, maxw=8, maxh=5, mismatch=False):
    w, h = rng.choice([(1, 1), (2, 2), (3, 2), (4, 3), (rng.randrange(1, maxw + 1), rng.randrange(1, maxh + 1))])
    # bits 0-4 as for terminals; bits 5-11 = non-default values of the capability flags the library never consults
    parts = ["S %d" % (rng.choice([0, 0, 16]) | (rng.choice([0, 0, 1 << rng.randrange(7), rng.randrange(128)]) << 5))]
    if declare:
        if mismatch:
            # the declared terminal size is NOT the canvas size (smaller, larger, zero): outside the frame protocol, tie only
            parts.append("tsz %d %d" % (rng.choice([max(0, w - 1), w + 2, 0, w]), rng.choice([max(0, h - 1), h + 1, 0, 1])))
        else:
            parts.append("tsz %d %d" % (w, h))
    parts.append("cv %d %d" % (w, h))
    cells = {}
    prev = None
    for f in range(nframes):
        r = rng.random()
        if f > 0 and r < 0.2:
            # size change (same-area reshapes included)
            if rng.random() < 0.3 and w * h > 1:
                divs = [d for d in range(1, w * h + 1) if (w * h) % d == 0 and d <= maxw and (w * h) // d <= maxh]
                w2 = rng.choice(divs)
                h2 = (w * h) // w2
            else:
                w2, h2 = rng.randrange(1, maxw + 1), rng.randrange(1, maxh + 1)
            if (w2, h2) != (w, h):
                w, h = w2, h2
                parts.append("tsz %d %d" % (w, h))
                kind = rng.choice(["rz %d %d", "cv %d %d"])
                if kind.startswith("cv"):
                    cells = {}
                parts.append(kind % (w, h))
        elif f > 0 and r < 0.27:
            # a canvas without cells in between: the next draw is a size change again (full retransmission),
            # although the picture and its size are the same as before the empty canvas
            zw, zh = rng.choice([(0, 0), (0, h), (w, 0), (0, rng.randrange(0, maxh + 1)), (rng.randrange(0, maxw + 1), 0)])
            how = rng.choice(["cv %d %d", "rz %d %d"])
            parts.append(how % (zw, zh))
            if rng.random() < 0.7:
                parts.append("dr")
            if how.startswith("rz") and rng.random() < 0.6:
                parts.append("rz %d %d" % (w, h))        # the SAME canvas object resized through a zero area and back
                cells = {}
            else:
                parts.append("cv %d %d" % (w, h))
                for (x, y), e in sorted(cells.items()):
                    if x < w and y < h:
                        parts.append(px(x, y, e))
        elif f > 0 and r < 0.33:
            # a new canvas object of the same size constructed at the address of the old one, given the same number of
            # edits as the last frame received (an identity stamp of address + edit count cannot tell them apart)
            parts.append("nc %d %d" % (w, h))
            old = cells
            cells = {}
            for (x, y), e in sorted(old.items()):
                if x < w and y < h:
                    e2 = tg.element(rng, e) if rng.random() < 0.5 else e
                    cells[(x, y)] = e2
                    parts.append(px(x, y, e2))
            parts.append("dr")
            continue
        nedit = rng.choice([0, 1, 1, 2, 3, 4, w * h])
        for _ in range(nedit):
            x, y = tg.pos(rng, w, h)
            k = rng.random()
            if k < 0.15 and (x, y) in cells:
                e = cells[(x, y)][:4] + tg.attr(rng)          # attribute-only edit
            elif k < 0.22 and (x, y) in cells and cells[(x, y)][0] == tg.CS_UTF8:
                # glyph-only edit that changes exactly ONE storage byte of a UTF-8 glyph (the next code point, the same
                # position in the neighbouring 64-block / 4096-block): what a sloppy glyph comparison takes for equal
                old = cells[(x, y)]
                b = list(old[1:4])
                nb = sum(1 for v in b if v)
                if nb == 3:
                    i = rng.choice([0, 1, 2, 2])
                    b[i] = (0xE0 + (b[0] - 0xE0 + 1) % 16) if i == 0 else (0x80 + (b[i] - 0x80 + rng.choice([1, 63, 32])) % 64)
                    if b[0] == 0xE0 and b[1] < 0xA0:
                        b[1] += 0x20                         # keep the encoding well formed (no overlong forms)
                elif nb == 2:
                    i = rng.choice([0, 1, 1])
                    b[i] = (0xC2 + (b[0] - 0xC2 + 1) % 30) if i == 0 else (0x80 + (b[1] - 0x80 + rng.choice([1, 63])) % 64)
                else:
                    b[0] = 0x20 + (b[0] - 0x20 + 1) % 0x5F
                e = [tg.CS_UTF8] + b + old[4:]
            elif k < 0.25:
                e = [5, 32, 0, 0] + tg.DEFAULT_ATTR           # revert to blank
            elif k < 0.35 and prev is not None:
                e = prev
            else:
                e = tg.element(rng, prev)
            cells[(x, y)] = e
            prev = e
            parts.append(px(x, y, e, rng.choice(["px", "px", "px", "pi", "pr", "pe"])))
        parts.append("dr")
        if rng.random() < 0.15:
            parts.append("dr")                                # same canvas again
        if rng.random() < 0.2:
            # the application also talks to the terminal itself between two draws (nothing that prints)
            for _ in range(rng.choice([1, 1, 2, 3])):
                parts.append(rng.choice(["t sv", "t rs", "t hc", "t sc", "t cl", "t rv", t_input(rng, w, h), "t mv %d %d" % (rng.randrange(w), rng.randrange(h)),
                                         "t mv %d %d" % (w - 1, h - 1), "t mv 0 0"]))
    return " ; ".join(parts)


def t_input(rng, w, h):
    """input arriving on the screen's terminal between two draws: cursor position reports (= modified F3 on xterm) inside
    the size, keys, a mouse report"""
    data = rng.choice([b"\x1b[%d;%dR" % (rng.randrange(1, h + 1), rng.randrange(1, w + 1)), b"\x1b[1;2R", b"\x1b[1;5R", b"\x1b[A", b"a", b"\x1b[M !!"])
    return "t in %d %s" % (len(data), " ".join(str(b) for b in data))


def reshapes(rng, n):
    """consecutive draws of canvases of DIFFERENT shape whose cells, read row by row, form the same sequence (4x1 'abcd' then
    2x2 'ab/cd'; a uniform 2x3 then 3x2; …), followed by a real edit: a draw that compares the cell sequences only"""
    out = []
    for _ in range(n):
        area = rng.choice([2, 4, 6, 8, 12])
        shapes = [(d, area // d) for d in range(1, area + 1) if area % d == 0]
        seq = [[5, 65 + (i % 26 if rng.random() < 0.8 else 0), 0, 0] + tg.DEFAULT_ATTR for i in range(area)]
        if rng.random() < 0.3:
            seq = [seq[0]] * area                                   # uniform fill
        if rng.random() < 0.3:
            seq = [seq[0]] + [[5, 32, 0, 0] + tg.DEFAULT_ATTR] * (area - 1)     # only the top-left cell set
        parts = ["S %d" % rng.choice([0, 16])]
        prev = None
        for f in range(rng.choice([2, 3, 4])):
            w, h = rng.choice([s_ for s_ in shapes if s_ != prev] or shapes)
            prev = (w, h)
            parts.append("tsz %d %d" % (w, h))
            parts.append(rng.choice(["cv %d %d", "nc %d %d", "rz %d %d"]) % (w, h))
            for i, e in enumerate(seq):
                parts.append(px(i % w, i // w, e))
            parts.append("dr")
            if rng.random() < 0.5:
                i = rng.randrange(area)
                seq = list(seq)
                seq[i] = [5, 97 + rng.randrange(26), 0, 0] + tg.DEFAULT_ATTR
                parts.append(px(i % w, i // w, seq[i]))
                parts.append("dr")
        out.append(" ; ".join(parts))
    return out


def neighbour_after_move(rng, n):
    """the application moves the cursor (or the terminal answers a query) between two draws, and the next draw's first
    changed cell is the right-hand neighbour of the last cell the previous draw wrote: state a draw keeps about 'where I
    stopped' must not outlive the draw"""
    out = []
    for _ in range(n):
        w, h = rng.choice([(4, 3), (5, 2), (8, 4), (3, 3), (10, 1)])
        x, y = rng.randrange(w - 1), rng.randrange(h)
        parts = ["S %d" % rng.choice([0, 16]), "tsz %d %d" % (w, h), "cv %d %d" % (w, h)]
        # frame 1: some cells up to and including (x, y) - the last one written
        for (cx, cy) in sorted({(rng.randrange(w), rng.randrange(y + 1)) for _ in range(rng.choice([0, 1, 3]))} | {(x, y)}, key=lambda p: (p[1], p[0])):
            if (cy, cx) <= (y, x):
                parts.append(px(cx, cy, [5, 65 + cx, 0, 0] + tg.DEFAULT_ATTR))
        parts.append("dr")
        parts.append(rng.choice(["t mv %d %d" % (rng.randrange(w), rng.randrange(h)), "t mv 0 0", "t sv", "t rs", t_input(rng, w, h),
                                 "t mv %d %d" % (w - 1, h - 1)]))
        if rng.random() < 0.3:
            parts.append("t mv %d %d" % (rng.randrange(w), rng.randrange(h)))
        parts.append(px(x + 1, y, [5, 97 + x, 0, 0] + tg.DEFAULT_ATTR))
        parts.append("dr")
        parts.append("dr")
        out.append(" ; ".join(parts))
    return out


def single_cell_edits(w, h, cfgs):
    """every single-cell edit of a w x h canvas, from a non-blank first frame"""
    import itertools
    out = []
    base = []
    for y in range(h):
        for x in range(w):
            base.append(px(x, y, [5, 65 + (x + y * w) % 26, 0, 0] + tg.DEFAULT_ATTR))
    red = [5, 120, 0, 0, 0, 1, 0, 0, 0, 9, 0, 0, 1, 24, 27, 5]
    k = 0
    for y in range(h):
        for x in range(w):
            line = "S 0 ; tsz %d %d ; cv %d %d ; %s ; dr ; %s ; dr ; dr" % (w, h, w, h, " ; ".join(base), px(x, y, red))
            out.append((line, [cfgs[k % len(cfgs)], cfgs[(k + 5) % len(cfgs)]]))
            k += 1
    return out


def large_canvas_edits(rng, cfgs, tier="quick"):
    """canvases at least 100 cells wide or tall, with edits on and around rows/columns 9, 10, 98, 99, 100, 101
    (one-, two- and three-digit coordinates in every cursor-addressing form the draw loop uses)"""
    out = []
    k = 0
    e1 = [5, 65, 0, 0] + tg.DEFAULT_ATTR
    e2 = [18, 0xE0, 0xB8, 0x81, 0, 1, 0, 0, 0, 9, 0, 0, 1, 24, 27, 25]
    marks = [0, 8, 9, 10, 11, 98, 99, 100, 101, 109, 110]
    for (w, h) in (((112, 2), (2, 112), (103, 102)) if tier == "thorough" else ((112, 2), (2, 112), (101, 3), (3, 101))):
        for m in marks:
            for n in marks[::3] + [m]:
                pts = []
                if m < w:
                    pts += [(m, 0), (m, h - 1)]
                if m < h:
                    pts += [(0, m), (w - 1, m)]
                if m < w and n < h:
                    pts += [(m, n)]
                if not pts:
                    continue
                first = " ; ".join(px(x, y, e1) for (x, y) in pts)
                second = " ; ".join(px(x, y, e2) for (x, y) in pts[::-1])
                line = "S %d ; tsz %d %d ; cv %d %d ; %s ; dr ; %s ; dr ; dr" % (rng.choice([0, 16]), w, h, w, h, first, second)
                out.append((line, [cfgs[k % len(cfgs)]]))
                k += 1
    return out


def glyph_byte_edits(cfgs):
    """two-frame scripts in which ONE cell changes from a glyph to another glyph that differs from it in exactly one
    storage byte - for every UTF-8 length class and lead-byte boundary (0x20, 0x7E, C2, DF, E0, E1, EF) and every byte
    position - with identical attributes; and the same for single-byte charsets.  Each such cell has changed."""
    out = []
    k = 0
    glyphs = []
    for b0 in (0x20, 0x41, 0x7E):
        glyphs.append(([18, b0, 0, 0], [[18, b0 ^ 1, 0, 0]]))
        glyphs.append(([5, b0, 0, 0], [[5, b0 ^ 1, 0, 0], [0, b0, 0, 0]]))
    for b0 in (0xC2, 0xC3, 0xD0, 0xDF):
        glyphs.append(([18, b0, 0x80, 0], [[18, b0, 0x81, 0], [18, b0, 0xBF, 0], [18, b0 ^ 1 if b0 ^ 1 >= 0xC2 else 0xC4, 0x80, 0]]))
    for b0 in (0xE0, 0xE1, 0xE8, 0xEC, 0xEF):
        b1 = 0xA0 if b0 == 0xE0 else 0x80
        glyphs.append(([18, b0, b1, 0x80], [[18, b0, b1, 0x81], [18, b0, b1, 0xBF], [18, b0, b1 + 1, 0x80], [18, b0, 0xBF, 0x80],
                                            [18, (b0 + 1) if b0 < 0xEF else 0xEE, b1 if b0 != 0xE0 else 0xA0, 0x80]]))
    for attr in (tg.DEFAULT_ATTR, [0, 1, 0, 0, 0, 4, 0, 0, 1, 4, 7, 5]):
        for g, variants in glyphs:
            for v in variants:
                for (a, b) in ((g, v), (v, g)):
                    line = "S 0 ; tsz 3 2 ; cv 3 2 ; %s ; dr ; %s ; dr ; %s ; dr" % (px(1, 0, a + attr), px(1, 0, b + attr), px(1, 0, a + attr))
                    out.append((line, [cfgs[k % len(cfgs)]]))
                    k += 1
    return out


def padded_rows(rng, n):
    """rows that END in a run of blanks carrying an attribute (coloured / underlined / reversed padding) on canvases at least
    8 cells wide, redrawn over several frames with the padding's length and attribute changing: what an 'erase the rest of
    the line instead of repainting it' shortcut gets wrong"""
    out = []
    pads = [tg.DEFAULT_ATTR, [0, 9, 0, 0, 0, 1, 0, 0, 22, 24, 27, 25], [0, 9, 0, 0, 0, 9, 0, 0, 22, 4, 27, 25],
            [0, 9, 0, 0, 0, 9, 0, 0, 22, 24, 7, 25], [0, 4, 0, 0, 3, 10, 100, 200, 1, 24, 27, 25]]
    for _ in range(n):
        w = rng.choice([8, 9, 10, 12, 16, 20, 33])
        h = rng.choice([1, 2, 3])
        parts = ["S %d" % rng.choice([0, 0, 16]), "tsz %d %d" % (w, h), "cv %d %d" % (w, h)]
        for f in range(rng.choice([1, 2, 3])):
            for y in range(h):
                if f > 0 and rng.random() < 0.3:
                    continue
                k = rng.choice([0, 1, w - 8, w - 9, w - 7, rng.randrange(0, w + 1)])
                k = max(0, min(w, k))
                pad = rng.choice(pads + [tg.attr(rng)])
                blank = rng.choice([[5, 32, 0, 0], [5, 32, 0, 0], [5, 32, 0x55, 0xAA], [18, 32, 0, 0], [0, 32, 0, 0]])
                la = rng.choice([pad, tg.DEFAULT_ATTR, tg.attr(rng)])
                for x in range(k):
                    parts.append(px(x, y, [5, 65 + (x + y) % 26, 0, 0] + list(la)))
                odd = rng.randrange(k, w) if k < w and rng.random() < 0.3 else -1
                for x in range(k, w):
                    parts.append(px(x, y, blank + list(pad if x != odd else rng.choice(pads))))
            parts.append("dr")
        out.append(" ; ".join(parts))
    return out


def wide_runs(rng, tier="quick"):
    """canvases more than 256 cells wide in which runs of 255, 256, 257 and more ADJACENT cells change between two frames
    (same attribute along the run, or alternating): what a run-length / batching shortcut with a byte-sized counter gets wrong"""
    out = []
    shapes = [(300, 1), (258, 2)] if tier != "thorough" else [(300, 1), (258, 2), (600, 1), (520, 2), (1030, 1)]
    for (w, h) in shapes:
        for n in (255, 256, 257, w, 2 * 256 + 1):
            if n > w * h:
                continue
            for alt in (False, True):
                x0 = rng.choice([0, 1, w - n if n <= w else 0])
                x0 = max(0, x0)
                parts = ["S %d" % rng.choice([0, 16]), "tsz %d %d" % (w, h), "cv %d %d" % (w, h)]
                a1 = tg.DEFAULT_ATTR
                a2 = [0, 1, 0, 0, 0, 9, 0, 0, 22, 24, 27, 25]
                for i in range(w * h):
                    parts.append(px(i % w, i // w, [5, 65 + i % 26, 0, 0] + a1))
                parts.append("dr")
                for i in range(x0, min(w * h, x0 + n)):
                    parts.append(px(i % w, i // w, [5, 97 + i % 26, 0, 0] + (a2 if (alt and i % 2) else a1)))
                parts.append("dr")
                parts.append("dr")
                out.append(" ; ".join(parts))
    return out


def mode_frames(rng, n):
    """screen scripts in which cursor-visibility requests are streamed to the screen's terminal around draws that repaint
    many cells at once (first paints and full changes of canvases of 20 to 130 cells): a draw is not a mode request"""
    out = []
    for _ in range(n):
        w, h = rng.choice([(5, 4), (10, 8), (16, 5), (9, 9), (79, 1), (80, 1), (81, 1), (13, 10), (40, 2), (rng.randrange(2, 14), rng.randrange(2, 10))])
        parts = ["S %d" % rng.choice([0, 0, 16]), "tsz %d %d" % (w, h), "cv %d %d" % (w, h)]
        if rng.random() < 0.8:
            parts.append(rng.choice(["t hc", "t hc", "t sc"]))
        for f in range(rng.choice([1, 2, 3])):
            if f and rng.random() < 0.5:
                parts.append(rng.choice(["t hc", "t sc", "t sv", "t cl", "t rv"]))
            k = rng.choice([w * h, w * h, 79, 80, 81, 1, rng.randrange(1, w * h + 1)])
            a = tg.attr(rng) if rng.random() < 0.5 else tg.DEFAULT_ATTR
            ch = 65 + rng.randrange(26)
            start = rng.randrange(w * h)
            for i in range(min(k, w * h)):
                j = (start + i) % (w * h)
                parts.append(px(j % w, j // w, [5, ch, 0, 0] + list(a)))
            parts.append("dr")
        out.append(" ; ".join(parts))
    return out


def kept_references(rng, n):
    """a cell modified through an element& / iterator obtained BEFORE the previous draw, with no other access to the canvas in
    between (a spinner cell, a clock): the draw must look at the cells, not at whether the canvas 'was touched'"""
    out = []
    for _ in range(n):
        w, h = rng.choice([(4, 3), (5, 2), (3, 3), (8, 2), (1, 1)])
        x, y = rng.randrange(w), rng.randrange(h)
        parts = ["S %d" % rng.choice([0, 16]), "tsz %d %d" % (w, h), "cv %d %d" % (w, h)]
        for _ in range(rng.choice([0, 2, 5])):
            cx, cy = rng.randrange(w), rng.randrange(h)
            parts.append(px(cx, cy, tg.element(rng)))
        parts.append("kr %d %d" % (x, y))
        if rng.random() < 0.3:
            parts.append(px(rng.randrange(w), rng.randrange(h), tg.element(rng)))
        parts.append("dr")
        for f in range(rng.choice([1, 2, 4])):
            parts.append("%s %s" % (rng.choice(["sr", "si"]), tg.fmt_el(tg.element(rng))))
            parts.append("dr")
            if rng.random() < 0.2:
                parts.append("dr")
        out.append(" ; ".join(parts))
    return out


def large_canvas_replaced(rng, n):
    """a written canvas of 1000+ cells is destroyed and a NEW canvas of that size (or a bit smaller) is constructed and drawn:
    it starts blank, whatever storage it was given"""
    out = []
    for _ in range(n):
        w, h = rng.choice([(40, 30), (80, 24), (64, 16), (33, 32)])
        parts = ["S %d" % rng.choice([0, 16]), "tsz %d %d" % (w, h), "cv %d %d" % (w, h)]
        for _ in range(rng.choice([3, 10, 40])):
            parts.append(px(rng.randrange(w), rng.randrange(h), tg.element(rng)))
        parts.append("dr")
        w2, h2 = rng.choice([(w, h), (w, h), (w - 1, h), (w, h - 2)])
        if (w2, h2) != (w, h):
            parts.append("tsz %d %d" % (w2, h2))
        parts.append(rng.choice(["cv %d %d", "nc %d %d"]) % (w2, h2))
        if rng.random() < 0.5:
            parts.append(px(rng.randrange(w2), rng.randrange(h2), tg.element(rng)))
        parts.append("dr")
        parts.append("dr")
        out.append(" ; ".join(parts))
    return out
