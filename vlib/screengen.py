"""Generators for screen (`S`) scripts: sequences of frames (DESIGN §5 C03/C04)."""
from . import termgen as tg


def px(x, y, e, how="px"):
    return "%s %d %d %s" % (how, x, y, tg.fmt_el(e))


def frames(rng, nframes, declare=True, maxw=8, maxh=5):
    w, h = rng.choice([(1, 1), (2, 2), (3, 2), (4, 3), (rng.randrange(1, maxw + 1), rng.randrange(1, maxh + 1))])
    # bits 0-4 as for terminals; bits 5-11 = non-default values of the capability flags the library never consults
    parts = ["S %d" % (rng.choice([0, 0, 16]) | (rng.choice([0, 0, 1 << rng.randrange(7), rng.randrange(128)]) << 5))]
    if declare:
        parts.append("tsz %d %d" % (w, h))
    parts.append("cv %d %d" % (w, h))
    cells = {}
    prev = None
    for f in range(nframes):
        r = rng.random()
        if f > 0 and r < 0.2:
            # size change (same-area reshapes included)
            if rng.random() < 0.3 and w * h > 1:
                divs = [d for d in range(1, w * h + 1) if (w * h) % d == 0 and d <= maxw and (w * h) // d <= maxh]
                w2 = rng.choice(divs)
                h2 = (w * h) // w2
            else:
                w2, h2 = rng.randrange(1, maxw + 1), rng.randrange(1, maxh + 1)
            if (w2, h2) != (w, h):
                w, h = w2, h2
                parts.append("tsz %d %d" % (w, h))
                kind = rng.choice(["rz %d %d", "cv %d %d"])
                if kind.startswith("cv"):
                    cells = {}
                parts.append(kind % (w, h))
        elif f > 0 and r < 0.27:
            # a canvas without cells in between: the next draw is a size change again (full retransmission),
            # although the picture and its size are the same as before the empty canvas
            zw, zh = rng.choice([(0, 0), (0, h), (w, 0), (0, rng.randrange(0, maxh + 1)), (rng.randrange(0, maxw + 1), 0)])
            parts.append(rng.choice(["cv %d %d", "rz %d %d"]) % (zw, zh))
            parts.append("dr")
            parts.append("cv %d %d" % (w, h))
            for (x, y), e in sorted(cells.items()):
                if x < w and y < h:
                    parts.append(px(x, y, e))
        nedit = rng.choice([0, 1, 1, 2, 3, 4, w * h])
        for _ in range(nedit):
            x, y = tg.pos(rng, w, h)
            k = rng.random()
            if k < 0.15 and (x, y) in cells:
                e = cells[(x, y)][:4] + tg.attr(rng)          # attribute-only edit
            elif k < 0.25:
                e = [5, 32, 0, 0] + tg.DEFAULT_ATTR           # revert to blank
            elif k < 0.35 and prev is not None:
                e = prev
            else:
                e = tg.element(rng, prev)
            cells[(x, y)] = e
            prev = e
            parts.append(px(x, y, e, rng.choice(["px", "px", "px", "pi", "pr"])))
        parts.append("dr")
        if rng.random() < 0.15:
            parts.append("dr")                                # same canvas again
    return " ; ".join(parts)


def single_cell_edits(w, h, cfgs):
    """every single-cell edit of a w x h canvas, from a non-blank first frame"""
    import itertools
    out = []
    base = []
    for y in range(h):
        for x in range(w):
            base.append(px(x, y, [5, 65 + (x + y * w) % 26, 0, 0] + tg.DEFAULT_ATTR))
    red = [5, 120, 0, 0, 0, 1, 0, 0, 0, 9, 0, 0, 1, 24, 27, 5]
    k = 0
    for y in range(h):
        for x in range(w):
            line = "S 0 ; tsz %d %d ; cv %d %d ; %s ; dr ; %s ; dr ; dr" % (w, h, w, h, " ; ".join(base), px(x, y, red))
            out.append((line, [cfgs[k % len(cfgs)], cfgs[(k + 5) % len(cfgs)]]))
            k += 1
    return out
