import os
import subprocess

from .. import screengen as sg
from .. import statics
from .. import termgen as tg
from ..core import Case
from .common import PropBase


SEQS = [b"\x1b[15~", b"\x1b[1;5A", b"\x1b[5~", b"\x1bOP", b"\x9b3;2~", b"\x1b[M !!", b"\x1b[24;6~", b"a", b"\r\n", b"\x1b\x1b[Z",
        b"\x1b[?25h", b"\x8fQ", b"\x1b[2;3;4m", b"\x1b[99999999999999999999A", b"\x1b[5A", b"\x1b[4294967307~", b"\x1b[1;99999999999999999999B"]


def input_script(r):
    """an `I` line: 1-3 decoders, key sequences split across deliveries at random positions (so a sequence is
    regularly in progress in one decoder while another decoder is fed)"""
    runs = []
    for _ in range(r.choice([1, 2, 3])):
        data = b"".join(r.choice(SEQS) for _ in range(r.choice([1, 2, 4, 7])))
        cuts = sorted(set(r.randrange(0, len(data) + 1) for _ in range(r.choice([1, 2, 4, 8]))))
        chunks, prev = [], 0
        for c in cuts + [len(data)]:
            chunks.append(data[prev:c])
            prev = c
        runs.append(",".join(ch.hex() if ch else "-" for ch in chunks))
    return "I " + " / ".join(runs)


class Prop(PropBase):
    ID = "C12"
    LEAN_MODULES = ["Tpp.Props.C12"]
    REQUIRED = ["Tpp.Props.C12." + n for n in ("C12_interleave", "C12_terminals", "no_mutable_statics")]
    RULE = ("twin sets (the same operation sequence on 2-4 objects that differ only in configuration, or not at all) and sets of 2-8 per-object scripts (terminals with different behaviours, screens, input decoders fed key sequences "
            "split across deliveries, markup/string/value one-shot "
            "cases) are executed with all objects alive at once: round-robin, several seeded random interleavings on one "
            "thread (ASan+UBSan build) and concurrently with one thread per object (ThreadSanitizer build); every "
            "object's answer must equal its solo answer from the plain executor and the model's; any ThreadSanitizer "
            "report is a violation. Also regenerated on every run: the inventory of static-storage objects in writable "
            "sections of the built library, each matched to a const/constexpr declaration (proof obligation "
            "no_mutable_statics). Non-trivial: a set with at least two stateful objects of at least two operations each; "
            "distinct by the set's text.")
    ASSUMPTIONS = ["data-race freedom is explored by ThreadSanitizer on the generated schedules, not proved (partial for schedules)",
                   "objects are distinct (sharing one terminal between threads is outside the property)"]

    custom_replays = True

    @staticmethod
    def regenerate(build):
        statics.generate()

    @staticmethod
    def object_sets(tier, rng):
        r = __import__("random").Random(rng.random())
        sets = []
        n = 25 if tier == "quick" else 300
        for _ in range(n):
            k = r.choice([2, 3, 4, 8])
            lines = []
            for _ in range(k):
                c = r.random()
                if c < 0.6:
                    lines.append(tg.history(r, r.choice([2, 5, 12, 30]), graphic=r.random() < 0.7))
                elif c < 0.75:
                    lines.append(sg.frames(r, r.choice([1, 2, 4])))
                elif c < 0.83:
                    lines.append(input_script(r))
                elif c < 0.88:
                    # a canvas and a copy of it are separate objects: edits and resizes (through zero areas too) of the
                    # one must not show in the other
                    w_, h_ = r.randrange(1, 6), r.randrange(1, 5)
                    e_ = lambda: tg.fmt_el(tg.element(r))
                    ops = ["px %d %d %s" % (r.randrange(w_), r.randrange(h_), e_()) for _ in range(r.randrange(1, 5))]
                    ops += [r.choice(["cp", "cc"]), r.choice(["rz 0 0", "rz 0 %d" % h_, "rz %d %d" % (w_ + 1, h_), "px 0 0 " + e_()]), "bdump",
                            "rz %d %d" % (w_, h_), "px %d %d %s" % (r.randrange(w_), r.randrange(h_), e_()), "bdump", "dump", "ba", "dump"]
                    lines.append("C %d %d ; %s" % (w_, h_, " ; ".join(ops)))
                elif c < 0.9:
                    lines.append("D 1 %d" % r.randrange(256))
                elif c < 0.95:
                    lines.append("E " + "".join("%02x" % b for b in r.choice([b"\\[1a\\xb", b"plain", b"\\U20ACx\\<123y"])))
                else:
                    lines.append("H %d %d %d" % (r.randrange(6), r.randrange(6), r.randrange(6)))
            sets.append(lines)
        # one object's channel FAILS (write() throws, once) in the middle of an operation while other objects are alive on
        # the same thread: every other object must be sent exactly what it is sent alone
        for _ in range(n // 2 + 8):
            def one_string(min_len=1):
                return tg.op_ws([tg.element(r) for _ in range(r.choice([min_len, 2, 3, 6]))])

            def strings(k_):
                ops = []
                for _ in range(k_):
                    ops.append(r.choice([one_string(), one_string(), one_string(), tg.op_we(tg.element(r)), "mv %d %d" % (r.randrange(5), r.randrange(3)), "er %d" % r.randrange(6)]))
                return ops
            # the operation that fails is mostly a whole string (several elements, several writes), failing at its first write or later
            before, after = strings(r.choice([0, 1, 2])), [r.choice([one_string(2), one_string(2), tg.op_we(tg.element(r))])] + strings(r.choice([0, 1, 2]))
            faulty = "T %d ; sz 9 4 ; %s" % (r.choice([0, 16]), " ; ".join(before + ["fw %d" % r.choice([0, 0, 1, 2, 5])] + after))
            others = ["T %d ; sz 9 4 ; %s" % (r.choice([0, 16, 31]), " ; ".join(strings(r.choice([3, 5, 8])))) for _ in range(r.choice([1, 2, 3]))]
            if r.random() < 0.3:
                others.append(sg.frames(r, 2))
            lines = others[:1] + [faulty] + others[1:]
            sets.append(lines)
        # deterministic twin sets: two terminals that differ in unicode_in_all_charsets (and two that do not differ at all)
        # write the same elements in step - every character set, into UTF-8 and back, then US-ASCII
        for c1 in tg.CHARSETS:
            def g(cs_, code):
                return tg.fmt_el([cs_] + (tg.utf8_bytes(code) if cs_ == 18 else [code & 0x7F | 0x20, 0, 0]) + tg.DEFAULT_ATTR)
            rest = " ; ".join(["we " + g(c1, 0x61), "we " + g(18, 0x20AC), "we " + g(c1, 0x62), "we " + g(5, 0x63), "we " + g(18, 0xE9),
                               "we " + g(c1, 0x64)])
            sets.append(["T 0 ; " + rest, "T 16 ; " + rest])
            sets.append(["T 16 ; " + rest, "T 0 ; " + rest, "T 16 ; " + rest])
        # twin sets: the SAME operation sequence on 2-4 distinct objects that differ only in their configuration (or not
        # at all), so that identical calls with identical arguments alternate between objects - what a cache or scratch
        # buffer keyed on the arguments but not on the object/configuration would confuse
        for _ in range(n // 2 + 3):
            k = r.choice([2, 2, 3, 4])
            c = r.random()
            if c < 0.7:
                body = tg.history(r, r.choice([3, 6, 12, 30]), behbits=0, ops_weights={"we": 40, "ws": 10, "mv": 15, "er": 6, "sv": 3, "rs": 3,
                                                                                         "hc": 2, "sc": 2, "me": 3, "md": 2, "ti": 3, "sz": 3, "dup": 4})
                rest = body.split(" ; ", 1)[1] if " ; " in body else ""
                bits = r.sample([0, 16, 1, 2, 4, 8, 5, 26, 31, 0], k)
                sets.append(["T %d ; %s" % (b, rest) for b in bits])
            elif c < 0.85:
                body = sg.frames(r, r.choice([1, 2, 4]))
                rest = body.split(" ; ", 1)[1]
                sets.append(["S %d ; %s" % (b, rest) for b in r.sample([0, 16, 0, 16], k)])
            else:
                line = input_script(r)
                sets.append([line] * k)
        return sets

    @classmethod
    def verdict_concerns(cls, v):
        # a copy of a canvas that follows its original (judged by the canvas oracle at a `bdump`) is interference
        # between two objects
        return (" C12" in " " + v) or ("C16" in v and "(bdump)" in v)

    @staticmethod
    def cases(tier, rng):
        # every script also goes through the ordinary executor/driver tie (solo run vs model)
        out = []
        for s in Prop.object_sets(tier, rng):
            for l in s:
                if " fw " in l:
                    continue          # fault injection: what the failing terminal itself does is not modelled
                out.append(Case(l, tag="solo-" + l[0], oracle=(l[0] == "C")))
        # manipulator OBJECTS shared between terminals (a title or a cursor move kept in a variable and streamed to several
        # terminals): what each terminal is sent must not depend on the object having been used on another terminal
        for bits in ((4, 8, 8), (8, 4, 4), (12, 8, 4), (0, 4, 8), (1, 3, 2), (3, 1, 0), (16, 0, 16)):
            for seq in (["ti 2 65 66"], ["ti 2 65 66", "ti 2 65 66"], ["me", "md"], ["sz 9 4", "mv 2 2", "we 5 65 0 0 0 1 0 0 0 9 0 0 1 24 27 25", "mv 3 2"],
                        ["we 18 226 148 129 0 9 0 0 0 9 0 0 22 24 27 25", "we 5 66 0 0 0 9 0 0 0 9 0 0 22 24 27 25"]):
                out.append(Case("M %d %d %d ; %s" % (bits + (" ; ".join(seq),)), sweep="shared-manipulator-objects", cfgs=tg.configs(rng, 1)))
        # a large written canvas destroyed, a new one constructed (it starts blank): tie only here, judged under C03 / C04
        for line in sg.large_canvas_replaced(rng, 8 if tier == "quick" else 80):
            out.append(Case(line, tag="large-canvas-replaced", oracle=False))
        # ONE canvas drawn by two or three screens (each with its own terminal) in turn - kind `K`
        from .C03 import CFGS_NOIMM
        for i in range(200 if tier == "quick" else 4000):
            body = sg.frames(rng, rng.choice([1, 2, 3, 4]))
            rest = body.split(" ; ", 1)[1] if " ; " in body else ""
            bits = rng.choice(["0 0", "0 16", "16 0 0", "0 0 0"])
            out.append(Case("K %s ; %s" % (bits, rest), tag="shared-canvas", cfgs=[rng.choice(CFGS_NOIMM)]))
        for i in range(400 if tier == "quick" else 8000):
            out.append(Case(tg.multi_history(rng, rng.choice([2, 3, 5, 8, 13, 21])), tag="shared-manipulator-objects", cfgs=tg.configs(rng, 1)))
        return out

    @staticmethod
    def custom_check(tier, rng, ctx):
        build = ctx["build"]
        statics.generate()
        inter = build.build_harness("interleave")
        inter_tsan = build.build_harness("interleave", "tsan")
        sets = Prop.object_sets(tier, rng) if not ctx.get("replay") else [ctx["replay"]["lines"]]
        failures, samples = [], []
        runs = tsan_runs = 0
        nontrivial = set()
        env_tsan = dict(os.environ, TSAN_OPTIONS="halt_on_error=0:exitcode=66:report_signal_unsafe=0")
        for lines in sets:
            if any(" fw " in l for l in lines):
                # a set with a failing channel: every object's solo answer comes from a process of its own
                solo, rc, err = [], 0, ""
                for l in lines:
                    rc1, one, err1 = build.run_lines(ctx["exe"], [l])
                    rc, err = rc or rc1, err + err1
                    solo += one
            else:
                rc, solo, err = build.run_lines(ctx["exe"], lines)
            if rc != 0 or len(solo) != len(lines):
                failures.append({"what": "solo executor run failed", "lines": lines, "stderr": err[-800:]})
                continue
            stateful = sum(1 for l in lines if (l[0] in "TS" and l.count(";") >= 2) or (l[0] == "I" and l.count(",") >= 2))
            if stateful >= 2:
                nontrivial.add("\n".join(lines))
            body = "\n".join(lines) + "\n"
            modes = [(0, 0)] + [(1, s) for s in ((1, 2, 3) if tier == "quick" else range(1, 9))]
            for mode, seed in modes:
                p = subprocess.run([inter], input=("%d %d\n" % (mode, seed) + body).encode(), stdout=subprocess.PIPE, stderr=subprocess.PIPE,
                                   env=dict(os.environ, ASAN_OPTIONS="detect_leaks=0"), timeout=300)
                runs += 1
                got = p.stdout.decode("utf-8", "replace").split("\n")[:-1]
                if p.returncode != 0 or got != solo:
                    bad = next((i for i, (a, b) in enumerate(zip(got, solo)) if a != b), -1)
                    failures.append({"what": "interleaved run differs from solo run", "signature": "C12 interleaved-differs",
                                     "mode": mode, "seed": seed, "lines": lines, "object": bad,
                                     "interleaved": (got[bad] if 0 <= bad < len(got) else None), "solo": (solo[bad] if bad >= 0 else None),
                                     "returncode": p.returncode, "stderr": p.stderr.decode("utf-8", "replace")[-800:]})
            for rep in range(2 if tier == "quick" else 8):
                p = subprocess.run([inter_tsan], input=("2 %d\n" % rep + body).encode(), stdout=subprocess.PIPE, stderr=subprocess.PIPE,
                                   env=env_tsan, timeout=300)
                tsan_runs += 1
                got = p.stdout.decode("utf-8", "replace").split("\n")[:-1]
                err = p.stderr.decode("utf-8", "replace")
                if "ThreadSanitizer" in err or p.returncode != 0 or got != solo:
                    failures.append({"what": "concurrent run: ThreadSanitizer report or output differs from solo run",
                                     "signature": "C12 concurrent", "lines": lines, "returncode": p.returncode,
                                     "tsan": err[-1500:], "differs": got != solo})
            if len(samples) < 3:
                samples.append({"objects": [l[:120] for l in lines]})
        return {"object_sets": len(sets), "distinct_nontrivial_sets": len(nontrivial), "interleaved_runs": runs,
                "concurrent_runs_tsan": tsan_runs, "statics_inventory": len(statics.inventory()), "samples": samples,
                "failures": failures}
