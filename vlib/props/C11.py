import itertools

from .. import termgen as tg
from ..core import Case
from .common import PropBase

MODE_OPS = ["hc", "sc", "me", "md", "nb", "ab", "ti 2 65 66", "ti 0"]
MODE_WEIGHTS = {"we": 10, "ws": 4, "mv": 8, "sv": 2, "rs": 2, "er": 4, "hc": 10, "sc": 10, "me": 10, "md": 10,
                "ti": 10, "nb": 6, "ab": 6, "sz": 2, "re": 1, "da": 1, "dup": 8}


class Prop(PropBase):
    ID = "C11"
    LEAN_MODULES = ["Tpp.Props.C11"]
    REQUIRED = ["Tpp.Props.C11." + n for n in ("C11_modes", "C11_modes_from_start", "C11_no_bytes_without_capability",
                                                "C11_title_terminator", "C11_disable_mirrors_enable", "consistent_step",
                                                "C11_modes_any_size", "C11_modes_readme",
                                                "run_noMode_modes", "C11_draw_keeps_modes", "C11_hide_then_draw")] + \
               ["Tpp.step_modes", "Tpp.rstep_modes"]
    RULE = ("exhaustive: all 16 combinations of the mouse/title capability flags x every sequence of length <= 3 (quick) / "
            "<= 4 (thorough) over the 8 mode operations (hide, show, enable/disable mouse, normal/alternate buffer, two "
            "titles); random interleavings of mode operations with text, cursor, erase and resize operations, repeated "
            "(elided) requests included. The oracle tracks the last request of each kind and compares with Ref.VT's DEC "
            "private modes 25/47/1000/1003 and title from unknown initial modes. Non-trivial: at least two mode "
            "operations; distinct by line text.")
    ASSUMPTIONS = ["window titles contain no BEL/ESC/ST/control characters", "terminal = Tpp.Ref.VT"]

    @staticmethod
    def cases(tier, rng):
        cs = []
        cfgs = ["%d %d %d %d 5 2" % (0, 1, r, 0) for r in range(6)]
        maxlen = 3 if tier == "quick" else 4
        k = 0
        for bits in range(16):
            for n in range(1, maxlen + 1):
                for seq in itertools.product(MODE_OPS, repeat=n):
                    cs.append(Case("T %d ; %s" % (bits, " ; ".join(seq)), sweep="mode-sequences", nontrivial=n >= 2,
                                   cfgs=[cfgs[k % 6]]))
                    k += 1
        shc = ["%d %d %d %d 7 4" % (wv, e, r, z) for wv in range(3) for e in range(3) for r in range(6) for z in range(4)]
        for line, cf in tg.short_histories_b(2 if tier == "quick" else 3, shc):
            cs.append(Case(line, sweep="short-histories-b", cfgs=cf))
        n = 1500 if tier == "quick" else 30000
        for i in range(n):
            nops = rng.choice([2, 3, 5, 8, 13, 21, 34]) if tier == "quick" else rng.choice([3, 8, 21, 60, 150])
            line = tg.history(rng, nops, sized=rng.random() < 0.7, ops_weights=MODE_WEIGHTS, inputs=(i % 3 == 0), localised=(i % 5 == 2))
            nm = sum(line.count(" %s" % o) for o in ("hc", "sc", "me", "md", "nb", "ab", "ti"))
            cs.append(Case(line, tag="history", nontrivial=nm >= 2, cfgs=tg.configs(rng, 2)))
        # cursor-visibility requests around screen draws that repaint many cells at once (a draw is not a mode request)
        from .. import screengen as sg
        from .C03 import CFGS_NOIMM
        for line in sg.mode_frames(rng, 250 if tier == "quick" else 5000):
            cs.append(Case(line, tag="modes-around-draws", cfgs=[rng.choice(CFGS_NOIMM)]))
        # the same manipulator OBJECTS (a title, an enable_mouse kept in a variable) streamed to terminals with different
        # capabilities: each terminal must get the form ITS behaviour declares (kind `M`)
        for bits in itertools.permutations([0, 4, 8, 12, 1, 3], 2):
            for seq in (["ti 2 65 66"], ["ti 2 65 66", "ti 2 65 66"], ["me", "md"], ["ti 1 67", "me", "ti 1 67", "md"], ["hc", "ti 0", "sc"]):
                cs.append(Case("M %d %d %d ; %s" % (bits[0], bits[1], bits[1], " ; ".join(seq)), sweep="shared-manipulator-objects", cfgs=[cfgs[k % 6]]))
                k += 1
        for i in range(300 if tier == "quick" else 6000):
            line = tg.multi_history(rng, rng.choice([2, 3, 5, 8, 13]), ops_weights=MODE_WEIGHTS, sized=rng.random() < 0.7)
            cs.append(Case(line, tag="shared-manipulator-objects", cfgs=tg.configs(rng, 1)))
        return cs
