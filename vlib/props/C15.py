"""C15 - equality, ordering and hashing of the value types agree with each other.

Case lines (format: lean/Tpp/Driver/Values.lean):
    V <type> <value> <value> [<value>]     every ordered pair of the values through == != < <= > >= <=> and hash equality
    W <type> <value>                       the hash tree of the value, verified against the real hash_value
One V line with values (a, b) answers (a,a) (a,b) (b,a) (b,b), so unordered pairs / triples (with repetition) of a
lattice cover all ordered pairs / triples.
"""
import itertools

from ..core import Case
from .common import PropBase

UTF8 = 18
TYPES_HASHABLE = ["cs", "gl", "lo", "hi", "gr", "tc", "co", "in", "un", "po", "bl", "at", "el", "st"]
TYPES_ORDERED = ["pt", "ex", "re", "cq", "vk", "me"]

THEOREM_TAGS = ["charset", "glyph", "low_colour", "high_colour", "greyscale_colour", "true_colour", "colour",
                "intensity", "underlining", "polarity", "blinking", "attribute", "element", "string",
                "point", "extent", "rectangle", "control_sequence", "key_sequence", "virtual_key", "mouse_event"]
HASHABLE_TAGS = THEOREM_TAGS[:14]

UNUSED = [0x00, 0x55, 0xFF]


# ---------------------------------------------------------------- value descriptions
def glyph(cs, b0, b1=0, b2=0):
    return "%d %d %d %d" % (cs, b0, b1, b2)


def colour(k, a=0, b=0, c=0):
    return "%d %d %d %d" % (k, a, b, c)


def attr(fg=colour(0, 9), bg=colour(0, 9), i=22, u=24, p=27, b=25):
    return "%s %s %d %d %d %d" % (fg, bg, i, u, p, b)


def element(g=glyph(5, 0x20), a=None):
    return g + " " + (a if a is not None else attr())


def tstring(elems):
    return " ".join([str(len(elems))] + list(elems))


def cseq(initiator=0, command=0, meta=0, args=(), extender=0):
    parts = [str(initiator), str(command), str(meta), str(len(args))]
    for a in args:
        parts.append(str(len(a)))
        parts += [str(x) for x in a]
    parts.append(str(extender))
    return " ".join(parts)


def vkey(key, mod, rep, seq):
    return "%d %d %d %s" % (key, mod, rep, seq)


VALID_UTF8 = [(0x41, 0, 0), (0x00, 0, 0), (0x7F, 0, 0), (0xC2, 0xA3, 0), (0xC2, 0x80, 0), (0xDF, 0xBF, 0),
              (0xE2, 0x94, 0x81), (0xE2, 0x94, 0x82), (0xE0, 0xA0, 0x80), (0xEF, 0xBF, 0xBF)]

COLOUR_3 = [colour(0, 9), colour(1, 100), colour(3, 1, 2, 3)]
COLOUR_2 = [colour(0, 9), colour(3, 1, 2, 3)]
ARGS_BYTES = [(), (0x31,), (0x31, 0x35)]


def arg_lists(alphabet, maxlen):
    res = []
    for n in range(maxlen + 1):
        res += [tuple(c) for c in itertools.product(alphabet, repeat=n)]
    return res


def lattices(tier):
    """type -> (values for pairs, values for triples)"""
    thorough = tier == "thorough"
    L = {}
    L["cs"] = ([str(c) for c in range(19)],) * 2
    # glyphs: every combination of the "unused" bytes, under a non-UTF-8 set (where they are unused) and under
    # UTF-8 (where they are part of the value, mostly ill-formed), plus well-formed UTF-8 encodings
    gp = [glyph(cs, b0, b1, b2) for cs in (5, 0, UTF8) for b0 in (0x20, 0x41, 0xFF) for b1 in UNUSED for b2 in UNUSED]
    gp += [glyph(UTF8, *t) for t in VALID_UTF8]
    gt = [glyph(cs, b0, b1, b2) for cs in (5, 0, UTF8) for b0 in (0x41, 0x42)
          for b1 in UNUSED for b2 in UNUSED]
    L["gl"] = (gp, gt)
    L["lo"] = ([str(v) for v in (0, 1, 7, 9, 255)],) * 2
    L["hi"] = ([str(v) for v in (0, 16, 100, 231, 255)],) * 2
    L["gr"] = ([str(v) for v in (0, 232, 240, 255)],) * 2
    tc = ["%d %d %d" % t for t in itertools.product((0, 1, 255), repeat=3)]
    L["tc"] = (tc, tc)
    co = [colour(0, v) for v in (0, 1, 9)] + [colour(1, v) for v in (1, 16, 231)] + [colour(2, v) for v in (1, 232, 255)]
    co += [colour(3, *t) for t in itertools.product((1, 255), repeat=3)]
    L["co"] = (co, co)
    L["in"] = (["1", "2", "22"],) * 2
    L["un"] = (["4", "24"],) * 2
    L["po"] = (["7", "27"],) * 2
    L["bl"] = (["5", "25"],) * 2
    cols = COLOUR_3
    at_p = [attr(f, b, i, u, p, bl) for f in cols for b in cols for i in (1, 2, 22) for u in (4, 24) for p in (7, 27)
            for bl in (5, 25)]
    at_t = [attr(f, b, i, u, p, bl) for f in COLOUR_2 for b in COLOUR_2 for i in (1, 22) for u in (4, 24)
            for p in (7, 27) for bl in (5, 25)]
    L["at"] = (at_p, at_t if thorough else at_t[::5])
    gl4 = [glyph(5, 0x41), glyph(5, 0x41, 0x55, 0xFF), glyph(UTF8, 0x41), glyph(5, 0x42), glyph(UTF8, 0xE2, 0x94, 0x81)]
    at3 = [attr(), attr(fg=colour(0, 1)), attr(b=5)]
    el = [element(g, a) for g in gl4 for a in at3]
    L["el"] = (el, el)
    alphabet = [element(glyph(5, 0x41)), element(glyph(5, 0x41, 0xFF, 0x55)), element(glyph(5, 0x42), attr(i=1))]
    st = [tstring(s) for s in arg_lists(alphabet, 3)]
    L["st"] = (st, st)
    co5 = (-2147483648, -1000000, -1, 0, 1, 7, 2147483647)
    pt = ["%d %d" % t for t in itertools.product(co5, repeat=2)]
    L["pt"] = (pt, pt)
    L["ex"] = (pt, pt)
    re_p = ["%d %d %d %d" % t for t in itertools.product((-1, 0, 5), repeat=4)]
    re_p += ["%d %d %d %d" % t for t in itertools.product((-2147483648, 2147483647), repeat=4)]
    re_t = ["%d %d %d %d" % t for t in itertools.product((0, 5), repeat=4)]
    L["re"] = (re_p, re_t)
    if thorough:
        cq = [cseq(i, c, m, a, e) for i in (0, 0x5B, 0x4F) for c in (0, 0x41, 0x7E) for m in (0, 1)
              for a in arg_lists(ARGS_BYTES, 2) for e in (0, 0x3F)]
    else:
        cq = [cseq(i, c, m, a, e) for i in (0x5B, 0x4F) for c in (0x41, 0x7E) for m in (0, 1)
              for a in [(), ((),), ((0x31,),), ((0x31, 0x35),), ((0x31,), ()), ((0x31,), (0x31, 0x35)), ((0x31, 0x35), (0x31,))]
              for e in (0, 0x3F)]
    cq_t = [cseq(0x5B, c, m, a, e) for c in (0x41, 0x7E) for m in (0, 1) for a in [(), ((0x31,),), ((0x31,), ())]
            for e in (0, 0x3F)]
    L["cq"] = (cq, cq_t)
    seqs = ["0 65", "0 66", "1 " + cseq(), "1 " + cseq(0x5B, 0x41), "1 " + cseq(0x5B, 0x41, 0, ((0x31,),))]
    vk = [vkey(k, m, r, s) for k in (0x41, 0x80, 0xFF) for m in (0, 1, 8) for r in (-1, 0, 3) for s in seqs]
    vk_t = [vkey(k, m, r, s) for k in (0x41, 0x80) for m in (0, 1) for r in (-1, 3) for s in seqs[1:4]]
    L["vk"] = (vk, vk_t)
    me = ["%d %d %d" % t for t in itertools.product((0, 3, 6), (-2147483648, -1, 0, 5, 2147483647), (-1, 0, 5, 2147483647))]
    L["me"] = (me, me)
    return L


# ---------------------------------------------------------------- random values (edge biased)
def pick(rng, alphabet, lo=0, hi=255, p=0.75):
    return rng.choice(alphabet) if rng.random() < p else rng.randint(lo, hi)


def r_glyph(rng):
    cs = rng.choice([5, 5, UTF8, UTF8, 0, rng.randrange(19)])
    if cs == UTF8 and rng.random() < 0.6:
        return glyph(cs, *rng.choice(VALID_UTF8))
    return glyph(cs, pick(rng, [0x20, 0x41, 0x42, 0xE2, 0xFF]), pick(rng, UNUSED + [0x94]), pick(rng, UNUSED + [0x81]))


def r_colour(rng):
    k = rng.randrange(4)
    if k == 0:
        return colour(0, pick(rng, [0, 1, 7, 9]))
    if k == 1:
        return colour(1, pick(rng, [1, 16, 100, 231]))
    if k == 2:
        return colour(2, pick(rng, [1, 232, 240, 255]))
    return colour(3, pick(rng, [1, 255]), pick(rng, [1, 255]), pick(rng, [1, 255]))


def r_attr(rng):
    return attr(r_colour(rng) if rng.random() < 0.5 else colour(0, 9), r_colour(rng) if rng.random() < 0.5 else colour(0, 9),
                rng.choice([1, 2, 22, 22]), rng.choice([4, 24, 24]), rng.choice([7, 27, 27]), rng.choice([5, 25, 25]))


def r_element(rng):
    return element(r_glyph(rng), r_attr(rng) if rng.random() < 0.6 else attr())


def r_string(rng):
    pool = [r_element(rng) for _ in range(3)]
    return tstring([rng.choice(pool) for _ in range(rng.randint(0, 3))])


def r_coord(rng):
    return pick(rng, [-2147483648, -2147483647, -1000000, -1, 0, 1, 7, 999999, 2147483646, 2147483647], -1000000, 1000000)


def r_cseq(rng):
    nargs = rng.choice([0, 0, 1, 1, 2])
    args = []
    for _ in range(nargs):
        args.append(tuple(pick(rng, [0x30, 0x31, 0x35, 0x39]) for _ in range(rng.randint(0, 3))))
    return cseq(pick(rng, [0, 0x5B, 0x4F]), pick(rng, [0, 0x41, 0x42, 0x7E]), rng.randrange(2), tuple(args),
                pick(rng, [0, 0, 0x3F, 0x3E]))


def r_vkey(rng):
    seq = ("0 %d" % pick(rng, [0x41, 0x42, 0x0A])) if rng.random() < 0.5 else "1 " + r_cseq(rng)
    return vkey(pick(rng, [0x41, 0x0A, 0x80, 0x96, 0xFF]), pick(rng, [0, 1, 2, 4, 8, 15]),
                pick(rng, [-1, 0, 1, 3, 2147483647, -2147483648], -1000, 1000), seq)


RANDOM = {
    "cs": lambda rng: str(rng.randrange(19)),
    "gl": r_glyph,
    "lo": lambda rng: str(pick(rng, [0, 1, 7, 9])),
    "hi": lambda rng: str(pick(rng, [16, 100, 231])),
    "gr": lambda rng: str(pick(rng, [232, 240, 255])),
    "tc": lambda rng: "%d %d %d" % (pick(rng, [0, 1, 255]), pick(rng, [0, 1, 255]), pick(rng, [0, 1, 255])),
    "co": r_colour,
    "in": lambda rng: rng.choice(["1", "2", "22"]),
    "un": lambda rng: rng.choice(["4", "24"]),
    "po": lambda rng: rng.choice(["7", "27"]),
    "bl": lambda rng: rng.choice(["5", "25"]),
    "at": r_attr,
    "el": r_element,
    "st": r_string,
    "pt": lambda rng: "%d %d" % (r_coord(rng), r_coord(rng)),
    "ex": lambda rng: "%d %d" % (r_coord(rng), r_coord(rng)),
    "re": lambda rng: "%d %d %d %d" % (r_coord(rng), r_coord(rng), r_coord(rng), r_coord(rng)),
    "cq": r_cseq,
    "vk": r_vkey,
    "me": lambda rng: "%d %d %d" % (rng.randrange(7), r_coord(rng), r_coord(rng)),
}


class Prop(PropBase):
    ID = "C15"
    LEAN_MODULES = ["Tpp.Props.C15"]
    REQUIRED = (["Tpp.Props.C15.C15_%s_%s" % (t, law) for t in THEOREM_TAGS
                 for law in ("eq_equivalence", "lt_strict_total", "not_lt_not_gt_iff_eq", "cmp_consistent")]
                + ["Tpp.Props.C15.C15_%s_hash" % t for t in HASHABLE_TAGS]
                + ["Tpp.Props.C15.C15_glyph_storage", "Tpp.Props.C15.C15_valid_payload",
                   "Tpp.Props.C15.C15_glyph_storage_needs_valid"])
    RULE = ("For each of the 20 value types: exhaustive unordered pairs and triples (with repetition; one line answers "
            "every ordered pair of its values, the two operands always being two separately constructed objects) over a "
            "lattice of about three edge values per member - glyphs over every combination of the unused storage bytes "
            "in {00,55,FF} under non-UTF-8 and UTF-8 sets plus well-formed 1/2/3-byte encodings, strings of length 0-3 over an "
            "alphabet containing two == elements with different storage, control sequences with 0-2 arguments - then "
            "seeded random pairs and triples with edge-biased members; every lattice value of a hashable type and random "
            "ones through W (model hash tree = executor's tree, and boost fold of it = real hash_value = std::hash). "
            "A case is non-trivial when it compares at least two operands (always); distinct by line text.")
    ASSUMPTIONS = [
        "enumeration members hold declared enumerators (character sets 0-18, intensity 1/2/22, ...); other bit patterns are not representable in the model",
        "a colour holds one of its four alternatives (never valueless_by_exception)",
        "hash_value is observed through hash EQUALITY and through the boost::hash_combine fold of the typed value sequence; boost's mixing function itself is not modelled (collision freedom is not claimed)",
        "coordinates and repeat counts are int32 values (no overflow is involved in comparison)",
    ]

    @staticmethod
    def cases(tier, rng):
        thorough = tier == "thorough"
        cs = []
        L = lattices(tier)
        for ty in TYPES_HASHABLE + TYPES_ORDERED:
            pairs, triples = L[ty]
            for a, b in itertools.combinations_with_replacement(pairs, 2):
                cs.append(Case("V %s %s %s" % (ty, a, b), sweep=ty + "-lattice-pairs"))
            for a, b, c in itertools.combinations_with_replacement(triples, 3):
                cs.append(Case("V %s %s %s %s" % (ty, a, b, c), sweep=ty + "-lattice-triples"))
            if ty in TYPES_HASHABLE:
                for v in dict.fromkeys(pairs + triples):
                    cs.append(Case("W %s %s" % (ty, v), sweep=ty + "-lattice-hash"))
        npairs, ntriples, nhash = (1500, 1000, 300) if not thorough else (15000, 10000, 2000)
        for ty in TYPES_HASHABLE + TYPES_ORDERED:
            gen = RANDOM[ty]
            for _ in range(npairs):
                a = gen(rng)
                b = a if rng.random() < 0.1 else gen(rng)
                cs.append(Case("V %s %s %s" % (ty, a, b), tag="random-%s-pair" % ty))
            for _ in range(ntriples):
                a = gen(rng)
                b = gen(rng)
                c = rng.choice([a, b]) if rng.random() < 0.15 else gen(rng)
                cs.append(Case("V %s %s %s %s" % (ty, a, b, c), tag="random-%s-triple" % ty))
            if ty in TYPES_HASHABLE:
                for _ in range(nhash):
                    cs.append(Case("W %s %s" % (ty, gen(rng)), tag="random-%s-hash" % ty))
        # the stream inserters of every type (kind `p`: tie only - `out << value` equals the model's printer): every
        # lattice value, every charset x byte glyph, every key value, every mouse action, random values
        for ty in TYPES_HASHABLE + TYPES_ORDERED:
            pairs, triples = L[ty]
            for v in dict.fromkeys(pairs + triples):
                cs.append(Case("p %s %s" % (ty, v), sweep=ty + "-lattice-printed"))
            for _ in range(200 if not thorough else 3000):
                cs.append(Case("p %s %s" % (ty, RANDOM[ty](rng)), tag="random-%s-printed" % ty))
        for c in range(19):
            for b0 in range(256):
                cs.append(Case("p gl %s" % glyph(c, b0, 0x94 if c == UTF8 else 0, 0x81 if c == UTF8 else 0), sweep="glyph-printed-all-sets-and-bytes"))
        for k in range(256):
            cs.append(Case("p vk %s" % vkey(k, k % 16, 0, "0 0"), sweep="key-printed-all-values"))
            cs.append(Case("p me %d %d %d" % (k, k - 3, 7), sweep="mouse-printed-all-actions"))
        # strings that reach the same value by different construction / editing routes (class string's own operations)
        from .C17 import compare_route_cases, string_program
        cs += compare_route_cases(rng, 600 if tier == "quick" else 10000)
        for _ in range(600 if tier == "quick" else 10000):
            cs.append(Case(string_program(rng), tag="string-programs"))
        return cs

    @classmethod
    def signature(cls, case, verdict):
        # one finding per (type, law): "FAIL C15 <type> <law> <indices> ..."
        w = verdict.split()
        return "C15:" + " ".join(w[2:4])
