import itertools

from .. import termgen as tg
from ..core import Case
from .common import PropBase

EFFECTS = [(i, u, p, b) for i in tg.INTENSITY for u in tg.UNDERLINING for p in tg.POLARITY for b in tg.BLINKING]
COLS_QUICK = [[0, 9, 0, 0], [0, 1, 0, 0], [1, 196, 0, 0]]
COLS_THOROUGH = COLS_QUICK + [[0, 7, 0, 0], [1, 16, 0, 0], [2, 232, 0, 0], [3, 1, 2, 3]]


def el(cs, b0, fg, bg, eff):
    return [cs, b0, 0, 0] + fg + bg + list(eff)


class Prop(PropBase):
    ID = "C01"
    LEAN_MODULES = ["Tpp.Props.C01"]
    REQUIRED = ["Tpp.Props.C01." + n for n in ("C01_rendering", "C01_rendering_fresh", "C01_step_write", "C01_wellformed",
                                                "C01_rendering_any_size", "C01_rendering_readme")] + \
               ["Tpp.agree_run", "Tpp.run_log", "Tpp.agreeRend_run", "Tpp.feed_moveCursor_any", "Tpp.sgr_diff", "Tpp.diffParams_ne_nil", "Tpp.feed_changeCharset", "Tpp.feed_text"]
    RULE = ("exhaustive short histories: EVERY sequence of up to 3 (thorough: 4) operations over an 18-operation alphabet on a 3x2 terminal (termgen.short_histories); exhaustive: every ordered pair (previous attribute, next attribute) over 24 effect combinations x "
            "foreground x background alphabets (3 colours quick, 7 thorough), from a known and from an unknown rendition; "
            "all 19x19 ordered charset pairs x both unicode_in_all_charsets values; random histories of element/string "
            "writes interleaved with erases, cursor moves, save/restore, modes (graphic glyphs incl. UTF-8 to U+FFFF, all "
            "colour kinds, one-field mutations). The oracle feeds the real bytes to Ref.VT from varied initial renditions. "
            "Non-trivial: script contains at least one write; distinct by line text.")
    ASSUMPTIONS = ["terminal = Tpp.Ref.VT (DESIGN §4): SCO save/restore, G0 = US-ASCII and UTF-8 off initially",
                   "glyphs are graphic, colours constructible (Element.wf)"]

    @staticmethod
    def cases(tier, rng):
        cs = []
        cols = COLS_QUICK if tier == "quick" else COLS_THOROUGH
        cfgs = tg.ALL_CONFIGS_SMALL
        k = 0
        for e1 in EFFECTS:
            for e2 in EFFECTS:
                for f1 in cols:
                    for f2 in cols:
                        for b1 in cols:
                            for b2 in cols:
                                if tier == "quick" and (k % 7) not in (0,) and not (f1 == f2 or b1 == b2):
                                    k += 1
                                    continue
                                a = el(5, 97, f1, b1, e1)
                                b = el(5, 98, f2, b2, e2)
                                cs.append(Case("T 0 ; " + tg.op_we(a) + " ; " + tg.op_we(b), sweep="attr-pairs",
                                               cfgs=[cfgs[k % len(cfgs)]]))
                                k += 1
        for c1 in tg.CHARSETS:
            for c2 in tg.CHARSETS:
                for bits in (0, 16):
                    g1 = [c1] + (tg.utf8_bytes(0xE9) if c1 == 18 else [0x61, 0, 0])
                    g2 = [c2] + (tg.utf8_bytes(0x20AC) if c2 == 18 else [0x62, 0, 0])
                    a = g1 + tg.DEFAULT_ATTR
                    b = g2 + [0, 2, 0, 0, 0, 9, 0, 0, 1, 24, 27, 25]
                    cs.append(Case("T %d ; %s ; %s ; %s" % (bits, tg.op_we(a), tg.op_we(b), tg.op_we(a)), sweep="charset-pairs",
                                   cfgs=[cfgs[(c1 * 19 + c2) % len(cfgs)]]))
        # every sequence of three elements over {US-ASCII, DEC special graphics, UK, UTF-8} x {a code that looks the same in
        # all of them, a code DEC draws differently, a code UK draws differently}: what is designated after the second
        # element decides how the third is shown
        import itertools
        alpha = []
        for csid in (5, 0, 4, 18):
            for code in (0x41, 0x71, 0x23):
                g = [csid] + (tg.utf8_bytes(code) if csid == 18 else [code, 0, 0])
                alpha.append(tg.fmt_el(g + tg.DEFAULT_ATTR))
        k = 0
        for tri in itertools.product(alpha, repeat=3):
            for bits in ((0, 16) if tier == "thorough" else ((0,) if k % 2 else (16,))):
                cs.append(Case("T %d ; we %s ; we %s ; we %s" % ((bits,) + tri), sweep="charset-code-triples", cfgs=[cfgs[k % len(cfgs)]]))
            k += 1
        n = 1500 if tier == "quick" else 30000
        for i in range(n):
            nops = rng.choice([1, 2, 3, 5, 8, 13, 21, 34, 60]) if tier == "quick" else rng.choice([1, 3, 8, 21, 60, 150, 400])
            line = tg.history(rng, nops, sized=rng.random() < 0.8, inputs=(i % 4 == 0), localised=(i % 5 == 2))   # every fourth: input, close, re-attach in between
            cs.append(Case(line, tag="history", nontrivial=(" we " in line or " ws " in line), cfgs=tg.configs(rng, 2 if tier == "quick" else 3)))
        # correspondence only: arbitrary (non-graphic) glyph bytes and unconstructible colours
        for i in range(500 if tier == "quick" else 10000):
            line = tg.history(rng, rng.choice([1, 3, 8, 20]), graphic=False)
            cs.append(Case(line, tag="history-any-bytes", oracle=False))
        shc = ["%d %d %d %d 7 4" % (wv, e, r, z) for wv in range(3) for e in range(3) for r in range(6) for z in range(4)]
        for line, cf in tg.short_histories(3 if tier == "quick" else 4, shc):
            cs.append(Case(line, sweep="short-histories", cfgs=cf))
        for line, cf in tg.short_histories_b(2 if tier == "quick" else 3, shc):
            cs.append(Case(line, sweep="short-histories-b", cfgs=cf))
        return cs
