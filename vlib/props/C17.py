from .. import termgen as tg
from ..core import Case
from .common import PropBase


def rand_valid_glyph(rng):
    cs = rng.choice([5, 5, 18, 18, rng.choice(tg.CHARSETS)])
    if cs == 18:
        cp = rng.choice([0, 0x1B, 0x7F, 0x80, 0x7FF, 0x800, 0xFFFF, rng.randrange(0x80), rng.randrange(0x80, 0x800), rng.randrange(0x800, 0x10000)])
        return [cs] + tg.utf8_bytes(cp)
    return [cs, rng.choice([0, 0x1B, 0x5B, 0x6D, 0x80, 0x9B, 0xFF, rng.randrange(256)]), rng.choice([0, 0x55, rng.randrange(256)]), rng.choice([0, 0xAA])]


def rand_text_hex(rng, allow_nul=True):
    n = rng.choice([0, 1, 2, 3, 5, 9])
    alphabet = [0x41, 0x62, 0x20, 0x1B, 0x5C, 0x7F, 0x80, 0xE9, 0xFF, rng.randrange(256)] + ([0, 0] if allow_nul else [])
    bs = [rng.choice(alphabet) for _ in range(n)]
    return bs, ("".join("%02x" % b for b in bs) or "-")


def string_program(rng, valid=True):
    """a random program over class terminalpp::string on four registers; sizes are tracked so that most positions are
    in range (out-of-range ones are skipped identically by executor and model)"""
    size = [0, 0, 0, 0]
    parts = []

    def el():
        g = rand_valid_glyph(rng) if valid else tg.any_glyph(rng)
        return g + (tg.attr(rng) if rng.random() < 0.7 else list(tg.DEFAULT_ATTR))

    def pos(n):
        return rng.choice([0, n, n // 2, max(0, n - 1), rng.randrange(n + 1), n + rng.choice([0, 0, 0, 1])])
    for _ in range(rng.choice([2, 3, 5, 8, 14])):
        r, q, t = rng.randrange(4), rng.randrange(4), rng.randrange(4)
        op = rng.choice(["cz", "cb", "cc", "cl", "cs", "ca", "ca", "cn", "ci", "il", "ts", "ae", "as", "as", "pe", "ps", "ie", "ie", "ir", "ir",
                         "ea", "ef", "er", "er", "sw", "ix", "ob", "ob", "ob", "tw", "tw", "am", "am", "pm", "mv", "sa", "cq", "cq", "cq", "bi", "ri", "ri"])
        if op in ("cz", "cb", "cc", "cl", "cs", "ts"):
            bs, h = rand_text_hex(rng)
            parts.append("%s %d %s" % (op, r, h))
            if op in ("cb", "cc"):
                bs = bs[:80]
            size[r] = (bs.index(0) if 0 in bs else len(bs)) if op in ("cz", "cb", "cc") else len(bs)
        elif op == "ca":
            bs, h = rand_text_hex(rng)
            parts.append("ca %d %s %s" % (r, h, " ".join(map(str, tg.attr(rng)))))
            size[r] = len(bs)
        elif op == "tw":
            parts.append("tw %d" % r)
        elif op == "cn":
            n = rng.choice([0, 1, 2, 5])
            parts.append("cn %d %d %s" % (r, n, tg.fmt_el(el())))
            size[r] = n
        elif op in ("ci", "il"):
            n = rng.choice([0, 1, 2, 3]) if op == "il" else rng.choice([0, 1, 2, 3, 6])
            parts.append("%s %d %d %s" % (op, r, n, " ".join(tg.fmt_el(el()) for _ in range(n))))
            size[r] = n
        elif op == "ae":
            parts.append("ae %d %s" % (r, tg.fmt_el(el())))
            size[r] += 1
        elif op == "as":
            parts.append("as %d %d" % (r, q))
            size[r] += size[q]
        elif op == "pe":
            parts.append("pe %d %d %s" % (r, q, tg.fmt_el(el())))
            size[r] = size[q] + 1
        elif op == "ps":
            parts.append("ps %d %d %d" % (r, q, t))
            size[r] = size[q] + size[t]
        elif op == "ie":
            p_ = pos(size[r])
            parts.append("ie %d %d %s" % (r, p_, tg.fmt_el(el())))
            if p_ <= size[r]:
                size[r] += 1
        elif op == "ir":
            p_ = pos(size[r])
            a = rng.randrange(size[q] + 1)
            b = rng.choice([a, size[q], rng.randrange(a, size[q] + 1), size[q] + rng.choice([0, 1])])
            parts.append("ir %d %d %d %d %d" % (r, p_, q, a, b))
            if p_ <= size[r] and a <= b <= size[q] and q != r:
                size[r] += b - a
        elif op == "ea":
            parts.append("ea %d" % r)
            size[r] = 0
        elif op == "ef":
            p_ = pos(size[r])
            parts.append("ef %d %d" % (r, p_))
            if p_ <= size[r]:
                size[r] = p_
        elif op == "er":
            a = rng.randrange(size[r] + 1)
            b = rng.choice([a, size[r], rng.randrange(a, size[r] + 1), size[r] + rng.choice([0, 1])])
            parts.append("er %d %d %d" % (r, a, b))
            if a <= b <= size[r]:
                size[r] -= b - a
        elif op == "sw":
            parts.append("sw %d %d" % (r, q))
            size[r], size[q] = size[q], size[r]
        elif op == "am":
            parts.append("am %d %d %d" % (r, q, t))
            size[r] += size[t]
        elif op == "pm":
            parts.append("pm %d %d %d" % (r, q, t))
            size[r] = size[q] + size[t]
        elif op == "mv":
            parts.append("mv %d %d" % (r, q))
            if r != q:
                size[r] = size[q]
                size[q] = 0
        elif op == "sa":
            parts.append("sa %d" % r)
        elif op == "cq":
            parts.append("cq %d %d" % (r, q))      # ==, !=, <, >, <=>, hash of two registers (often built differently from equal text)
        elif op in ("bi", "ri"):
            parts.append("%s %d %d %s" % (op, r, rng.randrange(size[r] + 1), tg.fmt_el(el())))
        elif op == "ob":
            parts.append("ob %d" % r)        # to_string in mid-program: a cached text must not survive later edits
        elif op == "ix":
            i = rng.randrange(size[r] + 1)
            parts.append("ix %d %d %s" % (r, i, tg.fmt_el(el())))
    return "P " + " ; ".join(parts)


def compare_route_cases(rng, n):
    """the same text built by two different routes, then one of them edited in place (attribute only / back again), compared"""
    cs = []
    for _ in range(n):
        bs, h = rand_text_hex(rng, allow_nul=False)
        if not bs:
            continue
        e2 = tg.fmt_el([5, bs[-1], 0, 0] + tg.attr(rng))
        e0 = tg.fmt_el([5, bs[-1], 0, 0] + list(tg.DEFAULT_ATTR))
        route = rng.choice(["cs 1 %s" % h, "cl 1 %s" % h, "ts 1 %s" % h, "cz 1 %s" % h, "ci 1 %d %s" % (len(bs), " ".join(tg.fmt_el([5, b, 0, 0] + list(tg.DEFAULT_ATTR)) for b in bs))])
        edit = rng.choice(["ri 1 0 " + e2, "bi 1 %d %s" % (len(bs) - 1, e2), "ix 1 %d %s" % (len(bs) - 1, e2)])
        undo = rng.choice(["ri 1 0 " + e0, "bi 1 %d %s" % (len(bs) - 1, e0)])
        cs.append(Case("P cs 0 %s ; %s ; cq 0 1 ; %s ; cq 0 1 ; cq 1 0 ; %s ; cq 0 1" % (h, route, edit, undo), tag="string-compare-routes"))
    return cs


class Prop(PropBase):
    ID = "C17"
    custom_replays = True

    @staticmethod
    def custom_check(tier, rng, ctx):
        """the wire clause through the channel the library ships: strings written by a terminal bound to the real
        stdout_channel - in a program that leaves a pending field width / fill / base on std::cout, one that called
        sync_with_stdio(false), one whose stdout is a terminal device … (the child-process harness of C14) - must put
        exactly the bytes on standard output that the capturing channel receives (whose glyph text is to_string, above)"""
        from .C14 import Prop as P14
        if ctx.get("replay"):
            scripts = ctx["replay"]["lines"]
        else:
            r = __import__("random").Random(rng.random())
            scripts = []
            for _ in range(6 if tier == "quick" else 40):
                es = [tg.element(r) for _ in range(r.choice([1, 2, 5, 12]))]
                es2 = [tg.element(r) for _ in range(r.choice([1, 3]))]
                scripts.append("T %d ; %s ; %s ; %s" % (r.choice([0, 16]), tg.op_ws(es), tg.op_we(es2[0]), tg.op_ws(es2)))
        failures, children = [], 0
        for sc in scripts:
            res = P14.custom_check(tier, rng, dict(ctx, replay={"lines": [sc]}))
            children += res.get("children_run", 0)
            for f in res.get("failures", []):
                failures.append(dict(f, signature="C17 wire-text-through-stdout-channel", what="C17 (string written through stdout_channel) " + f.get("what", "")))
        return {"scripts_through_stdout_channel": len(scripts), "failures": failures}
    LEAN_MODULES = ["Tpp.Props.C17"]
    REQUIRED = ["Tpp.Props.C17." + n for n in ("C17_roundtrip", "C17_append", "C17_wire", "C17_wire_vt", "payload_eq_toString",
                                                "writeString_segs", "C17_ctor_cstr", "C17_ctor_attr", "C17_ctor_fill",
                                                "C17_program_text", "C17_insert_text", "C17_erase_text",
                                                "C17_glyph_from_cstr", "C17_glyph_from_array", "C17_glyph_from_cstr_needs_terminator")] + \
               ["Tpp.SeqOp.apply_map", "Tpp.SeqOp.run_map"]
    RULE = ("exhaustive: every single byte 0..255 and every pair with NUL/ESC/0xFF through string(bytes)->to_string; every "
            "UTF-8 glyph U+0000..U+FFFF (stride 1 thorough, stride 11 plus all boundaries quick) and every byte 0..255 in a "
            "single-byte charset written through a real terminal with to_string of the same string taken in the same case; "
            "random byte strings with embedded NUL, random attributed strings (valid glyphs of 1-3 bytes incl. bytes that "
            "look like control functions, random attributes/charsets), long strings of 120-1500 (thorough 5000) elements with attribute churn (several KiB per terminal << string), random splits for concatenation; random PROGRAMS over the whole of class string on four registers (every constructor incl. char const* / std::string+attribute / fill / iterator pair / initializer list / _ts, += and + with elements and strings incl. self-append, both inserts, the three erases, swap, operator[] assignment, positions at/around the ends) judged by the same program run on glyph texts, plus the NUL-placement sweep for every byte constructor. Non-trivial: "
            "non-empty input; distinct by line text.")
    ASSUMPTIONS = ["UTF-8 glyphs are zero-padded well-formed encodings (Glyph.Valid); any byte value in single-byte charsets"]

    @staticmethod
    def cases(tier, rng):
        cs = []
        for b in range(256):
            cs.append(Case("Z %02x" % b, sweep="bytes-1"))
        for a in (0, 0x1B, 0x41, 0xFF):
            for b in range(256):
                cs.append(Case("Z %02x%02x" % (a, b), sweep="bytes-2"))
        cs.append(Case("Z -", sweep="bytes-empty", nontrivial=False))
        for _ in range(500 if tier == "quick" else 10000):
            n = rng.choice([1, 2, 3, 8, 40])
            cs.append(Case("Z " + "".join("%02x" % rng.choice([0, 0x5C, rng.randrange(256)]) for _ in range(n)), tag="random-bytes"))
        attr = " ".join(map(str, tg.DEFAULT_ATTR))
        stride = 11 if tier == "quick" else 1
        cps = set(range(0, 0x10000, stride)) | {0, 1, 0x1B, 0x7F, 0x80, 0x7FF, 0x800, 0xFFFF, 0xD7FF, 0xE000}
        for cp in sorted(cps):
            g = [18] + tg.utf8_bytes(cp)
            cs.append(Case("w 0 1 %s %s" % (" ".join(map(str, g)), attr), sweep="utf8-glyphs"))
        for b in range(256):
            for csid in (5, 0):
                cs.append(Case("w 0 2 %d %d 85 170 %s %d %d 0 0 %s" % (csid, b, attr, csid, b, "0 1 0 0 0 9 0 0 1 24 27 25"), sweep="single-byte-glyphs"))
        for _ in range(800 if tier == "quick" else 20000):
            n = rng.choice([0, 1, 2, 3, 5, 9])
            els = [rand_valid_glyph(rng) + tg.attr(rng) for _ in range(n)]
            cs.append(Case("w %d %d %s" % (rng.choice([0, 16]), n, " ".join(tg.fmt_el(e) for e in els)), tag="random-strings", nontrivial=n > 0))
            k = rng.randrange(n + 1)
            cs.append(Case("z %d %s %d %s" % (k, " ".join(tg.fmt_el(e) for e in els[:k]), n - k, " ".join(tg.fmt_el(e) for e in els[k:])),
                           tag="random-splits", nontrivial=n > 0))
        # long strings: several KiB on the wire in ONE terminal << string (block/buffer boundaries at every offset)
        for i in range(40 if tier == "quick" else 600):
            n = rng.choice([120, 260, 700, 1500]) if tier == "quick" else rng.choice([120, 260, 700, 1500, 5000])
            els = []
            prev = None
            for _ in range(n):
                g = rand_valid_glyph(rng) if rng.random() < 0.7 else [18] + tg.utf8_bytes(rng.choice([0xE9, 0x20AC, 0x41, rng.randrange(0x800, 0x10000)]))
                a = (tg.mutate_attr(rng, prev[4:]) if prev is not None and rng.random() < 0.8 else tg.attr(rng))
                if rng.random() < 0.3 and prev is not None:
                    a = list(prev[4:])
                prev = g + a
                els.append(prev)
            cs.append(Case("w %d %d %s" % (rng.choice([0, 16]), n, " ".join(tg.fmt_el(e) for e in els)), tag="long-strings"))
            k = rng.randrange(n + 1)
            if i % 4 == 0:
                cs.append(Case("z %d %s %d %s" % (k, " ".join(tg.fmt_el(e) for e in els[:k]), n - k, " ".join(tg.fmt_el(e) for e in els[k:])),
                               tag="long-splits"))
        # constructors of glyph / element: every byte x a few charsets; every one-, two- and (sampled) three-byte array;
        # the pointer constructor on every well-formed character class, with and without text after it
        for b in range(256):
            for csid in (5, 0, 12):
                cs.append(Case("G g1 %d %d" % (b, csid), sweep="glyph-ctors"))
            cs.append(Case("G g2 %d" % b, sweep="glyph-ctors"))
            cs.append(Case("G e1 %d %s" % (b, " ".join(map(str, tg.attr(rng)))), sweep="glyph-ctors"))
        for cp in sorted(set(range(0x80, 0x800, 7)) | {0x80, 0x7FF, 0x3FF, 0x400}):
            u = tg.utf8_bytes(cp)
            cs.append(Case("G g3 %d %d" % (u[0], u[1]), sweep="glyph-ctors"))
            cs.append(Case("G gp %02x%02x" % (u[0], u[1]), sweep="glyph-ctors"))
        for cp in sorted(set(range(0x800, 0x10000, 131 if tier == "quick" else 3)) | {0x800, 0xFFFF, 0xD7FF, 0xE000, 0x20AC}):
            u = tg.utf8_bytes(cp)
            cs.append(Case("G g4 %d %d %d" % tuple(u), sweep="glyph-ctors"))
            cs.append(Case("G gp %02x%02x%02x" % tuple(u), sweep="glyph-ctors"))
        for b in range(1, 128):
            cs.append(Case("G gp %02x" % b, sweep="glyph-ctors"))
            cs.append(Case("G gp %02x41ff" % b, sweep="glyph-ctors"))          # one ASCII character followed by text
        for _ in range(300 if tier == "quick" else 5000):                          # arbitrary memory: tie only
            cs.append(Case("G gp " + "".join("%02x" % rng.randrange(256) for _ in range(rng.choice([1, 2, 3, 5]))), tag="glyph-ptr-any", oracle=True))
            cs.append(Case("G g4 %d %d %d" % (rng.randrange(256), rng.randrange(256), rng.randrange(256)), tag="glyph-arr-any"))
        # programs over the whole of class string: every constructor and mutator, registers aliasing each other
        for h in ("00", "4100", "004142", "410042", "ff00ff", "-"):
            for op in ("cz", "cb", "cc", "cl", "cs", "ts"):
                cs.append(Case("P %s 0 %s" % (op, h), sweep="string-ctors-nul"))
            cs.append(Case("P ca 0 %s 0 1 0 0 0 4 0 0 1 4 7 5" % h, sweep="string-ctors-nul"))
        # strings written on a terminal of DECLARED size with a KNOWN cursor, ending exactly in / running past the last column:
        # trailing blanks (plain and attributed), wide (CJK, Hangul, fullwidth) glyphs at the margin - the text on the wire is
        # still exactly to_string, whatever shortcut the right margin invites
        k_ = 0
        for w_ in (6, 10, 20):
            for blanks in (0, 1, 3, 4, 5, 8):
                for start in (0, 2):
                    for tail in ("plain", "attributed", "wide", "wide-first"):
                        n_text = w_ - start - blanks
                        if n_text < 1:
                            continue
                        els = [[5, 97 + j % 26, 0, 0] + list(tg.DEFAULT_ATTR) for j in range(n_text)]
                        blank_attr = list(tg.DEFAULT_ATTR) if tail != "attributed" else [0, 9, 0, 0, 0, 4, 0, 0, 22, 24, 27, 25]
                        els += [[5, 32, 0, 0] + blank_attr for _ in range(blanks)]
                        if tail == "wide":
                            els[-1] = [18] + tg.utf8_bytes(rng.choice([0x65E5, 0x3042, 0xAC00, 0xFF21])) + list(tg.DEFAULT_ATTR)
                        if tail == "wide-first":
                            els = [[18] + tg.utf8_bytes(0x65E5) + list(tg.DEFAULT_ATTR)] + els
                        for extra in (0, 1):
                            line = "T %d ; sz %d 4 ; mv %d 1 ; %s" % (rng.choice([0, 16]), w_, start + extra * (w_ - start - 1 if tail == "wide-first" else 0), tg.op_ws(els))
                            cs.append(Case(line, sweep="strings-at-the-right-margin", cfgs=["%d 1 %d 0 %d 4" % (k_ % 3, k_ % 6, w_)]))
                            k_ += 1
        for _ in range(2500 if tier == "quick" else 60000):
            cs.append(Case(string_program(rng), tag="string-programs"))
        cs += compare_route_cases(rng, 400 if tier == "quick" else 8000)
        for _ in range(300 if tier == "quick" else 5000):
            cs.append(Case(string_program(rng, valid=False), tag="string-programs-any-storage", oracle=False))
        # correspondence only: ill-formed UTF-8 storage
        for _ in range(500 if tier == "quick" else 5000):
            els = [[18, rng.randrange(256), rng.choice([0, rng.randrange(256)]), rng.choice([0, rng.randrange(256)])] + tg.DEFAULT_ATTR for _ in range(2)]
            cs.append(Case("w 0 2 %s" % " ".join(tg.fmt_el(e) for e in els), tag="illformed-utf8", oracle=False))
        return cs
