from .. import termgen as tg
from ..core import Case
from .common import PropBase


def rand_valid_glyph(rng):
    cs = rng.choice([5, 5, 18, 18, rng.choice(tg.CHARSETS)])
    if cs == 18:
        cp = rng.choice([0, 0x1B, 0x7F, 0x80, 0x7FF, 0x800, 0xFFFF, rng.randrange(0x80), rng.randrange(0x80, 0x800), rng.randrange(0x800, 0x10000)])
        return [cs] + tg.utf8_bytes(cp)
    return [cs, rng.choice([0, 0x1B, 0x5B, 0x6D, 0x80, 0x9B, 0xFF, rng.randrange(256)]), rng.choice([0, 0x55, rng.randrange(256)]), rng.choice([0, 0xAA])]


class Prop(PropBase):
    ID = "C17"
    LEAN_MODULES = ["Tpp.Props.C17"]
    REQUIRED = ["Tpp.Props.C17." + n for n in ("C17_roundtrip", "C17_append", "C17_wire", "C17_wire_vt", "payload_eq_toString",
                                                "writeString_segs")]
    RULE = ("exhaustive: every single byte 0..255 and every pair with NUL/ESC/0xFF through string(bytes)->to_string; every "
            "UTF-8 glyph U+0000..U+FFFF (stride 1 thorough, stride 11 plus all boundaries quick) and every byte 0..255 in a "
            "single-byte charset written through a real terminal with to_string of the same string taken in the same case; "
            "random byte strings with embedded NUL, random attributed strings (valid glyphs of 1-3 bytes incl. bytes that "
            "look like control functions, random attributes/charsets), long strings of 120-1500 (thorough 5000) elements with attribute churn (several KiB per terminal << string), random splits for concatenation. Non-trivial: "
            "non-empty input; distinct by line text.")
    ASSUMPTIONS = ["UTF-8 glyphs are zero-padded well-formed encodings (Glyph.Valid); any byte value in single-byte charsets"]

    @staticmethod
    def cases(tier, rng):
        cs = []
        for b in range(256):
            cs.append(Case("Z %02x" % b, sweep="bytes-1"))
        for a in (0, 0x1B, 0x41, 0xFF):
            for b in range(256):
                cs.append(Case("Z %02x%02x" % (a, b), sweep="bytes-2"))
        cs.append(Case("Z -", sweep="bytes-empty", nontrivial=False))
        for _ in range(500 if tier == "quick" else 10000):
            n = rng.choice([1, 2, 3, 8, 40])
            cs.append(Case("Z " + "".join("%02x" % rng.choice([0, 0x5C, rng.randrange(256)]) for _ in range(n)), tag="random-bytes"))
        attr = " ".join(map(str, tg.DEFAULT_ATTR))
        stride = 11 if tier == "quick" else 1
        cps = set(range(0, 0x10000, stride)) | {0, 1, 0x1B, 0x7F, 0x80, 0x7FF, 0x800, 0xFFFF, 0xD7FF, 0xE000}
        for cp in sorted(cps):
            g = [18] + tg.utf8_bytes(cp)
            cs.append(Case("w 0 1 %s %s" % (" ".join(map(str, g)), attr), sweep="utf8-glyphs"))
        for b in range(256):
            for csid in (5, 0):
                cs.append(Case("w 0 2 %d %d 85 170 %s %d %d 0 0 %s" % (csid, b, attr, csid, b, "0 1 0 0 0 9 0 0 1 24 27 25"), sweep="single-byte-glyphs"))
        for _ in range(800 if tier == "quick" else 20000):
            n = rng.choice([0, 1, 2, 3, 5, 9])
            els = [rand_valid_glyph(rng) + tg.attr(rng) for _ in range(n)]
            cs.append(Case("w %d %d %s" % (rng.choice([0, 16]), n, " ".join(tg.fmt_el(e) for e in els)), tag="random-strings", nontrivial=n > 0))
            k = rng.randrange(n + 1)
            cs.append(Case("z %d %s %d %s" % (k, " ".join(tg.fmt_el(e) for e in els[:k]), n - k, " ".join(tg.fmt_el(e) for e in els[k:])),
                           tag="random-splits", nontrivial=n > 0))
        # long strings: several KiB on the wire in ONE terminal << string (block/buffer boundaries at every offset)
        for i in range(40 if tier == "quick" else 600):
            n = rng.choice([120, 260, 700, 1500]) if tier == "quick" else rng.choice([120, 260, 700, 1500, 5000])
            els = []
            prev = None
            for _ in range(n):
                g = rand_valid_glyph(rng) if rng.random() < 0.7 else [18] + tg.utf8_bytes(rng.choice([0xE9, 0x20AC, 0x41, rng.randrange(0x800, 0x10000)]))
                a = (tg.mutate_attr(rng, prev[4:]) if prev is not None and rng.random() < 0.8 else tg.attr(rng))
                if rng.random() < 0.3 and prev is not None:
                    a = list(prev[4:])
                prev = g + a
                els.append(prev)
            cs.append(Case("w %d %d %s" % (rng.choice([0, 16]), n, " ".join(tg.fmt_el(e) for e in els)), tag="long-strings"))
            k = rng.randrange(n + 1)
            if i % 4 == 0:
                cs.append(Case("z %d %s %d %s" % (k, " ".join(tg.fmt_el(e) for e in els[:k]), n - k, " ".join(tg.fmt_el(e) for e in els[k:])),
                               tag="long-splits"))
        # correspondence only: ill-formed UTF-8 storage
        for _ in range(500 if tier == "quick" else 5000):
            els = [[18, rng.randrange(256), rng.choice([0, rng.randrange(256)]), rng.choice([0, rng.randrange(256)])] + tg.DEFAULT_ATTR for _ in range(2)]
            cs.append(Case("w 0 2 %s" % " ".join(tg.fmt_el(e) for e in els), tag="illformed-utf8", oracle=False))
        return cs
