from ..core import Case
from .common import PropBase

# enum codes as stored by the library (regenerated into Tpp/Generated/Consts.lean; the line protocol
# carries the stored values, see harness/exec.cpp read_attr)
INTENSITY = (22, 1, 2)
UNDERLINING = (24, 4)
POLARITY = (27, 7)
BLINKING = (25, 5)
CHARSETS = (5, 0, 4, 12, 17)       # us_ascii, dec, uk, danish, sco


def colour(n):
    """a constructible colour chosen by n (deterministic)"""
    k = n % 4
    if k == 0:
        return "0 %d 0 0" % ((n // 4) % 8)
    if k == 1:
        return "1 %d 0 0" % (16 + (n * 7) % 216)
    if k == 2:
        return "2 %d 0 0" % (232 + (n * 5) % 24)
    return "3 %d %d %d" % ((n * 37) % 256, (n * 91 + 3) % 256, (n * 13 + 200) % 256)


def element(x, y, salt=0):
    """an element that is different for every (x, y) with 0 <= x, y < 16 under one salt (the glyph bytes
    encode the coordinates, the attribute varies too) and mostly different across salts; never the
    default element"""
    n = (y * 16 + x) + 256 * salt
    if (x + y + salt) % 5 == 4:
        # a three-byte UTF-8 glyph (U+0800..): E0 A0..BF 80..BF
        g = "18 224 %d %d" % (160 + (n // 64) % 32, 128 + n % 64)
    else:
        # 0x21..0xFE minus nothing special: a one-byte glyph in a non-UTF-8 set
        g = "%d %d 0 0" % (CHARSETS[(n // 94) % len(CHARSETS)], 33 + n % 94)
    a = "%s %s %d %d %d %d" % (colour(n + 1), colour(3 * n + 2), INTENSITY[n % 3], UNDERLINING[(n // 3) % 2],
                               POLARITY[(n // 6) % 2], BLINKING[(n // 12) % 2])
    return g + " " + a


def fill(w, h, salt=0):
    return ["px %d %d %s" % (x, y, element(x, y, salt)) for y in range(h) for x in range(w)]


def line(w, h, ops):
    return "C %d %d" % (w, h) + "".join(" ; " + o for o in ops)


class Prop(PropBase):
    ID = "C16"
    LEAN_MODULES = ["Tpp.Props.C16"]
    REQUIRED = ["Tpp.Props.C16." + n for n in (
        "C16_cells", "C16_index", "C16_index_onto", "C16_index_independent", "C16_region", "C16_region_enum",
        "C16_region_elements", "C16_region_fill", "C16_resize", "C16_resize_chain")]
    RULE = ("cells are also assigned through *(begin()+k), inside a range-for and by region fills through the reference for_each_in_region hands out; a second canvas object takes copies (copy-assignment, copy-construction + move) which must not follow the original's later edits or resizes, and is assigned back; exhaustive: every (old size, new size) pair with widths and heights 0..6 (2401 pairs; thorough 0..8, 6561 "
            "pairs) on a canvas whose cells all hold pairwise different non-default elements (glyph byte derived from "
            "the coordinates, attribute varied): dump, resize, dump, full-region iteration, single-cell overwrite, "
            "resize back, const dump; every sub-rectangle (empty ones included) of a fully distinct 5x4 canvas through "
            "the non-const and the const for_each_in_region; every cell of a 5x4 canvas assigned alone. Random: resize "
            "chains (grow / shrink / mixed / through zero width or height, non-square sizes up to 13x10) with cell "
            "edits, reads, dumps and region iterations in between; random region iterations. A case is non-trivial "
            "when it contains at least one resize, iteration or dump on a canvas with a non-default cell; distinct by "
            "line text. Out-of-domain lines (out-of-range coordinates, unknown words) are compared with the model "
            "only.")
    ASSUMPTIONS = ["sizes are non-negative and width*height < 2^31 (no int32 overflow in row*width+column); "
                   "generators stay below 2^20 cells",
                   "coordinates passed to cvs[x][y] and regions passed to for_each_in_region lie inside the canvas "
                   "(anything else is undefined behaviour in the library and outside the property)"]

    @classmethod
    def signature(cls, case, verdict):
        # one finding per kind of observation that failed (dump / it / rz / gt), not one per input line;
        # cases are generated smallest first, so the replay kept for a kind is the smallest failing one
        import re
        m = re.search(r"op#\d+ \((\w+)", verdict)
        return cls.ID + ":" + (m.group(1) if m else "answer-shape")

    @staticmethod
    def cases(tier, rng):
        cs = []
        # ---- 1. exhaustive (old, new) size pairs, distinct contents
        top = 6 if tier == "quick" else 8
        for ow in range(top + 1):
            for oh in range(top + 1):
                pre = fill(ow, oh)
                for nw in range(top + 1):
                    for nh in range(top + 1):
                        ops = list(pre) + ["dump", "rz %d %d" % (nw, nh), "dump", "it 0 0 %d %d" % (nw, nh)]
                        if nw > 0 and nh > 0:
                            # write the last cell of the new grid, then come back to the old size
                            ops += ["px %d %d %s" % (nw - 1, nh - 1, element(nw - 1, nh - 1, 1))]
                        ops += ["rz %d %d" % (ow, oh), "cdump"]
                        cs.append(Case(line(ow, oh, ops), sweep="resize-pairs-0..%d" % top,
                                       nontrivial=(ow * oh > 0), tag="pair"))
        # ---- 2. all sub-rectangles of a 5x4 canvas
        pre = fill(5, 4, 2)
        for ox in range(6):
            for w in range(6 - ox):
                for oy in range(5):
                    for h in range(5 - oy):
                        r = "%d %d %d %d" % (ox, oy, w, h)
                        cs.append(Case(line(5, 4, pre + ["it " + r, "cit " + r]), sweep="subrects-5x4", tag="subrect"))
                        cs.append(Case(line(5, 4, pre + ["itb " + r, "iti " + r, "itp " + r]), sweep="subrects-5x4-returning-visitors", tag="subrect"))
        # ---- 3. every cell assigned alone: exactly that position of begin()..end() changes
        for W, H in ((5, 4), (1, 7), (7, 1)):
            for y in range(H):
                for x in range(W):
                    cs.append(Case(line(W, H, ["px %d %d %s" % (x, y, element(x, y, 3)), "dump", "gt %d %d" % (x, y),
                                               "cgt %d %d" % (x, y), "it 0 0 %d %d" % (W, H)]),
                                   sweep="single-cell", tag="single"))
        # ---- 3b. a canvas written through ONE access path only (operator[], begin()+k, range-for, end()-k, the reference
        # for_each_in_region hands out) - all cells, or only the last k - then resized to every size 0..4 x 0..4 and read
        # through the const interface: what a "nothing has been written yet" shortcut keyed on one of the paths gets wrong
        for W in (1, 2, 3):
            for H in (1, 2, 3):
                for path in ("px", "pi", "pr", "pe", "fl"):
                    for k in sorted({1, W, W * H}):
                        cells = [(i % W, i // W) for i in range(W * H - k, W * H)]
                        if path == "fl":
                            wr = ["fl %d %d 1 1 %s" % (x, y, element(x, y, 2)) for (x, y) in cells]
                        else:
                            wr = ["%s %d %d %s" % (path, x, y, element(x, y, 2)) for (x, y) in cells]
                        for W2 in range(5):
                            for H2 in range(5):
                                if (W2, H2) != (W, H):
                                    cs.append(Case(line(W, H, wr + ["rz %d %d" % (W2, H2), "cdump", "rz %d %d" % (W, H), "cdump"]),
                                                   sweep="single-access-path-then-resize", tag="access-path"))
        # ---- 3c. a column handle (`canvas[x]`) taken before a resize and assigned through after it, for every old and new size
        for W in range(1, 5):
            for H in range(1, 4):
                for W2 in range(0, 6):
                    for H2 in range(0, 5):
                        for x in range(W):
                            y = (x + W2) % max(1, H2)
                            cs.append(Case(line(W, H, fill(W, H, 1) + ["hz %d %d %d %d %s" % (x, y, W2, H2, element(x, y, 4)), "cdump",
                                                                     "hz %d %d %d %d %s" % (min(x, max(0, W2 - 1)), 0, W, H, element(x, y, 5)), "cdump"]),
                                           sweep="column-handle-across-resize", tag="handle"))
        # ---- 4. random resize chains with edits in between
        n_chain = 1500 if tier == "quick" else 20000
        for _ in range(n_chain):
            style = rng.choice(["grow", "shrink", "mixed", "mixed", "zero", "samewidth", "samewidth", "sameheight"])
            if style == "grow":
                w, h = rng.randrange(0, 4), rng.randrange(0, 4)
            elif style == "shrink":
                w, h = rng.randrange(6, 14), rng.randrange(5, 11)
            else:
                w, h = rng.randrange(0, 10), rng.randrange(0, 8)
            w0, h0 = w, h
            ops = []
            salt = 0

            def edits(k):
                for _ in range(k):
                    if w > 0 and h > 0:
                        # edge-biased coordinates: last column / bottom row often
                        x = rng.choice([0, w - 1, rng.randrange(w)])
                        y = rng.choice([0, h - 1, rng.randrange(h)])
                        ops.append("%s %d %d %s" % (rng.choice(["px", "px", "pi", "pr", "pe"]), x, y, element(x % 16, y % 16, salt % 6)))
            if rng.random() < 0.6:
                ops += fill(w, h, 4)
            else:
                edits(rng.randrange(1, 8))
            for step in range(rng.randrange(2, 9)):
                salt += 1
                if style == "grow":
                    w, h = w + rng.randrange(0, 3), h + rng.randrange(0, 3)
                elif style == "shrink":
                    w, h = max(0, w - rng.randrange(0, 4)), max(0, h - rng.randrange(0, 3))
                elif style == "samewidth":
                    h = rng.choice([0, 1, h, max(0, h - rng.randrange(1, 4)), h + rng.randrange(1, 4), rng.randrange(0, 10)])
                elif style == "sameheight":
                    w = rng.choice([0, 1, w, max(0, w - rng.randrange(1, 4)), w + rng.randrange(1, 4), rng.randrange(0, 13)])
                elif style == "zero" and rng.random() < 0.35:
                    if rng.random() < 0.5:
                        w = 0
                        h = rng.randrange(0, 8)
                    else:
                        h = 0
                        w = rng.randrange(0, 8)
                else:
                    w, h = rng.randrange(0, 13), rng.randrange(0, 10)
                    if rng.random() < 0.2:
                        w = h  # squares are the case the unit tests have; keep some
                ops.append("rz %d %d" % (w, h))
                r = rng.random()
                if r < 0.5:
                    ops.append(rng.choice(["dump", "cdump"]))
                if r > 0.3:
                    edits(rng.randrange(0, 4))
                if w > 0 and h > 0 and rng.random() < 0.4:
                    ox = rng.randrange(w)
                    oy = rng.randrange(h)
                    ops.append("%s %d %d %d %d" % (rng.choice(["it", "cit", "itb", "iti", "itp"]), ox, oy, rng.randrange(w - ox + 1),
                                                  rng.randrange(h - oy + 1)))
                if w > 0 and h > 0 and rng.random() < 0.3:
                    ops.append("%s %d %d" % (rng.choice(["gt", "cgt"]), rng.randrange(w), rng.randrange(h)))
                if w > 0 and h > 0 and rng.random() < 0.3:
                    # a fill through the reference for_each_in_region hands out (attributed blanks included)
                    ox = rng.randrange(w)
                    oy = rng.randrange(h)
                    e = rng.choice([element(ox % 16, oy % 16, (salt + 2) % 6), "5 32 0 0 0 9 0 0 0 1 0 0 22 24 27 25", "5 32 0 0 0 9 0 0 0 9 0 0 22 4 7 25"])
                    ops.append("fl %d %d %d %d %s" % (ox, oy, rng.randrange(w - ox + 1), rng.randrange(h - oy + 1), e))
                r2 = rng.random()
                if r2 < 0.25:
                    ops.append(rng.choice(["cp", "cc"]))          # a copy is taken …
                elif r2 < 0.35:
                    ops.append("bdump")                           # … and must not have followed the original's later edits / resizes
                elif r2 < 0.4:
                    ops.append("ba")
                    ops.append("dump")
            ops.append("dump")
            ops.append("bdump")
            ops.append("it 0 0 %d %d" % (w, h))
            cs.append(Case(line(w0, h0, ops), tag="chain-" + style))
        # ---- 5. random region iterations on non-square canvases
        n_reg = 600 if tier == "quick" else 6000
        for _ in range(n_reg):
            w, h = rng.randrange(1, 14), rng.randrange(1, 11)
            ops = fill(w, h, rng.randrange(6))
            for _ in range(rng.randrange(1, 5)):
                kind = rng.random()
                if kind < 0.25:    # full rows
                    ox, rw = 0, w
                    oy = rng.randrange(h)
                    rh = rng.randrange(h - oy + 1)
                elif kind < 0.5:   # full columns
                    oy, rh = 0, h
                    ox = rng.randrange(w)
                    rw = rng.randrange(w - ox + 1)
                elif kind < 0.6:   # touching the bottom-right corner
                    ox, oy = rng.randrange(w), rng.randrange(h)
                    rw, rh = w - ox, h - oy
                else:
                    ox, oy = rng.randrange(w + 1), rng.randrange(h + 1)
                    rw, rh = rng.randrange(w - ox + 1), rng.randrange(h - oy + 1)
                ops.append("%s %d %d %d %d" % (rng.choice(["it", "cit", "itb", "iti", "itp"]), ox, oy, rw, rh))
            cs.append(Case(line(w, h, ops), tag="region"))
        # ---- 6. out-of-domain / malformed lines: model vs code only
        for _ in range(200 if tier == "quick" else 2000):
            w, h = rng.randrange(0, 6), rng.randrange(0, 6)
            ops = []
            for _ in range(rng.randrange(1, 6)):
                k = rng.randrange(6)
                if k == 0:
                    ops.append("px %d %d %s" % (rng.choice([-1, w, w + 3, 0]), rng.choice([-1, h, h + 2, 0]), element(1, 1)))
                elif k == 1:
                    ops.append("it %d %d %d %d" % (rng.randrange(-1, 3), rng.randrange(-1, 3), rng.randrange(-1, 8), rng.randrange(-1, 8)))
                elif k == 2:
                    ops.append("rz %d %d" % (rng.choice([-1, 2, 0]), rng.choice([-2, 3, 0])))
                elif k == 3:
                    ops.append(rng.choice(["frob", "dumpp", "rz", "it"]))
                elif k == 4:
                    ops.append("gt %d %d" % (rng.randrange(-1, 7), rng.randrange(-1, 7)))
                else:
                    ops.append("dump")
            cs.append(Case(line(w, h, ops), oracle=False, nontrivial=False, tag="out-of-domain"))
        return cs
