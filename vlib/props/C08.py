from .. import termgen as tg
from ..core import Case
from .common import PropBase

CURSOR_WEIGHTS = {"we": 25, "ws": 12, "mv": 25, "sv": 8, "rs": 8, "er": 6, "hc": 3, "sc": 3, "me": 1, "md": 1,
                  "ti": 1, "nb": 1, "ab": 1, "sz": 8, "re": 3, "da": 1, "dup": 5}


def cursor_sweep(w, h, cfgs):
    """all (from, to) pairs on a w x h grid after each of {unknown, known, wrote-last-column, restored, resized}"""
    cs = []
    e = "5 120 0 0 " + " ".join(map(str, tg.DEFAULT_ATTR))
    k = 0
    for fx in range(w):
        for fy in range(h):
            for tx in range(w):
                for ty in range(h):
                    pre = {
                        "unknown": "sz %d %d" % (w, h),
                        "known": "sz %d %d ; mv %d %d" % (w, h, fx, fy),
                        "lastcol": "sz %d %d ; mv %d %d ; we %s" % (w, h, w - 1, fy, e),
                        "restored": "sz %d %d ; mv %d %d ; sv ; mv %d %d ; rs" % (w, h, fx, fy, tx, (ty + 1) % h),
                        "resized": "sz %d %d ; mv %d %d ; sv ; sz %d %d ; rs" % (w + 2, h + 2, fx + 2, fy + 2, w, h),
                        "written": "sz %d %d ; mv %d %d ; we %s" % (w, h, fx, fy, e),
                    }
                    for name, p in pre.items():
                        line = "T 0 ; %s ; mv %d %d ; ws 2 %s %s" % (p, tx, ty, e, e)
                        cs.append(Case(line, sweep="moves-%dx%d" % (w, h), cfgs=[cfgs[k % len(cfgs)], cfgs[(k + 7) % len(cfgs)]]))
                        k += 1
    return cs


class Prop(PropBase):
    ID = "C08"
    LEAN_MODULES = ["Tpp.Props.C08"]
    REQUIRED = ["Tpp.Props.C08." + n for n in ("C08_agree_run", "C08_fresh", "C08_unknown_when_dependent",
                                                "C08_last_column_is_terminal_dependent", "recordTrue_of_agree")] + \
               ["Tpp.agree_step", "Tpp.agree_run"]
    LEAN_MODULES = ["Tpp.Props.C08"]
    RULE = ("exhaustive short histories: EVERY sequence of up to 3 (thorough: 4) operations over an 18-operation alphabet on a 3x2 terminal (termgen.short_histories); exhaustive: all (from,to) cursor pairs on 4x3 (quick) and 5x5 (thorough) grids after each of {unknown, known, "
            "wrote-last-column, restored, resized-with-saved-position, written}; random histories of every built-in "
            "manipulator, writes and size changes with edge-biased positions; the state record is read through a "
            "user-supplied manipulator after EVERY operation and compared with Ref.VT (3 wrap modes x 3 erase modes x "
            "initial states x 4 resize behaviours). Non-trivial: more than two operations; distinct by line text.")
    ASSUMPTIONS = ["declared size = actual size after the first size declaration; positions inside it",
                   "terminal = Tpp.Ref.VT; CSI s / CSI u save and restore the position only (DESIGN §4.1)"]

    @staticmethod
    def cases(tier, rng):
        cfgs = ["%d %d %d %d 7 4" % (wv, e, r, z) for wv in range(3) for e in (0, 1) for r in range(6) for z in range(4)]
        cs = cursor_sweep(4, 3, cfgs)
        if tier == "thorough":
            cs += cursor_sweep(5, 5, cfgs)
        n = 2000 if tier == "quick" else 40000
        for i in range(n):
            nops = rng.choice([2, 3, 5, 8, 13, 21, 34, 60]) if tier == "quick" else rng.choice([3, 8, 21, 60, 150, 400])
            line = tg.history(rng, nops, sized=True, ops_weights=CURSOR_WEIGHTS, inputs=(i % 3 == 0), localised=(i % 5 == 2))
            cs.append(Case(line, tag="history", nontrivial=line.count(";") > 2, cfgs=tg.configs(rng, 3)))
        # correspondence only (outside the declared-size domain of the oracle): no size declared at all, and degenerate
        # declarations (zero / negative extents) - what the record holds there is still tied to the model
        for i in range(600 if tier == "quick" else 8000):
            line = tg.history(rng, rng.choice([2, 4, 8, 20]), sized=False, ops_weights=CURSOR_WEIGHTS)
            if i % 3 == 0:
                head, _, rest = line.partition(" ; ")
                line = "%s ; sz %d %d ; %s" % (head, rng.choice([0, 0, -1, -7, 5]), rng.choice([0, -1, 3, 0]), rest)
            cs.append(Case(line, tag="history-undeclared-or-degenerate-size", oracle=False))
        # correspondence only: moves to positions OUTSIDE the declared size (also repeated), where the oracle stops judging
        for i in range(500 if tier == "quick" else 6000):
            cs.append(Case(tg.history(rng, rng.choice([2, 4, 8, 20]), sized=True, wild=True,
                                      ops_weights={"mv": 45, "we": 15, "ws": 5, "sv": 8, "rs": 8, "sz": 6, "er": 3, "dup": 10}),
                           tag="history-out-of-range-moves", oracle=False))
        # correspondence only: glyphs with arbitrary (non-graphic) bytes - LF, NUL, ESC, C1 controls - and unconstructible colours
        for i in range(400 if tier == "quick" else 6000):
            cs.append(Case(tg.history(rng, rng.choice([2, 4, 8, 20]), graphic=False), tag="history-any-bytes", oracle=False))
        shc = ["%d %d %d %d 7 4" % (wv, e, r, z) for wv in range(3) for e in range(3) for r in range(6) for z in range(4)]
        for line, cf in tg.short_histories(3 if tier == "quick" else 4, shc):
            cs.append(Case(line, sweep="short-histories", cfgs=cf))
        for line, cf in tg.short_histories_b(2 if tier == "quick" else 3, shc):
            cs.append(Case(line, sweep="short-histories-b", cfgs=cf))
        return cs
