from .. import termgen as tg
from ..core import Case
from .common import PropBase
from .C08 import cursor_sweep, CURSOR_WEIGHTS


class Prop(PropBase):
    ID = "C02"
    LEAN_MODULES = ["Tpp.Props.C02"]
    REQUIRED = ["Tpp.Props.C02." + n for n in ("C02_placement_step", "C02_placement", "C02_after_last_column")] + \
               ["Tpp.agree_run", "Tpp.feed_moveCursor", "Tpp.rawElements_positions"]
    RULE = ("exhaustive short histories: EVERY sequence of up to 3 (thorough: 4) operations over an 18-operation alphabet on a 3x2 terminal (termgen.short_histories); exhaustive: all (from,to) cursor pairs on a 4x3 grid (quick; plus 5x5 thorough) after each of {unknown, known, "
            "wrote-last-column, restored, resized-with-saved-position, written}, each followed by a two-glyph string; "
            "random histories of move/write/save/restore/erase/resize with positions inside the declared size, sizes "
            "1x1..40x12, strings that end exactly in / run past the last column. The oracle places the real bytes on "
            "Ref.VT in all three end-of-line behaviours, several initial cursors and four resize behaviours, and "
            "compares every glyph's landing cell with the specification-level expectation. Non-trivial: at least one "
            "move and one write; distinct by line text.")
    ASSUMPTIONS = ["declared size = actual size (size changes are declared with set_size); positions inside it",
                   "one cell per glyph (no wide/combining characters)",
                   "terminal = Tpp.Ref.VT with SCO save/restore of the position only"]

    @staticmethod
    def cases(tier, rng):
        cfgs = ["%d %d %d %d 7 4" % (wv, e, r, z) for wv in range(3) for e in (0, 2) for r in range(6) for z in range(4)]
        cs = cursor_sweep(4, 3, cfgs)
        if tier == "thorough":
            cs += cursor_sweep(5, 5, cfgs)
        n = 2000 if tier == "quick" else 40000
        for i in range(n):
            nops = rng.choice([2, 3, 5, 8, 13, 21, 34, 60]) if tier == "quick" else rng.choice([3, 8, 21, 60, 150, 400])
            line = tg.history(rng, nops, sized=True, ops_weights=CURSOR_WEIGHTS, blink=True, inputs=(i % 3 == 0), localised=(i % 5 == 2))
            cs.append(Case(line, tag="history", nontrivial=(" mv " in line and (" we " in line or " ws " in line)),
                           cfgs=tg.configs(rng, 3)))
        # correspondence only: moves to positions OUTSIDE the declared size (also repeated), where the oracle stops judging
        for i in range(500 if tier == "quick" else 6000):
            cs.append(Case(tg.history(rng, rng.choice([2, 4, 8, 20]), sized=True, wild=True,
                                      ops_weights={"mv": 45, "we": 15, "ws": 5, "sv": 8, "rs": 8, "sz": 6, "er": 3, "dup": 10}),
                           tag="history-out-of-range-moves", oracle=False))
        # correspondence only: glyphs with arbitrary (non-graphic) bytes - LF, NUL, ESC, C1 controls - and unconstructible colours
        for i in range(400 if tier == "quick" else 6000):
            cs.append(Case(tg.history(rng, rng.choice([2, 4, 8, 20]), graphic=False), tag="history-any-bytes", oracle=False))
        shc = ["%d %d %d %d 7 4" % (wv, e, r, z) for wv in range(3) for e in range(3) for r in range(6) for z in range(4)]
        for line, cf in tg.short_histories(3 if tier == "quick" else 4, shc):
            cs.append(Case(line, sweep="short-histories", cfgs=cf))
        return cs
