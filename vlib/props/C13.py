from .. import termgen as tg
from ..core import Case
from .common import PropBase
from .C01 import EFFECTS, COLS_QUICK, el

DUP_WEIGHTS = {"we": 25, "ws": 8, "mv": 20, "sv": 3, "rs": 3, "er": 8, "hc": 5, "sc": 5, "me": 1, "md": 1,
               "ti": 1, "nb": 1, "ab": 1, "sz": 3, "re": 3, "da": 1, "dup": 40}


class Prop(PropBase):
    ID = "C13"
    LEAN_MODULES = ["Tpp.Props.C13"]
    REQUIRED = ["Tpp.Props.C13." + n for n in ("C13_element", "C13_string_run", "C13_move", "C13_visibility", "C13_after_erase", "C13_status_query")] + \
               ["Tpp.agree_run", "Tpp.feed_statusQuery"]
    RULE = ("exhaustive short histories: EVERY sequence of up to 3 (thorough: 4) operations over an 18-operation alphabet on a 3x2 terminal (termgen.short_histories); exhaustive: every attribute of a 24-effect x 3 x 3 colour alphabet and every character set written twice in a "
            "row (and once more after an erase when default); every position of a 4x3 grid moved to twice; every visibility "
            "request repeated; random histories in which 40% of the operations repeat their predecessor. The oracle "
            "decides 'already in effect' from Ref.VT's actual rendition/charset/cursor/visibility and demands payload-only "
            "/ empty output. Non-trivial: contains a repeated operation; distinct by line text.")
    ASSUMPTIONS = ["terminal = Tpp.Ref.VT", "graphic glyphs, constructible colours"]

    @staticmethod
    def cases(tier, rng):
        cs = []
        cfgs = tg.ALL_CONFIGS_SMALL
        k = 0
        for eff in EFFECTS:
            for f in COLS_QUICK:
                for b in COLS_QUICK:
                    for csid in ([5, 18, 0] if tier == "quick" else tg.CHARSETS):
                        g = [csid] + (tg.utf8_bytes(0x20AC) if csid == 18 else [0x41, 0, 0])
                        e1 = g + f + b + list(eff)
                        e2 = [csid] + (tg.utf8_bytes(0xE9) if csid == 18 else [0x42, 0x55, 0]) + f + b + list(eff)
                        line = "T 0 ; %s ; %s ; ws 2 %s %s" % (tg.op_we(e1), tg.op_we(e2), tg.fmt_el(e1), tg.fmt_el(e2))
                        cs.append(Case(line, sweep="element-twice", cfgs=[cfgs[k % len(cfgs)]]))
                        k += 1
        for x in range(4):
            for y in range(3):
                cs.append(Case("T 0 ; sz 4 3 ; mv %d %d ; mv %d %d ; sv ; rs ; mv %d %d" % (x, y, x, y, x, y), sweep="move-twice",
                               cfgs=cfgs[:6]))
        for a in ("hc", "sc"):
            for b in ("hc", "sc"):
                cs.append(Case("T 0 ; %s ; %s ; %s ; %s" % (a, a, b, b), sweep="visibility-twice", cfgs=cfgs[:6]))
        for kind in range(6):
            cs.append(Case("T 0 ; we %s ; er %d ; we %s ; er %d ; we %s" % (tg.fmt_el([5, 65, 0, 0, 0, 1, 0, 0, 0, 9, 0, 0, 1, 24, 27, 25]), kind,
                                                                       tg.fmt_el([5, 66, 0, 0] + tg.DEFAULT_ATTR), kind,
                                                                       tg.fmt_el([5, 67, 0, 0] + tg.DEFAULT_ATTR)), sweep="after-erase", cfgs=cfgs[:9]))
        n = 2000 if tier == "quick" else 40000
        for i in range(n):
            nops = rng.choice([2, 3, 5, 8, 13, 21, 34, 60]) if tier == "quick" else rng.choice([3, 8, 21, 60, 150, 400])
            line = tg.history(rng, nops, sized=True, ops_weights=DUP_WEIGHTS, inputs=(i % 3 == 0), localised=(i % 5 == 2))
            cs.append(Case(line, tag="history", cfgs=tg.configs(rng, 2)))
        # correspondence only: moves to positions OUTSIDE the declared size (also repeated), where the oracle stops judging
        for i in range(500 if tier == "quick" else 6000):
            cs.append(Case(tg.history(rng, rng.choice([2, 4, 8, 20]), sized=True, wild=True,
                                      ops_weights={"mv": 45, "we": 15, "ws": 5, "sv": 8, "rs": 8, "sz": 6, "er": 3, "dup": 10}),
                           tag="history-out-of-range-moves", oracle=False))
        # correspondence only: glyphs with arbitrary (non-graphic) bytes - LF, NUL, ESC, C1 controls - and unconstructible colours
        for i in range(400 if tier == "quick" else 6000):
            cs.append(Case(tg.history(rng, rng.choice([2, 4, 8, 20]), graphic=False), tag="history-any-bytes", oracle=False))
        shc = ["%d %d %d %d 7 4" % (wv, e, r, z) for wv in range(3) for e in range(3) for r in range(6) for z in range(4)]
        for line, cf in tg.short_histories(3 if tier == "quick" else 4, shc):
            cs.append(Case(line, sweep="short-histories", cfgs=cf))
        for line, cf in tg.short_histories_b(2 if tier == "quick" else 3, shc):
            cs.append(Case(line, sweep="short-histories-b", cfgs=cf))
        return cs
