from ..core import Case
from .common import PropBase


class Prop(PropBase):
    ID = "C18"
    LEAN_MODULES = ["Tpp.Props.C18"]
    REQUIRED = ["Tpp.Props.C18." + n for n in (
        "C18_encode_standard", "C18_roundtrip", "C18_only_standard_1byte", "C18_only_standard_ext",
        "C18_aliases", "C18_no_shared_designator", "C18_degenerate")]
    RULE = ("every ordered pair of the 19 character sets written through a real terminal (both unicode_in_all_charsets values), judged on the reference terminal (which set ends up designated, what each glyph shows as); exhaustive: all 19 character sets through encode_character_set; lookup_character_set on the empty code, "
            "all 256 one-byte codes, all 256 '%'-extended codes, all 256x256 two-byte codes (thorough) or a "
            "seeded sample of them (quick), sampled three-byte codes. A case is non-trivial when the code is "
            "non-empty; distinct by line text.")
    ALL_EXHAUSTIVE = True
    ASSUMPTIONS = ["the designator standard is the xterm ctlseqs / VT220-VT320 SCS table transcribed in Tpp.Ref.Designators, plus 'U' for the SCO/PC set"]

    @classmethod
    def verdict_concerns(cls, v):
        # the markup cases of this check are all about `\\c` designators; the markup oracle tags its verdicts C10
        return (" C18" in " " + v) or v.startswith("FAIL C10")

    @staticmethod
    def cases(tier, rng):
        cs = []
        for n in range(19):
            cs.append(Case("N %d" % n, sweep="encode-all-sets"))
        cs.append(Case("D 0", sweep="lookup-empty", nontrivial=False))
        for b in range(256):
            cs.append(Case("D 1 %d" % b, sweep="lookup-1byte"))
        for b in range(256):
            cs.append(Case("D 2 37 %d" % b, sweep="lookup-ext"))
        # the same two sweeps with the lookup made by the COMPILER (the function is constexpr; `_ete` uses it in constant evaluation)
        for b in range(256):
            cs.append(Case("d 1 %d" % b, sweep="lookup-1byte-constant-evaluation"))
            cs.append(Case("d 2 37 %d" % b, sweep="lookup-ext-constant-evaluation"))
        if tier == "thorough":
            for a in range(256):
                for b in range(256):
                    if a != 37:
                        cs.append(Case("D 2 %d %d" % (a, b), sweep="lookup-2byte-all", oracle=False))
        else:
            for _ in range(3000):
                cs.append(Case("D 2 %d %d" % (rng.randrange(256), rng.randrange(256)), oracle=False, tag="random-2byte"))
        # the designators as the attribute markup spells them (`\\c<designator>`): each alone, and every ordered pair inside ONE
        # element (the second one wins) - judged by the markup oracle, whose verdicts on these lines concern C18
        from . import markup_gen as MG
        nd = len(MG.DESIGNATORS)
        for i in range(nd):
            cs.append(MG.spelling_case("E", [[MG.d_charset(i), MG.g_lit(0x71)], [MG.g_lit(0x62)]], sweep="markup-designators"))
            for j in range(nd):
                cs.append(MG.spelling_case("E", [[MG.d_charset(i), MG.d_charset(j), MG.g_lit(0x71)], [MG.g_lit(0x62)]], sweep="markup-designator-pairs"))
        # the designators as a terminal receives them: every ordered pair of character sets (UTF-8 included) written
        # through a real terminal, both values of unicode_in_all_charsets; the reference terminal must end up with the
        # second set designated and show both glyphs in their own sets
        from .. import termgen as tg
        cfgs = tg.ALL_CONFIGS_SMALL
        for c1 in tg.CHARSETS:
            for c2 in tg.CHARSETS:
                for bits in (0, 16):
                    g1 = [c1] + (tg.utf8_bytes(0xE9) if c1 == 18 else [0x61, 0, 0])
                    g2 = [c2] + (tg.utf8_bytes(0x20AC) if c2 == 18 else [0x62, 0, 0])
                    a = " ".join(map(str, g1 + tg.DEFAULT_ATTR))
                    b = " ".join(map(str, g2 + tg.DEFAULT_ATTR))
                    cs.append(Case("T %d ; we %s ; we %s ; we %s" % (bits, a, b, a), sweep="charset-pairs-on-the-wire",
                                   cfgs=[cfgs[(c1 * 19 + c2) % len(cfgs)]]))
        # ... with a BLANK (space, DEL) of the second set before its first ordinary glyph (a blank looks the same in every set)
        for c1 in tg.CHARSETS:
            for c2 in tg.CHARSETS:
                for blank in (0x20, 0x7F):
                    bits = 16 if (c1 + c2) % 2 else 0
                    g1 = [c1] + (tg.utf8_bytes(0xE9) if c1 == 18 else [0x61, 0, 0])
                    gb = [c2, blank, 0, 0]
                    g2 = [c2] + (tg.utf8_bytes(0x20AC) if c2 == 18 else [0x62, 0, 0])
                    els = [" ".join(map(str, g + tg.DEFAULT_ATTR)) for g in (g1, gb, g2)]
                    cs.append(Case("T %d ; we %s ; we %s ; we %s" % (bits, els[0], els[1], els[2]), sweep="charset-pairs-with-a-blank-first",
                                   cfgs=[cfgs[(c1 * 19 + c2) % len(cfgs)]], oracle=(blank == 0x20)))
        # ... with an erase between the two (an erase resets the rendition, never the designated set)
        for c1 in tg.CHARSETS:
            for c2 in tg.CHARSETS:
                for kind in range(6):
                    bits = 16 if (c1 + c2 + kind) % 2 else 0
                    g1 = [c1] + (tg.utf8_bytes(0xE9) if c1 == 18 else [0x61, 0, 0])
                    g2 = [c2] + (tg.utf8_bytes(0x20AC) if c2 == 18 else [0x62, 0, 0])
                    a = " ".join(map(str, g1 + tg.DEFAULT_ATTR))
                    b = " ".join(map(str, g2 + tg.DEFAULT_ATTR))
                    cs.append(Case("T %d ; we %s ; er %d ; we %s ; we %s" % (bits, a, kind, b, a), sweep="charset-pairs-around-an-erase",
                                   cfgs=[cfgs[(c1 * 19 + c2 + kind) % len(cfgs)]]))
        # ... and every ordered TRIPLE (a designation that is skipped because of where the terminal came from two sets ago)
        for c1 in tg.CHARSETS:
            for c2 in tg.CHARSETS:
                for c3 in tg.CHARSETS:
                    if c1 == c2 or c2 == c3:
                        continue
                    for bits in (0, 16):
                        gs = [[c] + (tg.utf8_bytes(0xE9 + k) if c == 18 else [0x61 + k, 0, 0]) for k, c in enumerate((c1, c2, c3))]
                        els = [" ".join(map(str, g + tg.DEFAULT_ATTR)) for g in gs]
                        cs.append(Case("T %d ; we %s ; we %s ; we %s" % (bits, els[0], els[1], els[2]), sweep="charset-triples-on-the-wire",
                                       cfgs=[cfgs[(c1 * 361 + c2 * 19 + c3) % len(cfgs)]]))
        for _ in range(2000 if tier == "quick" else 20000):
            cs.append(Case("D 3 %d %d %d" % (rng.choice([37, rng.randrange(256)]), rng.randrange(256), rng.randrange(256)), oracle=False, tag="random-3byte"))
        return cs
