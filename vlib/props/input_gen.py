"""Generators shared by the input-decoder properties (C05 C06 C07 C20).

An *item* is a python tuple mirroring `Tpp.Ref.Item` (lean/Tpp/Ref/Input.lean); `item_bytes` is written from the
protocol independently of the Lean side and the C05 oracle cross-checks the two (`FAIL C05 generator: …`).

  ('c', byte)                               character
  ('e', 'crlf'|'lfcr'|'crnul'|'cr'|'lf')    Enter
  ('k', intro, key 0-7, rep|None, mods|None)   CSI cursor-pad key   (mods = bit mask shift 1 alt 2 ctrl 4 meta 8)
  ('s', intro, key 0-11)                    SS3 key
  ('p', intro, key 0-17, mods|None)         CSI n ; m ~
  ('q', intro, marker, params|None, final)  other CSI; marker in 'nqgb' (none ? > !); params: list of int|None
  ('m', intro, button 0-6, x, y)            X10 mouse report
intro: '7' = ESC Fe, 'm' = ESC ESC Fe, '8' = C1 byte.
"""
from ..core import Case
from .common import PropBase

CSI_FINALS = b"ABCDHFIZ"          # up down right left home end tab backtab
SS3_FINALS = b"ABCDHFIMPQRS"      # up down right left home end tab enter f1-f4
PAD_CODES = [1, 2, 3, 4, 5, 6, 11, 12, 13, 14, 15, 17, 18, 19, 20, 21, 23, 24]
BUTTON_CODES = [0, 1, 2, 3, 32, 64, 65]
ENTER = {"crlf": b"\r\n", "lfcr": b"\n\r", "crnul": b"\r\0", "cr": b"\r", "lf": b"\n"}
MARKER = {"n": b"", "q": b"?", "g": b">", "b": b"!"}
INTROS = ["7", "m", "8"]
BIG = [2**31 - 1, 2**31, 2**32 + 1, 2**32 + 11, 10**20 - 1]


def hx(bs):
    return bytes(bs).hex() if len(bs) else "-"


def csi(i):
    return {"7": b"\x1b[", "m": b"\x1b\x1b[", "8": b"\x9b"}[i]


def ss3(i):
    return {"7": b"\x1bO", "m": b"\x1b\x1bO", "8": b"\x8f"}[i]


def pstr(params):
    return b";".join(b"" if p is None else str(p).encode() for p in params)


def key_params(rep, mods):
    if rep is None and mods is None:
        return []
    if mods is None:
        return [rep]
    return [rep, 1 + mods]


def item_bytes(it):
    k = it[0]
    if k == "c":
        return bytes([it[1]])
    if k == "e":
        return ENTER[it[1]]
    if k == "k":
        return csi(it[1]) + pstr(key_params(it[3], it[4])) + bytes([CSI_FINALS[it[2]]])
    if k == "s":
        return ss3(it[1]) + bytes([SS3_FINALS[it[2]]])
    if k == "p":
        ps = [PAD_CODES[it[2]]] + ([] if it[3] is None else [1 + it[3]])
        return csi(it[1]) + pstr(ps) + b"~"
    if k == "q":
        return csi(it[1]) + MARKER[it[2]] + pstr(it[3] or []) + bytes([it[4]])
    if k == "m":
        return csi(it[1]) + b"M" + bytes([32 + BUTTON_CODES[it[2]], 33 + it[3], 33 + it[4]])
    raise ValueError(it)


def opt(v):
    return "-" if v is None else str(v)


def item_word(it):
    k = it[0]
    if k == "c":
        return "c%02x" % it[1]
    if k == "e":
        return "e:" + it[1]
    if k == "k":
        return "k%s:%d:%s:%s" % (it[1], it[2], opt(it[3]), opt(it[4]))
    if k == "s":
        return "s%s:%d" % (it[1], it[2])
    if k == "p":
        return "p%s:%d:%s" % (it[1], it[2], opt(it[3]))
    if k == "q":
        ps = "_" if not it[3] else ",".join(opt(p) for p in it[3])
        return "q%s:%s:%s:%02x" % (it[1], it[2], ps, it[4])
    if k == "m":
        return "m%s:%d:%d:%d" % (it[1], it[2], it[3], it[4])
    raise ValueError(it)


def q_final_ok(final, params):
    """well-formedness of an 'other CSI' final byte (mirrors Item.wf; the oracle re-checks)"""
    if 0x30 <= final <= 0x39 or final in (0x3B, 0x3F, 0x3E, 0x21, 0x4D) or final in CSI_FINALS:
        return False
    if final == 0x7E and params and params[0] is not None and (params[0] in PAD_CODES or params[0] >= 2**31):
        return False
    return True


def first_byte(it):
    return item_bytes(it)[0]


def ok_pair(a, b):
    if a == ("e", "cr"):
        return first_byte(b) not in (0x0A, 0x00)
    if a == ("e", "lf"):
        return first_byte(b) != 0x0D
    return True


def random_item(rng):
    r = rng.random()
    intro = rng.choice(INTROS)
    if r < 0.22:
        b = rng.choice([rng.randrange(128), rng.randrange(0x20, 0x7F), 0, 0x7F, 9, 0x40, 0x4D, 0x5B, 0x4F, 0x3B, 0x31])
        return ("c", b) if b not in (0x1B, 0x0D, 0x0A) else ("c", 0x61)
    if r < 0.34:
        return ("e", rng.choice(list(ENTER)))
    if r < 0.52:
        rep = rng.choice([None, None, 0, 1, 2, 5, 10, 99, 255, 256, 65536, 2**31 - 1, rng.randrange(2**31)])
        mods = rng.choice([None, None, rng.randrange(16), rng.randrange(16), 0, 15])
        return ("k", intro, rng.randrange(8), rep, mods)
    if r < 0.62:
        return ("s", intro, rng.randrange(12))
    if r < 0.76:
        return ("p", intro, rng.randrange(18), rng.choice([None, rng.randrange(16), rng.randrange(16), 15]))
    if r < 0.66:
        # reports and mode-like sequences real terminals send that are NOT keys: bracketed-paste brackets, focus in/out,
        # device attributes, status reports, modifyOtherKeys - whatever they are, the items after them decode as always
        for _ in range(20):
            params, final = rng.choice([([200], 0x7E), ([201], 0x7E), ([200], 0x7E), (None, 0x49), (None, 0x4F), ([0], 0x6E), ([3], 0x6E),
                                        ([1, 2], 0x63), ([62, 1, 6], 0x63), ([27, 5, 65], 0x7E), ([27, 5, 133], 0x75), ([97, 5], 0x75),
                                        ([8, 24, 80], 0x74), ([2026, 2], 0x79), ([1049], 0x68), ([1049], 0x6C)])
            if q_final_ok(final, params or []):
                return ("q", intro, rng.choice("nnq"), params, final)
    if r < 0.90:
        n = rng.choice([0, 0, 1, 1, 2, 3, rng.randrange(8), 15, 16, 17, 18, 33, 64, 100])
        params = [rng.choice([None, 0, 1, 2, 7, 16, 22, 25, 200, 1000, 2**31, 2**32 + 11, 10**20 - 1, rng.randrange(100)])
                  for _ in range(n)]
        for _ in range(50):
            final = rng.choice([rng.randrange(0x40, 0x7F), rng.randrange(0x40, 0x7F), 0x7E, 0x7E, rng.randrange(256),
                                0x68, 0x6C, 0x6D, 0x52, 0x63, 0x75])
            if q_final_ok(final, params):
                return ("q", intro, rng.choice("nnnqgb"), params or None, final)
        return ("q", intro, "n", None, 0x6D)
    x = rng.choice([0, 1, 79, 94, 95, 222, rng.randrange(223)])
    y = rng.choice([0, 1, 23, 94, 95, 222, rng.randrange(223)])
    return ("m", intro, rng.randrange(7), x, y)


def random_items(rng, n):
    items = []
    while len(items) < n:
        it = random_item(rng)
        if items and not ok_pair(items[-1], it):
            continue
        items.append(it)
    return items


def chunkings(rng, data, how):
    """a partition of `data` into deliveries, as a run string"""
    n = len(data)
    if how == "whole" or n == 0:
        return hx(data)
    if how == "bytes":
        return ",".join(hx(data[i:i + 1]) for i in range(n))
    cuts = sorted(rng.randrange(n + 1) for _ in range(rng.randrange(1, min(8, n + 1) + 1)))
    parts, last = [], 0
    for c in cuts:
        parts.append(data[last:c])   # may be empty: an empty delivery
        last = c
    parts.append(data[last:])
    return ",".join(hx(p) for p in parts)


OUTPUT_OPS = ["@sz.10.5", "@sz.80.24", "@sz.1.1", "@we", "@mv.1.1", "@er", "@hc"]


def with_setup(rng, run):
    """the same run on a terminal with non-default behaviour flags and/or a client that keeps several reads posted"""
    pre = []
    if rng.random() < 0.7:
        pre.append("@bh.%d" % rng.choice([1, 2, 3, 2, 31, 4095, rng.randrange(4096)]))
    if rng.random() < 0.6:
        pre.append("@rw.%d" % rng.choice([2, 2, 3, 4, 8]))
    if rng.random() < 0.35:
        pre.append("@th.%d" % rng.choice([0, 0, 1, 2, 3]))      # one handler invocation throws; the event loop carries on
    return ",".join(pre + [run]) if pre else run


def with_ops(rng, run, p=0.4):
    """the same run with output-side operations on the same terminal (a resize notification, drawing) between deliveries:
    the decoder must not notice them"""
    out = []
    for c in run.split(","):
        out.append(c)
        if rng.random() < p:
            out.append(rng.choice(OUTPUT_OPS))
    return ",".join(out)


def c05_cfg(items):
    return "C05 " + " ".join(item_word(i) for i in items)


# ---------------------------------------------------------------- canonical prefixes (control state, scratch)
DIRTY = b"\x1b\x1b[?12;34;z"           # leaves meta_, extender_, arguments_ set and the decoder idle
DIRTY_MOUSE = b"\x1b[M\x60\x7f\x21"    # leaves the mouse scratch set
PREFIXES = [
    ("idle", b""), ("idle", b"a"), ("idle", DIRTY), ("idle", DIRTY_MOUSE), ("idle", b"\x8fP"),
    ("cr", b"\r"), ("cr", DIRTY + b"\r"), ("lf", b"\n"), ("lf", DIRTY + b"\n"),
    ("escape", b"\x1b"), ("escape", b"\x1b\x1b"), ("escape", DIRTY + b"\x1b"), ("escape", DIRTY + b"\x1b\x1b"),
    ("arguments", b"\x1b["), ("arguments", b"\x9b"), ("arguments", b"\x8f"), ("arguments", b"\x1bO"),
    ("arguments", b"\x1bx"), ("arguments", b"\x1b\x1b["), ("arguments", b"\x1b\x1bO"), ("arguments", b"\x1b[1"),
    ("arguments", b"\x1b[1;"), ("arguments", b"\x1b[1;2"), ("arguments", b"\x1b[;"), ("arguments", b"\x1b[?"),
    ("arguments", b"\x1b[>12;3"), ("arguments", b"\x1b[24"), ("arguments", b"\x1b[4294967307"),
    ("arguments", DIRTY + b"\x1b["), ("arguments", DIRTY + b"\x9b"), ("arguments", DIRTY + b"\x8f"),
    ("arguments", DIRTY + b"\x1bO"), ("arguments", b"\x1bO1;2"), ("arguments", b"\x1b\x1b[5;9"),
    ("mouse0", b"\x1b[M"), ("mouse0", b"\x9bM"), ("mouse0", b"\x1b[1;2M"), ("mouse0", DIRTY_MOUSE + b"\x1b\x1b[?M"),
    ("mouse1", b"\x1b[M "), ("mouse1", b"\x1b[M\x00"), ("mouse1", b"\x1b[M\xff"), ("mouse1", DIRTY_MOUSE + b"\x9bMa"),
    ("mouse2", b"\x1b[M !"), ("mouse2", b"\x1b[M\x00\xff"), ("mouse2", b"\x9bM`\x00"), ("mouse2", DIRTY_MOUSE + b"\x1b[M#~"),
]
SUFFIXES = [b"", b"A", b"~", b"1~", b";2A", b"M !\"", b"\n", b"\x00", b"\x1b[A", b"ABCD", b"11;5~x", b"\x1bOP", b"\r\n"]


def transition_sweep(next_bytes=range(256), suffixes=SUFFIXES, cfg=None):
    """every (canonical prefix, next byte, distinguishing suffix); one line per (prefix, byte), one run per suffix"""
    cs = []
    for state, pre in PREFIXES:
        for b in next_bytes:
            head = pre + bytes([b])
            runs = " / ".join(hx(head + s) for s in suffixes)
            cs.append(Case("I " + runs, sweep="transition-" + state, oracle=cfg is not None,
                           cfgs=[cfg] if cfg else None))
    return cs


def two_byte_sweep(cfg=None):
    """every two-byte continuation after every canonical prefix (thorough)"""
    cs = []
    for state, pre in PREFIXES:
        for b in range(256):
            runs = " / ".join(hx(pre + bytes([b, c]) + b"1;2~x") for c in range(256))
            cs.append(Case("I " + runs, sweep="transition2-" + state, oracle=cfg is not None,
                           cfgs=[cfg] if cfg else None))
    return cs


# ---------------------------------------------------------------- the key space
ARG0 = [None] + list(range(31)) + [99, 255, 256, 257] + BIG          # None = empty parameter
ARG1 = ["absent", None] + list(range(21)) + [255, 257, 2**32 + 2]
KEY_FINALS = sorted(set(b"ABCDFHIZ~MPQRS"))
OTHER_QUICK = sorted((set(range(0x40, 0x7F)) | {0x00, 0x0A, 0x0D, 0x1B, 0x20, 0x21, 0x2F, 0x30, 0x39, 0x3A, 0x3B, 0x3C,
                                               0x3E, 0x3F, 0x7F, 0x80, 0x8F, 0x9B, 0xA0, 0xFF}) - set(KEY_FINALS))
TAIL = b"@@@@"
TAIL_ITEMS = [("c", 0x40)] * 4


def key_item(init, final, a0, a1, intro):
    """the Ref item this sequence is, or None when it is outside the item language"""
    if init == "[":
        if final in CSI_FINALS:
            key = CSI_FINALS.index(final)
            if a1 == "absent":
                if a0 is None:
                    return ("k", intro, key, None, None)
                return ("k", intro, key, a0, None) if a0 < 2**31 else None
            if a1 is None or not 1 <= a1 <= 16 or (a0 is not None and a0 >= 2**31):
                return None
            return ("k", intro, key, a0, a1 - 1)
        if final == 0x7E and a0 in PAD_CODES:
            if a1 == "absent":
                return ("p", intro, PAD_CODES.index(a0), None)
            if a1 is None or not 1 <= a1 <= 16:
                return None
            return ("p", intro, PAD_CODES.index(a0), a1 - 1)
        params = [a0] if a1 == "absent" else [a0, a1]
        if a1 == "absent" and a0 is None:
            params = None
        if q_final_ok(final, params):
            return ("q", intro, "n", params, final)
        return None
    if init == "O" and a0 is None and a1 == "absent" and final in SS3_FINALS:
        return ("s", intro, SS3_FINALS.index(final))
    return None


def key_space(tier, prop="C05"):
    cs = []
    for init in ("[", "O", "x"):
        forms = [("7", b"\x1b" + init.encode()), ("m", b"\x1b\x1b" + init.encode())]
        if init == "[":
            forms.append(("8", b"\x9b"))
        if init == "O":
            forms.append(("8", b"\x8f"))
        finals = range(256) if tier == "thorough" else KEY_FINALS + OTHER_QUICK
        for final in finals:
            full = tier == "thorough" or final in KEY_FINALS
            a0s = ARG0 if full else [None, 0, 1, 11, 24, 255, 2**31, 2**32 + 11]
            a1s = ARG1 if full else ["absent", None, 2, 16, 2**32 + 2]
            for a0 in a0s:
                for a1 in a1s:
                    ps = pstr([a0] if a1 == "absent" else [a0, a1])
                    for intro, ib in forms:
                        data = ib + ps + bytes([final]) + TAIL
                        it = key_item(init, final, a0, a1, intro)
                        if prop == "C20":
                            cfgs = ["C20"]
                        else:
                            cfgs = [c05_cfg([it] + TAIL_ITEMS)] if it is not None else None
                        cs.append(Case("I " + hx(data), sweep="key-space", oracle=cfgs is not None, cfgs=cfgs,
                                       tag="key-space:" + ("item" if it is not None else "outside-items")))
    return cs


def mouse_sweep(tier):
    cs = []
    grid = [0, 1, 31, 32, 33, 34, 35, 36, 63, 64, 65, 95, 96, 97, 98, 127, 128, 129, 160, 192, 223, 224, 254, 255]
    if tier == "thorough":
        grid = sorted(set(grid) | set(range(0, 256, 6)))      # 64 values
    triples = [(b, x, y) for b in grid for x in grid for y in grid]
    for i in range(256):
        triples += [(i, 40, 50), (32, i, 50), (35, 40, i)]
    for b, x, y in triples:
        for intro in ("7", "8"):
            data = csi(intro) + b"M" + bytes([b, x, y])
            cfgs = None
            if b - 32 in BUTTON_CODES and x >= 33 and y >= 33:
                cfgs = [c05_cfg([("m", intro, BUTTON_CODES.index(b - 32), x - 33, y - 33)])]
            cs.append(Case("I " + hx(data), sweep="mouse", oracle=cfgs is not None, cfgs=cfgs,
                           tag="mouse:" + ("item" if cfgs else "outside-items")))
    return cs


# ---------------------------------------------------------------- malformed / hostile material
def malformed(rng, maxlen=64):
    kind = rng.randrange(6)
    n = rng.randrange(1, maxlen)
    if kind == 0:
        return bytes(rng.randrange(256) for _ in range(n))
    if kind == 1:      # truncated well-formed items
        data = b"".join(item_bytes(i) for i in random_items(rng, rng.randrange(1, 6)))
        return data[:rng.randrange(len(data) + 1)]
    if kind == 2:      # ESC inside parameters
        return b"\x1b[" + pstr([rng.randrange(100), rng.randrange(100)]) + b"\x1b[" + bytes([rng.randrange(0x30, 0x7F)])
    if kind == 3:      # endless digits
        return rng.choice([b"\x1b[", b"\x9b", b"\x1bO", b"\x8f"]) + b"9" * n + rng.choice([b"", b"~", b"A", b";", b"M"])
    if kind == 4:      # control-heavy alphabet
        alpha = b"\x1b\x1b\x1b[[OM;;?>!~A\r\n\x00\x9b\x8f0123456789"
        return bytes(rng.choice(alpha) for _ in range(n))
    # mouse reports cut short / with extreme bytes
    return b"\x1b[M" + bytes(rng.randrange(256) for _ in range(rng.randrange(3))) + rng.choice([b"", b"\x1b", b"\x9b"])


def utf8_text(rng):
    cps = [rng.choice([0xE9, 0x100, 0x142, 0x20AC, 0x3042, 0x1F600, rng.randrange(0x80, 0x800), rng.randrange(0x800, 0xD800)])
           for _ in range(rng.randrange(1, 12))]
    return "".join(chr(c) for c in cps).encode("utf-8")


def liberal_segment(rng):
    """a self-contained input segment from a grammar WIDER than the item language: anything a terminal or a paste
    can put between two idle points (mouse reports with parameters, extra parameters and markers, odd initiators)"""
    k = rng.random()
    intro = rng.choice([b"\x1b[", b"\x1b[", b"\x9b", b"\x1b\x1b[", b"\x1bO", b"\x8f", b"\x1b\x1bO"])
    is_csi = intro in (b"\x1b[", b"\x9b", b"\x1b\x1b[")
    params = ";".join(rng.choice(["", "1", "2", "5", "15", "24", "3", "16", "7", "200"]) for _ in range(rng.choice([0, 0, 1, 1, 2, 3])))
    marker = rng.choice(["", "", "", "?", ">", "!"])
    mouse3 = bytes([rng.randrange(32, 128), rng.randrange(33, 128), rng.randrange(33, 128)])
    if k < 0.25:
        final = rng.choice(b"ABCDFHIZ~~~~PQRSMmhlJKusn")
        body = intro + (marker + params).encode() + bytes([final])
        if final == 0x4D and is_csi:
            body += mouse3
        return body
    if k < 0.45:
        # a mouse report whose CSI carries parameters / a marker / the meta prefix
        return rng.choice([b"\x1b[", b"\x9b", b"\x1b\x1b["]) + (marker + params).encode() + b"M" + mouse3
    if k < 0.6:
        return bytes([rng.choice([0x61, 0x41, 0x20, 0x7E, 0x00, 0x09, 0x7F, 0x31, 0x3B, 0x5B, 0x4D])])
    if k < 0.7:
        return rng.choice([b"\r\n", b"\n\r", b"\r\x00"])
    if k < 0.85:
        return intro + params.encode() + rng.choice([b"~", b"A", b"H", b"Z"])
    return b"\x1b" + bytes([rng.choice([0x41, 0x61, 0x37, 0x5D, 0x28])]) + params.encode() + rng.choice([b"~", b"A", b"x"])


def hist_case(rng, n, tag):
    segs = [liberal_segment(rng) for _ in range(n)]
    whole = b"".join(segs)
    # the whole stream arrives in one delivery, segment by segment, or segment by segment from a channel that already
    # holds the deliveries and completes every read synchronously (run marked `!`)
    first = rng.choice([hx(whole), ",".join(hx(s_) for s_ in segs), "!" + ",".join(hx(s_) for s_ in segs), "!!" + ",".join(hx(s_) for s_ in segs)])
    # one case in three keeps all the runs alive at once and takes their deliveries in turn (kind `J`)
    line = rng.choice(["I ", "I ", "J "]) + " / ".join([first] + [hx(s_) for s_ in segs])
    return line, ["HIST " + tag]


class InputPropBase(PropBase):
    """input-decoder properties: one replay per kind of input (sweep / tag), the first failing case of that kind in
    generation order (generators emit the small exhaustive cases before the long random ones)"""

    @classmethod
    def signature(cls, case, verdict):
        return "%s %s" % (cls.ID, case.sweep or case.tag.split(":")[0] or "case")


def numeric_boundaries():
    """parameter values around every boundary an integer conversion can trip over: powers of two (2^7 .. 2^64), powers of
    ten (10^2 .. 10^20), INT_MAX/10 with every last digit, the same with further digits appended, leading zeros"""
    vals = set()
    for k in (7, 8, 15, 16, 31, 32, 63, 64):
        for d in (-2, -1, 0, 1, 2):
            vals.add(2 ** k + d)
    for k in range(2, 21):
        vals.update([10 ** k - 1, 10 ** k, 10 ** k + 1])
    base = (2 ** 31 - 1) // 10                       # 214748364
    for last in range(10):
        vals.add(base * 10 + last)                    # 2147483640 .. 2147483649
        for more in (0, 7, 9):
            vals.add((base * 10 + last) * 10 + more)  # … with another digit appended
    base64 = (2 ** 63 - 1) // 10
    for last in range(10):
        vals.add(base64 * 10 + last)
    return sorted(v for v in vals if v >= 0)


def numeric_sweep(prop="C05"):
    """key, keypad, modifier and repeat-count positions filled with every boundary value (7- and 8-bit introducers)"""
    cs = []
    for v in numeric_boundaries():
        for txt in (str(v), "00" + str(v)):
            t = txt.encode()
            seqs = [b"\x1b[" + t + b"A", b"\x1b[" + t + b"~", b"\x1b[1;" + t + b"A", b"\x1b[11;" + t + b"~", b"\x9b" + t + b"B",
                    b"\x1b[" + t + b";" + t + b"H", b"\x1b\x1b[" + t + b"Z", b"\x1b[?" + t + b"h", b"\x1bO" + t + b"P"]
            for sq in seqs:
                cs.append(Case("I " + hx(sq + b"@@"), sweep="numeric-boundaries", oracle=(prop == "C20"), cfgs=["C20"] if prop == "C20" else None,
                               tag="numeric-boundary"))
    return cs


def parameter_shape_sweep(tier, prop="C05"):
    """every first parameter 0..70 (and a few beyond) with every SHAPE of the parameter list - one, two, three, four
    parameters, empty ones included - before every final byte that has a meaning for the decoder (all of 0x40..0x7E in the
    thorough tier): a new case in a key table that indexes a parameter the sequence does not have"""
    cs = []
    firsts = list(range(0, 71)) + [99, 100, 127, 128, 200, 255, 256]
    finals = bytes(range(0x40, 0x7F)) if tier == "thorough" else b"~ABCDEFHPQRSZ@u"
    shapes = [b"%d", b"%d;", b"%d;5", b"%d;5;", b"%d;5;65", b"%d;;", b"%d;;;", b";%d", b"%d;%d"]
    for fin in finals:
        for n in firsts:
            for sh in shapes:
                body = sh.replace(b"%d", str(n).encode())
                for intro in ((b"\x1b[", b"\x9b", b"\x1b\x1b[") if (tier == "thorough" or fin in b"~A") else (b"\x1b[",)):
                    sq = intro + body + bytes([fin])
                    cs.append(Case("I " + hx(sq + b"@@"), sweep="parameter-shapes", oracle=(prop == "C20"),
                                   cfgs=["C20"] if prop == "C20" else None, tag="parameter-shape"))
    # three parameters: key-like first, modifier-like second, and a third that looks like a key CODE (the values of the
    # abstract keys 128..150 and their neighbours included) - `CSI 27 ; 5 ; 133 ~` must not become Ins
    thirds = [0, 1, 13, 27, 65, 126, 127, 128, 129, 133, 138, 139, 144, 150, 151, 255, 256, 65536 + 133]
    for fin in (b"~u" if tier != "thorough" else b"~uABHZP"):
        for n in list(range(0, 41)) + [127, 128, 255]:
            for m in (b"5", b"2", b""):
                for t in thirds:
                    for intro in ((b"\x1b[",) if tier != "thorough" else (b"\x1b[", b"\x9b", b"\x1b\x1b[")):
                        sq = intro + str(n).encode() + b";" + m + b";" + str(t).encode() + bytes([fin])
                        cs.append(Case("I " + hx(sq + b"@@"), sweep="parameter-shapes-3", oracle=(prop == "C20"),
                                       cfgs=["C20"] if prop == "C20" else None, tag="parameter-shape"))
    return cs


def repetition_cases(rng, tier, cfg_fn):
    """one item repeated 85, 86, 171, 256, 257 (thorough: 1000) times on the same terminal, then other items: behaviour
    that only differs on the N-th repetition (a wrapping counter, a filling table)"""
    cs = []
    kinds = [("m", "7", 0, 10, 20), ("m", "8", 3, 0, 222), ("k", "7", 0, 5, 1), ("p", "7", 6, None), ("s", "7", 8), ("e", "crlf"),
             ("c", 0x61), ("q", "7", "q", [25], 0x68), ("k", "m", 3, None, None)]
    for it in kinds:
        for n in ((85, 86, 171, 256, 257) + ((1000,) if tier == "thorough" else ())):
            items = [it] * n + [("m", "7", 1, 3, 4), ("c", 0x78), ("k", "7", 1, None, None)]
            data = b"".join(item_bytes(i) for i in items)
            cs.append(Case("I " + hx(data), sweep="n-fold-repetition", cfgs=[cfg_fn(items)], tag="n-fold-repetition"))
    return cs
