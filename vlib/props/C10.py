from ..core import Case
from .common import PropBase
from . import markup_gen as G


class Prop(PropBase):
    ID = "C10"
    LEAN_MODULES = ["Tpp.Props.C10"]
    REQUIRED = ["Tpp.Props.C10." + n for n in (
        "C10_decode_spelling", "C10_decode_spelling_eq", "C10_canonical", "C10_canonical_eq", "C10_plain", "C10_utf8",
        "C10_reset", "C10_persist", "C10_persist_charset", "C10_ete_spelling", "C10_encode_terminates")]
    RULE = ("runs: after a spelling with directives (often a non-default charset, optionally a \\U glyph) a run of 1-200 literally written glyphs - one repeated character, the first UTF-8 byte of the preceding \\U glyph repeated, or mixed; exhaustive sweeps: every directive form once and every ordered pair of 58 representative directives in one "
            "element followed by a directive-less element; every one of the 38 decoder states (reached through a canonical prefix, in 3 element "
            "contexts) x every next byte 0..255 x 4 distinguishing suffixes, through encode and _ete; all \\C000-\\C999; "
            "all 65536 \\Uxxxx (thorough; quick: stride 7 plus all range boundaries), in random letter case; all 1000 "
            "\\<rgb and \\>rgb; all 100 \\{nn and \\}nn; all 256 \\[d and \\]d; all 484 hex-digit pairs (either case) in "
            "each true-colour component. Random: lists of Ref.Spelling (mostly 0-3 directives, redundant/overriding "
            "directives, aliases of designators, mixed-case hex, literal/\\\\/\\C/\\U glyphs) judged against "
            "Ref.denoteAll; random Expressible element strings (each element differs from its predecessor in one "
            "field half of the time; UTF-8 boundary code points; all 18 designatable sets) printed by the generator's "
            "own canonical(), which the oracle requires to equal Ref.canonical, judged against the string itself; "
            "plain text without backslash over all other 255 bytes; garbage with bytes >= 0x80 and trailing unfinished "
            "directives. A case is non-trivial when the text is non-empty; distinct by line text.")
    ASSUMPTIONS = [
        "the markup language is the one transcribed in Tpp.Ref.Markup (README/wiki: \\\\ \\Cnnn \\c \\i \\p \\u \\[ \\] \\< \\> \\{ \\} \\( \\) \\U \\x)",
        "UTF-8 is RFC 3629 for U+0000-U+FFFF (surrogate values are encoded like any other 16-bit value)",
        "element comparison is the library's operator== (unused glyph storage is not compared)",
    ]

    @classmethod
    def signature(cls, case, verdict):
        # one signature per kind of failure (not per input), e.g. "C10:decode of canonical markup"
        what = verdict.split(":")[0].replace("FAIL", "").strip()
        return cls.ID + ":" + " ".join(w for w in what.split() if w not in ("C10", "C07"))

    @staticmethod
    def cases(tier, rng):
        thorough = tier == "thorough"
        cs = []
        # ---- 0. every directive once, and every ordered pair of directives in one element (override /
        #         independence), followed by an element without directives (persistence)
        reps = ([G.d_charset(i) for i in range(24)] + [G.d_intensity(k) for k in (G.BOLD, G.FAINT, G.NORMAL)]
                + [G.d_polarity(k) for k in (G.POSITIVE, G.NEGATIVE)] + [G.d_underlining(k) for k in (G.UNDERLINED, G.NOT_UNDERLINED)]
                + [G.d_low(fg, d) for fg in (True, False) for d in (0, 7, 9)]
                + [G.d_high(fg, *c) for fg in (True, False) for c in ((0, 0, 0), (5, 5, 5), (1, 2, 3))]
                + [G.d_grey(fg, n) for fg in (True, False) for n in (0, 9, 10, 23)]
                + [G.d_true(fg, h) for fg in (True, False) for h in ("000000", "A917be", "fFfFfF")]
                + [G.D_RESET])
        for d in reps:
            cs.append(G.spelling_case("E", [[d, G.g_lit(0x61)], [G.g_lit(0x62)]], sweep="directive-each"))
            cs.append(G.spelling_case("e", [[d, G.g_lit(0x61)]], sweep="directive-each"))
        for d1 in reps:
            for d2 in reps:
                cs.append(G.spelling_case("E", [[d1, d2, G.g_lit(0x61)], [G.g_lit(0x62)]], sweep="directive-pairs"))
        # ---- 1. state x byte
        for ci, ctx in enumerate(G.CONTEXTS):
            for name, prefix in G.STATE_PREFIX:
                for b in range(256):
                    for si, suffix in enumerate(G.SUFFIXES):
                        if not thorough and ci > 0 and si in (1, 3):
                            continue
                        data = ctx + prefix + bytes([b]) + suffix
                        cs.append(Case("E " + G.hx(data), sweep="state-x-byte"))
                        if ci == 0:
                            cs.append(Case("e " + G.hx(prefix + bytes([b]) + suffix), sweep="state-x-byte-ete"))
        # unfinished directive at the very end, for every state and context (one extra element)
        for ctx in G.CONTEXTS:
            for name, prefix in G.STATE_PREFIX:
                cs.append(Case("E " + G.hx(ctx + prefix), sweep="truncated-in-state", nontrivial=bool(ctx + prefix)))
                cs.append(Case("s " + G.hx(ctx + prefix), sweep="truncated-in-state", nontrivial=bool(ctx + prefix)))
                cs.append(Case("e " + G.hx(ctx + prefix), sweep="truncated-in-state", nontrivial=bool(ctx + prefix), oracle=False))
        # ---- 2. \C000 .. \C999
        for n in range(1000):
            if n < 256:
                cs.append(G.spelling_case("E", [[G.g_code(n)], [G.g_lit(0x61)]], sweep="charcode-all"))
            else:
                cs.append(Case("E " + G.hx(b"\\C%03da" % n), sweep="charcode-all", oracle=False))
        # ---- 3. \Uxxxx
        if thorough:
            values = range(0x10000)
        else:
            values = sorted(set(list(range(0, 0x10000, 7)) + G.UNI_EDGES + list(range(0, 0x100)) +
                                [v + d for v in (0x80, 0x800, 0x1000, 0xD800, 0xE000, 0x10000) for d in (-2, -1, 0, 1) if 0 <= v + d < 0x10000]))
        for v in values:
            cs.append(G.spelling_case("E", [[G.g_uni(G.mixed_hex(rng, v, 4))], [G.g_lit(0x7A)]], sweep="unicode-all" if thorough else "unicode-stride"))
        # ---- 4. colours
        for fg in (True, False):
            for r in range(10):
                for g in range(10):
                    for b in range(10):
                        if r < 6 and g < 6 and b < 6:
                            cs.append(G.spelling_case("E", [[G.d_high(fg, r, g, b), G.g_lit(0x61)]], sweep="high-colour-all"))
                        else:
                            cs.append(Case("E " + G.hx((b"\\<" if fg else b"\\>") + b"%d%d%da" % (r, g, b)), sweep="high-colour-all", oracle=False))
            for n in range(100):
                if n < 24:
                    cs.append(G.spelling_case("E", [[G.d_grey(fg, n), G.g_lit(0x61)]], sweep="greyscale-all"))
                else:
                    cs.append(Case("E " + G.hx((b"\\{" if fg else b"\\}") + b"%02da" % n), sweep="greyscale-all", oracle=False))
            for d in range(256):
                if 0x30 <= d <= 0x39:
                    cs.append(G.spelling_case("E", [[G.d_low(fg, d - 0x30), G.g_lit(0x61)]], sweep="low-colour-all"))
                else:
                    cs.append(Case("E " + G.hx((b"\\[" if fg else b"\\]") + bytes([d]) + b"a"), sweep="low-colour-all", oracle=False))
            hexchars = "0123456789abcdefABCDEF"
            for pos in range(3):
                for h in hexchars:
                    for l in hexchars:
                        comp = ["00", "00", "00"]
                        comp[pos] = h + l
                        cs.append(G.spelling_case("E", [[G.d_true(fg, "".join(comp)), G.g_lit(0x61)]], sweep="true-colour-digit-pairs"))
        for i in range(24):
            cs.append(G.spelling_case("E", [[G.d_charset(i), G.g_lit(0x61)], [G.g_uni("263A")], [G.g_lit(0x62)]], sweep="designators-all"))
        # ONE element whose own markup is long: 20 to 70 redundant directives before the glyph (its markup passes 255, 256,
        # 511, 512 bytes), followed by two more elements - a per-element byte count kept in a byte
        for k in list(range(20, 71)) + [100, 130]:
            for mk in (lambda j: G.d_true(j % 2 == 0, "%06X" % ((j * 0x010203) & 0xFFFFFF)), lambda j: G.d_low(True, j % 8), lambda j: G.d_high(False, j % 6, (j // 6) % 6, 1),
                       lambda j: G.d_charset(j % len(G.DESIGNATORS))):
                ds = [mk(j) for j in range(k)]
                cs.append(G.spelling_case("E", [ds + [G.g_lit(0x61)], [G.d_low(True, 1), G.g_lit(0x62)], [G.g_lit(0x63)]], sweep="long-element-markup"))
                cs.append(G.spelling_case("s", [ds + [G.g_lit(0x61)], [G.g_lit(0x62)]], sweep="long-element-markup"))
        # ---- 5. random spellings against Ref.denoteAll
        n_sp = 4000 if not thorough else 60000
        for i in range(n_sp):
            k = rng.choice([1, 1, 2, 3, 5, 8, 13])
            sps = [G.random_spelling(rng) for _ in range(k)]
            kind = "E" if i % 8 else ("s" if i % 16 else "e")
            cs.append(G.spelling_case(kind, sps, tag="random-spellings-%s" % kind))
        # ---- 5b. runs: a spelling with directives (a non-default charset more often than not), then a RUN of glyphs written
        # literally with no directive of their own - long runs (32, 33, 64, 200 characters), runs of one repeated
        # character, and runs repeating the first UTF-8 byte of a preceding \\U glyph
        for i in range(1500 if not thorough else 20000):
            sps = [[G.d_charset(rng.randrange(24))] + G.random_spelling(rng)] if rng.random() < 0.7 else [G.random_spelling(rng)]
            if rng.random() < 0.5:
                v = rng.choice(G.UNI_EDGES + [0x2D, 0x2500, 0xE9, 0x41]) if rng.random() < 0.6 else rng.randrange(0x10000)
                sps.append([G.g_uni(G.mixed_hex(rng, v, 4))])
                rep = G.utf8_bytes(v)[0]
            else:
                rep = rng.choice([0x2D, 0x61, 0x20, 0x80, 0xE2])
            n = rng.choice([1, 3, 4, 5, 8, 31, 32, 33, 64, 200, 255, 256, 257, 300, 513, 1030])
            if rng.random() < 0.6:
                sps += [[G.g_lit(rep)] for _ in range(n)]
            else:
                sps += [[G.g_lit(rng.choice([rng.randrange(0x20, 0x7F), rep, 0x41]))] for _ in range(n)]
            sps.append(G.random_spelling(rng))
            if rng.random() < 0.3:
                # a reset at the START of an element's markup while a non-default character set is in force: the set stays
                sps.append([G.D_RESET, G.g_lit(rng.choice([0x62, 0x71, 0x23]))])
                sps.append([G.g_lit(0x63)])
            kind = "E" if i % 4 else "s"
            cs.append(G.spelling_case(kind, sps, tag="runs-%s" % kind))
        # ---- 6. random Expressible strings through canonical markup
        n_k = 4000 if not thorough else 60000
        for i in range(n_k):
            k = rng.choice([1, 2, 3, 5, 8, 13])
            es, prev = [], G.DEFAULT_ELEMENT
            for _ in range(k):
                e = G.random_expressible(rng, prev)
                es.append(e)
                prev = e
            cs.append(G.canonical_case("E" if i % 8 else "s", es, tag="random-canonical"))
        # ---- 7. plain text (no backslash)
        alphabet = [b for b in range(256) if b != G.BS]
        cs.append(Case("E " + G.hx(bytes(alphabet)), sweep="plain-all-bytes"))
        cs.append(Case("E -", sweep="plain-all-bytes", nontrivial=False))
        cs.append(Case("s -", sweep="plain-all-bytes", nontrivial=False))
        cs.append(Case("e -", sweep="plain-all-bytes", nontrivial=False))
        for b in alphabet:
            cs.append(Case("e " + G.hx(bytes([b, 0x41])), sweep="plain-all-bytes"))
        for i in range(500 if not thorough else 5000):
            n = rng.choice([1, 2, 5, 20, 100])
            cs.append(Case("%s %s" % ("E" if i % 4 else "s", G.hx(bytes(rng.choice(alphabet) for _ in range(n)))), tag="random-plain"))
        # ---- 8. garbage
        cs += garbage_cases(3000 if not thorough else 40000, rng)
        return cs


MARKUP_BYTES = b"\\\\\\\\CcipuxU[]<>{}()%+-=<>0123456789abcdefABCDEF" + bytes([0, 0x7F, 0x80, 0x9B, 0xFF, 0x2F, 0x3A, 0x40, 0x47, 0x60, 0x67])


def garbage_bytes(rng, n):
    style = rng.randrange(3)
    out = bytearray()
    for _ in range(n):
        if style == 0:
            out.append(rng.randrange(256))
        elif style == 1:
            out.append(rng.choice(MARKUP_BYTES))
        else:
            out.append(rng.choice(MARKUP_BYTES) if rng.random() < 0.7 else rng.randrange(128, 256))
    return bytes(out)


def garbage_cases(count, rng):
    cs = []
    for i in range(count):
        n = rng.choice([1, 2, 3, 4, 6, 9, 16, 40, 120])
        data = garbage_bytes(rng, n)
        if rng.random() < 0.4:       # trailing unfinished directive
            data += rng.choice(G.STATE_PREFIX[1:])[1]
        kind = "E" if i % 5 else ("e" if i % 10 else "s")
        cs.append(Case("%s %s" % (kind, G.hx(data)), tag="garbage-%s" % kind))
    return cs
