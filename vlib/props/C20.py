from ..core import Case, load_known
from .common import PropBase
from . import input_gen as G


class Prop(PropBase):
    ID = "C20"
    LEAN_MODULES = ["Tpp.Props.C20", "Tpp.Lemmas.TablesTie"]
    REQUIRED = ["Tpp.Props.C20." + n for n in (
        "C20_partial", "C20_counterexample", "C20_counterexample_stream", "C20_large_parameter_names_no_key", "C20_colliding_set",
        "C20_faithful", "C20_faithful_ctrl")] + \
               ["Tpp." + n for n in ("faithful_feed", "faithful_rawTokens", "modifierTable_is_source", "cursorTable_is_source", "ss3Table_is_source", "keypadTable_is_source")]
    RULE = ("exhaustive: all 256 single bytes delivered to an idle decoder, to a decoder that has just seen CR and to one "
            "that has just seen LF (oracle: an ordinary unswallowed byte must come out as the non-abstract key of that "
            "value); every (canonical prefix, byte, suffix) transition and the whole key space of C05 with the stream "
            "oracle (every abstract-key token of the REAL answer must be designated by its own sequence per "
            "Ref.designates, or be a line ending).  Random: item streams, UTF-8 text, random bytes, malformed streams.  "
            "Non-trivial: every case; distinct by line text.  Known findings are matched by failure kind "
            "('C20 idle-byte 0x80'); the former 'C20 atoi-wrap' finding is fixed and would be reported again; any other failure kind is a violation.")
    ASSUMPTIONS = [
        "the xterm key tables are those transcribed in Tpp.Ref.Input (designates is liberal about extra parameters and private markers)",
        "the full statement is false on the current tree: C20_partial is proved with two exact exclusions, both known findings",
    ]
    LEVEL = "proof"

    @classmethod
    def signature(cls, case, verdict):
        """one stable key per failure kind; when a verdict lists several kinds, an unknown one wins"""
        body = verdict.split("FAIL C20 ", 1)[-1]
        kinds = []
        for part in body.split("; "):
            ws = part.split()
            if not ws:
                continue
            if ws[0] in ("idle-byte", "misreported-byte") and len(ws) > 1:
                kinds.append("C20 %s %s" % (ws[0], ws[1]))
            elif ws[0] == "atoi-wrap":
                kinds.append("C20 atoi-wrap")
            else:
                # e.g. `undesignated K144.0.1.c5b.7e.0.00.3136`: key + initiator + final byte identify the defect
                tok = ws[1] if len(ws) > 1 else ""
                f = tok.split(".")
                kinds.append("C20 %s %s" % (ws[0], ".".join(f[:1] + f[3:5]) if len(f) > 4 else tok or case.line[:100]))
        known = {k["signature"] for k in load_known() if k.get("property") == "C20" and k.get("status", "known") == "known"}
        for k in kinds:
            if k not in known:
                return k
        return kinds[0] if kinds else "C20:" + case.line

    @staticmethod
    def cases(tier, rng):
        cs = []
        for b in range(256):
            cs.append(Case("I %02x" % b, sweep="idle-bytes", cfgs=["C20 byte"], tag="byte:idle"))
            cs.append(Case("I 0d,%02x" % b, sweep="bytes-after-cr", cfgs=["C20 byte"], tag="byte:after-cr"))
            cs.append(Case("I 0a,%02x" % b, sweep="bytes-after-lf", cfgs=["C20 byte"], tag="byte:after-lf"))
        for i in range(3000 if tier == "quick" else 60000):
            line, cfgs = G.hist_case(rng, rng.choice([2, 2, 3, 4, 6]), "C20")
            cs.append(Case(line, cfgs=cfgs, tag="history-independence"))
        cs += G.transition_sweep(cfg="C20")
        cs += G.key_space(tier, prop="C20")
        for i in range(3000 if tier == "quick" else 50000):
            kind = i % 4
            if kind == 0:
                data = b"".join(G.item_bytes(it) for it in G.random_items(rng, rng.randrange(1, 30)))
                tag = "random:items"
            elif kind == 1:
                data = G.utf8_text(rng)
                tag = "random:utf8-text"
            elif kind == 2:
                data = bytes(rng.randrange(256) for _ in range(rng.randrange(1, 40)))
                tag = "random:bytes"
            else:
                data = G.malformed(rng)
                tag = "random:malformed"
            cs.append(Case("I " + G.chunkings(rng, data, ("whole", "random")[i % 2]), cfgs=["C20"], tag=tag))
        # streams of items (long parameter lists included) and malformed bytes cut into deliveries at random, empty
        # deliveries included, also from a channel that completes reads synchronously: every abstract key reported must
        # carry a sequence that was actually sent (faithfulness oracle)
        for i in range(3000 if tier == "quick" else 60000):
            if i % 3:
                data = b"".join(G.item_bytes(it) for it in G.random_items(rng, rng.randrange(1, 12)))
            else:
                data = b"".join(rng.choice([G.item_bytes(G.random_item(rng)), G.malformed(rng, 10)]) for _ in range(rng.randrange(1, 6)))
            run = G.chunkings(rng, data, "random")
            if i % 4 == 1:
                run = G.with_ops(rng, run)          # output-side operations between the deliveries
            if i % 4 == 2:
                # two connections multiplexed on one thread, the second one busy with key sequences cut into pieces
                other = b"".join(G.item_bytes(it) for it in G.random_items(rng, rng.randrange(1, 12)))
                cs.append(Case("J " + run + " / " + G.chunkings(rng, other, "bytes" if i % 8 == 2 else "random"), cfgs=["C20"], tag="partitioned-streams:multiplexed"))
                continue
            cs.append(Case("I " + rng.choice(["", "", "!", "!!"]) + run, cfgs=["C20"], tag="partitioned-streams"))
        cs += G.numeric_sweep("C20")
        cs += G.parameter_shape_sweep(tier, "C20")
        return cs
