from ..core import Case
from .common import PropBase


class Prop(PropBase):
    ID = "C19"
    LEAN_MODULES = ["Tpp.Props.C19"]
    REQUIRED = ["Tpp.Props.C19." + n for n in (
        "C19_index", "C19_range", "C19_components_roundtrip", "C19_injective", "C19_surjective",
        "C19_grey", "C19_wire_high", "C19_wire_grey")]
    RULE = ("exhaustive: all 216 component triples in 0..5 and all 24 shades (property domain); for the tie also all "
            "256 raw palette values through the component extractors, all 256 greyscale inputs, component triples "
            "up to 255 (sampled), and every high/greyscale colour written as foreground and as background through a "
            "real terminal (bytes compared with the model, SGR parameter checked by the oracle). Non-trivial: every "
            "case; distinct by line text.")
    ALL_EXHAUSTIVE = True
    ASSUMPTIONS = ["palette layout 16 + 36r + 6g + b / 232 + shade is the xterm 256-colour layout"]

    @classmethod
    def verdict_concerns(cls, v):
        # the wire cases are judged by the terminal oracle, which tags rendering failures as C01
        return "C19" in v or "C01@" in v

    @staticmethod
    def cases(tier, rng):
        cs = []
        for r in range(6):
            for g in range(6):
                for b in range(6):
                    cs.append(Case("H %d %d %d" % (r, g, b), sweep="high-216"))
        for s in range(24):
            cs.append(Case("Y %d" % s, sweep="grey-24"))
        for v in range(256):
            cs.append(Case("X %d" % v, sweep="components-256", oracle=False))
        for s in range(24, 256):
            cs.append(Case("Y %d" % s, sweep="grey-wrap", oracle=False))
        for _ in range(2000 if tier == "quick" else 50000):
            cs.append(Case("H %d %d %d" % (rng.randrange(256), rng.randrange(256), rng.randrange(256)), oracle=False, tag="random-wrap"))
        # the wire: each palette colour as foreground and as background of one element on a fresh terminal
        vals = list(range(16, 232)) if tier == "thorough" else list(range(16, 232, 1))
        for v in vals:
            cs.append(Case("T 0 ; we 5 97 0 0 1 %d 0 0 0 9 0 0 22 24 27 25 ; we 5 98 0 0 0 9 0 0 1 %d 0 0 22 24 27 25" % (v, v), sweep="wire-high", cfgs=["0 1 %d 0 5 2" % (v % 6)]))
        for v in range(232, 256):
            cs.append(Case("T 0 ; we 5 97 0 0 2 %d 0 0 0 9 0 0 22 24 27 25 ; we 5 98 0 0 0 9 0 0 2 %d 0 0 22 24 27 25" % (v, v), sweep="wire-grey", cfgs=["2 0 %d 0 5 2" % (v % 6)]))
        return cs
