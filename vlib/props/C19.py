from ..core import Case
from .common import PropBase


class Prop(PropBase):
    ID = "C19"
    LEAN_MODULES = ["Tpp.Props.C19"]
    REQUIRED = ["Tpp.Props.C19." + n for n in (
        "C19_index", "C19_range", "C19_components_roundtrip", "C19_injective", "C19_surjective",
        "C19_grey", "C19_streamed", "C19_wire_high", "C19_wire_grey")]
    RULE = ("exhaustive: all 216 component triples in 0..5 and all 24 shades (property domain); for the tie also all "
            "256 raw palette values through the component extractors, all 256 greyscale inputs, component triples "
            "up to 255 (sampled), and every high/greyscale colour written as foreground and as background through a "
            "real terminal (bytes compared with the model, SGR parameter checked by the oracle), also across all effect on/off transitions around an unchanged palette colour. Non-trivial: every "
            "case; distinct by line text.")
    ALL_EXHAUSTIVE = True
    ASSUMPTIONS = ["palette layout 16 + 36r + 6g + b / 232 + shade is the xterm 256-colour layout"]

    @classmethod
    def verdict_concerns(cls, v):
        # the wire cases are judged by the terminal oracle, which tags rendering failures as C01
        return "C19" in v or "C01@" in v or v.startswith("FAIL C10") or "streamed to a fresh terminal" in v

    @staticmethod
    def cases(tier, rng):
        cs = []
        for r in range(6):
            for g in range(6):
                for b in range(6):
                    cs.append(Case("H %d %d %d" % (r, g, b), sweep="high-216"))
        for s in range(24):
            cs.append(Case("Y %d" % s, sweep="grey-24"))
        for v in range(256):
            cs.append(Case("X %d" % v, sweep="components-256", oracle=False))
        for s in range(24, 256):
            cs.append(Case("Y %d" % s, sweep="grey-wrap", oracle=False))
        for _ in range(2000 if tier == "quick" else 50000):
            cs.append(Case("H %d %d %d" % (rng.randrange(256), rng.randrange(256), rng.randrange(256)), oracle=False, tag="random-wrap"))
        # the wire: each palette colour as foreground and as background of one element on a fresh terminal
        vals = list(range(16, 232)) if tier == "thorough" else list(range(16, 232, 1))
        for v in vals:
            cs.append(Case("T 0 ; we 5 97 0 0 1 %d 0 0 0 9 0 0 22 24 27 25 ; we 5 98 0 0 0 9 0 0 1 %d 0 0 22 24 27 25" % (v, v), sweep="wire-high", cfgs=["0 1 %d 0 5 2" % (v % 6)]))
        for v in range(232, 256):
            cs.append(Case("T 0 ; we 5 97 0 0 2 %d 0 0 0 9 0 0 22 24 27 25 ; we 5 98 0 0 0 9 0 0 2 %d 0 0 22 24 27 25" % (v, v), sweep="wire-grey", cfgs=["2 0 %d 0 5 2" % (v % 6)]))
        # the colour in every glyph context: a blank, a letter, a UTF-8 glyph, a DEC graphic - positive and negative, underlined
        # or not - after an element of another colour (so the index has to be transmitted)
        glyphs = ["5 32 0 0", "5 120 0 0", "18 226 148 129", "0 113 0 0"]
        k = 0
        for v in range(16, 256):
            kind = 1 if v < 232 else 2
            other = "%d %d 0 0" % ((1, 16 + (v - 16 + 7) % 216) if kind == 1 else (2, 232 + (v - 232 + 5) % 24))
            for g in glyphs:
                for pol in (27, 7):
                    for un in (24, 4):
                        if tier == "quick" and (k % 2) and g != "5 32 0 0":
                            k += 1
                            continue
                        k += 1
                        first = "5 97 0 0 %s %s 22 24 27 25" % (other, other)
                        fg = "%s %d %d 0 0 %s 22 %d %d 25" % (g, kind, v, other, un, pol)
                        bg = "%s %s %d %d 0 0 22 %d %d 25" % (g, other, kind, v, un, pol)
                        cs.append(Case("T 0 ; we %s ; we %s ; we %s ; we %s" % (first, fg, first, bg), sweep="wire-glyph-contexts",
                                       cfgs=["%d 1 %d 0 5 2" % (k % 3, k % 6)]))
        # ... and after every kind of predecessor on the same plane whose stored bytes resemble it: the true colours (0,0,N),
        # (N,0,0), (0,N,0), (N,N,N), the low colour N mod 8, the neighbouring indices, the OTHER palette kind holding the same raw byte
        for v in range(16, 256):
            kind = 1 if v < 232 else 2
            preds = ["3 0 0 %d" % v, "3 %d 0 0" % v, "3 0 %d 0" % v, "3 %d %d %d" % (v, v, v), "0 %d 0 0" % (v % 8), "%d %d 0 0" % (kind, v - 1 if v not in (16, 232) else v + 1),
                     "%d %d 0 0" % (3 - kind, v)]
            for j, pr in enumerate(preds):
                a = "5 97 0 0 %s 0 9 0 0 22 24 27 25" % pr
                b = "5 98 0 0 %d %d 0 0 0 9 0 0 22 24 27 25" % (kind, v)
                c = "5 99 0 0 0 9 0 0 %s 22 24 27 25" % pr
                d = "5 100 0 0 0 9 0 0 %d %d 0 0 22 24 27 25" % (kind, v)
                cs.append(Case("T 0 ; we %s ; we %s ; we %s ; we %s" % (a, b, c, d), sweep="wire-predecessors", cfgs=["%d 1 %d 0 5 2" % (j % 3, v % 6)]))
        # the colour on a terminal of declared size whose cursor is known, written INTO THE LAST COLUMN and then again (the
        # next row, the same colour): whatever the library does at the right margin, the index is still in effect or re-sent
        for v in range(16, 256):
            kind = 1 if v < 232 else 2
            for plane in (0, 1):
                col = "%d %d 0 0" % (kind, v)
                at = ("%s 0 9 0 0" % col) if plane == 0 else ("0 9 0 0 %s" % col)
                e1 = "5 97 0 0 %s 22 24 27 25" % at
                e2 = "5 98 0 0 %s 22 24 27 25" % at
                w = 3 + v % 3
                line = "T 0 ; sz %d 3 ; mv %d 0 ; we %s ; mv 0 1 ; we %s ; mv %d 1 ; we %s ; mv %d 2 ; we %s ; we %s" % (w, w - 1, e1, e2, w - 2, e1, w - 1, e2, e1)
                cs.append(Case(line, sweep="wire-last-column", cfgs=["%d 1 %d 0 %d 3" % (v % 3, v % 6, w)]))
        # a string built by one of class string's constructors, ONE element of it given a palette colour in place (operator[],
        # an iterator), then streamed to a terminal: the wire is judged as the terminal script `ws <elements>` it is
        for v in range(16, 256):
            kind = 1 if v < 232 else 2
            for plane in (0, 1):
                col = "%d %d 0 0" % (kind, v)
                at = ("%s 0 9 0 0" % col) if plane == 0 else ("0 9 0 0 %s" % col)
                el = "5 120 0 0 %s 22 24 27 25" % at
                ctor = ["ca 0 616263 0 2 0 0 0 4 0 0 22 24 27 25", "cs 0 616263", "cn 0 3 5 97 0 0 0 9 0 0 0 9 0 0 22 24 27 25", "cz 0 616263"][(v + plane) % 4]
                how = ["ix 0 1", "bi 0 1", "ri 0 1"][v % 3]
                cs.append(Case("P %s ; %s %s ; tw 0 ; ob 0" % (ctor, how, el), sweep="string-recoloured-in-place"))
        # the colour in effect, a visit to the alternate screen buffer with another attribute written there, back, the colour
        # again: the rendition belongs to the terminal, not to the buffer
        for v in range(16, 256):
            kind = 1 if v < 232 else 2
            for plane in (0, 1):
                col = "%d %d 0 0" % (kind, v)
                at = ("%s 0 9 0 0" % col) if plane == 0 else ("0 9 0 0 %s" % col)
                e1 = "5 97 0 0 %s 22 24 27 25" % at
                other = "5 98 0 0 0 %d 0 0 0 %d 0 0 1 24 27 25" % (1 + v % 7, 1 + (v + 3) % 7)
                cs.append(Case("T 0 ; we %s ; ab ; we %s ; nb ; we %s ; ab ; nb ; we %s" % (e1, other, e1, e1), sweep="wire-around-the-alternate-buffer",
                               cfgs=["%d 1 %d 0 5 2" % (v % 3, v % 6)]))
        # palette colours must survive attribute transitions: same colour, effects switching on/off around it
        effs = [(i, u, p, b) for i in (1, 2, 22) for u in (4, 24) for p in (7, 27) for b in (5, 25)]
        vals = [16, 17, 52, 196, 231, 232, 255] if tier == "quick" else list(range(16, 256, 5))
        k = 0
        for v in vals:
            kind = 1 if v < 232 else 2
            for e1 in effs:
                for e2 in effs:
                    if tier == "quick" and (k % 3) and not (e1 == e2):
                        k += 1
                        continue
                    k += 1
                    a = "5 97 0 0 %d %d 0 0 0 9 0 0 %d %d %d %d" % ((kind, v) + e1)
                    b = "5 98 0 0 %d %d 0 0 0 9 0 0 %d %d %d %d" % ((kind, v) + e2)
                    c = "5 99 0 0 0 9 0 0 %d %d 0 0 %d %d %d %d" % ((kind, v) + e1)
                    d = "5 100 0 0 0 9 0 0 %d %d 0 0 %d %d %d %d" % ((kind, v) + e2)
                    cs.append(Case("T 0 ; we %s ; we %s ; we %s ; we %s" % (a, b, c, d), sweep="wire-effect-transitions",
                                   cfgs=["%d 1 %d 0 5 2" % (k % 3, k % 6)]))
        # palette colours as the attribute markup spells them: every triple and every shade on either plane, alone and with a
        # code for the OTHER plane before it in the same element (judged by the markup oracle; its verdicts on these lines
        # concern C19)
        from . import markup_gen as MG
        for r_ in range(6):
            for g_ in range(6):
                for b_ in range(6):
                    for fg in (True, False):
                        cs.append(MG.spelling_case("E", [[MG.d_high(fg, r_, g_, b_), MG.g_lit(0x61)], [MG.g_lit(0x62)]], sweep="markup-palette"))
                    if (r_ + g_ + b_) % 3 == 0:
                        cs.append(MG.spelling_case("E", [[MG.d_high(False, b_, r_, g_), MG.d_high(True, r_, g_, b_), MG.g_lit(0x61)]], sweep="markup-palette"))
                        cs.append(MG.spelling_case("E", [[MG.d_grey(True, (r_ * 4 + g_) % 24), MG.d_high(False, r_, g_, b_), MG.g_lit(0x61)]], sweep="markup-palette"))
        for n_ in range(24):
            for fg in (True, False):
                cs.append(MG.spelling_case("E", [[MG.d_grey(fg, n_), MG.g_lit(0x61)], [MG.g_lit(0x62)]], sweep="markup-palette"))
                cs.append(MG.spelling_case("e", [[MG.d_grey(fg, n_), MG.g_lit(0x61)]], sweep="markup-palette"))
            cs.append(MG.spelling_case("E", [[MG.d_grey(False, 23 - n_), MG.d_grey(True, n_), MG.g_lit(0x61)]], sweep="markup-palette"))
        # the streamed form (operator<<) of every palette colour, low colour and a few true colours, in 12 stream states
        states = [0, 1, 2, 4, 8, 16, 17, 32, 33, 65, 128 + 4, 1 + 4 + 16 + 64 + 128]
        for st in states:
            for v in range(16, 232):
                cs.append(Case("Q 1 %d 0 0 %d" % (v, st), sweep="streamed-form"))
            for v in range(232, 256):
                cs.append(Case("Q 2 %d 0 0 %d" % (v, st), sweep="streamed-form"))
            for v in list(range(0, 12)) + [255]:
                cs.append(Case("Q 0 %d 0 0 %d" % (v, st), sweep="streamed-form", oracle=False))
            for (r_, g_, b_) in ((0, 0, 0), (255, 255, 255), (10, 171, 205), (100, 200, 9)):
                cs.append(Case("Q 3 %d %d %d %d" % (r_, g_, b_, st), sweep="streamed-form", oracle=False))
        return cs
