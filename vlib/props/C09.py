from .. import termgen as tg
from ..core import Case
from .common import PropBase

ERASE_WEIGHTS = {"we": 25, "ws": 10, "mv": 20, "sv": 2, "rs": 2, "er": 30, "hc": 1, "sc": 1, "me": 1, "md": 1,
                 "ti": 1, "nb": 1, "ab": 1, "sz": 3, "re": 2, "da": 1, "dup": 4}
RED_BLINK = "5 82 0 0 0 1 0 0 0 4 0 0 1 4 7 5"
PLAIN = "5 112 0 0 " + " ".join(map(str, tg.DEFAULT_ATTR))
UTF = "18 226 130 172 1 196 0 0 2 240 0 0 22 24 27 25"


class Prop(PropBase):
    ID = "C09"
    LEAN_MODULES = ["Tpp.Props.C09"]
    REQUIRED = ["Tpp.Props.C09." + n for n in ("C09_erase", "C09_erase_after", "C09_tracking", "C09_bytes", "erased_is_blank",
                                                "C09_erase_any_size", "C09_erase_after_any_size")] + \
               ["Tpp.feed_eraseOp", "Tpp.agree_erase"]
    RULE = ("exhaustive short histories: EVERY sequence of up to 3 (thorough: 4) operations over an 18-operation alphabet on a 3x2 terminal (termgen.short_histories); exhaustive: each of the six erase manipulators after each of {nothing at all, default text, coloured blinking "
            "text, UTF-8 coloured text, another erase, a mode switch} at every cursor of a 4x3 grid, followed by coloured "
            "and default text; every case judged on Ref.VT in all three erase behaviours (plain, background-colour-erase, "
            "current-rendition) x three wrap modes x three initial renditions with non-blank initial cell contents; random "
            "histories with a high erase rate. Non-trivial: contains an erase; distinct by line text.")
    ASSUMPTIONS = ["ED/EL do not move the cursor or the pending-wrap flag (VT semantics; DESIGN §4.3)",
                   "terminal = Tpp.Ref.VT"]

    @staticmethod
    def cases(tier, rng):
        cs = []
        cfgs = ["%d %d %d %d 4 3" % (wv, e, r, z) for wv in range(3) for e in range(3) for r in (1, 2, 3) for z in (0,)]
        pre = {"nothing": "", "default-text": " ; we " + PLAIN, "coloured": " ; we " + RED_BLINK, "utf8": " ; we " + UTF,
               "erase": " ; er 3", "mode": " ; hc"}
        k = 0
        for name, p in pre.items():
            for kind in range(6):
                for x in range(4):
                    for y in range(3):
                        line = "T 0 ; sz 4 3%s ; mv %d %d ; er %d ; we %s ; we %s" % (p, x, y, kind, RED_BLINK, PLAIN)
                        sel = cfgs if tier == "thorough" else [cfgs[(k * 5 + j * 7) % len(cfgs)] for j in range(4)]
                        cs.append(Case(line, sweep="erase-%s" % name, cfgs=sel))
                        k += 1
                # an erase as the very first operation on an unknown terminal (no size declared)
                cs.append(Case("T 0 ; er %d ; we %s" % (kind, RED_BLINK), sweep="erase-first-op", cfgs=cfgs[:9]))
        # the SAME erase twice with no glyph in between while the library does not know where the cursor is (fresh terminal,
        # after set_size), the real cursor having moved in between (restore, a move): the second erase is not redundant
        k = 0
        for kind in range(6):
            for head in ("", " ; sz 4 3", " ; sz 4 3 ; mv 1 1 ; sz 4 3"):
                for mid in ("rs", "rs ; rs", "sv ; rs", "hc ; rs", "mv 0 0", "mv 2 1", "er %d" % ((kind + 1) % 6), "in 6 27 91 50 59 50 82"):
                    for text in ("ws 3 %s %s %s" % (PLAIN, PLAIN, PLAIN), "we " + RED_BLINK, "ws 2 %s %s ; we %s" % (UTF, PLAIN, PLAIN)):
                        line = "T 0%s ; sv ; %s ; er %d ; %s ; er %d ; we %s" % (head, text, kind, mid, kind, PLAIN)
                        cs.append(Case(line, sweep="erase-twice-cursor-unknown", cfgs=[cfgs[(k * 5) % len(cfgs)], cfgs[(k * 5 + 11) % len(cfgs)]]))
                        k += 1
        n = 1500 if tier == "quick" else 30000
        for i in range(n):
            nops = rng.choice([2, 3, 5, 8, 13, 21, 34]) if tier == "quick" else rng.choice([3, 8, 21, 60, 150])
            line = tg.history(rng, nops, sized=True, ops_weights=ERASE_WEIGHTS)
            cs.append(Case(line, tag="history", nontrivial=" er " in line, cfgs=tg.configs(rng, 3)))
        # correspondence only: glyphs with arbitrary (non-graphic) bytes - LF, NUL, ESC, C1 controls - and unconstructible colours
        for i in range(400 if tier == "quick" else 6000):
            cs.append(Case(tg.history(rng, rng.choice([2, 4, 8, 20]), graphic=False), tag="history-any-bytes", oracle=False))
        # the erase inside screen::draw (a draw at a new canvas size): what is painted after it must look as requested
        from .. import screengen as sg
        from .C03 import CFGS as SCFGS
        for _ in range(400 if tier == "quick" else 8000):
            line = sg.frames(rng, rng.choice([2, 3, 4, 6]))
            cs.append(Case(line, tag="frames", nontrivial=" dr" in line, cfgs=[rng.choice(SCFGS) for _ in range(2)]))
        shc = ["%d %d %d %d 7 4" % (wv, e, r, z) for wv in range(3) for e in range(3) for r in range(6) for z in range(4)]
        for line, cf in tg.short_histories(3 if tier == "quick" else 4, shc):
            cs.append(Case(line, sweep="short-histories", cfgs=cf))
        for line, cf in tg.short_histories_b(2 if tier == "quick" else 3, shc):
            cs.append(Case(line, sweep="short-histories-b", cfgs=cf))
        return cs
