from .. import screengen as sg
from .. import termgen as tg
from ..core import Case
from .common import PropBase

CFGS = ["%d %d %d %d 3 2" % (wv, e, r, z) for wv in range(3) for e in range(3) for r in range(4) for z in range(4)]
CFGS_NOIMM = [c for c in CFGS if not c.startswith("1 ")]


class Prop(PropBase):
    ID = "C03"
    LEAN_MODULES = ["Tpp.Props.C03"]
    REQUIRED = ["Tpp.Props.C03." + n for n in ("C03_draw_converges", "C03_frames_partial", "C03_first_draw", "C03_immediate_scrolls",
                                                "C03_immediate_counterexample")] + ["Tpp.draw_frame", "Tpp.draw_loop", "Tpp.place_one"]
    RULE = ("random sequences of frames on canvases 1x1..8x5 with 0-4 (or all) cells edited between draws, attribute-only "
            "edits, reverted cells, repeated draws, size changes incl. same-area reshapes (terminal resized and set_size "
            "declared with the canvas), first draw on an uninitialised terminal; exhaustive: every single-cell edit of a "
            "4x3 canvas. The oracle feeds the real bytes to Ref.VT (3 wrap x 3 erase behaviours x initial renditions and "
            "contents x 4 resize behaviours) and compares every cell of the grid with the canvas after EVERY draw. "
            "Non-trivial: at least two draws; distinct by line text.")
    ASSUMPTIONS = ["frame protocol: the terminal has the canvas's size and set_size declares it whenever the canvas size changes",
                   "graphic glyphs, constructible colours, one cell per glyph", "terminal = Tpp.Ref.VT"]

    @classmethod
    def signature(cls, case, verdict):
        if "[immediate-wrap bottom-right]" in verdict:
            return "C03 immediate-wrap bottom-right"
        return cls.ID + ":" + case.line[:300]

    @staticmethod
    def cases(tier, rng):
        cs = []
        for line, cfgs in sg.single_cell_edits(4, 3, CFGS):
            cs.append(Case(line, sweep="single-cell-edits-4x3", cfgs=cfgs))
        n = 1200 if tier == "quick" else 25000
        for i in range(n):
            nf = rng.choice([1, 2, 3, 4, 6]) if tier == "quick" else rng.choice([2, 4, 8, 16, 40])
            line = sg.frames(rng, nf)
            cs.append(Case(line, tag="frames", nontrivial=line.count(" dr") >= 2, cfgs=[rng.choice(CFGS) for _ in range(3)]))
        # the README-style use without a size declaration: correspondence only
        for i in range(200 if tier == "quick" else 2000):
            cs.append(Case(sg.frames(rng, rng.choice([1, 2, 3]), declare=False), tag="frames-undeclared", oracle=False))
            cs.append(Case(sg.frames(rng, rng.choice([1, 2, 3]), mismatch=True), tag="frames-size-mismatch", oracle=False))
        for line in sg.padded_rows(rng, 300 if tier == "quick" else 6000):
            cs.append(Case(line, tag="padded-rows", cfgs=[rng.choice(CFGS) for _ in range(2)]))
        for line in sg.reshapes(rng, 300 if tier == "quick" else 6000):
            cs.append(Case(line, tag="reshapes-same-sequence", cfgs=[rng.choice(CFGS)]))
        for line in sg.neighbour_after_move(rng, 300 if tier == "quick" else 6000):
            cs.append(Case(line, tag="neighbour-after-move", cfgs=[rng.choice(CFGS)]))
        for line in sg.kept_references(rng, 300 if tier == "quick" else 6000):
            cs.append(Case(line, tag="kept-references", cfgs=[rng.choice(CFGS)]))
        for line in sg.large_canvas_replaced(rng, 12 if tier == "quick" else 120):
            cs.append(Case(line, tag="large-canvas-replaced", cfgs=[rng.choice(CFGS)]))
        for line in sg.wide_runs(rng, tier):
            cs.append(Case(line, sweep="wide-runs", cfgs=[rng.choice(CFGS)]))
        for line, cf in sg.large_canvas_edits(rng, CFGS, tier):
            cs.append(Case(line, sweep="large-canvas-edits", cfgs=cf))
        for line, cf in sg.glyph_byte_edits(CFGS_NOIMM if "CFGS_NOIMM" in globals() else CFGS):
            cs.append(Case(line, sweep="glyph-byte-edits", cfgs=cf))
        return cs
