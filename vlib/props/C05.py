from ..core import Case
from . import input_gen as G


class Prop(G.InputPropBase):
    ID = "C05"
    LEAN_MODULES = ["Tpp.Props.C05", "Tpp.Lemmas.TablesTie"]
    REQUIRED = ["Tpp.Props.C05." + n for n in (
        "C05_items", "C05_items_after_enter", "C05_item", "C05_history_independent", "C05_modifier_rule",
        "C05_key_tables", "C05_mouse_table")] + \
               ["Tpp." + n for n in ("modifierTable_is_source", "cursorTable_is_source", "ss3Table_is_source", "keypadTable_is_source", "mouseTable_is_source")]
    RULE = ("exhaustive: every (canonical prefix reaching each of the 8 control states with varied scratch, next byte "
            "0..255, distinguishing suffix) transition of detail::parser through a real terminal; the key space "
            "(initiator [ / O / x, final byte, first parameter incl. every table entry, neighbours and the atoi boundary "
            "values 2^31-1, 2^31, 2^32+1, 2^32+11, 20 nines, second parameter incl. all 16 modifier codes, meta prefix, "
            "7-/8-bit introducer; quick: all finals 0x40-0x7E plus 20 others, full parameter product for the 14 key "
            "finals; thorough: all 256 finals, full product); mouse byte triples on a grid plus every byte value in each "
            "position; thorough adds every two-byte continuation after every prefix.  Random: item sequences of length "
            "1-40 drawn from Ref.Item (all item kinds, edge-biased parameters), delivered whole, byte-wise and in random "
            "chunks, plus a malformed stream.  A case is non-trivial when it carries at least one byte; distinct by line "
            "text.  Cases that are well-formed Adjacent item lists carry the item list and are judged by the oracle "
            "(real tokens = items.map expected); the rest tie the model to the code.")
    ASSUMPTIONS = [
        "the input protocol is the ECMA-48 / xterm ctlseqs / NVT subset transcribed in Tpp.Ref.Input",
        "a repeat count is below 2^31 (it is reported as an int; larger values are clamped by argument_to_integer since fix 1071cf8); other parameters are unbounded",
        "Enter is reported with sequence '\\n' for every line-ending form (pinned by the test-suite)",
    ]

    @staticmethod
    def cases(tier, rng):
        cs = []
        cs += G.transition_sweep()
        cs += G.key_space(tier)
        cs += G.mouse_sweep(tier)
        # history independence over a grammar wider than the item language: the whole stream vs each segment alone
        for i in range(3000 if tier == "quick" else 60000):
            line, cfgs = G.hist_case(rng, rng.choice([2, 2, 3, 4, 6]), "C05")
            cs.append(Case(line, cfgs=cfgs, tag="history-independence"))
        if tier == "thorough":
            cs += G.two_byte_sweep()
        # every single item kind with every option, from a dirty decoder (prefix = a sequence that leaves scratch behind)
        singles = []
        for intro in G.INTROS:
            for k in range(8):
                for rep in (None, 0, 1, 7, 2**31 - 1):
                    for mods in [None] + list(range(16)):
                        singles.append(("k", intro, k, rep, mods))
            for k in range(12):
                singles.append(("s", intro, k))
            for k in range(18):
                for mods in [None] + list(range(16)):
                    singles.append(("p", intro, k, mods))
        for b in range(128):
            if b not in (0x1B, 0x0D, 0x0A):
                singles.append(("c", b))
        for f in G.ENTER:
            singles.append(("e", f))
        dirty_items = [("q", "m", "q", [12, 34, None], 0x7A), ("m", "7", 5, 63, 0)]
        for it in singles:
            items = dirty_items + [it, ("c", 0x78)]
            if not all(G.ok_pair(a, b) for a, b in zip(items, items[1:])):
                items = dirty_items + [it]
            data = b"".join(G.item_bytes(i) for i in items)
            cs.append(Case("I " + G.hx(data), sweep="single-items-dirty", cfgs=[G.c05_cfg(items)], tag="single-item"))
        n_random = 2000 if tier == "quick" else 50000
        for i in range(n_random):
            items = G.random_items(rng, rng.randrange(1, 41))
            data = b"".join(G.item_bytes(it) for it in items)
            how = ("whole", "bytes", "random")[i % 3]
            run = G.chunkings(rng, data, how)
            if i % 7 == 3:
                run = G.with_setup(rng, run)
                how += "+setup"
            elif how != "whole" and i % 2:
                run = G.with_ops(rng, run, 0.15 if how == "bytes" else 0.5)
                how += "+output-ops"
            if i % 5 == 0 and how != "whole":
                # the same items on two connections multiplexed on one thread, cut differently (kind `J`)
                cs.append(Case("J %s / %s" % (run, G.chunkings(rng, data, "random")), cfgs=[G.c05_cfg(items)], tag="random-items:multiplexed"))
                continue
            cs.append(Case("I " + run, cfgs=[G.c05_cfg(items)], tag="random-items:" + how))
        for i in range(500 if tier == "quick" else 20000):
            data = G.malformed(rng)
            cs.append(Case("I " + G.chunkings(rng, data, ("whole", "random")[i % 2]), oracle=False, tag="malformed"))
        cs += G.repetition_cases(rng, tier, G.c05_cfg)
        cs += G.numeric_sweep("C05")
        cs += G.parameter_shape_sweep(tier, "C05")
        return cs
