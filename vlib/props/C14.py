import os
import subprocess

from .. import termgen as tg
from ..core import Case
from .common import PropBase


def unhex(h):
    return b"" if h == "-" else bytes.fromhex(h)


class PtyResult:
    def __init__(self, rc, out, err):
        self.returncode, self.stdout, self.stderr = rc, out, err


def run_on_pty(child, script, env):
    """run the child with its standard output on the slave side of a pseudo terminal in raw mode (no output processing, so
    the device passes every byte through); returns what arrives on the master side"""
    import pty
    import tempfile
    import tty
    master, slave = pty.openpty()
    tty.setraw(slave)
    with tempfile.TemporaryFile() as fin:
        fin.write(script)
        fin.seek(0)
        p = subprocess.Popen([child], stdin=fin, stdout=slave, stderr=subprocess.PIPE, env=env)
        os.close(slave)
        got = b""
        while True:
            try:
                chunk = os.read(master, 65536)
            except OSError:
                break               # EIO: the slave side has been closed by the last writer
            if not chunk:
                break
            got += chunk
        err = p.stderr.read()
        p.wait()
        os.close(master)
    return PtyResult(p.returncode, got, err)


def run_redirected(child, script, env):
    """the child gets a second pipe; half-way through its script it dup2()s that pipe onto its standard output.  Returns what
    arrived on the first pipe followed by what arrived on the second (the order in which the program wrote)"""
    import threading
    r2, w2 = os.pipe()
    p = subprocess.Popen([child], stdin=subprocess.PIPE, stdout=subprocess.PIPE, stderr=subprocess.PIPE,
                         env=dict(env, VERIF_REDIRECT=str(w2)), pass_fds=(w2,))
    os.close(w2)
    second = []

    def drain():
        with os.fdopen(r2, "rb") as fh:
            second.append(fh.read())
    th = threading.Thread(target=drain)
    th.start()
    out, err = p.communicate(script, timeout=120)
    th.join()
    res = PtyResult(p.returncode, out + b"".join(second), err)
    res.first = out
    return res


class Prop(PropBase):
    ID = "C14"
    custom_replays = True
    LEVEL = "proof"
    LEAN_MODULES = ["Tpp.Props.C14"]
    REQUIRED = ["Tpp.Props.C14." + n for n in ("C14_stdout", "C14_channel_parametric", "C14_equals_run")]
    RULE = ("child processes: each script (terminal operations incl. raw terminal.write of arbitrary bytes with NUL and "
            ">=0x80, write sizes 0..64 KiB, many small writes) is executed in a child whose terminal is bound to the real "
            "terminalpp::stdout_channel; the parent reads the child's stdout pipe to EOF and compares it byte for byte "
            "with (a) the bytes the capturing test channel received for the same operations in the executor and (b) the "
            "model's output; large writes (70 KB - 1 MB) are additionally made while the pipe is full and SIGUSR1 is delivered "
            "repeatedly to the blocked writer (short write(2) counts) with the parent reading slowly; the first 25 scripts run a second "
            "time in a program that leaves a pending field width, fill character and number base on std::cout between operations, and a third "
            "time with errno holding EAGAIN / EINTR; close(), is_alive() and async_read() are called between writes. Non-trivial: the script writes at least one byte; distinct by script text.")
    ASSUMPTIONS = ["OS pipe and iostream flushing at process exit are observed, not proved (level: partial for the runtime)"]

    @staticmethod
    def cases(tier, rng):
        # the same scripts also go through executor/driver for the model tie (`wr` = terminal.write is an op of both)
        return [Case(l, tag="script", oracle=False) for l in Prop.scripts(tier, rng)]

    @staticmethod
    def scripts(tier, rng):
        r = __import__("random").Random(rng.random())
        out = []
        e = tg.fmt_el([5, 72, 0, 0] + tg.DEFAULT_ATTR)
        out.append("T 0 ; we " + e)
        out.append("T 0 ; ws 3 %s %s %s ; mv 2 3 ; er 0" % (e, e, e))
        out.append("T 12 ; ti 3 65 66 67 ; hc ; sc")
        for n in (0, 1, 2, 255, 256, 4095, 4096, 4097, 65536):
            data = [r.randrange(256) for _ in range(n)]
            out.append("T 0 ; wr %d %s" % (n, " ".join(map(str, data))))
        out.append("T 0 ; wr 4 0 255 0 128 ; wr 0 ; wr 3 27 91 109 ; wr 1 10")
        # the rest of the channel interface in between: close(), is_alive(), async_read() - output goes on afterwards
        out.append("T 0 ; we %s ; cl ; we %s ; wr 3 65 66 67" % (e, e))
        out.append("T 0 ; ar ; we %s ; al ; cl ; al ; wr 2 104 105 ; cl ; we %s" % (e, e))
        out.append("T 12 ; cl ; ti 2 104 105 ; we %s" % e)
        # orderings of small and large writes in ONE process (buffer thresholds at 512 / 4096 / 8192 / 65536)
        def blob(n):
            return "wr %d %s" % (n, " ".join(str(r.randrange(256)) for _ in range(n)))
        for big in (511, 512, 4095, 4096, 8192, 65536):
            out.append("T 0 ; wr 5 104 101 97 100 58 ; %s ; wr 3 116 108 10" % blob(big))
            out.append("T 0 ; %s ; wr 2 65 66 ; %s ; wr 1 0 ; %s" % (blob(big), blob(big), blob(7)))
        out.append("T 0 ; we %s ; mv 3 4 ; %s ; er 0 ; %s ; we %s" % (e, blob(5000), blob(4096), e))
        # running totals that land EXACTLY on 4096 / 8192 / 65536 / 131072 bytes at the end of a write (a staging buffer's fill
        # counter at its limit), then more output
        for piece, count in ((4096, 16), (32768, 2), (65535, 1), (8192, 8), (1024, 64), (65536, 2), (256, 256)):
            ops = [blob(piece) for _ in range(count)]
            if piece == 65535:
                ops.append("wr 1 33")
            out.append("T 0 ; " + " ; ".join(ops + ["wr 3 101 110 100"]))
        out.append("T 0 ; " + " ; ".join("wr 1 %d" % b for b in range(256)))
        n = 40 if tier == "quick" else 400
        for _ in range(n):
            line = tg.history(r, r.choice([1, 3, 8, 20, 60]), graphic=r.random() < 0.5)
            if r.random() < 0.5:
                k = r.choice([1, 7, 300])
                line += " ; wr %d %s" % (k, " ".join(str(r.choice([0, 10, 13, 27, 128, 255, r.randrange(256)])) for _ in range(k)))
            out.append(line)
        return out

    @staticmethod
    def custom_check(tier, rng, ctx):
        build = ctx["build"]
        child = build.build_harness("stdout_child")
        replaying = ctx.get("replay")
        scripts = Prop.scripts(tier, rng) if not replaying else ["T" + l[1:] if l[:1] == "T" else l for l in replaying["lines"]]

        def flat(ans):
            return b"".join(unhex(seg.split(" / ")[0].strip()) for seg in ans.split(" ; ")) if ans != "-" else b""
        expected, model, expected_ans = {}, {}, {}

        def flat_ops(ans, k):
            return b"".join(unhex(seg.split(" / ")[0].strip()) for seg in ans.split(" ; ")[:k]) if ans != "-" else b""
        if ctx["exe"]:
            rc, ans, err = build.run_lines(ctx["exe"], scripts)
            for s_, a_ in zip(scripts, ans):
                expected[s_] = flat(a_)
                expected_ans[s_] = a_
        if ctx["driver"]:
            rc, ans, err = build.run_lines(ctx["driver"], scripts)
            for s_, a_ in zip(scripts, ans):
                model[s_] = flat(a_)
        failures, samples, nbytes, nontrivial = [], [], 0, set()
        env = dict(os.environ, ASAN_OPTIONS="detect_leaks=0")
        runs = [(s_, env) for s_ in scripts]
        # the same scripts again in a program that leaves a pending width, fill character and number base on std::cout
        # between terminal operations (the channel writes bytes; formatting state must not touch them)
        env_fmt = dict(env, VERIF_COUT_STATE="1")
        runs += [(s_, env_fmt) for s_ in scripts[:25]]
        # … and in a program whose errno holds EAGAIN / EINTR (left over from something unrelated) when the terminal writes
        env_errno = dict(env, VERIF_ERRNO="1")
        runs += [(s_, env_errno) for s_ in scripts[:25]]
        # … in a program that called std::ios::sync_with_stdio(false) before it created the channel
        env_nosync = dict(env, VERIF_NOSYNC="1")
        runs += [(s_, env_nosync) for s_ in scripts[:30]]
        # … and with standard output being a terminal device (a pseudo terminal in raw mode, read by the parent from the
        # master side) instead of a pipe
        env_pty = dict(env, VERIF_PTY="1")
        runs += [(s_, env_pty) for s_ in scripts[:30] if len(s_) < 50000]
        # … with the last operation performed from an atexit handler registered before the first write
        env_atexit = dict(env, VERIF_ATEXIT="1")
        runs += [(s_, env_atexit) for s_ in scripts[:30] if s_.count(";") >= 2]
        # … and with standard output redirected (dup2) half-way through the script: first half on the old pipe, rest on the new
        env_redirect = dict(env, VERIF_REDIRECT="?")
        runs += [(s_, env_redirect) for s_ in scripts[:30] if s_.count(";") >= 2 and len(s_) < 50000]
        # … and with four threads, each with a channel and a terminal of its own, running the script at the same time: the
        # order of their writes is the scheduler's, the multiset of bytes is not
        env_threads = dict(env, VERIF_THREADS="4")
        for s_ in [x for x in scripts[:40] if 200 < len(x) < 300000][:8]:
            exp = expected.get(s_)
            if not exp:
                continue
            for rep in range(3 if tier == "quick" else 10):
                p = subprocess.run([child], input=(s_[1:].strip() + "\n").encode(), stdout=subprocess.PIPE, stderr=subprocess.PIPE, env=env_threads, timeout=120)
                if p.returncode != 0 or len(p.stdout) != 4 * len(exp) or sorted(p.stdout) != sorted(exp * 4):
                    failures.append({"what": "four threads with their own stdout channels: bytes lost, duplicated or altered on standard output",
                                     "signature": "C14 stdout-differs", "lines": [s_], "stdout_len": len(p.stdout), "expected_len": 4 * len(exp),
                                     "returncode": p.returncode, "stderr": p.stderr.decode("utf-8", "replace")[-300:]})
                    break
        for s_, env_ in runs:
            body = s_[1:].strip()  # drop the kind letter
            if env_ is env_redirect:
                p = run_redirected(child, (body + "\n").encode(), env)
                # what belongs on the OLD standard output: the operations before the redirect (the child redirects before
                # the operation with index (n_ops + 1) // 2, counting from 1)
                n_parts = len(body.split(";"))
                first_ops = (n_parts + 1) // 2 - 1
                exp_a = flat_ops(expected_ans.get(s_, "-"), first_ops)
                if p.first != exp_a and expected.get(s_) is not None:
                    failures.append({"what": "after dup2 onto standard output the channel kept writing to the old destination (or wrote early)",
                                     "signature": "C14 stdout-differs", "lines": [s_], "old_pipe_len": len(p.first), "expected_old_pipe_len": len(exp_a),
                                     "returncode": p.returncode})
            elif env_ is env_pty:
                p = run_on_pty(child, (body + "\n").encode(), env_)
            else:
                p = subprocess.run([child], input=(body + "\n").encode(), stdout=subprocess.PIPE, stderr=subprocess.PIPE, env=env_, timeout=120)
            got = p.stdout
            exp = expected.get(s_)
            if exp is None:
                continue
            nbytes += len(exp)
            if exp:
                nontrivial.add(s_)
            ok = (p.returncode == 0 and got == exp and (s_ not in model or model[s_] == exp))
            if len(samples) < 4:
                samples.append({"script": s_[:200], "stdout_bytes": len(got), "expected_bytes": len(exp)})
            if not ok:
                first = next((i for i, (x, y) in enumerate(zip(got, exp)) if x != y), min(len(got), len(exp)))
                how = {id(env_fmt): " (std::cout left with pending width/fill/base)", id(env_errno): " (errno left at EAGAIN/EINTR)",
                       id(env_nosync): " (after std::ios::sync_with_stdio(false))", id(env_pty): " (standard output is a raw-mode pseudo terminal)",
                       id(env_atexit): " (last operation from an atexit handler)", id(env_redirect): " (standard output redirected with dup2 half-way)"}.get(id(env_), "")
                failures.append({"what": "child stdout differs from the capturing channel" + how,
                                 "signature": "C14 stdout-differs",
                                 "lines": [s_], "returncode": p.returncode, "first_difference_at": first,
                                 "stdout_hex": got[max(0, first - 8):first + 24].hex(), "expected_hex": exp[max(0, first - 8):first + 24].hex(),
                                 "stdout_len": len(got), "expected_len": len(exp), "model_agrees_with_capture": model.get(s_) == exp,
                                 "stderr": p.stderr.decode("utf-8", "replace")[-500:]})
        # ---- writes interrupted by signals: the pipe is allowed to fill, SIGUSR1 arrives while the child is blocked in
        # the middle of a large write (which then returns a short count), the parent reads slowly
        import signal
        import time as _t
        rr = __import__("random").Random(rng.random())
        storm = []
        for n in (() if replaying else (200000, 70000) if tier == "quick" else (200000, 70000, 1000000, 65537, 131072)):
            data = [rr.randrange(256) for _ in range(n)]
            storm.append("T 0 ; wr 4 104 101 97 100 ; wr %d %s ; wr 4 116 97 105 108" % (n, " ".join(map(str, data))))
        interrupted = 0
        if ctx["exe"]:
            rc, ans, err = build.run_lines(ctx["exe"], storm)
            env2 = dict(env, VERIF_SIGNALS="1")
            for s_, a_ in zip(storm, ans):
                exp = flat(a_)
                p = subprocess.Popen([child], stdin=subprocess.PIPE, stdout=subprocess.PIPE, stderr=subprocess.PIPE, env=env2)
                ready = p.stderr.readline()        # the child reports that its SIGUSR1 handler is installed
                p.stdin.write((s_[1:].strip() + "\n").encode())
                p.stdin.close()
                _t.sleep(0.4)                      # the child parses the script and blocks with the pipe full
                got = b""
                sent = 0
                while True:
                    if p.poll() is None and sent < 400:
                        try:
                            os.kill(p.pid, signal.SIGUSR1)
                            sent += 1
                        except ProcessLookupError:
                            pass
                    chunk = p.stdout.read1(3000) if hasattr(p.stdout, "read1") else p.stdout.read(3000)
                    if not chunk:
                        break
                    got += chunk
                p.wait(timeout=120)
                interrupted += sent
                nbytes += len(exp)
                nontrivial.add(s_)
                if got != exp or p.returncode != 0:
                    first = next((i for i, (x, y) in enumerate(zip(got, exp)) if x != y), min(len(got), len(exp)))
                    failures.append({"what": "child stdout differs from the capturing channel when writes are interrupted by signals",
                                     "signature": "C14 stdout-differs-under-signals", "lines": [s_[:300] + " …"], "returncode": p.returncode,
                                     "first_difference_at": first, "stdout_len": len(got), "expected_len": len(exp), "signals_sent": sent,
                                     "stderr": p.stderr.read().decode("utf-8", "replace")[-500:]})
        return {"children_run": len(scripts) + len(storm), "signals_sent_to_blocked_writers": interrupted, "bytes_expected": nbytes, "distinct_nontrivial_scripts": len(nontrivial),
                "samples": samples, "failures": failures}
