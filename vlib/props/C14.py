import os
import subprocess

from .. import termgen as tg
from ..core import Case
from .common import PropBase


def unhex(h):
    return b"" if h == "-" else bytes.fromhex(h)


class Prop(PropBase):
    ID = "C14"
    LEVEL = "proof"
    LEAN_MODULES = ["Tpp.Props.C14"]
    REQUIRED = ["Tpp.Props.C14." + n for n in ("C14_stdout", "C14_channel_parametric", "C14_equals_run")]
    RULE = ("child processes: each script (terminal operations incl. raw terminal.write of arbitrary bytes with NUL and "
            ">=0x80, write sizes 0..64 KiB, many small writes) is executed in a child whose terminal is bound to the real "
            "terminalpp::stdout_channel; the parent reads the child's stdout pipe to EOF and compares it byte for byte "
            "with (a) the bytes the capturing test channel received for the same operations in the executor and (b) the "
            "model's output. Non-trivial: the script writes at least one byte; distinct by script text.")
    ASSUMPTIONS = ["OS pipe and iostream flushing at process exit are observed, not proved (level: partial for the runtime)"]

    @staticmethod
    def cases(tier, rng):
        # the same scripts (without child-only ops) also go through executor/driver for the model tie
        return [Case(l, tag="script", oracle=False) for l in Prop.scripts(tier, rng) if " wr " not in l]

    @staticmethod
    def scripts(tier, rng):
        r = __import__("random").Random(rng.random())
        out = []
        e = tg.fmt_el([5, 72, 0, 0] + tg.DEFAULT_ATTR)
        out.append("T 0 ; we " + e)
        out.append("T 0 ; ws 3 %s %s %s ; mv 2 3 ; er 0" % (e, e, e))
        out.append("T 12 ; ti 3 65 66 67 ; hc ; sc")
        for n in (0, 1, 2, 255, 256, 4095, 4096, 4097, 65536):
            data = [r.randrange(256) for _ in range(n)]
            out.append("T 0 ; wr %d %s" % (n, " ".join(map(str, data))))
        out.append("T 0 ; wr 4 0 255 0 128 ; wr 0 ; wr 3 27 91 109 ; wr 1 10")
        out.append("T 0 ; " + " ; ".join("wr 1 %d" % b for b in range(256)))
        n = 40 if tier == "quick" else 400
        for _ in range(n):
            line = tg.history(r, r.choice([1, 3, 8, 20, 60]), graphic=r.random() < 0.5)
            if r.random() < 0.5:
                k = r.choice([1, 7, 300])
                line += " ; wr %d %s" % (k, " ".join(str(r.choice([0, 10, 13, 27, 128, 255, r.randrange(256)])) for _ in range(k)))
            out.append(line)
        return out

    @staticmethod
    def custom_check(tier, rng, ctx):
        build = ctx["build"]
        child = build.build_harness("stdout_child")
        scripts = Prop.scripts(tier, rng)
        # expected: the capturing channel in the executor (real library), for scripts without child-only ops;
        # for `wr` ops the expectation is the bytes themselves
        plain = [s for s in scripts if " wr " not in s]
        expected = {}
        if ctx["exe"] and plain:
            rc, ans, err = build.run_lines(ctx["exe"], plain)
            for s, a in zip(plain, ans):
                expected[s] = b"".join(unhex(seg.split(" / ")[0].strip()) for seg in a.split(" ; ")) if a != "-" else b""
        model = {}
        if ctx["driver"] and plain:
            rc, ans, err = build.run_lines(ctx["driver"], plain)
            for s, a in zip(plain, ans):
                model[s] = b"".join(unhex(seg.split(" / ")[0].strip()) for seg in a.split(" ; ")) if a != "-" else b""
        failures, samples, nbytes, nontrivial = [], [], 0, set()
        env = dict(os.environ, ASAN_OPTIONS="detect_leaks=0")
        for s in scripts:
            body = s[1:].strip()  # drop the kind letter
            p = subprocess.run([child], input=(body + "\n").encode(), stdout=subprocess.PIPE, stderr=subprocess.PIPE, env=env, timeout=120)
            got = p.stdout
            if " wr " in s and s not in expected:
                exp = b""
                # expectation by construction: library ops are not mixed with wr in the fixed list except histories
                segs = [x.strip() for x in s.split(";")[1:]]
                pure = all(x.startswith("wr") for x in segs if x)
                if pure:
                    for x in segs:
                        nums = x.split()[2:]
                        exp += bytes(int(v) for v in nums)
                else:
                    # mixed: run the library part through the executor op by op is not possible with wr; compare suffix/prefix
                    lib = " ; ".join([s.split(";")[0].strip()] + [x for x in segs if x and not x.startswith("wr")])
                    rc, ans, err = build.run_lines(ctx["exe"], [lib])
                    libbytes = b"".join(unhex(seg.split(" / ")[0].strip()) for seg in ans[0].split(" ; ")) if ans and ans[0] != "-" else b""
                    tail = b""
                    for x in segs:
                        if x.startswith("wr"):
                            tail += bytes(int(v) for v in x.split()[2:])
                    exp = libbytes + tail  # histories append their wr ops at the end
            else:
                exp = expected.get(s, b"")
            nbytes += len(exp)
            if exp:
                nontrivial.add(s)
            ok = (p.returncode == 0 and got == exp and (s not in model or model[s] == exp))
            if len(samples) < 4:
                samples.append({"script": s[:200], "stdout_bytes": len(got), "expected_bytes": len(exp)})
            if not ok:
                failures.append({"what": "child stdout differs from the capturing channel", "signature": "C14 stdout-differs",
                                 "lines": [s[:2000]], "returncode": p.returncode, "stdout_hex": got[:200].hex(), "expected_hex": exp[:200].hex(),
                                 "stdout_len": len(got), "expected_len": len(exp), "stderr": p.stderr.decode("utf-8", "replace")[-500:]})
        return {"children_run": len(scripts), "bytes_expected": nbytes, "distinct_nontrivial_scripts": len(nontrivial),
                "samples": samples, "failures": failures}
