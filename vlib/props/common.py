"""shared helpers for property modules"""
TRUSTED_COMMON = [
    "Lean 4.33 kernel (thorough tier: leanchecker re-check of the property module)",
    "Tpp.Ref (specification side) as written in lean/Tpp/Ref",
    "harness/extract_consts.cpp (regenerates constants/tables from /repo/include)",
    "harness/exec.cpp + vlib (python generators, differ) + Lean driver parsing/printing",
    "g++ 12, libstdc++, fmt, glibc (atoi/isdigit modelled)",
]


class PropBase:
    LEVEL = "proof"
    ALL_EXHAUSTIVE = False
    ASSUMPTIONS = []
    TRUSTED_BASE = TRUSTED_COMMON

    @classmethod
    def verdict_concerns(cls, v):
        return (" " + cls.ID) in (" " + v.replace(",", " "))

    @classmethod
    def signature(cls, case, verdict):
        return cls.ID + ":" + case.line
